#!/usr/bin/env python3
"""Regenerates /verif/MANIFEST.json from the table below (single source of truth for claims)."""
import json, os
HERE = os.path.dirname(os.path.dirname(os.path.abspath(__file__)))
props = [json.loads(l)["id"] for l in open(os.path.join(HERE, "properties.jsonl"))]

# id -> (technique, level text, level note, design ref)
CLAIMS = {
 "C19": ("Coq theorems over a hand-written Gallina model of scoringscheme.py + vm_compute correspondence",
         "Machine-checked theorems (construct_ok_iff, error-kind characterisations, totality, mul_valid, is_equivalent_iff, "
         "nickname_spec, score homogeneity) for every constructor argument shape and every integer penalty tuple; the model is tied "
         "to the code by running both on the rule lattice, malformed arguments, multipliers and scheme pairs, compared inside Coq.",
         "Trusted: Coq kernel + vm_compute; hand-written model; harness; floats represented on the 1/8000 grid (NaN/inf/non-dyadic not modelled).",
         "DESIGN.md section 4, C19"),
 "C02": ("Coq theorems over a Gallina model of the numba cost-table kernel + vm_compute correspondence on whole tables",
         "Machine-checked: every off-diagonal entry of the model's matrix equals the definition (sums of B/T penalties by pair status), "
         "mirror consistency, positions vs bucket ids give the same table, and the entries selected by any duplicate-free candidate over the "
         "universe add up to kemeny_spec; all for unbounded datasets/schemes. The jitted kernel is tied to the model by comparing full "
         "n x n x 3 tables, id order, position and bucket-id matrices; the library's tables are also checked against the definition itself.",
         "Trusted: Coq kernel + vm_compute; hand-written model; harness; exact float sums on the 1/8000 grid; unit weights.",
         "DESIGN.md section 4, C02"),
 "C13": ("Coq theorems over a Gallina model of copeland.py (on the proved cost table) + vm_compute correspondence",
         "Machine-checked for all tables/datasets: outcome of a pair = comparison of the definitional before/after costs, antisymmetry "
         "(victory of x = defeat of y), counts sum to n-1, scores sum to n(n-1)/2, consensus is a partition of the universe into non-empty "
         "buckets in decreasing score order tied exactly on equal scores (generic sort-and-group lemma). Consensus, copeland_scores and "
         "copeland_victories of the library are compared with the model and re-checked against the cost definition inside Coq.",
         "Trusted: Coq kernel + vm_compute; hand-written model; harness; numpy argsort returns a permutation; float scores on the half-point grid.",
         "DESIGN.md section 4, C13"),
 "C01": ("Coq model of kemeny_score_computation.py (function by function) + spec kemeny_spec; theorem model = spec for all inputs + vm_compute correspondence model = code",
         "Machine-checked for all inputs (unbounded sizes): the model of get_kemeny_score returns exactly the generalized pairwise-penalty sum "
         "(C01_kemeny_impl_correct) for every scheme with the documented relations and every duplicate-free candidate / dataset, and refuses "
         "exactly when the candidate lacks a dataset element (C01_kemeny_impl_total); each counter of the code is characterised (merge sort "
         "inversion count, within-bucket runs, bucket loop, prefix tables). Tie to the code: the model, the literal specification and the library's "
         "answer are evaluated inside Coq on the same inputs (API level and the eight per-ranking counters). For sizes no evaluation can follow "
         "(tens of thousands of elements) the library is judged against a proved closed form (C01_all_tied_against_strict, C01_reversed_against_strict: one strict "
         "ranking against the candidate that ties all its elements / that reverses it).",
         "Trusted: Coq kernel + vm_compute; hand-written model tied by correspondence only; harness; exact float sums on the 1/8000 grid.",
         "DESIGN.md section 4, C01"),
 "C20": ("Coq invariant-by-induction over a Gallina model of the Markov moves of ranking.py + exhaustive per-move correspondence",
         "Machine-checked: each of the six moves preserves the dense-bucket-numbering invariant (under the guards the code applies), "
         "every complete walk keeps it with no absent element, every incomplete walk keeps it with the missing set equal to the -1 entries, "
         "decoding a dense vector gives non-empty disjoint buckets over the present elements, complete generation always yields all n elements, "
         "incomplete generation yields a valid partial ranking or nothing exactly when every element was removed; uniform permutations. "
         "Unbounded n, steps and scripts. Tie to the code: the six name-mangled static methods on every dense vector of length <= 4/5 "
         "(exhaustive), whole walks with scripted randint, Dataset-level wrappers judged in Coq.",
         "Trusted: Coq kernel + vm_compute; hand-written model; harness (randint patched as a module attribute); numpy boolean-mask updates as modelled; n>=1, m>=1.",
         "DESIGN.md section 4, C20"),
 "C12": ("Coq theorems over a Gallina model of borda.py / unified_rankings (exact rational means) + vm_compute correspondence",
         "Machine-checked for all datasets: the consensus is a partition of the universe into non-empty buckets, x before y iff "
         "mean(x) < mean(y) and tied iff equal (means = sum/count over the rankings that rank the element); unification appends exactly the "
         "missing elements as one last bucket so unranked elements score the size of the ranked part / next bucket index; the induced order "
         "does not depend on the order of the rankings; refusal iff (incomplete and scheme not a positive multiple of the four families); "
         "multiples accepted; complete data never refused. The library's consensus is compared with the model and re-judged against the "
         "documented score definition inside Coq. The library compares binary64 quotients where the model compares exact means: proved to "
         "agree (Flocq) for totals <= 2^20 and counts <= 2^10.",
         "Trusted: Coq kernel + vm_compute; model; harness. The float side is a theorem too (C12_float_means_compare_exactly, FloatMeans.v on Flocq): "
         "binary64 round-to-nearest quotients of totals <= 2^20 by counts <= 2^10 compare exactly like the rationals; that theorem alone depends on the "
         "standard library's real-number axioms (ClassicalDedekindReals.sig_forall_dec, sig_not_dec, Classical_Prop.classic, "
         "FunctionalExtensionality.functional_extensionality_dep), as Print Assumptions reports; that Python's / on these operands is the "
         "correctly rounded IEEE-754 division is assumed.",
         "DESIGN.md section 4, C12"),
 "C10": ("Coq scan-invariant proof over a Gallina model of pickaperm.py + vm_compute correspondence",
         "Machine-checked for all datasets / scoring functions: every returned ranking is an input (unified when incomplete) of minimal "
         "score, the reported minimum is a lower bound of all inputs, with return_at_most_one_ranking=False every minimal input is returned, "
         "with True exactly one; refusal iff incomplete and scheme not a positive multiple of the unifying scheme; unification spec. "
         "The library's list of rankings and reported score are compared with the model and re-judged against kemeny_spec in Coq.",
         "Trusted: Coq kernel + vm_compute; model; harness; the scores are kemeny_spec (C01 ties get_kemeny_score to it).",
         "DESIGN.md section 4, C10"),
 "C11": ("Coq theorems over a Gallina model of kwiksortabs/kwiksortrandom (pivot script as input) + exhaustive pivot-script correspondence",
         "Machine-checked for all datasets, schemes and pivot scripts: the vectorised placement test equals the tie-preferring then "
         "before-preferring arg-min of the definitional costs; every run returns a partition into non-empty buckets; if the preferences "
         "form a ranking with ties the result orders and ties the elements exactly as that ranking for every script and every listing of "
         "the universe; identical rankings are returned unchanged when T0 > 0; each recursion step places every element w.r.t. its pivot "
         "according to the placement test. Tie to the code: random.choice scripted, ALL n^n scripts for universes <= 4, random beyond; "
         "_where_should_it_be at unit level.",
         "Trusted: Coq kernel + vm_compute; model; harness (choice patched as module attribute; list(universe) order observed).",
         "DESIGN.md section 4, C11"),
 "C18": ("Coq model of the index-based scanner, from_string, str(Ranking), file reader/writer; totality and round-trip theorems + exhaustive text correspondence",
         "Machine-checked for every ASCII string: the scanner loop never runs out of fuel, hence parse / from_string / the file reader return a "
         "value or ValueError and nothing else. Machine-checked for every printable ranking (non-empty disjoint buckets of non-negative integers, "
         "or of strings without [ ] { } , : and without white space at either end that are not all digits): from_string of its text - brace or "
         "bracket notation, any surrounding white space, any prefix ending with a colon - gives the ranking back (C18_roundtrip_string, "
         "C18_roundtrip_string_prefixed); for every dataset of such rankings (all integers, or all strings int() refuses, no newline inside a "
         "name) reading the written text gives the dataset back (C18_roundtrip_file). The model reproduces Python's find/rfind/slice clamping, "
         "strip, split, int(); it agrees with the library on EVERY string of length <= 4 (5) over the format alphabet, on edited near-valid "
         "renderings and on generated rankings / datasets (string both notations, file).",
         "Trusted: Coq kernel + vm_compute; hand-written model tied by correspondence; harness; ASCII only.",
         "DESIGN.md section 4, C18"),
 "C16": ("Coq invariant theorems over a Gallina model of Ranking/Dataset (typed names) + history correspondence judged in Coq",
         "Machine-checked for all inputs: the Ranking constructor yields duplicate-free disjoint buckets whose positions dictionary has the "
         "elements as keys and 1 + #elements-before as values; every analysed dataset (hence the result of every constructor, mutator, "
         "unified_dataset, projection, and of ANY sequence of remove_elements / rate filtering / remove_empty_rankings) has a duplicate-free id "
         "list covering exactly the union of the domains, homogeneous element types (all int iff every name integer-like), correct "
         "completeness / tie flags; matrices agree entry-wise; unification and projection specs. Tie to the code: after every step of random "
         "histories the complete public snapshot (positions dicts, domains, both maps, flags, universe, both matrices) is judged in Coq.",
         "Trusted: Coq kernel + vm_compute; model; harness; set/dict iteration order observed, not modelled; failed mutators end a history.",
         "DESIGN.md section 4, C16"),
 "C17": ("Coq theorems about the multiset-equality model of Dataset.__eq__ + correspondence on hash-colliding variants",
         "Machine-checked: the model's equality holds exactly when every ranking (buckets as sets, in order) has the same multiplicity in "
         "both datasets; it is reflexive, symmetric, invariant under permuting the rankings and under any re-listing of bucket members, and "
         "coincides with ranking equality on singletons. The library's == (both directions, != and == with a deep copy) is compared with it on "
         "permuted / re-inserted / duplicated / near-miss variants including members that collide in CPython's hash table.",
         "Trusted: Coq kernel + vm_compute; model; harness; names are ints or ASCII strings.",
         "DESIGN.md section 4, C17"),
 "C06": ("Coq theorems: exchange lemma, decomposition of the optimum along a partition, model of the ParCons assembly (sub-solvers as parameters) and its flag; model = code by vm_compute correspondence incl. the recorded sub-solver calls",
         "Machine-checked for all tables / datasets: every ordered partition without back arcs admits an optimal consensus ranking earlier "
         "groups strictly before later ones (exchange lemma); the concatenation of optimal consensuses of the groups is a global optimum "
         "(C06_assembled_optimal); the sub-problem given to a sub-solver (projection + re-added empty rankings) has the cost table of the whole "
         "problem on the group (C06_sub_problem_table); the model of the ParCons assembly returns a ranking of the universe respecting the "
         "partition, sets the mark exactly when no component goes to the auxiliary algorithm (C06_flag_iff), and a marked consensus is a "
         "global minimiser provided the exact sub-solver returns sub-problem optima (C06_parcons; that premise is property C05); the partition "
         "the MODEL computes (Floyd-Warshall closure, mutual-reachability classes sorted by number of ancestors) is an ordered partition "
         "without back arcs for every table (C06_model_partition), so ParCons on it needs no assumption on the partition. Per run, in "
         "Coq: model assembly = library consensus and flag, one recorded sub-solver call per non-trivial component on exactly the model's "
         "sub-problem, model SCCs = library SCCs as sets, verified no-back-arc test on the library's partition, flag => score = verified "
         "brute-force optimum (universes <= 6).",
         "Trusted: Coq kernel + vm_compute; model tied by correspondence; harness (records sub-solver calls by wrapping them); CBC (through PuLP), igraph and the auxiliary heuristics are outside the model and only judged per run.",
         "DESIGN.md section 4, C06"),
 "C07": ("Coq theorems on the model of the ParFront merge loop (strict exchange + transitivity) and of consistent_with (total, iff); model = code by vm_compute correspondence",
         "Machine-checked end to end on the model: from ANY partition of the universe without back arcs, the merge loop terminates, "
         "concatenates consecutive groups without reordering, ends with all consecutive groups robustly linked, and EVERY optimal consensus "
         "ranks each group strictly before the later ones; is_optimal <-> score = opt; started from the partition the model computes, nothing "
         "is assumed (C07_model_parfront). Outside the model (judged per run with the verified "
         "boolean tests): igraph's SCC order. Per run: merge-loop model = library on the library's SCC order; all optimal position functions "
         "enumerated in Coq respect the returned partition (<= 5/6 elements). consistent_with (model) is proved total and True exactly when the "
         "element counts agree and earlier groups are strictly before later ones (C07_consistent_with_iff); model = code on ALL (partition, "
         "ranking) pairs over 3/4 elements.",
         "Trusted: Coq kernel + vm_compute; model; harness; igraph's SCC order taken as given.",
         "DESIGN.md section 4, C07"),
 "C05": ("Coq model of the PuLP integer program (rows, objective, decoder) with formulation theorems + verified brute-force optimum; program and solver answer captured at LpProblem.solve and judged in Coq",
         "Machine-checked for all tables and sizes: the integer program of ExactAlgorithmPulp (binary, transitivity and component-fixing rows; "
         "objective; the source's decoder) is a correct formulation - every ranking with ties respecting the component order is a feasible point "
         "with objective = its score, every feasible point decodes to a ranking with ties whose score is the objective, hence decoding ANY "
         "optimal feasible point gives a global optimum and the minimum of the program is opt (C05_ilp_optimal, C05_ilp_min_reached); opt is "
         "the minimum over all rankings with ties (lower bound, attained); soundness of the component decomposition. PARTIAL in one respect: "
         "the branch-and-bound of the solver (CBC) is outside the model - 'its answer is optimal for the program it was given' is an "
         "assumption, tested on every run against the verified brute force (<= 5 elements in the ilp suite, <= 6 in the exact suite). Per run, "
         "in Coq: captured program = model program row for row, answer integral and feasible for the model rows, model decoder = returned "
         "consensus, objective = reported score = opt, consensus well-formed, flagged optimal, selector (CPLEX absent: free-solver fallback) "
         "and free-solver model; suite reuse: ONE algorithm object answers six calls in a row (same dataset under schemes agreeing on their "
         "first three penalties, an equal dataset built anew, another dataset), each answer judged against the optimum of ITS inputs. CPLEX itself is not installed: the CPLEX models (optimize on / off, one / all optimal consensuses, the optim1 "
         "variant, the CPLEX branch of the selector) run on a stand-in for the CPLEX API (harness/standin/cplex: same calls, CBC underneath); their "
         "program = model program row for row, every solution feasible for the model rows and decoded by the model decoder, 'all optimal "
         "consensuses' = the set of ALL minimisers enumerated in Coq; the no-tie rows are proved to lose no optimum (C05_cplex_notie_optimal) "
         "- the threshold 0.001 of the source did lose some (finding F15, repaired).",
         "Trusted: Coq kernel + vm_compute; model tied by correspondence; harness (captures the program by wrapping LpProblem.solve; CPLEX-API stand-in); CBC's optimality judged per run only; the real CPLEX is never run.",
         "DESIGN.md section 4, C05"),
 "C08": ("Coq model of the jitted BioConsert kernels proved correct (difference arrays, scans, moves, sweep loop, termination) + sound local-optimality test; model = code by vm_compute correspondence",
         "Machine-checked for all tables, sizes and departure vectors: the arrays filled by _compute_delta_costs are the difference arrays of the "
         "true score variations; each search returns the first improving bucket / new-bucket position (right then left) with the true variation, "
         "or -1 exactly when no move improves by more than the threshold; _change_bucket / _add_bucket realise the intended move and keep the "
         "bucket numbering dense; every accepted move lowers the true score by the recorded delta; the loop terminates (fuel bound proved and "
         "used by the judges); its result passes local_opt, which is sound: no single-element move into an existing bucket or a new bucket at any "
         "position improves the returned ranking by more than 0.001 (C08_bio_one, C08_bioconsert_local_optimum; in the terms of the statement, "
         "with generalized Kemeny scores of rankings over the elements: C08_local_optimum_over_elements). Tie to the code: the model "
         "returns exactly the vector and delta of the jitted _improve_one_ranking from every tie/order pattern of length <= 4 and random vectors "
         "up to 8 elements, and predicts the API's consensus and score under 7 starter configurations; every returned ranking is also run "
         "through local_opt in Coq.",
         "Trusted: Coq kernel + vm_compute; hand-written model tied by correspondence; harness; numba's float64 arithmetic taken as exact on the 1/8000 grid.",
         "DESIGN.md section 4, C08"),
 "C09": ("Coq theorem on the model of BioConsert (monotone local search + minimum selection) + vm_compute correspondence of departures and results",
         "Machine-checked: the score reached from a departure vector is its true score and is at most the departure's (every accepted move "
         "lowers the true score); the selection reports the minimum and returns only rankings with that score; hence the reported score, shared "
         "by all returned rankings, is at most the score of EVERY departure (C09_never_worse); the model's departures are dense vectors; in "
         "the terms of the statement (C09_default_bioconsert, C09_with_starters): the model always answers, every returned ranking is a "
         "ranking of the universe with the reported generalized Kemeny score, at most the score of every input ranking completed with its "
         "missing elements in a last bucket, of the all-tied ranking, resp. of the consensus of each starting algorithm; "
         "PickAPerm's answer is the minimum over the (unified) inputs. Per run, in Coq: the departure vectors are recomputed by the model in the id "
         "space of the input dataset (unified inputs + all-tied, or the starters' own consensus), the model's consensus and score = the library's, "
         "and every returned ranking scores at most each departure; starters Borda, Copeland, PickAPerm, BioCo, two and three at once.",
         "Trusted: as C08.",
         "DESIGN.md section 4, C09"),
 "C04": ("Per-run judgement in Coq of every reported score against kemeny_spec + theorems for the pieces that are pure",
         "Machine-checked: the score computed on demand by the Consensus object (model of get_kemeny_score) is the definition (C01 main theorem); "
         "the objective value reported by the exact algorithm is the score of the ranking its decoder returns, on every feasible point "
         "(C04_solver_objective); PickAPerm's reported minimum is the score of every returned ranking; kemeny_spec >= 0; the cost table sums to "
         "the score; BioConsert's bookkeeping (initial score + accumulated deltas) is the true score of every vector it returns "
         "(C04_bioconsert_bookkeeping). Per run, in Coq, for 13 algorithm configurations and both values of return_at_most_one_ranking: kemeny_score, "
         "features[KEMENY_SCORE] and description() give a number equal (1e-6) to kemeny_spec of EVERY returned ranking, never absent or "
         "negative; lazily computed scores equal the model of the Kemeny routine on the first ranking.",
         "Trusted: Coq kernel + vm_compute; model; harness; CBC objective value read through PuLP.",
         "DESIGN.md section 4, C04"),
 "C03": ("Coq well-formedness theorems for the modelled algorithms + per-run judgement in Coq of every returned consensus",
         "Machine-checked for all inputs: Borda (both variants), Copeland, KwikSort (every pivot script) return a partition of "
         "the universe into non-empty buckets; unified rankings (PickAPerm's candidates) rank exactly the universe; decoding a dense bucket-id "
         "vector gives non-empty disjoint buckets; the defeat-count decoder of the exact algorithm returns non-empty disjoint buckets over all ids on "
         "every feasible point of its program; the ParCons concatenation ranks exactly the universe given well-formed sub-answers; BioConsert's "
         "local search keeps its vectors dense and its decoder turns a dense vector into non-empty disjoint buckets over the universe (C03_bioconsert_wf). Per run, judged in Coq on typed names: 15 configurations x datasets over ints, "
         "colliding ints, letters, digit strings, mixed names, duplicates, empty rankings, one element, both values of "
         "return_at_most_one_ranking: >= 1 ranking (exactly 1 when asked), non-empty disjoint buckets, union = universe with types preserved, "
         "positions/domain/size consistent.",
         "Trusted: Coq kernel + vm_compute; models; harness; solver, igraph and random pivots outside the model.",
         "DESIGN.md section 4, C03"),
 "C14": ("Coq theorems by induction over the tree of algorithm configurations + correspondence of predicate and compute outcomes",
         "Machine-checked over all configuration trees (BioConsert with any starters, ParCons with any auxiliary, any nesting) and all schemes: the "
         "predicate is a total boolean function; complete datasets are never refused; predicate true => compute goes through on incomplete "
         "data; for Borda, PickAPerm, BioCo and BioConsert over lists of those, refusal on incomplete data <=> predicate false; Borda's "
         "predicate <=> positive multiple of the four families. Tie to the code: predicate value and compute outcome (ok / documented refusal / "
         "other exception) on a complete and an incomplete dataset for leaves, nested and random trees x presets, multiples and one-entry "
         "near-misses of B and T.",
         "Trusted: Coq kernel + vm_compute; model; harness; ParCons' outcome when its auxiliary is not relevant depends on component sizes (left open by the model).",
         "DESIGN.md section 4, C14"),
 "C15": ("Abstract-machine theorems in Coq (thin) + history correspondence with order-sensitive snapshots compared in Coq",
         "The proof part is deliberately thin: in a pure model inputs cannot change, so the theorems only fix the machine the library must "
         "refine (state after any call sequence = initial state; outputs = outputs on fresh copies; repeated deterministic call = same "
         "output). Refinement is decided by translation validation of histories: 3-12 calls drawn from 21 operations on SHARED dataset and "
         "scheme objects; after every call the complete order-sensitive snapshot (bucket listing order, positions dicts, both id maps, flags, "
         "universe, both matrices, name, penalty vectors) is compared in Coq with the initial one, and each output with the output on fresh "
         "deep copies and with a second call. The ALGORITHM objects are shared too (one instance per configuration for the whole history) and every "
         "history runs in two phases under two schemes that agree on their first three penalties, so state kept by an algorithm object "
         "between calls shows as an output different from the one on fresh objects.",
         "Trusted: Coq kernel + vm_compute; harness (deep copies, public accessors); Python aliasing semantics itself is not modelled.",
         "DESIGN.md section 4, C15"),
}
TIE = {"C01": ["kemenymerge"], "C02": ["step6"], "C04": ["delta", "initscore", "biokernel"], "C05": ["step6"], "C06": ["graph", "step6"], "C07": ["graph", "step6"],
       "C08": ["delta", "moves", "biokernel", "step6"], "C09": ["delta", "initscore", "biokernel"], "C11": ["where"], "C13": ["copeland", "step6"],
       "C19": ["scheme"], "C20": ["markov"]}
NOT_YET = "check not built yet in this phase (planned: DESIGN.md section 4); no claim is made"

checks, na = [], []
for p in props:
    if p in CLAIMS:
        tech, text, note, ref = CLAIMS[p]
        if p in TIE:
            tech += (" + translation tie: tools/py2coq.py regenerates the kernel(s) " + ", ".join(TIE[p]) +
                     " from the current source at every run and coq/gen_equiv/Equiv_*.v re-proves them equal to the model's definitions"
                     + (" (biokernel: every jitted kernel of the local search translated statement by statement, loops included, and proved "
                        "to compute the model's improve_one_ranking)" if "biokernel" in TIE[p] else "")
                     + (" (kemenymerge: __merge with its five while loops and the run-length walk of s_1[2], translated statement by statement and "
                        "proved to compute the model's merge / run_pairs)" if "kemenymerge" in TIE[p] else ""))
            note += (" The translator tools/py2coq.py (python ast -> Gallina, fail-closed on any construct it does not know) is trusted for "
                     "the kernels it regenerates; everything else is tied by the correspondence check. A kernel whose current source is outside the "
                     "translator's subset is reported as 'translation tie unavailable' (a note; the property is then decided by model + "
                     "correspondence alone); a kernel that translates but is no longer provably the model's is a violation.")
        checks.append({
            "property_id": p,
            "quick_cmd": f"./check {p} --tier quick",
            "thorough_cmd": f"./check {p} --tier thorough",
            "evidence_file": f"/verif/evidence/{p}.json",
            "replay_cmd_template": f"./check {p} --replay {{path}}",
            "engine": "coq-model-correspondence",
            "level_claimed": {"category": "proof", "text": text, "design_ref": ref},
            "level_note": note,
            "technique": tech,
        })
    else:
        na.append({"property_id": p, "reason": NOT_YET})
m = {
 "version": 1,
 "setup_cmd": "cd /verif/coq && coq_makefile -f _CoqProject -o Makefile && make -j16",
 "hooks": {"guard": "CORANKCO_VERIF", "enable": "no source hooks are needed: every observation point is reachable from Python; the checks export CORANKCO_VERIF=1 anyway",
           "baseline_off_cmd": "cd /repo && /venv/bin/python -m pytest -ra -q -p no:cacheprovider --timeout=900 --continue-on-collection-errors",
           "source_commits": [], "add_only": True},
 "engines": [{"name": "coq-model-correspondence", "path": "/verif/coq + /verif/harness",
              "serves_properties": sorted(CLAIMS), "kind_free_text": "Coq 8.16.1 development (hand-written Gallina model, theorems in coq/theories/Props) + Python differential harness whose comparisons are evaluated by vm_compute in generated case files"}],
 "checks": checks,
 "not_applicable": na,
 "notes": "See DESIGN.md. known_findings.json lists repaired (fixed:) and recorded defects.",
}
json.dump(m, open(os.path.join(HERE, "MANIFEST.json"), "w"), indent=1)
print("claimed:", sorted(CLAIMS), "not claimed:", [x["property_id"] for x in na])
