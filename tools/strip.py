import ast,sys
src=open(sys.argv[1]).read()
tree=ast.parse(src)
skip=set()
for node in ast.walk(tree):
    if isinstance(node,(ast.FunctionDef,ast.ClassDef,ast.Module,ast.AsyncFunctionDef)):
        b=node.body
        if b and isinstance(b[0],ast.Expr) and isinstance(getattr(b[0],'value',None),ast.Constant) and isinstance(b[0].value.value,str):
            for l in range(b[0].lineno,b[0].end_lineno+1): skip.add(l)
for i,l in enumerate(src.split('\n'),1):
    if i in skip or not l.strip(): continue
    print(f"{i}\t{l}")
