#!/venv/bin/python
"""Classic mutation testing of the library against the checks (a development tool, not a registered command).

usage: tools/mutation_sweep.py <out.jsonl> [--sample N] [--workers K] [--files f1,f2,...] [--seed S]

For every mutation point of the library's source (comparison / arithmetic / boolean operators, small constants, `not`, boolean
returns, augmented assignments), one mutant is built in a scratch worktree of /repo (never in /repo itself).  A mutant that the
library's own test suite kills is of no interest here; for a mutant that SURVIVES the 52 tests, the quick checks of the properties
anchored in the mutated file are run (VERIF_REPO=<worktree>, own scratch area) until one of them reports a violation.  A mutant that
survives both is either equivalent (no observable change) or a gap of the checks - to be read by hand.
Runs from the directory given by VERIF_HOME (default /verif): use a frozen snapshot for long sweeps.
"""
import ast
import json
import os
import random
import subprocess
import sys
import concurrent.futures

HOME = os.environ.get("VERIF_HOME", "/verif")
MAXCHECKS = int(os.environ.get("MUT_MAXCHECKS", "9"))
REPO = "/repo"
MAP = {
    "kemeny_score_computation.py": ["C01", "C04", "C10"],
    "algorithms/pairwisebasedalgorithm.py": ["C02", "C13", "C06", "C07", "C08"],
    "dataset.py": ["C16", "C17", "C14", "C12", "C18", "C02"],
    "ranking.py": ["C20", "C16", "C17", "C18"],
    "element.py": ["C16", "C17", "C03"],
    "scoringscheme.py": ["C19", "C12", "C14", "C10"],
    "consensus.py": ["C04", "C13", "C01", "C07"],
    "utils.py": ["C18"],
    "algorithms/borda/borda.py": ["C12", "C14", "C03"],
    "algorithms/copeland/copeland.py": ["C13", "C03"],
    "algorithms/pickaperm/pickaperm.py": ["C10", "C14", "C03"],
    "algorithms/kwiksort/kwiksortabs.py": ["C11", "C03"],
    "algorithms/kwiksort/kwiksortrandom.py": ["C11", "C03"],
    "algorithms/bioconsert/bioconsert.py": ["C08", "C09", "C04", "C03"],
    "algorithms/bioconsert/bioco.py": ["C08", "C03", "C14"],
    "algorithms/parcons/parcons.py": ["C06", "C03", "C14"],
    "algorithms/exact/exactalgorithmpulp.py": ["C05", "C03"],
    "algorithms/exact/exactalgorithm.py": ["C05", "C03"],
    "algorithms/exact/exactalgorithmbase.py": ["C05"],
    "algorithms/exact/exactalgorithmcplex.py": ["C05"],
    "partitioning/ordered_partition.py": ["C07", "C06"],
    "algorithms/algorithm_choice.py": ["C03"],
    "algorithms/rank_aggregation_algorithm.py": ["C14", "C03"],
}
CMP = {ast.Lt: ast.LtE, ast.LtE: ast.Lt, ast.Gt: ast.GtE, ast.GtE: ast.Gt, ast.Eq: ast.NotEq, ast.NotEq: ast.Eq,
       ast.Is: ast.IsNot, ast.IsNot: ast.Is, ast.In: ast.NotIn, ast.NotIn: ast.In}
BIN = {ast.Add: ast.Sub, ast.Sub: ast.Add, ast.Mult: ast.FloorDiv, ast.FloorDiv: ast.Mult, ast.Div: ast.Mult}


class Points(ast.NodeVisitor):
    """enumerates the mutation points of a module (docstrings and annotations are left alone)"""
    def __init__(self):
        self.points = []

    def visit_Compare(self, node):
        for i, op in enumerate(node.ops):
            if type(op) in CMP:
                self.points.append(("cmp", node, i))
        self.generic_visit(node)

    def visit_BinOp(self, node):
        if type(node.op) in BIN:
            self.points.append(("bin", node, None))
        self.generic_visit(node)

    def visit_BoolOp(self, node):
        self.points.append(("bool", node, None))
        self.generic_visit(node)

    def visit_UnaryOp(self, node):
        if isinstance(node.op, ast.Not):
            self.points.append(("not", node, None))
        self.generic_visit(node)

    def visit_Constant(self, node):
        if isinstance(node.value, bool):
            self.points.append(("const", node, not node.value))
        elif isinstance(node.value, int) and -2 <= node.value <= 6:
            self.points.append(("const", node, node.value + 1))
            if node.value != 0:
                self.points.append(("const", node, node.value - 1))
        elif isinstance(node.value, float) and node.value in (0.0, 0.5, 1.0):
            self.points.append(("const", node, {0.0: 1.0, 0.5: 1.0, 1.0: 0.5}[node.value]))

    def visit_AugAssign(self, node):
        if type(node.op) in BIN:
            self.points.append(("aug", node, None))
        self.generic_visit(node)

    def visit_AnnAssign(self, node):      # skip the annotation
        if node.value is not None:
            self.visit(node.value)
        self.visit(node.target)

    def visit_FunctionDef(self, node):
        body = node.body
        if body and isinstance(body[0], ast.Expr) and isinstance(getattr(body[0], "value", None), ast.Constant) and isinstance(body[0].value.value, str):
            body = body[1:]
        for d in node.decorator_list:
            pass                            # decorators (numba signatures) are left alone
        for a in node.args.defaults + node.args.kw_defaults:
            if a is not None:
                self.visit(a)
        for st in body:
            self.visit(st)

    def visit_Expr(self, node):
        if isinstance(node.value, ast.Constant) and isinstance(node.value.value, str):
            return
        self.generic_visit(node)


def apply(tree, k):
    pts = Points()
    pts.visit(tree)
    kind, node, extra = pts.points[k]
    before = ast.unparse(node)
    if kind == "cmp":
        node.ops[extra] = CMP[type(node.ops[extra])]()
    elif kind in ("bin", "aug"):
        node.op = BIN[type(node.op)]()
    elif kind == "bool":
        node.op = ast.Or() if isinstance(node.op, ast.And) else ast.And()
    elif kind == "const":
        node.value = extra
    return kind, before, ast.unparse(node), getattr(node, "lineno", 0)


def mutants_of(path):
    src = open(path).read()
    tree = ast.parse(src)
    pts = Points()
    pts.visit(tree)
    out = []
    for k, (kind, node, extra) in enumerate(pts.points):
        if kind == "not":
            continue
        out.append(k)
    return out


def build(path, k):
    src = open(path).read()
    tree = ast.parse(src)
    kind, before, after, line = apply(tree, k)
    return ast.unparse(tree), kind, before, after, line


def run(cmd, cwd=None, env=None, timeout=1800):
    try:
        p = subprocess.run(cmd, shell=True, cwd=cwd, env=env, capture_output=True, text=True, timeout=timeout)
        return p.returncode, p.stdout + p.stderr
    except subprocess.TimeoutExpired:
        return 124, "timeout"


def work(job):
    wid, rel, k = job
    W = f"/tmp/mut/w{wid}"
    path = os.path.join(W, "corankco", rel)
    run(f"git -C {W} checkout -q -- .")
    orig = open(path).read()
    try:
        tree = ast.parse(orig)
        kind, before, after, line = apply(tree, k)
        after_src = ast.unparse(tree)
    except Exception as e:
        return {"file": rel, "k": k, "error": repr(e)}
    # keep the original text except for the mutated line when possible: unparse of the whole module loses comments only
    open(path, "w").write(after_src)
    rec = {"file": rel, "k": k, "kind": kind, "line": line, "before": before, "after": after}
    env = dict(os.environ, PYTHONPATH=W, NUMBA_CACHE_DIR=f"/tmp/mut/numba{wid}", PYTHONDONTWRITEBYTECODE="1")
    run(f"rm -rf /tmp/mut/numba{wid}")
    rc, out = run("/venv/bin/python -m pytest -q -x -p no:cacheprovider --timeout=300 2>&1 | tail -3", cwd=W, env=env, timeout=900)
    rec["tests"] = "pass" if (" passed" in out and "failed" not in out and "error" not in out.lower().split("warnings")[0]) else "killed"
    if rec["tests"] == "pass":
        rec["checks"] = {}
        for c in MAP.get(rel, [])[:MAXCHECKS]:
            env2 = dict(os.environ, VERIF_REPO=W, VERIF_BUILD=f"/tmp/mut/build{wid}")
            rc, out = run(f"./check {c} --tier quick 2>&1 | grep -E 'VIOLATION|^\\[' | head -5", cwd=HOME, env=env2, timeout=1500)
            hard = sum(1 for l in out.splitlines() if "VIOLATION" in l and "no-failing-input-found" not in l)
            soft = sum(1 for l in out.splitlines() if "no-failing-input-found" in l)
            rec["checks"][c] = "failing-input" if hard else "no-failing-input-found" if soft else "quiet"
            if hard or soft:
                break
        rec["verdict"] = "caught" if any(v != "quiet" for v in rec["checks"].values()) else "SURVIVED"
    open(path, "w").write(orig)
    return rec


def main():
    out = sys.argv[1]
    args = sys.argv[2:]
    sample = int(args[args.index("--sample") + 1]) if "--sample" in args else None
    workers = int(args[args.index("--workers") + 1]) if "--workers" in args else 4
    files = args[args.index("--files") + 1].split(",") if "--files" in args else list(MAP)
    seed = int(args[args.index("--seed") + 1]) if "--seed" in args else 1
    os.makedirs("/tmp/mut", exist_ok=True)
    for w in range(workers):
        run(f"git -C {REPO} worktree remove --force /tmp/mut/w{w}")
        run(f"git -C {REPO} worktree add -q --detach /tmp/mut/w{w} HEAD")
    jobs = []
    for rel in files:
        for k in mutants_of(os.path.join(REPO, "corankco", rel)):
            jobs.append((rel, k))
    rng = random.Random(seed)
    rng.shuffle(jobs)
    if sample:
        jobs = jobs[:sample]
    print(len(jobs), "mutants")
    # static assignment of jobs to workers (one worktree each)
    per = [[(w, rel, k) for i, (rel, k) in enumerate(jobs) if i % workers == w] for w in range(workers)]

    def lane(lst):
        res = []
        for j in lst:
            r = work(j)
            with open(out, "a") as f:
                f.write(json.dumps(r) + "\n")
            res.append(r)
        return res
    with concurrent.futures.ThreadPoolExecutor(workers) as ex:
        list(ex.map(lane, per))
    for w in range(workers):
        run(f"git -C {REPO} worktree remove --force /tmp/mut/w{w}")
    run(f"git -C {REPO} worktree prune")


if __name__ == "__main__":
    main()
