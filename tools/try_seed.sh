#!/bin/bash
# tools/try_seed.sh <seed id> <property> [extra properties...] : confirm a seeded breaking change found in /tmp/seed/<id>
# (tests pass with it, demo fails with it and passes without), run the property's check(s) against it, store it.
set -u
ID="$1"; shift
W=${SEED_BASE:-/tmp/seed}/$ID
OUT=/verif/seeded/${SEED_OUT:-$ID${SEED_SUFFIX:-}}
mkdir -p "$OUT"
git -C "$W" diff > "$OUT/patch.diff"
cp "$W"/demo_*.py "$OUT"/ 2>/dev/null
DEMO=$(ls "$W"/demo_*.py | head -1)
cd "$W"
T1=$(PYTHONPATH=$W /venv/bin/python -m pytest -q -p no:cacheprovider --timeout=900 2>&1 | tail -1)
PYTHONPATH=$W timeout 600 /venv/bin/python "$DEMO" > /dev/null 2>&1; D1=$?
git diff > /tmp/try_seed_$ID.patch; git apply -R /tmp/try_seed_$ID.patch
PYTHONPATH=$W timeout 600 /venv/bin/python "$DEMO" > /dev/null 2>&1; D0=$?
git apply /tmp/try_seed_$ID.patch; rm -f /tmp/try_seed_$ID.patch
echo "tests with change: $T1 | demo with change: exit $D1 | demo without: exit $D0"
RES=""
for P in "$@"; do
  L=$(cd /verif && VERIF_BUILD=/tmp/vbuild_try_$ID VERIF_REPO=$W ./check $P 2>&1 | grep -v conda | grep -E "^\[|VIOLATION" | tr '\n' ' ')
  echo "check $P: $L"
  RES="$RES $P: $L ;"
done
rm -rf /tmp/vbuild_try_$ID
python3 - "$ID" "$T1" "$D1" "$D0" "$RES" "$@" <<'PY'
import json,sys
id_,t1,d1,d0,res=sys.argv[1:6]; props=sys.argv[6:]
meta={"id":id_,"breaks_property":props[0],"checks_run":props,"tests_with_change":t1,"demo_exit_with_change":int(d1),"demo_exit_without_change":int(d0),
      "check_results":res.strip(),"needs_to_manifest":"(fill in)","how_confirmed":"tools/try_seed.sh: pytest in the scratch worktree with PYTHONPATH set, demo with and without the change (patch reversed), ./check with VERIF_REPO=<worktree>"}
import os
json.dump(meta,open("/verif/seeded/"+os.environ.get("SEED_OUT", id_+os.environ.get("SEED_SUFFIX",""))+"/meta.json","w"),indent=1)
PY
