#!/bin/bash
# tools/coverage_report.sh : run every quick check under coverage.py and report which lines of /repo/corankco the
# harness runs execute (the numba-jitted kernels run natively and appear as not executed: they are listed apart).
cd /verif
rm -rf build/coverage; mkdir -p build/coverage
for id in C01 C02 C03 C04 C05 C06 C07 C08 C09 C10 C11 C12 C13 C14 C15 C16 C17 C18 C19 C20; do
  VERIF_COVERAGE=1 ./check $id > /dev/null 2>&1
done
cd build/coverage
/venv/bin/python -m coverage combine .coverage.* > /dev/null 2>&1
/venv/bin/python -m coverage report --data-file=.coverage -m --skip-empty 2>&1 | tee /verif/build/coverage/report.txt
