"""py2imp.py - statement-by-statement translation of the imperative kernels of corankco (scalars, one-dimensional
arrays, if / while / for-range, calls of other kernels) into Gallina, used by py2coq.py.

Every Python variable `x` becomes the Gallina variable `v_x` (Z for scalars, list Z for arrays).  A compound statement
is translated into an expression that returns the tuple of the variables it assigns (only those that already had a
value before it, or that every branch defines); a `while` becomes `while_fuel` (theories/Imp.v: `None` when the fuel
runs out), a `for .. in range` becomes a fold over `zrange`; a function that contains a `while` (or calls one that
does) lives in the option monad and takes the fuel as its first argument.  A function returns its `return` value
followed by the arrays it received and assigned (Python mutates them in place).

Fail-closed: anything outside this subset raises Unsupported.
"""
import ast
import copy


class Unsupported(Exception):
    pass


def fail(node, why):
    raise Unsupported(f"line {getattr(node, 'lineno', '?')}: {why}: {ast.dump(node)[:160]}")


def V(name):
    return "v_" + name


def tup(names):
    names = list(names)
    if not names:
        return "tt"
    if len(names) == 1:
        return V(names[0])
    return "(" + ", ".join(V(n) for n in names) + ")"


def pat(names):
    names = list(names)
    if not names:
        return "_"
    if len(names) == 1:
        return V(names[0])
    return "'(" + ", ".join(V(n) for n in names) + ")"


class Callee:
    """how a call of another kernel is rendered: `text(args)` gives the Gallina application, `results` the python names
    (of the call's arguments, by position, or '=' for the returned value) that receive the components of its result"""

    def __init__(self, gen_name, results, effect, extra_first=()):
        self.gen_name, self.results, self.effect, self.extra_first = gen_name, results, effect, extra_first


class Imp:
    def __init__(self, arrays, callees=None, float_consts=None, builtins=None):
        self.arrays = set(arrays)              # python names that denote arrays
        self.callees = callees or {}
        self.float_consts = float_consts or {}
        self.builtins = builtins or {}

    # ------------------------------------------------------------------ expressions
    def expr(self, n, env):
        if isinstance(n, ast.Name):
            if n.id in env:
                return V(n.id)
            fail(n, "name without a value here")
        if isinstance(n, ast.Constant):
            v = n.value
            if isinstance(v, bool):
                fail(n, "boolean constant")
            if isinstance(v, int):
                return str(v) if v >= 0 else f"({v})"
            if isinstance(v, float):
                if v in self.float_consts:
                    return self.float_consts[v]
                fail(n, "float constant")
            fail(n, "constant")
        if isinstance(n, ast.UnaryOp):
            if isinstance(n.op, ast.USub):
                return f"(- {self.expr(n.operand, env)})"
            if isinstance(n.op, ast.Not):
                return f"(negb {self.expr(n.operand, env)})"
            fail(n, "unary operator")
        if isinstance(n, ast.BinOp):
            ops = {ast.Add: "+", ast.Sub: "-", ast.Mult: "*", ast.FloorDiv: "/"}
            if type(n.op) not in ops:
                fail(n, "binary operator")
            return f"({self.expr(n.left, env)} {ops[type(n.op)]} {self.expr(n.right, env)})"
        if isinstance(n, ast.Compare):
            parts, left = [], n.left
            for op, right in zip(n.ops, n.comparators):
                a, b = self.expr(left, env), self.expr(right, env)
                if isinstance(op, ast.Lt):
                    parts.append(f"({a} <? {b})")
                elif isinstance(op, ast.LtE):
                    parts.append(f"({a} <=? {b})")
                elif isinstance(op, ast.Gt):
                    parts.append(f"({b} <? {a})")
                elif isinstance(op, ast.GtE):
                    parts.append(f"({b} <=? {a})")
                elif isinstance(op, ast.Eq):
                    parts.append(f"({a} =? {b})")
                elif isinstance(op, ast.NotEq):
                    parts.append(f"(negb ({a} =? {b}))")
                else:
                    fail(n, "comparison operator")
                left = right
            return parts[0] if len(parts) == 1 else "(" + " && ".join(parts) + ")"
        if isinstance(n, ast.BoolOp):
            op = "&&" if isinstance(n.op, ast.And) else "||"
            return "(" + f" {op} ".join(self.expr(v, env) for v in n.values) + ")"
        if isinstance(n, ast.Subscript):
            if isinstance(n.value, ast.Name) and n.value.id in self.arrays and n.value.id in env and not isinstance(n.slice, (ast.Slice, ast.Tuple)):
                return f"(aget {V(n.value.id)} {self.expr(n.slice, env)})"
            fail(n, "subscript")
        if isinstance(n, ast.Call):
            r = self.builtin_call(n, env)
            if r is not None:
                return r
            fail(n, "call in an expression")
        fail(n, "expression")

    def builtin_call(self, n, env):
        f = n.func
        name = f.id if isinstance(f, ast.Name) else None
        if name == "len" and len(n.args) == 1 and isinstance(n.args[0], ast.Name) and n.args[0].id in self.arrays:
            return f"(zlen {self.expr(n.args[0], env)})"
        if name in self.builtins:
            return self.builtins[name](self, n, env)
        return None

    # ------------------------------------------------------------------ analysis
    def assigned(self, stmts):
        """names assigned anywhere in the statements, in order of first appearance"""
        out = []

        def add(x):
            if x not in out:
                out.append(x)

        def tgt(t):
            if isinstance(t, ast.Name):
                add(t.id)
            elif isinstance(t, ast.Subscript) and isinstance(t.value, ast.Name):
                add(t.value.id)
            else:
                fail(t, "assignment target")

        for s in stmts:
            if isinstance(s, ast.Assign):
                for t in s.targets:
                    tgt(t)
            elif isinstance(s, ast.AnnAssign):
                if s.value is not None:
                    tgt(s.target)
            elif isinstance(s, ast.AugAssign):
                tgt(s.target)
            elif isinstance(s, ast.If):
                for x in self.assigned(s.body) + self.assigned(s.orelse):
                    add(x)
            elif isinstance(s, (ast.While, ast.For)):
                if s.orelse:
                    fail(s, "loop with else")
                if isinstance(s, ast.For):
                    if not isinstance(s.target, ast.Name):
                        fail(s, "loop target")
                for x in self.assigned(s.body):
                    add(x)
            elif isinstance(s, ast.Expr):
                if isinstance(s.value, ast.Call):
                    for x in self.call_results(s.value)[1]:
                        add(x)
            elif isinstance(s, (ast.Return, ast.Pass)):
                pass
            else:
                fail(s, "statement")
            if isinstance(s, (ast.Assign, ast.AnnAssign)) and isinstance(getattr(s, "value", None), ast.Call):
                c = s.value
                if isinstance(c.func, ast.Name) and c.func.id in self.callees:
                    for x in self.call_results(c)[1]:
                        add(x)
        return out

    def must_assign(self, stmts):
        """names certainly assigned (as plain names) by the statements"""
        out = set()
        for s in stmts:
            if isinstance(s, ast.Assign):
                for t in s.targets:
                    if isinstance(t, ast.Name):
                        out.add(t.id)
            elif isinstance(s, ast.AnnAssign) and s.value is not None and isinstance(s.target, ast.Name):
                out.add(s.target.id)
            elif isinstance(s, ast.If):
                out |= self.must_assign(s.body) & self.must_assign(s.orelse)
        return out

    def effectful(self, stmts):
        for s in stmts:
            for n in ast.walk(s):
                if isinstance(n, ast.While):
                    return True
                if isinstance(n, ast.Call) and isinstance(n.func, ast.Name) and n.func.id in self.callees and self.callees[n.func.id].effect:
                    return True
        return False

    def call_results(self, c):
        """(callee, python names that receive the mutated arrays) for a call of a registered kernel / array method"""
        if isinstance(c.func, ast.Attribute) and isinstance(c.func.value, ast.Name) and c.func.value.id in self.arrays and c.func.attr == "fill":
            return None, [c.func.value.id]
        if isinstance(c.func, ast.Name) and c.func.id in self.callees:
            cal = self.callees[c.func.id]
            names = []
            for r in cal.results:
                if r == "=":
                    continue
                a = c.args[r]
                if not isinstance(a, ast.Name):
                    fail(c, "mutated argument must be a name")
                names.append(a.id)
            return cal, names
        fail(c, "call statement")

    # ------------------------------------------------------------------ statements
    def block(self, stmts, env, result, eff):
        """Gallina text of the statements followed by `result(env)`; in effectful mode the text has an option type and
        `result` must already produce an option"""
        if not stmts:
            return result(env)
        s, rest = stmts[0], stmts[1:]
        k = lambda e: self.block(rest, e, result, eff)
        if isinstance(s, ast.Pass) or (isinstance(s, ast.Expr) and isinstance(s.value, ast.Constant) and isinstance(s.value.value, str)):
            return k(env)
        if isinstance(s, ast.AnnAssign) and s.value is None:
            return k(env)
        if isinstance(s, (ast.Assign, ast.AnnAssign, ast.AugAssign)):
            if isinstance(s, ast.Assign):
                if len(s.targets) != 1:
                    fail(s, "multiple targets")
                target, op, value = s.targets[0], None, s.value
            elif isinstance(s, ast.AnnAssign):
                target, op, value = s.target, None, s.value
            else:
                target, op, value = s.target, s.op, s.value
            # x = kernel(args)
            if op is None and isinstance(value, ast.Call) and isinstance(value.func, ast.Name) and value.func.id in self.callees:
                if not isinstance(target, ast.Name):
                    fail(s, "call result target")
                return self.call_stmt(value, target.id, env, k, eff)
            # <target> = <scalar name or constant> (+|-|*) kernel(args): the call is evaluated into a temporary first. Sound because
            # the other operand is a scalar local or a constant (the call can only change the arrays it receives)
            if isinstance(value, ast.BinOp) and isinstance(value.right, ast.Call) and isinstance(value.right.func, ast.Name) \
                    and value.right.func.id in self.callees and isinstance(value.left, (ast.Name, ast.Constant)) \
                    and not (isinstance(value.left, ast.Name) and value.left.id in self.arrays):
                tmp = "call_result_%d" % getattr(value.right, "lineno", 0)
                rest_stmt = copy.copy(s)
                new_value = ast.BinOp(left=value.left, op=value.op, right=ast.Name(id=tmp, ctx=ast.Load()))
                if isinstance(s, ast.AugAssign):
                    rest_stmt = ast.AugAssign(target=s.target, op=s.op, value=new_value)
                elif isinstance(s, ast.AnnAssign):
                    rest_stmt = ast.AnnAssign(target=s.target, annotation=s.annotation, value=new_value, simple=s.simple)
                else:
                    rest_stmt = ast.Assign(targets=s.targets, value=new_value)
                ast.copy_location(rest_stmt, s)
                return self.call_stmt(value.right, tmp, env, lambda e: self.block([rest_stmt] + rest, e, result, eff), eff)
            if isinstance(target, ast.Name):
                if op is None:
                    new = self.expr(value, env)
                else:
                    if target.id not in env:
                        fail(s, "augmented assignment of a name without a value")
                    sym = {ast.Add: "+", ast.Sub: "-", ast.Mult: "*"}.get(type(op))
                    if sym is None:
                        fail(s, "augmented operator")
                    new = f"({V(target.id)} {sym} {self.expr(value, env)})"
                return f"let {V(target.id)} := {new} in\n{k(env | {target.id})}"
            if isinstance(target, ast.Subscript) and isinstance(target.value, ast.Name) and target.value.id in self.arrays and target.value.id in env \
                    and not isinstance(target.slice, (ast.Slice, ast.Tuple)):
                a, i = target.value.id, self.expr(target.slice, env)
                if op is None:
                    new = f"(aset {V(a)} {i} {self.expr(value, env)})"
                elif isinstance(op, ast.Add):
                    new = f"(aadd {V(a)} {i} {self.expr(value, env)})"
                elif isinstance(op, ast.Sub):
                    new = f"(aadd {V(a)} {i} (- {self.expr(value, env)}))"
                else:
                    fail(s, "augmented operator on a cell")
                return f"let {V(a)} := {new} in\n{k(env)}"
            fail(s, "assignment target")
        if isinstance(s, ast.Expr) and isinstance(s.value, ast.Call):
            c = s.value
            cal, names = self.call_results(c)
            if cal is None:      # a.fill(0.0)
                a = names[0]
                if len(c.args) != 1 or a not in env:
                    fail(s, "fill")
                return f"let {V(a)} := (repeat {self.expr(c.args[0], env)} (length {V(a)})) in\n{k(env)}"
            return self.call_stmt(c, None, env, k, eff)
        if isinstance(s, ast.If):
            both = self.assigned(s.body) + [x for x in self.assigned(s.orelse) if x not in self.assigned(s.body)]
            sure = self.must_assign(s.body) & self.must_assign(s.orelse)
            outs = [x for x in both if x in env or x in sure]
            e_in = self.effectful([s])
            if e_in and not eff:
                fail(s, "effect in a pure context")
            res = (lambda e: f"Some {tup(outs)}") if e_in else (lambda e: tup(outs))
            thn = self.block(list(s.body), env, res, e_in)
            els = self.block(list(s.orelse), env, res, e_in)
            cond = self.expr(s.test, env)
            new_env = env | set(outs)
            if not outs:
                if e_in:
                    return f"match (if {cond} then\n{thn}\nelse\n{els}) with Some _ =>\n{k(new_env)}\n| None => None end"
                return k(new_env)
            if e_in:
                return f"match (if {cond} then\n{thn}\nelse\n{els}) with Some {tup(outs)} =>\n{k(new_env)}\n| None => None end"
            return f"let {pat(outs)} := (if {cond} then\n{thn}\nelse\n{els}) in\n{k(new_env)}"
        if isinstance(s, ast.While):
            if not eff:
                fail(s, "while in a pure context")
            state = [x for x in self.assigned(s.body) if x in env]
            e_in = self.effectful(list(s.body))
            res = (lambda e: f"Some {tup(state)}")
            body = self.block(list(s.body), env, res, True) if e_in else "Some (" + self.block(list(s.body), env, lambda e: tup(state), False) + ")"
            cond = self.expr(s.test, env)
            return (f"match while_fuel fuel (fun st => let {pat(state)} := st in {cond})\n(fun st => let {pat(state)} := st in\n{body})\n{tup(state)} with "
                    f"Some {tup(state)} =>\n{k(env)}\n| None => None end")
        if isinstance(s, ast.For):
            it = s.iter
            if not (isinstance(it, ast.Call) and isinstance(it.func, ast.Name) and it.func.id == "range" and 1 <= len(it.args) <= 2 and not it.keywords):
                fail(s, "for loop iterable")
            lo = "0" if len(it.args) == 1 else self.expr(it.args[0], env)
            hi = self.expr(it.args[-1], env)
            i = s.target.id
            state = [x for x in self.assigned(s.body) if x in env and x != i]
            inner_env = env | {i}
            e_in = self.effectful(list(s.body))
            if e_in and not eff:
                fail(s, "effect in a pure context")
            if e_in:
                body = self.block(list(s.body), inner_env, lambda e: f"Some {tup(state)}", True)
                return (f"match fold_opt (fun st {V(i)} => let {pat(state)} := st in\n{body})\n(zrange {lo} {hi}) {tup(state)} with "
                        f"Some {tup(state)} =>\n{k(env)}\n| None => None end")
            body = self.block(list(s.body), inner_env, lambda e: tup(state), False)
            return f"let {pat(state)} := fold_left (fun st {V(i)} => let {pat(state)} := st in\n{body})\n(zrange {lo} {hi}) {tup(state)} in\n{k(env)}"
        if isinstance(s, ast.Return):
            fail(s, "return before the end of the function")
        fail(s, "statement")

    def call_stmt(self, c, ret_name, env, k, eff):
        cal, names = self.call_results(c)
        if c.keywords:
            fail(c, "keyword arguments")
        args = " ".join(self.expr(a, env) for a in c.args)
        first = " ".join(cal.extra_first)
        app = f"({cal.gen_name} {'fuel ' if cal.effect else ''}{first + ' ' if first else ''}{args})"
        outs = []
        for r in cal.results:
            if r == "=":
                outs.append(ret_name if ret_name is not None else "_ignored")
            else:
                outs.append(c.args[r].id)
        new_env = env | {o for o in outs if o != "_ignored"}
        if cal.effect:
            if not eff:
                fail(c, "effectful call in a pure context")
            return f"match {app} with Some {tup(outs)} =>\n{k(new_env)}\n| None => None end"
        return f"let {pat(outs)} := {app} in\n{k(new_env)}"

    # ------------------------------------------------------------------ functions
    def function(self, f, gen_name, params, mutated, ret_type, extra_params=""):
        """params: list of (python name, Gallina type); mutated: python names of the array parameters returned after the
        value of `return`; ret_type: Gallina type of the whole result"""
        args = [a.arg for a in f.args.args]
        if args != [p for p, _ in params]:
            raise Unsupported(f"{f.name}: arguments changed: {args}")
        body = list(f.body)
        if body and isinstance(body[0], ast.Expr) and isinstance(body[0].value, ast.Constant) and isinstance(body[0].value.value, str):
            body = body[1:]
        eff = self.effectful(body)
        ret = None
        if body and isinstance(body[-1], ast.Return):
            ret = body[-1].value
            body = body[:-1]
        for s in body:
            for n in ast.walk(s):
                if isinstance(n, ast.Return):
                    fail(n, "return before the end of the function")

        def result(env):
            comps = ([self.expr(ret, env)] if ret is not None else []) + [V(m) for m in mutated]
            t = comps[0] if len(comps) == 1 else "(" + ", ".join(comps) + ")"
            return f"Some {t}" if eff else t

        env = {p for p, _ in params}
        text = self.block(body, env, result, eff)
        sig = " ".join(f"({V(p)} : {t})" for p, t in params)
        rt = f"option ({ret_type})" if eff else ret_type
        return f"Definition {gen_name} {'(fuel : nat) ' if eff else ''}{extra_params}{sig} : {rt} :=\n{text}.\n", eff
