#!/bin/bash
# usage: tools/seed_sweep.sh [seed ids...]   — every stored seeded change against the quick check of its property, 4 at a time,
# each in its own scratch worktree and scratch area; prints one line per seed (CAUGHT with a failing input / only no-failing-input-found / MISSED)
V=${VERIF_HOME:-/verif}; cd $V
IDS=${@:-$(ls seeded)}
one() {
  V=${VERIF_HOME:-/verif}
  id=$1; prop=${id:0:3}; W=/tmp/wseed_$id
  git -C /repo worktree remove --force $W >/dev/null 2>&1
  git -C /repo worktree add -q --detach $W HEAD || { echo "$id worktree-failed"; return; }
  git -C $W apply $V/seeded/$id/patch.diff || { echo "$id patch-failed"; git -C /repo worktree remove --force $W; return; }
  out=$(VERIF_BUILD=/tmp/vbuild_seed_$id VERIF_REPO=$W ./check $prop --tier quick 2>&1)
  hard=$(echo "$out" | grep VIOLATION | grep -vc no-failing-input-found)
  soft=$(echo "$out" | grep -c no-failing-input-found)
  if [ "$hard" -gt 0 ]; then v=CAUGHT; elif [ "$soft" -gt 0 ]; then v=ONLY-no-failing-input-found; else v=MISSED; fi
  echo "$id $v $(echo "$out" | grep -E '^\[' | sed 's/.*violations=/violations=/')"
  git -C /repo worktree remove --force $W; rm -rf /tmp/vbuild_seed_$id
}
export -f one
echo $IDS | tr ' ' '\n' | xargs -P 4 -I{} bash -c 'one {}'
git -C /repo worktree prune
