#!/bin/bash
# usage: tools/with_seed.sh <seed-id> <check args...>   — runs ./check against a scratch worktree of /repo with seeded/<id>/patch.diff applied
set -u
id=$1; shift
W=/tmp/wseed_$id
git -C /repo worktree remove --force $W >/dev/null 2>&1
git -C /repo worktree add -q --detach $W HEAD || exit 2
git -C $W apply /verif/seeded/$id/patch.diff || { git -C /repo worktree remove --force $W; exit 2; }
cd /verif
VERIF_REPO=$W ./check "$@"
rc=$?
git -C /repo worktree remove --force $W; git -C /repo worktree prune
exit $rc
