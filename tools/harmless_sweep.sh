#!/bin/bash
# usage: tools/harmless_sweep.sh [ids...]  — every stored behaviour-preserving rewrite (harmless/<id>/patch.diff) against ALL twenty quick
# checks, 5 rewrites at a time, each in its own scratch worktree and scratch area; one line per (rewrite, check); any rc != 0 is a false alarm
V=${VERIF_HOME:-/verif}; cd $V
IDS=${@:-$(ls harmless)}
one() {
  V=${VERIF_HOME:-/verif}
  id=$1; W=/tmp/wharm_$id
  git -C /repo worktree remove --force $W >/dev/null 2>&1
  git -C /repo worktree add -q --detach $W HEAD || { echo "$id worktree-failed"; return; }
  git -C $W apply $V/harmless/$id/patch.diff || { echo "$id patch-failed"; git -C /repo worktree remove --force $W; return; }
  tools/sweep_worktree.sh $W harm_$id
  git -C /repo worktree remove --force $W; rm -rf /tmp/vbuild_harm_$id
}
export -f one
echo $IDS | tr ' ' '\n' | xargs -P 5 -I{} bash -c 'one {}'
git -C /repo worktree prune
