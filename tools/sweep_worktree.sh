#!/bin/bash
# usage: tools/sweep_worktree.sh <worktree> <tag> [props...]  — runs the quick checks against a scratch worktree of /repo in its own
# scratch area (/tmp/vbuild_<tag>) so several sweeps can run in parallel; prints one line per check
W=$1; TAG=$2; shift 2
PROPS=${@:-C01 C02 C03 C04 C05 C06 C07 C08 C09 C10 C11 C12 C13 C14 C15 C16 C17 C18 C19 C20}
export VERIF_BUILD=/tmp/vbuild_$TAG VERIF_REPO=$W
mkdir -p $VERIF_BUILD
V=${VERIF_HOME:-/verif}; cd $V
for c in $PROPS; do
  s=$(date +%s); ./check $c --tier quick > $VERIF_BUILD/$c.log 2>&1; rc=$?
  echo "$TAG $c rc=$rc t=$(( $(date +%s)-s )) $(grep -E 'VIOLATION' $VERIF_BUILD/$c.log | sed 's/replay=[^ ]*//' | sort | uniq -c | tr '\n' ';')"
done
