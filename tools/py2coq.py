#!/usr/bin/env python3
"""py2coq.py - a small, fail-closed translator from the decision kernels of corankco to Gallina.

The hand-written models of /verif/coq/theories are tied to the code by running both on the same inputs.  For a few
kernels whose whole content is a chain of comparisons and updates (where a slip is one character: `<` for `<=`, `[2]`
for `[5]`, `change` for `add`) this script adds a second, syntactic tie: it parses the CURRENT source of /repo
(python `ast`), translates the kernel into a Gallina definition, and the files of /verif/coq/gen_equiv prove that the
generated definition equals the hand-written model the theorems are about.  Any change of the source changes the
generated text; the equivalence is then re-checked by Coq against what the code says now.

Fail-closed: every construct that is not explicitly supported raises Unsupported; the caller reports the kernel as
"no longer translatable" (a broken proof obligation), never guesses.

usage: py2coq.py <repo root> <out dir> <target> [<target> ...]      targets: step6 where copeland scheme graph delta moves initscore markov biokernel
"""
import ast
import os
import sys

sys.path.insert(0, os.path.dirname(os.path.abspath(__file__)))


class Unsupported(Exception):
    pass


def fail(node, why):
    raise Unsupported(f"line {getattr(node, 'lineno', '?')}: {why}: {ast.dump(node)[:160]}")


def find_function(tree, name):
    for node in ast.walk(tree):
        if isinstance(node, ast.FunctionDef) and node.name == name:
            return node
    raise Unsupported(f"function {name} not found")


def strip_docstring(body):
    if body and isinstance(body[0], ast.Expr) and isinstance(body[0].value, ast.Constant) and isinstance(body[0].value.value, str):
        return body[1:]
    return body


class Tr:
    """expression / statement translator; `sub` resolves subscripts, `call` resolves calls, `names` plain names"""

    def __init__(self, names=None, sub=None, call=None, const=None, tracked=None, final=None, assign_hook=None):
        self.names = names if names is not None else {}
        self.sub = sub
        self.call = call
        self.const = const
        self.tracked = tracked or []       # names of the variables that make the state
        self.final = final                 # text returned when a block ends without `return`
        self.assign_hook = assign_hook     # (target node, op or None, value text) -> (var, new value text)

    # ---- expressions
    def expr(self, n):
        if isinstance(n, ast.Name):
            if n.id in self.names:
                return self.names[n.id]
            fail(n, "unknown name")
        if isinstance(n, ast.Constant):
            if self.const:
                r = self.const(n.value)
                if r is not None:
                    return r
            if isinstance(n.value, bool):
                fail(n, "boolean constant")
            if isinstance(n.value, int):
                return str(n.value) if n.value >= 0 else f"({n.value})"
            fail(n, "constant")
        if isinstance(n, ast.UnaryOp):
            if isinstance(n.op, ast.USub):
                return f"(- {self.expr(n.operand)})"
            if isinstance(n.op, ast.Not):
                return f"(negb {self.expr(n.operand)})"
            fail(n, "unary operator")
        if isinstance(n, ast.BinOp):
            ops = {ast.Add: "+", ast.Sub: "-", ast.Mult: "*"}
            if type(n.op) not in ops:
                fail(n, "binary operator")
            return f"({self.expr(n.left)} {ops[type(n.op)]} {self.expr(n.right)})"
        if isinstance(n, ast.Compare):
            if len(n.ops) == 2 and all(isinstance(o, (ast.Lt, ast.LtE)) for o in n.ops):
                # a < b < c  /  a <= b < c
                first = ast.Compare(left=n.left, ops=[n.ops[0]], comparators=[n.comparators[0]])
                second = ast.Compare(left=n.comparators[0], ops=[n.ops[1]], comparators=[n.comparators[1]])
                return f"({self.expr(first)} && {self.expr(second)})"
            if len(n.ops) != 1:
                fail(n, "chained comparison")
            a, b, op = self.expr(n.left), self.expr(n.comparators[0]), n.ops[0]
            if isinstance(op, ast.Lt):
                return f"({a} <? {b})"
            if isinstance(op, ast.LtE):
                return f"({a} <=? {b})"
            if isinstance(op, ast.Gt):
                return f"({b} <? {a})"
            if isinstance(op, ast.GtE):
                return f"({b} <=? {a})"
            if isinstance(op, ast.Eq):
                return f"({a} =? {b})"
            if isinstance(op, ast.NotEq):
                return f"(negb ({a} =? {b}))"
            fail(n, "comparison operator")
        if isinstance(n, ast.BoolOp):
            op = "&&" if isinstance(n.op, ast.And) else "||"
            return "(" + f" {op} ".join(self.expr(v) for v in n.values) + ")"
        if isinstance(n, ast.Subscript):
            if self.sub:
                r = self.sub(self, n)
                if r is not None:
                    return r
            fail(n, "subscript")
        if isinstance(n, ast.Call):
            if self.call:
                r = self.call(self, n)
                if r is not None:
                    return r
            fail(n, "call")
        fail(n, "expression")

    # ---- statements: a block is translated with its continuation (the statements that follow it)
    def seq(self, stmts):
        if not stmts:
            if self.final is None:
                raise Unsupported("block ends without return")
            return self.final
        s, rest = stmts[0], stmts[1:]
        if isinstance(s, ast.If):
            return f"(if {self.expr(s.test)}\n then {self.seq(list(s.body) + rest)}\n else {self.seq(list(s.orelse) + rest)})"
        if isinstance(s, ast.Return):
            if s.value is None:
                fail(s, "bare return")
            return self.expr(s.value)
        if isinstance(s, (ast.Assign, ast.AnnAssign, ast.AugAssign)):
            if isinstance(s, ast.Assign):
                if len(s.targets) != 1:
                    fail(s, "multiple targets")
                target, op, value = s.targets[0], None, s.value
            elif isinstance(s, ast.AnnAssign):
                target, op, value = s.target, None, s.value
            else:
                target, op, value = s.target, s.op, s.value
            if self.assign_hook is None:
                fail(s, "assignment")
            r = self.assign_hook(self, target, op, value)
            if r is None:
                fail(s, "assignment target")
            var, new = r
            if var is None:           # a python-level macro (list literal): nothing to emit
                return self.seq(rest)
            return f"(let {var} := {new} in\n {self.seq(rest)})"
        if isinstance(s, ast.Expr) and isinstance(s.value, ast.Constant) and isinstance(s.value.value, str):
            return self.seq(rest)
        if isinstance(s, ast.Pass):
            return self.seq(rest)
        fail(s, "statement")


def const_index(n):
    """integer value of a constant subscript index"""
    if isinstance(n, ast.Constant) and isinstance(n.value, int) and not isinstance(n.value, bool):
        return n.value
    return None


HEADER = "(** GENERATED by /verif/tools/py2coq.py from {src} - do not edit *)\nFrom Corankco Require Import {imports}.\nLocal Open Scope Z_scope.\n\n"


# ======================================================================================================================
# step6: the six-case chain of _pairwise_cost_matrix_only and the mirrored lower triangle
def gen_step6(repo):
    path = os.path.join(repo, "corankco/algorithms/pairwisebasedalgorithm.py")
    f = find_function(ast.parse(open(path).read()), "_pairwise_cost_matrix_only")
    loops = [n for n in ast.walk(f) if isinstance(n, ast.For) and isinstance(n.target, ast.Name) and n.target.id == "id_ranking"]
    if len(loops) != 1:
        raise Unsupported("expected one loop over id_ranking")
    body = loops[0].body
    # the two position reads, then the chain
    reads = {}
    rest = []
    for s in body:
        if isinstance(s, ast.Assign) and len(s.targets) == 1 and isinstance(s.targets[0], ast.Name) and isinstance(s.value, ast.Subscript) \
                and isinstance(s.value.value, ast.Name) and isinstance(s.value.slice, ast.Name) and s.value.slice.id == "id_ranking":
            reads[s.targets[0].id] = s.value.value.id
        else:
            rest.append(s)
    if reads != {"pos_elem1": "all_pos_elem1", "pos_elem2": "all_pos_elem2"}:
        raise Unsupported(f"position reads changed: {reads}")

    def sub(tr, n):
        # weighted_b_vector[id_ranking][i] / weighted_t_vector[id_ranking][i]
        if isinstance(n.value, ast.Subscript) and isinstance(n.value.value, ast.Name) and isinstance(n.value.slice, ast.Name) \
                and n.value.slice.id == "id_ranking" and const_index(n.slice) is not None:
            v = {"weighted_b_vector": "Bv", "weighted_t_vector": "Tv"}.get(n.value.value.id)
            if v:
                return f"({v} s {const_index(n.slice)}%nat)"
        if isinstance(n.value, ast.Name) and n.value.id == "cost_elem1_elem2" and const_index(n.slice) in (0, 1, 2):
            return f"c{const_index(n.slice)}"
        return None

    def hook(tr, target, op, value):
        if isinstance(target, ast.Subscript) and isinstance(target.value, ast.Name) and target.value.id == "cost_elem1_elem2" \
                and const_index(target.slice) in (0, 1, 2) and isinstance(op, ast.Add):
            v = f"c{const_index(target.slice)}"
            return v, f"({v} + {tr.expr(value)})"
        return None

    tr = Tr(names={"pos_elem1": "p1", "pos_elem2": "p2"}, sub=sub, assign_hook=hook, final="(c0, c1, c2)")
    chain = tr.seq(rest)
    # the mirror: matrix[elem2][elem1][k] = cost_elem1_elem2[j], statements that follow the loop in the enclosing loop body
    outer = [n for n in ast.walk(f) if isinstance(n, ast.For) and isinstance(n.target, ast.Name) and n.target.id == "elem2"]
    if len(outer) != 1:
        raise Unsupported("expected one loop over elem2")
    mirror = {}
    for s in outer[0].body:
        if isinstance(s, ast.Assign) and isinstance(s.targets[0], ast.Subscript):
            t = s.targets[0]
            if isinstance(t.value, ast.Subscript) and isinstance(t.value.value, ast.Subscript) and isinstance(t.value.value.value, ast.Name) \
                    and t.value.value.value.id == "matrix" and isinstance(t.value.value.slice, ast.Name) and t.value.value.slice.id == "elem2" \
                    and isinstance(t.value.slice, ast.Name) and t.value.slice.id == "elem1" and const_index(t.slice) is not None:
                if not (isinstance(s.value, ast.Subscript) and isinstance(s.value.value, ast.Name) and s.value.value.id == "cost_elem1_elem2"
                        and const_index(s.value.slice) is not None):
                    fail(s, "mirror assignment value")
                mirror[const_index(t.slice)] = const_index(s.value.slice)
    if sorted(mirror) != [0, 1, 2]:
        raise Unsupported(f"mirror assignments changed: {mirror}")
    out = HEADER.format(src="corankco/algorithms/pairwisebasedalgorithm.py (_pairwise_cost_matrix_only)", imports="Prelude Scheme")
    out += "Definition step6_gen (s : scheme) (acc : Z * Z * Z) (p1 p2 : Z) : Z * Z * Z :=\n let '(c0, c1, c2) := acc in\n " + chain + ".\n\n"
    out += "Definition mirror_gen (acc : Z * Z * Z) : Z * Z * Z :=\n let '(c0, c1, c2) := acc in (c%d, c%d, c%d).\n" % (mirror[0], mirror[1], mirror[2])
    return out


# ======================================================================================================================
# where: KwikSortRandom._where_should_it_be
def gen_where(repo):
    path = os.path.join(repo, "corankco/algorithms/kwiksort/kwiksortrandom.py")
    f = find_function(ast.parse(open(path).read()), "_where_should_it_be")
    lists = {}

    def elementwise(n):
        """an elementwise expression over the two position arrays -> Gallina text over p (pivot) and o (other)"""
        t = Tr(names={"pos_pivot_rankings": "p", "pos_other_element_rankings": "o"})
        return t.expr(n)

    def call(tr, n):
        if isinstance(n.func, ast.Name) and n.func.id == "count_nonzero" and len(n.args) == 1 and not n.keywords:
            return f"(count2 (fun p o => {elementwise(n.args[0])}) pp po)"
        if isinstance(n.func, ast.Name) and n.func.id == "len" and len(n.args) == 1 and isinstance(n.args[0], ast.Name) \
                and n.args[0].id in ("pos_pivot_rankings", "pos_other_element_rankings"):
            return "(Z.of_nat (length pp))" if n.args[0].id == "pos_pivot_rankings" else "(Z.of_nat (length po))"
        if isinstance(n.func, ast.Name) and n.func.id == "vdot" and len(n.args) == 2 and not n.keywords:
            v, lst = n.args
            if not (isinstance(v, ast.Subscript) and isinstance(v.value, ast.Name) and v.value.id == "scoring_scheme_numpy" and const_index(v.slice) in (0, 1)):
                fail(n, "vdot first argument")
            vec = "Bv" if const_index(v.slice) == 0 else "Tv"
            if isinstance(lst, ast.Name) and lst.id in lists:
                items = lists[lst.id]
            elif isinstance(lst, ast.List):
                items = [tr.expr(e) for e in lst.elts]
            else:
                fail(n, "vdot second argument")
            if len(items) != 6:
                fail(n, "vdot with a list that has not 6 entries")
            return "(" + " + ".join(f"{vec} s {i}%nat * {e}" for i, e in enumerate(items)) + ")"
        return None

    def hook(tr, target, op, value):
        if not isinstance(target, ast.Name) or op is not None:
            return None
        if isinstance(value, ast.List):
            lists[target.id] = [tr.expr(e) for e in value.elts]
            return None, None
        tr.names[target.id] = target.id
        return target.id, tr.expr(value)

    tr = Tr(names={}, call=call, assign_hook=hook)
    body = tr.seq(strip_docstring(f.body))
    out = HEADER.format(src="corankco/algorithms/kwiksort/kwiksortrandom.py (_where_should_it_be)", imports="Prelude Scheme Rank KemenySpec KwikSort")
    out += "Definition where_gen (s : scheme) (pp po : list Z) : Z :=\n " + body + ".\n"
    return out


# ======================================================================================================================
# copeland: the victory / equality / defeat chain of _fill_dicts_copeland (scores in half points)
def gen_copeland(repo):
    path = os.path.join(repo, "corankco/algorithms/copeland/copeland.py")
    f = find_function(ast.parse(open(path).read()), "_fill_dicts_copeland")
    loops = [n for n in ast.walk(f) if isinstance(n, ast.For) and isinstance(n.target, ast.Name) and n.target.id == "el2"]
    if len(loops) != 1:
        raise Unsupported("expected one loop over el2")
    reads = {}
    rest = []
    for s in loops[0].body:
        tgt = s.target if isinstance(s, ast.AnnAssign) else (s.targets[0] if isinstance(s, ast.Assign) and len(s.targets) == 1 else None)
        val = getattr(s, "value", None)
        if isinstance(tgt, ast.Name) and isinstance(val, ast.Subscript) and isinstance(val.value, ast.Subscript) \
                and isinstance(val.value.value, ast.Subscript) and isinstance(val.value.value.value, ast.Name) \
                and val.value.value.value.id == "pairwise_cost_matrix" and isinstance(val.value.value.slice, ast.Name) \
                and val.value.value.slice.id == "el1" and isinstance(val.value.slice, ast.Name) and val.value.slice.id == "el2" \
                and const_index(val.slice) is not None:
            reads[tgt.id] = const_index(val.slice)
        else:
            rest.append(s)
    if reads != {"put_before": 0, "put_after": 1}:
        raise Unsupported(f"cost reads changed: {reads}")

    def hook(tr, target, op, value):
        if not isinstance(op, ast.Add) or not isinstance(target, ast.Subscript) or not isinstance(target.value, ast.Name):
            return None
        arr = target.value.id
        if arr == "scores" and isinstance(target.slice, ast.Name) and target.slice.id in ("el1", "el2"):
            if not (isinstance(value, ast.Constant) and value.value in (1, 0.5)):
                return None
            v = "s1" if target.slice.id == "el1" else "s2"
            return v, f"({v} + {2 if value.value == 1 else 1})"
        if arr == "results" and isinstance(target.slice, ast.Tuple) and len(target.slice.elts) == 2 \
                and isinstance(target.slice.elts[0], ast.Name) and target.slice.elts[0].id in ("el1", "el2") \
                and const_index(target.slice.elts[1]) in (0, 1, 2) and isinstance(value, ast.Constant) and value.value == 1:
            v = "ved"[const_index(target.slice.elts[1])] + ("1" if target.slice.elts[0].id == "el1" else "2")
            return v, f"({v} + 1)"
        return None

    tr = Tr(names={"put_before": "b", "put_after": "a"}, assign_hook=hook, final="(s1, v1, e1, d1, s2, v2, e2, d2)")
    chain = tr.seq(rest)
    out = HEADER.format(src="corankco/algorithms/copeland/copeland.py (_fill_dicts_copeland)", imports="Prelude")
    out += ("Definition copeland_pair_gen (b a : Z) (st : Z * Z * Z * Z * Z * Z * Z * Z) : Z * Z * Z * Z * Z * Z * Z * Z :=\n"
            " let '(s1, v1, e1, d1, s2, v2, e2, d2) := st in\n " + chain + ".\n")
    return out


# ======================================================================================================================
# scheme: the "forbidden association" tests of ScoringScheme.__init__
def gen_scheme(repo):
    path = os.path.join(repo, "corankco/scoringscheme.py")
    tree = ast.parse(open(path).read())
    cls = [n for n in ast.walk(tree) if isinstance(n, ast.ClassDef) and n.name == "ScoringScheme"]
    if len(cls) != 1:
        raise Unsupported("class ScoringScheme not found")
    init = find_function(cls[0], "__init__")

    def sub(tr, n):
        if isinstance(n.value, ast.Subscript) and isinstance(n.value.value, ast.Name) and n.value.value.id == "penalties_copy" \
                and const_index(n.value.slice) in (0, 1) and const_index(n.slice) is not None:
            return f"({'Bv' if const_index(n.value.slice) == 0 else 'Tv'} s {const_index(n.slice)}%nat)"
        return None

    tr = Tr(sub=sub)
    conds = []
    for s in init.body:
        if isinstance(s, ast.If) and len(s.body) == 1 and isinstance(s.body[0], ast.Raise) and not s.orelse:
            exc = s.body[0].exc
            name = exc.func.id if isinstance(exc, ast.Call) and isinstance(exc.func, ast.Name) else (exc.id if isinstance(exc, ast.Name) else None)
            if name == "ForbiddenAssociationPenaltiesScoringScheme":
                conds.append(tr.expr(s.test))
    if not conds:
        raise Unsupported("no ForbiddenAssociationPenaltiesScoringScheme test found")
    out = HEADER.format(src="corankco/scoringscheme.py (ScoringScheme.__init__)", imports="Prelude Scheme")
    out += "Definition forbidden_gen (s : scheme) : bool :=\n " + "\n || ".join(conds) + ".\n"
    return out


# ======================================================================================================================
# graph: arcs, robust arcs, can_be_all_tied (pairwisebasedalgorithm.py)
def gen_graph(repo):
    path = os.path.join(repo, "corankco/algorithms/pairwisebasedalgorithm.py")
    tree = ast.parse(open(path).read())

    def sub(tr, n):
        # matrix[:, :, k]  -> the k-th cost of a pair
        if isinstance(n.value, ast.Name) and n.value.id == "matrix" and isinstance(n.slice, ast.Tuple) and len(n.slice.elts) == 3 \
                and all(isinstance(e, ast.Slice) and e.lower is None and e.upper is None and e.step is None for e in n.slice.elts[:2]) \
                and const_index(n.slice.elts[2]) in (0, 1, 2):
            return "bat"[const_index(n.slice.elts[2])]
        # cost_matrix[el_1][el_2][k]
        if isinstance(n.value, ast.Subscript) and isinstance(n.value.value, ast.Subscript) and isinstance(n.value.value.value, ast.Name) \
                and n.value.value.value.id == "cost_matrix" and const_index(n.slice) in (0, 1, 2):
            return "bat"[const_index(n.slice)]
        return None

    def call(tr, n):
        if isinstance(n.func, ast.Name) and n.func.id in ("logical_or", "logical_and") and len(n.args) == 2:
            return f"({tr.expr(n.args[0])} {'||' if n.func.id == 'logical_or' else '&&'} {tr.expr(n.args[1])})"
        if isinstance(n.func, ast.Name) and n.func.id == "min" and len(n.args) == 2:
            return f"(Z.min {tr.expr(n.args[0])} {tr.expr(n.args[1])})"
        return None

    def simple_lets(fname, wanted):
        """translate the chain of plain assignments of a function up to the variable `wanted`"""
        f = find_function(tree, fname)
        tr = Tr(names={}, sub=sub, call=call)
        env = {}
        for s in strip_docstring(f.body):
            if isinstance(s, ast.Assign) and len(s.targets) == 1 and isinstance(s.targets[0], ast.Name):
                try:
                    env[s.targets[0].id] = tr.expr(s.value)
                    tr.names[s.targets[0].id] = env[s.targets[0].id]
                except Unsupported:
                    pass          # statements that build the igraph object are not part of the predicate
        if wanted not in env:
            raise Unsupported(f"{fname}: variable {wanted} not found or not translatable")
        return env[wanted]

    arc = simple_lets("_get_graph_of_elements_from_matrix", "after_not_cheapest")
    # robust arcs: the set comprehension filters on logical_and(before_cheaper_after, before_cheaper_tied)
    f = find_function(tree, "_get_robust_arcs_from_matrix")
    tr = Tr(names={}, sub=sub, call=call)
    robust = None
    for s in strip_docstring(f.body):
        if isinstance(s, ast.Assign) and isinstance(s.targets[0], ast.Name):
            tr.names[s.targets[0].id] = tr.expr(s.value)
        elif isinstance(s, ast.Return):
            calls = [c for c in ast.walk(s.value) if isinstance(c, ast.Call) and isinstance(c.func, ast.Name) and c.func.id == "logical_and"]
            if len(calls) != 1:
                fail(s, "robust arcs: expected one logical_and")
            robust = tr.expr(calls[0])
    if robust is None:
        raise Unsupported("_get_robust_arcs_from_matrix: no return")
    # can_be_all_tied: the test that makes the function answer False
    f = find_function(tree, "can_be_all_tied")
    loops = [n for n in ast.walk(f) if isinstance(n, ast.For)]
    if len(loops) != 1:
        raise Unsupported("can_be_all_tied: expected one loop")
    names = {}
    test = None
    t2 = Tr(names=names, sub=sub, call=call)
    for s in loops[0].body:
        if isinstance(s, ast.Assign) and isinstance(s.targets[0], ast.Name):
            names[s.targets[0].id] = t2.expr(s.value)
        elif isinstance(s, ast.If) and len(s.body) == 1 and isinstance(s.body[0], ast.Return) \
                and isinstance(s.body[0].value, ast.Constant) and s.body[0].value.value is False and not s.orelse:
            test = t2.expr(s.test)
        else:
            fail(s, "can_be_all_tied loop body")
    if test is None:
        raise Unsupported("can_be_all_tied: refusing test not found")
    out = HEADER.format(src="corankco/algorithms/pairwisebasedalgorithm.py (graph of elements, robust arcs, can_be_all_tied)", imports="Prelude")
    out += f"Definition arc_gen (b a t : Z) : bool := {arc}.\n"
    out += f"Definition robust_gen (b a t : Z) : bool := {robust}.\n"
    out += f"Definition cannot_tie_gen (b a t : Z) : bool := {test}.\n"
    return out


# ======================================================================================================================
# delta: the per-element chain of _compute_delta_costs and its closing updates (bioconsert.py)
def gen_delta(repo):
    path = os.path.join(repo, "corankco/algorithms/bioconsert/bioconsert.py")
    f = find_function(ast.parse(open(path).read()), "_compute_delta_costs")
    loops = [n for n in f.body if isinstance(n, ast.For)]
    if len(loops) != 1 or not (isinstance(loops[0].target, ast.Name) and loops[0].target.id == "e2"):
        raise Unsupported("expected one loop over e2")
    loop = loops[0]

    def sub(tr, n):
        # cost_matrix[pos + k] with k in {0,1,2}: the three costs of (target, e2)
        if isinstance(n.value, ast.Name) and n.value.id == "cost_matrix":
            i = n.slice
            if isinstance(i, ast.Name) and i.id == "pos":
                return "cb"
            if isinstance(i, ast.BinOp) and isinstance(i.op, ast.Add) and isinstance(i.left, ast.Name) and i.left.id == "pos" and const_index(i.right) in (1, 2):
                return "ca" if const_index(i.right) == 1 else "ct"
        if isinstance(n.value, ast.Name) and n.value.id == "ranking" and isinstance(n.slice, ast.Name) and n.slice.id == "e2":
            return "(get r e2)"
        return None

    def hook(tr, target, op, value):
        if isinstance(target, ast.Subscript) and isinstance(target.value, ast.Name) and target.value.id in ("change", "add") and isinstance(op, ast.Add):
            arr = target.value.id
            return arr, f"(aadd {arr} {tr.expr(target.slice)} {tr.expr(value)})"
        if isinstance(target, ast.Name) and target.id in ("tied_to_before", "tied_to_after", "tied_to_tied") and isinstance(op, ast.Add):
            v = {"tied_to_before": "qb", "tied_to_after": "qa", "tied_to_tied": "qt"}[target.id]
            return v, f"({v} + {tr.expr(value)})"
        if isinstance(target, ast.Name) and target.id == "alone" and op is None and isinstance(value, ast.Constant) and value.value in (0, 1):
            return "alone", "true" if value.value == 1 else "false"
        if isinstance(target, ast.Name) and target.id == "bucket_e2" and op is None:
            return "b2", tr.expr(value)
        if isinstance(target, ast.Name) and target.id == "pos" and isinstance(op, ast.Add):
            return None, None      # pointer arithmetic over the flattened matrix: the model reads K target e2
        return None

    def const(v):
        return None

    names = {"bucket_elem": "bucket_elem", "bucket_e2": "b2", "target_element": "(Z.of_nat target)", "e2": "(Z.of_nat e2)",
             "tied_to_before": "qb", "tied_to_after": "qa", "tied_to_tied": "qt"}

    class TrD(Tr):
        def expr(self, n):
            # `alone == 1` is a test on a flag
            if isinstance(n, ast.Compare) and len(n.ops) == 1 and isinstance(n.left, ast.Name) and n.left.id == "alone" \
                    and isinstance(n.ops[0], ast.Eq) and const_index(n.comparators[0]) == 1:
                return "alone"
            return super().expr(n)

    tr = TrD(names=names, sub=sub, assign_hook=hook, final="(change, add, alone, qb, qa, qt)")
    step = tr.seq(list(loop.body))
    # closing updates: the statements after the loop, up to the return of `alone`
    after = f.body[f.body.index(loop) + 1:]
    if not (after and isinstance(after[-1], ast.Return) and isinstance(after[-1].value, ast.Name) and after[-1].value.id == "alone"):
        raise Unsupported("_compute_delta_costs must end with `return alone`")
    tr2 = TrD(names=names, sub=sub, assign_hook=hook, final="(alone, change, add)")
    closing = tr2.seq(after[:-1])
    out = HEADER.format(src="corankco/algorithms/bioconsert/bioconsert.py (_compute_delta_costs)", imports="Prelude Scheme Rank KemenySpec Markov BioConsert")
    out += ("Definition delta_step_gen (K : table) (r : vec) (target : nat) (bucket_elem : Z)\n"
            "  (st : list Z * list Z * bool * Z * Z * Z) (e2 : nat) : list Z * list Z * bool * Z * Z * Z :=\n"
            " let '(change, add, alone, qb, qa, qt) := st in\n let '(cb, ca, ct) := K target e2 in\n " + step + ".\n\n")
    out += ("Definition delta_close_gen (bucket_elem : Z) (st : list Z * list Z * bool * Z * Z * Z) : bool * list Z * list Z :=\n"
            " let '(change, add, alone, qb, qa, qt) := st in\n " + closing + ".\n")
    return out


# ======================================================================================================================
# array kernels: statements that update a bucket-id vector in place (numpy masks, or a loop over range(n))
class TrVec(Tr):
    """state = one vector `v`; `arr` is the python name of the array, `elem` the python name of the index of the element"""

    def __init__(self, arr, elem, names, flags=()):
        super().__init__(names=names, final="v")
        self.arr, self.elem, self.flags = arr, elem, set(flags)
        self.assign_hook = TrVec.hook
        self.call = TrVec.callh
        self.sub = TrVec.subh

    def expr(self, n):
        if isinstance(n, ast.Compare) and len(n.ops) == 1 and isinstance(n.left, ast.Name) and n.left.id in self.flags \
                and isinstance(n.ops[0], (ast.Eq, ast.NotEq)) and const_index(n.comparators[0]) == 1:
            return n.left.id if isinstance(n.ops[0], ast.Eq) else f"(negb {n.left.id})"
        return super().expr(n)

    def over_x(self, n):
        """an elementwise test over the array -> text over x"""
        t = Tr(names=dict(self.names, **{self.arr: "x"}))
        return t.expr(n)

    @staticmethod
    def subh(tr, n):
        if isinstance(n.value, ast.Name) and n.value.id == tr.arr and isinstance(n.slice, ast.Name) and n.slice.id == tr.elem:
            return "(get v e)"
        return None

    @staticmethod
    def callh(tr, n):
        # int(np.sum(ranking == b)) / np.sum(ranking == b)  -> cnt_eq v b ;  np.max(ranking) -> vmax v
        if isinstance(n.func, ast.Name) and n.func.id == "int" and len(n.args) == 1:
            return tr.expr(n.args[0])
        if isinstance(n.func, ast.Attribute) and isinstance(n.func.value, ast.Name) and n.func.value.id == "np" and len(n.args) == 1:
            a = n.args[0]
            if n.func.attr == "sum" and isinstance(a, ast.Compare) and len(a.ops) == 1 and isinstance(a.ops[0], ast.Eq) \
                    and isinstance(a.left, ast.Name) and a.left.id == tr.arr:
                return f"(cnt_eq v {tr.expr(a.comparators[0])})"
            if n.func.attr == "max" and isinstance(a, ast.Name) and a.id == tr.arr:
                return "(vmax v)"
        return None

    @staticmethod
    def hook(tr, target, op, value):
        delta = {ast.Add: "+", ast.Sub: "-"}
        if isinstance(target, ast.Name) and op is None:          # a scalar read once
            tr.names[target.id] = target.id
            return target.id, tr.expr(value)
        if isinstance(target, ast.Subscript) and isinstance(target.value, ast.Name) and target.value.id == tr.arr:
            idx = target.slice
            if isinstance(idx, ast.Name) and idx.id == tr.elem:
                if op is None:
                    return "v", f"(upd v e {tr.expr(value)})"
                if type(op) in delta:
                    return "v", f"(upd v e ((get v e) {delta[type(op)]} {tr.expr(value)}))"
            if isinstance(idx, (ast.Compare, ast.BoolOp)) and op is not None and type(op) in delta:     # numpy mask
                return "v", f"(map (fun x => if {tr.over_x(idx)} then (x {delta[type(op)]} {tr.expr(value)}) else x) v)"
        return None

    def seq(self, stmts):
        # for i in range(n): if <test over r[i]>: r[i] +/-= c      ->  one map
        if stmts and isinstance(stmts[0], ast.For):
            f = stmts[0]
            ok = (isinstance(f.target, ast.Name) and isinstance(f.iter, ast.Call) and isinstance(f.iter.func, ast.Name) and f.iter.func.id == "range"
                  and len(f.iter.args) == 1 and len(f.body) == 1 and isinstance(f.body[0], ast.If) and not f.body[0].orelse
                  and len(f.body[0].body) == 1 and isinstance(f.body[0].body[0], ast.AugAssign) and not f.orelse)
            if not ok:
                fail(f, "loop shape")
            i = f.target.id
            aug = f.body[0].body[0]
            if not (isinstance(aug.target, ast.Subscript) and isinstance(aug.target.value, ast.Name) and aug.target.value.id == self.arr
                    and isinstance(aug.target.slice, ast.Name) and aug.target.slice.id == i and type(aug.op) in (ast.Add, ast.Sub)):
                fail(f, "loop update")

            class R(ast.NodeTransformer):      # r[i] -> x
                def visit_Subscript(s2, node):
                    if isinstance(node.value, ast.Name) and node.value.id == self.arr and isinstance(node.slice, ast.Name) and node.slice.id == i:
                        return ast.copy_location(ast.Name(id="__x", ctx=ast.Load()), node)
                    return self_generic(node)
            def self_generic(node):
                return node
            test = R().visit(f.body[0].test)
            t = Tr(names=dict(self.names, **{"__x": "x"}))
            sign = "+" if isinstance(aug.op, ast.Add) else "-"
            return f"(let v := (map (fun x => if {t.expr(test)} then (x {sign} {self.expr(aug.value)}) else x) v) in\n {self.seq(stmts[1:])})"
        return super().seq(stmts)


def find_method(tree, cls, name):
    for c in ast.walk(tree):
        if isinstance(c, ast.ClassDef) and c.name == cls:
            for n in c.body:
                if isinstance(n, ast.FunctionDef) and n.name == name:
                    return n
    raise Unsupported(f"{cls}.{name} not found")


# markov: the six moves of Ranking (ranking.py)
def gen_markov(repo):
    path = os.path.join(repo, "corankco/ranking.py")
    tree = ast.parse(open(path).read())
    out = HEADER.format(src="corankco/ranking.py (the six Markov moves)", imports="Prelude Rank Markov")
    for py, coq in (("__add_left", "add_left"), ("__add_right", "add_right"), ("__change_left", "change_left"),
                    ("__change_right", "change_right"), ("__remove_element", "remove_element"), ("__put_element_first", "put_element_first")):
        f = find_method(tree, "Ranking", py)
        args = [a.arg for a in f.args.args]
        if args != ["ranking", "elem"]:
            raise Unsupported(f"{py}: arguments changed: {args}")
        tr = TrVec("ranking", "elem", names={})
        out += f"Definition {coq}_gen (v : vec) (e : nat) : vec :=\n " + tr.seq(strip_docstring(f.body)) + ".\n\n"
    return out


# moves: _change_bucket / _add_bucket (bioconsert.py)
def gen_moves(repo):
    path = os.path.join(repo, "corankco/algorithms/bioconsert/bioconsert.py")
    tree = ast.parse(open(path).read())
    out = HEADER.format(src="corankco/algorithms/bioconsert/bioconsert.py (_change_bucket, _add_bucket)", imports="Prelude Rank Markov BioConsert")
    for py, coq in (("_change_bucket", "change_bucket"), ("_add_bucket", "add_bucket")):
        f = find_function(tree, py)
        args = [a.arg for a in f.args.args]
        if args != ["r", "n", "element", "old_pos", "new_pos", "alone_in_old_bucket"]:
            raise Unsupported(f"{py}: arguments changed: {args}")
        tr = TrVec("r", "element", names={"old_pos": "old_pos", "new_pos": "new_pos", "alone_in_old_bucket": "alone"}, flags=["alone_in_old_bucket"])
        body = tr.seq(strip_docstring(f.body)).replace("alone_in_old_bucket", "alone")
        out += f"Definition {coq}_gen (v : vec) (e : nat) (old_pos new_pos : Z) (alone : bool) : vec :=\n " + body + ".\n\n"
    return out


# initscore: the three-case chain that scores a departure ranking in _bio_consert (bioconsert.py)
def gen_initscore(repo):
    path = os.path.join(repo, "corankco/algorithms/bioconsert/bioconsert.py")
    f = find_function(ast.parse(open(path).read()), "_bio_consert")
    loops = [n for n in ast.walk(f) if isinstance(n, ast.For) and isinstance(n.target, ast.Name) and n.target.id == "id_elem2"]
    if len(loops) != 1 or len(loops[0].body) != 1 or not isinstance(loops[0].body[0], ast.If):
        raise Unsupported("expected one loop over id_elem2 whose body is the chain")

    def sub(tr, n):
        if isinstance(n.value, ast.Name) and n.value.id == "r" and isinstance(n.slice, ast.Name) and n.slice.id in ("id_elem1", "id_elem2"):
            return "x" if n.slice.id == "id_elem1" else "y"
        # cost_matrix_1d[cpt1 + id_elem2 * 3 (+ k)]
        if isinstance(n.value, ast.Name) and n.value.id == "cost_matrix_1d":
            i, k = n.slice, 0
            if isinstance(i, ast.BinOp) and isinstance(i.op, ast.Add) and const_index(i.right) in (1, 2):
                i, k = i.left, const_index(i.right)
            if isinstance(i, ast.BinOp) and isinstance(i.op, ast.Add) and isinstance(i.left, ast.Name) and i.left.id == "cpt1" \
                    and isinstance(i.right, ast.BinOp) and isinstance(i.right.op, ast.Mult) and isinstance(i.right.left, ast.Name) \
                    and i.right.left.id == "id_elem2" and const_index(i.right.right) == 3:
                return "bat"[k]
        return None

    def hook(tr, target, op, value):
        if isinstance(target, ast.Name) and target.id == "dst_init" and isinstance(op, ast.Add):
            return "acc", f"(acc + {tr.expr(value)})"
        return None

    tr = Tr(names={}, sub=sub, assign_hook=hook, final="acc")
    out = HEADER.format(src="corankco/algorithms/bioconsert/bioconsert.py (_bio_consert, initial score)", imports="Prelude")
    out += "Definition init_pick_gen (acc b a t x y : Z) : Z :=\n " + tr.seq(list(loops[0].body)) + ".\n"
    return out



# ======================================================================================================================
# imperative kernels translated statement by statement (tools/py2imp.py)
import py2imp


def _imp_guard(fn):
    def g(repo):
        try:
            return fn(repo)
        except py2imp.Unsupported as e:
            raise Unsupported(str(e))
    return g


IMP_HEADER = ("(** GENERATED by /verif/tools/py2coq.py (py2imp) from {src} - do not edit *)\n"
              "From Corankco Require Import {imports}.\nLocal Open Scope Z_scope.\n\n")


# biokernel: every jitted kernel of the local search (bioconsert.py), whole functions: both searches, both moves,
# _compute_delta_costs over the flattened cost matrix, and the loop nest of _improve_one_ranking
@_imp_guard
def gen_biokernel(repo):
    path = os.path.join(repo, "corankco/algorithms/bioconsert/bioconsert.py")
    tree = ast.parse(open(path).read())
    out = IMP_HEADER.format(src="corankco/algorithms/bioconsert/bioconsert.py (the jitted kernels of the local search)",
                            imports="Prelude Rank Markov BioConsert Imp")
    fc = {0.001: "THR", 0.0: "0"}
    for py, coq, arr in (("_search_to_change_bucket", "search_to_change_bucket_gen", "change"), ("_search_to_add_bucket", "search_to_add_bucket_gen", "add")):
        imp = py2imp.Imp(arrays=[arr], float_consts=fc)
        text, eff = imp.function(find_function(tree, py), coq, [("bucket_elem", "Z"), (arr, "list Z"), ("max_id_bucket", "Z")], [arr], "Z * list Z")
        if not eff:
            raise Unsupported(f"{py}: expected a loop")
        out += text + "\n"
    for py, coq in (("_change_bucket", "change_bucket_gen"), ("_add_bucket", "add_bucket_gen")):
        imp = py2imp.Imp(arrays=["r"], float_consts=fc)
        text, eff = imp.function(find_function(tree, py), coq, [("r", "list Z"), ("n", "Z"), ("element", "Z"), ("old_pos", "Z"), ("new_pos", "Z"),
                                                               ("alone_in_old_bucket", "Z")], ["r"], "list Z")
        if eff:
            raise Unsupported(f"{py}: unexpected while loop")
        out += text + "\n"
    imp = py2imp.Imp(arrays=["ranking", "cost_matrix", "change", "add"], float_consts=fc)
    text, eff = imp.function(find_function(tree, "_compute_delta_costs"), "compute_delta_costs_gen",
                             [("ranking", "list Z"), ("target_element", "Z"), ("cost_matrix", "list Z"), ("bucket_elem", "Z"), ("change", "list Z"),
                              ("add", "list Z"), ("n", "Z")], ["change", "add"], "Z * list Z * list Z")
    if eff:
        raise Unsupported("_compute_delta_costs: unexpected while loop")
    out += text + "\n"

    def np_max(i, n, env):
        if len(n.args) == 1 and isinstance(n.args[0], ast.Name) and n.args[0].id in i.arrays:
            return f"(vmax {i.expr(n.args[0], env)})"
        py2imp.fail(n, "np_max")

    def zeros(i, n, env):
        if len(n.args) == 1 and len(n.keywords) == 1 and n.keywords[0].arg == "dtype":
            return f"(zeros {i.expr(n.args[0], env)})"
        py2imp.fail(n, "zeros")

    C = py2imp.Callee
    imp = py2imp.Imp(arrays=["r", "cost_matrix_1d", "change", "add"], float_consts=fc, builtins={"np_max": np_max, "zeros": zeros},
                     callees={"_compute_delta_costs": C("compute_delta_costs_gen", ["=", 4, 5], False),
                              "_search_to_change_bucket": C("search_to_change_bucket_gen", ["=", 1], True),
                              "_search_to_add_bucket": C("search_to_add_bucket_gen", ["=", 1], True),
                              "_change_bucket": C("change_bucket_gen", [0], False),
                              "_add_bucket": C("add_bucket_gen", [0], False)})
    text, eff = imp.function(find_function(tree, "_improve_one_ranking"), "improve_one_ranking_gen",
                             [("r", "list Z"), ("cost_matrix_1d", "list Z"), ("n", "Z")], ["r"], "Z * list Z")
    if not eff:
        raise Unsupported("_improve_one_ranking: expected a loop")
    out += text + "\n"
    # the jitted driver: for each departure (a slice of the flattened array), its initial score + the local search
    imp = py2imp.Imp(arrays=["departure_rankings", "cost_matrix_1d", "dst_min", "r"], float_consts=fc, builtins={"zeros": zeros},
                     callees={"_improve_one_ranking": C("improve_one_ranking_gen", ["=", 0], True)})
    text, eff = imp.function(find_function(tree, "_bio_consert"), "bio_consert_gen",
                             [("departure_rankings", "list Z"), ("cost_matrix_1d", "list Z"), ("n", "Z"), ("nb_rankings_departure", "Z"), ("dst_min", "list Z")],
                             ["departure_rankings", "dst_min"], "list Z * list Z")
    if not eff:
        raise Unsupported("_bio_consert: expected to call the local search")
    out += text
    return out



# kemenymerge: KemenyComputingFactory.__merge (kemeny_score_computation.py), the whole function with its five while loops
@_imp_guard
def gen_kemenymerge(repo):
    path = os.path.join(repo, "corankco/kemeny_score_computation.py")
    tree = ast.parse(open(path).read())
    out = IMP_HEADER.format(src="corankco/kemeny_score_computation.py (KemenyComputingFactory.__merge)", imports="Prelude Rank Markov BioConsert Imp")

    def zeros(i, n, env):
        if len(n.args) == 1 and len(n.keywords) == 1 and n.keywords[0].arg == "dtype":
            return f"(zeros {i.expr(n.args[0], env)})"
        py2imp.fail(n, "zeros")

    imp = py2imp.Imp(arrays=["left", "right", "res", "s_1", "s_2"], builtins={"zeros": zeros})
    text, eff = imp.function(find_method(tree, "KemenyComputingFactory", "__merge"), "merge_gen",
                             [("left", "list Z"), ("right", "list Z"), ("s_1", "list Z"), ("s_2", "list Z")], ["s_1", "s_2"], "list Z * list Z * list Z")
    if not eff:
        raise Unsupported("__merge: expected loops")
    out += text + "\n"
    # the run-length walk that computes s_1[2] for one sorted bucket: the body of the loop over enumerate(r_prime) in
    # __cost_by_ranking, up to the statement that adds its result to s_1[2]
    cost = find_method(tree, "KemenyComputingFactory", "__cost_by_ranking")
    loops = [n for n in cost.body if isinstance(n, ast.For) and isinstance(n.iter, ast.Call) and isinstance(n.iter.func, ast.Name)
             and n.iter.func.id == "enumerate" and len(n.iter.args) == 1 and isinstance(n.iter.args[0], ast.Name) and n.iter.args[0].id == "r_prime"]
    if len(loops) != 1 or not (isinstance(loops[0].target, ast.Tuple) and len(loops[0].target.elts) == 2 and isinstance(loops[0].target.elts[1], ast.Name)):
        raise Unsupported("__cost_by_ranking: expected one loop over enumerate(r_prime)")
    loop = loops[0]
    arr = loop.target.elts[1].id
    last = loop.body[-1]
    if not (isinstance(last, ast.AugAssign) and isinstance(last.op, ast.Add) and isinstance(last.target, ast.Subscript)
            and isinstance(last.target.value, ast.Name) and last.target.value.id == "s_1" and const_index(last.target.slice) == 2
            and isinstance(last.value, ast.Name)):
        raise Unsupported("__cost_by_ranking: the loop over r_prime must end with s_1[2] += <name>")
    fn = ast.FunctionDef(name="_run_pairs", args=ast.arguments(posonlyargs=[], args=[ast.arg(arg=arr)], kwonlyargs=[], kw_defaults=[], defaults=[]),
                         body=list(loop.body[:-1]) + [ast.Return(value=last.value)], decorator_list=[])
    aliases = [s.target.id if isinstance(s, ast.AnnAssign) else s.targets[0].id for s in loop.body
               if isinstance(s, (ast.AnnAssign, ast.Assign)) and isinstance(getattr(s, "value", None), ast.Name) and s.value.id == arr]
    imp = py2imp.Imp(arrays=[arr] + aliases)
    text, eff = imp.function(fn, "run_pairs_gen", [(arr, "list Z")], [], "Z")
    if not eff:
        raise Unsupported("run-length walk: expected loops")
    return out + text


TARGETS = {"initscore": gen_initscore, "markov": gen_markov, "moves": gen_moves, "step6": gen_step6, "where": gen_where, "copeland": gen_copeland, "scheme": gen_scheme, "graph": gen_graph, "delta": gen_delta, "biokernel": gen_biokernel, "kemenymerge": gen_kemenymerge}


def main():
    repo, out = sys.argv[1], sys.argv[2]
    os.makedirs(out, exist_ok=True)
    rc = 0
    for t in sys.argv[3:]:
        try:
            text = TARGETS[t](repo)
            with open(os.path.join(out, f"Gen_{t}.v"), "w") as fh:
                fh.write(text)
            print(f"py2coq: {t}: ok")
        except Unsupported as e:
            print(f"py2coq: {t}: NOT TRANSLATABLE: {e}")
            rc = 1
    sys.exit(rc)


if __name__ == "__main__":
    main()
