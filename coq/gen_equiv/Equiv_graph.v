(** The arc / robust-arc / "cannot be tied" tests translated from the CURRENT source of pairwisebasedalgorithm.py are
    the model's (Partition.arc, robust_arc, can_be_all_tied).  Checked on every run of C06 and C07. *)
From Corankco Require Import Prelude Scheme Rank KemenySpec CostTable OptTheory Partition.
From CorankcoGen Require Import Gen_graph.
From Coq Require Import Lia.
Local Open Scope Z_scope.

Theorem arc_gen_ok : forall K i j, arc K i j = let '(b, a, t) := K i j in arc_gen b a t.
Proof. intros K i j. unfold arc, arc_gen. destruct (K i j) as [[b a] t]. reflexivity. Qed.

Theorem robust_gen_ok : forall K i j, robust_arc K i j = let '(b, a, t) := K i j in robust_gen b a t.
Proof. intros K i j. unfold robust_arc, robust_gen. destruct (K i j) as [[b a] t]. reflexivity. Qed.

Theorem cannot_tie_gen_ok : forall K G,
  can_be_all_tied K G = forallb (fun xy => let '(b, a, t) := K (fst xy) (snd xy) in negb (cannot_tie_gen b a t)) (ordpairs G).
Proof.
  intros K G. unfold can_be_all_tied. induction (ordpairs G) as [|[x y] l IH]; [reflexivity|]. cbn [forallb fst snd]. rewrite IH. f_equal.
  destruct (K x y) as [[b a] t]. unfold cannot_tie_gen. apply Z.leb_antisym.
Qed.
