(** The three-case chain that scores a departure ranking, translated from the CURRENT source of _bio_consert, is the
    summand of the model's score_vec (after the repair of F3).  Checked on every run of C09 and C04. *)
From Corankco Require Import Prelude Scheme Rank KemenySpec Markov BioConsert.
From CorankcoGen Require Import Gen_initscore.
Local Open Scope Z_scope.

Theorem init_pick_gen_ok : forall acc b a t x y,
  init_pick_gen acc b a t x y = acc + (if x <? y then b else if y <? x then a else t).
Proof. intros. unfold init_pick_gen. destruct (x <? y); destruct (y <? x); reflexivity. Qed.

Theorem score_vec_summand : forall K n r,
  score_vec K n r = zsum (map (fun xy => let '(b, a, t) := K (fst xy) (snd xy) in
                                          init_pick_gen 0 b a t (get r (fst xy)) (get r (snd xy))) (ordpairs (seq 0 n))).
Proof.
  intros K n r. reflexivity.
Qed.
