(** The six-case chain translated from the CURRENT source of _pairwise_cost_matrix_only is the chain of the model
    (CostTable.step6), and the mirrored lower triangle is the one of CostTable.entry.  Checked on every run of C02. *)
From Corankco Require Import Prelude Scheme Rank KemenySpec CostTable.
From CorankcoGen Require Import Gen_step6.
Local Open Scope Z_scope.

Theorem step6_gen_ok : forall s acc p1 p2, step6_gen s acc p1 p2 = step6 s acc p1 p2.
Proof. intros s [[a b] c] p1 p2. reflexivity. Qed.

Theorem mirror_gen_ok : forall a b c, mirror_gen (a, b, c) = (b, a, c).
Proof. reflexivity. Qed.
