(** The six Markov moves translated from the CURRENT source of corankco/ranking.py are the model's (Markov.v), on
    which the dense-numbering invariant is proved.  Checked on every run of C20. *)
From Corankco Require Import Prelude Rank Markov.
From CorankcoGen Require Import Gen_markov.
Local Open Scope Z_scope.

Theorem add_left_gen_ok : forall v e, add_left_gen v e = add_left v e.
Proof. reflexivity. Qed.
Theorem add_right_gen_ok : forall v e, add_right_gen v e = add_right v e.
Proof. reflexivity. Qed.
Theorem change_left_gen_ok : forall v e, change_left_gen v e = change_left v e.
Proof. intros v e. unfold change_left_gen, change_left. destruct (get v e =? 0); [reflexivity|]. cbn [negb]. destruct (cnt_eq v (get v e) =? 1); reflexivity. Qed.
Theorem change_right_gen_ok : forall v e, change_right_gen v e = change_right v e.
Proof.
  intros v e. unfold change_right_gen, change_right. cbv zeta.
  destruct (negb (get v e =? vmax v) && ((1 <? cnt_eq v (get v e)) || (1 <? cnt_eq v (get v e + 1)))); [|reflexivity].
  destruct (cnt_eq v (get v e) =? 1); reflexivity.
Qed.
Theorem remove_element_gen_ok : forall v e, remove_element_gen v e = remove_element v e.
Proof. intros v e. unfold remove_element_gen, remove_element. cbv zeta. destruct (cnt_eq v (get v e) =? 1); reflexivity. Qed.
Theorem put_element_first_gen_ok : forall v e, put_element_first_gen v e = put_element_first v e.
Proof. reflexivity. Qed.
