(** The victory / equality / defeat chain translated from the CURRENT source of CopelandMethod._fill_dicts_copeland
    is the comparison-based step of the model (Copeland.outcome / CopelandProof.pts: 2, 1, 0 half points; one victory
    and one defeat, or two equalities).  Checked on every run of C13. *)
From Corankco Require Import Prelude.
From CorankcoGen Require Import Gen_copeland.
Local Open Scope Z_scope.

Theorem copeland_pair_gen_ok : forall b a s1 v1 e1 d1 s2 v2 e2 d2,
  copeland_pair_gen b a (s1, v1, e1, d1, s2, v2, e2, d2) =
  match Z.compare b a with
  | Lt => (s1 + 2, v1 + 1, e1, d1, s2, v2, e2, d2 + 1)
  | Gt => (s1, v1, e1, d1 + 1, s2 + 2, v2 + 1, e2, d2)
  | Eq => (s1 + 1, v1, e1 + 1, d1, s2 + 1, v2, e2 + 1, d2)
  end.
Proof.
  intros. unfold copeland_pair_gen.
  destruct (Z.compare_spec b a) as [E|L|G].
  - subst. rewrite Z.ltb_irrefl. reflexivity.
  - apply Z.ltb_lt in L. rewrite L. reflexivity.
  - assert (Hb : (b <? a) = false) by (apply Z.ltb_ge; lia). apply Z.ltb_lt in G. rewrite Hb, G. reflexivity.
Qed.
