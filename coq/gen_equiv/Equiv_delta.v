(** The per-element chain and the closing updates translated from the CURRENT source of _compute_delta_costs are the
    model's (BioConsert.delta_step / compute_delta_costs).  Checked on every run of C08, C09, C04. *)
From Corankco Require Import Prelude Scheme Rank KemenySpec CostTable Markov Borda BioConsert.
From CorankcoGen Require Import Gen_delta.
From Coq Require Import Lia.
Local Open Scope Z_scope.

Lemma eqb_of_nat a b : (Z.of_nat a =? Z.of_nat b) = Nat.eqb a b.
Proof. destruct (Nat.eqb_spec a b) as [->|N]; [apply Z.eqb_refl|]. apply Z.eqb_neq. lia. Qed.

Theorem delta_step_gen_ok : forall K r target b0 st e2,
  delta_step_gen K r target b0 st e2 = delta_step K r target b0 st e2.
Proof.
  intros K r target b0 [[[[[change add] alone] qb] qa] qt] e2. unfold delta_step_gen, delta_step.
  destruct (K target e2) as [[cb ca] ct]. cbv zeta.
  destruct (b0 <? get r e2); [reflexivity|]. destruct (get r e2 <? b0).
  - destruct (get r e2 =? 0); reflexivity.
  - rewrite eqb_of_nat. destruct (Nat.eqb target e2); [reflexivity|]. destruct alone; reflexivity.
Qed.

Theorem compute_delta_costs_gen_ok : forall K r target b0 n,
  compute_delta_costs K r target b0 n =
  delta_close_gen b0 (fold_left (delta_step_gen K r target b0) (seq 0 n) (repeat 0 (n + 2), repeat 0 (n + 3), true, 0, 0, 0)).
Proof.
  intros K r target b0 n. unfold compute_delta_costs.
  assert (E : forall l st, fold_left (delta_step_gen K r target b0) l st = fold_left (delta_step K r target b0) l st).
  { induction l as [|e l IH]; intros st; [reflexivity|]. cbn [fold_left]. rewrite delta_step_gen_ok. apply IH. }
  rewrite E. destruct (fold_left (delta_step K r target b0) (seq 0 n) (repeat 0 (n + 2), repeat 0 (n + 3), true, 0, 0, 0)) as [[[[[change add] alone] qb] qa] qt].
  unfold delta_close_gen. destruct (b0 =? 0); reflexivity.
Qed.
