(** The two renumbering kernels translated from the CURRENT source of bioconsert.py are the model's
    (BioConsert.change_bucket / add_bucket), proved in BioMoves.v to realise the intended move and keep the numbering
    dense.  Checked on every run of C08. *)
From Corankco Require Import Prelude Rank Markov BioConsert.
From CorankcoGen Require Import Gen_moves.
Local Open Scope Z_scope.

Theorem change_bucket_gen_ok : forall v e old_pos new_pos alone,
  change_bucket_gen v e old_pos new_pos alone = change_bucket v e old_pos new_pos alone.
Proof. intros v e o n [|]; reflexivity. Qed.

Theorem add_bucket_gen_ok : forall v e old_pos new_pos alone,
  add_bucket_gen v e old_pos new_pos alone = add_bucket v e old_pos new_pos alone.
Proof. intros v e o n alone. unfold add_bucket_gen, add_bucket. destruct (o <? n); destruct alone; reflexivity. Qed.
