(** The decision function translated from the CURRENT source of KwikSortRandom._where_should_it_be is the model's
    (KwikSort.where_should).  Checked on every run of C11. *)
From Corankco Require Import Prelude Scheme Rank KemenySpec KwikSort.
From CorankcoGen Require Import Gen_where.
Local Open Scope Z_scope.

Theorem where_gen_ok : forall s pp po, where_gen s pp po = where_should s pp po.
Proof. intros s pp po. reflexivity. Qed.
