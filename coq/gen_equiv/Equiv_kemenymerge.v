(** The two loop nests of the Kemeny-score routine that do the counting, translated STATEMENT BY STATEMENT from the current
    source of corankco/kemeny_score_computation.py by tools/py2coq.py (py2imp), compute what the model computes:
      merge_gen_ok      KemenyComputingFactory.__merge (cursor-based, five while loops, writes into a preallocated array, updates
                        s_1[1] and s_2[0] in place)  =  the model's list-based [merge] (merged list, inversions, equal pairs) -
                        the function [merge_correct] / [msl_correct] of KemenyMerge.v / KemenyCount.v are about;
      run_pairs_gen_ok  the run-length walk that computes s_1[2] for one sorted bucket  =  the model's [run_pairs].
    Re-checked on every run of C01 against what the code says now. *)
From Corankco Require Import Prelude Rank Markov MarkovProof BioConsert Imp KemenyMerge KemenyImpl.
From CorankcoGen Require Import Gen_kemenymerge.
Local Open Scope Z_scope.

(* ------------------------------------------------------------------ *)
Definition zl (l : list nat) : list Z := map Z.of_nat l.

Lemma aget_zl l k : aget (zl l) (Z.of_nat k) = Z.of_nat (nth k l 0%nat).
Proof. unfold aget, zl. rewrite Nat2Z.id. change 0 with (Z.of_nat 0). apply map_nth. Qed.
Lemma zlen_zl l : zlen (zl l) = Z.of_nat (length l).
Proof. unfold zlen, zl. rewrite map_length. reflexivity. Qed.
Lemma skipn_nth (l : list nat) k : (k < length l)%nat -> skipn k l = nth k l 0%nat :: skipn (S k) l.
Proof.
  revert k; induction l as [|a l IH]; intros [|k] H; cbn in *; try lia; [reflexivity|]. apply IH. lia.
Qed.
Lemma skipn_all' (l : list nat) k : (length l <= k)%nat -> skipn k l = [].
Proof. apply skipn_all2. Qed.

Lemma aset_length a i v : length (aset a i v) = length a.
Proof. unfold aset. apply upd_length. Qed.
Lemma firstn_aset_same res k v : firstn k (aset res (Z.of_nat k) v) = firstn k res.
Proof.
  unfold aset. rewrite Nat2Z.id. revert k; induction res as [|x res IH]; intros [|k]; cbn; try reflexivity. rewrite IH. reflexivity.
Qed.
Lemma firstn_S_aset res k v : (k < length res)%nat -> firstn (S k) (aset res (Z.of_nat k) v) = firstn k res ++ [v].
Proof.
  unfold aset. rewrite Nat2Z.id. revert k; induction res as [|x res IH]; intros [|k] H; cbn in *; try lia; [reflexivity|].
  rewrite IH by lia. reflexivity.
Qed.
Lemma aadd_aadd s i a b : aadd (aadd s i a) i b = aadd s i (a + b).
Proof.
  unfold aadd, aget. generalize (Z.to_nat i) as k. intros k.
  revert k; induction s as [|x s IH]; intros [|k]; cbn; try reflexivity; [f_equal; lia|]. f_equal. apply IH.
Qed.
Lemma aadd_zero s i : aadd s i 0 = s.
Proof.
  unfold aadd, aget. generalize (Z.to_nat i) as k. intros k. rewrite Z.add_0_r.
  revert k; induction s as [|x s IH]; intros [|k]; cbn; try reflexivity. f_equal. apply IH.
Qed.

(** a loop that copies [src[c..]] into [res[cm..]] *)
Section Copy.
  Variables (src : list nat) (c : list Z * Z * Z -> bool) (b : list Z * Z * Z -> option (list Z * Z * Z)).
  Hypothesis Hc : forall res cm cu, c (res, cm, cu) = (cu <? zlen (zl src)).
  Hypothesis Hb : forall res cm cu, b (res, cm, cu) = Some (aset res cm (aget (zl src) cu), cm + 1, cu + 1).
  Lemma copy_loop : forall k cu cm res F, (cu + k = length src)%nat -> (cm + k <= length res)%nat -> (k < F)%nat ->
    exists res', while_fuel F c b (res, Z.of_nat cm, Z.of_nat cu) = Some (res', Z.of_nat (cm + k), Z.of_nat (length src)) /\
      length res' = length res /\ firstn (cm + k) res' = firstn cm res ++ zl (skipn cu src).
  Proof.
    induction k as [|k IH]; intros cu cm res F Hk Hr HF; destruct F as [|F]; try lia.
    - exists res. cbn [while_fuel]. rewrite Hc, zlen_zl. destruct (Z.ltb_spec (Z.of_nat cu) (Z.of_nat (length src))); [lia|].
      rewrite Nat.add_0_r. replace cu with (length src) by lia. split; [reflexivity|]. split; [reflexivity|].
      rewrite skipn_all. cbn. rewrite app_nil_r. reflexivity.
    - cbn [while_fuel]. rewrite Hc, zlen_zl. destruct (Z.ltb_spec (Z.of_nat cu) (Z.of_nat (length src))); [|lia].
      rewrite Hb, aget_zl.
      replace (Z.of_nat cm + 1) with (Z.of_nat (S cm)) by lia. replace (Z.of_nat cu + 1) with (Z.of_nat (S cu)) by lia.
      destruct (IH (S cu) (S cm) (aset res (Z.of_nat cm) (Z.of_nat (nth cu src 0%nat))) F ltac:(lia) ltac:(rewrite aset_length; lia) ltac:(lia))
        as (res' & E & L & Fi).
      exists res'. rewrite E. replace (S cm + k)%nat with (cm + S k)%nat in * by lia. split; [reflexivity|].
      split; [rewrite L; apply aset_length|]. rewrite Fi, firstn_S_aset by lia. rewrite (skipn_nth src cu) by lia.
      cbn [zl map]. rewrite <- app_assoc. reflexivity.
  Qed.
End Copy.

(** the loop that copies a run of [v] from [src[cu..]] and counts it *)
Section Run.
  Variables (src : list nat) (v : nat) (c : list Z * Z * Z * Z -> bool) (b : list Z * Z * Z * Z -> option (list Z * Z * Z * Z)).
  Hypothesis Hc : forall res cm cu cpt, c (res, cm, cu, cpt) = (cu <? zlen (zl src)) && (aget (zl src) cu =? Z.of_nat v).
  Hypothesis Hb : forall res cm cu cpt, b (res, cm, cu, cpt) = Some (aset res cm (Z.of_nat v), cm + 1, cu + 1, cpt + 1).
  Lemma run_loop : forall tail cu cm res cpt F, tail = skipn cu src -> (cu <= length src)%nat ->
    (cm + fst (span_eq v tail) <= length res)%nat -> (length tail < F)%nat ->
    let k := fst (span_eq v tail) in
    exists res', while_fuel F c b (res, Z.of_nat cm, Z.of_nat cu, cpt) = Some (res', Z.of_nat (cm + k), Z.of_nat (cu + k), cpt + Z.of_nat k) /\
      length res' = length res /\ firstn (cm + k) res' = firstn cm res ++ repeat (Z.of_nat v) k /\
      snd (span_eq v tail) = skipn (cu + k) src.
  Proof.
    induction tail as [|a tail IH]; intros cu cm res cpt F Ht Hcu Hr HF; destruct F as [|F]; cbn [length] in HF; try lia.
    - cbn [span_eq fst snd]. exists res. cbn [while_fuel]. rewrite Hc, zlen_zl.
      assert (length src <= cu)%nat.
      { destruct (Nat.le_gt_cases (length src) cu) as [G|G]; [exact G|]. rewrite (skipn_nth src cu G) in Ht. discriminate. }
      destruct (Z.ltb_spec (Z.of_nat cu) (Z.of_nat (length src))); [lia|]. cbn [andb]. rewrite !Nat.add_0_r, Z.add_0_r.
      split; [reflexivity|]. split; [reflexivity|]. split; [cbn; rewrite app_nil_r; reflexivity|exact Ht].
    - assert (G : (cu < length src)%nat).
      { destruct (Nat.le_gt_cases (length src) cu) as [G|G]; [|exact G]. rewrite skipn_all2 in Ht by exact G. discriminate. }
      pose proof (skipn_nth src cu G) as Sk. rewrite <- Ht in Sk. injection Sk as Ea Et.
      cbn [while_fuel]. rewrite Hc, zlen_zl, aget_zl, <- Ea.
      destruct (Z.ltb_spec (Z.of_nat cu) (Z.of_nat (length src))); [|lia]. cbn [andb span_eq] in *.
      destruct (Nat.eqb_spec a v) as [->|Ne].
      + rewrite Z.eqb_refl. rewrite Hb.
        destruct (span_eq v tail) as [k rest] eqn:Sp. cbn [fst snd] in *.
        replace (Z.of_nat cm + 1) with (Z.of_nat (S cm)) by lia. replace (Z.of_nat cu + 1) with (Z.of_nat (S cu)) by lia.
        destruct (IH (S cu) (S cm) (aset res (Z.of_nat cm) (Z.of_nat v)) (cpt + 1) F Et ltac:(lia) ltac:(rewrite aset_length; lia) ltac:(lia))
          as (res' & E & L & Fi & Re).
        exists res'. rewrite E. replace (S cm + k)%nat with (cm + S k)%nat in * by lia. replace (S cu + k)%nat with (cu + S k)%nat in * by lia.
        split; [f_equal; f_equal; lia|]. split; [rewrite L; apply aset_length|]. split; [|exact Re].
        rewrite Fi, firstn_S_aset by lia. cbn [repeat]. rewrite <- app_assoc. reflexivity.
      + destruct (Z.eqb_spec (Z.of_nat a) (Z.of_nat v)); [lia|]. cbn [fst snd]. rewrite !Nat.add_0_r, Z.add_0_r. exists res.
        split; [reflexivity|]. split; [reflexivity|]. split; [cbn; rewrite app_nil_r; reflexivity|]. rewrite Ht. reflexivity.
  Qed.
End Run.

(* ------------------------------------------------------------------ *)
Lemma span_eq_skipn v (src : list nat) : forall tail cu, tail = skipn cu src ->
  snd (span_eq v tail) = skipn (cu + fst (span_eq v tail)) src /\ (fst (span_eq v tail) <= length tail)%nat.
Proof.
  induction tail as [|a tail IH]; intros cu Ht.
  - cbn. rewrite Nat.add_0_r. split; [exact Ht|lia].
  - assert (G : (cu < length src)%nat).
    { destruct (Nat.le_gt_cases (length src) cu) as [G|G]; [|exact G]. rewrite skipn_all2 in Ht by exact G. discriminate. }
    pose proof (skipn_nth src cu G) as Sk. rewrite <- Ht in Sk. injection Sk as Ea Et.
    cbn [span_eq]. destruct (Nat.eqb_spec a v) as [->|Ne].
    + destruct (IH (S cu) Et) as [I1 I2]. destruct (span_eq v tail) as [k rest]. cbn [fst snd length] in *.
      replace (cu + S k)%nat with (S cu + k)%nat by lia. split; [exact I1|lia].
    + cbn [fst snd length]. rewrite Nat.add_0_r. split; [exact Ht|lia].
Qed.

Lemma map_repeat' {A B} (f : A -> B) x n : map f (repeat x n) = repeat (f x) n.
Proof. induction n; cbn; [reflexivity|]. f_equal. assumption. Qed.

Lemma span_eq_head v tail : (1 <= fst (span_eq v (v :: tail)))%nat.
Proof. cbn [span_eq]. rewrite Nat.eqb_refl. destruct (span_eq v tail). cbn. lia. Qed.

Lemma merge_S f l r : merge (S f) l r =
    match l, r with
    | [], _ => Some (r, 0, 0)
    | _, [] => Some (l, 0, 0)
    | a :: l', b :: r' =>
      if (a <? b)%nat then
        match merge f l' r with Some (m, i, e) => Some (a :: m, i, e) | None => None end
      else if (b <? a)%nat then
        match merge f l r' with
        | Some (m, i, e) => Some (b :: m, i + Z.of_nat (length l), e) | None => None end
      else
        let '(c1, l1) := span_eq a l in
        let '(c2, r1) := span_eq a r in
        match merge f l1 r1 with
        | Some (m, i, e) =>
            Some (repeat a (c1 + c2) ++ m,
                  i + Z.of_nat c2 * Z.of_nat (length l1),
                  e + Z.of_nat c1 * Z.of_nat c2)
        | None => None end
    end.
Proof. reflexivity. Qed.

Section Outer.
  Variables l r : list nat.
  Notation St := (list Z * Z * Z * list Z * Z * list Z)%type.
  Variables (c : St -> bool) (b : St -> option St) (K : St -> option (list Z * list Z * list Z)).
  Notation nl := (Z.of_nat (length l)).
  Notation nr := (Z.of_nat (length r)).
  Hypothesis Hc : forall res cm cl s1 cr s2, c (res, cm, cl, s1, cr, s2) = (cl <? nl) && (cr <? nr).
  Hypothesis Hb_lt : forall res cm cl s1 cr s2, (cl < length l)%nat -> (cr < length r)%nat -> (nth cl l 0 < nth cr r 0)%nat ->
    b (res, Z.of_nat cm, Z.of_nat cl, s1, Z.of_nat cr, s2) =
    Some (aset res (Z.of_nat cm) (Z.of_nat (nth cl l 0%nat)), Z.of_nat (S cm), Z.of_nat (S cl), s1, Z.of_nat cr, s2).
  Hypothesis Hb_gt : forall res cm cl s1 cr s2, (cl < length l)%nat -> (cr < length r)%nat -> (nth cr r 0 < nth cl l 0)%nat ->
    b (res, Z.of_nat cm, Z.of_nat cl, s1, Z.of_nat cr, s2) =
    Some (aset res (Z.of_nat cm) (Z.of_nat (nth cr r 0%nat)), Z.of_nat (S cm), Z.of_nat cl, aadd s1 1 (nl - Z.of_nat cl), Z.of_nat (S cr), s2).
  Hypothesis Hb_eq : forall res cm cl s1 cr s2, (cl < length l)%nat -> (cr < length r)%nat -> nth cl l 0%nat = nth cr r 0%nat ->
    let a := nth cl l 0%nat in
    let c1 := fst (span_eq a (skipn cl l)) in let c2 := fst (span_eq a (skipn cr r)) in
    (cm + c1 + c2 <= length res)%nat ->
    exists res', b (res, Z.of_nat cm, Z.of_nat cl, s1, Z.of_nat cr, s2) =
      Some (res', Z.of_nat (cm + c1 + c2), Z.of_nat (cl + c1), aadd s1 1 (Z.of_nat c2 * (nl - Z.of_nat (cl + c1))), Z.of_nat (cr + c2),
            aadd s2 0 (Z.of_nat c1 * Z.of_nat c2)) /\
      length res' = length res /\ firstn (cm + c1 + c2) res' = firstn cm res ++ repeat (Z.of_nat a) (c1 + c2).
  Hypothesis HK : forall res cm cl s1 cr s2, (cl = length l \/ cr = length r) -> (cl <= length l)%nat -> (cr <= length r)%nat ->
    (cm + (length l - cl) + (length r - cr) = length res)%nat ->
    K (res, Z.of_nat cm, Z.of_nat cl, s1, Z.of_nat cr, s2) = Some (firstn cm res ++ zl (skipn cl l) ++ zl (skipn cr r), s1, s2).

  Lemma outer : forall f cl cr cm res s1 s2 Fo m i e,
    (cl <= length l)%nat -> (cr <= length r)%nat -> cm = (cl + cr)%nat -> length res = (length l + length r)%nat ->
    ((length l - cl) + (length r - cr) < Fo)%nat ->
    merge f (skipn cl l) (skipn cr r) = Some (m, i, e) ->
    match while_fuel Fo c b (res, Z.of_nat cm, Z.of_nat cl, s1, Z.of_nat cr, s2) with Some st' => K st' | None => None end
    = Some (firstn cm res ++ zl m, aadd s1 1 i, aadd s2 0 e).
  Proof.
    induction f as [|f IH]; intros cl cr cm res s1 s2 Fo m i e Hl Hr Hm Lr HF E; [discriminate|].
    destruct Fo as [|Fo]; [lia|]. rewrite merge_S in E. cbn [while_fuel]. rewrite Hc.
    destruct (Nat.le_gt_cases (length l) cl) as [Gl|Gl].
    { (* left exhausted *)
      rewrite (skipn_all2 l) in E by exact Gl. cbv match in E. injection E as <- <- <-.
      destruct (Z.ltb_spec (Z.of_nat cl) nl); [lia|]. cbn [andb].
      rewrite HK by lia. rewrite (skipn_all2 l) by exact Gl. cbn [zl map app]. rewrite !aadd_zero. reflexivity. }
    destruct (Nat.le_gt_cases (length r) cr) as [Gr|Gr].
    { rewrite (skipn_all2 r) in E by exact Gr. rewrite (skipn_nth l cl Gl) in E. cbv match in E. injection E as <- <- <-.
      destruct (Z.ltb_spec (Z.of_nat cr) nr); [lia|]. rewrite andb_false_r.
      rewrite HK by lia. rewrite (skipn_all2 r) by exact Gr. cbn [zl map app]. rewrite app_nil_r, !aadd_zero.
      rewrite (skipn_nth l cl Gl). reflexivity. }
    destruct (Z.ltb_spec (Z.of_nat cl) nl); [|lia]. destruct (Z.ltb_spec (Z.of_nat cr) nr); [|lia]. cbn [andb].
    pose proof (skipn_nth l cl Gl) as SL. pose proof (skipn_nth r cr Gr) as SR.
    set (a := nth cl l 0%nat) in *. set (b0 := nth cr r 0%nat) in *.
    rewrite SL, SR in E. cbv match in E.
    destruct (Nat.ltb_spec a b0) as [Lt|Ge].
    - (* a < b0 *)
      rewrite (Hb_lt res cm cl s1 cr s2 Gl Gr Lt). fold a.
      destruct (merge f (skipn (S cl) l) (b0 :: skipn (S cr) r)) as [[[m' i'] e']|] eqn:E'; [|discriminate]. injection E as <- <- <-.
      rewrite <- SR in E'.
      rewrite (IH (S cl) cr (S cm) (aset res (Z.of_nat cm) (Z.of_nat a)) s1 s2 Fo m' i' e' ltac:(lia) ltac:(lia) ltac:(lia)
                 ltac:(rewrite aset_length; lia) ltac:(lia) E').
      rewrite firstn_S_aset by lia. cbn [zl map]. rewrite <- app_assoc. reflexivity.
    - destruct (Nat.ltb_spec b0 a) as [Lt|Ge2].
      + rewrite (Hb_gt res cm cl s1 cr s2 Gl Gr Lt). fold b0.
        remember (length (a :: skipn (S cl) l)) as LEN eqn:HLEN.
        rewrite <- SL, skipn_length in HLEN.
        destruct (merge f (a :: skipn (S cl) l) (skipn (S cr) r)) as [[[m' i'] e']|] eqn:E'; [|discriminate]. injection E as <- <- <-.
        rewrite <- SL in E'.
        rewrite (IH cl (S cr) (S cm) (aset res (Z.of_nat cm) (Z.of_nat b0)) (aadd s1 1 (nl - Z.of_nat cl)) s2 Fo m' i' e' ltac:(lia) ltac:(lia) ltac:(lia)
                   ltac:(rewrite aset_length; lia) ltac:(lia) E').
        rewrite firstn_S_aset by lia. cbn [zl map]. rewrite <- app_assoc, aadd_aadd. rewrite HLEN.
        replace (nl - Z.of_nat cl + i') with (i' + Z.of_nat (length l - cl)) by lia. reflexivity.
      + assert (Eab : a = b0) by lia.
        rewrite <- SL, <- SR in E. try rewrite <- Eab in E.
        destruct (span_eq_skipn a l (skipn cl l) cl eq_refl) as [S1 B1]. destruct (span_eq_skipn a r (skipn cr r) cr eq_refl) as [S2 B2].
        pose proof (span_eq_head a (skipn (S cl) l)) as P1. rewrite <- SL in P1.
        pose proof (span_eq_head a (skipn (S cr) r)) as P2. rewrite Eab, <- SR, <- Eab in P2.
        rewrite skipn_length in B1, B2.
        destruct (span_eq a (skipn cl l)) as [c1 l1] eqn:Sp1. destruct (span_eq a (skipn cr r)) as [c2 r1] eqn:Sp2. cbn [fst snd] in *.
        destruct (merge f l1 r1) as [[[m' i'] e']|] eqn:E'; [|discriminate]. injection E as <- <- <-.
        pose proof (Hb_eq res cm cl s1 cr s2 Gl Gr Eab) as HB. fold a in HB. rewrite Sp1, Sp2 in HB. cbn [fst] in HB.
        destruct (HB ltac:(lia)) as (res' & EB & LB & FB). rewrite EB. subst l1 r1.
        rewrite (IH (cl + c1)%nat (cr + c2)%nat (cm + c1 + c2)%nat res' _ _ Fo m' i' e' ltac:(lia) ltac:(lia) ltac:(lia) ltac:(lia) ltac:(lia) E').
        rewrite FB, !aadd_aadd. unfold zl. rewrite map_app, map_repeat'. rewrite <- app_assoc. rewrite skipn_length.
        replace (nl - Z.of_nat (cl + c1)) with (Z.of_nat (length l - (cl + c1))) by lia.
        replace (Z.of_nat c2 * Z.of_nat (length l - (cl + c1)) + i') with (i' + Z.of_nat c2 * Z.of_nat (length l - (cl + c1))) by lia.
        replace (Z.of_nat c1 * Z.of_nat c2 + e') with (e' + Z.of_nat c1 * Z.of_nat c2) by lia. reflexivity.
  Qed.
End Outer.

(* ------------------------------------------------------------------ *)
Lemma firstn_len_eq {A} (l : list A) n : n = length l -> firstn n l = l.
Proof. intros ->. apply firstn_all. Qed.

Theorem merge_gen_ok f F l r s1 s2 m i e :
  merge f l r = Some (m, i, e) -> (length l + length r < F)%nat ->
  merge_gen F (zl l) (zl r) s1 s2 = Some (zl m, aadd s1 1 i, aadd s2 0 e).
Proof.
  intros E HF. unfold merge_gen. cbv zeta. rewrite !zlen_zl.
  match goal with |- match while_fuel F ?c ?b ?st with Some p => @?K p | None => None end = _ =>
    pose (c0 := c); pose (b0 := b); pose (K0 := K)
  end.
  assert (Hc : forall res cm cl s1 cr s2, c0 (res, cm, cl, s1, cr, s2) = (cl <? Z.of_nat (length l)) && (cr <? Z.of_nat (length r)))
    by (intros; reflexivity).
  assert (Hlt : forall res cm cl s1 cr s2, (cl < length l)%nat -> (cr < length r)%nat -> (nth cl l 0 < nth cr r 0)%nat ->
    b0 (res, Z.of_nat cm, Z.of_nat cl, s1, Z.of_nat cr, s2) =
    Some (aset res (Z.of_nat cm) (Z.of_nat (nth cl l 0%nat)), Z.of_nat (S cm), Z.of_nat (S cl), s1, Z.of_nat cr, s2)).
  { intros res cm cl t1 cr t2 Gl Gr Lt. unfold b0. cbv beta zeta match. rewrite !aget_zl.
    destruct (Z.ltb_spec (Z.of_nat (nth cl l 0%nat)) (Z.of_nat (nth cr r 0%nat))); [|lia].
    rewrite !Z.add_1_r, <- !Nat2Z.inj_succ. reflexivity. }
  assert (Hgt : forall res cm cl s1 cr s2, (cl < length l)%nat -> (cr < length r)%nat -> (nth cr r 0 < nth cl l 0)%nat ->
    b0 (res, Z.of_nat cm, Z.of_nat cl, s1, Z.of_nat cr, s2) =
    Some (aset res (Z.of_nat cm) (Z.of_nat (nth cr r 0%nat)), Z.of_nat (S cm), Z.of_nat cl, aadd s1 1 (Z.of_nat (length l) - Z.of_nat cl), Z.of_nat (S cr), s2)).
  { intros res cm cl t1 cr t2 Gl Gr Lt. unfold b0. cbv beta zeta match. rewrite !aget_zl.
    destruct (Z.ltb_spec (Z.of_nat (nth cl l 0%nat)) (Z.of_nat (nth cr r 0%nat))); [lia|].
    destruct (Z.ltb_spec (Z.of_nat (nth cr r 0%nat)) (Z.of_nat (nth cl l 0%nat))); [|lia].
    rewrite !Z.add_1_r, <- !Nat2Z.inj_succ. reflexivity. }
  assert (Heq : forall res cm cl s1 cr s2, (cl < length l)%nat -> (cr < length r)%nat -> nth cl l 0%nat = nth cr r 0%nat ->
    let a := nth cl l 0%nat in
    let c1 := fst (span_eq a (skipn cl l)) in let c2 := fst (span_eq a (skipn cr r)) in
    (cm + c1 + c2 <= length res)%nat ->
    exists res', b0 (res, Z.of_nat cm, Z.of_nat cl, s1, Z.of_nat cr, s2) =
      Some (res', Z.of_nat (cm + c1 + c2), Z.of_nat (cl + c1), aadd s1 1 (Z.of_nat c2 * (Z.of_nat (length l) - Z.of_nat (cl + c1))), Z.of_nat (cr + c2),
            aadd s2 0 (Z.of_nat c1 * Z.of_nat c2)) /\
      length res' = length res /\ firstn (cm + c1 + c2) res' = firstn cm res ++ repeat (Z.of_nat a) (c1 + c2)).
  { intros res cm cl t1 cr t2 Gl Gr Eab a c1 c2 Hres. unfold b0. cbv beta zeta match. rewrite !aget_zl. fold a. rewrite <- Eab. fold a.
    rewrite Z.ltb_irrefl.
    pose proof (span_eq_skipn a l (skipn cl l) cl eq_refl) as [_ B1]. pose proof (span_eq_skipn a r (skipn cr r) cr eq_refl) as [_ B2].
    rewrite skipn_length in B1, B2. fold c1 in B1. fold c2 in B2.
    match goal with |- context[while_fuel F ?cc ?bb (res, Z.of_nat cm, Z.of_nat cl, 0)] =>
      destruct (run_loop l a cc bb ltac:(intros; rewrite zlen_zl; reflexivity) ltac:(intros; reflexivity)
                  (skipn cl l) cl cm res 0 F eq_refl ltac:(lia) ltac:(fold c1; lia) ltac:(rewrite skipn_length; lia)) as (res1 & E1 & L1 & F1 & _)
    end.
    fold c1 in E1, F1. rewrite E1. clear E1.
    match goal with |- context[while_fuel F ?cc ?bb (res1, ?x, Z.of_nat cr, 0)] =>
      destruct (run_loop r a cc bb ltac:(intros; rewrite zlen_zl; reflexivity) ltac:(intros; reflexivity)
                  (skipn cr r) cr (cm + c1) res1 0 F eq_refl ltac:(lia) ltac:(fold c2; lia) ltac:(rewrite skipn_length; lia)) as (res2 & E2 & L2 & F2 & _)
    end.
    fold c2 in E2, F2. rewrite E2. clear E2.
    exists res2. rewrite !Z.add_0_l. split; [reflexivity|]. split; [lia|].
    rewrite F2, F1, <- app_assoc, repeat_app. reflexivity. }
  assert (HK : forall res cm cl s1 cr s2, (cl = length l \/ cr = length r) -> (cl <= length l)%nat -> (cr <= length r)%nat ->
    (cm + (length l - cl) + (length r - cr) = length res)%nat ->
    K0 (res, Z.of_nat cm, Z.of_nat cl, s1, Z.of_nat cr, s2) = Some (firstn cm res ++ zl (skipn cl l) ++ zl (skipn cr r), s1, s2)).
  { intros res cm cl t1 cr t2 _ Gl Gr Hlen. unfold K0. cbv beta zeta match.
    match goal with |- context[while_fuel F ?cc ?bb (res, Z.of_nat cm, Z.of_nat cl)] =>
      destruct (copy_loop l cc bb ltac:(intros; rewrite zlen_zl; reflexivity) ltac:(intros; reflexivity)
                  (length l - cl)%nat cl cm res F ltac:(lia) ltac:(lia) ltac:(lia)) as (res1 & E1 & L1 & F1)
    end.
    rewrite E1. clear E1.
    match goal with |- context[while_fuel F ?cc ?bb (res1, ?x, Z.of_nat cr)] =>
      destruct (copy_loop r cc bb ltac:(intros; rewrite zlen_zl; reflexivity) ltac:(intros; reflexivity)
                  (length r - cr)%nat cr (cm + (length l - cl))%nat res1 F ltac:(lia) ltac:(lia) ltac:(lia)) as (res2 & E2 & L2 & F2)
    end.
    rewrite E2. clear E2.
    rewrite firstn_len_eq in F2 by lia. rewrite F2, F1, <- app_assoc. reflexivity. }
  pose proof (outer l r c0 b0 K0 Hc Hlt Hgt Heq HK f 0%nat 0%nat 0%nat
                (zeros (Z.of_nat (length l) + Z.of_nat (length r))) s1 s2 F m i e ltac:(lia) ltac:(lia) eq_refl
                ltac:(unfold zeros; rewrite repeat_length; lia) ltac:(lia) E) as O.
  exact O.
Qed.
Print Assumptions merge_gen_ok.

(* ------------------------------------------------------------------ *)
Lemma run_pairs_S f l : run_pairs (S f) l =
  match l with
  | [] | [_] => Some 0
  | a :: _ => let '(c, rest) := span_eq a l in
              match run_pairs f rest with Some s => Some (Z.of_nat c * Z.of_nat (length rest) + s) | None => None end
  end.
Proof. reflexivity. Qed.

Lemma skipn_cons_inv (l : list nat) : forall cu x rest, skipn cu l = x :: rest -> nth cu l 0%nat = x /\ skipn (S cu) l = rest.
Proof.
  induction l as [|y l IH]; intros [|cu] x rest H; cbn in H; try discriminate.
  - injection H as -> ->. split; reflexivity.
  - destruct (IH cu x rest H) as [A B]. split; [exact A|exact B].
Qed.

(** the inner loop: walks to the LAST element of the run that starts at [cu] *)
Section Inner.
  Variables (l : list nat) (c : Z * Z -> bool) (b : Z * Z -> option (Z * Z)).
  Hypothesis Hc : forall rep cu, c (rep, cu) = (cu <? Z.of_nat (length l) - 1) && (aget (zl l) cu =? aget (zl l) (cu + 1)).
  Hypothesis Hb : forall rep cu, b (rep, cu) = Some (rep + 1, cu + 1).
  Lemma inner_run a : forall t cu rep F, skipn cu l = a :: t -> (length t < F)%nat ->
    while_fuel F c b (rep, Z.of_nat cu) = Some (rep + Z.of_nat (fst (span_eq a t)), Z.of_nat (cu + fst (span_eq a t))).
  Proof.
    induction t as [|a' t IH]; intros cu rep F Sk HF; destruct F as [|F]; cbn [length] in HF; try lia.
    - assert (L : length l = S cu).
      { pose proof (f_equal (@length nat) Sk) as E. rewrite skipn_length in E. cbn in E.
        destruct (Nat.le_gt_cases (length l) cu) as [G|G]; [rewrite skipn_all2 in Sk by exact G; discriminate|lia]. }
      cbn [while_fuel span_eq fst]. rewrite Hc. destruct (Z.ltb_spec (Z.of_nat cu) (Z.of_nat (length l) - 1)); [lia|].
      cbn [andb]. rewrite Nat.add_0_r, Z.add_0_r. reflexivity.
    - assert (G : (S cu < length l)%nat).
      { pose proof (f_equal (@length nat) Sk) as E. rewrite skipn_length in E. cbn in E. lia. }
      assert (G0 : (cu < length l)%nat) by lia.
      destruct (skipn_cons_inv l cu a (a' :: t) Sk) as [Ea Et]. destruct (skipn_cons_inv l (S cu) a' t Et) as [Ea' Et'].
      cbn [while_fuel]. rewrite Hc. replace (Z.of_nat cu + 1) with (Z.of_nat (S cu)) by lia. rewrite !aget_zl, Ea, Ea'.
      destruct (Z.ltb_spec (Z.of_nat cu) (Z.of_nat (length l) - 1)); [|lia]. cbn [andb span_eq].
      destruct (Nat.eqb_spec a' a) as [->|Ne].
      + rewrite Z.eqb_refl, Hb. replace (Z.of_nat cu + 1) with (Z.of_nat (S cu)) by lia.
        rewrite (IH (S cu) (rep + 1) F Et) by lia.
        destruct (span_eq a t) as [k rest]. cbn [fst]. f_equal. f_equal; [lia|f_equal; lia].
      + destruct (Z.eqb_spec (Z.of_nat a) (Z.of_nat a')); [lia|]. cbn [fst]. rewrite Nat.add_0_r, Z.add_0_r. reflexivity.
  Qed.
End Inner.

Section OuterRP.
  Variables (l : list nat) (c : Z * Z -> bool) (b : Z * Z -> option (Z * Z)).
  Hypothesis Hc : forall cu s, c (cu, s) = (cu <? Z.of_nat (length l) - 1).
  Hypothesis Hb : forall cu s a t, skipn cu l = a :: t -> t <> [] ->
    let k := fst (span_eq a (a :: t)) in
    b (Z.of_nat cu, s) = Some (Z.of_nat (cu + k), s + Z.of_nat k * (Z.of_nat (length l) - Z.of_nat (cu + k))).
  Lemma outer_rp : forall f cu s Fo v, (cu <= length l)%nat -> (length l - cu < Fo)%nat ->
    run_pairs f (skipn cu l) = Some v ->
    exists cu', while_fuel Fo c b (Z.of_nat cu, s) = Some (cu', s + v).
  Proof.
    induction f as [|f IH]; intros cu s Fo v Hcu HF E; [discriminate|]. destruct Fo as [|Fo]; [lia|].
    rewrite run_pairs_S in E. cbn [while_fuel]. rewrite Hc.
    destruct (skipn cu l) as [|a [|a' t]] eqn:Sk.
    - injection E as <-. pose proof (f_equal (@length nat) Sk) as L. rewrite skipn_length in L. cbn in L.
      destruct (Z.ltb_spec (Z.of_nat cu) (Z.of_nat (length l) - 1)); [lia|]. exists (Z.of_nat cu). rewrite Z.add_0_r. reflexivity.
    - injection E as <-. pose proof (f_equal (@length nat) Sk) as L. rewrite skipn_length in L. cbn in L.
      destruct (Z.ltb_spec (Z.of_nat cu) (Z.of_nat (length l) - 1)); [lia|]. exists (Z.of_nat cu). rewrite Z.add_0_r. reflexivity.
    - pose proof (f_equal (@length nat) Sk) as L. rewrite skipn_length in L. cbn [length] in L.
      destruct (Z.ltb_spec (Z.of_nat cu) (Z.of_nat (length l) - 1)); [|lia].
      rewrite (Hb cu s a (a' :: t) Sk ltac:(discriminate)).
      destruct (span_eq_skipn a l (skipn cu l) cu eq_refl) as [S1 B1]. rewrite Sk in S1, B1.
      pose proof (span_eq_head a (a' :: t)) as P1.
      destruct (span_eq a (a :: a' :: t)) as [k rest] eqn:Sp. cbn [fst snd length] in *.
      destruct (run_pairs f rest) as [v'|] eqn:E'; [|discriminate]. injection E as <-. subst rest.
      destruct (IH (cu + k)%nat (s + Z.of_nat k * (Z.of_nat (length l) - Z.of_nat (cu + k))) Fo v' ltac:(lia) ltac:(lia) E') as (cu' & W).
      exists cu'. rewrite W. rewrite skipn_length. f_equal. f_equal.
      replace (Z.of_nat (length l) - Z.of_nat (cu + k)) with (Z.of_nat (length l - (cu + k))) by lia. lia.
  Qed.
End OuterRP.

Theorem run_pairs_gen_ok f F l v : run_pairs f l = Some v -> (length l < F)%nat -> run_pairs_gen F (zl l) = Some v.
Proof.
  intros E HF. unfold run_pairs_gen. cbv zeta. rewrite zlen_zl.
  match goal with |- match while_fuel F ?c ?b ?st with Some p => _ | None => None end = _ => pose (c0 := c); pose (b0 := b) end.
  assert (Hc : forall cu s, c0 (cu, s) = (cu <? Z.of_nat (length l) - 1)) by (intros; reflexivity).
  assert (Hb : forall cu s a t, skipn cu l = a :: t -> t <> [] ->
    let k := fst (span_eq a (a :: t)) in
    b0 (Z.of_nat cu, s) = Some (Z.of_nat (cu + k), s + Z.of_nat k * (Z.of_nat (length l) - Z.of_nat (cu + k)))).
  { intros cu s a t Sk Ht k. unfold b0. cbv beta zeta match.
    match goal with |- context[while_fuel F ?cc ?bb (1, Z.of_nat cu)] =>
      rewrite (inner_run l cc bb ltac:(intros; reflexivity) ltac:(intros; reflexivity) a t cu 1 F Sk)
    end.
    2:{ pose proof (f_equal (@length nat) Sk) as L. rewrite skipn_length in L. cbn in L. lia. }
    subst k. cbn [span_eq]. rewrite Nat.eqb_refl. destruct (span_eq a t) as [k' rest]. cbn [fst].
    replace (Z.of_nat (cu + k') + 1) with (Z.of_nat (cu + S k')) by lia. replace (1 + Z.of_nat k') with (Z.of_nat (S k')) by lia. reflexivity. }
  destruct (outer_rp l c0 b0 Hc Hb f 0%nat 0 F v ltac:(lia) ltac:(lia) E) as (cu' & W).
  fold c0 b0. change (while_fuel F c0 b0 (0, 0)) with (while_fuel F c0 b0 (Z.of_nat 0, 0)). rewrite W. reflexivity.
Qed.
Print Assumptions run_pairs_gen_ok.

