(** The "forbidden association" tests translated from the CURRENT source of ScoringScheme.__init__ are the negation
    of the model's relations (Scheme.relations_b).  Checked on every run of C19. *)
From Corankco Require Import Prelude Scheme.
From CorankcoGen Require Import Gen_scheme.
From Coq Require Import Lia.
Local Open Scope Z_scope.

Theorem forbidden_gen_ok : forall s, nonneg s -> negb (forbidden_gen s) = relations_b s.
Proof.
  intros s Hn. unfold nonneg, Bl, Tl in Hn. cbn [app] in Hn.
  repeat match goal with H : Forall _ (_ :: _) |- _ => inversion H; clear H; subst end. cbv beta in *.
  unfold forbidden_gen, relations_b, Bv, Tv, Bl, Tl. cbn [nth].
  repeat match goal with |- context [?x =? ?y] => destruct (Z.eqb_spec x y) end;
  repeat match goal with |- context [?x <? ?y] => destruct (Z.ltb_spec x y) end;
  repeat match goal with |- context [?x <=? ?y] => destruct (Z.leb_spec x y) end; cbn; try reflexivity; try lia.
Qed.
