(** The jitted kernels of BioConsert's local search, translated STATEMENT BY STATEMENT from the current source of
    corankco/algorithms/bioconsert/bioconsert.py by tools/py2coq.py (py2imp: assignments, array cells, if / while /
    for-range, calls between kernels), are proved to compute what the hand-written model computes - the functions the
    theorems of BioArrays.v / BioLoop.v / BioAlgo.v (C08, C09, C04) are about:
      search_to_change_bucket_gen_ok, search_to_add_bucket_gen_ok  (while loops = the model's fuelled scans)
      change_bucket_gen_ok, add_bucket_gen_ok                      (index loops = the model's maps)
      compute_delta_costs_gen_ok                                   (over the FLATTENED cost matrix = the model over the table)
      improve_one_ranking_gen_ok                                   (the whole loop nest = the model's improve_one_ranking)
      bio_consert_gen_ok                                           (the jitted driver over the FLATTENED departures: slice in, initial score,
                                                                    local search, slice out = the model's map of bio_one)
    Re-checked on every run of C08 / C09 / C04 against what the code says now. *)
From Corankco Require Import Prelude Scheme Rank KemenySpec CostTable OptTheory Markov MarkovProof Borda BioConsert Imp BioDelta Judge.JBio BioMoves BioArrays BioLoop BioAlgo.
From CorankcoGen Require Import Gen_biokernel.
Local Open Scope Z_scope.

(* ------------------------------------------------------------------ *)
Section Loops.
  Variables (c : list Z * Z * Z -> bool) (b : list Z * Z * Z -> option (list Z * Z * Z)).

  Lemma right_loop last :
    (forall a r i, c (a, r, i) = (r =? -1) && (i <=? last)) ->
    (forall a r i, b (a, r, i) = Some (aadd a i (aget a (i - 1)), (if aget (aadd a i (aget a (i - 1))) i <? - THR then i else r), i + 1)) ->
    forall f F a i, 0 <= i -> (f < F)%nat -> last - i < Z.of_nat f ->
    exists i', while_fuel F c b (a, -1, i) = Some (snd (scan_right f a i last), fst (scan_right f a i last), i').
  Proof.
    intros Hc Hb. induction f as [|f IH]; intros F a i Hi HF Hl.
    - destruct F as [|F]; [lia|]. exists i. cbn [while_fuel scan_right fst snd]. rewrite Hc.
      destruct (Z.leb_spec i last); [lia|]. rewrite andb_false_r. reflexivity.
    - destruct F as [|F]; [lia|]. cbn [while_fuel scan_right]. rewrite Hc. change (-1 =? -1) with true. cbn [andb].
      destruct (Z.leb_spec i last) as [Le|Gt]; [|exists i; reflexivity].
      rewrite Hb. set (a' := aadd a i (aget a (i - 1))).
      destruct (aget a' i <? - THR) eqn:Hit.
      + exists (i + 1). destruct F as [|F]; [lia|]. cbn [while_fuel fst snd]. rewrite Hc.
        destruct (Z.eqb_spec i (-1)); [lia|]. reflexivity.
      + apply IH; lia.
  Qed.

  Lemma left_loop :
    (forall a r i, c (a, r, i) = (r =? -1) && (0 <=? i)) ->
    (forall a r i, b (a, r, i) = Some (aadd a i (aget a (i + 1)), (if aget (aadd a i (aget a (i + 1))) i <? - THR then i else r), i - 1)) ->
    forall f F a i, (f < F)%nat -> i < Z.of_nat f ->
    exists i', while_fuel F c b (a, -1, i) = Some (snd (scan_left f a i), fst (scan_left f a i), i').
  Proof.
    intros Hc Hb. induction f as [|f IH]; intros F a i HF Hl.
    - destruct F as [|F]; [lia|]. exists i. cbn [while_fuel scan_left fst snd]. rewrite Hc.
      destruct (Z.leb_spec 0 i); [lia|]. rewrite andb_false_r. reflexivity.
    - destruct F as [|F]; [lia|]. cbn [while_fuel scan_left]. rewrite Hc. change (-1 =? -1) with true. cbn [andb].
      destruct (Z.leb_spec 0 i) as [Le|Gt]; [|exists i; reflexivity].
      rewrite Hb. set (a' := aadd a i (aget a (i + 1))).
      destruct (aget a' i <? - THR) eqn:Hit.
      + exists (i - 1). destruct F as [|F]; [lia|]. cbn [while_fuel fst snd]. rewrite Hc.
        destruct (Z.eqb_spec i (-1)); [lia|]. reflexivity.
      + apply IH; lia.
  Qed.
End Loops.

Lemma scan_right_length f : forall a i last, length (snd (scan_right f a i last)) = length a.
Proof.
  induction f as [|f IH]; intros a i last; [reflexivity|]. cbn [scan_right].
  destruct (i <=? last); [|reflexivity]. destruct (_ <? _); cbn [snd]; [apply aadd_length|]. rewrite IH. apply aadd_length.
Qed.

(* a loop whose test is false at once *)
Lemma while_skip {S} F (c : S -> bool) b s : c s = false -> while_fuel (Datatypes.S F) c b s = Some s.
Proof. apply while_fuel_false. Qed.

Theorem search_to_change_bucket_gen_ok : forall fuel bucket_elem change max_id,
  0 <= bucket_elem -> max_id <= Z.of_nat (length change) -> bucket_elem <= Z.of_nat (length change) ->
  (length change < fuel)%nat ->
  search_to_change_bucket_gen fuel bucket_elem change max_id = Some (search_to_change_bucket bucket_elem change max_id).
Proof.
  intros fuel b0 C m Hb Hm Hbl HF. unfold search_to_change_bucket_gen, search_to_change_bucket.
  destruct fuel as [|fuel]; [lia|].
  destruct (aget C (b0 + 1 - 1) <? - THR) eqn:H0.
  - (* immediate hit: both loops are skipped *)
    rewrite while_skip by (cbn; destruct (Z.eqb_spec (b0 + 1 - 1) (-1)); [lia|reflexivity]).
    destruct (Z.eqb_spec (b0 + 1 - 1) (-1)); [lia|]. reflexivity.
  - match goal with |- context[while_fuel ?F ?c ?b (C, ?r, ?i)] =>
      destruct (right_loop c b m ltac:(intros; reflexivity) ltac:(intros; reflexivity) (length C) F C i ltac:(lia) ltac:(lia) ltac:(lia)) as [i' E]
    end.
    rewrite E. clear E.
    pose proof (scan_right_length (length C) C (b0 + 1) m) as L1.
    destruct (scan_right (length C) C (b0 + 1) m) as [res C1]. cbn [fst snd] in *.
    destruct (Z.eqb_spec res (-1)) as [->|R]; cbn [negb]; [|reflexivity].
    destruct ((-1 <=? b0 - 2) && (aget C1 (b0 - 2 + 1) <? - THR)) eqn:H1.
    + apply andb_true_iff in H1. destruct H1 as [G1 _]. apply Z.leb_le in G1.
      rewrite while_skip by (cbn; destruct (Z.eqb_spec (b0 - 2 + 1) (-1)); [lia|reflexivity]). reflexivity.
    + match goal with |- context[while_fuel ?F ?c ?b (C1, ?r, ?i)] =>
        destruct (left_loop c b ltac:(intros; reflexivity) ltac:(intros; reflexivity) (length C1) F C1 i ltac:(lia) ltac:(lia)) as [i'' E]
      end.
      rewrite E. destruct (scan_left (length C1) C1 (b0 - 2)) as [res2 C2]. reflexivity.
Qed.

Theorem search_to_add_bucket_gen_ok : forall fuel bucket_elem add max_id,
  0 <= bucket_elem -> max_id + 1 <= Z.of_nat (length add) -> bucket_elem <= Z.of_nat (length add) ->
  (length add < fuel)%nat ->
  search_to_add_bucket_gen fuel bucket_elem add max_id = Some (search_to_add_bucket bucket_elem add max_id).
Proof.
  intros fuel b0 A m Hb Hm Hbl HF. unfold search_to_add_bucket_gen, search_to_add_bucket.
  destruct fuel as [|fuel]; [lia|].
  destruct (aget A (b0 + 2 - 1) <? - THR) eqn:H0.
  - rewrite while_skip by (cbn; destruct (Z.eqb_spec (b0 + 2 - 1) (-1)); [lia|reflexivity]).
    destruct (Z.eqb_spec (b0 + 2 - 1) (-1)); [lia|]. reflexivity.
  - match goal with |- context[while_fuel ?F ?c ?b (A, ?r, ?i)] =>
      destruct (right_loop c b (m + 1) ltac:(intros; reflexivity) ltac:(intros; reflexivity) (length A) F A i ltac:(lia) ltac:(lia) ltac:(lia)) as [i' E]
    end.
    rewrite E. clear E.
    pose proof (scan_right_length (length A) A (b0 + 2) (m + 1)) as L1.
    destruct (scan_right (length A) A (b0 + 2) (m + 1)) as [res A1]. cbn [fst snd] in *.
    destruct (Z.eqb_spec res (-1)) as [->|R]; cbn [negb]; [|reflexivity].
    destruct (aget A1 (b0 - 1 + 1) <? - THR) eqn:H1.
    + rewrite while_skip by (cbn; destruct (Z.eqb_spec (b0 - 1 + 1) (-1)); [lia|reflexivity]). reflexivity.
    + match goal with |- context[while_fuel ?F ?c ?b (A1, ?r, ?i)] =>
        destruct (left_loop c b ltac:(intros; reflexivity) ltac:(intros; reflexivity) (length A1) F A1 i ltac:(lia) ltac:(lia)) as [i'' E]
      end.
      rewrite E. destruct (scan_left (length A1) A1 (b0 - 1)) as [res2 A2]. reflexivity.
Qed.

(* ------------------------------------------------------------------ *)
Definition b2z (b : bool) : Z := if b then 1 else 0.

(** a loop over the indices that rewrites each cell from its own value is a [map] *)
Lemma aget_app_mid pre x post : aget (pre ++ x :: post) (Z.of_nat (length pre)) = x.
Proof. unfold aget. rewrite Nat2Z.id, app_nth2, Nat.sub_diag by lia. reflexivity. Qed.
Lemma upd_app_mid pre x post y : upd (pre ++ x :: post) (length pre) y = pre ++ y :: post.
Proof. induction pre as [|a pre IH]; [reflexivity|]. cbn. rewrite IH. reflexivity. Qed.

Lemma fold_cells (step : list Z -> Z -> list Z) (f : Z -> Z) :
  (forall pre x post, step (pre ++ x :: post) (Z.of_nat (length pre)) = pre ++ f x :: post) ->
  forall r pre, fold_left step (zrange (Z.of_nat (length pre)) (Z.of_nat (length pre + length r))) (pre ++ r) = pre ++ map f r.
Proof.
  intros Hs. induction r as [|x r IH]; intros pre.
  - rewrite zrange_empty by (cbn [length]; lia). cbn [fold_left map]. reflexivity.
  - rewrite zrange_cons by (cbn [length]; lia). cbn [fold_left map]. rewrite Hs.
    replace (pre ++ f x :: r) with ((pre ++ [f x]) ++ r) by (rewrite <- app_assoc; reflexivity).
    replace (Z.of_nat (length pre) + 1) with (Z.of_nat (length (pre ++ [f x]))) by (rewrite app_length; cbn; lia).
    replace (length pre + length (x :: r))%nat with (length (pre ++ [f x]) + length r)%nat by (rewrite app_length; cbn; lia).
    rewrite IH. rewrite <- app_assoc. reflexivity.
Qed.

Lemma fold_cells_all (step : list Z -> Z -> list Z) (f : Z -> Z) r n :
  (forall pre x post, step (pre ++ x :: post) (Z.of_nat (length pre)) = pre ++ f x :: post) ->
  n = Z.of_nat (length r) -> fold_left step (zrange 0 n) r = map f r.
Proof. intros Hs ->. exact (fold_cells step f Hs r []). Qed.

Ltac cell_step :=
  intros pre x post; cbv beta zeta; rewrite aget_app_mid;
  match goal with |- context[if ?c then _ else _] => destruct c eqn:? end;
  [unfold aadd; rewrite aget_app_mid, Nat2Z.id, upd_app_mid; reflexivity | reflexivity].

Lemma aset_nat r e v : aset r (Z.of_nat e) v = upd r e v.
Proof. unfold aset. rewrite Nat2Z.id. reflexivity. Qed.

Theorem change_bucket_gen_ok r n e old_pos new_pos alone :
  n = length r ->
  change_bucket_gen r (Z.of_nat n) (Z.of_nat e) old_pos new_pos (b2z alone) = change_bucket r e old_pos new_pos alone.
Proof.
  intros Hn. unfold change_bucket_gen, change_bucket. rewrite aset_nat.
  destruct alone; cbn [b2z]; [|reflexivity]. change (1 =? 1) with true. cbv iota.
  rewrite (fold_cells_all _ (fun x => if old_pos <? x then x + -1 else x)).
  - apply map_ext. intros x. destruct (old_pos <? x); lia.
  - cell_step.
  - rewrite upd_length. lia.
Qed.

Theorem add_bucket_gen_ok r n e old_pos new_pos alone :
  n = length r ->
  add_bucket_gen r (Z.of_nat n) (Z.of_nat e) old_pos new_pos (b2z alone) = add_bucket r e old_pos new_pos alone.
Proof.
  intros Hn. unfold add_bucket_gen, add_bucket.
  destruct (old_pos <? new_pos); destruct alone; cbn [b2z]; cbv iota;
    try change (1 =? 1) with true; try change (0 =? 1) with false; cbv iota; rewrite aset_nat; f_equal.
  - rewrite (fold_cells_all _ (fun x => if (old_pos <? x) && (x <? new_pos) then x + -1 else x)); [|cell_step|lia].
    apply map_ext. intros x. destruct (_ && _); lia.
  - rewrite (fold_cells_all _ (fun x => if new_pos <=? x then x + 1 else x)); [reflexivity|cell_step|lia].
  - rewrite (fold_cells_all _ (fun x => if (new_pos <=? x) && (x <? old_pos) then x + 1 else x)); [reflexivity|cell_step|lia].
  - rewrite (fold_cells_all _ (fun x => if new_pos <=? x then x + 1 else x)); [reflexivity|cell_step|lia].
Qed.

(* ------------------------------------------------------------------ *)
(** the flattened n x n x 3 cost matrix read as a table *)
Definition flat_table (M : list Z) (n : nat) : table :=
  fun x y => let p := 3 * Z.of_nat n * Z.of_nat x + 3 * Z.of_nat y in (aget M p, aget M (p + 1), aget M (p + 2)).

Lemma fold_left_map {A B C} (f : A -> C -> A) (g : B -> C) l a :
  fold_left f (map g l) a = fold_left (fun s x => f s (g x)) l a.
Proof. revert a; induction l as [|x l IH]; intros a; [reflexivity|]. cbn. apply IH. Qed.

Lemma aget_get r e : (e < length r)%nat -> aget r (Z.of_nat e) = get r e.
Proof. intros H. unfold aget, get. rewrite Nat2Z.id. apply nth_indep. exact H. Qed.

Theorem compute_delta_costs_gen_ok M n r target bucket_elem C0 A0 :
  length r = n -> C0 = repeat 0 (n + 2) -> A0 = repeat 0 (n + 3) ->
  compute_delta_costs_gen r (Z.of_nat target) M bucket_elem C0 A0 (Z.of_nat n) =
  let '(alone, change, add) := compute_delta_costs (flat_table M n) r target bucket_elem n in (b2z alone, change, add).
Proof.
  intros Lr -> ->. unfold compute_delta_costs_gen, compute_delta_costs.
  rewrite zrange_nat, fold_left_map.
  set (K := flat_table M n).
  match goal with |- context[fold_left ?f (seq 0 n) (?c, ?a, 1, 0, 0, 0, ?p)] => set (G := f) end.
  assert (Sim : forall l k c a al qb qa qt, (forall e, In e l -> (e < n)%nat) -> l = seq k (length l) ->
     fold_left G l (c, a, b2z al, qb, qa, qt, 3 * Z.of_nat n * Z.of_nat target + 3 * Z.of_nat k) =
     let '(c', a', al', qb', qa', qt') := fold_left (delta_step K r target bucket_elem) l (c, a, al, qb, qa, qt) in
     (c', a', b2z al', qb', qa', qt', 3 * Z.of_nat n * Z.of_nat target + 3 * Z.of_nat (k + length l))).
  { induction l as [|e l IH]; intros k c a al qb qa qt Hin Hseq.
    - cbn [fold_left length]. rewrite Nat.add_0_r. reflexivity.
    - cbn [length seq] in Hseq. injection Hseq as -> Hseq. cbn [fold_left].
      assert (He : (k < n)%nat) by (apply Hin; left; reflexivity).
      assert (Step : G (c, a, b2z al, qb, qa, qt, 3 * Z.of_nat n * Z.of_nat target + 3 * Z.of_nat k) k =
                     let '(c', a', al', qb', qa', qt') := delta_step K r target bucket_elem (c, a, al, qb, qa, qt) k in
                     (c', a', b2z al', qb', qa', qt', 3 * Z.of_nat n * Z.of_nat target + 3 * Z.of_nat (S k))).
      { unfold G, delta_step, K, flat_table. cbv beta zeta iota. rewrite aget_get by lia.
        set (p := 3 * Z.of_nat n * Z.of_nat target + 3 * Z.of_nat k).
        replace (3 * Z.of_nat n * Z.of_nat target + 3 * Z.of_nat (S k)) with (p + 3) by lia.
        destruct (bucket_elem <? get r k); [reflexivity|].
        destruct (get r k <? bucket_elem).
        { destruct (get r k =? 0); reflexivity. }
        destruct (Nat.eqb_spec target k) as [->|Ne].
        { rewrite Z.eqb_refl. reflexivity. }
        destruct (Z.eqb_spec (Z.of_nat target) (Z.of_nat k)); [lia|]. cbn [negb].
        destruct al; reflexivity. }
      rewrite Step. destruct (delta_step K r target bucket_elem (c, a, al, qb, qa, qt) k) as [[[[[c1 a1] al1] qb1] qa1] qt1].
      rewrite (IH (S k)) by (try (intros; apply Hin; right; assumption); exact Hseq).
      cbn [length]. replace (S k + length l)%nat with (k + S (length l))%nat by lia. reflexivity. }
  specialize (Sim (seq 0 n) 0%nat (repeat 0 (n + 2)) (repeat 0 (n + 3)) true 0 0 0).
  rewrite seq_length in Sim. specialize (Sim ltac:(intros e He; apply in_seq in He; lia) eq_refl).
  cbn [b2z] in Sim. replace (3 * Z.of_nat n * Z.of_nat target + 3 * Z.of_nat 0) with (3 * Z.of_nat n * Z.of_nat target) in Sim by lia.
  rewrite Sim. clear Sim.
  destruct (fold_left (delta_step K r target bucket_elem) (seq 0 n) _) as [[[[[c1 a1] al1] qb1] qa1] qt1].
  destruct (bucket_elem =? 0); reflexivity.
Qed.

(* ------------------------------------------------------------------ *)
Definition t_of (ch : bool) : Z := if ch then 0 else 1.

Lemma scan_left_length f : forall a i, length (snd (scan_left f a i)) = length a.
Proof.
  induction f as [|f IH]; intros a i; [reflexivity|]. cbn [scan_left].
  destruct (0 <=? i); [|reflexivity]. destruct (_ <? _); cbn [snd]; [apply aadd_length|]. rewrite IH. apply aadd_length.
Qed.
Lemma search_change_length b C m : length (snd (search_to_change_bucket b C m)) = length C.
Proof.
  unfold search_to_change_bucket. destruct (_ <? _); [reflexivity|].
  pose proof (scan_right_length (length C) C (b + 1) m) as L. destruct (scan_right (length C) C (b + 1) m) as [res C1]. cbn [snd] in L.
  destruct (negb _); [exact L|]. destruct (_ && _); [exact L|]. rewrite scan_left_length. exact L.
Qed.
Lemma search_add_length b A m : length (snd (search_to_add_bucket b A m)) = length A.
Proof.
  unfold search_to_add_bucket. destruct (_ <? _); [reflexivity|].
  pose proof (scan_right_length (length A) A (b + 2) (m + 1)) as L. destruct (scan_right (length A) A (b + 2) (m + 1)) as [res A1]. cbn [snd] in L.
  destruct (negb _); [exact L|]. destruct (_ <? _); [exact L|]. rewrite scan_left_length. exact L.
Qed.

Lemma elem_inv K n S0 r m d ch e r' m' d' ch' : mirror K -> SInv K n S0 r m d -> (e < n)%nat ->
  improve_elem K n (r, m, d, ch) e = (r', m', d', ch') -> SInv K n S0 r' m' d'.
Proof. intros MK HI He E. pose proof (improve_elem_spec K n S0 r m d ch e MK HI He) as ES. rewrite E in ES. apply ES. Qed.
Lemma sweep_inv K n S0 l r m d ch r' m' d' ch' : mirror K -> SInv K n S0 r m d -> (forall e, In e l -> (e < n)%nat) ->
  fold_left (improve_elem K n) l (r, m, d, ch) = (r', m', d', ch') -> SInv K n S0 r' m' d'.
Proof. intros MK HI Hl E. pose proof (sweep_spec K n S0 MK l r m d ch HI Hl) as SS. rewrite E in SS. apply SS. Qed.

Section Outer.
  Variables (K : table) (n : nat).
  Hypothesis MK : mirror K.
  Notation St := (list Z * list Z * Z * Z * list Z * Z)%type.

  (** what one element step of the generated code does, stated against the model's [improve_elem] *)
  Definition step_ok (stepf : St -> Z -> option St) : Prop :=
    forall C A d (r : list Z) m e S0 ch, SInv K n S0 r m d -> (e < n)%nat -> length C = (n + 2)%nat -> length A = (n + 3)%nat ->
    match stepf (C, A, t_of ch, d, r, m) (Z.of_nat e) with
    | Some (C', A', t', d', r', m') =>
        length C' = (n + 2)%nat /\ length A' = (n + 3)%nat /\
        (r', m', d', t') = (let '(r1, m1, d1, ch1) := improve_elem K n (r, m, d, ch) e in (r1, m1, d1, t_of ch1))
    | None => False
    end.

  Lemma sweep_ok stepf : step_ok stepf -> forall l k C A d (r : list Z) m S0 ch,
    SInv K n S0 r m d -> (forall e, In e l -> (e < n)%nat) -> l = seq k (length l) ->
    length C = (n + 2)%nat -> length A = (n + 3)%nat ->
    exists C' A', length C' = (n + 2)%nat /\ length A' = (n + 3)%nat /\
      fold_opt stepf (map Z.of_nat l) (C, A, t_of ch, d, r, m) =
      let '(r', m', d', ch') := fold_left (improve_elem K n) l (r, m, d, ch) in Some (C', A', t_of ch', d', r', m').
  Proof.
    intros Hs. induction l as [|e l IH]; intros k C A d r m S0 ch HI Hin Hseq LC LA.
    - exists C, A. split; [exact LC|]. split; [exact LA|]. reflexivity.
    - cbn [length seq] in Hseq. injection Hseq as -> Hseq. cbn [map fold_opt fold_left].
      assert (He : (k < n)%nat) by (apply Hin; left; reflexivity).
      pose proof (Hs C A d r m k S0 ch HI He LC LA) as E.
      destruct (stepf (C, A, t_of ch, d, r, m) (Z.of_nat k)) as [[[[[[C1 A1] t1] d1'] r1'] m1']|]; [|contradiction].
      destruct E as (LC1 & LA1 & E).
      destruct (improve_elem K n (r, m, d, ch) k) as [[[r1 m1] d1] ch1] eqn:EE.
      pose proof (elem_inv K n S0 r m d ch k r1 m1 d1 ch1 MK HI He EE) as HI1.
      injection E as -> -> -> ->.
      apply (IH (S k) C1 A1 d1 r1 m1 S0 ch1 HI1); [intros e0 He0; apply Hin; right; exact He0|exact Hseq|exact LC1|exact LA1].
  Qed.

  (** the outer loop *)
  Variables (c : Z * list Z * list Z * Z * list Z * Z -> bool) (b : Z * list Z * list Z * Z * list Z * Z -> option (Z * list Z * list Z * Z * list Z * Z)).
  Variable stepf : St -> Z -> option St.
  Hypothesis Hstep : step_ok stepf.
  Hypothesis Hc : forall t C A d r m, c (t, C, A, d, r, m) = (t =? 0).
  Hypothesis Hb : forall t C A d r m, b (t, C, A, d, r, m) =
    match fold_opt stepf (zrange 0 (Z.of_nat n)) (C, A, 1, d, r, m) with
    | Some (C', A', t', d', r', m') => Some (t', C', A', d', r', m')
    | None => None
    end.

  Lemma outer_ok : forall f F C A d (r : list Z) m S0 res,
    SInv K n S0 r m d -> length C = (n + 2)%nat -> length A = (n + 3)%nat ->
    improve_loop f K n r m d = Some res -> (f < F)%nat ->
    exists C' A' m', while_fuel F c b (0, C, A, d, r, m) = Some (1, C', A', snd res, fst res, m').
  Proof.
    induction f as [|f IH]; intros F C A d r m S0 res HI LC LA E HF; [discriminate|].
    destruct F as [|F]; [lia|]. cbn [improve_loop] in E. unfold vec in *. cbn [while_fuel]. rewrite Hc. change (0 =? 0) with true. cbv iota.
    rewrite Hb, zrange_nat.
    destruct (sweep_ok stepf Hstep (seq 0 n) 0%nat C A d r m S0 false HI ltac:(intros e He; apply in_seq in He; lia)
                ltac:(rewrite seq_length; reflexivity) LC LA) as (C1 & A1 & LC1 & LA1 & Sw).
    change (t_of false) with 1 in Sw. rewrite Sw. clear Sw.
    unfold vec in *.
    match type of E with context[match ?X with _ => _ end] => destruct X as [[[r1 m1] d1] ch1] eqn:FL end.
    pose proof (sweep_inv K n S0 (seq 0 n) r m d false r1 m1 d1 ch1 MK HI ltac:(intros e He; apply in_seq in He; lia) FL) as HI1.
    destruct ch1; cbn [t_of].
    - apply (IH F C1 A1 d1 r1 m1 S0 res HI1 LC1 LA1 E). lia.
    - inversion E; subst. exists C1, A1, m1. destruct F as [|F]; [lia|]. cbn [while_fuel fst snd]. rewrite Hc. reflexivity.
  Qed.
End Outer.

(* ------------------------------------------------------------------ *)
Lemma b2z_eqb al : (b2z al =? 1) = al.
Proof. destruct al; reflexivity. Qed.

Lemma cdc_lengths K r e n m alone C1 A1 : DenseTo n r m -> (e < n)%nat -> m < Z.of_nat n ->
  compute_delta_costs K r e (get r e) n = (alone, C1, A1) -> length C1 = (n + 2)%nat /\ length A1 = (n + 3)%nat.
Proof.
  intros HD He Hm E. pose proof (compute_delta_costs_spec K r e n m HD He Hm) as CS. unfold b0 in CS. rewrite E in CS.
  destruct CS as (_ & L1 & L2 & _). split; assumption.
Qed.

Theorem improve_one_ranking_gen_ok f F M n (r : list Z) res :
  mirror (flat_table M n) -> DenseTo n r (vmax r) ->
  improve_one_ranking f (flat_table M n) n r = Some res -> (f < F)%nat -> (n + 3 < F)%nat ->
  improve_one_ranking_gen F r M (Z.of_nat n) = Some (snd res, fst res).
Proof.
  intros MK HD E HF HF2. unfold improve_one_ranking_gen, improve_one_ranking in *.
  set (K := flat_table M n) in *.
  match goal with |- context[while_fuel F ?c ?b ?s] =>
    match b with context[fold_opt ?sf _ _] =>
      assert (Hstep : step_ok K n sf); [|
      destruct (outer_ok K n MK c b sf Hstep ltac:(intros; reflexivity) ltac:(intros; reflexivity)
                  f F (zeros (Z.of_nat n + 2)) (zeros (Z.of_nat n + 3)) 0 r (vmax r) (scoref K (seq 0 n) (base r)) res) as (C' & A' & m' & W)]
    end
  end.
  - (* one element step of the generated code = improve_elem *)
    intros C A d r0 m e S0 ch HI He LC LA. pose proof HI as [HD0 _]. pose proof (dense_bound n r0 m HD0) as Hm.
    pose proof HD0 as (Lr & Rg & _). pose proof (Rg e He) as Rge.
    cbv beta iota. rewrite (aget_get r0 e) by lia. rewrite LC, LA.
    rewrite (compute_delta_costs_gen_ok M n r0 e (get r0 e) _ _ Lr eq_refl eq_refl). fold K.
    unfold improve_elem.
    destruct (compute_delta_costs K r0 e (get r0 e) n) as [[alone C1] A1] eqn:CD.
    destruct (cdc_lengths K r0 e n m alone C1 A1 HD0 He Hm CD) as (LC1 & LA1).
    rewrite (search_to_change_bucket_gen_ok F (get r0 e) C1 m) by lia.
    pose proof (search_change_length (get r0 e) C1 m) as LC2.
    destruct (search_to_change_bucket (get r0 e) C1 m) as [to C2]. cbn [snd] in LC2.
    destruct (0 <=? to).
    + rewrite (change_bucket_gen_ok r0 n e (get r0 e) to alone) by lia. rewrite b2z_eqb.
      split; [lia|]. split; [exact LA1|]. destruct alone; reflexivity.
    + rewrite (search_to_add_bucket_gen_ok F (get r0 e) A1 m) by lia.
      pose proof (search_add_length (get r0 e) A1 m) as LA2.
      destruct (search_to_add_bucket (get r0 e) A1 m) as [to2 A2]. cbn [snd] in LA2.
      destruct (0 <=? to2).
      * rewrite (add_bucket_gen_ok r0 n e (get r0 e) to2 alone) by lia. rewrite b2z_eqb.
        split; [lia|]. split; [lia|]. destruct alone; reflexivity.
      * split; [lia|]. split; [lia|]. reflexivity.
  - split; [exact HD|lia].
  - unfold zeros. rewrite repeat_length. lia.
  - unfold zeros. rewrite repeat_length. lia.
  - exact E.
  - exact HF.
  - rewrite W. reflexivity.
Qed.
Print Assumptions improve_one_ranking_gen_ok.


(* ------------------------------------------------------------------ *)
(** End to end, on the TRANSLATED code: with enough fuel, the kernel as written in the source terminates, and the
    vector it leaves is a local optimum whose score is the departure's score plus the returned variation. *)
Theorem improve_one_ranking_gen_local_opt F M n (r : list Z) m :
  mirror (flat_table M n) -> nonnegK (flat_table M n) -> (0 < n)%nat -> DenseTo n r m ->
  score_vec (flat_table M n) n r < Z.of_nat (F - 1) * THR -> (n + 3 < F)%nat ->
  exists d r', improve_one_ranking_gen F r M (Z.of_nat n) = Some (d, r') /\
    score_vec (flat_table M n) n r' = score_vec (flat_table M n) n r + d /\ d <= 0 /\
    (exists m', DenseTo n r' m') /\ local_opt (flat_table M n) n r' THR = true.
Proof.
  intros MK NN Hn HD Hf HF.
  destruct (bio_one_terminates (flat_table M n) n (F - 1) r m MK NN Hn HD Hf) as ([r' s] & E).
  pose proof (bio_one_spec (flat_table M n) n (F - 1) r m r' s MK Hn HD E) as (Es & Le & HD' & LO).
  unfold bio_one in E. destruct (improve_one_ranking (F - 1) (flat_table M n) n r) as [[r1 d1]|] eqn:EI; [|discriminate].
  inversion E; subst r1 s. exists d1, r'.
  rewrite <- (dense_vmax n r m Hn HD) in HD.
  rewrite (improve_one_ranking_gen_ok (F - 1) F M n r (r', d1) MK HD EI ltac:(lia) HF). cbn [fst snd].
  repeat split; try assumption; lia.
Qed.
Print Assumptions improve_one_ranking_gen_local_opt.

(* ------------------------------------------------------------------ *)
Lemma map_seq_shift a m : map (fun k => Z.of_nat a + Z.of_nat k) (seq 0 m) = map Z.of_nat (seq a m).
Proof.
  revert a; induction m as [|m IH]; intros a; [reflexivity|]. cbn [seq map]. f_equal; [lia|].
  rewrite <- (seq_shift m 0), map_map, <- (IH (S a)). apply map_ext. intros; lia.
Qed.
Lemma zrange_nat2 a b : zrange (Z.of_nat a) (Z.of_nat b) = map Z.of_nat (seq a (b - a)).
Proof.
  unfold zrange. assert (E : Z.to_nat (Z.of_nat b - Z.of_nat a) = (b - a)%nat).
  { destruct (le_lt_dec a b) as [L|L]; [rewrite <- Nat2Z.inj_sub by exact L; apply Nat2Z.id|].
    replace (b - a)%nat with 0%nat by lia. apply Z2Nat.inj_neg || (destruct (Z.of_nat b - Z.of_nat a) eqn:Q; try reflexivity; lia). }
  rewrite E. apply map_seq_shift.
Qed.

Lemma fold_add {A} (f : A -> Z) l acc : fold_left (fun s x => s + f x) l acc = acc + zsum (map f l).
Proof.
  revert acc; induction l as [|x l IH]; intros acc; cbn [fold_left map]; [cbn; lia|].
  rewrite IH. change (zsum (f x :: map f l)) with (f x + zsum (map f l)). lia.
Qed.

Lemma list_eq_aget (a b : list Z) : length a = length b -> (forall i, (i < length a)%nat -> aget a (Z.of_nat i) = aget b (Z.of_nat i)) -> a = b.
Proof.
  intros L H. apply (nth_ext a b 0 0 L). intros i Hi. specialize (H i Hi). unfold aget in H. rewrite Nat2Z.id in H. exact H.
Qed.

(** the initial score: the double loop over the flattened matrix is the model's [score_vec] on the table [flat_table M n] *)
Section Init.
  Variables (M : list Z) (n : nat) (r : list Z).
  Hypothesis Lr : length r = n.
  Let K := flat_table M n.
  Definition pickxy (xy : nat * nat) : Z :=
    let '(b, a, t) := K (fst xy) (snd xy) in
    if get r (fst xy) <? get r (snd xy) then b else if get r (snd xy) <? get r (fst xy) then a else t.

  Variable inner : Z -> Z -> Z -> Z.      (* the body of the inner loop: acc, id_elem1, id_elem2 *)
  Hypothesis Hinner : forall acc x y, (x < n)%nat -> (y < n)%nat -> inner acc (Z.of_nat x) (Z.of_nat y) = acc + pickxy (x, y).

  Lemma inner_loop x a m acc : (x < n)%nat -> (a + m <= n)%nat ->
    fold_left (fun s y => inner s (Z.of_nat x) y) (map Z.of_nat (seq a m)) acc = acc + zsum (map (fun y => pickxy (x, y)) (seq a m)).
  Proof.
    intros Hx. revert a acc; induction m as [|m IH]; intros a acc Ha; cbn [seq map fold_left]; [cbn; lia|].
    rewrite Hinner by lia. rewrite IH by lia.
    change (zsum (pickxy (x, a) :: map (fun y => pickxy (x, y)) (seq (S a) m))) with (pickxy (x, a) + zsum (map (fun y => pickxy (x, y)) (seq (S a) m))). lia.
  Qed.

  Lemma outer_loop : forall m a acc, (a + m = n)%nat ->
    fold_left (fun s x => fold_left (fun s' y => inner s' x y) (zrange (x + 1) (Z.of_nat n)) s) (zrange (Z.of_nat a) (Z.of_nat n - 1)) acc
    = acc + zsum (map pickxy (ordpairs (seq a m))).
  Proof.
    induction m as [|m IH]; intros a acc Ha.
    - rewrite zrange_empty by lia. cbn. lia.
    - destruct m as [|m'].
      + rewrite zrange_empty by lia. cbn. lia.
      + rewrite zrange_cons by lia. cbn [fold_left]. replace (Z.of_nat a + 1) with (Z.of_nat (S a)) by lia.
        rewrite zrange_nat2. rewrite (inner_loop a (S a) (n - S a)) by lia.
        rewrite (IH (S a)) by lia. replace (n - S a)%nat with (S m') by lia.
        rewrite <- (cons_seq (S m') a). cbn [ordpairs]. rewrite map_app, zsum_app, map_map. cbn [fst snd]. lia.
  Qed.

  Lemma init_score_loop :
    fold_left (fun s x => fold_left (fun s' y => inner s' x y) (zrange (x + 1) (Z.of_nat n)) s) (zrange 0 (Z.of_nat n - 1)) 0
    = score_vec K n r.
  Proof.
    change 0 with (Z.of_nat 0) at 1. rewrite (outer_loop n 0%nat 0 eq_refl). unfold score_vec. rewrite Z.add_0_l.
    apply zsum_map_ext. intros [x y] _. reflexivity.
  Qed.
End Init.

(* ------------------------------------------------------------------ *)
Lemma zrange_snoc k : zrange 0 (Z.of_nat (S k)) = zrange 0 (Z.of_nat k) ++ [Z.of_nat k].
Proof. rewrite !zrange_nat. rewrite seq_S, map_app. reflexivity. Qed.

Lemma aget_aset_same a i v : (i < length a)%nat -> aget (aset a (Z.of_nat i) v) (Z.of_nat i) = v.
Proof. intros H. unfold aget, aset. rewrite !Nat2Z.id, nth_upd, Nat.eqb_refl. destruct (Nat.ltb_spec i (length a)); [reflexivity|lia]. Qed.
Lemma aget_aset_other a i j v : i <> j -> aget (aset a (Z.of_nat i) v) (Z.of_nat j) = aget a (Z.of_nat j).
Proof. intros H. unfold aget, aset. rewrite !Nat2Z.id, nth_upd. destruct (Nat.eqb_spec j i); [lia|reflexivity]. Qed.
Lemma aset_len a i v : length (aset a i v) = length a.
Proof. unfold aset. apply upd_length. Qed.

(** copy-in: [r[j] = src[off + j]] for j < k *)
Lemma copy_in_loop (src : list Z) (off : nat) : forall k (r : list Z), (k <= length r)%nat ->
  let '(r', c2) := fold_left (fun st j => let '(r0, c) := st in (aset r0 j (aget src c), c + 1)) (zrange 0 (Z.of_nat k)) (r, Z.of_nat off) in
  c2 = Z.of_nat (off + k) /\ length r' = length r /\
  forall j, aget r' (Z.of_nat j) = if (j <? k)%nat then aget src (Z.of_nat (off + j)) else aget r (Z.of_nat j).
Proof.
  induction k as [|k IH]; intros r Hk.
  - rewrite zrange_empty by lia. cbn [fold_left]. split; [f_equal; lia|]. split; [reflexivity|]. intros j. reflexivity.
  - rewrite zrange_snoc, fold_left_app. specialize (IH r ltac:(lia)).
    destruct (fold_left _ (zrange 0 (Z.of_nat k)) (r, Z.of_nat off)) as [r1 c1]. destruct IH as (-> & L1 & P1). cbn [fold_left].
    split; [lia|]. split; [rewrite aset_len; exact L1|]. intros j.
    destruct (Nat.eq_dec j k) as [->|Ne].
    + rewrite aget_aset_same by lia. destruct (Nat.ltb_spec k (S k)); [reflexivity|lia].
    + rewrite aget_aset_other by lia. rewrite P1. destruct (Nat.ltb_spec j k); destruct (Nat.ltb_spec j (S k)); try lia; reflexivity.
Qed.

(** copy-out: [dst[off + j] = r[j]] for j < k *)
Lemma copy_out_loop (r : list Z) (off : nat) : forall k (dst : list Z), (off + k <= length dst)%nat ->
  let '(d', c2) := fold_left (fun st j => let '(d0, c) := st in (aset d0 c (aget r j), c + 1)) (zrange 0 (Z.of_nat k)) (dst, Z.of_nat off) in
  c2 = Z.of_nat (off + k) /\ length d' = length dst /\
  forall i, aget d' (Z.of_nat i) = if ((off <=? i) && (i <? off + k))%nat then aget r (Z.of_nat (i - off)) else aget dst (Z.of_nat i).
Proof.
  induction k as [|k IH]; intros dst Hk.
  - rewrite zrange_empty by lia. cbn [fold_left]. split; [f_equal; lia|]. split; [reflexivity|]. intros i.
    destruct (Nat.leb_spec off i); destruct (Nat.ltb_spec i (off + 0)); cbn [andb]; try reflexivity; lia.
  - rewrite zrange_snoc, fold_left_app. specialize (IH dst ltac:(lia)).
    destruct (fold_left _ (zrange 0 (Z.of_nat k)) (dst, Z.of_nat off)) as [d1 c1]. destruct IH as (-> & L1 & P1). cbn [fold_left].
    split; [lia|]. split; [rewrite aset_len; exact L1|]. intros i.
    destruct (Nat.eq_dec i (off + k)) as [->|Ne].
    + rewrite aget_aset_same by lia. replace (off + k - off)%nat with k by lia.
      destruct (Nat.leb_spec off (off + k)); destruct (Nat.ltb_spec (off + k) (off + S k)); cbn [andb]; try reflexivity; lia.
    + rewrite aget_aset_other by lia. rewrite P1.
      destruct (Nat.leb_spec off i); destruct (Nat.ltb_spec i (off + k)); destruct (Nat.ltb_spec i (off + S k)); cbn [andb]; try reflexivity; lia.
Qed.

(** cells of a concatenation of rows of the same length *)
Lemma aget_concat (rows : list (list Z)) n : Forall (fun r => length r = n) rows -> forall i j, (i < length rows)%nat -> (j < n)%nat ->
  aget (concat rows) (Z.of_nat (i * n + j)) = aget (nth i rows []) (Z.of_nat j).
Proof.
  intros H. induction H as [|r rows Hr Hrows IH]; intros i j Hi Hj; [cbn in Hi; lia|].
  unfold aget in *. rewrite !Nat2Z.id in *. cbn [concat]. destruct i as [|i].
  - cbn [nth Nat.mul Nat.add]. rewrite app_nth1 by lia. reflexivity.
  - cbn [nth]. rewrite app_nth2 by (rewrite Hr; lia). rewrite Hr. replace (S i * n + j - n)%nat with (i * n + j)%nat by lia.
    specialize (IH i j ltac:(cbn in Hi; lia) Hj). rewrite !Nat2Z.id in IH. exact IH.
Qed.
Lemma length_concat_rows (rows : list (list Z)) n : Forall (fun r => length r = n) rows -> length (concat rows) = (length rows * n)%nat.
Proof. induction 1 as [|r rows Hr _ IH]; [reflexivity|]. cbn [concat length]. rewrite app_length, IH, Hr. lia. Qed.

(* ------------------------------------------------------------------ *)
Lemma aget_app_l (a b : list Z) j : (j < length a)%nat -> aget (a ++ b) (Z.of_nat j) = aget a (Z.of_nat j).
Proof. intros H. unfold aget. rewrite Nat2Z.id. apply app_nth1. exact H. Qed.
Lemma aget_app_r (a b : list Z) j : (length a <= j)%nat -> aget (a ++ b) (Z.of_nat j) = aget b (Z.of_nat (j - length a)).
Proof. intros H. unfold aget. rewrite !Nat2Z.id. apply app_nth2. exact H. Qed.

(** reading the slice [d] of [P ++ d ++ Q] into [r], writing [r1] over it *)
Lemma slice_in (P d Q r : list Z) : length r = length d ->
  fold_left (fun st j => let '(r0, c) := st in (aset r0 j (aget (P ++ d ++ Q) c), c + 1)) (zrange 0 (Z.of_nat (length d))) (r, Z.of_nat (length P))
  = (d, Z.of_nat (length P + length d)).
Proof.
  intros L. pose proof (copy_in_loop (P ++ d ++ Q) (length P) (length d) r ltac:(lia)) as H.
  destruct (fold_left _ _ _) as [r' c2]. destruct H as (-> & L' & Pt). f_equal.
  apply list_eq_aget; [lia|]. intros j Hj. rewrite Pt. destruct (Nat.ltb_spec j (length d)); [|lia].
  rewrite aget_app_r by lia. replace (length P + j - length P)%nat with j by lia. apply aget_app_l. lia.
Qed.

Lemma slice_out (P d Q r1 : list Z) : length r1 = length d ->
  fold_left (fun st j => let '(d0, c) := st in (aset d0 c (aget r1 j), c + 1)) (zrange 0 (Z.of_nat (length d))) (P ++ d ++ Q, Z.of_nat (length P))
  = (P ++ r1 ++ Q, Z.of_nat (length P + length d)).
Proof.
  intros L. pose proof (copy_out_loop r1 (length P) (length d) (P ++ d ++ Q) ltac:(rewrite !app_length; lia)) as H.
  destruct (fold_left _ _ _) as [d' c2]. destruct H as (-> & L' & Pt). f_equal.
  apply list_eq_aget; [rewrite L', !app_length; lia|]. intros i Hi. rewrite Pt.
  destruct (Nat.leb_spec (length P) i) as [Ge|Lt]; cbn [andb].
  - destruct (Nat.ltb_spec i (length P + length d)) as [In|Out].
    + rewrite aget_app_r by lia. rewrite aget_app_l by lia. reflexivity.
    + rewrite !aget_app_r by (try rewrite app_length; lia). f_equal. f_equal. lia.
  - rewrite !aget_app_l by lia. reflexivity.
Qed.

Lemma aset_app_mid (A : list Z) x B v : aset (A ++ x :: B) (Z.of_nat (length A)) v = A ++ v :: B.
Proof. unfold aset. rewrite Nat2Z.id. apply upd_app_mid. Qed.

(* ------------------------------------------------------------------ *)
Section Driver.
  Variables (M : list Z) (n : nat) (f F : nat).
  Notation K := (flat_table M n).
  Hypothesis MK : mirror K.
  Hypothesis Hn : (0 < n)%nat.
  Hypothesis HfF : (f < F)%nat.
  Hypothesis HnF : (n + 3 < F)%nat.
  Notation St := (list Z * list Z * list Z * Z)%type.
  Variable stepf : St -> Z -> option St.
  (** one departure: what the generated body of the outer loop does *)
  Hypothesis Hstep : forall (r0 D1 : list Z) x (D2 P d Q : list Z) r1 s1,
    length r0 = n -> length d = n -> DenseTo n d (vmax d) -> bio_one f K n d = Some (r1, s1) ->
    stepf (r0, D1 ++ x :: D2, P ++ d ++ Q, Z.of_nat (length P)) (Z.of_nat (length D1)) =
    Some (r1, D1 ++ s1 :: D2, P ++ r1 ++ Q, Z.of_nat (length P + n)).

  Lemma driver_loop : forall rem resrem (P D1 Drem r0 : list Z),
    map (bio_one f K n) rem = map Some resrem -> Forall (fun d => length d = n /\ DenseTo n d (vmax d)) rem ->
    length r0 = n -> length Drem = length rem ->
    exists r_last, fold_opt stepf (zrange (Z.of_nat (length D1)) (Z.of_nat (length D1 + length rem))) (r0, D1 ++ Drem, P ++ concat rem, Z.of_nat (length P))
      = Some (r_last, D1 ++ map snd resrem, P ++ concat (map fst resrem), Z.of_nat (length P + length rem * n)).
  Proof.
    induction rem as [|d rem IH]; intros resrem P D1 Drem r0 E HF Lr LD.
    - destruct resrem; [|discriminate]. destruct Drem; [|discriminate]. rewrite zrange_empty by (cbn [length]; lia).
      exists r0. cbn [fold_opt map concat length Nat.mul]. rewrite Nat.add_0_r. reflexivity.
    - destruct resrem as [|[r1 s1] resrem]; [discriminate|]. cbn [map] in E. injection E as E1 E.
      destruct Drem as [|x Drem]; [discriminate|]. cbn [length] in LD.
      pose proof (Forall_inv HF) as [Ld Hd]. pose proof (Forall_inv_tail HF) as HF'.
      rewrite zrange_cons by (cbn [length]; lia). cbn [fold_opt concat].
      rewrite (Hstep r0 D1 x Drem P d (concat rem) r1 s1 Lr Ld Hd E1).
      assert (L1 : length r1 = length d).
      { destruct (bio_one_spec K n f d (vmax d) r1 s1 MK Hn Hd E1) as (_ & _ & (m' & (L' & _)) & _). lia. }
      replace (D1 ++ s1 :: Drem) with ((D1 ++ [s1]) ++ Drem) by (rewrite <- app_assoc; reflexivity).
      replace (P ++ r1 ++ concat rem) with ((P ++ r1) ++ concat rem) by (rewrite <- app_assoc; reflexivity).
      replace (Z.of_nat (length D1) + 1) with (Z.of_nat (length (D1 ++ [s1]))) by (rewrite app_length; cbn; lia).
      replace (length D1 + length (d :: rem))%nat with (length (D1 ++ [s1]) + length rem)%nat by (rewrite app_length; cbn; lia).
      replace (length P + n)%nat with (length (P ++ r1)) by (rewrite app_length; lia).
      destruct (IH resrem (P ++ r1) (D1 ++ [s1]) Drem r1 E HF' ltac:(lia) ltac:(lia)) as (r_last & W).
      exists r_last. eapply eq_trans; [exact W|]. cbn [map concat fst snd length]. rewrite <- !app_assoc. cbn [app].
      rewrite app_length. do 3 f_equal. lia.
  Qed.
End Driver.

(* ------------------------------------------------------------------ *)
Lemma slice_in_n n (P d Q r : list Z) : length d = n -> length r = n ->
  fold_left (fun st j => let '(r0, c) := st in (aset r0 j (aget (P ++ d ++ Q) c), c + 1)) (zrange 0 (Z.of_nat n)) (r, Z.of_nat (length P))
  = (d, Z.of_nat (length P + n)).
Proof. intros <- L. apply slice_in. exact L. Qed.
Lemma slice_out_n n (P d Q r1 : list Z) : length d = n -> length r1 = n ->
  fold_left (fun st j => let '(d0, c) := st in (aset d0 c (aget r1 j), c + 1)) (zrange 0 (Z.of_nat n)) (P ++ d ++ Q, Z.of_nat (length P))
  = (P ++ r1 ++ Q, Z.of_nat (length P + n)).
Proof. intros <- L. apply slice_out. exact L. Qed.

Theorem bio_consert_gen_ok M n f F (deps : list (list Z)) res dst0 :
  mirror (flat_table M n) -> (0 < n)%nat -> (f < F)%nat -> (n + 3 < F)%nat ->
  Forall (fun d => length d = n /\ DenseTo n d (vmax d)) deps -> length dst0 = length deps ->
  all_some_list (map (bio_one f (flat_table M n) n) deps) = Some res ->
  bio_consert_gen F (concat deps) M (Z.of_nat n) (Z.of_nat (length deps)) dst0 = Some (concat (map fst res), map snd res).
Proof.
  intros MK Hn HfF HnF HD Ld0 E. apply all_some_list_spec in E. unfold bio_consert_gen. cbv zeta.
  match goal with |- match fold_opt ?sf _ _ with Some p => _ | None => None end = _ => pose (stepf := sf) end.
  assert (Hstep : forall (r0 D1 : list Z) x (D2 P d Q : list Z) r1 s1,
    length r0 = n -> length d = n -> DenseTo n d (vmax d) -> bio_one f (flat_table M n) n d = Some (r1, s1) ->
    stepf (r0, D1 ++ x :: D2, P ++ d ++ Q, Z.of_nat (length P)) (Z.of_nat (length D1)) =
    Some (r1, D1 ++ s1 :: D2, P ++ r1 ++ Q, Z.of_nat (length P + n))).
  { intros r0 D1 x D2 P d Q r1 s1 Lr Ld Hd E1. unfold stepf. cbv beta zeta match.
    (* copy the slice into r *)
    rewrite (slice_in_n n P d Q r0 Ld Lr).
    (* the initial score *)
    erewrite (init_score_loop M n d Ld).
    2:{ intros acc x0 y0 Hx Hy. cbv beta. unfold pickxy, flat_table. cbn [fst snd]. rewrite !(aget_get d) by lia.
        replace (Z.of_nat x0 * Z.of_nat n * 3 + Z.of_nat y0 * 3) with (3 * Z.of_nat n * Z.of_nat x0 + 3 * Z.of_nat y0) by lia.
        destruct (get d x0 <? get d y0); [reflexivity|]. destruct (get d y0 <? get d x0); reflexivity. }
    (* the local search *)
    unfold bio_one in E1. destruct (improve_one_ranking f (flat_table M n) n d) as [[r' dd]|] eqn:EI; [|discriminate].
    injection E1 as <- <-.
    rewrite (improve_one_ranking_gen_ok f F M n d (r', dd) MK Hd EI HfF HnF). cbn [fst snd].
    rewrite aset_app_mid.
    assert (L1 : length r' = length d).
    { assert (B : bio_one f (flat_table M n) n d = Some (r', score_vec (flat_table M n) n d + dd)) by (unfold bio_one; rewrite EI; reflexivity).
      destruct (bio_one_spec (flat_table M n) n f d (vmax d) r' _ MK Hn Hd B) as (_ & _ & (m' & (L' & _)) & _). lia. }
    rewrite (slice_out_n n P d Q r' Ld ltac:(lia)).
    replace (Z.of_nat (length P) + Z.of_nat n) with (Z.of_nat (length P + n)) by lia. reflexivity. }
  destruct (driver_loop M n f F MK Hn HfF HnF stepf Hstep deps res [] [] dst0 (zeros (Z.of_nat n)) E HD
              ltac:(unfold zeros; rewrite repeat_length; lia) Ld0) as (r_last & W).
  cbn [app length Nat.add] in W.
  match goal with |- match ?X with Some p => _ | None => None end = _ =>
    replace X with (Some (r_last, map snd res, concat (map fst res), Z.of_nat (0 + length deps * n))) by (symmetry; exact W) end.
  reflexivity.
Qed.
Print Assumptions bio_consert_gen_ok.

