(** The jitted kernels of BioConsert's local search, translated STATEMENT BY STATEMENT from the current source of
    corankco/algorithms/bioconsert/bioconsert.py by tools/py2coq.py (py2imp: assignments, array cells, if / while /
    for-range, calls between kernels), are proved to compute what the hand-written model computes - the functions the
    theorems of BioArrays.v / BioLoop.v / BioAlgo.v (C08, C09, C04) are about:
      search_to_change_bucket_gen_ok, search_to_add_bucket_gen_ok  (while loops = the model's fuelled scans)
      change_bucket_gen_ok, add_bucket_gen_ok                      (index loops = the model's maps)
      compute_delta_costs_gen_ok                                   (over the FLATTENED cost matrix = the model over the table)
      improve_one_ranking_gen_ok                                   (the whole loop nest = the model's improve_one_ranking)
    Re-checked on every run of C08 / C09 / C04 against what the code says now. *)
From Corankco Require Import Prelude Scheme Rank KemenySpec CostTable OptTheory Markov MarkovProof Borda BioConsert Imp BioDelta Judge.JBio BioMoves BioArrays BioLoop.
From CorankcoGen Require Import Gen_biokernel.
Local Open Scope Z_scope.

(* ------------------------------------------------------------------ *)
Section Loops.
  Variables (c : list Z * Z * Z -> bool) (b : list Z * Z * Z -> option (list Z * Z * Z)).

  Lemma right_loop last :
    (forall a r i, c (a, r, i) = (r =? -1) && (i <=? last)) ->
    (forall a r i, b (a, r, i) = Some (aadd a i (aget a (i - 1)), (if aget (aadd a i (aget a (i - 1))) i <? - THR then i else r), i + 1)) ->
    forall f F a i, 0 <= i -> (f < F)%nat -> last - i < Z.of_nat f ->
    exists i', while_fuel F c b (a, -1, i) = Some (snd (scan_right f a i last), fst (scan_right f a i last), i').
  Proof.
    intros Hc Hb. induction f as [|f IH]; intros F a i Hi HF Hl.
    - destruct F as [|F]; [lia|]. exists i. cbn [while_fuel scan_right fst snd]. rewrite Hc.
      destruct (Z.leb_spec i last); [lia|]. rewrite andb_false_r. reflexivity.
    - destruct F as [|F]; [lia|]. cbn [while_fuel scan_right]. rewrite Hc. change (-1 =? -1) with true. cbn [andb].
      destruct (Z.leb_spec i last) as [Le|Gt]; [|exists i; reflexivity].
      rewrite Hb. set (a' := aadd a i (aget a (i - 1))).
      destruct (aget a' i <? - THR) eqn:Hit.
      + exists (i + 1). destruct F as [|F]; [lia|]. cbn [while_fuel fst snd]. rewrite Hc.
        destruct (Z.eqb_spec i (-1)); [lia|]. reflexivity.
      + apply IH; lia.
  Qed.

  Lemma left_loop :
    (forall a r i, c (a, r, i) = (r =? -1) && (0 <=? i)) ->
    (forall a r i, b (a, r, i) = Some (aadd a i (aget a (i + 1)), (if aget (aadd a i (aget a (i + 1))) i <? - THR then i else r), i - 1)) ->
    forall f F a i, (f < F)%nat -> i < Z.of_nat f ->
    exists i', while_fuel F c b (a, -1, i) = Some (snd (scan_left f a i), fst (scan_left f a i), i').
  Proof.
    intros Hc Hb. induction f as [|f IH]; intros F a i HF Hl.
    - destruct F as [|F]; [lia|]. exists i. cbn [while_fuel scan_left fst snd]. rewrite Hc.
      destruct (Z.leb_spec 0 i); [lia|]. rewrite andb_false_r. reflexivity.
    - destruct F as [|F]; [lia|]. cbn [while_fuel scan_left]. rewrite Hc. change (-1 =? -1) with true. cbn [andb].
      destruct (Z.leb_spec 0 i) as [Le|Gt]; [|exists i; reflexivity].
      rewrite Hb. set (a' := aadd a i (aget a (i + 1))).
      destruct (aget a' i <? - THR) eqn:Hit.
      + exists (i - 1). destruct F as [|F]; [lia|]. cbn [while_fuel fst snd]. rewrite Hc.
        destruct (Z.eqb_spec i (-1)); [lia|]. reflexivity.
      + apply IH; lia.
  Qed.
End Loops.

Lemma scan_right_length f : forall a i last, length (snd (scan_right f a i last)) = length a.
Proof.
  induction f as [|f IH]; intros a i last; [reflexivity|]. cbn [scan_right].
  destruct (i <=? last); [|reflexivity]. destruct (_ <? _); cbn [snd]; [apply aadd_length|]. rewrite IH. apply aadd_length.
Qed.

(* a loop whose test is false at once *)
Lemma while_skip {S} F (c : S -> bool) b s : c s = false -> while_fuel (Datatypes.S F) c b s = Some s.
Proof. apply while_fuel_false. Qed.

Theorem search_to_change_bucket_gen_ok : forall fuel bucket_elem change max_id,
  0 <= bucket_elem -> max_id <= Z.of_nat (length change) -> bucket_elem <= Z.of_nat (length change) ->
  (length change < fuel)%nat ->
  search_to_change_bucket_gen fuel bucket_elem change max_id = Some (search_to_change_bucket bucket_elem change max_id).
Proof.
  intros fuel b0 C m Hb Hm Hbl HF. unfold search_to_change_bucket_gen, search_to_change_bucket.
  destruct fuel as [|fuel]; [lia|].
  destruct (aget C (b0 + 1 - 1) <? - THR) eqn:H0.
  - (* immediate hit: both loops are skipped *)
    rewrite while_skip by (cbn; destruct (Z.eqb_spec (b0 + 1 - 1) (-1)); [lia|reflexivity]).
    destruct (Z.eqb_spec (b0 + 1 - 1) (-1)); [lia|]. reflexivity.
  - match goal with |- context[while_fuel ?F ?c ?b (C, ?r, ?i)] =>
      destruct (right_loop c b m ltac:(intros; reflexivity) ltac:(intros; reflexivity) (length C) F C i ltac:(lia) ltac:(lia) ltac:(lia)) as [i' E]
    end.
    rewrite E. clear E.
    pose proof (scan_right_length (length C) C (b0 + 1) m) as L1.
    destruct (scan_right (length C) C (b0 + 1) m) as [res C1]. cbn [fst snd] in *.
    destruct (Z.eqb_spec res (-1)) as [->|R]; cbn [negb]; [|reflexivity].
    destruct ((-1 <=? b0 - 2) && (aget C1 (b0 - 2 + 1) <? - THR)) eqn:H1.
    + apply andb_true_iff in H1. destruct H1 as [G1 _]. apply Z.leb_le in G1.
      rewrite while_skip by (cbn; destruct (Z.eqb_spec (b0 - 2 + 1) (-1)); [lia|reflexivity]). reflexivity.
    + match goal with |- context[while_fuel ?F ?c ?b (C1, ?r, ?i)] =>
        destruct (left_loop c b ltac:(intros; reflexivity) ltac:(intros; reflexivity) (length C1) F C1 i ltac:(lia) ltac:(lia)) as [i'' E]
      end.
      rewrite E. destruct (scan_left (length C1) C1 (b0 - 2)) as [res2 C2]. reflexivity.
Qed.

Theorem search_to_add_bucket_gen_ok : forall fuel bucket_elem add max_id,
  0 <= bucket_elem -> max_id + 1 <= Z.of_nat (length add) -> bucket_elem <= Z.of_nat (length add) ->
  (length add < fuel)%nat ->
  search_to_add_bucket_gen fuel bucket_elem add max_id = Some (search_to_add_bucket bucket_elem add max_id).
Proof.
  intros fuel b0 A m Hb Hm Hbl HF. unfold search_to_add_bucket_gen, search_to_add_bucket.
  destruct fuel as [|fuel]; [lia|].
  destruct (aget A (b0 + 2 - 1) <? - THR) eqn:H0.
  - rewrite while_skip by (cbn; destruct (Z.eqb_spec (b0 + 2 - 1) (-1)); [lia|reflexivity]).
    destruct (Z.eqb_spec (b0 + 2 - 1) (-1)); [lia|]. reflexivity.
  - match goal with |- context[while_fuel ?F ?c ?b (A, ?r, ?i)] =>
      destruct (right_loop c b (m + 1) ltac:(intros; reflexivity) ltac:(intros; reflexivity) (length A) F A i ltac:(lia) ltac:(lia) ltac:(lia)) as [i' E]
    end.
    rewrite E. clear E.
    pose proof (scan_right_length (length A) A (b0 + 2) (m + 1)) as L1.
    destruct (scan_right (length A) A (b0 + 2) (m + 1)) as [res A1]. cbn [fst snd] in *.
    destruct (Z.eqb_spec res (-1)) as [->|R]; cbn [negb]; [|reflexivity].
    destruct (aget A1 (b0 - 1 + 1) <? - THR) eqn:H1.
    + rewrite while_skip by (cbn; destruct (Z.eqb_spec (b0 - 1 + 1) (-1)); [lia|reflexivity]). reflexivity.
    + match goal with |- context[while_fuel ?F ?c ?b (A1, ?r, ?i)] =>
        destruct (left_loop c b ltac:(intros; reflexivity) ltac:(intros; reflexivity) (length A1) F A1 i ltac:(lia) ltac:(lia)) as [i'' E]
      end.
      rewrite E. destruct (scan_left (length A1) A1 (b0 - 1)) as [res2 A2]. reflexivity.
Qed.

(* ------------------------------------------------------------------ *)
Definition b2z (b : bool) : Z := if b then 1 else 0.

(** a loop over the indices that rewrites each cell from its own value is a [map] *)
Lemma aget_app_mid pre x post : aget (pre ++ x :: post) (Z.of_nat (length pre)) = x.
Proof. unfold aget. rewrite Nat2Z.id, app_nth2, Nat.sub_diag by lia. reflexivity. Qed.
Lemma upd_app_mid pre x post y : upd (pre ++ x :: post) (length pre) y = pre ++ y :: post.
Proof. induction pre as [|a pre IH]; [reflexivity|]. cbn. rewrite IH. reflexivity. Qed.

Lemma fold_cells (step : list Z -> Z -> list Z) (f : Z -> Z) :
  (forall pre x post, step (pre ++ x :: post) (Z.of_nat (length pre)) = pre ++ f x :: post) ->
  forall r pre, fold_left step (zrange (Z.of_nat (length pre)) (Z.of_nat (length pre + length r))) (pre ++ r) = pre ++ map f r.
Proof.
  intros Hs. induction r as [|x r IH]; intros pre.
  - rewrite zrange_empty by (cbn [length]; lia). cbn [fold_left map]. reflexivity.
  - rewrite zrange_cons by (cbn [length]; lia). cbn [fold_left map]. rewrite Hs.
    replace (pre ++ f x :: r) with ((pre ++ [f x]) ++ r) by (rewrite <- app_assoc; reflexivity).
    replace (Z.of_nat (length pre) + 1) with (Z.of_nat (length (pre ++ [f x]))) by (rewrite app_length; cbn; lia).
    replace (length pre + length (x :: r))%nat with (length (pre ++ [f x]) + length r)%nat by (rewrite app_length; cbn; lia).
    rewrite IH. rewrite <- app_assoc. reflexivity.
Qed.

Lemma fold_cells_all (step : list Z -> Z -> list Z) (f : Z -> Z) r n :
  (forall pre x post, step (pre ++ x :: post) (Z.of_nat (length pre)) = pre ++ f x :: post) ->
  n = Z.of_nat (length r) -> fold_left step (zrange 0 n) r = map f r.
Proof. intros Hs ->. exact (fold_cells step f Hs r []). Qed.

Ltac cell_step :=
  intros pre x post; cbv beta zeta; rewrite aget_app_mid;
  match goal with |- context[if ?c then _ else _] => destruct c eqn:? end;
  [unfold aadd; rewrite aget_app_mid, Nat2Z.id, upd_app_mid; reflexivity | reflexivity].

Lemma aset_nat r e v : aset r (Z.of_nat e) v = upd r e v.
Proof. unfold aset. rewrite Nat2Z.id. reflexivity. Qed.

Theorem change_bucket_gen_ok r n e old_pos new_pos alone :
  n = length r ->
  change_bucket_gen r (Z.of_nat n) (Z.of_nat e) old_pos new_pos (b2z alone) = change_bucket r e old_pos new_pos alone.
Proof.
  intros Hn. unfold change_bucket_gen, change_bucket. rewrite aset_nat.
  destruct alone; cbn [b2z]; [|reflexivity]. change (1 =? 1) with true. cbv iota.
  rewrite (fold_cells_all _ (fun x => if old_pos <? x then x + -1 else x)).
  - apply map_ext. intros x. destruct (old_pos <? x); lia.
  - cell_step.
  - rewrite upd_length. lia.
Qed.

Theorem add_bucket_gen_ok r n e old_pos new_pos alone :
  n = length r ->
  add_bucket_gen r (Z.of_nat n) (Z.of_nat e) old_pos new_pos (b2z alone) = add_bucket r e old_pos new_pos alone.
Proof.
  intros Hn. unfold add_bucket_gen, add_bucket.
  destruct (old_pos <? new_pos); destruct alone; cbn [b2z]; cbv iota;
    try change (1 =? 1) with true; try change (0 =? 1) with false; cbv iota; rewrite aset_nat; f_equal.
  - rewrite (fold_cells_all _ (fun x => if (old_pos <? x) && (x <? new_pos) then x + -1 else x)); [|cell_step|lia].
    apply map_ext. intros x. destruct (_ && _); lia.
  - rewrite (fold_cells_all _ (fun x => if new_pos <=? x then x + 1 else x)); [reflexivity|cell_step|lia].
  - rewrite (fold_cells_all _ (fun x => if (new_pos <=? x) && (x <? old_pos) then x + 1 else x)); [reflexivity|cell_step|lia].
  - rewrite (fold_cells_all _ (fun x => if new_pos <=? x then x + 1 else x)); [reflexivity|cell_step|lia].
Qed.

(* ------------------------------------------------------------------ *)
(** the flattened n x n x 3 cost matrix read as a table *)
Definition flat_table (M : list Z) (n : nat) : table :=
  fun x y => let p := 3 * Z.of_nat n * Z.of_nat x + 3 * Z.of_nat y in (aget M p, aget M (p + 1), aget M (p + 2)).

Lemma fold_left_map {A B C} (f : A -> C -> A) (g : B -> C) l a :
  fold_left f (map g l) a = fold_left (fun s x => f s (g x)) l a.
Proof. revert a; induction l as [|x l IH]; intros a; [reflexivity|]. cbn. apply IH. Qed.

Lemma aget_get r e : (e < length r)%nat -> aget r (Z.of_nat e) = get r e.
Proof. intros H. unfold aget, get. rewrite Nat2Z.id. apply nth_indep. exact H. Qed.

Theorem compute_delta_costs_gen_ok M n r target bucket_elem C0 A0 :
  length r = n -> C0 = repeat 0 (n + 2) -> A0 = repeat 0 (n + 3) ->
  compute_delta_costs_gen r (Z.of_nat target) M bucket_elem C0 A0 (Z.of_nat n) =
  let '(alone, change, add) := compute_delta_costs (flat_table M n) r target bucket_elem n in (b2z alone, change, add).
Proof.
  intros Lr -> ->. unfold compute_delta_costs_gen, compute_delta_costs.
  rewrite zrange_nat, fold_left_map.
  set (K := flat_table M n).
  match goal with |- context[fold_left ?f (seq 0 n) (?c, ?a, 1, 0, 0, 0, ?p)] => set (G := f) end.
  assert (Sim : forall l k c a al qb qa qt, (forall e, In e l -> (e < n)%nat) -> l = seq k (length l) ->
     fold_left G l (c, a, b2z al, qb, qa, qt, 3 * Z.of_nat n * Z.of_nat target + 3 * Z.of_nat k) =
     let '(c', a', al', qb', qa', qt') := fold_left (delta_step K r target bucket_elem) l (c, a, al, qb, qa, qt) in
     (c', a', b2z al', qb', qa', qt', 3 * Z.of_nat n * Z.of_nat target + 3 * Z.of_nat (k + length l))).
  { induction l as [|e l IH]; intros k c a al qb qa qt Hin Hseq.
    - cbn [fold_left length]. rewrite Nat.add_0_r. reflexivity.
    - cbn [length seq] in Hseq. injection Hseq as -> Hseq. cbn [fold_left].
      assert (He : (k < n)%nat) by (apply Hin; left; reflexivity).
      assert (Step : G (c, a, b2z al, qb, qa, qt, 3 * Z.of_nat n * Z.of_nat target + 3 * Z.of_nat k) k =
                     let '(c', a', al', qb', qa', qt') := delta_step K r target bucket_elem (c, a, al, qb, qa, qt) k in
                     (c', a', b2z al', qb', qa', qt', 3 * Z.of_nat n * Z.of_nat target + 3 * Z.of_nat (S k))).
      { unfold G, delta_step, K, flat_table. cbv beta zeta iota. rewrite aget_get by lia.
        set (p := 3 * Z.of_nat n * Z.of_nat target + 3 * Z.of_nat k).
        replace (3 * Z.of_nat n * Z.of_nat target + 3 * Z.of_nat (S k)) with (p + 3) by lia.
        destruct (bucket_elem <? get r k); [reflexivity|].
        destruct (get r k <? bucket_elem).
        { destruct (get r k =? 0); reflexivity. }
        destruct (Nat.eqb_spec target k) as [->|Ne].
        { rewrite Z.eqb_refl. reflexivity. }
        destruct (Z.eqb_spec (Z.of_nat target) (Z.of_nat k)); [lia|]. cbn [negb].
        destruct al; reflexivity. }
      rewrite Step. destruct (delta_step K r target bucket_elem (c, a, al, qb, qa, qt) k) as [[[[[c1 a1] al1] qb1] qa1] qt1].
      rewrite (IH (S k)) by (try (intros; apply Hin; right; assumption); exact Hseq).
      cbn [length]. replace (S k + length l)%nat with (k + S (length l))%nat by lia. reflexivity. }
  specialize (Sim (seq 0 n) 0%nat (repeat 0 (n + 2)) (repeat 0 (n + 3)) true 0 0 0).
  rewrite seq_length in Sim. specialize (Sim ltac:(intros e He; apply in_seq in He; lia) eq_refl).
  cbn [b2z] in Sim. replace (3 * Z.of_nat n * Z.of_nat target + 3 * Z.of_nat 0) with (3 * Z.of_nat n * Z.of_nat target) in Sim by lia.
  rewrite Sim. clear Sim.
  destruct (fold_left (delta_step K r target bucket_elem) (seq 0 n) _) as [[[[[c1 a1] al1] qb1] qa1] qt1].
  destruct (bucket_elem =? 0); reflexivity.
Qed.

(* ------------------------------------------------------------------ *)
Definition t_of (ch : bool) : Z := if ch then 0 else 1.

Lemma scan_left_length f : forall a i, length (snd (scan_left f a i)) = length a.
Proof.
  induction f as [|f IH]; intros a i; [reflexivity|]. cbn [scan_left].
  destruct (0 <=? i); [|reflexivity]. destruct (_ <? _); cbn [snd]; [apply aadd_length|]. rewrite IH. apply aadd_length.
Qed.
Lemma search_change_length b C m : length (snd (search_to_change_bucket b C m)) = length C.
Proof.
  unfold search_to_change_bucket. destruct (_ <? _); [reflexivity|].
  pose proof (scan_right_length (length C) C (b + 1) m) as L. destruct (scan_right (length C) C (b + 1) m) as [res C1]. cbn [snd] in L.
  destruct (negb _); [exact L|]. destruct (_ && _); [exact L|]. rewrite scan_left_length. exact L.
Qed.
Lemma search_add_length b A m : length (snd (search_to_add_bucket b A m)) = length A.
Proof.
  unfold search_to_add_bucket. destruct (_ <? _); [reflexivity|].
  pose proof (scan_right_length (length A) A (b + 2) (m + 1)) as L. destruct (scan_right (length A) A (b + 2) (m + 1)) as [res A1]. cbn [snd] in L.
  destruct (negb _); [exact L|]. destruct (_ <? _); [exact L|]. rewrite scan_left_length. exact L.
Qed.

Lemma elem_inv K n S0 r m d ch e r' m' d' ch' : mirror K -> SInv K n S0 r m d -> (e < n)%nat ->
  improve_elem K n (r, m, d, ch) e = (r', m', d', ch') -> SInv K n S0 r' m' d'.
Proof. intros MK HI He E. pose proof (improve_elem_spec K n S0 r m d ch e MK HI He) as ES. rewrite E in ES. apply ES. Qed.
Lemma sweep_inv K n S0 l r m d ch r' m' d' ch' : mirror K -> SInv K n S0 r m d -> (forall e, In e l -> (e < n)%nat) ->
  fold_left (improve_elem K n) l (r, m, d, ch) = (r', m', d', ch') -> SInv K n S0 r' m' d'.
Proof. intros MK HI Hl E. pose proof (sweep_spec K n S0 MK l r m d ch HI Hl) as SS. rewrite E in SS. apply SS. Qed.

Section Outer.
  Variables (K : table) (n : nat).
  Hypothesis MK : mirror K.
  Notation St := (list Z * list Z * Z * Z * list Z * Z)%type.

  (** what one element step of the generated code does, stated against the model's [improve_elem] *)
  Definition step_ok (stepf : St -> Z -> option St) : Prop :=
    forall C A d (r : list Z) m e S0 ch, SInv K n S0 r m d -> (e < n)%nat -> length C = (n + 2)%nat -> length A = (n + 3)%nat ->
    match stepf (C, A, t_of ch, d, r, m) (Z.of_nat e) with
    | Some (C', A', t', d', r', m') =>
        length C' = (n + 2)%nat /\ length A' = (n + 3)%nat /\
        (r', m', d', t') = (let '(r1, m1, d1, ch1) := improve_elem K n (r, m, d, ch) e in (r1, m1, d1, t_of ch1))
    | None => False
    end.

  Lemma sweep_ok stepf : step_ok stepf -> forall l k C A d (r : list Z) m S0 ch,
    SInv K n S0 r m d -> (forall e, In e l -> (e < n)%nat) -> l = seq k (length l) ->
    length C = (n + 2)%nat -> length A = (n + 3)%nat ->
    exists C' A', length C' = (n + 2)%nat /\ length A' = (n + 3)%nat /\
      fold_opt stepf (map Z.of_nat l) (C, A, t_of ch, d, r, m) =
      let '(r', m', d', ch') := fold_left (improve_elem K n) l (r, m, d, ch) in Some (C', A', t_of ch', d', r', m').
  Proof.
    intros Hs. induction l as [|e l IH]; intros k C A d r m S0 ch HI Hin Hseq LC LA.
    - exists C, A. split; [exact LC|]. split; [exact LA|]. reflexivity.
    - cbn [length seq] in Hseq. injection Hseq as -> Hseq. cbn [map fold_opt fold_left].
      assert (He : (k < n)%nat) by (apply Hin; left; reflexivity).
      pose proof (Hs C A d r m k S0 ch HI He LC LA) as E.
      destruct (stepf (C, A, t_of ch, d, r, m) (Z.of_nat k)) as [[[[[[C1 A1] t1] d1'] r1'] m1']|]; [|contradiction].
      destruct E as (LC1 & LA1 & E).
      destruct (improve_elem K n (r, m, d, ch) k) as [[[r1 m1] d1] ch1] eqn:EE.
      pose proof (elem_inv K n S0 r m d ch k r1 m1 d1 ch1 MK HI He EE) as HI1.
      injection E as -> -> -> ->.
      apply (IH (S k) C1 A1 d1 r1 m1 S0 ch1 HI1); [intros e0 He0; apply Hin; right; exact He0|exact Hseq|exact LC1|exact LA1].
  Qed.

  (** the outer loop *)
  Variables (c : Z * list Z * list Z * Z * list Z * Z -> bool) (b : Z * list Z * list Z * Z * list Z * Z -> option (Z * list Z * list Z * Z * list Z * Z)).
  Variable stepf : St -> Z -> option St.
  Hypothesis Hstep : step_ok stepf.
  Hypothesis Hc : forall t C A d r m, c (t, C, A, d, r, m) = (t =? 0).
  Hypothesis Hb : forall t C A d r m, b (t, C, A, d, r, m) =
    match fold_opt stepf (zrange 0 (Z.of_nat n)) (C, A, 1, d, r, m) with
    | Some (C', A', t', d', r', m') => Some (t', C', A', d', r', m')
    | None => None
    end.

  Lemma outer_ok : forall f F C A d (r : list Z) m S0 res,
    SInv K n S0 r m d -> length C = (n + 2)%nat -> length A = (n + 3)%nat ->
    improve_loop f K n r m d = Some res -> (f < F)%nat ->
    exists C' A' m', while_fuel F c b (0, C, A, d, r, m) = Some (1, C', A', snd res, fst res, m').
  Proof.
    induction f as [|f IH]; intros F C A d r m S0 res HI LC LA E HF; [discriminate|].
    destruct F as [|F]; [lia|]. cbn [improve_loop] in E. unfold vec in *. cbn [while_fuel]. rewrite Hc. change (0 =? 0) with true. cbv iota.
    rewrite Hb, zrange_nat.
    destruct (sweep_ok stepf Hstep (seq 0 n) 0%nat C A d r m S0 false HI ltac:(intros e He; apply in_seq in He; lia)
                ltac:(rewrite seq_length; reflexivity) LC LA) as (C1 & A1 & LC1 & LA1 & Sw).
    change (t_of false) with 1 in Sw. rewrite Sw. clear Sw.
    unfold vec in *.
    match type of E with context[match ?X with _ => _ end] => destruct X as [[[r1 m1] d1] ch1] eqn:FL end.
    pose proof (sweep_inv K n S0 (seq 0 n) r m d false r1 m1 d1 ch1 MK HI ltac:(intros e He; apply in_seq in He; lia) FL) as HI1.
    destruct ch1; cbn [t_of].
    - apply (IH F C1 A1 d1 r1 m1 S0 res HI1 LC1 LA1 E). lia.
    - inversion E; subst. exists C1, A1, m1. destruct F as [|F]; [lia|]. cbn [while_fuel fst snd]. rewrite Hc. reflexivity.
  Qed.
End Outer.

(* ------------------------------------------------------------------ *)
Lemma b2z_eqb al : (b2z al =? 1) = al.
Proof. destruct al; reflexivity. Qed.

Lemma cdc_lengths K r e n m alone C1 A1 : DenseTo n r m -> (e < n)%nat -> m < Z.of_nat n ->
  compute_delta_costs K r e (get r e) n = (alone, C1, A1) -> length C1 = (n + 2)%nat /\ length A1 = (n + 3)%nat.
Proof.
  intros HD He Hm E. pose proof (compute_delta_costs_spec K r e n m HD He Hm) as CS. unfold b0 in CS. rewrite E in CS.
  destruct CS as (_ & L1 & L2 & _). split; assumption.
Qed.

Theorem improve_one_ranking_gen_ok f F M n (r : list Z) res :
  mirror (flat_table M n) -> DenseTo n r (vmax r) ->
  improve_one_ranking f (flat_table M n) n r = Some res -> (f < F)%nat -> (n + 3 < F)%nat ->
  improve_one_ranking_gen F r M (Z.of_nat n) = Some (snd res, fst res).
Proof.
  intros MK HD E HF HF2. unfold improve_one_ranking_gen, improve_one_ranking in *.
  set (K := flat_table M n) in *.
  match goal with |- context[while_fuel F ?c ?b ?s] =>
    match b with context[fold_opt ?sf _ _] =>
      assert (Hstep : step_ok K n sf); [|
      destruct (outer_ok K n MK c b sf Hstep ltac:(intros; reflexivity) ltac:(intros; reflexivity)
                  f F (zeros (Z.of_nat n + 2)) (zeros (Z.of_nat n + 3)) 0 r (vmax r) (scoref K (seq 0 n) (base r)) res) as (C' & A' & m' & W)]
    end
  end.
  - (* one element step of the generated code = improve_elem *)
    intros C A d r0 m e S0 ch HI He LC LA. pose proof HI as [HD0 _]. pose proof (dense_bound n r0 m HD0) as Hm.
    pose proof HD0 as (Lr & Rg & _). pose proof (Rg e He) as Rge.
    cbv beta iota. rewrite (aget_get r0 e) by lia. rewrite LC, LA.
    rewrite (compute_delta_costs_gen_ok M n r0 e (get r0 e) _ _ Lr eq_refl eq_refl). fold K.
    unfold improve_elem.
    destruct (compute_delta_costs K r0 e (get r0 e) n) as [[alone C1] A1] eqn:CD.
    destruct (cdc_lengths K r0 e n m alone C1 A1 HD0 He Hm CD) as (LC1 & LA1).
    rewrite (search_to_change_bucket_gen_ok F (get r0 e) C1 m) by lia.
    pose proof (search_change_length (get r0 e) C1 m) as LC2.
    destruct (search_to_change_bucket (get r0 e) C1 m) as [to C2]. cbn [snd] in LC2.
    destruct (0 <=? to).
    + rewrite (change_bucket_gen_ok r0 n e (get r0 e) to alone) by lia. rewrite b2z_eqb.
      split; [lia|]. split; [exact LA1|]. destruct alone; reflexivity.
    + rewrite (search_to_add_bucket_gen_ok F (get r0 e) A1 m) by lia.
      pose proof (search_add_length (get r0 e) A1 m) as LA2.
      destruct (search_to_add_bucket (get r0 e) A1 m) as [to2 A2]. cbn [snd] in LA2.
      destruct (0 <=? to2).
      * rewrite (add_bucket_gen_ok r0 n e (get r0 e) to2 alone) by lia. rewrite b2z_eqb.
        split; [lia|]. split; [lia|]. destruct alone; reflexivity.
      * split; [lia|]. split; [lia|]. reflexivity.
  - split; [exact HD|lia].
  - unfold zeros. rewrite repeat_length. lia.
  - unfold zeros. rewrite repeat_length. lia.
  - exact E.
  - exact HF.
  - rewrite W. reflexivity.
Qed.
Print Assumptions improve_one_ranking_gen_ok.


(* ------------------------------------------------------------------ *)
(** End to end, on the TRANSLATED code: with enough fuel, the kernel as written in the source terminates, and the
    vector it leaves is a local optimum whose score is the departure's score plus the returned variation. *)
Theorem improve_one_ranking_gen_local_opt F M n (r : list Z) m :
  mirror (flat_table M n) -> nonnegK (flat_table M n) -> (0 < n)%nat -> DenseTo n r m ->
  score_vec (flat_table M n) n r < Z.of_nat (F - 1) * THR -> (n + 3 < F)%nat ->
  exists d r', improve_one_ranking_gen F r M (Z.of_nat n) = Some (d, r') /\
    score_vec (flat_table M n) n r' = score_vec (flat_table M n) n r + d /\ d <= 0 /\
    (exists m', DenseTo n r' m') /\ local_opt (flat_table M n) n r' THR = true.
Proof.
  intros MK NN Hn HD Hf HF.
  destruct (bio_one_terminates (flat_table M n) n (F - 1) r m MK NN Hn HD Hf) as ([r' s] & E).
  pose proof (bio_one_spec (flat_table M n) n (F - 1) r m r' s MK Hn HD E) as (Es & Le & HD' & LO).
  unfold bio_one in E. destruct (improve_one_ranking (F - 1) (flat_table M n) n r) as [[r1 d1]|] eqn:EI; [|discriminate].
  inversion E; subst r1 s. exists d1, r'.
  rewrite <- (dense_vmax n r m Hn HD) in HD.
  rewrite (improve_one_ranking_gen_ok (F - 1) F M n r (r', d1) MK HD EI ltac:(lia) HF). cbn [fst snd].
  repeat split; try assumption; lia.
Qed.
Print Assumptions improve_one_ranking_gen_local_opt.
