(** Property C06, the decomposition: along an ordered partition without back arcs the optimum of the
    whole problem is the sum of the optima of the groups plus the forward cost of all cross pairs, so the
    concatenation of optimal consensuses of the groups is a global optimum; model of the ParCons assembly
    (with the sub-solvers as section variables) and truthfulness of its optimality flag; the sub-problem
    handed to the sub-solvers (projection on the group, empty rankings re-added) has the same cost table
    on the group. *)
From Corankco Require Import Prelude Scheme Rank KemenySpec CostTable CostTableProof OptTheory Partition
  PartitionProof ConsistentProof KemenyCount.
Local Open Scope Z_scope.

(** * scores along an ordered partition *)
Definition beforeK (K : table) (x y : nat) : Z := fst (fst (K x y)).

Fixpoint dsum (K : table) (P : ranking) (p : posf) : Z :=
  match P with
  | [] => 0
  | G :: P' => scoref K G p + xsum (beforeK K) G (concat P') + dsum K P' p
  end.

(** [p] puts every element of a group strictly before every element of the later groups *)
Fixpoint resp (P : ranking) (p : posf) : Prop :=
  match P with
  | [] => True
  | G :: P' => (forall x y, In x G -> In y (concat P') -> p x < p y) /\ resp P' p
  end.

Lemma pickf_lt K p x y : p x < p y -> pickf K p x y = beforeK K x y.
Proof.
  intros H. unfold pickf, beforeK. destruct (K x y) as [[b a] t].
  apply Z.compare_lt_iff in H. rewrite H. reflexivity.
Qed.

Lemma scoref_psum K U p : scoref K U p = psum (pickf K p) (ordpairs U).
Proof. reflexivity. Qed.

Lemma scoref_dsum K P p : resp P p -> scoref K (concat P) p = dsum K P p.
Proof.
  induction P as [|G P IH]; intros H; [reflexivity|]. destruct H as [H1 H2].
  cbn [concat dsum]. rewrite scoref_psum, ordpairs_app_sum, <- !scoref_psum, (IH H2).
  rewrite (xsum_ext (pickf K p) (beforeK K)); [reflexivity|].
  intros x y Hx Hy. apply pickf_lt. apply H1; assumption.
Qed.

Lemma scoref_shift K U p q d : (forall x, In x U -> q x = p x + d) -> scoref K U q = scoref K U p.
Proof.
  intros H. apply scoref_ext. intros x y Hx Hy. rewrite (H x Hx), (H y Hy).
  destruct (Z.compare_spec (p x) (p y)) as [E|E|E].
  - apply Z.compare_eq_iff. lia.
  - apply Z.compare_lt_iff. lia.
  - apply Z.compare_gt_iff. lia.
Qed.

Lemma dsum_shift K P p q d : (forall x, In x (concat P) -> q x = p x + d) -> dsum K P q = dsum K P p.
Proof.
  induction P as [|G P IH]; intros H; [reflexivity|]. cbn [dsum]. cbn [concat] in H.
  rewrite (scoref_shift K G p q d) by (intros x Hx; apply H, in_or_app; left; exact Hx).
  rewrite IH by (intros x Hx; apply H, in_or_app; right; exact Hx). reflexivity.
Qed.

Lemma resp_shift P p q d : (forall x, In x (concat P) -> q x = p x + d) -> resp P p -> resp P q.
Proof.
  induction P as [|G P IH]; intros H R; [exact I|]. destruct R as [R1 R2]. cbn [concat] in H. split.
  - intros x y Hx Hy. rewrite (H x), (H y) by (apply in_or_app; auto). specialize (R1 x y Hx Hy). lia.
  - apply IH; [|exact R2]. intros x Hx. apply H, in_or_app; right; exact Hx.
Qed.

(** [resp] is the relation "earlier group => strictly before" *)
Lemma before_resp P p : NoDup (concat P) ->
  (forall x y, In x (concat P) -> In y (concat P) -> bid_from 0 P x < bid_from 0 P y -> p x < p y) -> resp P p.
Proof.
  induction P as [|G P IH]; intros Nd H; [exact I|]. cbn [concat] in Nd, H.
  destruct (NoDup_app_inv _ _ Nd) as (NG & NP & Hdisj). split.
  - intros x y Hx Hy. apply H; [apply in_or_app; left; exact Hx|apply in_or_app; right; exact Hy|].
    rewrite (bid_head' 0 G P x Hx). cbn [bid_from].
    assert (My : mem y G = false) by (apply mem_false; intros Hg; exact (Hdisj y Hg Hy)). rewrite My.
    pose proof (bid_lt P (0 + 1) y Hy). lia.
  - apply IH; [exact NP|]. intros x y Hx Hy Hlt. apply H; [apply in_or_app; right; exact Hx|apply in_or_app; right; exact Hy|].
    cbn [bid_from].
    assert (Mx : mem x G = false) by (apply mem_false; intros Hg; exact (Hdisj x Hg Hx)).
    assert (My : mem y G = false) by (apply mem_false; intros Hg; exact (Hdisj y Hg Hy)).
    rewrite Mx, My, (bid_shift P (0 + 1) x Hx), (bid_shift P (0 + 1) y Hy). lia.
Qed.

Lemma resp_before P p : NoDup (concat P) -> resp P p ->
  forall x y, In x (concat P) -> In y (concat P) -> bid_from 0 P x < bid_from 0 P y -> p x < p y.
Proof.
  induction P as [|G P IH]; intros Nd R x y Hx Hy Hlt; [destruct Hx|]. cbn [concat] in Nd, Hx, Hy.
  destruct R as [R1 R2]. destruct (NoDup_app_inv _ _ Nd) as (NG & NP & Hdisj).
  cbn [bid_from] in Hlt.
  destruct (mem x G) eqn:Mx; destruct (mem y G) eqn:My.
  - lia.
  - apply mem_In in Mx. apply mem_false in My. apply in_app_or in Hy as [Hy|Hy]; [contradiction|]. apply R1; assumption.
  - apply mem_false in Mx. apply in_app_or in Hx as [Hx|Hx]; [contradiction|]. pose proof (bid_lt P (0 + 1) x Hx). lia.
  - apply mem_false in Mx. apply mem_false in My.
    apply in_app_or in Hx as [Hx|Hx]; [contradiction|]. apply in_app_or in Hy as [Hy|Hy]; [contradiction|].
    apply (IH NP R2 x y Hx Hy). rewrite (bid_shift P (0 + 1) x Hx), (bid_shift P (0 + 1) y Hy) in Hlt. lia.
Qed.

(** * lower bound: sum of the optima of the groups + forward cost of the cross pairs *)
Fixpoint dopt (K : table) (P : ranking) : Z :=
  match P with
  | [] => 0
  | G :: P' => opt K G + xsum (beforeK K) G (concat P') + dopt K P'
  end.

Lemma opt_le_scoref K G p : mirror K -> NoDup G -> opt K G <= scoref K G p.
Proof.
  intros M Nd. rewrite <- (score_rank_of K G p M Nd). apply opt_lower; [assumption|assumption|].
  destruct (rank_of_spec G p Nd) as (W & _ & _). exact W.
Qed.

Lemma dopt_le_dsum K P p : mirror K -> NoDup (concat P) -> dopt K P <= dsum K P p.
Proof.
  intros M. induction P as [|G P IH]; intros Nd; [cbn; lia|]. cbn [concat] in Nd.
  destruct (NoDup_app_inv _ _ Nd) as (NG & NP & _). cbn [dopt dsum].
  pose proof (opt_le_scoref K G p M NG). specialize (IH NP). lia.
Qed.

(** * the assembled consensus *)
Fixpoint dscore (K : table) (P : ranking) (cs : list ranking) : Z :=
  match P, cs with
  | G :: P', cG :: cs' => score K cG + xsum (beforeK K) G (concat P') + dscore K P' cs'
  | _, _ => 0
  end.

Lemma assembled_perm P cs : Forall2 wfU P cs -> Permutation (concat (concat cs)) (concat P).
Proof.
  induction 1 as [|G cG P cs W _ IH]; [reflexivity|]. cbn [concat]. rewrite concat_app.
  apply Permutation_app; [exact W|exact IH].
Qed.

Section Assembled.
  Variable K : table.
  Hypothesis M : mirror K.

  Lemma assembled_facts : forall P cs, Forall2 wfU P cs -> NoDup (concat P) ->
    resp P (bid_from 0 (concat cs)) /\ dsum K P (bid_from 0 (concat cs)) = dscore K P cs.
  Proof.
    induction 1 as [|G cG P cs W F IH]; intros Nd; [split; [exact I|reflexivity]|].
    cbn [concat] in Nd. destruct (NoDup_app_inv _ _ Nd) as (NG & NP & Hdisj).
    destruct (IH NP) as [R E]. pose proof (assembled_perm P cs F) as Pm.
    assert (InG : forall x, In x G -> In x (concat cG)) by (intros x Hx; eapply Permutation_in; [symmetry; exact W|exact Hx]).
    assert (InP : forall x, In x (concat P) -> ~ In x (concat cG) /\ In x (concat (concat cs))).
    { intros x Hx. split; [intros Hc; apply (Hdisj x); [eapply Permutation_in; [exact W|exact Hc]|exact Hx]|].
      eapply Permutation_in; [symmetry; exact Pm|exact Hx]. }
    assert (Sh : forall x, In x (concat P) ->
                 bid_from 0 (cG ++ concat cs) x = bid_from 0 (concat cs) x + Z.of_nat (length cG)).
    { intros x Hx. destruct (InP x Hx) as [Hn Hi]. rewrite (bid_app_r cG 0 _ x Hn), (bid_shift _ _ x Hi). lia. }
    cbn [concat]. split.
    - split.
      + intros x y Hx Hy. rewrite (bid_app_l cG 0 _ x (InG x Hx)), (Sh y Hy).
        pose proof (bid_lt cG 0 x (InG x Hx)). destruct (InP y Hy) as [_ Hi]. pose proof (bid_lt _ 0 y Hi). lia.
      + eapply resp_shift; [exact Sh|exact R].
    - cbn [dsum dscore]. rewrite (dsum_shift K P _ _ _ Sh), E. f_equal. f_equal.
      rewrite (scoref_ext K G _ (bid_from 0 cG)).
      + rewrite score_scoref. apply scoref_perm; [exact M|symmetry; exact W].
      + intros x y Hx Hy. rewrite (bid_app_l cG 0 _ x (InG x Hx)), (bid_app_l cG 0 _ y (InG y Hy)). reflexivity.
  Qed.

  (** score of the concatenation = scores of the pieces + forward cost of the cross pairs *)
  Theorem assembled_score P cs : Forall2 wfU P cs -> NoDup (concat P) ->
    score K (concat cs) = dscore K P cs.
  Proof.
    intros F Nd. destruct (assembled_facts P cs F Nd) as [R E].
    rewrite score_scoref. unfold elems, bucket_id. rewrite (scoref_perm K _ (concat P) _ M (assembled_perm P cs F)).
    change (scoref K (concat P) (bid_from 0 (concat cs)) = dscore K P cs).
    rewrite (scoref_dsum K P _ R). exact E.
  Qed.

  Lemma dscore_opt P cs : Forall2 (fun G cG => wfU G cG /\ score K cG = opt K G) P cs -> dscore K P cs = dopt K P.
  Proof. induction 1 as [|G cG P cs [_ E] _ IH]; [reflexivity|]. cbn [dscore dopt]. rewrite E, IH. reflexivity. Qed.

  Lemma Forall2_weaken {A B} (R1 R2 : A -> B -> Prop) l1 l2 : (forall a b, R1 a b -> R2 a b) -> Forall2 R1 l1 l2 -> Forall2 R2 l1 l2.
  Proof. intros H. induction 1; constructor; auto. Qed.

  (** the optimum decomposes along any partition without back arcs *)
  Theorem opt_ge_dopt U P : NoDup U -> wfU U P -> no_back K U (bucket_id P) -> dopt K P <= opt K U.
  Proof.
    intros Nd WP NB. destruct (partition_admits_optimum K U P M Nd WP NB) as (c & Oc & _ & Rc).
    pose proof Oc as [Wc _]. apply (optimal_iff_opt K U c M Nd Wc) in Oc. rewrite <- Oc.
    rewrite (score_on_universe K U c M Wc). rewrite (scoref_perm K U (concat P) _ M (Permutation_sym WP)).
    assert (NdP : NoDup (concat P)) by (eapply Permutation_NoDup; [symmetry; exact WP|exact Nd]).
    rewrite scoref_dsum; [apply dopt_le_dsum; assumption|].
    apply before_resp; [exact NdP|]. intros x y Hx Hy Hlt.
    apply Rc; [eapply Permutation_in; [exact WP|exact Hx]|eapply Permutation_in; [exact WP|exact Hy]|exact Hlt].
  Qed.

  (** concatenating optimal consensuses of the groups, in the order of the partition, gives a global optimum
      that respects the partition *)
  Theorem assembled_optimal U P cs :
    NoDup U -> wfU U P -> no_back K U (bucket_id P) ->
    Forall2 (fun G cG => wfU G cG /\ score K cG = opt K G) P cs ->
    wfU U (concat cs) /\ before P (concat cs) /\ score K (concat cs) = opt K U.
  Proof.
    intros Nd WP NB F.
    assert (F' : Forall2 wfU P cs) by (eapply Forall2_weaken; [|exact F]; intros a b [H _]; exact H).
    assert (NdP : NoDup (concat P)) by (eapply Permutation_NoDup; [symmetry; exact WP|exact Nd]).
    assert (W : wfU U (concat cs)).
    { unfold wfU, elems. etransitivity; [apply assembled_perm; exact F'|exact WP]. }
    split; [exact W|]. split.
    - destruct (assembled_facts P cs F' NdP) as [R _]. unfold before. apply resp_before; assumption.
    - pose proof (opt_lower K U (concat cs) M Nd W) as L.
      rewrite (assembled_score P cs F' NdP), (dscore_opt P cs F) in *.
      pose proof (opt_ge_dopt U P Nd WP NB). lia.
  Qed.
End Assembled.

(** * model of the ParCons assembly *)
Section ParCons.
  Variable K : table.
  Variable bound : nat.
  (** the sub-solvers are outside the model: the exact algorithm (C05) and the auxiliary heuristic *)
  Variable exact aux : list nat -> ranking.

  Definition piece (G : list nat) : ranking * bool :=
    if can_be_all_tied K G then ([G], true)
    else if (bound <? length G)%nat then (aux G, false)
    else (exact G, true).

  Definition parcons (P : ranking) : ranking * bool :=
    (concat (map (fun G => fst (piece G)) P), forallb (fun G => snd (piece G)) P).

  (** the mark is set exactly when no component is delegated to the auxiliary heuristic *)
  Theorem parcons_flag_iff P :
    snd (parcons P) = true <-> forall G, In G P -> can_be_all_tied K G = true \/ (length G <= bound)%nat.
  Proof.
    unfold parcons. cbn [snd]. rewrite forallb_forall. split; intros H G HG; specialize (H G HG); unfold piece in *.
    - destruct (can_be_all_tied K G); [left; reflexivity|]. destruct (Nat.ltb_spec bound (length G)); [discriminate|right; lia].
    - destruct (can_be_all_tied K G); [reflexivity|]. destruct H as [H|H]; [discriminate|].
      destruct (Nat.ltb_spec bound (length G)); [lia|reflexivity].
  Qed.

  Hypothesis M : mirror K.

  Lemma single_bucket_opt G : NoDup G -> can_be_all_tied K G = true -> wfU G [G] /\ score K [G] = opt K G.
  Proof.
    intros Nd H. assert (W1 : wfU G [G]) by (unfold wfU, elems; simpl; rewrite app_nil_r; reflexivity).
    split; [exact W1|]. destruct (opt_attained K G M Nd) as (c & Wc & _ & Ec).
    pose proof (all_tied_optimal K G c M Nd H Wc). pose proof (opt_lower K G [G] M Nd W1). lia.
  Qed.

  Theorem parcons_spec U P :
    NoDup U -> is_partition_of U P = true -> no_back_arcs K P = true ->
    (forall G, In G P -> wfU G (exact G) /\ score K (exact G) = opt K G) ->
    (forall G, In G P -> wfU G (aux G)) ->
    let c := fst (parcons P) in
    wfU U c /\ before P c /\ (snd (parcons P) = true -> score K c = opt K U /\ is_optimal K U c).
  Proof.
    intros Nd HP HB Hex Haux c.
    destruct (is_partition_of_spec U P Nd HP) as [WP _].
    assert (NdP : NoDup (concat P)) by (eapply Permutation_NoDup; [symmetry; exact WP|exact Nd]).
    assert (NB : no_back K U (bucket_id P)).
    { eapply no_back_perm; [|apply no_back_arcs_spec; [exact M|exact HB]]. intros x Hx. eapply Permutation_in; [symmetry; exact WP|exact Hx]. }
    assert (NdG : forall G, In G P -> NoDup G).
    { intros G HG. apply in_split in HG as (P1 & P2 & ->). rewrite concat_app in NdP. cbn [concat] in NdP.
      destruct (NoDup_app_inv _ _ NdP) as (_ & N2 & _). destruct (NoDup_app_inv _ _ N2) as (N3 & _ & _). exact N3. }
    assert (Fw : Forall2 wfU P (map (fun G => fst (piece G)) P)).
    { assert (H : forall G, In G P -> wfU G (fst (piece G))).
      { intros G HG. unfold piece. destruct (can_be_all_tied K G) eqn:E; [apply single_bucket_opt; auto|].
        destruct (bound <? length G)%nat; cbn [fst]; [apply Haux; exact HG|apply Hex; exact HG]. }
      clear -H. induction P as [|G P IH]; [constructor|]. cbn [map]. constructor; [apply H; left; reflexivity|].
      apply IH. intros G' HG'. apply H. right; exact HG'. }
    assert (W : wfU U c).
    { unfold wfU, elems, c, parcons. cbn [fst]. etransitivity; [apply assembled_perm; exact Fw|exact WP]. }
    split; [exact W|]. split.
    - destruct (assembled_facts K M P _ Fw NdP) as [R _]. unfold before. apply resp_before; assumption.
    - intros Hfl. assert (E : score K c = opt K U).
      { unfold c, parcons. cbn [fst]. apply (assembled_optimal K M U P _ Nd WP NB).
        unfold parcons in Hfl. cbn [snd] in Hfl. rewrite forallb_forall in Hfl.
        assert (H : forall G, In G P -> wfU G (fst (piece G)) /\ score K (fst (piece G)) = opt K G).
        { intros G HG. specialize (Hfl G HG). unfold piece in *. destruct (can_be_all_tied K G) eqn:E; [apply single_bucket_opt; auto|].
          destruct (bound <? length G)%nat; [discriminate|]. cbn [fst]. apply Hex; exact HG. }
        clear -H. induction P as [|G P IH]; [constructor|]. cbn [map]. constructor; [apply H; left; reflexivity|].
        apply IH. intros G' HG'. apply H. right; exact HG'. }
      split; [exact E|]. apply optimal_iff_opt; assumption.
  Qed.
End ParCons.

(** * the sub-problem handed to the sub-solvers *)
Definition nonempty {A} (l : list A) : bool := negb (Nat.eqb (length l) 0).

(** [Dataset.sub_problem_from_elements] on one ranking: keep the elements of the group, drop empty buckets *)
Definition proj (G : list nat) (r : ranking) : ranking :=
  filter nonempty (map (filter (fun x => mem x G)) r).

(** ... the rankings that become empty are dropped, and ParCons re-adds as many empty rankings *)
Definition sub_dataset (G : list nat) (D : dataset) : dataset :=
  let R := filter nonempty (map (proj G) D) in
  R ++ repeat [] (length D - length R).

Lemma stat_by_cmp p q p' q' :
  (p = -1 <-> p' = -1) -> (q = -1 <-> q' = -1) ->
  (p <> -1 -> q <> -1 -> Z.compare p q = Z.compare p' q') -> stat p q = stat p' q'.
Proof.
  intros Hp Hq Hc. unfold stat.
  destruct (Z.eqb_spec p (-1)) as [Ep|Ep]; destruct (Z.eqb_spec p' (-1)) as [Ep'|Ep']; try tauto;
  destruct (Z.eqb_spec q (-1)) as [Eq|Eq]; destruct (Z.eqb_spec q' (-1)) as [Eq'|Eq']; try tauto; cbn [negb andb]; try reflexivity.
  specialize (Hc Ep Eq). unfold Z.ltb. rewrite (Z.compare_antisym p q), (Z.compare_antisym p' q'), Hc.
  destruct (p' ?= q'); reflexivity.
Qed.

Lemma mem_filter_G G b x : In x G -> mem x (filter (fun e => mem e G) b) = mem x b.
Proof.
  intros Hx. destruct (mem x b) eqn:E.
  - apply mem_In. apply filter_In. split; [apply mem_In; exact E|apply mem_In; exact Hx].
  - apply mem_false. intros H. apply filter_In in H as [H _]. apply mem_In in H. congruence.
Qed.

Lemma proj_cons G b r :
  proj G (b :: r) = if nonempty (filter (fun e => mem e G) b) then filter (fun e => mem e G) b :: proj G r else proj G r.
Proof. reflexivity. Qed.

Lemma proj_in G r x : In x (concat (proj G r)) <-> In x (concat r) /\ In x G.
Proof.
  induction r as [|b r IH]; [cbn; tauto|]. rewrite proj_cons. cbn [concat]. rewrite in_app_iff.
  destruct (nonempty (filter (fun e => mem e G) b)) eqn:E.
  - cbn [concat]. rewrite in_app_iff, IH, filter_In, mem_In. tauto.
  - rewrite IH. assert (Hn : filter (fun e => mem e G) b = []).
    { unfold nonempty in E. destruct (filter (fun e => mem e G) b); [reflexivity|discriminate]. }
    split; [tauto|]. intros [[H|H] HG]; [|tauto]. exfalso.
    assert (In x (filter (fun e => mem e G) b)) by (apply filter_In; split; [exact H|apply mem_In; exact HG]).
    rewrite Hn in H0. destruct H0.
Qed.

Lemma proj_cmp G r x y : In x G -> In y G -> forall k k', 0 <= k -> 0 <= k' ->
  In x (concat r) -> In y (concat r) ->
  Z.compare (bid_from k' (proj G r) x) (bid_from k' (proj G r) y) = Z.compare (bid_from k r x) (bid_from k r y).
Proof.
  intros Gx Gy. induction r as [|b r IH]; intros k k' Hk Hk' Hx Hy; [destruct Hx|].
  rewrite proj_cons. cbn [concat] in Hx, Hy. cbn [bid_from].
  set (b' := filter (fun e => mem e G) b).
  assert (Tl : forall z, In z G -> In z (concat r) -> forall j, 0 <= j -> j <= bid_from j (proj G r) z).
  { intros z Gz Hz j Hj. destruct (bid_from_range j (proj G r) z Hj) as [E|E]; [|exact E].
    apply bid_from_unranked in E; [|exact Hj]. exfalso. apply E. apply proj_in. split; assumption. }
  assert (Tr : forall z, In z (concat r) -> forall j, 0 <= j -> j <= bid_from j r z).
  { intros z Hz j Hj. destruct (bid_from_range j r z Hj) as [E|E]; [|exact E].
    apply bid_from_unranked in E; [contradiction|exact Hj]. }
  destruct (mem x b) eqn:Ex; destruct (mem y b) eqn:Ey.
  - assert (Hne : nonempty b' = true).
    { unfold nonempty. assert (In x b') by (apply filter_In; split; [apply mem_In; exact Ex|apply mem_In; exact Gx]).
      destruct b'; [destruct H|reflexivity]. }
    rewrite Hne. cbn [bid_from]. unfold b'. rewrite (mem_filter_G G b x Gx), (mem_filter_G G b y Gy), Ex, Ey.
    rewrite !Z.compare_refl. reflexivity.
  - assert (Hne : nonempty b' = true).
    { unfold nonempty. assert (In x b') by (apply filter_In; split; [apply mem_In; exact Ex|apply mem_In; exact Gx]).
      destruct b'; [destruct H|reflexivity]. }
    rewrite Hne. cbn [bid_from]. unfold b'. rewrite (mem_filter_G G b x Gx), (mem_filter_G G b y Gy), Ex, Ey.
    apply mem_false in Ey. apply in_app_or in Hy as [Hy|Hy]; [contradiction|].
    pose proof (Tl y Gy Hy (k' + 1) ltac:(lia)). pose proof (Tr y Hy (k + 1) ltac:(lia)).
    transitivity Lt; [apply Z.compare_lt_iff; lia|symmetry; apply Z.compare_lt_iff; lia].
  - assert (Hne : nonempty b' = true).
    { unfold nonempty. assert (In y b') by (apply filter_In; split; [apply mem_In; exact Ey|apply mem_In; exact Gy]).
      destruct b'; [destruct H|reflexivity]. }
    rewrite Hne. cbn [bid_from]. unfold b'. rewrite (mem_filter_G G b x Gx), (mem_filter_G G b y Gy), Ex, Ey.
    apply mem_false in Ex. apply in_app_or in Hx as [Hx|Hx]; [contradiction|].
    pose proof (Tl x Gx Hx (k' + 1) ltac:(lia)). pose proof (Tr x Hx (k + 1) ltac:(lia)).
    transitivity Gt; [apply Z.compare_gt_iff; lia|symmetry; apply Z.compare_gt_iff; lia].
  - apply mem_false in Ex. apply mem_false in Ey.
    apply in_app_or in Hx as [Hx|Hx]; [contradiction|]. apply in_app_or in Hy as [Hy|Hy]; [contradiction|].
    destruct (nonempty b') eqn:Hne.
    + cbn [bid_from]. unfold b'. rewrite (mem_filter_G G b x Gx), (mem_filter_G G b y Gy).
      apply mem_false in Ex. apply mem_false in Ey. rewrite Ex, Ey. apply IH; try assumption; lia.
    + apply IH; try assumption; lia.
Qed.

Lemma status_proj G r x y : In x G -> In y G -> status (proj G r) x y = status r x y.
Proof.
  intros Gx Gy. unfold status, bucket_id.
  assert (U : forall z, In z G -> (bid_from 0 (proj G r) z = -1 <-> bid_from 0 r z = -1)).
  { intros z Gz. rewrite !bid_from_unranked by lia. rewrite proj_in. tauto. }
  apply stat_by_cmp; [apply U; exact Gx|apply U; exact Gy|].
  intros Hx Hy. apply proj_cmp; try assumption; try lia.
  - rewrite (U x Gx), bid_from_unranked in Hx by lia. destruct (in_dec Nat.eq_dec x (concat r)); tauto.
  - rewrite (U y Gy), bid_from_unranked in Hy by lia. destruct (in_dec Nat.eq_dec y (concat r)); tauto.
Qed.

Lemma filter_length_le {A} (f : A -> bool) l : (length (filter f l) <= length l)%nat.
Proof. induction l as [|a l IH]; [cbn; lia|]. cbn [filter]. destruct (f a); cbn [length]; lia. Qed.

Lemma empties_perm (L : list (list (list nat))) :
  Permutation (filter nonempty L ++ repeat [] (length L - length (filter nonempty L))) L.
Proof.
  induction L as [|r L IH]; [reflexivity|]. cbn [filter]. pose proof (filter_length_le nonempty L) as Hl.
  destruct (nonempty r) eqn:E.
  - cbn [length app]. replace (S (length L) - S (length (filter nonempty L)))%nat with (length L - length (filter nonempty L))%nat by lia.
    apply perm_skip. exact IH.
  - assert (r = []) as -> by (unfold nonempty in E; destruct r; [reflexivity|discriminate]).
    cbn [length]. rewrite (Nat.sub_succ_l _ _ Hl).
    cbn [repeat]. etransitivity; [symmetry; apply Permutation_middle|]. apply perm_skip. exact IH.
Qed.

(** the sub-problem has, on the elements of the group, the cost table of the whole problem *)
Theorem sub_dataset_table s D G x y : In x G -> In y G -> cost_spec s (sub_dataset G D) x y = cost_spec s D x y.
Proof.
  intros Gx Gy. unfold sub_dataset.
  assert (E : forall F : ranking -> Z, zsum (map F (filter nonempty (map (proj G) D) ++
                repeat [] (length D - length (filter nonempty (map (proj G) D))))) = zsum (map F (map (proj G) D))).
  { intros F. apply zsum_perm', Permutation_map. pose proof (empties_perm (map (proj G) D)) as H.
    rewrite map_length in H. exact H. }
  unfold cost_spec. rewrite !E, !map_map.
  f_equal; [f_equal|]; apply zsum_map_ext; intros r _; rewrite status_proj by assumption; reflexivity.
Qed.

Lemma scoref_table_ext K K' U p : (forall x y, In x U -> In y U -> K x y = K' x y) -> scoref K U p = scoref K' U p.
Proof.
  intros H. unfold scoref. apply zsum_map_ext. intros [x y] Hxy. apply ordpairs_in' in Hxy as [Hx Hy].
  cbn [fst snd]. unfold pickf. rewrite (H x y Hx Hy). reflexivity.
Qed.

Lemma opt_table_ext K K' U : (forall x y, In x U -> In y U -> K x y = K' x y) -> opt K U = opt K' U.
Proof.
  intros H. unfold opt. f_equal. apply map_ext. intros a. apply scoref_table_ext. exact H.
Qed.

(** an optimal consensus of the sub-problem (which is what the exact algorithm is asked for) is an optimal
    consensus of the group for the table of the whole problem *)
Theorem sub_problem_optimum s D G c :
  wfU G c -> score (cost_spec s (sub_dataset G D)) c = opt (cost_spec s (sub_dataset G D)) G ->
  score (cost_spec s D) c = opt (cost_spec s D) G.
Proof.
  intros W E. rewrite <- (opt_table_ext _ _ G (fun x y Hx Hy => sub_dataset_table s D G x y Hx Hy)), <- E.
  rewrite !score_scoref. symmetry. apply scoref_table_ext. intros x y Hx Hy.
  apply sub_dataset_table; eapply Permutation_in; try exact W; assumption.
Qed.

(** * end to end, on a dataset: if the exact algorithm returns an optimal consensus of each sub-problem it is
    given (property C05) and the auxiliary algorithm returns a ranking of the group, then the ParCons consensus
    is a ranking of the universe that respects the partition, and whenever the mark "necessarily optimal" is
    set it is a global minimiser of the generalized Kemeny score *)
Theorem parcons_dataset_spec s D U P bound exact aux :
  valid s -> NoDup U ->
  let K := cost_spec s D in
  is_partition_of U P = true -> no_back_arcs K P = true ->
  (forall G, In G P -> wfU G (exact G) /\
     score (cost_spec s (sub_dataset G D)) (exact G) = opt (cost_spec s (sub_dataset G D)) G) ->
  (forall G, In G P -> wfU G (aux G)) ->
  let c := fst (parcons K bound exact aux P) in
  wfU U c /\ before P c /\
  (snd (parcons K bound exact aux P) = true -> kemeny_spec s D c = opt K U /\ is_optimal K U c).
Proof.
  intros Hv Nd K HP HB Hex Haux c.
  pose proof (cost_spec_mirror' s D Hv) as M.
  destruct (parcons_spec K bound exact aux M U P Nd HP HB) as (W & B & O).
  - intros G HG. destruct (Hex G HG) as [WG EG]. split; [exact WG|]. apply sub_problem_optimum; assumption.
  - exact Haux.
  - split; [exact W|]. split; [exact B|]. intros Hfl. rewrite <- score_cost_spec. apply O. exact Hfl.
Qed.
