(** Property C16 (and the equality of C17): invariants of the Ranking / Dataset object model. *)
From Corankco Require Import Prelude Parser DatasetModel.
From Coq Require Import Ascii String.
Local Open Scope Z_scope.

(** * names *)
Lemma str_eqb_spec a b : str_eqb a b = true <-> a = b.
Proof. unfold str_eqb. apply list_eqb_spec. intros x y. apply Ascii.eqb_eq. Qed.

Lemma name_eqb_spec a b : name_eqb a b = true <-> a = b.
Proof.
  destruct a as [x|x], b as [y|y]; simpl.
  - rewrite Z.eqb_eq. split; congruence.
  - split; discriminate.
  - split; discriminate.
  - rewrite str_eqb_spec. split; congruence.
Qed.

Lemma nmem_In x l : nmem x l = true <-> In x l.
Proof.
  unfold nmem. rewrite existsb_exists. split.
  - intros (y & Hy & E). apply name_eqb_spec in E. subst; assumption.
  - intros H. exists x. split; [assumption|apply name_eqb_spec; reflexivity].
Qed.
Lemma nmem_false x l : nmem x l = false <-> ~ In x l.
Proof. rewrite <- nmem_In. destruct (nmem x l); split; congruence. Qed.

Lemma ndedup_In x l : In x (ndedup l) <-> In x l.
Proof.
  induction l as [|a l IH]; simpl; [tauto|]. destruct (nmem a l) eqn:E.
  - apply nmem_In in E. rewrite IH. split; [auto|]. intros [<-|H]; assumption.
  - simpl. rewrite IH. tauto.
Qed.
Lemma ndedup_NoDup l : NoDup (ndedup l).
Proof.
  induction l as [|a l IH]; simpl; [constructor|]. destruct (nmem a l) eqn:E; [assumption|].
  constructor; [|assumption]. rewrite ndedup_In. apply nmem_false. assumption.
Qed.

Lemma nfirst_In seen l x : In x (nfirst seen l) <-> In x l /\ ~ In x seen.
Proof.
  revert seen; induction l as [|a l IH]; intros seen; simpl; [tauto|].
  destruct (nmem a seen) eqn:E.
  - apply nmem_In in E. rewrite IH. split; [tauto|]. intros [[<-|H] Hn]; [contradiction|tauto].
  - apply nmem_false in E. simpl. rewrite IH. simpl. split.
    + intros [<-|[H1 H2]]; tauto.
    + intros [[<-|H] Hn]; [tauto|]. destruct (name_eqb a x) eqn:Ex.
      * apply name_eqb_spec in Ex. tauto.
      * right. split; [assumption|]. intros [Hc|Hc]; [|contradiction].
        subst. assert (name_eqb x x = true) by (apply name_eqb_spec; reflexivity). congruence.
Qed.
Lemma nfirst_NoDup seen l : NoDup (nfirst seen l).
Proof.
  revert seen; induction l as [|a l IH]; intros seen; simpl; [constructor|].
  destruct (nmem a seen) eqn:E; [apply IH|].
  constructor; [|apply IH]. rewrite nfirst_In. simpl. tauto.
Qed.

(** * rankings *)
Lemma disjoint_buckets_NoDup bs seen :
  Forall (fun b => NoDup b) bs -> disjoint_buckets seen bs = true ->
  NoDup (List.concat bs) /\ forall x, In x (List.concat bs) -> ~ In x seen.
Proof.
  revert seen; induction bs as [|b bs IH]; intros seen Hb H; simpl in *; [split; [constructor|tauto]|].
  apply andb_true_iff in H as [H1 H2]. inversion Hb as [|? ? Nb Hbs]; subst.
  destruct (IH (b ++ seen) Hbs H2) as [N D]. rewrite forallb_forall in H1. split.
  - apply NoDup_app_intro; [assumption|assumption|].
    intros x Hx Hx'. apply (D x Hx'). apply in_or_app. auto.
  - intros x Hx. apply in_app_or in Hx as [Hx|Hx].
    + specialize (H1 x Hx). apply negb_true_iff, nmem_false in H1. assumption.
    + intros Hs. apply (D x Hx). apply in_or_app. auto.
Qed.

(** the constructor returns duplicate-free, pairwise disjoint buckets with the same members *)
Theorem mk_ranking_spec bs r :
  mk_ranking bs = Some r ->
  r = map ndedup bs /\ NoDup (nelems r) /\ (forall x, In x (nelems r) <-> In x (List.concat bs)).
Proof.
  unfold mk_ranking. destruct (disjoint_buckets [] (map ndedup bs)) eqn:E; [|discriminate].
  intros H; inversion H; subst. split; [reflexivity|].
  destruct (disjoint_buckets_NoDup (map ndedup bs) []) as [N _]; [|assumption|].
  - rewrite Forall_map, Forall_forall. intros b _. apply ndedup_NoDup.
  - split; [exact N|]. intros x. unfold nelems. rewrite !in_concat. split.
    + intros (l & Hl & Hx). apply in_map_iff in Hl as (b & <- & Hb). rewrite ndedup_In in Hx. exists b. split; assumption.
    + intros (b & Hb & Hx). exists (ndedup b). split; [apply in_map; assumption|rewrite ndedup_In; assumption].
Qed.

(** the positions dictionary agrees with the buckets: its keys are the elements (in order) and the
    position of x is 1 + the number of elements in strictly earlier buckets *)
Lemma positions_from_keys k r : map fst (positions_from k r) = nelems r.
Proof.
  revert k; induction r as [|b r IH]; intros k; simpl; [reflexivity|].
  rewrite map_app, map_map, IH. simpl. rewrite map_id. reflexivity.
Qed.

Lemma positions_from_value k k1 r x p :
  k1 = 1 + k -> NoDup (nelems r) -> In (x, p) (positions_from k1 r) -> p = 1 + npos_from k r x /\ In x (nelems r).
Proof.
  revert k k1; induction r as [|b r IH]; intros k k1 Hk Nd H; simpl in H, Nd |- *; [destruct H|].
  apply NoDup_app_inv in Nd as (Nb & Nr & Dj). apply in_app_or in H as [H|H].
  - apply in_map_iff in H as (y & E & Hy). inversion E; subst.
    assert (M : nmem x b = true) by (apply nmem_In; assumption). rewrite M. split; [reflexivity|apply in_or_app; auto].
  - destruct (IH (k + Z.of_nat (List.length b)) (k1 + Z.of_nat (List.length b)) ltac:(lia) Nr H) as [E Hx]. destruct (nmem x b) eqn:M.
    + apply nmem_In in M. exfalso. exact (Dj x M Hx).
    + split; [assumption|apply in_or_app; auto].
Qed.

Theorem positions_dict_spec r :
  NoDup (nelems r) ->
  map fst (positions_dict r) = nelems r /\
  forall x p, In (x, p) (positions_dict r) -> p = 1 + npos_from 0 r x.
Proof.
  intros Nd. split; [apply positions_from_keys|]. intros x p H.
  apply (positions_from_value 0 1 r x p eq_refl Nd). exact H.
Qed.

(** * analysis *)
Definition homogeneous (l : list name) : Prop :=
  (forall x, In x l -> exists z, x = NInt z) \/
  ((forall x, In x l -> exists s, x = NStr s) /\ exists x, In x l /\ int_like x = false).

Definition all_names (rs : list nranking) : list name := List.concat (map nelems rs).

Definition Inv (d : dataset_obj) : Prop :=
  Forall (fun r => NoDup (nelems r)) (d_rankings d) /\
  NoDup (d_ids d) /\ d_ids d <> [] /\
  (forall x, In x (d_ids d) <-> In x (all_names (d_rankings d))) /\
  homogeneous (all_names (d_rankings d)) /\
  (d_complete d = true <-> forall x r, In x (d_ids d) -> In r (d_rankings d) -> In x (nelems r)) /\
  (d_noties d = true <-> forall r b, In r (d_rankings d) -> In b r -> (List.length b <= 1)%nat).

Lemma all_some_spec {A} (l : list (option A)) r : all_some l = Some r <-> l = map Some r.
Proof.
  revert r; induction l as [|[a|] l IH]; intros r; simpl.
  - split; [intros H; inversion H; reflexivity|destruct r; [reflexivity|discriminate]].
  - destruct (all_some l) as [r'|] eqn:E; simpl.
    + split; [intros H; inversion H; subst; simpl; f_equal; apply IH; reflexivity|].
      destruct r as [|x r]; [discriminate|]. simpl. intros H; inversion H; subst. f_equal. f_equal.
      assert (Some r' = Some r) by (apply IH; reflexivity). congruence.
    + split; [discriminate|]. destruct r as [|x r]; [discriminate|]. simpl. intros H; inversion H; subst.
      assert (None = Some r) by (apply IH; reflexivity). discriminate.
  - split; [discriminate|]. destruct r; discriminate.
Qed.

Lemma conv_int_like x : int_like x = true -> exists z, to_int_name x = NInt z.
Proof. destruct x; simpl; eauto. Qed.

Theorem analyse_inv rs d : analyse rs = Ok d -> Inv d.
Proof.
  unfold analyse. destruct rs as [|r0 rs0] eqn:Ers; [discriminate|]. rewrite <- Ers. clear Ers r0 rs0.
  set (allint := forallb (fun r => forallb (fun b => forallb int_like b) r) rs).
  set (conv := if allint then to_int_name else to_str_name).
  destruct (all_some (map (fun r => mk_ranking (map (map conv) r)) rs)) as [rs'|] eqn:E; [|discriminate].
  destruct (nfirst [] (List.concat (map nelems rs'))) as [|i0 ids0] eqn:Eids; [discriminate|].
  rewrite <- Eids. intros H; inversion H; subst d; clear H. unfold Inv; simpl.
  apply all_some_spec in E.
  assert (R : forall r', In r' rs' -> exists r, In r rs /\ mk_ranking (map (map conv) r) = Some r').
  { intros r' Hr'. assert (In (Some r') (map Some rs')) by (apply in_map; assumption).
    rewrite <- E in H. apply in_map_iff in H as (r & H1 & H2). eauto. }
  split; [|split; [|split; [|split; [|split; [|split]]]]].
  - rewrite Forall_forall. intros r' Hr'. destruct (R r' Hr') as (r & _ & M). apply mk_ranking_spec in M. tauto.
  - apply nfirst_NoDup.
  - rewrite Eids. discriminate.
  - intros x. rewrite nfirst_In. unfold all_names. simpl. tauto.
  - (* homogeneous *)
    assert (Hn : all_names rs' <> []).
    { unfold all_names. intros Hc. rewrite Hc in Eids. simpl in Eids. discriminate. }
    assert (Src : forall x, In x (all_names rs') -> exists y r b, In r rs /\ In b r /\ In y b /\ x = conv y).
    { intros x Hx. unfold all_names in Hx. apply in_concat in Hx as (l & Hl & Hx).
      apply in_map_iff in Hl as (r' & <- & Hr'). destruct (R r' Hr') as (r & Hr & M).
      apply mk_ranking_spec in M as (_ & _ & M). apply M in Hx. apply in_concat in Hx as (b' & Hb' & Hx).
      apply in_map_iff in Hb' as (b & <- & Hb). apply in_map_iff in Hx as (y & <- & Hy). eauto 8. }
    unfold homogeneous. destruct allint eqn:A.
    + left. intros x Hx. destruct (Src x Hx) as (y & r & b & Hr & Hb & Hy & ->).
      unfold allint in A. rewrite forallb_forall in A. specialize (A r Hr). rewrite forallb_forall in A.
      specialize (A b Hb). rewrite forallb_forall in A. specialize (A y Hy). unfold conv. apply conv_int_like. assumption.
    + right. split.
      * intros x Hx. destruct (Src x Hx) as (y & r & b & _ & _ & _ & ->). unfold conv. destruct y; simpl; eauto.
      * (* some original name is not integer-like; its string form is in the result and is not integer-like *)
        unfold allint in A.
        assert (Ex : exists r b y, In r rs /\ In b r /\ In y b /\ int_like y = false).
        { clear -A. induction rs as [|r rs IH]; simpl in A; [discriminate|].
          apply andb_false_iff in A as [A|A].
          - assert (X : exists b y, In b r /\ In y b /\ int_like y = false).
            { clear -A. induction r as [|b r IHr]; simpl in A; [discriminate|]. apply andb_false_iff in A as [A|A].
              - assert (Y : exists y, In y b /\ int_like y = false).
                { clear -A. induction b as [|y b IHb]; simpl in A; [discriminate|]. apply andb_false_iff in A as [A|A].
                  - exists y; simpl; auto.
                  - destruct (IHb A) as (y' & H1 & H2). exists y'; simpl; auto. }
                destruct Y as (y & H1 & H2). exists b, y; simpl; auto.
              - destruct (IHr A) as (b' & y & H1 & H2 & H3). exists b', y; simpl; auto. }
            destruct X as (b & y & H1 & H2 & H3). exists r, b, y; simpl; auto.
          - destruct (IH A) as (r' & b & y & H1 & H2 & H3 & H4). exists r', b, y; simpl; auto. }
        destruct Ex as (r & b & y & Hr & Hb & Hy & Hi).
        exists (conv y). split.
        -- (* conv y is in the analysed rankings *)
           assert (In (mk_ranking (map (map conv) r)) (map Some rs')) by (rewrite <- E; apply in_map_iff; eauto).
           apply in_map_iff in H as (r' & M & Hr'). symmetry in M. apply mk_ranking_spec in M as (_ & _ & M).
           unfold all_names. apply in_concat. exists (nelems r'). split; [apply in_map; assumption|].
           apply M. apply in_concat. exists (map conv b). split; [apply in_map; assumption|apply in_map; assumption].
        -- unfold conv. destruct y as [z|s]; simpl in *; [discriminate|assumption].
  - rewrite forallb_forall. split.
    + intros H x r Hx Hr. specialize (H x Hx). rewrite forallb_forall in H. apply nmem_In, H, Hr.
    + intros H x Hx. rewrite forallb_forall. intros r Hr. apply nmem_In. auto.
  - rewrite forallb_forall. split.
    + intros H r b Hr Hb. specialize (H r Hr). rewrite forallb_forall in H. specialize (H b Hb). apply Nat.leb_le in H. assumption.
    + intros H r Hr. rewrite forallb_forall. intros b Hb. apply Nat.leb_le. eauto.
Qed.

(** * every operation returns an analysed dataset, hence keeps the invariant *)
Theorem dataset_new_inv raw d : dataset_new raw = Ok d -> Inv d.
Proof. unfold dataset_new. destruct (all_some (map mk_ranking raw)); [apply analyse_inv|discriminate]. Qed.

Theorem remove_empty_inv d d' : remove_empty_rankings d = Ok d' -> Inv d'.
Proof. apply analyse_inv. Qed.
Theorem remove_elements_inv d Sx d' : remove_elements d Sx = Ok d' -> Inv d'.
Proof. unfold remove_elements. destruct (negb _); [discriminate|apply analyse_inv]. Qed.
Theorem remove_rate_inv d p q d' : remove_rate d p q = Ok d' -> Inv d'.
Proof. apply remove_elements_inv. Qed.
Theorem unified_dataset_inv d d' : unified_dataset d = Ok d' -> Inv d'.
Proof. apply analyse_inv. Qed.
Theorem sub_problem_inv d K d' : sub_problem d K = Ok d' -> Inv d'.
Proof. apply analyse_inv. Qed.

Inductive mutation := MRemoveEmpty | MRemoveElements (Sx : list name) | MRemoveRate (p q : Z).
Definition mutate (d : dataset_obj) (m : mutation) : result derr dataset_obj :=
  match m with
  | MRemoveEmpty => remove_empty_rankings d
  | MRemoveElements Sx => remove_elements d Sx
  | MRemoveRate p q => remove_rate d p q
  end.
Fixpoint run_history (d : dataset_obj) (h : list mutation) : result derr dataset_obj :=
  match h with
  | [] => Ok d
  | m :: h' => match mutate d m with Ok d' => run_history d' h' | Err e => Err e end
  end.

(** any sequence of element removals, presence-rate filtering and empty-ranking removal *)
Theorem history_inv h : forall d d', Inv d -> run_history d h = Ok d' -> Inv d'.
Proof.
  induction h as [|m h IH]; intros d d' Hd H; simpl in H; [inversion H; subst; assumption|].
  destruct (mutate d m) as [d1|e] eqn:E; [|discriminate]. apply (IH d1); [|assumption].
  destruct m; simpl in E; [eapply remove_empty_inv|eapply remove_elements_inv|eapply remove_rate_inv]; eassumption.
Qed.

(** * matrices agree with the rankings *)
Theorem get_positions_entry d i j :
  (i < List.length (d_ids d))%nat -> (j < List.length (d_rankings d))%nat ->
  nth j (nth i (get_positions d) []) (-2) = npos_from 0 (nth j (d_rankings d) []) (nth i (d_ids d) (NInt 0)).
Proof.
  intros Hi Hj. unfold get_positions.
  rewrite (nth_indep _ [] (map (fun r => npos_from 0 r (NInt 0)) (d_rankings d))) by (rewrite map_length; assumption).
  rewrite (map_nth (fun x => map (fun r => npos_from 0 r x) (d_rankings d)) (d_ids d) (NInt 0)).
  rewrite (nth_indep _ (-2) (npos_from 0 [] (nth i (d_ids d) (NInt 0)))) by (rewrite map_length; assumption).
  rewrite (map_nth (fun r => npos_from 0 r (nth i (d_ids d) (NInt 0))) (d_rankings d) []). reflexivity.
Qed.

Theorem get_bucket_ids_entry d i j :
  (i < List.length (d_ids d))%nat -> (j < List.length (d_rankings d))%nat ->
  nth j (nth i (get_bucket_ids d) []) (-2) = nbid_from 0 (nth j (d_rankings d) []) (nth i (d_ids d) (NInt 0)).
Proof.
  intros Hi Hj. unfold get_bucket_ids.
  rewrite (nth_indep _ [] (map (fun r => nbid_from 0 r (NInt 0)) (d_rankings d))) by (rewrite map_length; assumption).
  rewrite (map_nth (fun x => map (fun r => nbid_from 0 r x) (d_rankings d)) (d_ids d) (NInt 0)).
  rewrite (nth_indep _ (-2) (nbid_from 0 [] (nth i (d_ids d) (NInt 0)))) by (rewrite map_length; assumption).
  rewrite (map_nth (fun r => nbid_from 0 r (nth i (d_ids d) (NInt 0))) (d_rankings d) []). reflexivity.
Qed.

(** * unification and projection *)
Theorem nunify_spec U r :
  let missing := filter (fun x => negb (nmem x (nelems r))) U in
  (missing = [] -> nunify U r = r) /\ (missing <> [] -> nunify U r = r ++ [missing]) /\
  (forall x, In x missing <-> In x U /\ ~ In x (nelems r)).
Proof.
  intros missing. unfold nunify. fold missing. split; [intros ->; reflexivity|]. split.
  - destruct missing; [congruence|reflexivity].
  - intros x. unfold missing. rewrite filter_In, negb_true_iff, nmem_false. tauto.
Qed.

Lemma filter_nonempty_in {A} (l : list (list A)) b :
  In b (filter (fun b => negb (Nat.eqb (List.length b) 0)) l) <-> In b l /\ b <> [].
Proof.
  rewrite filter_In. split; intros [H1 H2]; split; try assumption.
  - intros ->. discriminate.
  - destruct b; [contradiction|reflexivity].
Qed.

(** projection on a kept set: exactly the kept elements of the ranking, no empty bucket *)
Theorem project_on_spec K r :
  (forall x, In x (nelems (project_on K r)) <-> In x (nelems r) /\ In x K) /\
  Forall (fun b => b <> []) (project_on K r) /\
  (project_on K r <> [] <-> exists x, In x (nelems r) /\ In x K).
Proof.
  assert (A : forall x, In x (nelems (project_on K r)) <-> In x (nelems r) /\ In x K).
  { intros x. unfold nelems, project_on. rewrite !in_concat. split.
    - intros (b & Hb & Hx). apply filter_nonempty_in in Hb as [Hb _]. apply in_map_iff in Hb as (b0 & <- & Hb0).
      apply filter_In in Hx as [Hx Hk]. apply nmem_In in Hk. split; [exists b0; auto|assumption].
    - intros [(b0 & Hb0 & Hx) Hk]. exists (filter (fun x => nmem x K) b0).
      assert (Hin : In x (filter (fun x => nmem x K) b0)) by (apply filter_In; split; [assumption|apply nmem_In; assumption]).
      split; [|assumption]. apply filter_nonempty_in. split; [apply in_map; assumption|].
      intros E. rewrite E in Hin. destruct Hin. }
  split; [exact A|]. split.
  - unfold project_on. rewrite Forall_forall. intros b Hb. apply filter_nonempty_in in Hb. tauto.
  - split.
    + intros H. destruct (project_on K r) as [|b l] eqn:E; [contradiction|].
      assert (Hb : b <> []).
      { assert (In b (project_on K r)) by (rewrite E; left; reflexivity). unfold project_on in H0.
        apply filter_nonempty_in in H0. tauto. }
      destruct b as [|x b]; [contradiction|]. exists x. apply A. simpl. auto.
    + intros (x & Hx). apply A in Hx. intros E. rewrite E in Hx. destruct Hx.
Qed.

(** * equality of datasets (C17) *)
Lemma nset_eqb_spec a b : nset_eqb a b = true <-> (forall x, In x a <-> In x b).
Proof.
  unfold nset_eqb. rewrite andb_true_iff, !forallb_forall. split.
  - intros [H1 H2] x. split; intros H; apply nmem_In; auto.
  - intros H. split; intros x Hx; apply nmem_In, H, Hx.
Qed.
Lemma nset_eqb_refl a : nset_eqb a a = true.
Proof. apply nset_eqb_spec. tauto. Qed.
Lemma nset_eqb_sym a b : nset_eqb a b = nset_eqb b a.
Proof.
  destruct (nset_eqb a b) eqn:E1; destruct (nset_eqb b a) eqn:E2; try reflexivity.
  - pose proof (proj1 (nset_eqb_spec a b) E1) as H1. assert (nset_eqb b a = true) by (apply nset_eqb_spec; intros x; symmetry; apply H1). congruence.
  - pose proof (proj1 (nset_eqb_spec b a) E2) as H2. assert (nset_eqb a b = true) by (apply nset_eqb_spec; intros x; symmetry; apply H2). congruence.
Qed.
Lemma nset_eqb_trans a b c : nset_eqb a b = true -> nset_eqb b c = true -> nset_eqb a c = true.
Proof. rewrite !nset_eqb_spec. intros H1 H2 x. rewrite H1. apply H2. Qed.

Definition req (r1 r2 : nranking) : Prop := nranking_eqb r1 r2 = true.

Lemma req_spec r1 r2 : req r1 r2 <-> Forall2 (fun a b => forall x, In x a <-> In x b) r1 r2.
Proof.
  unfold req, nranking_eqb. revert r2; induction r1 as [|a r1 IH]; intros [|b r2]; simpl.
  - split; [constructor|reflexivity].
  - split; [discriminate|intros H; inversion H].
  - split; [discriminate|intros H; inversion H].
  - rewrite andb_true_iff, nset_eqb_spec, IH. split.
    + intros [H1 H2]. constructor; assumption.
    + intros H. inversion H; subst. auto.
Qed.
Lemma req_refl r : req r r.
Proof. apply req_spec. induction r; constructor; [tauto|assumption]. Qed.
Lemma req_sym r1 r2 : req r1 r2 -> req r2 r1.
Proof.
  rewrite !req_spec. induction 1 as [|a b l l' Hab _ IH]; constructor; [|assumption]. intros z; symmetry; apply Hab.
Qed.
Lemma req_trans r1 r2 r3 : req r1 r2 -> req r2 r3 -> req r1 r3.
Proof.
  rewrite !req_spec. intros H; revert r3; induction H as [|a b r1 r2 Hab _ IH]; intros r3 H2; inversion H2; subst; constructor.
  - intros x. rewrite Hab. auto.
  - apply IH; assumption.
Qed.

Lemma count_r_req r r' l : req r r' -> count_r r l = count_r r' l.
Proof.
  intros H. unfold count_r. f_equal. apply filter_ext. intros x.
  destruct (nranking_eqb r x) eqn:E1; destruct (nranking_eqb r' x) eqn:E2; try reflexivity.
  - assert (req r' x) by (eapply req_trans; [apply req_sym; exact H|exact E1]). unfold req in H0. congruence.
  - assert (req r x) by (eapply req_trans; [exact H|exact E2]). unfold req in H0. congruence.
Qed.

Lemma count_r_pos r l : (0 < count_r r l)%nat -> exists r', In r' l /\ req r r'.
Proof.
  unfold count_r. intros H. destruct (filter (nranking_eqb r) l) as [|r' f] eqn:E; [simpl in H; lia|].
  assert (In r' (filter (nranking_eqb r) l)) by (rewrite E; left; reflexivity).
  apply filter_In in H0 as [H1 H2]. exists r'. split; assumption.
Qed.

(** equal exactly when every ranking (buckets taken as sets) has the same multiplicity in both *)
Theorem dataset_eqb_spec a b :
  dataset_eqb a b = true <-> forall r, count_r r a = count_r r b.
Proof.
  unfold dataset_eqb. rewrite forallb_forall. split.
  - intros H r. destruct (Nat.eq_dec (count_r r a) 0) as [Ea|Ea]; destruct (Nat.eq_dec (count_r r b) 0) as [Eb|Eb]; [lia| | |].
    + destruct (count_r_pos r b ltac:(lia)) as (r' & Hr' & Hq).
      rewrite (count_r_req r r' a Hq), (count_r_req r r' b Hq).
      apply Nat.eqb_eq, H. apply in_or_app; auto.
    + destruct (count_r_pos r a ltac:(lia)) as (r' & Hr' & Hq).
      rewrite (count_r_req r r' a Hq), (count_r_req r r' b Hq).
      apply Nat.eqb_eq, H. apply in_or_app; auto.
    + destruct (count_r_pos r a ltac:(lia)) as (r' & Hr' & Hq).
      rewrite (count_r_req r r' a Hq), (count_r_req r r' b Hq).
      apply Nat.eqb_eq, H. apply in_or_app; auto.
  - intros H r _. apply Nat.eqb_eq, H.
Qed.

Theorem dataset_eqb_refl a : dataset_eqb a a = true.
Proof. apply dataset_eqb_spec. reflexivity. Qed.

Theorem dataset_eqb_sym a b : dataset_eqb a b = dataset_eqb b a.
Proof.
  destruct (dataset_eqb a b) eqn:E1; destruct (dataset_eqb b a) eqn:E2; try reflexivity.
  - rewrite dataset_eqb_spec in E1. assert (dataset_eqb b a = true) by (apply dataset_eqb_spec; intros r; symmetry; apply E1). congruence.
  - rewrite dataset_eqb_spec in E2. assert (dataset_eqb a b = true) by (apply dataset_eqb_spec; intros r; symmetry; apply E2). congruence.
Qed.

Lemma count_r_perm r l l' : Permutation l l' -> count_r r l = count_r r l'.
Proof.
  unfold count_r. induction 1; simpl.
  - reflexivity.
  - destruct (nranking_eqb r x); simpl; congruence.
  - destruct (nranking_eqb r x); destruct (nranking_eqb r y); reflexivity.
  - congruence.
Qed.

(** irrespective of the order of the rankings *)
Theorem dataset_eqb_perm a a' b : Permutation a a' -> dataset_eqb a b = dataset_eqb a' b.
Proof.
  intros P. destruct (dataset_eqb a b) eqn:E1; destruct (dataset_eqb a' b) eqn:E2; try reflexivity.
  - rewrite dataset_eqb_spec in E1. assert (dataset_eqb a' b = true).
    { apply dataset_eqb_spec. intros r. rewrite <- (count_r_perm r a a' P). apply E1. } congruence.
  - rewrite dataset_eqb_spec in E2. assert (dataset_eqb a b = true).
    { apply dataset_eqb_spec. intros r. rewrite (count_r_perm r a a' P). apply E2. } congruence.
Qed.

Lemma count_r_listing r l l' : Forall2 req l l' -> count_r r l = count_r r l'.
Proof.
  unfold count_r. induction 1 as [|x y l l' Hxy _ IH]; simpl; [reflexivity|].
  destruct (nranking_eqb r x) eqn:E1; destruct (nranking_eqb r y) eqn:E2; simpl; try congruence.
  - assert (req r y) by (eapply req_trans; [exact E1|exact Hxy]). unfold req in H. congruence.
  - assert (req r x) by (eapply req_trans; [exact E2|apply req_sym; exact Hxy]). unfold req in H. congruence.
Qed.

(** irrespective of the order in which bucket members are listed / inserted *)
Theorem dataset_eqb_listing a a' b : Forall2 req a a' -> dataset_eqb a b = dataset_eqb a' b.
Proof.
  intros P. destruct (dataset_eqb a b) eqn:E1; destruct (dataset_eqb a' b) eqn:E2; try reflexivity.
  - rewrite dataset_eqb_spec in E1. assert (dataset_eqb a' b = true).
    { apply dataset_eqb_spec. intros r. rewrite <- (count_r_listing r a a' P). apply E1. } congruence.
  - rewrite dataset_eqb_spec in E2. assert (dataset_eqb a b = true).
    { apply dataset_eqb_spec. intros r. rewrite (count_r_listing r a a' P). apply E2. } congruence.
Qed.

(** consistent with ranking equality: one ranking each *)
Theorem dataset_eqb_single r1 r2 : dataset_eqb [r1] [r2] = nranking_eqb r1 r2.
Proof.
  destruct (nranking_eqb r1 r2) eqn:E.
  - apply dataset_eqb_spec. intros r. rewrite (count_r_listing r [r1] [r2]); [reflexivity|]. constructor; [exact E|constructor].
  - destruct (dataset_eqb [r1] [r2]) eqn:D; [|reflexivity]. rewrite dataset_eqb_spec in D.
    specialize (D r1). unfold count_r in D. simpl in D. rewrite E in D.
    assert (X : nranking_eqb r1 r1 = true) by apply req_refl. rewrite X in D. discriminate.
Qed.
