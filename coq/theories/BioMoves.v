(** BioConsert, the two in-place moves ([_change_bucket], [_add_bucket]): on a vector whose bucket ids are
    exactly 0..m they realise the intended single-element move (same order and ties as the position function
    [moved]) and keep the numbering dense, with the bookkeeping of [max_id_bucket] of the caller. *)
From Corankco Require Import Prelude Scheme Rank KemenySpec CostTable OptTheory Markov MarkovProof Borda BioConsert Judge.JBio.
Local Open Scope Z_scope.

(** bucket ids are exactly 0..m *)
Definition DenseTo (n : nat) (r : vec) (m : Z) : Prop :=
  length r = n /\ (forall e, (e < n)%nat -> 0 <= get r e <= m) /\
  (forall k, 0 <= k <= m -> exists e, (e < n)%nat /\ get r e = k).

Definition alone_in (n : nat) (r : vec) (t : nat) : Prop :=
  forall e, (e < n)%nat -> e <> t -> get r e <> get r t.

Lemma change_bucket_get n r t to alone e : length r = n -> (t < n)%nat -> (e < n)%nat ->
  get (change_bucket r t (get r t) to alone) e =
  if Nat.eqb e t then (if alone && (get r t <? to) then to - 1 else to)
  else (if alone && (get r t <? get r e) then get r e - 1 else get r e).
Proof.
  intros L Ht He. unfold change_bucket. destruct alone; cbn [andb].
  - rewrite get_map by (rewrite upd_length; lia). destruct (Nat.eqb_spec e t) as [->|Ne].
    + rewrite get_upd_same by lia. reflexivity.
    + rewrite get_upd_other by assumption. reflexivity.
  - destruct (Nat.eqb_spec e t) as [->|Ne]; [apply get_upd_same; lia|apply get_upd_other; assumption].
Qed.

Lemma change_bucket_length r t b to alone : length (change_bucket r t b to alone) = length r.
Proof. unfold change_bucket. destruct alone; [rewrite map_length|]; apply upd_length. Qed.

Theorem change_bucket_cmp n r m t to alone :
  DenseTo n r m -> (t < n)%nat -> to <> get r t -> (alone = true -> alone_in n r t) ->
  forall x y, (x < n)%nat -> (y < n)%nat ->
  Z.compare (get (change_bucket r t (get r t) to alone) x) (get (change_bucket r t (get r t) to alone) y)
  = Z.compare (moved r t (2 * to) x) (moved r t (2 * to) y).
Proof.
  intros (L & Rg & _) Ht Hne Hal x y Hx Hy.
  rewrite !(change_bucket_get n r t to alone) by assumption. unfold moved.
  destruct alone; cbn [andb].
  - specialize (Hal eq_refl).
    destruct (Nat.eqb_spec x t) as [->|Nx]; destruct (Nat.eqb_spec y t) as [->|Ny].
    + rewrite !Z.compare_refl. reflexivity.
    + pose proof (Hal y Hy Ny).
      destruct (Z.ltb_spec (get r t) to); destruct (Z.ltb_spec (get r t) (get r y));
        destruct (Z.compare_spec (2 * to) (2 * get r y));
        first [apply Z.compare_eq_iff; lia|apply Z.compare_lt_iff; lia|apply Z.compare_gt_iff; lia].
    + pose proof (Hal x Hx Nx).
      destruct (Z.ltb_spec (get r t) to); destruct (Z.ltb_spec (get r t) (get r x));
        destruct (Z.compare_spec (2 * get r x) (2 * to));
        first [apply Z.compare_eq_iff; lia|apply Z.compare_lt_iff; lia|apply Z.compare_gt_iff; lia].
    + pose proof (Hal x Hx Nx). pose proof (Hal y Hy Ny).
      destruct (Z.ltb_spec (get r t) (get r x)); destruct (Z.ltb_spec (get r t) (get r y));
        destruct (Z.compare_spec (2 * get r x) (2 * get r y));
        first [apply Z.compare_eq_iff; lia|apply Z.compare_lt_iff; lia|apply Z.compare_gt_iff; lia].
  - destruct (Nat.eqb_spec x t) as [->|Nx]; destruct (Nat.eqb_spec y t) as [->|Ny];
      match goal with |- _ = (?a ?= ?b) => destruct (Z.compare_spec a b) end;
      first [apply Z.compare_eq_iff; lia|apply Z.compare_lt_iff; lia|apply Z.compare_gt_iff; lia].
Qed.

Theorem change_bucket_dense n r m t to alone :
  DenseTo n r m -> (t < n)%nat -> 0 <= to <= m -> to <> get r t -> (alone = true <-> alone_in n r t) ->
  DenseTo n (change_bucket r t (get r t) to alone) (if alone then m - 1 else m).
Proof.
  intros (L & Rg & Sj) Ht Hto Hne Hal. split; [rewrite change_bucket_length; exact L|]. split.
  - intros e He. rewrite (change_bucket_get n r t to alone) by assumption. pose proof (Rg e He). pose proof (Rg t Ht).
    destruct alone; cbn [andb].
    + pose proof (proj1 Hal eq_refl) as Ha. destruct (Nat.eqb_spec e t) as [->|Ne].
      * destruct (Z.ltb_spec (get r t) to); lia.
      * pose proof (Ha e He Ne). destruct (Z.ltb_spec (get r t) (get r e)); lia.
    + destruct (Nat.eqb e t); lia.
  - intros k Hk. destruct alone.
    + pose proof (proj1 Hal eq_refl) as Ha. pose proof (Rg t Ht) as Rt.
      (* the old id that becomes k *)
      set (k0 := if k <? get r t then k else k + 1).
      destruct (Z.eq_dec k0 to) as [E|E].
      * exists t. split; [exact Ht|]. rewrite (change_bucket_get n r t to true) by assumption. rewrite Nat.eqb_refl. cbn [andb].
        unfold k0 in E. destruct (Z.ltb_spec k (get r t)); destruct (Z.ltb_spec (get r t) to); lia.
      * destruct (Sj k0) as (e & He & Ee); [unfold k0; destruct (Z.ltb_spec k (get r t)); lia|].
        assert (Ne : e <> t) by (intros ->; unfold k0 in Ee; destruct (Z.ltb_spec k (get r t)); lia).
        exists e. split; [exact He|]. rewrite (change_bucket_get n r t to true) by assumption.
        destruct (Nat.eqb_spec e t); [contradiction|]. cbn [andb]. rewrite Ee. unfold k0.
        destruct (Z.ltb_spec k (get r t)); destruct (Z.ltb_spec (get r t) k); destruct (Z.ltb_spec (get r t) (k + 1)); lia.
    + destruct (Z.eq_dec k to) as [->|E].
      * exists t. split; [exact Ht|]. rewrite (change_bucket_get n r t to false) by assumption. rewrite Nat.eqb_refl. reflexivity.
      * destruct (Z.eq_dec k (get r t)) as [Ek|Ek].
        -- (* somebody else is in the old bucket *)
           assert (Hna : ~ alone_in n r t) by (intros H; apply Hal in H; discriminate).
           assert (exists e, (e < n)%nat /\ e <> t /\ get r e = get r t) as (e & He & Ne & Ee).
           { clear -Hna. unfold alone_in in Hna.
             assert (G : forall l, (forall e, In e l -> (e < n)%nat) ->
                       (exists e, In e l /\ e <> t /\ get r e = get r t) \/ (forall e, In e l -> e <> t -> get r e <> get r t)).
             { induction l as [|a l IH]; intros Hl; [right; intros ? []|].
               destruct IH as [(e & Hin & H)|IH]; [intros e He; apply Hl; right; exact He|left; exists e; split; [right; exact Hin|exact H]|].
               destruct (Nat.eq_dec a t) as [->|Na]; [right; intros e [<-|He] Ne; [contradiction|apply IH; assumption]|].
               destruct (Z.eq_dec (get r a) (get r t)) as [Ea|Ea]; [left; exists a; split; [left; reflexivity|split; assumption]|].
               right. intros e [<-|He] Ne; [assumption|apply IH; assumption]. }
             destruct (G (seq 0 n)) as [(e & Hin & H)|H]; [intros e He; apply in_seq in He; lia|exists e; split; [apply in_seq in Hin; lia|exact H]|].
             exfalso. apply Hna. intros e He Ne. apply H; [apply in_seq; lia|exact Ne]. }
           exists e. split; [exact He|]. rewrite (change_bucket_get n r t to false) by assumption.
           destruct (Nat.eqb_spec e t); [contradiction|]. cbn [andb]. lia.
        -- destruct (Sj k Hk) as (e & He & Ee). assert (Ne : e <> t) by (intros ->; lia).
           exists e. split; [exact He|]. rewrite (change_bucket_get n r t to false) by assumption.
           destruct (Nat.eqb_spec e t); [contradiction|]. cbn [andb]. exact Ee.
Qed.

(** * [_add_bucket] *)
Lemma add_bucket_get n r t np alone e : length r = n -> (t < n)%nat -> (e < n)%nat ->
  get (add_bucket r t (get r t) np alone) e =
  let b0 := get r t in let x := get r e in
  if b0 <? np then
    if alone then (if Nat.eqb e t then np - 1 else if (b0 <? x) && (x <? np) then x - 1 else x)
    else (if Nat.eqb e t then np else if np <=? x then x + 1 else x)
  else
    if alone then (if Nat.eqb e t then np else if (np <=? x) && (x <? b0) then x + 1 else x)
    else (if Nat.eqb e t then np else if np <=? x then x + 1 else x).
Proof.
  intros L Ht He. unfold add_bucket. cbv zeta.
  destruct (get r t <? np); destruct alone; rewrite get_upd_map by lia; reflexivity.
Qed.

Lemma add_bucket_length r t b np alone : length (add_bucket r t b np alone) = length r.
Proof. unfold add_bucket. destruct (b <? np); destruct alone; rewrite upd_length, map_length; reflexivity. Qed.

Ltac cmp_solve :=
  match goal with |- _ = (?a ?= ?b) => destruct (Z.compare_spec a b) end;
  first [apply Z.compare_eq_iff; lia|apply Z.compare_lt_iff; lia|apply Z.compare_gt_iff; lia].

Theorem add_bucket_cmp n r m t np alone :
  DenseTo n r m -> (t < n)%nat -> (alone = true -> alone_in n r t) ->
  forall x y, (x < n)%nat -> (y < n)%nat ->
  Z.compare (get (add_bucket r t (get r t) np alone) x) (get (add_bucket r t (get r t) np alone) y)
  = Z.compare (moved r t (2 * np - 1) x) (moved r t (2 * np - 1) y).
Proof.
  intros (L & Rg & _) Ht Hal x y Hx Hy.
  rewrite !(add_bucket_get n r t np alone) by assumption. cbv zeta. unfold moved.
  destruct (Z.ltb_spec (get r t) np); destruct alone.
  - specialize (Hal eq_refl).
    destruct (Nat.eqb_spec x t) as [->|Nx]; destruct (Nat.eqb_spec y t) as [->|Ny].
    + rewrite !Z.compare_refl; reflexivity.
    + pose proof (Hal y Hy Ny). destruct (Z.ltb_spec (get r t) (get r y)); destruct (Z.ltb_spec (get r y) np); cbn [andb]; cmp_solve.
    + pose proof (Hal x Hx Nx). destruct (Z.ltb_spec (get r t) (get r x)); destruct (Z.ltb_spec (get r x) np); cbn [andb]; cmp_solve.
    + pose proof (Hal x Hx Nx). pose proof (Hal y Hy Ny).
      destruct (Z.ltb_spec (get r t) (get r x)); destruct (Z.ltb_spec (get r x) np);
      destruct (Z.ltb_spec (get r t) (get r y)); destruct (Z.ltb_spec (get r y) np); cbn [andb]; cmp_solve.
  - destruct (Nat.eqb_spec x t) as [->|Nx]; destruct (Nat.eqb_spec y t) as [->|Ny].
    + rewrite !Z.compare_refl; reflexivity.
    + destruct (Z.leb_spec np (get r y)); cmp_solve.
    + destruct (Z.leb_spec np (get r x)); cmp_solve.
    + destruct (Z.leb_spec np (get r x)); destruct (Z.leb_spec np (get r y)); cmp_solve.
  - specialize (Hal eq_refl).
    destruct (Nat.eqb_spec x t) as [->|Nx]; destruct (Nat.eqb_spec y t) as [->|Ny].
    + rewrite !Z.compare_refl; reflexivity.
    + pose proof (Hal y Hy Ny). destruct (Z.leb_spec np (get r y)); destruct (Z.ltb_spec (get r y) (get r t)); cbn [andb]; cmp_solve.
    + pose proof (Hal x Hx Nx). destruct (Z.leb_spec np (get r x)); destruct (Z.ltb_spec (get r x) (get r t)); cbn [andb]; cmp_solve.
    + pose proof (Hal x Hx Nx). pose proof (Hal y Hy Ny).
      destruct (Z.leb_spec np (get r x)); destruct (Z.ltb_spec (get r x) (get r t));
      destruct (Z.leb_spec np (get r y)); destruct (Z.ltb_spec (get r y) (get r t)); cbn [andb]; cmp_solve.
  - destruct (Nat.eqb_spec x t) as [->|Nx]; destruct (Nat.eqb_spec y t) as [->|Ny].
    + rewrite !Z.compare_refl; reflexivity.
    + destruct (Z.leb_spec np (get r y)); cmp_solve.
    + destruct (Z.leb_spec np (get r x)); cmp_solve.
    + destruct (Z.leb_spec np (get r x)); destruct (Z.leb_spec np (get r y)); cmp_solve.
Qed.

Lemma not_alone_witness n r t : ~ alone_in n r t -> exists e, (e < n)%nat /\ e <> t /\ get r e = get r t.
Proof.
  intros Hna. unfold alone_in in Hna.
  assert (G : forall l, (forall e, In e l -> (e < n)%nat) ->
            (exists e, In e l /\ e <> t /\ get r e = get r t) \/ (forall e, In e l -> e <> t -> get r e <> get r t)).
  { induction l as [|a l IH]; intros Hl; [right; intros ? []|].
    destruct IH as [(e & Hin & H)|IH]; [intros e He; apply Hl; right; exact He|left; exists e; split; [right; exact Hin|exact H]|].
    destruct (Nat.eq_dec a t) as [->|Na]; [right; intros e [<-|He] Ne; [contradiction|apply IH; assumption]|].
    destruct (Z.eq_dec (get r a) (get r t)) as [Ea|Ea]; [left; exists a; split; [left; reflexivity|split; assumption]|].
    right. intros e [<-|He] Ne; [assumption|apply IH; assumption]. }
  destruct (G (seq 0 n)) as [(e & Hin & H)|H]; [intros e He; apply in_seq in He; lia|exists e; split; [apply in_seq in Hin; lia|exact H]|].
  exfalso. apply Hna. intros e He Ne. apply H; [apply in_seq; lia|exact Ne].
Qed.

Theorem add_bucket_dense n r m t np alone :
  DenseTo n r m -> (t < n)%nat -> 0 <= np <= m + 1 -> (alone = true <-> alone_in n r t) ->
  DenseTo n (add_bucket r t (get r t) np alone) (if alone then m else m + 1).
Proof.
  intros (L & Rg & Sj) Ht Hnp Hal. split; [rewrite add_bucket_length; exact L|]. pose proof (Rg t Ht) as Rt. split.
  - intros e He. rewrite (add_bucket_get n r t np alone) by assumption. cbv zeta. pose proof (Rg e He).
    destruct (Z.ltb_spec (get r t) np); destruct alone; destruct (Nat.eqb_spec e t) as [->|Ne]; try lia.
    + pose proof (proj1 Hal eq_refl e He Ne). destruct (Z.ltb_spec (get r t) (get r e)); destruct (Z.ltb_spec (get r e) np); cbn [andb]; lia.
    + destruct (Z.leb_spec np (get r e)); lia.
    + pose proof (proj1 Hal eq_refl e He Ne). destruct (Z.leb_spec np (get r e)); destruct (Z.ltb_spec (get r e) (get r t)); cbn [andb]; lia.
    + destruct (Z.leb_spec np (get r e)); lia.
  - intros k Hk.
    assert (Other : forall k0, 0 <= k0 <= m -> (alone = true -> k0 <> get r t) ->
                    exists e, (e < n)%nat /\ e <> t /\ get r e = k0).
    { intros k0 Hk0 Hne. destruct (Z.eq_dec k0 (get r t)) as [E|E].
      - destruct alone; [exfalso; apply Hne; [reflexivity|exact E]|].
        destruct (not_alone_witness n r t) as (e & He & Ne & Ee); [intros H; apply Hal in H; discriminate|].
        exists e. repeat split; [exact He|exact Ne|lia].
      - destruct (Sj k0 Hk0) as (e & He & Ee). exists e. repeat split; [exact He| |exact Ee]. intros ->. lia. }
    destruct (Z.ltb_spec (get r t) np) as [Lt|Ge]; destruct alone.
    + (* alone, moved to the right *)
      destruct (Z.eq_dec k (np - 1)) as [->|E].
      * exists t. split; [exact Ht|]. rewrite (add_bucket_get n r t np true) by assumption. cbv zeta.
        destruct (Z.ltb_spec (get r t) np); [|lia]. rewrite Nat.eqb_refl. reflexivity.
      * set (k0 := if k <? get r t then k else if k <? np - 1 then k + 1 else k).
        destruct (Other k0) as (e & He & Ne & Ee).
        { unfold k0. destruct (Z.ltb_spec k (get r t)); destruct (Z.ltb_spec k (np - 1)); lia. }
        { intros _. unfold k0. destruct (Z.ltb_spec k (get r t)); destruct (Z.ltb_spec k (np - 1)); lia. }
        exists e. split; [exact He|]. rewrite (add_bucket_get n r t np true) by assumption. cbv zeta.
        destruct (Z.ltb_spec (get r t) np); [|lia]. destruct (Nat.eqb_spec e t); [contradiction|]. rewrite Ee. unfold k0.
        destruct (Z.ltb_spec k (get r t)); destruct (Z.ltb_spec k (np - 1));
          repeat match goal with |- context [?a <? ?b] => destruct (Z.ltb_spec a b) end; cbn [andb]; lia.
    + (* not alone, moved to the right *)
      destruct (Z.eq_dec k np) as [->|E].
      * exists t. split; [exact Ht|]. rewrite (add_bucket_get n r t np false) by assumption. cbv zeta.
        destruct (Z.ltb_spec (get r t) np); [|lia]. rewrite Nat.eqb_refl. reflexivity.
      * set (k0 := if k <? np then k else k - 1).
        destruct (Other k0) as (e & He & Ne & Ee); [unfold k0; destruct (Z.ltb_spec k np); lia|discriminate|].
        exists e. split; [exact He|]. rewrite (add_bucket_get n r t np false) by assumption. cbv zeta.
        destruct (Z.ltb_spec (get r t) np); [|lia]. destruct (Nat.eqb_spec e t); [contradiction|]. rewrite Ee. unfold k0.
        destruct (Z.ltb_spec k np); repeat match goal with |- context [?a <=? ?b] => destruct (Z.leb_spec a b) end; lia.
    + (* alone, moved to the left *)
      destruct (Z.eq_dec k np) as [->|E].
      * exists t. split; [exact Ht|]. rewrite (add_bucket_get n r t np true) by assumption. cbv zeta.
        destruct (Z.ltb_spec (get r t) np); [lia|]. rewrite Nat.eqb_refl. reflexivity.
      * set (k0 := if k <? np then k else if k <=? get r t then k - 1 else k).
        destruct (Other k0) as (e & He & Ne & Ee).
        { unfold k0. destruct (Z.ltb_spec k np); destruct (Z.leb_spec k (get r t)); lia. }
        { intros _. unfold k0. destruct (Z.ltb_spec k np); destruct (Z.leb_spec k (get r t)); lia. }
        exists e. split; [exact He|]. rewrite (add_bucket_get n r t np true) by assumption. cbv zeta.
        destruct (Z.ltb_spec (get r t) np); [lia|]. destruct (Nat.eqb_spec e t); [contradiction|]. rewrite Ee. unfold k0.
        destruct (Z.ltb_spec k np); destruct (Z.leb_spec k (get r t));
          repeat match goal with |- context [?a <=? ?b] => destruct (Z.leb_spec a b) | |- context [?a <? ?b] => destruct (Z.ltb_spec a b) end; cbn [andb]; lia.
    + (* not alone, moved to the left *)
      destruct (Z.eq_dec k np) as [->|E].
      * exists t. split; [exact Ht|]. rewrite (add_bucket_get n r t np false) by assumption. cbv zeta.
        destruct (Z.ltb_spec (get r t) np); [lia|]. rewrite Nat.eqb_refl. reflexivity.
      * set (k0 := if k <? np then k else k - 1).
        destruct (Other k0) as (e & He & Ne & Ee); [unfold k0; destruct (Z.ltb_spec k np); lia|discriminate|].
        exists e. split; [exact He|]. rewrite (add_bucket_get n r t np false) by assumption. cbv zeta.
        destruct (Z.ltb_spec (get r t) np); [lia|]. destruct (Nat.eqb_spec e t); [contradiction|]. rewrite Ee. unfold k0.
        destruct (Z.ltb_spec k np); repeat match goal with |- context [?a <=? ?b] => destruct (Z.leb_spec a b) end; lia.
Qed.
