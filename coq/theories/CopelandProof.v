(** Property C13. *)
From Corankco Require Import Prelude Scheme Rank KemenySpec CostTable CostTableProof GroupSort Copeland.
Local Open Scope Z_scope.

Lemma geb_total a b : geb a b = true \/ geb b a = true.
Proof. unfold geb. lia. Qed.
Lemma geb_trans a b c : geb a b = true -> geb b c = true -> geb a c = true.
Proof. unfold geb. lia. Qed.

(** the two elements of a pair get complementary outcomes *)
Theorem outcome_antisym K i j : i <> j -> outcome K j i = CompOpp (outcome K i j).
Proof.
  intros H. unfold outcome.
  destruct (Nat.ltb i j) eqn:E1; destruct (Nat.ltb j i) eqn:E2;
    try (apply Nat.ltb_lt in E1); try (apply Nat.ltb_lt in E2);
    try (apply Nat.ltb_ge in E1); try (apply Nat.ltb_ge in E2); try lia.
  - destruct (K i j) as [[b a] t]. rewrite Z.compare_antisym. reflexivity.
  - destruct (K j i) as [[b a] t]. rewrite Z.compare_antisym. reflexivity.
Qed.

Definition mirror (K : table) : Prop :=
  forall i j, let '(b, a, t) := K i j in K j i = (a, b, t).

(** on a mirror-consistent table the outcome is: cheaper to place before than after *)
Theorem outcome_spec K i j :
  mirror K -> i <> j -> outcome K i j = let '(b, a, _) := K i j in Z.compare b a.
Proof.
  intros M H. unfold outcome. destruct (Nat.ltb i j); [reflexivity|].
  specialize (M j i). destruct (K j i) as [[b a] t]. rewrite M. reflexivity.
Qed.

Lemma counts_in_sum K i l :
  let '(v, e, d) := counts_in K i l in
  0 <= v /\ 0 <= e /\ 0 <= d /\ v + e + d = Z.of_nat (length (filter (fun j => negb (Nat.eqb i j)) l)).
Proof.
  induction l as [|j l IH]; simpl; [lia|].
  destruct (counts_in K i l) as [[v e] d].
  destruct (Nat.eqb i j); simpl; [assumption|].
  destruct (outcome K i j); lia.
Qed.

Lemma filter_neq_seq_above i m a :
  (i < a)%nat -> length (filter (fun j => negb (Nat.eqb i j)) (seq a m)) = m.
Proof.
  revert a; induction m as [|m IH]; intros a Ha; [reflexivity|]. simpl.
  destruct (Nat.eqb i a) eqn:E; [apply Nat.eqb_eq in E; lia|]. simpl. rewrite IH by lia. reflexivity.
Qed.

Lemma filter_neq_seq_in i m a :
  (a <= i < a + m)%nat -> length (filter (fun j => negb (Nat.eqb i j)) (seq a m)) = (m - 1)%nat.
Proof.
  revert a; induction m as [|m IH]; intros a Ha; [lia|]. simpl.
  destruct (Nat.eqb i a) eqn:E; simpl.
  - apply Nat.eqb_eq in E. subst a. rewrite filter_neq_seq_above by lia. lia.
  - apply Nat.eqb_neq in E. rewrite IH by lia. lia.
Qed.

Lemma filter_neq_seq i n :
  (i < n)%nat -> length (filter (fun j => negb (Nat.eqb i j)) (seq 0 n)) = (n - 1)%nat.
Proof. intros H. apply filter_neq_seq_in. lia. Qed.

(** counts sum to n-1 per element *)
Theorem counts_sum K n i :
  (i < n)%nat -> let '(v, e, d) := counts K n i in
  0 <= v /\ 0 <= e /\ 0 <= d /\ v + e + d = Z.of_nat n - 1.
Proof.
  intros H. unfold counts. pose proof (counts_in_sum K i (seq 0 n)) as S.
  destruct (counts_in K i (seq 0 n)) as [[v e] d]. rewrite filter_neq_seq in S by assumption. lia.
Qed.

(** points (in half points) that i earns against j *)
Definition pts (K : table) (i j : nat) : Z :=
  if Nat.eqb i j then 0 else match outcome K i j with Lt => 2 | Eq => 1 | Gt => 0 end.

Lemma score2_pts K n i : score2 K n i = zsum (map (pts K i) (seq 0 n)).
Proof.
  unfold score2, counts, zsum. generalize (seq 0 n) as l. induction l as [|j l IH]; [reflexivity|].
  cbn [map counts_in fold_right].
  destruct (counts_in K i l) as [[v e] d]. unfold pts at 1.
  destruct (Nat.eqb i j); [lia|]. destruct (outcome K i j); lia.
Qed.

Lemma pts_pair K i j : i <> j -> pts K i j + pts K j i = 2.
Proof.
  intros H. unfold pts. rewrite (outcome_antisym K i j H).
  destruct (Nat.eqb i j) eqn:E1; [apply Nat.eqb_eq in E1; lia|].
  destruct (Nat.eqb j i) eqn:E2; [apply Nat.eqb_eq in E2; lia|].
  destruct (outcome K i j); reflexivity.
Qed.

Lemma pts_self K i : pts K i i = 0.
Proof. unfold pts. rewrite Nat.eqb_refl. reflexivity. Qed.

Lemma zsum_map_add {A} (f g : A -> Z) l : zsum (map (fun x => f x + g x) l) = zsum (map f l) + zsum (map g l).
Proof. induction l as [|a l IH]; simpl; [reflexivity|]. rewrite IH. lia. Qed.

Lemma double_sum_pairs (f : nat -> nat -> Z) (l : list nat) :
  (forall i, f i i = 0) ->
  zsum (map (fun i => zsum (map (f i) l)) l) =
  zsum (map (fun p => f (fst p) (snd p) + f (snd p) (fst p)) (ordpairs l)).
Proof.
  intros Hd. induction l as [|a l IH]; [reflexivity|].
  cbn [map zsum ordpairs fold_right]. fold (zsum (map (f a) l)).
  change (fold_right Z.add 0 (map (fun i => f i a + fold_right Z.add 0 (map (f i) l)) l))
    with (zsum (map (fun i => f i a + zsum (map (f i) l)) l)).
  change (fold_right Z.add 0 (map (fun p => f (fst p) (snd p) + f (snd p) (fst p)) (map (pair a) l ++ ordpairs l)))
    with (zsum (map (fun p => f (fst p) (snd p) + f (snd p) (fst p)) (map (pair a) l ++ ordpairs l))).
  rewrite map_app, zsum_app, map_map. cbn [fst snd].
  rewrite Hd, <- IH, !zsum_map_add. lia.
Qed.

Lemma ordpairs_length {A} (l : list A) :
  Z.of_nat (length (ordpairs l)) * 2 = Z.of_nat (length l) * (Z.of_nat (length l) - 1).
Proof.
  induction l as [|a l IH]; [reflexivity|]. cbn [ordpairs length]. rewrite app_length, map_length. lia.
Qed.

Lemma zsum_const {A} (l : list A) c : zsum (map (fun _ => c) l) = Z.of_nat (length l) * c.
Proof.
  induction l as [|a l IH]; [reflexivity|]. cbn [map length]. unfold zsum in *. cbn [fold_right].
  rewrite IH. lia.
Qed.

(** scores sum to n(n-1)/2, i.e. n(n-1) half points *)
Theorem scores_sum K n : zsum (map (score2 K n) (seq 0 n)) = Z.of_nat n * (Z.of_nat n - 1).
Proof.
  rewrite (zsum_map_ext _ (fun i => zsum (map (pts K i) (seq 0 n)))) by (intros; apply score2_pts).
  rewrite double_sum_pairs by apply pts_self.
  rewrite (zsum_map_ext _ (fun _ => 2)).
  - pose proof (ordpairs_length (seq 0 n)) as L. rewrite seq_length in L. rewrite <- L.
    apply zsum_const.
  - intros [i j] Hij. apply ordpairs_in in Hij as (_ & _ & Hne). apply pts_pair. apply Hne, seq_NoDup.
Qed.

(** the consensus: a partition of the ids into non-empty buckets, by decreasing score, tied
    exactly on equal scores *)
Theorem copeland_ids_spec K n :
  let r := copeland_ids K n in
  Permutation (concat r) (seq 0 n) /\ Forall (fun b => b <> []) r /\ grouped geb (score2 K n) r.
Proof.
  unfold copeland_ids. split; [apply rank_by_perm|]. split; [apply rank_by_no_empty|].
  apply rank_by_grouped; [apply geb_total|apply geb_trans].
Qed.

Theorem copeland_ids_order K n x y :
  let r := copeland_ids K n in
  (x < n)%nat -> (y < n)%nat ->
  (bucket_id r x < bucket_id r y <-> score2 K n y < score2 K n x) /\
  (bucket_id r x = bucket_id r y <-> score2 K n x = score2 K n y).
Proof.
  intros r Hx Hy. destruct (copeland_ids_spec K n) as (P & _ & G). fold r in P, G.
  assert (Nd : NoDup (concat r)) by (eapply Permutation_NoDup; [symmetry; exact P|apply seq_NoDup]).
  assert (Ix : In x (concat r)) by (eapply Permutation_in; [symmetry; exact P|apply in_seq; lia]).
  assert (Iy : In y (concat r)) by (eapply Permutation_in; [symmetry; exact P|apply in_seq; lia]).
  destruct (grouped_bucket_id Z geb geb_total (score2 K n) r x y Nd G Ix Iy) as [L E].
  unfold klt, keq, kle, geb in L, E. split.
  - rewrite L. lia.
  - rewrite E. lia.
Qed.

(** * At the level of a dataset *)
Theorem copeland_outcome_def s D i j :
  valid s -> let U := universe D in
  (i < length U)%nat -> (j < length U)%nat -> i <> j ->
  outcome (cost_table s D) i j =
  let '(b, a, _) := cost_spec s D (nth i U 0%nat) (nth j U 0%nat) in Z.compare b a.
Proof.
  intros Hv U Hi Hj Hij. unfold outcome.
  destruct Hv as [Hn Hr]. pose proof Hr as (_ & _ & _ & H01 & _ & H34).
  destruct (Nat.ltb i j).
  - rewrite cost_table_spec by (try split; assumption). reflexivity.
  - rewrite cost_table_spec by (try split; auto).
    pose proof (cost_spec_mirror s D (nth j U 0%nat) (nth i U 0%nat) H01 H34) as M. fold U.
    destruct (cost_spec s D (nth j U 0%nat) (nth i U 0%nat)) as [[b a] t]. rewrite M. reflexivity.
Qed.

Lemma decode_concat U r : concat (decode U r) = map (fun i => nth i U 0%nat) (concat r).
Proof. unfold decode. rewrite concat_map. reflexivity. Qed.

Lemma map_nth_seq (U : list nat) : map (fun i => nth i U 0%nat) (seq 0 (length U)) = U.
Proof.
  apply nth_ext with (d := 0%nat) (d' := 0%nat); [rewrite map_length, seq_length; reflexivity|].
  intros k Hk. rewrite map_length, seq_length in Hk.
  rewrite (nth_indep _ 0%nat (nth 0%nat U 0%nat)) by (rewrite map_length, seq_length; assumption).
  rewrite (map_nth (fun i => nth i U 0%nat) (seq 0 (length U)) 0%nat). rewrite seq_nth by assumption. reflexivity.
Qed.

(** Copeland's consensus is a ranking of exactly the universe, without empty buckets *)
Theorem copeland_wf s D :
  Permutation (elems (copeland s D)) (universe D) /\ Forall (fun b => b <> []) (copeland s D).
Proof.
  unfold copeland, elems. set (U := universe D). set (K := cost_table s D).
  destruct (copeland_ids_spec K (length U)) as (P & Ne & _). split.
  - rewrite decode_concat. rewrite <- (map_nth_seq U) at 2. apply Permutation_map. exact P.
  - unfold decode. rewrite Forall_map. eapply Forall_impl; [|exact Ne].
    intros b Hb E. apply map_eq_nil in E. contradiction.
Qed.
