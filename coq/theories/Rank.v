(** Rankings with ties over [nat] elements, datasets, positions, bucket ids, pair status. *)
From Corankco Require Import Prelude Scheme.
Local Open Scope Z_scope.

Definition ranking := list (list nat).
Definition dataset := list ranking.

Definition mem (x : nat) (b : list nat) : bool := existsb (Nat.eqb x) b.

Lemma mem_In x b : mem x b = true <-> In x b.
Proof.
  unfold mem. rewrite existsb_exists. split.
  - intros (y & Hy & E). apply Nat.eqb_eq in E. subst; assumption.
  - intros H. exists x. split; [assumption|apply Nat.eqb_refl].
Qed.

Lemma mem_false x b : mem x b = false <-> ~ In x b.
Proof. rewrite <- mem_In. destruct (mem x b); split; congruence. Qed.

(** [ranking.positions[x] - 1] : number of elements in strictly earlier buckets, [-1] if unranked *)
Fixpoint pos_from (k : Z) (r : ranking) (x : nat) : Z :=
  match r with
  | [] => -1
  | b :: r' => if mem x b then k else pos_from (k + Z.of_nat (length b)) r' x
  end.
Definition position (r : ranking) (x : nat) : Z := pos_from 0 r x.

(** index of the bucket, [-1] if unranked *)
Fixpoint bid_from (k : Z) (r : ranking) (x : nat) : Z :=
  match r with
  | [] => -1
  | b :: r' => if mem x b then k else bid_from (k + 1) r' x
  end.
Definition bucket_id (r : ranking) (x : nat) : Z := bid_from 0 r x.

(** the six-way status of an ordered pair, from two positions (or two bucket ids) *)
Definition stat (p1 p2 : Z) : nat :=
  if negb (p1 =? -1) && negb (p2 =? -1) then
    (if p1 <? p2 then 0%nat else if p2 <? p1 then 1%nat else 2%nat)
  else if negb (p1 =? -1) then 3%nat
  else if negb (p2 =? -1) then 4%nat
  else 5%nat.

Definition status (r : ranking) (x y : nat) : nat := stat (bucket_id r x) (bucket_id r y).

Definition elems (r : ranking) : list nat := concat r.
Definition wf_ranking (r : ranking) : Prop := NoDup (elems r).
Definition ranked (r : ranking) (x : nat) : Prop := In x (elems r).

(** all pairs (x, y) with x listed before y *)
Fixpoint ordpairs {A} (l : list A) : list (A * A) :=
  match l with
  | [] => []
  | x :: l' => map (pair x) l' ++ ordpairs l'
  end.

(** first-appearance order of the elements of a dataset = id order of [Dataset] *)
Fixpoint nodup_keep (seen : list nat) (l : list nat) : list nat :=
  match l with
  | [] => []
  | x :: l' => if mem x seen then nodup_keep seen l' else x :: nodup_keep (x :: seen) l'
  end.
Definition universe (D : dataset) : list nat := nodup_keep [] (concat (map elems D)).

Definition positions (U : list nat) (D : dataset) : list (list Z) :=
  map (fun x => map (fun r => position r x) D) U.
Definition bucket_ids (U : list nat) (D : dataset) : list (list Z) :=
  map (fun x => map (fun r => bucket_id r x) D) U.

(** index of an element in the id order *)
Fixpoint index_of (x : nat) (U : list nat) : option nat :=
  match U with
  | [] => None
  | y :: U' => if Nat.eqb x y then Some 0%nat else option_map S (index_of x U')
  end.

(** set-equality of buckets / rankings as compared by the judges *)
Definition bucket_eqb (a b : list nat) : bool :=
  Nat.eqb (length a) (length b) && forallb (fun x => mem x b) a && forallb (fun x => mem x a) b.
Definition ranking_eqb (r1 r2 : ranking) : bool := list_eqb bucket_eqb r1 r2.

(** * basic facts *)
Lemma pos_from_range k r x : 0 <= k -> pos_from k r x = -1 \/ k <= pos_from k r x.
Proof.
  revert k; induction r as [|b r IH]; intros k Hk; simpl; [auto|].
  destruct (mem x b); [right; lia|].
  destruct (IH (k + Z.of_nat (length b))) as [E|E]; [lia|auto|right; lia].
Qed.

Lemma bid_from_range k r x : 0 <= k -> bid_from k r x = -1 \/ k <= bid_from k r x.
Proof.
  revert k; induction r as [|b r IH]; intros k Hk; simpl; [auto|].
  destruct (mem x b); [right; lia|].
  destruct (IH (k + 1)) as [E|E]; [lia|auto|right; lia].
Qed.

Lemma pos_from_unranked k r x : 0 <= k -> (pos_from k r x = -1 <-> ~ In x (concat r)).
Proof.
  revert k; induction r as [|b r IH]; intros k Hk; simpl; [tauto|].
  rewrite in_app_iff. destruct (mem x b) eqn:E.
  - apply mem_In in E. split; [lia|tauto].
  - apply mem_false in E. rewrite IH by lia. tauto.
Qed.

Lemma bid_from_unranked k r x : 0 <= k -> (bid_from k r x = -1 <-> ~ In x (concat r)).
Proof.
  revert k; induction r as [|b r IH]; intros k Hk; simpl; [tauto|].
  rewrite in_app_iff. destruct (mem x b) eqn:E.
  - apply mem_In in E. split; [lia|tauto].
  - apply mem_false in E. rewrite IH by lia. tauto.
Qed.

Lemma position_unranked r x : position r x = -1 <-> ~ ranked r x.
Proof. apply pos_from_unranked; lia. Qed.
Lemma bucket_id_unranked r x : bucket_id r x = -1 <-> ~ ranked r x.
Proof. apply bid_from_unranked; lia. Qed.

(** positions and bucket ids induce the same status: the order comparisons agree *)
Lemma stat_pos_bid k k' r x y :
  0 <= k -> 0 <= k' ->
  stat (pos_from k r x) (pos_from k r y) = stat (bid_from k' r x) (bid_from k' r y).
Proof.
  revert k k'; induction r as [|b r IH]; intros k k' Hk Hk'; simpl; [reflexivity|].
  destruct (mem x b) eqn:Ex; destruct (mem y b) eqn:Ey.
  - unfold stat. replace (k =? -1) with false by lia. replace (k' =? -1) with false by lia.
    simpl. rewrite !Z.ltb_irrefl. reflexivity.
  - assert (Hb : (0 < length b)%nat).
    { apply mem_In in Ex. destruct b; [destruct Ex|simpl; lia]. }
    pose proof (pos_from_range (k + Z.of_nat (length b)) r y ltac:(lia)) as [P|P];
    pose proof (bid_from_range (k' + 1) r y ltac:(lia)) as [Q|Q].
    + rewrite P, Q. unfold stat. replace (k =? -1) with false by lia. replace (k' =? -1) with false by lia. reflexivity.
    + exfalso. apply pos_from_unranked in P; [|lia].
      assert (bid_from (k' + 1) r y = -1) by (apply bid_from_unranked; [lia|assumption]). lia.
    + exfalso. apply bid_from_unranked in Q; [|lia].
      assert (pos_from (k + Z.of_nat (length b)) r y = -1) by (apply pos_from_unranked; [lia|assumption]). lia.
    + unfold stat.
      replace (k =? -1) with false by lia. replace (k' =? -1) with false by lia.
      replace (pos_from (k + Z.of_nat (length b)) r y =? -1) with false by lia.
      replace (bid_from (k' + 1) r y =? -1) with false by lia. simpl.
      replace (k <? pos_from (k + Z.of_nat (length b)) r y) with true by lia.
      replace (k' <? bid_from (k' + 1) r y) with true by lia. reflexivity.
  - assert (Hb : (0 < length b)%nat).
    { apply mem_In in Ey. destruct b; [destruct Ey|simpl; lia]. }
    pose proof (pos_from_range (k + Z.of_nat (length b)) r x ltac:(lia)) as [P|P];
    pose proof (bid_from_range (k' + 1) r x ltac:(lia)) as [Q|Q].
    + rewrite P, Q. unfold stat. replace (k =? -1) with false by lia. replace (k' =? -1) with false by lia. reflexivity.
    + exfalso. apply pos_from_unranked in P; [|lia].
      assert (bid_from (k' + 1) r x = -1) by (apply bid_from_unranked; [lia|assumption]). lia.
    + exfalso. apply bid_from_unranked in Q; [|lia].
      assert (pos_from (k + Z.of_nat (length b)) r x = -1) by (apply pos_from_unranked; [lia|assumption]). lia.
    + unfold stat.
      replace (k =? -1) with false by lia. replace (k' =? -1) with false by lia.
      replace (pos_from (k + Z.of_nat (length b)) r x =? -1) with false by lia.
      replace (bid_from (k' + 1) r x =? -1) with false by lia. simpl.
      replace (pos_from (k + Z.of_nat (length b)) r x <? k) with false by lia.
      replace (bid_from (k' + 1) r x <? k') with false by lia.
      replace (k <? pos_from (k + Z.of_nat (length b)) r x) with true by lia.
      replace (k' <? bid_from (k' + 1) r x) with true by lia. reflexivity.
  - apply IH; lia.
Qed.

Lemma stat_position_bucket_id r x y :
  stat (position r x) (position r y) = status r x y.
Proof. apply stat_pos_bid; lia. Qed.

Lemma stat_swap p q :
  stat q p = match stat p q with 0 => 1 | 1 => 0 | 3 => 4 | 4 => 3 | n => n end%nat.
Proof.
  unfold stat. destruct (p =? -1) eqn:E1; destruct (q =? -1) eqn:E2; simpl; try reflexivity.
  destruct (p <? q) eqn:E3; destruct (q <? p) eqn:E4; try reflexivity; lia.
Qed.

Lemma stat_range p q : (stat p q < 6)%nat.
Proof.
  unfold stat. destruct (negb (p =? -1) && negb (q =? -1)).
  - destruct (p <? q); [lia|]. destruct (q <? p); lia.
  - destruct (negb (p =? -1)); [lia|]. destruct (negb (q =? -1)); lia.
Qed.

(** * the universe *)
Lemma nodup_keep_in seen l x : In x (nodup_keep seen l) <-> In x l /\ ~ In x seen.
Proof.
  revert seen; induction l as [|a l IH]; intros seen; simpl; [tauto|].
  destruct (mem a seen) eqn:E.
  - apply mem_In in E. rewrite IH. split; [tauto|]. intros [[<-|H] Hn]; [contradiction|tauto].
  - apply mem_false in E. simpl. rewrite IH. simpl. split.
    + intros [<-|[H1 H2]]; [tauto|]. tauto.
    + intros [[<-|H] Hn]; [tauto|]. destruct (Nat.eq_dec a x) as [<-|Ne]; [tauto|]. right. tauto.
Qed.

Lemma nodup_keep_NoDup seen l : NoDup (nodup_keep seen l).
Proof.
  revert seen; induction l as [|a l IH]; intros seen; simpl; [constructor|].
  destruct (mem a seen) eqn:E; [apply IH|].
  constructor; [|apply IH]. rewrite nodup_keep_in. simpl. tauto.
Qed.

Lemma universe_NoDup D : NoDup (universe D).
Proof. apply nodup_keep_NoDup. Qed.

Lemma universe_in D x : In x (universe D) <-> exists r, In r D /\ ranked r x.
Proof.
  unfold universe. rewrite nodup_keep_in, in_concat. split.
  - intros [(l & Hl & Hx) _]. apply in_map_iff in Hl as (r & <- & Hr). eauto.
  - intros (r & Hr & Hx). split; [|tauto]. exists (elems r). split; [apply in_map; assumption|assumption].
Qed.
