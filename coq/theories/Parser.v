(** Model of corankco/utils.py (parse_ranking_with_ties, file reader/writer at the level of text)
    and of Ranking.from_string / str(Ranking).  Strings are lists of ASCII characters; Python's
    [find] / [rfind] / slices are reproduced with their clamping of negative and large indices. *)
From Corankco Require Import Prelude.
From Coq Require Import Ascii String.
Local Open Scope Z_scope.

Definition str := list ascii.
Definition len (s : str) : Z := Z.of_nat (List.length s).

(** ASCII whitespace of [str.strip()] *)
Definition is_ws (c : ascii) : bool :=
  let n := nat_of_ascii c in
  ((9 <=? n) && (n <=? 13))%nat || ((28 <=? n) && (n <=? 32))%nat.

Fixpoint lstrip (s : str) : str :=
  match s with c :: t => if is_ws c then lstrip t else s | [] => [] end.
Definition strip (s : str) : str := rev (lstrip (rev (lstrip s))).

(** Python slice s[a:b] *)
Definition norm (i n : Z) : Z := if i <? 0 then Z.max (i + n) 0 else Z.min i n.
Definition slice (s : str) (a b : Z) : str :=
  let n := len s in let a' := norm a n in let b' := norm b n in
  if b' <=? a' then [] else firstn (Z.to_nat (b' - a')) (skipn (Z.to_nat a') s).

(** s.find(c, start, end) for a single character *)
Fixpoint find_aux (c : ascii) (s : str) (i : Z) (stop : Z) : Z :=
  match s with
  | [] => -1
  | a :: t => if stop <=? i then -1 else if Ascii.eqb a c then i else find_aux c t (i + 1) stop
  end.
Definition find (c : ascii) (s : str) (start stop : Z) : Z :=
  let n := len s in let a := norm start n in let b := norm stop n in
  find_aux c (skipn (Z.to_nat a) s) a b.
Definition find0 c s := find c s 0 (len s).
Definition find1 c s start := find c s start (len s).

Fixpoint rfind_aux (c : ascii) (s : str) (i : Z) (best : Z) : Z :=
  match s with [] => best | a :: t => rfind_aux c t (i + 1) (if Ascii.eqb a c then i else best) end.
Definition rfind c s := rfind_aux c s 0 (-1).

Fixpoint split_on (c : ascii) (s : str) (cur : str) : list str :=
  match s with
  | [] => [rev cur]
  | a :: t => if Ascii.eqb a c then rev cur :: split_on c t [] else split_on c t (a :: cur)
  end.

Definition replace_c (x y : ascii) (s : str) : str := map (fun a => if Ascii.eqb a x then y else a) s.

Definition str_eqb (a b : str) : bool := list_eqb Ascii.eqb a b.

Definition ends_with (suf s : str) : bool :=
  let n := List.length s in let m := List.length suf in
  if (n <? m)%nat then false else str_eqb (skipn (n - m) s) suf.

Inductive outcome (A : Type) := POk (b : A) | PValueError | PHang.
Arguments POk {A} b.
Arguments PValueError {A}.
Arguments PHang {A}.

(** one bucket: [for str_bucket in chunk.split(","): elt = strip; if elt == "": raise] *)
Definition parse_bucket (chunk : str) : option (list str) :=
  fold_right (fun piece acc =>
     match acc with None => None | Some l =>
       let e := strip piece in match e with [] => None | _ => Some (e :: l) end end)
     (Some []) (split_on ","%char chunk []).

(** the while loop; the empty-element error is raised as soon as it is met, as in the code *)
Fixpoint loop (fuel : nat) (s : str) (rend st en old_en : Z) (acc : list (list str)) : outcome (list (list str)) :=
  if (st =? -1) || (en =? -1) then
    if negb (st =? en) then PValueError
    else match slice s (old_en + 1) rend with [] => POk (rev acc) | _ => PValueError end
  else
  match fuel with
  | O => PHang
  | S f =>
    match parse_bucket (slice s (st + 1) en) with
    | None => PValueError
    | Some b =>
      let st' := find "["%char s (en + 1) rend in
      let en' := find "]"%char s (Z.max (en + 1) (st' + 1)) rend in
      loop f s rend st' en' en (b :: acc)
    end
  end.

Definition prepare (raw : str) : str :=
  let s := strip (last (split_on ":"%char (strip raw) []) []) in
  replace_c "}"%char "]"%char (replace_c "{"%char "["%char s).

Definition parse (raw : str) : outcome (list (list str)) :=
  let s := prepare raw in
  let inner := slice s (find0 "["%char s + 1) (rfind "]"%char s) in
  match strip inner with
  | [] => POk []
  | _ =>
    if ends_with (list_ascii_of_string "[[]]") s then POk [] else
    let st := find1 "["%char s (find0 "["%char s + 1) in
    let en := find0 "]"%char s in
    let rend := rfind "]"%char s in
    match skipn (Z.to_nat (rend + 1)) s with
    | _ :: _ => PValueError
    | [] => loop (S (List.length s)) s rend st en en []
    end
  end.

(** * Ranking.from_string *)
Inductive name := NInt (z : Z) | NStr (s : str).

Definition is_digit (c : ascii) : bool := let n := nat_of_ascii c in ((48 <=? n) && (n <=? 57))%nat.
Definition isdigit (s : str) : bool := match s with [] => false | _ => forallb is_digit s end.
Definition int_of (s : str) : Z :=
  fold_left (fun acc c => acc * 10 + Z.of_nat (nat_of_ascii c - 48)) s 0.

Definition name_eqb (a b : name) : bool :=
  match a, b with
  | NInt x, NInt y => x =? y
  | NStr x, NStr y => str_eqb x y
  | _, _ => false
  end.
Definition nmem (x : name) (l : list name) : bool := existsb (name_eqb x) l.
Fixpoint ndedup (l : list name) : list name :=
  match l with [] => [] | x :: l' => if nmem x l' then ndedup l' else x :: ndedup l' end.

(** buckets are Python sets: duplicates inside a bucket collapse; an element in two buckets is an error *)
Fixpoint disjoint_buckets (seen : list name) (bs : list (list name)) : bool :=
  match bs with
  | [] => true
  | b :: bs' => forallb (fun x => negb (nmem x seen)) b && disjoint_buckets (b ++ seen) bs'
  end.

Definition from_string (raw : str) : outcome (list (list name)) :=
  match parse raw with
  | PValueError => PValueError
  | PHang => PHang
  | POk bs =>
      let all_ints := forallb (fun b => forallb isdigit b) bs in
      let named := map (fun b => ndedup (map (fun e => if all_ints then NInt (int_of e) else NStr e) b)) bs in
      if disjoint_buckets [] named then POk named else PValueError
  end.

(** * str(Ranking): [{a, b}, {c}] ; an empty bucket prints as set() *)
Fixpoint digits_fuel (fuel : nat) (z : Z) (acc : str) : str :=
  match fuel with
  | O => acc
  | S f => let d := ascii_of_nat (48 + Z.to_nat (z mod 10)) in
           if z <? 10 then d :: acc else digits_fuel f (z / 10) (d :: acc)
  end.
Definition render_int (z : Z) : str :=
  if z <? 0 then "-"%char :: digits_fuel (S (Z.to_nat (Z.log2 (- z)))) (- z) []
  else digits_fuel (S (Z.to_nat (Z.log2 z))) z [].
Definition render_name (x : name) : str := match x with NInt z => render_int z | NStr s => s end.

Fixpoint join (sep : str) (l : list str) : str :=
  match l with [] => [] | [x] => x | x :: l' => x ++ sep ++ join sep l' end.
Definition render_bucket (opn cls : ascii) (b : list name) : str :=
  match b with
  | [] => list_ascii_of_string "set()"
  | _ => opn :: join (list_ascii_of_string ", ") (map render_name b) ++ [cls]
  end.
Definition render (opn cls : ascii) (r : list (list name)) : str :=
  "["%char :: join (list_ascii_of_string ", ") (map (render_bucket opn cls) r) ++ ["]"%char].

(** * file level: the text written for a dataset and what the reader keeps of a text *)
Definition nl : ascii := ascii_of_nat 10.
Definition write_text (d : list (list (list name))) : str :=
  List.concat (map (fun r => render "{"%char "}"%char r ++ [nl]) d).

(** [lines.read().replace("\\\n", "")] then split on newlines, keep lines of length > 2 (or the
    literal "[]", after the repair of F13) that do not start with '%' *)
Fixpoint drop_bs_nl (s : str) : str :=
  match s with
  | a :: ((b :: t) as t') =>
      if Ascii.eqb a "\"%char && Ascii.eqb b nl then drop_bs_nl t else a :: drop_bs_nl t'
  | _ => s
  end.
Definition keep_line (l : str) : bool :=
  ((2 <? len l) || str_eqb l (list_ascii_of_string "[]"))
  && match l with c :: _ => negb (Ascii.eqb c "%"%char) | [] => true end.
Definition file_lines (text : str) : list str := filter keep_line (split_on nl (drop_bs_nl text) []).

(** Python's [int(text)] on ASCII text: optional sign, digits with single underscores between them *)
Fixpoint digits_us (s : str) (acc : Z) (prev_digit : bool) : option Z :=
  match s with
  | [] => if prev_digit then Some acc else None
  | c :: t =>
      if is_digit c then digits_us t (acc * 10 + Z.of_nat (nat_of_ascii c - 48)) true
      else if Ascii.eqb c "_"%char && prev_digit then
        match t with d :: _ => if is_digit d then digits_us t acc false else None | [] => None end
      else None
  end.
Definition py_int (raw : str) : option Z :=
  match strip raw with
  | [] => None
  | c :: t =>
      if Ascii.eqb c "-"%char then option_map Z.opp (digits_us t 0 false)
      else if Ascii.eqb c "+"%char then digits_us t 0 false
      else digits_us (c :: t) 0 false
  end.

Fixpoint all_some {A} (l : list (option A)) : option (list A) :=
  match l with
  | [] => Some []
  | Some a :: l' => option_map (cons a) (all_some l')
  | None :: _ => None
  end.

Fixpoint parse_lines (ls : list str) : outcome (list (list (list str))) :=
  match ls with
  | [] => POk []
  | l :: ls' =>
      match parse l with
      | POk r => match parse_lines ls' with POk rs => POk (r :: rs) | e => e end
      | PValueError => PValueError
      | PHang => PHang
      end
  end.

(** [get_rankings_from_file] followed by [Dataset(...)]: integers first (any line failing makes every
    line be re-read as strings), then the dataset-level homogenisation (all digit strings -> integers).
    An element in two buckets of a ranking is refused by the [Ranking] constructor. *)
Definition read_text (text : str) : outcome (list (list (list name))) :=
  match parse_lines (file_lines text) with
  | PValueError => PValueError
  | PHang => PHang
  | POk rs =>
      let ints := all_some (map (fun r => all_some (map (fun b => all_some (map py_int b)) r)) rs) in
      let named :=
        match ints with
        | Some irs => map (map (fun b => ndedup (map NInt b))) irs
        | None =>
            let alld := forallb (fun r => forallb (fun b => forallb isdigit b) r) rs in
            map (map (fun b => ndedup (map (fun e => if alld then NInt (int_of e) else NStr e) b))) rs
        end in
      if forallb (disjoint_buckets []) named then POk named else PValueError
  end.
