(** Property C02: the cost table is the definition, is mirror-consistent, does not depend on
    positions vs bucket ids, and sums to the Kemeny score. *)
From Corankco Require Import Prelude Scheme Rank KemenySpec CostTable.
Local Open Scope Z_scope.

Lemma Bv_unfold s : Bv s 0 = b0 s /\ Bv s 1 = b1 s /\ Bv s 2 = b2 s /\ Bv s 3 = b3 s /\ Bv s 4 = b4 s /\ Bv s 5 = b5 s.
Proof. repeat split. Qed.
Lemma Tv_unfold s : Tv s 0 = t0 s /\ Tv s 1 = t1 s /\ Tv s 2 = t2 s /\ Tv s 3 = t3 s /\ Tv s 4 = t4 s /\ Tv s 5 = t5 s.
Proof. repeat split. Qed.

Lemma step6_spec s a b c p1 p2 :
  step6 s (a, b, c) p1 p2 = (a + Bv s (stat p1 p2), b + Bv s (stat p2 p1), c + Tv s (stat p1 p2)).
Proof.
  unfold step6, stat.
  destruct (p1 =? -1) eqn:E1; destruct (p2 =? -1) eqn:E2; simpl; try reflexivity.
  destruct (p1 <? p2) eqn:E3; destruct (p2 <? p1) eqn:E4; try reflexivity; lia.
Qed.

Fixpoint zip {A B} (l1 : list A) (l2 : list B) : list (A * B) :=
  match l1, l2 with
  | a :: l1', b :: l2' => (a, b) :: zip l1' l2'
  | _, _ => []
  end.

Lemma acc_pair_spec s l1 l2 a b c :
  acc_pair s l1 l2 (a, b, c) =
  (a + zsum (map (fun p => Bv s (stat (fst p) (snd p))) (zip l1 l2)),
   b + zsum (map (fun p => Bv s (stat (snd p) (fst p))) (zip l1 l2)),
   c + zsum (map (fun p => Tv s (stat (fst p) (snd p))) (zip l1 l2))).
Proof.
  revert l2 a b c; induction l1 as [|p1 l1 IH]; intros [|p2 l2] a b c;
    try (simpl; f_equal; [f_equal|]; lia).
  cbn [acc_pair]. rewrite step6_spec, IH. simpl. f_equal; [f_equal|]; lia.
Qed.

Lemma zip_map {A B C} (f : C -> A) (g : C -> B) l : zip (map f l) (map g l) = map (fun x => (f x, g x)) l.
Proof. induction l; simpl; congruence. Qed.

(** T is symmetric under swapping the pair, for valid schemes *)
Lemma Tv_stat_swap s p q : t0 s = t1 s -> t3 s = t4 s -> Tv s (stat q p) = Tv s (stat p q).
Proof.
  intros H01 H34. rewrite stat_swap. pose proof (stat_range p q) as R.
  destruct (stat p q) as [|[|[|[|[|[|n]]]]]]; try reflexivity; try lia; unfold Tv, Tl; simpl; congruence.
Qed.

Lemma nth_positions U D i :
  (i < length U)%nat -> nth i (positions U D) [] = map (fun r => position r (nth i U 0%nat)) D.
Proof.
  intros H. unfold positions.
  rewrite (nth_indep _ [] (map (fun r => position r 0%nat) D)) by (rewrite map_length; assumption).
  rewrite (map_nth (fun x => map (fun r => position r x) D) U 0%nat). reflexivity.
Qed.

Lemma nth_bucket_ids U D i :
  (i < length U)%nat -> nth i (bucket_ids U D) [] = map (fun r => bucket_id r (nth i U 0%nat)) D.
Proof.
  intros H. unfold bucket_ids.
  rewrite (nth_indep _ [] (map (fun r => bucket_id r 0%nat) D)) by (rewrite map_length; assumption).
  rewrite (map_nth (fun x => map (fun r => bucket_id r x) D) U 0%nat). reflexivity.
Qed.

Lemma stat_bid_self r x y : stat (bucket_id r x) (bucket_id r y) = status r x y.
Proof. reflexivity. Qed.

(** every entry of the matrix, for two distinct ids, is the definition *)
Theorem entry_positions_spec s U D i j :
  t0 s = t1 s -> t3 s = t4 s ->
  (i < length U)%nat -> (j < length U)%nat -> i <> j ->
  entry s (positions U D) i j = cost_spec s D (nth i U 0%nat) (nth j U 0%nat).
Proof.
  intros H01 H34 Hi Hj Hij. unfold entry, cost_spec.
  destruct (Nat.ltb i j) eqn:E1.
  - rewrite !nth_positions by assumption. rewrite acc_pair_spec, zip_map, !map_map. simpl.
    f_equal; [f_equal|]; apply zsum_map_ext; intros r _; rewrite stat_position_bucket_id; reflexivity.
  - destruct (Nat.ltb j i) eqn:E2; [|apply Nat.ltb_ge in E1, E2; lia].
    rewrite !nth_positions by assumption. rewrite acc_pair_spec, zip_map, !map_map. simpl.
    f_equal; [f_equal|]; apply zsum_map_ext; intros r _.
    + rewrite stat_position_bucket_id; reflexivity.
    + rewrite stat_position_bucket_id; reflexivity.
    + rewrite Tv_stat_swap by assumption. rewrite stat_position_bucket_id; reflexivity.
Qed.

(** same table whether built from positions or from bucket ids *)
Lemma acc_pair_pos_bid s D x y acc :
  acc_pair s (map (fun r => position r x) D) (map (fun r => position r y) D) acc =
  acc_pair s (map (fun r => bucket_id r x) D) (map (fun r => bucket_id r y) D) acc.
Proof.
  revert acc; induction D as [|r D IH]; intros [[a b] c]; [reflexivity|].
  cbn [map acc_pair]. rewrite !step6_spec, !stat_position_bucket_id. apply IH.
Qed.

Theorem entry_positions_bucket_ids s U D i j :
  (i < length U)%nat -> (j < length U)%nat ->
  entry s (positions U D) i j = entry s (bucket_ids U D) i j.
Proof.
  intros Hi Hj. unfold entry.
  rewrite !nth_positions, !nth_bucket_ids by assumption. rewrite !acc_pair_pos_bid. reflexivity.
Qed.

(** mirror consistency of the model's matrix (any scheme, any position matrix) *)
Theorem entry_mirror s P i j :
  let '(b, a, t) := entry s P i j in entry s P j i = (a, b, t).
Proof.
  unfold entry. destruct (Nat.ltb i j) eqn:E1; destruct (Nat.ltb j i) eqn:E2.
  - apply Nat.ltb_lt in E1, E2. lia.
  - destruct (acc_pair s (nth i P []) (nth j P []) (0, 0, 0)) as [[a b] c]. reflexivity.
  - destruct (acc_pair s (nth j P []) (nth i P []) (0, 0, 0)) as [[a b] c]. reflexivity.
  - reflexivity.
Qed.

Lemma cost_spec_mirror s D x y :
  t0 s = t1 s -> t3 s = t4 s ->
  let '(b, a, t) := cost_spec s D x y in cost_spec s D y x = (a, b, t).
Proof.
  intros H01 H34. unfold cost_spec. f_equal. apply zsum_map_ext. intros r _.
  unfold status. apply Tv_stat_swap; assumption.
Qed.

(** reading the matrix *)
Lemma table_of_cost_matrix s P i j :
  (i < length P)%nat -> (j < length P)%nat -> table_of (cost_matrix s P) i j = entry s P i j.
Proof.
  intros Hi Hj. unfold table_of, cost_matrix.
  rewrite (nth_indep _ [] (map (fun j => entry s P 0 j) (seq 0 (length P))))
    by (rewrite map_length, seq_length; assumption).
  rewrite (map_nth (fun i => map (fun j => entry s P i j) (seq 0 (length P))) (seq 0 (length P)) 0%nat).
  rewrite seq_nth by assumption. simpl.
  rewrite (nth_indep _ (0, 0, 0) (entry s P i 0)) by (rewrite map_length, seq_length; assumption).
  rewrite (map_nth (fun j => entry s P i j) (seq 0 (length P)) 0%nat).
  rewrite seq_nth by assumption. reflexivity.
Qed.

(** the full statement over the table the algorithms receive: ids are positions in [universe D] *)
Theorem cost_table_spec s D i j :
  valid s -> let U := universe D in
  (i < length U)%nat -> (j < length U)%nat -> i <> j ->
  cost_table s D i j = cost_spec s D (nth i U 0%nat) (nth j U 0%nat).
Proof.
  intros [_ (_ & _ & _ & H01 & _ & H34)] U Hi Hj Hij. unfold cost_table.
  rewrite table_of_cost_matrix by (unfold positions; rewrite map_length; assumption).
  apply entry_positions_spec; assumption.
Qed.

Theorem cost_table_diag s D i : cost_table s D i i = (0, 0, 0).
Proof.
  unfold cost_table. set (P := positions (universe D) D).
  destruct (Nat.lt_ge_cases i (length P)) as [H|H].
  - rewrite table_of_cost_matrix by assumption. unfold entry. rewrite Nat.ltb_irrefl. reflexivity.
  - unfold table_of, cost_matrix. rewrite (nth_overflow _ [] ) by (rewrite map_length, seq_length; assumption).
    destruct i; reflexivity.
Qed.

(** * The selected entries add up to the Kemeny score *)
Definition table_on (U : list nat) (K : table) : table := fun x y =>
  match index_of x U, index_of y U with
  | Some i, Some j => K i j
  | _, _ => (0, 0, 0)
  end.

Lemma index_of_some x U i : index_of x U = Some i -> (i < length U)%nat /\ nth i U 0%nat = x.
Proof.
  revert i; induction U as [|y U IH]; intros i; simpl; [discriminate|].
  destruct (Nat.eqb x y) eqn:E.
  - intros H; inversion H; subst. apply Nat.eqb_eq in E. split; [lia|auto].
  - destruct (index_of x U) as [k|]; [|discriminate]. intros H; inversion H; subst.
    destruct (IH k eq_refl) as [H1 H2]. split; [lia|assumption].
Qed.

Lemma index_of_in x U : In x U -> exists i, index_of x U = Some i.
Proof.
  induction U as [|y U IH]; simpl; [tauto|]. intros H.
  destruct (Nat.eqb x y) eqn:E; [eauto|].
  apply Nat.eqb_neq in E. destruct H as [H|H]; [congruence|].
  destruct (IH H) as [i Hi]. rewrite Hi. simpl. eauto.
Qed.

Lemma ordpairs_in {A} (l : list A) x y :
  In (x, y) (ordpairs l) -> In x l /\ In y l /\ (NoDup l -> x <> y).
Proof.
  induction l as [|a l IH]; simpl; [tauto|]. rewrite in_app_iff, in_map_iff.
  intros [(z & E & Hz)|H].
  - inversion E; subst. repeat split; auto. intros N; inversion N; subst. congruence.
  - destruct (IH H) as (H1 & H2 & H3). repeat split; auto. intros N; inversion N; auto.
Qed.

Theorem cost_table_sums_to_kemeny s D c :
  valid s -> wf_ranking c -> incl (elems c) (universe D) ->
  score (table_on (universe D) (cost_table s D)) c = kemeny_spec s D c.
Proof.
  intros Hv Hc Hin. rewrite <- score_cost_spec. unfold score.
  apply zsum_map_ext. intros [x y] Hxy. simpl.
  apply ordpairs_in in Hxy as (Hx & Hy & Hne). specialize (Hne Hc).
  unfold pick, table_on.
  destruct (index_of_in x _ (Hin x Hx)) as [i Hi]. destruct (index_of_in y _ (Hin y Hy)) as [j Hj].
  rewrite Hi, Hj. apply index_of_some in Hi as [Li Ni]. apply index_of_some in Hj as [Lj Nj].
  rewrite cost_table_spec by (try assumption; congruence). rewrite Ni, Nj. reflexivity.
Qed.

(** * Homogeneity of the Kemeny score in the scheme (used by C19) *)
Theorem kemeny_spec_homogeneous s s' k D c :
  (forall i, Bv s' i * ONE = Bv s i * k) -> (forall i, Tv s' i * ONE = Tv s i * k) ->
  kemeny_spec s' D c * ONE = kemeny_spec s D c * k.
Proof.
  intros HB HT. unfold kemeny_spec. apply zsum_map_scale. intros r _.
  unfold kemeny_one. apply zsum_map_scale. intros [x y] _. unfold placement_pen. simpl.
  destruct (_ ?= _); auto.
Qed.
