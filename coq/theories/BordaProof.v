(** Property C12. *)
From Corankco Require Import Prelude Scheme SchemeProof Rank GroupSort Borda.
Local Open Scope Z_scope.

Lemma qle_total a b : qle a b = true \/ qle b a = true.
Proof. unfold qle. destruct a as [a p], b as [b q]; simpl. lia. Qed.
Lemma qle_trans a b c : qle a b = true -> qle b c = true -> qle a c = true.
Proof.
  unfold qle. destruct a as [a p], b as [b q], c as [c r]; simpl. intros H1 H2.
  apply Z.leb_le in H1, H2. apply Z.leb_le.
  assert (Hp : 0 < Zpos p) by lia. assert (Hq : 0 < Zpos q) by lia. assert (Hr : 0 < Zpos r) by lia.
  apply Z.mul_le_mono_pos_r with (p := Zpos q); [assumption|].
  transitivity (b * Zpos p * Zpos r); [|].
  - replace (a * Zpos r * Zpos q) with (a * Zpos q * Zpos r) by lia. apply Z.mul_le_mono_nonneg_r; lia.
  - replace (c * Zpos p * Zpos q) with (c * Zpos q * Zpos p) by lia.
    replace (b * Zpos p * Zpos r) with (b * Zpos r * Zpos p) by lia. apply Z.mul_le_mono_nonneg_r; lia.
Qed.

Lemma Zpos_of_nat n : (0 < n)%nat -> Zpos (Pos.of_nat n) = Z.of_nat n.
Proof. intros H. rewrite <- positive_nat_Z, Nat2Pos.id by lia. reflexivity. Qed.

(** * the consensus on a list of rankings *)
Theorem borda_on_wf ub R :
  let r := borda_on ub R in
  Permutation (elems r) (universe R) /\ Forall (fun b => b <> []) r /\ grouped qle (borda_key ub R) r.
Proof.
  unfold borda_on. split; [apply rank_by_perm|]. split; [apply rank_by_no_empty|].
  apply rank_by_grouped; [apply qle_total|apply qle_trans].
Qed.

Lemma borda_count_pos R x : In x (universe R) -> (0 < borda_count R x)%nat.
Proof.
  intros H. apply universe_in in H as (r & Hr & Hx). unfold borda_count.
  assert (In r (filter (fun r => mem x (elems r)) R)) by (apply filter_In; split; [assumption|apply mem_In; exact Hx]).
  destruct (filter (fun r => mem x (elems r)) R); [contradiction|simpl; lia].
Qed.

(** increasing order of mean score, tied exactly when the means are equal (means as exact fractions) *)
Theorem borda_on_order ub R x y :
  In x (universe R) -> In y (universe R) ->
  let r := borda_on ub R in
  let sx := borda_sum ub R x in let sy := borda_sum ub R y in
  let cx := Z.of_nat (borda_count R x) in let cy := Z.of_nat (borda_count R y) in
  (bucket_id r x < bucket_id r y <-> sx * cy < sy * cx) /\
  (bucket_id r x = bucket_id r y <-> sx * cy = sy * cx).
Proof.
  intros Hx Hy r sx sy cx cy.
  destruct (rank_by_order _ qle qle_total qle_trans (borda_key ub R) (universe R) x y (universe_NoDup R) Hx Hy) as [L E].
  fold (borda_on ub R) in L, E. fold r in L, E.
  pose proof (borda_count_pos R x Hx) as Px. pose proof (borda_count_pos R y Hy) as Py.
  unfold klt, keq, kle, qle, borda_key in L, E. simpl in L, E.
  rewrite !Zpos_of_nat in L, E by assumption. fold sx sy cx cy in L, E.
  split; [rewrite L|rewrite E]; lia.
Qed.

Lemma NoDup_filter' {A} (f : A -> bool) l : NoDup l -> NoDup (filter f l).
Proof.
  induction 1 as [|a l Hn Hd IH]; simpl; [constructor|]. destruct (f a); [|assumption].
  constructor; [|assumption]. rewrite filter_In. tauto.
Qed.

(** * unification *)
Lemma missing_of_in U r x : In x (missing_of U r) <-> In x U /\ ~ ranked r x.
Proof.
  unfold missing_of, ranked. rewrite filter_In. split; intros [H1 H2]; split; try assumption.
  - apply mem_false. destruct (mem x (elems r)); [discriminate|reflexivity].
  - apply mem_false in H2. rewrite H2. reflexivity.
Qed.

(** appends exactly the missing elements as one last bucket; nothing when none is missing *)
Theorem unify_spec U r :
  (missing_of U r = [] -> unify U r = r) /\
  (missing_of U r <> [] -> unify U r = r ++ [missing_of U r]) /\
  (forall x, ranked (unify U r) x <-> ranked r x \/ (In x U /\ ~ ranked r x)).
Proof.
  unfold unify. destruct (missing_of U r) as [|m ms] eqn:E.
  - split; [reflexivity|]. split; [congruence|]. intros x. split; [auto|].
    intros [H|H]; [assumption|]. apply missing_of_in in H. rewrite E in H. destruct H.
  - split; [discriminate|]. split; [reflexivity|]. intros x. unfold ranked, elems.
    rewrite concat_app, in_app_iff. change (concat [m :: ms]) with ((m :: ms) ++ []).
    rewrite app_nil_r, <- E, missing_of_in. tauto.
Qed.

Lemma pos_from_app k r r' x :
  pos_from k (r ++ r') x = if mem x (concat r) then pos_from k r x else pos_from (k + Z.of_nat (length (concat r))) r' x.
Proof.
  revert k; induction r as [|b r IH]; intros k; simpl; [f_equal; lia|].
  unfold mem at 2. rewrite existsb_app. fold (mem x b). fold (mem x (concat r)).
  destruct (mem x b); simpl; [reflexivity|]. rewrite IH, app_length. destruct (mem x (concat r)); [reflexivity|].
  f_equal. lia.
Qed.

Lemma bid_from_app k r r' x :
  bid_from k (r ++ r') x = if mem x (concat r) then bid_from k r x else bid_from (k + Z.of_nat (length r)) r' x.
Proof.
  revert k; induction r as [|b r IH]; intros k; simpl; [f_equal; lia|].
  unfold mem at 2. rewrite existsb_app. fold (mem x b). fold (mem x (concat r)).
  destruct (mem x b); simpl; [reflexivity|]. rewrite IH. destruct (mem x (concat r)); [reflexivity|].
  f_equal. lia.
Qed.

(** scores in a unified ranking: ranked elements keep their score, unranked elements of the universe
    score the size of the ranked part (or the next bucket index in the bucket-id variant) *)
Theorem pts_unify ub U r x :
  In x U ->
  pts ub (unify U r) x =
  if mem x (elems r) then pts ub r x
  else if ub then Z.of_nat (length r) else Z.of_nat (length (elems r)).
Proof.
  intros HU. unfold unify. destruct (missing_of U r) as [|m ms] eqn:E.
  - destruct (mem x (elems r)) eqn:Ex; [reflexivity|]. exfalso.
    assert (In x (missing_of U r)) by (apply missing_of_in; split; [assumption|apply mem_false; assumption]).
    rewrite E in H. destruct H.
  - assert (Hm : mem x (elems r) = false -> mem x (m :: ms) = true).
    { intros Ex. apply mem_In. rewrite <- E. apply missing_of_in. split; [assumption|apply mem_false; assumption]. }
    unfold pts, position, bucket_id. destruct ub.
    + rewrite bid_from_app. fold (elems r). destruct (mem x (elems r)) eqn:Ex; [reflexivity|].
      cbn [bid_from]. rewrite (Hm eq_refl). lia.
    + rewrite pos_from_app. fold (elems r). destruct (mem x (elems r)) eqn:Ex; [reflexivity|].
      cbn [pos_from]. rewrite (Hm eq_refl). unfold elems. lia.
Qed.

(** * independence of the order of the rankings *)
Lemma zsum_perm l l' : Permutation l l' -> zsum l = zsum l'.
Proof. induction 1; simpl; lia. Qed.

Lemma borda_key_perm ub R R' x : Permutation R R' -> borda_key ub R x = borda_key ub R' x.
Proof.
  intros P. unfold borda_key, borda_sum, borda_count. f_equal.
  - apply zsum_perm, Permutation_map, P.
  - f_equal. apply Permutation_length. clear -P. induction P; simpl.
    + reflexivity.
    + destruct (mem x (elems x0)); [constructor|]; assumption.
    + destruct (mem x (elems x0)); destruct (mem x (elems y)); try constructor; try reflexivity.
    + etransitivity; eassumption.
Qed.

Lemma universe_perm_in R R' x : Permutation R R' -> In x (universe R) -> In x (universe R').
Proof.
  intros P H. apply universe_in in H as (r & Hr & Hx). apply universe_in. exists r. split; [|assumption].
  eapply Permutation_in; eassumption.
Qed.

Theorem borda_on_perm ub R R' x y :
  Permutation R R' -> In x (universe R) -> In y (universe R) ->
  (bucket_id (borda_on ub R) x < bucket_id (borda_on ub R) y <-> bucket_id (borda_on ub R') x < bucket_id (borda_on ub R') y) /\
  (bucket_id (borda_on ub R) x = bucket_id (borda_on ub R) y <-> bucket_id (borda_on ub R') x = bucket_id (borda_on ub R') y).
Proof.
  intros P Hx Hy.
  destruct (rank_by_order _ qle qle_total qle_trans (borda_key ub R) (universe R) x y (universe_NoDup R) Hx Hy) as [L E].
  destruct (rank_by_order _ qle qle_total qle_trans (borda_key ub R') (universe R') x y (universe_NoDup R')
              (universe_perm_in _ _ _ P Hx) (universe_perm_in _ _ _ P Hy)) as [L' E'].
  unfold borda_on. unfold klt, keq, kle in *.
  rewrite <- !(borda_key_perm ub R R') in L', E' by assumption. split.
  - rewrite L, L'. reflexivity.
  - rewrite E, E'. reflexivity.
Qed.

(** * acceptance *)
Definition in_borda_family (s : scheme) : Prop :=
  equiv_spec 6 s induced \/ equiv_spec 6 s unifying \/ equiv_spec 6 s (induced_p 4000) \/ equiv_spec 6 s (unifying_p 4000).

Lemma nonneg_presets :
  nonneg induced /\ nonneg unifying /\ nonneg (induced_p 4000) /\ nonneg (unifying_p 4000).
Proof. repeat split; apply (proj1 (validb_spec _)); reflexivity. Qed.

Theorem borda_relevant_iff s : nonneg s -> (borda_relevant s = true <-> in_borda_family s).
Proof.
  intros Hn. destruct nonneg_presets as (N1 & N2 & N3 & N4).
  unfold borda_relevant, in_borda_family, is_equivalent_to. rewrite !orb_true_iff.
  rewrite !(is_equivalent_iff 6) by assumption. tauto.
Qed.

(** refused with the documented exception exactly for an incomplete dataset and a scheme outside the
    four families (up to a positive factor) *)
Theorem borda_refuses_iff ub s D :
  nonneg s ->
  (borda ub s D = Err SchemeNotHandled <-> is_complete D = false /\ ~ in_borda_family s).
Proof.
  intros Hn. unfold borda. rewrite <- borda_relevant_iff by assumption.
  destruct (is_complete D); destruct (borda_relevant s); simpl; split; try discriminate; try tauto;
    try (intros [H1 H2]; try discriminate; exfalso; apply H2; reflexivity).
  intros _. split; [reflexivity|discriminate].
Qed.

(** positive multiples of the accepted families are accepted *)
Theorem borda_accepts_multiples s f k :
  nonneg s -> In f [induced; unifying; induced_p 4000; unifying_p 4000] -> 0 < k ->
  (forall i, Bv s i * ONE = Bv f i * k) -> (forall i, Tv s i * ONE = Tv f i * k) ->
  borda_relevant s = true.
Proof.
  intros Hn Hf Hk HB HT. apply borda_relevant_iff; [assumption|].
  assert (E : equiv_spec 6 s f).
  { apply equiv_spec6. exists ONE, k. repeat split; try assumption; try (unfold ONE; lia).
    - intros i. rewrite Z.mul_comm, HB. lia.
    - intros i. rewrite Z.mul_comm, HT. lia. }
  unfold in_borda_family. simpl in Hf. destruct Hf as [<-|[<-|[<-|[<-|[]]]]]; tauto.
Qed.

Theorem borda_complete_never_refused ub s D : is_complete D = true -> exists r, borda ub s D = Ok r.
Proof. intros H. unfold borda. rewrite H. simpl. eauto. Qed.

(** a unified ranking ranks exactly the universe, each element once *)
Theorem unify_perm U r :
  NoDup U -> NoDup (elems r) -> incl (elems r) U ->
  Permutation (elems (unify U r)) U /\ (Forall (fun b => b <> []) r -> Forall (fun b => b <> []) (unify U r)).
Proof.
  intros NU Nr Hin.
  assert (Nm : NoDup (missing_of U r)) by (unfold missing_of; apply NoDup_filter'; assumption).
  assert (E : forall x, In x (elems r ++ missing_of U r) <-> In x U).
  { intros x. rewrite in_app_iff, missing_of_in. unfold ranked. split.
    - intros [H|[H _]]; auto.
    - intros H. destruct (in_dec Nat.eq_dec x (elems r)); auto. }
  assert (P : Permutation (elems r ++ missing_of U r) U).
  { apply NoDup_Permutation; [|assumption|exact E].
    apply NoDup_app_intro; [assumption|assumption|]. intros x H1 H2. apply missing_of_in in H2. unfold ranked in H2. tauto. }
  unfold unify. destruct (missing_of U r) as [|m ms] eqn:Em.
  - rewrite app_nil_r in P. split; [exact P|auto].
  - split.
    + unfold elems. rewrite concat_app. simpl. rewrite app_nil_r. exact P.
    + intros H. apply Forall_app. split; [assumption|]. constructor; [discriminate|constructor].
Qed.
