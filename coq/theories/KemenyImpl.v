(** Model of corankco/kemeny_score_computation.py, function by function. *)
From Corankco Require Import Prelude Scheme Rank KemenySpec KemenyMerge.
Local Open Scope Z_scope.

Inductive kemeny_err := InvalidRankings | OutOfFuel.

Fixpoint ins (x : nat) (l : list nat) : list nat :=
  match l with
  | [] => [x]
  | y :: l' => if (x <=? y)%nat then x :: l else y :: ins x l'
  end.
Definition isort (l : list nat) : list nat := fold_right ins [] l.

(** id of the consensus bucket of an element (defined after the completeness check) *)
Definition cid (c : ranking) (x : nat) : nat := Z.to_nat (bucket_id c x).

(** [r_prime]: each bucket of r mapped to consensus bucket ids and sorted *)
Definition rprime (c r : ranking) : list (list nat) := map (fun b => isort (map (cid c) b)) r.

(** [t_3[i]]: number of elements of consensus bucket i that r does not rank *)
Definition tmiss (c r : ranking) : list Z :=
  map (fun b => Z.of_nat (length (filter (fun x => negb (mem x (elems r))) b))) c.
Definition tbefore (t : list Z) (k : nat) : Z := zsum (firstn k t).
Definition tafter (t : list Z) (k : nat) : Z := zsum t - zsum (firstn (S k) t).

(** the run-length walk computing [s_1[2]] for one sorted bucket *)
Fixpoint run_pairs (fuel : nat) (l : list nat) : option Z :=
  match fuel with
  | O => None
  | S f =>
      match l with
      | [] | [_] => Some 0
      | a :: _ =>
          let '(c, rest) := span_eq a l in
          match run_pairs f rest with
          | Some s => Some (Z.of_nat c * Z.of_nat (length rest) + s)
          | None => None
          end
      end
  end.

Fixpoint sum_opt (l : list (option Z)) : option Z :=
  match l with
  | [] => Some 0
  | Some a :: l' => match sum_opt l' with Some s => Some (a + s) | None => None end
  | None :: _ => None
  end.

(** the loop over consensus buckets: [s_1[5]], [s_2[3]] (+[s_2[4]]), [s_2[5]] *)
Fixpoint bucket_loop (sizes t : list Z) (remaining : Z) (acc : Z * Z * Z) : Z * Z * Z :=
  match sizes, t with
  | sz :: sizes', m :: t' =>
      let '(s15, s23, s25) := acc in
      if 0 <? m then
        let remaining' := remaining - m in
        bucket_loop sizes' t' remaining'
          (s15 + remaining' * m, s23 + (sz - m) * m, if 1 <? m then s25 + m * (m - 1) / 2 else s25)
      else bucket_loop sizes' t' remaining acc
  | _, _ => acc
  end.

(** [__mergesortlike] on index ranges *)
Fixpoint msl (fuel : nat) (rp : list (list nat)) (left right : nat) : option (list nat * Z * Z) :=
  match fuel with
  | O => None
  | S f =>
      match rp with
      | [] => Some ([], 0, 0)
      | _ =>
          if (right <=? left)%nat then Some (nth right rp [], 0, 0)
          else
            let middle := ((right - left) / 2)%nat in
            let begin := (middle + left + 1)%nat in
            match msl f rp left (middle + left), msl f rp begin right with
            | Some (l1, i1, e1), Some (l2, i2, e2) =>
                match merge (S (length l1 + length l2)) l1 l2 with
                | Some (m, i, e) => Some (m, i1 + i2 + i, e1 + e2 + e)
                | None => None
                end
            | _, _ => None
            end
      end
  end.

(** the eight counters computed for one input ranking:
    (s_1[1], s_1[2], s_1[3], s_1[4], s_1[5], s_2[0], s_2[3], s_2[5]) *)
Record counters := mkCnt { n11 : Z; n12 : Z; n13 : Z; n14 : Z; n15 : Z; n20 : Z; n23 : Z; n25 : Z }.

Definition cost_by_ranking (c r : ranking) : option counters :=
  let rp := rprime c r in
  let t := tmiss c r in
  let flat := concat rp in
  let s13 := zsum (map (tafter t) flat) in
  let s14 := zsum (map (tbefore t) flat) in
  match sum_opt (map (fun b => run_pairs (S (length b)) b) rp) with
  | None => None
  | Some s12 =>
      let '(s15, s23, s25) := bucket_loop (map (fun b => Z.of_nat (length b)) c) t (zsum t) (0, 0, 0) in
      match msl (S (length rp)) rp 0 (length rp - 1) with
      | None => None
      | Some (_, s11, s20) => Some (mkCnt s11 s12 s13 s14 s15 s20 s23 s25)
      end
  end.

Definition dot (s : scheme) (k : counters) : Z :=
  b1 s * n11 k + b2 s * n12 k + b3 s * n13 k + b4 s * n14 k + b5 s * n15 k
  + t0 s * n20 k + t3 s * n23 k + t5 s * n25 k.

(** the completeness check of the candidate *)
Definition complete_towards (c : ranking) (D : dataset) : bool :=
  forallb (fun r => forallb (fun x => mem x (elems c)) (elems r)) D.

Fixpoint sum_costs (s : scheme) (c : ranking) (D : dataset) : option Z :=
  match D with
  | [] => Some 0
  | r :: D' =>
      match cost_by_ranking c r, sum_costs s c D' with
      | Some k, Some rest => Some (dot s k + rest)
      | _, _ => None
      end
  end.

Definition get_kemeny_score (s : scheme) (D : dataset) (c : ranking) : result kemeny_err Z :=
  if complete_towards c D then
    match sum_costs s c D with Some v => Ok v | None => Err OutOfFuel end
  else Err InvalidRankings.
