(** Property C18, the round trip: parsing the textual form of a ranking gives the ranking back. *)
From Corankco Require Import Prelude Parser ParserProof.
From Coq Require Import Ascii String.
Local Open Scope Z_scope.

(** * lists of characters, lengths *)
Lemma len_app (a b : str) : len (a ++ b) = len a + len b.
Proof. unfold len. rewrite app_length. lia. Qed.
Lemma len_cons c (a : str) : len (c :: a) = 1 + len a.
Proof. unfold len. cbn [List.length]. lia. Qed.
Lemma len_nonneg (a : str) : 0 <= len a.
Proof. unfold len. lia. Qed.
Lemma len_nil : len [] = 0.
Proof. reflexivity. Qed.

Lemma skipn_len_app (P Q : str) : skipn (Z.to_nat (len P)) (P ++ Q) = Q.
Proof. unfold len. rewrite Nat2Z.id. rewrite skipn_app, skipn_all, Nat.sub_diag. reflexivity. Qed.

Lemma norm_id i n : 0 <= i <= n -> norm i n = i.
Proof. intros H. unfold norm. destruct (Z.ltb_spec i 0); lia. Qed.

(** * find *)
Lemma eqb_neq_false (a c : ascii) : a <> c -> Ascii.eqb a c = false.
Proof. intros H. destruct (Ascii.eqb_spec a c); [contradiction|reflexivity]. Qed.

Lemma find_aux_hit c (A B : str) i stop :
  ~ In c A -> i + len A < stop -> find_aux c (A ++ c :: B) i stop = i + len A.
Proof.
  revert i; induction A as [|a A IH]; intros i Hn Hs.
  - cbn [app find_aux]. rewrite len_nil in *. destruct (Z.leb_spec stop i); [lia|]. rewrite Ascii.eqb_refl. lia.
  - cbn [app find_aux]. rewrite len_cons in *. pose proof (len_nonneg A). destruct (Z.leb_spec stop i); [lia|].
    rewrite eqb_neq_false by (intros ->; apply Hn; left; reflexivity).
    rewrite IH by (try lia; intros HH; apply Hn; right; exact HH). lia.
Qed.

Lemma find_aux_stop c (A : str) i stop : stop <= i -> find_aux c A i stop = -1.
Proof. intros H. destruct A; cbn [find_aux]; [reflexivity|]. destruct (Z.leb_spec stop i); [reflexivity|lia]. Qed.

Lemma find_aux_none c (A : str) i stop : ~ In c A -> find_aux c A i stop = -1.
Proof.
  revert i; induction A as [|a A IH]; intros i Hn; [reflexivity|]. cbn [find_aux]. destruct (stop <=? i); [reflexivity|].
  rewrite eqb_neq_false by (intros ->; apply Hn; left; reflexivity). apply IH. intros H; apply Hn; right; exact H.
Qed.

(** the first [c] at or after position [a = len P] is right after [A] *)
Lemma find_hit c (P A B : str) b :
  ~ In c A -> len P + len A < b <= len (P ++ A ++ c :: B) ->
  find c (P ++ A ++ c :: B) (len P) b = len P + len A.
Proof.
  intros Hn Hb. unfold find. set (s := P ++ A ++ c :: B) in *.
  assert (Hl : len s = len P + len A + 1 + len B) by (unfold s; rewrite !len_app, len_cons; lia).
  pose proof (len_nonneg P). pose proof (len_nonneg A). pose proof (len_nonneg B).
  rewrite (norm_id (len P)) by lia. rewrite (norm_id b) by lia. unfold s. rewrite skipn_len_app.
  apply find_aux_hit; [exact Hn|lia].
Qed.

Lemma find_empty_range c (s : str) a b : 0 <= a -> 0 <= b <= a -> find c s a b = -1.
Proof.
  intros Ha Hb. unfold find. pose proof (len_nonneg s). apply find_aux_stop.
  unfold norm. destruct (Z.ltb_spec a 0); destruct (Z.ltb_spec b 0); lia.
Qed.

(** no [c] between position [len P] and position [b] *)
Lemma find_miss c (P A B : str) b :
  ~ In c A -> 0 <= b <= len P + len A -> find c (P ++ A ++ B) (len P) b = -1.
Proof.
  intros Hn Hb. unfold find. set (s := P ++ A ++ B).
  assert (Hl : len s = len P + len A + len B) by (unfold s; rewrite !len_app; lia).
  pose proof (len_nonneg P). pose proof (len_nonneg A). pose proof (len_nonneg B).
  rewrite (norm_id (len P)) by lia. rewrite (norm_id b) by lia. unfold s. rewrite skipn_len_app.
  (* scanning A then stopping *)
  assert (G : forall A0 i, ~ In c A0 -> b <= i + len A0 -> find_aux c (A0 ++ B) i b = -1).
  { induction A0 as [|a A0 IH]; intros i Hn0 Hi.
    - rewrite len_nil in Hi. apply find_aux_stop. lia.
    - cbn [app find_aux]. destruct (b <=? i); [reflexivity|]. rewrite eqb_neq_false by (intros ->; apply Hn0; left; reflexivity).
      apply IH; [intros H'; apply Hn0; right; exact H'|rewrite len_cons in Hi; lia]. }
  apply G; [exact Hn|lia].
Qed.

(** * rfind *)
Lemma rfind_aux_app c (A B : str) i best : rfind_aux c (A ++ B) i best = rfind_aux c B (i + len A) (rfind_aux c A i best).
Proof.
  revert i best; induction A as [|a A IH]; intros i best; [cbn [app rfind_aux]; rewrite len_nil; f_equal; lia|].
  cbn [app rfind_aux]. rewrite IH, len_cons. f_equal. lia.
Qed.
Lemma rfind_last c (A : str) : rfind c (A ++ [c]) = len A.
Proof. unfold rfind. rewrite rfind_aux_app. cbn [rfind_aux]. rewrite Ascii.eqb_refl. lia. Qed.

(** * slice *)
Lemma slice_mid (P M Q : str) : slice (P ++ M ++ Q) (len P) (len P + len M) = M.
Proof.
  unfold slice. set (s := P ++ M ++ Q).
  assert (Hl : len s = len P + len M + len Q) by (unfold s; rewrite !len_app; lia).
  pose proof (len_nonneg P). pose proof (len_nonneg M). pose proof (len_nonneg Q).
  rewrite (norm_id (len P)), (norm_id (len P + len M)) by lia.
  destruct (Z.leb_spec (len P + len M) (len P)) as [Le|Gt].
  - assert (len M = 0) by lia. destruct M; [reflexivity|rewrite len_cons in *; pose proof (len_nonneg M); lia].
  - unfold s. rewrite skipn_len_app. replace (len P + len M - len P) with (len M) by lia.
    unfold len. rewrite Nat2Z.id, firstn_app, firstn_all, Nat.sub_diag. cbn [firstn]. apply app_nil_r.
Qed.

(** * white space *)
Definition all_ws (w : str) : Prop := Forall (fun c => is_ws c = true) w.

Lemma lstrip_ws (w x : str) : all_ws w -> lstrip (w ++ x) = lstrip x.
Proof. induction 1 as [|c w Hc _ IH]; [reflexivity|]. cbn [app lstrip]. rewrite Hc. exact IH. Qed.
Lemma lstrip_core c (x : str) : is_ws c = false -> lstrip (c :: x) = c :: x.
Proof. intros H. cbn [lstrip]. rewrite H. reflexivity. Qed.

Lemma all_ws_rev w : all_ws w -> all_ws (rev w).
Proof. intros H. unfold all_ws in *. rewrite Forall_forall in *. intros c Hc. apply H. apply in_rev. exact Hc. Qed.

(** [x] begins and ends with a character that is not white space *)
Definition solid (x : str) : Prop := exists c1 mid c2, (x = [c1] /\ is_ws c1 = false /\ c2 = c1 /\ mid = []) \/
  (x = c1 :: mid ++ [c2] /\ is_ws c1 = false /\ is_ws c2 = false).

Lemma strip_solid (w1 w2 x : str) : all_ws w1 -> all_ws w2 ->
  (exists c1 t, x = c1 :: t /\ is_ws c1 = false) -> (exists t c2, x = t ++ [c2] /\ is_ws c2 = false) ->
  strip (w1 ++ x ++ w2) = x.
Proof.
  intros H1 H2 (c1 & t & E1 & N1) (t' & c2 & E2 & N2). unfold strip.
  rewrite (lstrip_ws w1 _ H1).
  assert (E : lstrip (x ++ w2) = x ++ w2) by (rewrite E1; cbn [app]; apply lstrip_core; exact N1). rewrite E.
  rewrite rev_app_distr, (lstrip_ws (rev w2) _ (all_ws_rev w2 H2)).
  assert (E' : lstrip (rev x) = rev x) by (rewrite E2, rev_app_distr; cbn [rev app]; apply lstrip_core; exact N2).
  rewrite E'. apply rev_involutive.
Qed.

(** * split *)
Lemma split_on_none c (s cur : str) : ~ In c s -> split_on c s cur = [rev cur ++ s].
Proof.
  revert cur; induction s as [|a s IH]; intros cur Hn; [cbn; rewrite app_nil_r; reflexivity|].
  cbn [split_on]. rewrite eqb_neq_false by (intros ->; apply Hn; left; reflexivity).
  rewrite IH by (intros H; apply Hn; right; exact H). cbn [rev]. rewrite <- app_assoc. reflexivity.
Qed.

Lemma split_on_hit c (A B cur : str) : ~ In c A -> split_on c (A ++ c :: B) cur = (rev cur ++ A) :: split_on c B [].
Proof.
  revert cur; induction A as [|a A IH]; intros cur Hn.
  - cbn [app split_on]. rewrite Ascii.eqb_refl, app_nil_r. reflexivity.
  - cbn [app split_on]. rewrite eqb_neq_false by (intros ->; apply Hn; left; reflexivity).
    rewrite IH by (intros H; apply Hn; right; exact H). cbn [rev]. rewrite <- app_assoc. reflexivity.
Qed.

Lemma split_on_not_nil c (s cur : str) : split_on c s cur <> [].
Proof. revert cur; induction s as [|a s IH]; intros cur; cbn [split_on]; [discriminate|]. destruct (Ascii.eqb a c); [discriminate|apply IH]. Qed.

(** what follows the last separator *)
Lemma last_split c (P Q cur : str) : ~ In c Q -> last (split_on c (P ++ c :: Q) cur) [] = Q.
Proof.
  revert cur; induction P as [|a P IH]; intros cur Hn.
  - cbn [app split_on]. rewrite Ascii.eqb_refl. rewrite (split_on_none c Q [] Hn). reflexivity.
  - cbn [app split_on]. destruct (Ascii.eqb a c); [|apply IH; exact Hn].
    pose proof (split_on_not_nil c (P ++ c :: Q) []) as Hne. specialize (IH [] Hn).
    destruct (split_on c (P ++ c :: Q) []) as [|x l]; [contradiction|]. exact IH.
Qed.

(** * one bucket *)
Definition sep : str := [","%char; " "%char].

Lemma join_cons2 (x y : str) l : join sep (x :: y :: l) = x ++ sep ++ join sep (y :: l).
Proof. reflexivity. Qed.

Lemma split_join (pre n1 : str) rest :
  ~ In ","%char pre -> ~ In ","%char n1 -> Forall (fun n => ~ In ","%char n) rest ->
  split_on ","%char (pre ++ join sep (n1 :: rest)) [] = (pre ++ n1) :: map (cons " "%char) rest.
Proof.
  revert pre n1; induction rest as [|n2 rest IH]; intros pre n1 Hp H1 Hr.
  - cbn [join map]. rewrite split_on_none; [reflexivity|]. intros H. apply in_app_or in H as [H|H]; contradiction.
  - assert (E : pre ++ join sep (n1 :: n2 :: rest) = (pre ++ n1) ++ ","%char :: ([" "%char] ++ join sep (n2 :: rest))).
    { rewrite join_cons2. unfold sep at 1. rewrite <- app_assoc. reflexivity. }
    rewrite E.
    rewrite split_on_hit by (intros H; apply in_app_or in H as [H|H]; contradiction). cbn [rev]. rewrite app_nil_l.
    pose proof (Forall_inv Hr) as H2. pose proof (Forall_inv_tail Hr) as Hr'. f_equal. apply (IH [" "%char] n2); [|exact H2|exact Hr'].
    intros [H|[]]. discriminate.
Qed.

(** a printed name: not empty, no comma, does not begin or end with white space *)
Definition good_name (n : str) : Prop :=
  ~ In ","%char n /\ (exists c1 t, n = c1 :: t /\ is_ws c1 = false) /\ (exists t c2, n = t ++ [c2] /\ is_ws c2 = false).

Lemma strip_good n : good_name n -> strip n = n.
Proof.
  intros (_ & H1 & H2). pose proof (strip_solid [] [] n (Forall_nil _) (Forall_nil _) H1 H2) as E.
  cbn [app] in E. rewrite app_nil_r in E. exact E.
Qed.
Lemma strip_sp_good n : good_name n -> strip (" "%char :: n) = n.
Proof.
  intros (_ & H1 & H2). assert (W : all_ws [" "%char]) by (constructor; [reflexivity|constructor]).
  pose proof (strip_solid [" "%char] [] n W (Forall_nil _) H1 H2) as E. cbn [app] in E. rewrite app_nil_r in E. exact E.
Qed.

Definition pstep (piece : str) (acc : option (list str)) : option (list str) :=
  match acc with None => None | Some l =>
    let e := strip piece in match e with [] => None | _ => Some (e :: l) end end.
Lemma parse_bucket_unfold chunk : parse_bucket chunk = fold_right pstep (Some []) (split_on ","%char chunk []).
Proof. reflexivity. Qed.

Lemma parse_pieces (pieces names : list str) :
  Forall2 (fun p n => strip p = n /\ n <> []) pieces names -> fold_right pstep (Some []) pieces = Some names.
Proof.
  induction 1 as [|p n pieces names [E Hn] _ IH]; [reflexivity|]. cbn [fold_right]. rewrite IH. unfold pstep. cbv zeta. rewrite E.
  destruct n; [contradiction|reflexivity].
Qed.

Theorem parse_bucket_join n1 rest : Forall good_name (n1 :: rest) -> parse_bucket (join sep (n1 :: rest)) = Some (n1 :: rest).
Proof.
  intros H. inversion H as [|? ? G1 Gr]; subst. rewrite parse_bucket_unfold.
  pose proof (split_join [] n1 rest ltac:(intros []) (proj1 G1)) as S. cbn [app] in S. rewrite S.
  2:{ eapply Forall_impl; [|exact Gr]. intros n Gn. exact (proj1 Gn). }
  apply parse_pieces. constructor.
  - split; [apply strip_good; exact G1|]. destruct G1 as (_ & (c1 & t & -> & _) & _). discriminate.
  - clear -Gr. induction Gr as [|n rest Gn _ IH]; [constructor|]. cbn [map]. constructor; [|exact IH].
    split; [apply strip_sp_good; exact Gn|]. destruct Gn as (_ & (c1 & t & -> & _) & _). discriminate.
Qed.

(** * the scanner loop on a well-formed text *)
Notation lb := ("["%char).
Notation rb := ("]"%char).
Definition bstr (body : str) : str := lb :: body ++ [rb].
Definition tailstr (bodies : list str) : str := List.concat (map (fun b => sep ++ bstr b) bodies).
Definition pb (body : str) : list str := match parse_bucket body with Some l => l | None => [] end.
Definition good_body (b : str) : Prop := ~ In lb b /\ ~ In rb b /\ parse_bucket b <> None.

Lemma len_bstr b : len (bstr b) = len b + 2.
Proof. unfold bstr. rewrite len_cons, len_app, len_cons, len_nil. lia. Qed.

Lemma tailstr_cons b bs : tailstr (b :: bs) = sep ++ bstr b ++ tailstr bs.
Proof. unfold tailstr. cbn [map List.concat]. rewrite <- app_assoc. reflexivity. Qed.
Ltac lsolve := unfold bstr, sep; repeat (rewrite tailstr_cons || rewrite <- app_assoc || (progress cbn [app])); unfold bstr, sep;
               repeat (rewrite <- app_assoc || (progress cbn [app])); reflexivity.

Ltac lens := unfold sep; repeat (rewrite len_app || rewrite len_bstr || rewrite len_cons || rewrite len_nil).

Lemma slice_same (s : str) a : slice s a a = [].
Proof. unfold slice. cbv zeta. rewrite Z.leb_refl. reflexivity. Qed.

Lemma loop_ok : forall bs pre b acc fuel old,
  (List.length bs < fuel)%nat -> good_body b -> Forall good_body bs ->
  let s := pre ++ bstr b ++ tailstr bs ++ [rb] in
  loop fuel s (len s - 1) (len pre) (len pre + 1 + len b) old acc = POk (rev acc ++ pb b :: map pb bs).
Proof.
  induction bs as [|b2 bs IH]; intros pre b acc fuel old Hf (Hl & Hr & Hp) Hbs s.
  - (* last bucket *)
    destruct fuel as [|f]; [cbn in Hf; lia|]. pose proof (len_nonneg pre). pose proof (len_nonneg b).
    assert (Es : s = (pre ++ [lb]) ++ b ++ (rb :: [rb])) by (unfold s, tailstr; cbn [map List.concat]; lsolve).
    assert (Ls : len s = len pre + len b + 3) by (rewrite Es; lens; lia).
    cbn [loop].
    replace ((len pre =? -1) || (len pre + 1 + len b =? -1)) with false by (symmetry; apply orb_false_iff; split; apply Z.eqb_neq; lia).
    assert (Sl : slice s (len pre + 1) (len pre + 1 + len b) = b).
    { rewrite Es. replace (len pre + 1) with (len (pre ++ [lb])) by (lens; lia). apply slice_mid. }
    rewrite Sl. unfold pb. destruct (parse_bucket b) as [l|] eqn:Eb; [|contradiction].
    replace (len pre + 1 + len b + 1) with (len s - 1) by lia.
    rewrite (find_empty_range lb s (len s - 1) (len s - 1)) by lia.
    replace (Z.max (len s - 1) (-1 + 1)) with (len s - 1) by lia.
    rewrite (find_empty_range rb s (len s - 1) (len s - 1)) by lia.
    (* exit *)
    destruct f as [|f']; cbn [loop]; cbn [Z.eqb orb negb];
      replace (len pre + 1 + len b + 1) with (len s - 1) by lia; rewrite slice_same; cbn [rev map]; reflexivity.
  - (* a bucket follows *)
    destruct fuel as [|f]; [cbn in Hf; lia|]. pose proof (len_nonneg pre). pose proof (len_nonneg b). pose proof (len_nonneg b2).
    pose proof (Forall_inv Hbs) as (Hl2 & Hr2 & Hp2). pose proof (Forall_inv_tail Hbs) as Hbs'.
    set (rest := tailstr bs ++ [rb]) in *.
    assert (Erest : exists q, rest = q ++ [rb]) by (exists (tailstr bs); reflexivity).
    assert (Es : s = (pre ++ [lb]) ++ b ++ (rb :: sep ++ bstr b2 ++ rest)) by (unfold s, rest; lsolve).
    assert (Lr : 1 <= len rest) by (destruct Erest as (q & ->); lens; pose proof (len_nonneg q); lia).
    assert (Ls : len s = len pre + len b + 2 + 2 + (len b2 + 2) + len rest).
    { rewrite Es. lens. lia. }
    cbn [loop].
    replace ((len pre =? -1) || (len pre + 1 + len b =? -1)) with false by (symmetry; apply orb_false_iff; split; apply Z.eqb_neq; lia).
    assert (Sl : slice s (len pre + 1) (len pre + 1 + len b) = b).
    { rewrite Es. replace (len pre + 1) with (len (pre ++ [lb])) by (lens; lia). apply slice_mid. }
    rewrite Sl. destruct (parse_bucket b) as [l|] eqn:Eb; [|contradiction].
    (* next opening bracket *)
    set (en := len pre + 1 + len b).
    assert (Es1 : s = (pre ++ bstr b) ++ sep ++ lb :: (b2 ++ [rb] ++ rest)) by (unfold s, rest; lsolve).
    assert (L1 : len (pre ++ bstr b) = en + 1) by (lens; unfold en; lia).
    assert (St : find lb s (en + 1) (len s - 1) = en + 3).
    { rewrite Es1 at 1. rewrite <- L1. rewrite find_hit.
      - lens. lia.
      - unfold sep. intros [HH|[HH|[]]]; discriminate.
      - rewrite <- Es1. lens. lia. }
    rewrite St. replace (Z.max (en + 1) (en + 3 + 1)) with (en + 4) by lia.
    assert (Es2 : s = (pre ++ bstr b ++ sep ++ [lb]) ++ b2 ++ rb :: rest) by (unfold s, rest; lsolve).
    assert (L2 : len (pre ++ bstr b ++ sep ++ [lb]) = en + 4).
    { lens. unfold en. lia. }
    assert (En : find rb s (en + 4) (len s - 1) = en + 4 + len b2).
    { rewrite Es2 at 1. rewrite <- L2. rewrite find_hit; [reflexivity|exact Hr2|]. rewrite <- Es2. lia. }
    rewrite En.
    (* induction hypothesis on the rest *)
    assert (Es3 : s = (pre ++ bstr b ++ sep) ++ bstr b2 ++ rest) by (unfold s, rest; lsolve).
    assert (L3 : len (pre ++ bstr b ++ sep) = en + 3).
    { lens. unfold en. lia. }
    pose proof (IH (pre ++ bstr b ++ sep) b2 (l :: acc) f en ltac:(cbn in Hf; lia) (conj Hl2 (conj Hr2 Hp2)) Hbs') as IH'.
    cbv zeta in IH'. rewrite <- Es3, L3 in IH'.
    replace (en + 3 + 1 + len b2) with (en + 4 + len b2) in IH' by lia. rewrite IH'.
    assert (Epb : pb b = l) by (unfold pb; rewrite Eb; reflexivity). rewrite Epb. cbn [rev map]. rewrite <- app_assoc. reflexivity.
Qed.

(** * the whole scanner on a well-formed text *)
Lemma ends2 : forall bs b pre, b <> [] -> ~ In lb b -> Forall (fun b => b <> [] /\ ~ In lb b) bs ->
  exists q c, pre ++ bstr b ++ tailstr bs = q ++ [c; rb] /\ c <> lb.
Proof.
  induction bs as [|b2 bs IH]; intros b pre Hb Hl Hbs.
  - destruct (exists_last Hb) as (t & c & ->). exists (pre ++ lb :: t), c. split; [lsolve|].
    intros ->. apply Hl. apply in_or_app. right. left. reflexivity.
  - destruct (Forall_inv Hbs) as [Hb2 Hl2]. destruct (IH b2 (pre ++ bstr b ++ sep) Hb2 Hl2 (Forall_inv_tail Hbs)) as (q & c & E & Hc).
    exists q, c. split; [|exact Hc]. rewrite <- E. lsolve.
Qed.

Lemma tailstr_length bs : (List.length bs <= List.length (tailstr bs))%nat.
Proof. induction bs as [|b bs IH]; [cbn; lia|]. rewrite tailstr_cons. unfold sep. rewrite !app_length. cbn [List.length]. lia. Qed.

Lemma str_eqb_eq (a b : str) : str_eqb a b = true -> a = b.
Proof. unfold str_eqb. apply list_eqb_spec. intros x y. split; [apply Ascii.eqb_eq|intros ->; apply Ascii.eqb_refl]. Qed.

Lemma find0_head c (t : str) : find0 c (c :: t) = 0.
Proof.
  unfold find0, find. pose proof (len_nonneg t). rewrite (norm_id 0) by (rewrite len_cons; lia).
  rewrite (norm_id (len (c :: t))) by (rewrite len_cons; lia). cbn [Z.to_nat skipn find_aux].
  rewrite len_cons. destruct (Z.leb_spec (1 + len t) 0); [lia|]. rewrite Ascii.eqb_refl. reflexivity.
Qed.

Theorem parse_text raw b1 bs :
  prepare raw = lb :: (bstr b1 ++ tailstr bs) ++ [rb] ->
  b1 <> [] -> good_body b1 -> Forall (fun b => b <> [] /\ good_body b) bs ->
  parse raw = POk (pb b1 :: map pb bs).
Proof.
  intros Ep Hne G1 Gbs. unfold parse. rewrite Ep. set (inner := bstr b1 ++ tailstr bs). set (s := lb :: inner ++ [rb]).
  pose proof (len_nonneg b1) as Lb1. pose proof (len_nonneg inner) as Li.
  assert (Gbs' : Forall good_body bs) by (eapply Forall_impl; [|exact Gbs]; intros b [_ H]; exact H).
  assert (Gne : Forall (fun b => b <> [] /\ ~ In lb b) bs) by (eapply Forall_impl; [|exact Gbs]; intros b [H1 [H2 _]]; split; assumption).
  destruct (ends2 bs b1 [] Hne (proj1 G1) Gne) as (q & c & Eq & Hc). cbn [app] in Eq. fold inner in Eq.
  assert (I1 : inner = lb :: b1 ++ rb :: tailstr bs) by (unfold inner; lsolve).
  assert (Ls : len s = len inner + 2) by (unfold s; lens; lia).
  (* first [ and last ] *)
  assert (F0 : find0 lb s = 0) by apply find0_head.
  assert (R0 : rfind rb s = len s - 1).
  { unfold s. change (lb :: inner ++ [rb]) with ((lb :: inner) ++ [rb]). rewrite rfind_last. lens. lia. }
  rewrite F0, R0.
  assert (Inner : slice s (0 + 1) (len s - 1) = inner).
  { change s with ([lb] ++ inner ++ [rb]). replace (len ([lb] ++ inner ++ [rb]) - 1) with (len [lb] + len inner) by (lens; lia).
    change (0 + 1) with (len [lb]). apply slice_mid. }
  rewrite Inner.
  assert (Sin : strip inner = inner).
  { pose proof (strip_solid [] [] inner (Forall_nil _) (Forall_nil _)) as E. cbn [app] in E. rewrite app_nil_r in E. apply E.
    - exists lb, (b1 ++ rb :: tailstr bs). split; [exact I1|reflexivity].
    - exists (q ++ [c]), rb. split; [rewrite Eq, <- app_assoc; reflexivity|reflexivity]. }
  rewrite Sin. rewrite I1 at 1.
  (* not the literal "[[]]" *)
  assert (Ew : ends_with (list_ascii_of_string "[[]]") s = false).
  { unfold ends_with. destruct (Nat.ltb_spec (List.length s) (List.length (list_ascii_of_string "[[]]"))); [reflexivity|].
    destruct (str_eqb (skipn (List.length s - List.length (list_ascii_of_string "[[]]")) s) (list_ascii_of_string "[[]]")) eqn:E; [|reflexivity].
    exfalso. apply str_eqb_eq in E.
    pose proof (firstn_skipn (List.length s - List.length (list_ascii_of_string "[[]]")) s) as FS. rewrite E in FS.
    set (X := firstn (List.length s - List.length (list_ascii_of_string "[[]]")) s) in FS.
    assert (Es : s = (lb :: q) ++ [c; rb; rb]) by (unfold s; rewrite Eq; cbn [app]; rewrite <- !app_assoc; reflexivity).
    rewrite Es in FS. cbn [list_ascii_of_string] in FS.
    change (X ++ [lb; lb; rb; rb]) with (X ++ [lb; lb; rb] ++ [rb]) in FS. change ((lb :: q) ++ [c; rb; rb]) with ((lb :: q) ++ [c; rb] ++ [rb]) in FS.
    rewrite !app_assoc in FS. apply app_inj_tail in FS as [FS _].
    change (X ++ [lb; lb; rb]) with (X ++ [lb; lb] ++ [rb]) in FS. change ((lb :: q) ++ [c; rb]) with ((lb :: q) ++ [c] ++ [rb]) in FS.
    rewrite !app_assoc in FS. apply app_inj_tail in FS as [FS _].
    change (X ++ [lb; lb]) with (X ++ [lb] ++ [lb]) in FS. rewrite !app_assoc in FS. apply app_inj_tail in FS as [_ FS]. congruence. }
  rewrite Ew.
  (* the loop starts on the first bucket *)
  assert (Es' : s = [lb] ++ [] ++ lb :: ((b1 ++ rb :: tailstr bs) ++ [rb])) by (unfold s; rewrite I1; reflexivity).
  assert (St : find1 lb s (0 + 1) = 1).
  { unfold find1. rewrite Es'. change (0 + 1) with (len [lb]).
    etransitivity; [apply find_hit; [intros []|rewrite <- Es'; rewrite !len_cons, !len_nil; lia]|reflexivity]. }
  assert (Es'' : s = [] ++ (lb :: lb :: b1) ++ rb :: (tailstr bs ++ [rb])) by (unfold s; rewrite I1; cbn [app]; rewrite <- app_assoc; reflexivity).
  assert (En : find0 rb s = 2 + len b1).
  { unfold find0. rewrite Es''. change 0 with (len (@nil ascii)).
    etransitivity; [apply find_hit|rewrite !len_cons, len_nil; lia].
    - intros [H|[H|H]]; [discriminate|discriminate|exact (proj1 (proj2 G1) H)].
    - rewrite <- Es''. pose proof (len_nonneg (tailstr bs)). rewrite Ls, I1. lens. lia. }
  rewrite St, En.
  replace (Z.to_nat (len s - 1 + 1)) with (List.length s) by (unfold len; lia). rewrite skipn_all.
  assert (Es3 : s = [lb] ++ bstr b1 ++ tailstr bs ++ [rb]) by (unfold s, inner; cbn [app]; rewrite <- app_assoc; reflexivity).
  pose proof (loop_ok bs [lb] b1 [] (S (List.length s)) (2 + len b1)) as LO. cbv zeta in LO. rewrite <- Es3 in LO.
  change (len [lb]) with 1 in LO. replace (1 + 1 + len b1) with (2 + len b1) in LO by lia.
  apply LO; [|exact G1|exact Gbs'].
  pose proof (tailstr_length bs). rewrite Es3. rewrite !app_length. cbn [List.length]. lia.
Qed.


(** * from the raw text to the scanner's input *)
Lemma lstrip_suffix (A rest : str) : (exists c t, rest = c :: t /\ is_ws c = false) -> exists Z, lstrip (A ++ rest) = Z ++ rest.
Proof.
  intros (c & t & -> & Hc). induction A as [|a A IH].
  - exists []. cbn [app]. apply lstrip_core. exact Hc.
  - cbn [app lstrip]. destruct (is_ws a); [exact IH|]. exists (a :: A). reflexivity.
Qed.

Lemma strip_keep (A core w2 : str) : all_ws w2 ->
  (exists c t, core = c :: t /\ is_ws c = false) -> (exists t c, core = t ++ [c] /\ is_ws c = false) ->
  exists Z, strip (A ++ core ++ w2) = Z ++ core.
Proof.
  intros H2 H1 (t' & c2 & E2 & N2). destruct H1 as (c1 & t & E1 & N1).
  destruct (lstrip_suffix A (core ++ w2)) as (Z & EZ); [exists c1, (t ++ w2); split; [rewrite E1; reflexivity|exact N1]|].
  exists Z. unfold strip. rewrite EZ. rewrite app_assoc, rev_app_distr, (lstrip_ws (rev w2) _ (all_ws_rev w2 H2)).
  assert (E' : lstrip (rev (Z ++ core)) = rev (Z ++ core)).
  { rewrite E2, app_assoc, rev_app_distr. cbn [rev app]. apply lstrip_core. exact N2. }
  rewrite E'. apply rev_involutive.
Qed.

(** the two substitutions of braces, as one map *)
Definition unbrace (c : ascii) : ascii := if Ascii.eqb c "}"%char then rb else if Ascii.eqb c "{"%char then lb else c.
Lemma replace_both s : replace_c "}"%char rb (replace_c "{"%char lb s) = map unbrace s.
Proof.
  unfold replace_c. rewrite map_map. apply map_ext. intros a. unfold unbrace.
  destruct (Ascii.eqb_spec a "{"%char) as [->|N1]; [reflexivity|]. reflexivity.
Qed.

Definition no_brace (s : str) : Prop := ~ In "{"%char s /\ ~ In "}"%char s.
Lemma unbrace_id s : no_brace s -> map unbrace s = s.
Proof.
  intros [H1 H2]. rewrite <- (map_id s) at 2. apply map_ext_in. intros a Ha. unfold unbrace.
  destruct (Ascii.eqb_spec a "}"%char) as [->|_]; [contradiction|]. destruct (Ascii.eqb_spec a "{"%char) as [->|_]; [contradiction|reflexivity].
Qed.

(** the text of a ranking whose buckets have the printed contents [bodies], with delimiters [opn], [cls] *)
Definition btxt (opn cls : ascii) (body : str) : str := opn :: body ++ [cls].
Definition txt (opn cls : ascii) (bodies : list str) : str := lb :: join sep (map (btxt opn cls) bodies) ++ [rb].

Definition delims (opn cls : ascii) : Prop := (opn = "{"%char /\ cls = "}"%char) \/ (opn = lb /\ cls = rb).

Lemma join_map_unbrace (f : str -> str) l : (forall x, In x l -> map unbrace (f x) = bstr x) ->
  map unbrace (join sep (map f l)) = join sep (map bstr l).
Proof.
  induction l as [|x l IH]; intros H; [reflexivity|]. destruct l as [|y l].
  - cbn [map join]. apply H. left; reflexivity.
  - change (map f (x :: y :: l)) with (f x :: f y :: map f l). change (map bstr (x :: y :: l)) with (bstr x :: bstr y :: map bstr l).
    rewrite !join_cons2, !map_app. rewrite (H x (or_introl eq_refl)). f_equal. f_equal.
    apply (IH (fun z Hz => H z (or_intror Hz))).
Qed.

Lemma unbrace_txt opn cls bodies : delims opn cls -> Forall no_brace bodies ->
  map unbrace (txt opn cls bodies) = txt lb rb bodies.
Proof.
  intros Hd Hb. unfold txt. cbn [map]. rewrite map_app. cbn [map]. f_equal. f_equal.
  change (btxt lb rb) with bstr. apply join_map_unbrace. intros x Hx. rewrite Forall_forall in Hb. specialize (Hb x Hx).
  unfold btxt, bstr. cbn [map]. rewrite map_app, (unbrace_id x Hb). cbn [map].
  destruct Hd as [[-> ->]|[-> ->]]; reflexivity.
Qed.

Lemma join_tail (x : str) l : join sep (x :: l) = x ++ List.concat (map (fun y => sep ++ y) l).
Proof.
  revert x; induction l as [|y l IH]; intros x; [cbn; rewrite app_nil_r; reflexivity|].
  rewrite join_cons2, IH. cbn [map List.concat]. rewrite <- !app_assoc. reflexivity.
Qed.

Lemma txt_shape b1 bs : txt lb rb (b1 :: bs) = lb :: (bstr b1 ++ tailstr bs) ++ [rb].
Proof.
  unfold txt. cbn [map]. change (btxt lb rb) with bstr. rewrite join_tail. unfold tailstr. rewrite map_map. reflexivity.
Qed.

(** a text that begins with [ and ends with ] and contains no colon *)
Lemma prepare_plain (w1 w2 T : str) : all_ws w1 -> all_ws w2 -> ~ In ":"%char T ->
  (exists t, T = lb :: t) -> (exists t, T = t ++ [rb]) ->
  prepare (w1 ++ T ++ w2) = map unbrace T.
Proof.
  intros H1 H2 Hc (t1 & E1) (t2 & E2). unfold prepare.
  assert (S1 : exists c t, T = c :: t /\ is_ws c = false) by (exists lb, t1; split; [exact E1|reflexivity]).
  assert (S2 : exists t c, T = t ++ [c] /\ is_ws c = false) by (exists t2, rb; split; [exact E2|reflexivity]).
  rewrite (strip_solid w1 w2 T H1 H2 S1 S2). rewrite (split_on_none ":"%char T [] Hc). cbn [rev app last].
  pose proof (strip_solid [] [] T (Forall_nil _) (Forall_nil _) S1 S2) as E. cbn [app] in E. rewrite app_nil_r in E. rewrite E.
  apply replace_both.
Qed.

Lemma prepare_prefixed (A w3 w2 T : str) : all_ws w3 -> all_ws w2 -> ~ In ":"%char T ->
  (exists t, T = lb :: t) -> (exists t, T = t ++ [rb]) ->
  prepare (A ++ ":"%char :: w3 ++ T ++ w2) = map unbrace T.
Proof.
  intros H3 H2 Hc (t1 & E1) (t2 & E2). unfold prepare.
  assert (S1 : exists c t, T = c :: t /\ is_ws c = false) by (exists lb, t1; split; [exact E1|reflexivity]).
  assert (S2 : exists t c, T = t ++ [c] /\ is_ws c = false) by (exists t2, rb; split; [exact E2|reflexivity]).
  set (core := ":"%char :: w3 ++ T).
  destruct (strip_keep A core w2 H2) as (Z & EZ).
  { exists ":"%char, (w3 ++ T). split; reflexivity. }
  { exists (":"%char :: w3 ++ t2), rb. split; [unfold core; rewrite E2; cbn [app]; rewrite <- app_assoc; reflexivity|reflexivity]. }
  replace (A ++ ":"%char :: w3 ++ T ++ w2) with (A ++ core ++ w2) by (unfold core; cbn [app]; rewrite <- app_assoc; reflexivity).
  rewrite EZ. unfold core. rewrite last_split.
  2:{ intros H. apply in_app_or in H as [H|H]; [|contradiction]. unfold all_ws in H3. rewrite Forall_forall in H3. specialize (H3 _ H). discriminate. }
  pose proof (strip_solid w3 [] T H3 (Forall_nil _) S1 S2) as E. rewrite app_nil_r in E. rewrite E. apply replace_both.
Qed.

(** * printing and reading back a non-negative integer *)
Definition dstep (acc : Z) (c : ascii) : Z := acc * 10 + Z.of_nat (nat_of_ascii c - 48).
Lemma int_of_fold s : int_of s = fold_left dstep s 0.
Proof. reflexivity. Qed.

Lemma digit_char (z : Z) : 0 <= z < 10 ->
  let d := ascii_of_nat (48 + Z.to_nat z) in is_digit d = true /\ Z.of_nat (nat_of_ascii d - 48) = z.
Proof.
  intros H. assert (E : exists k, (k < 10)%nat /\ z = Z.of_nat k) by (exists (Z.to_nat z); lia).
  destruct E as (k & Hk & ->). rewrite Nat2Z.id.
  do 10 (destruct k as [|k]; [cbv; split; reflexivity|]). lia.
Qed.

Lemma digits_fuel_spec : forall fuel z acc, (1 <= fuel)%nat -> 0 <= z < 2 ^ Z.of_nat fuel ->
  exists D, digits_fuel fuel z acc = D ++ acc /\ D <> [] /\ forallb is_digit D = true /\
            forall a0, fold_left dstep D a0 = a0 * 10 ^ Z.of_nat (List.length D) + z.
Proof.
  induction fuel as [|f IH]; intros z acc Hf Hz; [lia|]. cbn [digits_fuel].
  assert (Hm : 0 <= z mod 10 < 10) by (apply Z.mod_pos_bound; lia).
  destruct (digit_char (z mod 10) Hm) as [Dg Dv].
  set (d := ascii_of_nat (48 + Z.to_nat (z mod 10))) in *.
  destruct (Z.ltb_spec z 10) as [Lt|Ge].
  - exists [d]. split; [reflexivity|]. split; [discriminate|]. split; [cbn [forallb]; rewrite Dg; reflexivity|].
    intros a0. cbn [fold_left List.length]. unfold dstep. rewrite Dv. rewrite Z.mod_small by lia. change (10 ^ Z.of_nat 1) with 10. lia.
  - assert (Hq : 0 <= z / 10 < 2 ^ Z.of_nat f).
    { split; [apply Z.div_pos; lia|]. apply Z.div_lt_upper_bound; [lia|]. rewrite Nat2Z.inj_succ, Z.pow_succ_r in Hz by lia. lia. }
    assert (Hf' : (1 <= f)%nat).
    { destruct f; [|lia]. cbn in Hq. assert (1 <= z / 10) by (apply Z.div_le_lower_bound; lia). lia. }
    destruct (IH (z / 10) (d :: acc) Hf' Hq) as (D & E & Hne & Hd & Hv).
    exists (D ++ [d]). split; [rewrite E, <- app_assoc; reflexivity|]. split; [destruct D; discriminate|].
    split; [rewrite forallb_app, Hd; cbn [forallb]; rewrite Dg; reflexivity|].
    intros a0. rewrite fold_left_app. cbn [fold_left]. unfold dstep at 1. rewrite Hv, Dv, app_length. cbn [List.length].
    rewrite Nat2Z.inj_add, Z.pow_add_r by lia. change (10 ^ Z.of_nat 1) with 10.
    pose proof (Z.div_mod z 10 ltac:(lia)). lia.
Qed.

Theorem render_int_spec z : 0 <= z ->
  render_int z <> [] /\ forallb is_digit (render_int z) = true /\ int_of (render_int z) = z.
Proof.
  intros Hz. unfold render_int. destruct (Z.ltb_spec z 0); [lia|].
  destruct (digits_fuel_spec (S (Z.to_nat (Z.log2 z))) z [] ltac:(lia)) as (D & E & Hne & Hd & Hv).
  - split; [lia|]. destruct (Z.eq_dec z 0) as [->|Nz]; [cbn; lia|].
    pose proof (Z.log2_spec z ltac:(lia)) as [_ Hu]. pose proof (Z.log2_nonneg z).
    rewrite Nat2Z.inj_succ, Z2Nat.id by lia. exact Hu.
  - rewrite E, app_nil_r. split; [exact Hne|]. split; [exact Hd|]. rewrite int_of_fold, Hv. lia.
Qed.

(** * names *)
Definition forbidden (c : ascii) : bool :=
  Ascii.eqb c lb || Ascii.eqb c rb || Ascii.eqb c "{"%char || Ascii.eqb c "}"%char || Ascii.eqb c ","%char || Ascii.eqb c ":"%char.

(** a printable string name: no delimiter of the format inside, no white space at either end *)
Definition gstr (s : str) : Prop :=
  forallb (fun c => negb (forbidden c)) s = true /\
  (exists c t, s = c :: t /\ is_ws c = false) /\ (exists t c, s = t ++ [c] /\ is_ws c = false).

Lemma digit_plain c : is_digit c = true -> forbidden c = false /\ is_ws c = false.
Proof. destruct c as [[] [] [] [] [] [] [] []]; cbv; intros H; try discriminate; split; reflexivity. Qed.

Lemma digits_gstr D : D <> [] -> forallb is_digit D = true -> gstr D.
Proof.
  intros Hne Hd. rewrite forallb_forall in Hd. split; [|split].
  - apply forallb_forall. intros c Hc. destruct (digit_plain c (Hd c Hc)) as [F _]. rewrite F. reflexivity.
  - destruct D as [|c t]; [contradiction|]. exists c, t. split; [reflexivity|]. apply (digit_plain c). apply Hd. left; reflexivity.
  - destruct (exists_last Hne) as (t & c & ->). exists t, c. split; [reflexivity|]. apply (digit_plain c). apply Hd. apply in_or_app. right. left. reflexivity.
Qed.

Inductive okname : name -> Prop :=
| ok_int z : 0 <= z -> okname (NInt z)
| ok_str s : gstr s -> isdigit s = false -> okname (NStr s).

Notation rstr := render_name.

Lemma okname_gstr x : okname x -> gstr (rstr x).
Proof.
  intros [z Hz|s Hs _]; cbn [render_name]; [|exact Hs].
  destruct (render_int_spec z Hz) as (Hne & Hd & _). apply digits_gstr; assumption.
Qed.

Lemma gstr_not c s : gstr s -> forbidden c = true -> ~ In c s.
Proof. intros (H & _) Hc Hin. rewrite forallb_forall in H. specialize (H c Hin). rewrite Hc in H. discriminate. Qed.

Lemma gstr_good_name s : gstr s -> good_name s.
Proof. intros H. split; [apply (gstr_not _ s H); reflexivity|exact (proj2 H)]. Qed.

Lemma in_join c l : In c (join sep l) -> In c sep \/ exists x, In x l /\ In c x.
Proof.
  induction l as [|x l IH]; [intros []|]. destruct l as [|y l].
  - cbn [join]. intros H. right. exists x. split; [left; reflexivity|exact H].
  - rewrite join_cons2. intros H. apply in_app_or in H as [H|H]; [right; exists x; split; [left; reflexivity|exact H]|].
    apply in_app_or in H as [H|H]; [left; exact H|]. destruct (IH H) as [H'|(z & Hz & Hc)]; [left; exact H'|].
    right. exists z. split; [right; exact Hz|exact Hc].
Qed.

Definition body (b : list name) : str := join sep (map rstr b).

Lemma body_free c b : forbidden c = true -> c <> ","%char -> Forall okname b -> ~ In c (body b).
Proof.
  intros Hc Hcomma Hb Hin. apply in_join in Hin as [Hs|(x & Hx & Hcx)].
  - unfold sep in Hs. destruct Hs as [E|[E|[]]]; [congruence|subst c; discriminate].
  - apply in_map_iff in Hx as (n & <- & Hn). rewrite Forall_forall in Hb. exact (gstr_not c _ (okname_gstr n (Hb n Hn)) Hc Hcx).
Qed.

Lemma body_spec b : b <> [] -> Forall okname b ->
  body b <> [] /\ good_body (body b) /\ no_brace (body b) /\ ~ In ":"%char (body b) /\ pb (body b) = map rstr b.
Proof.
  intros Hne Hb. destruct b as [|x b]; [contradiction|].
  assert (G : Forall good_name (map rstr (x :: b))).
  { rewrite Forall_map. eapply Forall_impl; [|exact Hb]. intros n Hn. apply gstr_good_name, okname_gstr. exact Hn. }
  assert (P : parse_bucket (body (x :: b)) = Some (map rstr (x :: b))) by (unfold body; cbn [map] in *; apply parse_bucket_join; exact G).
  split; [|split; [|split; [|split]]].
  - unfold body. cbn [map]. rewrite join_tail. pose proof (okname_gstr x (Forall_inv Hb)) as (_ & (c & t & E & _) & _). rewrite E. discriminate.
  - split; [apply body_free; [reflexivity|discriminate|exact Hb]|]. split; [apply body_free; [reflexivity|discriminate|exact Hb]|]. rewrite P. discriminate.
  - split; apply body_free; try reflexivity; try discriminate; exact Hb.
  - apply body_free; [reflexivity|discriminate|exact Hb].
  - unfold pb. rewrite P. reflexivity.
Qed.

Lemma render_txt opn cls r : Forall (fun b => b <> []) r -> render opn cls r = txt opn cls (map body r).
Proof.
  intros H. unfold render, txt. f_equal. f_equal. change (list_ascii_of_string ", ") with sep. f_equal.
  rewrite map_map. apply map_ext_in. intros b Hb. rewrite Forall_forall in H. specialize (H b Hb).
  unfold render_bucket, btxt, body. destruct b; [contradiction|]. reflexivity.
Qed.

(** * parsing the text of a ranking *)
Definition okranking (r : list (list name)) : Prop := Forall (fun b => b <> [] /\ Forall okname b) r.

Lemma in_txt c opn cls bodies : In c (txt opn cls bodies) ->
  c = lb \/ c = rb \/ c = opn \/ c = cls \/ In c sep \/ exists b, In b bodies /\ In c b.
Proof.
  unfold txt. intros [H|H]; [left; symmetry; exact H|]. apply in_app_or in H as [H|[H|[]]]; [|right; left; symmetry; exact H].
  apply in_join in H as [H|(x & Hx & Hc)]; [right; right; right; right; left; exact H|].
  apply in_map_iff in Hx as (b & <- & Hb). unfold btxt in Hc. destruct Hc as [Hc|Hc]; [right; right; left; symmetry; exact Hc|].
  apply in_app_or in Hc as [Hc|[Hc|[]]]; [|right; right; right; left; symmetry; exact Hc].
  right; right; right; right; right. exists b. split; assumption.
Qed.

Theorem parse_of_prepare opn cls r raw : delims opn cls -> okranking r ->
  prepare raw = map unbrace (render opn cls r) -> parse raw = POk (map (map rstr) r).
Proof.
  intros Hd Hr Ep.
  assert (Hne : Forall (fun b => b <> []) r) by (eapply Forall_impl; [|exact Hr]; intros b [H _]; exact H).
  rewrite (render_txt opn cls r Hne) in Ep.
  assert (Hnb : Forall no_brace (map body r)).
  { rewrite Forall_map. eapply Forall_impl; [|exact Hr]. intros b [H1 H2]. exact (proj1 (proj2 (proj2 (body_spec b H1 H2)))). }
  rewrite (unbrace_txt opn cls _ Hd Hnb) in Ep.
  destruct r as [|b1 bs].
  - (* the empty ranking prints as [] *)
    cbn in Ep. unfold parse. rewrite Ep. reflexivity.
  - cbn [map] in Ep. rewrite txt_shape in Ep. destruct (Forall_inv Hr) as [N1 O1]. pose proof (Forall_inv_tail Hr) as Hr'.
    destruct (body_spec b1 N1 O1) as (B1 & G1 & _ & _ & P1).
    rewrite (parse_text raw (body b1) (map body bs) Ep B1 G1).
    + rewrite P1, map_map. cbn [map]. f_equal. f_equal. apply map_ext_in. intros b Hb.
      unfold okranking in Hr'. rewrite Forall_forall in Hr'. destruct (Hr' b Hb) as [Nb Ob].
      exact (proj2 (proj2 (proj2 (proj2 (body_spec b Nb Ob))))).
    + rewrite Forall_map. eapply Forall_impl; [|exact Hr']. intros b [Nb Ob]. destruct (body_spec b Nb Ob) as (Bb & Gb & _). split; assumption.
Qed.

Lemma render_no_colon opn cls r : delims opn cls -> okranking r -> ~ In ":"%char (render opn cls r).
Proof.
  intros Hd Hr Hin.
  assert (Hne : Forall (fun b => b <> []) r) by (eapply Forall_impl; [|exact Hr]; intros b [H _]; exact H).
  rewrite (render_txt opn cls r Hne) in Hin. apply in_txt in Hin as [H|[H|[H|[H|[H|(b & Hb & Hc)]]]]]; try discriminate.
  - destruct Hd as [[-> _]|[-> _]]; discriminate.
  - destruct Hd as [[_ ->]|[_ ->]]; discriminate.
  - unfold sep in H. destruct H as [H|[H|[]]]; discriminate.
  - apply in_map_iff in Hb as (b' & <- & Hb'). unfold okranking in Hr. rewrite Forall_forall in Hr. destruct (Hr b' Hb') as [Nb Ob].
    exact (proj1 (proj2 (proj2 (proj2 (body_spec b' Nb Ob)))) Hc).
Qed.

Lemma render_ends opn cls r : (exists t, render opn cls r = lb :: t) /\ (exists t, render opn cls r = t ++ [rb]).
Proof.
  unfold render. split; [eexists; reflexivity|]. exists (lb :: join (list_ascii_of_string ", ") (map (render_bucket opn cls) r)). reflexivity.
Qed.

(** surrounded by white space ... *)
Theorem parse_render opn cls r w1 w2 : delims opn cls -> okranking r -> all_ws w1 -> all_ws w2 ->
  parse (w1 ++ render opn cls r ++ w2) = POk (map (map rstr) r).
Proof.
  intros Hd Hr H1 H2. apply (parse_of_prepare opn cls r _ Hd Hr).
  destruct (render_ends opn cls r) as [E1 E2]. apply prepare_plain; try assumption. apply render_no_colon; assumption.
Qed.

(** ... and after any prefix that ends with a colon *)
Theorem parse_render_prefixed opn cls r A w3 w2 : delims opn cls -> okranking r -> all_ws w3 -> all_ws w2 ->
  parse (A ++ ":"%char :: w3 ++ render opn cls r ++ w2) = POk (map (map rstr) r).
Proof.
  intros Hd Hr H3 H2. apply (parse_of_prepare opn cls r _ Hd Hr).
  destruct (render_ends opn cls r) as [E1 E2]. apply prepare_prefixed; try assumption. apply render_no_colon; assumption.
Qed.

(** * Ranking.from_string *)
Lemma name_eqb_eq a b : name_eqb a b = true -> a = b.
Proof.
  destruct a as [x|x], b as [y|y]; cbn [name_eqb]; try discriminate.
  - intros H. apply Z.eqb_eq in H. congruence.
  - intros H. apply str_eqb_eq in H. congruence.
Qed.

Lemma nmem_false x l : ~ In x l -> nmem x l = false.
Proof.
  intros H. unfold nmem. destruct (existsb (name_eqb x) l) eqn:E; [|reflexivity]. exfalso.
  apply existsb_exists in E as (y & Hy & Ey). apply name_eqb_eq in Ey. subst. contradiction.
Qed.

Lemma ndedup_nodup l : NoDup l -> ndedup l = l.
Proof.
  induction 1 as [|x l Hx _ IH]; [reflexivity|]. cbn [ndedup]. rewrite (nmem_false x l Hx), IH. reflexivity.
Qed.

Lemma disjoint_nodup : forall bs seen, NoDup (List.concat bs) -> (forall x, In x (List.concat bs) -> ~ In x seen) ->
  disjoint_buckets seen bs = true.
Proof.
  induction bs as [|b bs IH]; intros seen Nd Hs; [reflexivity|]. cbn [disjoint_buckets List.concat] in *.
  destruct (NoDup_app_inv _ _ Nd) as (Nb & Nbs & Dj). apply andb_true_iff. split.
  - apply forallb_forall. intros x Hx. rewrite nmem_false; [reflexivity|]. apply Hs. apply in_or_app. left. exact Hx.
  - apply IH; [exact Nbs|]. intros x Hx Hin. apply in_app_or in Hin as [Hin|Hin]; [exact (Dj x Hin Hx)|].
    exact (Hs x ltac:(apply in_or_app; right; exact Hx) Hin).
Qed.

Definition all_int_names (r : list (list name)) : Prop := forall b x, In b r -> In x b -> exists z, x = NInt z.
Definition all_str_names (r : list (list name)) : Prop := forall b x, In b r -> In x b -> exists s, x = NStr s.

Lemma isdigit_render_int z : 0 <= z -> isdigit (render_int z) = true.
Proof.
  intros Hz. destruct (render_int_spec z Hz) as (Hne & Hd & _). unfold isdigit. destruct (render_int z); [contradiction|exact Hd].
Qed.

Theorem typing_roundtrip r : okranking r -> (all_int_names r \/ all_str_names r) -> NoDup (List.concat r) ->
  let bsl := map (map rstr) r in
  let all_ints := forallb (fun b => forallb isdigit b) bsl in
  let named := map (fun b => ndedup (map (fun e => if all_ints then NInt (int_of e) else NStr e) b)) bsl in
  named = r /\ disjoint_buckets [] named = true.
Proof.
  intros Hr Hh Nd bsl all_ints named.
  assert (Hok : forall b x, In b r -> In x b -> okname x).
  { intros b x Hb Hx. unfold okranking in Hr. rewrite Forall_forall in Hr. destruct (Hr b Hb) as [_ H]. rewrite Forall_forall in H. exact (H x Hx). }
  assert (Nb : forall b, In b r -> NoDup b).
  { intros b Hb. apply in_split in Hb as (r1 & r2 & ->). rewrite concat_app in Nd. cbn [List.concat] in Nd.
    destruct (NoDup_app_inv _ _ Nd) as (_ & N2 & _). destruct (NoDup_app_inv _ _ N2) as (N3 & _ & _). exact N3. }
  assert (Conv : forall b x, In b r -> In x b -> (if all_ints then NInt (int_of (rstr x)) else NStr (rstr x)) = x).
  { destruct Hh as [Hi|Hs].
    - assert (Ea : all_ints = true).
      { unfold all_ints, bsl. apply forallb_forall. intros sb Hsb. apply in_map_iff in Hsb as (b & <- & Hb).
        apply forallb_forall. intros e He. apply in_map_iff in He as (x & <- & Hx).
        destruct (Hi b x Hb Hx) as (z & ->). pose proof (Hok b _ Hb Hx) as O. inversion O; subst. cbn [render_name]. apply isdigit_render_int. assumption. }
      rewrite Ea. intros b x Hb Hx. destruct (Hi b x Hb Hx) as (z & ->). pose proof (Hok b _ Hb Hx) as O. inversion O; subst.
      cbn [render_name]. destruct (render_int_spec z ltac:(assumption)) as (_ & _ & E). rewrite E. reflexivity.
    - destruct r as [|b1 bs]; [intros b x []|].
      assert (Ea : all_ints = false).
      { unfold all_ints, bsl. cbn [map forallb]. apply andb_false_iff. left.
        unfold okranking in Hr. destruct (Forall_inv Hr) as [N1 _]. destruct b1 as [|x b1]; [contradiction|]. cbn [map forallb].
        destruct (Hs (x :: b1) x (or_introl eq_refl) (or_introl eq_refl)) as (s & ->).
        pose proof (Hok (NStr s :: b1) (NStr s) (or_introl eq_refl) (or_introl eq_refl)) as O. inversion O; subst. cbn [render_name].
        apply andb_false_iff. left. assumption. }
      rewrite Ea. intros b x Hb Hx. destruct (Hs b x Hb Hx) as (s & ->). reflexivity. }
  assert (En : named = r).
  { unfold named, bsl. rewrite map_map. rewrite <- (map_id r) at 2. apply map_ext_in. intros b Hb.
    rewrite map_map. rewrite (map_ext_in _ (fun x => x)); [rewrite map_id; apply ndedup_nodup; exact (Nb b Hb)|].
    intros x Hx. exact (Conv b x Hb Hx). }
  split; [exact En|]. rewrite En. apply disjoint_nodup; [exact Nd|intros x _ []].
Qed.

(** * the round trip through a string *)
Definition printable (r : list (list name)) : Prop :=
  okranking r /\ (all_int_names r \/ all_str_names r) /\ NoDup (List.concat r).

Lemma from_string_of_parse raw r : printable r -> parse raw = POk (map (map rstr) r) -> from_string raw = POk r.
Proof.
  intros (Hr & Hh & Nd) Ep. unfold from_string. rewrite Ep.
  destruct (typing_roundtrip r Hr Hh Nd) as [En Ed]. cbv zeta in En, Ed. rewrite Ed, En. reflexivity.
Qed.

Theorem roundtrip_string opn cls r w1 w2 : delims opn cls -> printable r -> all_ws w1 -> all_ws w2 ->
  from_string (w1 ++ render opn cls r ++ w2) = POk r.
Proof. intros Hd Hp H1 H2. apply (from_string_of_parse _ r Hp). apply parse_render; try assumption. exact (proj1 Hp). Qed.

Theorem roundtrip_string_prefixed opn cls r A w3 w2 : delims opn cls -> printable r -> all_ws w3 -> all_ws w2 ->
  from_string (A ++ ":"%char :: w3 ++ render opn cls r ++ w2) = POk r.
Proof. intros Hd Hp H3 H2. apply (from_string_of_parse _ r Hp). apply parse_render_prefixed; try assumption. exact (proj1 Hp). Qed.

(** * the round trip through a file *)
Lemma split_lines : forall (ls : list str) cur, Forall (fun l => ~ In nl l) ls ->
  split_on nl (List.concat (map (fun l => l ++ [nl]) ls)) cur =
  match ls with [] => [rev cur] | l :: ls' => (rev cur ++ l) :: ls' ++ [[]] end.
Proof.
  induction ls as [|l ls IH]; intros cur H; [reflexivity|]. cbn [map List.concat]. rewrite <- app_assoc. cbn [app].
  rewrite split_on_hit by exact (Forall_inv H). rewrite (IH [] (Forall_inv_tail H)). destruct ls; reflexivity.
Qed.

Lemma drop_bs_nl_unfold a b t :
  drop_bs_nl (a :: b :: t) = if Ascii.eqb a "\"%char && Ascii.eqb b nl then drop_bs_nl t else a :: drop_bs_nl (b :: t).
Proof. reflexivity. Qed.

(** no backslash immediately followed by a newline *)
Fixpoint nobs (s : str) : bool :=
  match s with
  | a :: ((b :: _) as t) => negb (Ascii.eqb a "\"%char && Ascii.eqb b nl) && nobs t
  | _ => true
  end.

Lemma drop_bs_nl_id (s : str) : nobs s = true -> drop_bs_nl s = s.
Proof.
  induction s as [|a s IH]; intros H; [reflexivity|]. destruct s as [|b t]; [reflexivity|]. rewrite drop_bs_nl_unfold.
  cbn [nobs] in H. apply andb_true_iff in H as [H1 H2]. apply negb_true_iff in H1. rewrite H1. f_equal. apply IH. exact H2.
Qed.

Lemma nobs_line : forall (l rest : str), ~ In nl l -> (exists t c, l = t ++ [c] /\ c <> "\"%char) -> nobs rest = true ->
  nobs (l ++ nl :: rest) = true.
Proof.
  induction l as [|a l IH]; intros rest Hn (t & c & E & Hc) Hr; [destruct t; discriminate|].
  destruct l as [|b l].
  - destruct t as [|? [|? ?]]; try discriminate. inversion E; subst. cbn [app nobs].
    rewrite (eqb_neq_false c _ Hc). cbn [andb negb]. destruct rest as [|r0 rest']; [reflexivity|].
    replace (Ascii.eqb nl "\"%char) with false by reflexivity. cbn [andb negb]. exact Hr.
  - change ((a :: b :: l) ++ nl :: rest) with (a :: (b :: l) ++ nl :: rest). cbn [app nobs].
    assert (Hb : Ascii.eqb b nl = false) by (apply eqb_neq_false; intros ->; apply Hn; right; left; reflexivity).
    rewrite Hb, andb_false_r. cbn [negb andb]. apply (IH rest); [intros H; apply Hn; right; exact H| |exact Hr].
    destruct t as [|t0 t']; [discriminate|]. inversion E; subst. exists t', c. split; [assumption|exact Hc].
Qed.

Lemma digits_us_digits : forall D acc prev, forallb is_digit D = true -> (D <> [] \/ prev = true) ->
  digits_us D acc prev = Some (fold_left dstep D acc).
Proof.
  induction D as [|c D IH]; intros acc prev Hd Hne.
  - cbn [digits_us fold_left]. destruct Hne as [H| ->]; [contradiction|reflexivity].
  - cbn [forallb] in Hd. apply andb_true_iff in Hd as [Hc Hd]. cbn [digits_us fold_left]. rewrite Hc.
    apply IH; [exact Hd|right; reflexivity].
Qed.

Lemma py_int_render z : 0 <= z -> py_int (render_int z) = Some z.
Proof.
  intros Hz. destruct (render_int_spec z Hz) as (Hne & Hd & Ev). unfold py_int.
  rewrite (strip_good _ (gstr_good_name _ (digits_gstr _ Hne Hd))).
  destruct (render_int z) as [|c t] eqn:E; [contradiction|].
  assert (Hc : is_digit c = true) by (cbn [forallb] in Hd; apply andb_true_iff in Hd as [H _]; exact H).
  assert (N1 : Ascii.eqb c "-"%char = false) by (destruct c as [[] [] [] [] [] [] [] []]; cbv in Hc |- *; congruence).
  assert (N2 : Ascii.eqb c "+"%char = false) by (destruct c as [[] [] [] [] [] [] [] []]; cbv in Hc |- *; congruence).
  rewrite N1, N2. rewrite digits_us_digits; [|exact Hd|left; discriminate]. rewrite <- int_of_fold, Ev. reflexivity.
Qed.

Lemma all_some_map_some {A} (l : list A) : all_some (map Some l) = Some l.
Proof. induction l as [|a l IH]; [reflexivity|]. cbn [map all_some]. rewrite IH. reflexivity. Qed.

Lemma all_some_none {A} (l : list (option A)) : In None l -> all_some l = None.
Proof.
  induction l as [|o l IH]; intros H; [destruct H|]. destruct H as [->|H]; [reflexivity|].
  cbn [all_some]. destruct o; [rewrite (IH H); reflexivity|reflexivity].
Qed.

(** datasets that can be written to a file: every ranking printable, no newline inside a name, and the whole
    dataset made of integers or of strings that Python's int() refuses *)
Definition name_no_nl (x : name) : Prop := match x with NInt _ => True | NStr s => ~ In nl s end.
Definition file_dataset (d : list (list (list name))) : Prop :=
  Forall (fun r => okranking r /\ NoDup (List.concat r) /\ Forall (Forall name_no_nl) r) d /\
  ((forall r b x, In r d -> In b r -> In x b -> exists z, x = NInt z) \/
   (forall r b x, In r d -> In b r -> In x b -> exists s, x = NStr s /\ py_int s = None)).

Notation line := (render "{"%char "}"%char).

Lemma delims_brace : delims "{"%char "}"%char.
Proof. left. split; reflexivity. Qed.

Lemma line_no_nl r : okranking r -> Forall (Forall name_no_nl) r -> ~ In nl (line r).
Proof.
  intros Hr Hn Hin.
  assert (Hne : Forall (fun b => b <> []) r) by (eapply Forall_impl; [|exact Hr]; intros b [H _]; exact H).
  rewrite (render_txt _ _ r Hne) in Hin. apply in_txt in Hin as [H|[H|[H|[H|[H|(bd & Hb & Hc)]]]]]; try discriminate.
  - unfold sep in H. destruct H as [H|[H|[]]]; discriminate.
  - apply in_map_iff in Hb as (b & <- & Hb). apply in_join in Hc as [Hc|(sx & Hsx & Hc)].
    + unfold sep in Hc. destruct Hc as [H|[H|[]]]; discriminate.
    + apply in_map_iff in Hsx as (x & <- & Hx). rewrite Forall_forall in Hn. specialize (Hn b Hb). rewrite Forall_forall in Hn. specialize (Hn x Hx).
      unfold okranking in Hr. rewrite Forall_forall in Hr. destruct (Hr b Hb) as [_ Ob]. rewrite Forall_forall in Ob. specialize (Ob x Hx).
      destruct Ob as [z Hz|s Hs _]; cbn [render_name name_no_nl] in *; [|contradiction].
      destruct (render_int_spec z Hz) as (_ & Hd & _). rewrite forallb_forall in Hd. specialize (Hd nl Hc). discriminate.
Qed.

Lemma keep_line_line r : okranking r -> keep_line (line r) = true.
Proof.
  intros Hr. unfold keep_line. apply andb_true_iff. split; [|reflexivity].
  destruct r as [|b1 bs]; [reflexivity|]. apply orb_true_iff. left. apply Z.ltb_lt.
  assert (Hne : Forall (fun b => b <> []) (b1 :: bs)) by (eapply Forall_impl; [|exact Hr]; intros b [H _]; exact H).
  rewrite (render_txt _ _ _ Hne). cbn [map]. unfold txt. cbn [map]. rewrite join_tail. unfold btxt. lens.
  pose proof (len_nonneg (body b1)). pose proof (len_nonneg (List.concat (map (fun y => sep ++ y) (map (btxt "{"%char "}"%char) (map body bs))))).
  match goal with |- context [len (List.concat ?x)] => pose proof (len_nonneg (List.concat x)) end. lia.
Qed.

Lemma write_text_lines d : write_text d = List.concat (map (fun l => l ++ [nl]) (map line d)).
Proof. unfold write_text. rewrite map_map. reflexivity. Qed.

Lemma nobs_write d : Forall (fun r => okranking r /\ Forall (Forall name_no_nl) r) d -> nobs (write_text d) = true.
Proof.
  induction 1 as [|r d [Hr Hn] _ IH]; [reflexivity|]. unfold write_text in *. cbn [map List.concat]. rewrite <- app_assoc. cbn [app].
  apply nobs_line; [apply line_no_nl; assumption| |exact IH].
  destruct (render_ends "{"%char "}"%char r) as [_ (t & E)]. exists t, rb. split; [exact E|discriminate].
Qed.

Lemma file_lines_write d : Forall (fun r => okranking r /\ Forall (Forall name_no_nl) r) d ->
  file_lines (write_text d) = map line d.
Proof.
  intros H. unfold file_lines. rewrite (drop_bs_nl_id _ (nobs_write d H)), write_text_lines.
  rewrite split_lines by (rewrite Forall_map; eapply Forall_impl; [|exact H]; intros r [Hr Hn]; apply line_no_nl; assumption).
  assert (K : filter keep_line (map line d) = map line d).
  { clear -H. induction H as [|r d [Hr _] _ IH]; [reflexivity|]. cbn [map filter]. rewrite (keep_line_line r Hr), IH. reflexivity. }
  destruct d as [|r d]; [reflexivity|]. cbn [map rev app].
  change (line r :: map line d ++ [[]]) with ((line r :: map line d) ++ [[]]). rewrite filter_app. cbn [filter] in *. replace (keep_line []) with false by reflexivity. rewrite app_nil_r.
  exact K.
Qed.

Lemma parse_lines_write d : Forall (fun r => okranking r) d ->
  parse_lines (map line d) = POk (map (fun r => map (map rstr) r) d).
Proof.
  induction 1 as [|r d Hr _ IH]; [reflexivity|]. cbn [map parse_lines].
  pose proof (parse_render "{"%char "}"%char r [] [] delims_brace Hr (Forall_nil _) (Forall_nil _)) as E. cbn [app] in E. rewrite app_nil_r in E.
  rewrite E, IH. reflexivity.
Qed.

Lemma forallb_false_witness {A} (f : A -> bool) l x : In x l -> f x = false -> forallb f l = false.
Proof.
  intros Hx Fx. destruct (forallb f l) eqn:E; [|reflexivity]. rewrite forallb_forall in E. rewrite (E x Hx) in Fx. discriminate.
Qed.

Definition z_of (x : name) : Z := match x with NInt z => z | NStr _ => 0 end.

Theorem roundtrip_file d : file_dataset d -> read_text (write_text d) = POk d.
Proof.
  intros (Hd & Hh).
  assert (H1 : Forall (fun r => okranking r /\ Forall (Forall name_no_nl) r) d) by (eapply Forall_impl; [|exact Hd]; intros r (A & _ & B); split; assumption).
  assert (H2 : Forall (fun r => okranking r) d) by (eapply Forall_impl; [|exact Hd]; intros r (A & _); exact A).
  unfold read_text. rewrite (file_lines_write d H1), (parse_lines_write d H2). cbv zeta.
  assert (Hok : forall r b x, In r d -> In b r -> In x b -> okname x).
  { intros r b x Hr Hb Hx. rewrite Forall_forall in H2. specialize (H2 r Hr). unfold okranking in H2. rewrite Forall_forall in H2.
    destruct (H2 b Hb) as [_ O]. rewrite Forall_forall in O. exact (O x Hx). }
  assert (Nb : forall r b, In r d -> In b r -> NoDup b).
  { intros r b Hr Hb. rewrite Forall_forall in Hd. destruct (Hd r Hr) as (_ & Nd & _).
    apply in_split in Hb as (r1 & r2 & ->). rewrite concat_app in Nd. cbn [List.concat] in Nd.
    destruct (NoDup_app_inv _ _ Nd) as (_ & N2 & _). destruct (NoDup_app_inv _ _ N2) as (N3 & _ & _). exact N3. }
  assert (Dis : forallb (disjoint_buckets []) d = true).
  { apply forallb_forall. intros r Hr. rewrite Forall_forall in Hd. destruct (Hd r Hr) as (_ & Nd & _). apply disjoint_nodup; [exact Nd|intros x _ []]. }
  (* is there any element at all? *)
  assert (IntCase : (forall r b x, In r d -> In b r -> In x b -> exists z, x = NInt z) ->
    all_some (map (fun r => all_some (map (fun b => all_some (map py_int b)) r)) (map (fun r => map (map rstr) r) d)) = Some (map (map (map z_of)) d)).
  { intros Hi. rewrite map_map. rewrite <- (all_some_map_some (map (map (map z_of)) d)). f_equal. rewrite map_map.
    apply map_ext_in. intros r Hr. rewrite map_map. rewrite <- (all_some_map_some (map (map z_of) r)). f_equal. rewrite map_map.
    apply map_ext_in. intros b Hb. rewrite map_map. rewrite <- (all_some_map_some (map z_of b)). f_equal. rewrite map_map.
    apply map_ext_in. intros x Hx. destruct (Hi r b x Hr Hb Hx) as (z & ->). pose proof (Hok r b _ Hr Hb Hx) as O. inversion O; subst.
    cbn [render_name z_of]. apply py_int_render. assumption. }
  assert (IntDone : (forall r b x, In r d -> In b r -> In x b -> exists z, x = NInt z) ->
    map (map (fun b => ndedup (map NInt b))) (map (map (map z_of)) d) = d).
  { intros Hi. rewrite map_map. rewrite <- (map_id d) at 2. apply map_ext_in. intros r Hr. rewrite map_map. rewrite <- (map_id r) at 2.
    apply map_ext_in. intros b Hb. rewrite map_map. rewrite (map_ext_in _ (fun x => x)); [rewrite map_id; apply ndedup_nodup; exact (Nb r b Hr Hb)|].
    intros x Hx. destruct (Hi r b x Hr Hb Hx) as (z & ->). reflexivity. }
  destruct Hh as [Hi|Hs].
  - rewrite (IntCase Hi), (IntDone Hi), Dis. reflexivity.
  - destruct (List.concat (map (@List.concat name) d)) as [|x0 rest] eqn:Eel.
    + (* no element at all: the integer reading succeeds vacuously *)
      assert (Hi : forall r b x, In r d -> In b r -> In x b -> exists z, x = NInt z).
      { intros r b x Hr Hb Hx. exfalso. assert (In x (List.concat (map (@List.concat name) d))) as Hin.
        { apply in_concat. exists (List.concat r). split; [apply in_map; exact Hr|apply in_concat; exists b; split; assumption]. }
        rewrite Eel in Hin. destruct Hin. }
      rewrite (IntCase Hi), (IntDone Hi), Dis. reflexivity.
    + assert (In x0 (List.concat (map (@List.concat name) d))) as Hin by (rewrite Eel; left; reflexivity).
      apply in_concat in Hin as (cr & Hcr & Hx0). apply in_map_iff in Hcr as (r0 & <- & Hr0). apply in_concat in Hx0 as (b0 & Hb0 & Hx0).
      destruct (Hs r0 b0 x0 Hr0 Hb0 Hx0) as (s0 & -> & Pn0). pose proof (Hok r0 b0 _ Hr0 Hb0 Hx0) as O0. inversion O0 as [|? G0 D0]; subst.
      (* the integer reading fails *)
      assert (Enone : all_some (map (fun r => all_some (map (fun b => all_some (map py_int b)) r)) (map (fun r => map (map rstr) r) d)) = None).
      { apply all_some_none. rewrite map_map. apply in_map_iff. exists r0. split; [|exact Hr0].
        apply all_some_none. rewrite map_map. apply in_map_iff. exists b0. split; [|exact Hb0].
        apply all_some_none. rewrite map_map. apply in_map_iff. exists (NStr s0). split; [exact Pn0|exact Hx0]. }
      rewrite Enone.
      assert (Ealld : forallb (fun r => forallb (fun b => forallb isdigit b) r) (map (fun r => map (map rstr) r) d) = false).
      { apply (forallb_false_witness _ _ (map (map rstr) r0)); [apply in_map_iff; exists r0; split; [reflexivity|exact Hr0]|].
        apply (forallb_false_witness _ _ (map rstr b0)); [apply in_map; exact Hb0|].
        apply (forallb_false_witness _ _ s0); [change s0 with (rstr (NStr s0)); apply in_map; exact Hx0|exact D0]. }
      rewrite Ealld.
      assert (En : map (map (fun b => ndedup (map (fun e => NStr e) b))) (map (fun r => map (map rstr) r) d) = d).
      { rewrite map_map. rewrite <- (map_id d) at 2. apply map_ext_in. intros r Hr. rewrite map_map. rewrite <- (map_id r) at 2.
        apply map_ext_in. intros b Hb. rewrite map_map. rewrite (map_ext_in _ (fun x => x)); [rewrite map_id; apply ndedup_nodup; exact (Nb r b Hr Hb)|].
        intros x Hx. destruct (Hs r b x Hr Hb Hx) as (s & -> & _). reflexivity. }
      cbv zeta. rewrite En, Dis. reflexivity.
Qed.
