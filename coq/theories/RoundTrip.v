(** Property C18, the round trip: parsing the textual form of a ranking gives the ranking back. *)
From Corankco Require Import Prelude Parser ParserProof.
From Coq Require Import Ascii String.
Local Open Scope Z_scope.

(** * lists of characters, lengths *)
Lemma len_app (a b : str) : len (a ++ b) = len a + len b.
Proof. unfold len. rewrite app_length. lia. Qed.
Lemma len_cons c (a : str) : len (c :: a) = 1 + len a.
Proof. unfold len. cbn [List.length]. lia. Qed.
Lemma len_nonneg (a : str) : 0 <= len a.
Proof. unfold len. lia. Qed.
Lemma len_nil : len [] = 0.
Proof. reflexivity. Qed.

Lemma skipn_len_app (P Q : str) : skipn (Z.to_nat (len P)) (P ++ Q) = Q.
Proof. unfold len. rewrite Nat2Z.id. rewrite skipn_app, skipn_all, Nat.sub_diag. reflexivity. Qed.

Lemma norm_id i n : 0 <= i <= n -> norm i n = i.
Proof. intros H. unfold norm. destruct (Z.ltb_spec i 0); lia. Qed.

(** * find *)
Lemma eqb_neq_false (a c : ascii) : a <> c -> Ascii.eqb a c = false.
Proof. intros H. destruct (Ascii.eqb_spec a c); [contradiction|reflexivity]. Qed.

Lemma find_aux_hit c (A B : str) i stop :
  ~ In c A -> i + len A < stop -> find_aux c (A ++ c :: B) i stop = i + len A.
Proof.
  revert i; induction A as [|a A IH]; intros i Hn Hs.
  - cbn [app find_aux]. rewrite len_nil in *. destruct (Z.leb_spec stop i); [lia|]. rewrite Ascii.eqb_refl. lia.
  - cbn [app find_aux]. rewrite len_cons in *. pose proof (len_nonneg A). destruct (Z.leb_spec stop i); [lia|].
    rewrite eqb_neq_false by (intros ->; apply Hn; left; reflexivity).
    rewrite IH by (try lia; intros HH; apply Hn; right; exact HH). lia.
Qed.

Lemma find_aux_stop c (A : str) i stop : stop <= i -> find_aux c A i stop = -1.
Proof. intros H. destruct A; cbn [find_aux]; [reflexivity|]. destruct (Z.leb_spec stop i); [reflexivity|lia]. Qed.

Lemma find_aux_none c (A : str) i stop : ~ In c A -> find_aux c A i stop = -1.
Proof.
  revert i; induction A as [|a A IH]; intros i Hn; [reflexivity|]. cbn [find_aux]. destruct (stop <=? i); [reflexivity|].
  rewrite eqb_neq_false by (intros ->; apply Hn; left; reflexivity). apply IH. intros H; apply Hn; right; exact H.
Qed.

(** the first [c] at or after position [a = len P] is right after [A] *)
Lemma find_hit c (P A B : str) b :
  ~ In c A -> len P + len A < b <= len (P ++ A ++ c :: B) ->
  find c (P ++ A ++ c :: B) (len P) b = len P + len A.
Proof.
  intros Hn Hb. unfold find. set (s := P ++ A ++ c :: B) in *.
  assert (Hl : len s = len P + len A + 1 + len B) by (unfold s; rewrite !len_app, len_cons; lia).
  pose proof (len_nonneg P). pose proof (len_nonneg A). pose proof (len_nonneg B).
  rewrite (norm_id (len P)) by lia. rewrite (norm_id b) by lia. unfold s. rewrite skipn_len_app.
  apply find_aux_hit; [exact Hn|lia].
Qed.

Lemma find_empty_range c (s : str) a b : 0 <= a -> 0 <= b <= a -> find c s a b = -1.
Proof.
  intros Ha Hb. unfold find. pose proof (len_nonneg s). apply find_aux_stop.
  unfold norm. destruct (Z.ltb_spec a 0); destruct (Z.ltb_spec b 0); lia.
Qed.

(** no [c] between position [len P] and position [b] *)
Lemma find_miss c (P A B : str) b :
  ~ In c A -> 0 <= b <= len P + len A -> find c (P ++ A ++ B) (len P) b = -1.
Proof.
  intros Hn Hb. unfold find. set (s := P ++ A ++ B).
  assert (Hl : len s = len P + len A + len B) by (unfold s; rewrite !len_app; lia).
  pose proof (len_nonneg P). pose proof (len_nonneg A). pose proof (len_nonneg B).
  rewrite (norm_id (len P)) by lia. rewrite (norm_id b) by lia. unfold s. rewrite skipn_len_app.
  (* scanning A then stopping *)
  assert (G : forall A0 i, ~ In c A0 -> b <= i + len A0 -> find_aux c (A0 ++ B) i b = -1).
  { induction A0 as [|a A0 IH]; intros i Hn0 Hi.
    - rewrite len_nil in Hi. apply find_aux_stop. lia.
    - cbn [app find_aux]. destruct (b <=? i); [reflexivity|]. rewrite eqb_neq_false by (intros ->; apply Hn0; left; reflexivity).
      apply IH; [intros H'; apply Hn0; right; exact H'|rewrite len_cons in Hi; lia]. }
  apply G; [exact Hn|lia].
Qed.

(** * rfind *)
Lemma rfind_aux_app c (A B : str) i best : rfind_aux c (A ++ B) i best = rfind_aux c B (i + len A) (rfind_aux c A i best).
Proof.
  revert i best; induction A as [|a A IH]; intros i best; [cbn [app rfind_aux]; rewrite len_nil; f_equal; lia|].
  cbn [app rfind_aux]. rewrite IH, len_cons. f_equal. lia.
Qed.
Lemma rfind_last c (A : str) : rfind c (A ++ [c]) = len A.
Proof. unfold rfind. rewrite rfind_aux_app. cbn [rfind_aux]. rewrite Ascii.eqb_refl. lia. Qed.

(** * slice *)
Lemma slice_mid (P M Q : str) : slice (P ++ M ++ Q) (len P) (len P + len M) = M.
Proof.
  unfold slice. set (s := P ++ M ++ Q).
  assert (Hl : len s = len P + len M + len Q) by (unfold s; rewrite !len_app; lia).
  pose proof (len_nonneg P). pose proof (len_nonneg M). pose proof (len_nonneg Q).
  rewrite (norm_id (len P)), (norm_id (len P + len M)) by lia.
  destruct (Z.leb_spec (len P + len M) (len P)) as [Le|Gt].
  - assert (len M = 0) by lia. destruct M; [reflexivity|rewrite len_cons in *; pose proof (len_nonneg M); lia].
  - unfold s. rewrite skipn_len_app. replace (len P + len M - len P) with (len M) by lia.
    unfold len. rewrite Nat2Z.id, firstn_app, firstn_all, Nat.sub_diag. cbn [firstn]. apply app_nil_r.
Qed.

(** * white space *)
Definition all_ws (w : str) : Prop := Forall (fun c => is_ws c = true) w.

Lemma lstrip_ws (w x : str) : all_ws w -> lstrip (w ++ x) = lstrip x.
Proof. induction 1 as [|c w Hc _ IH]; [reflexivity|]. cbn [app lstrip]. rewrite Hc. exact IH. Qed.
Lemma lstrip_core c (x : str) : is_ws c = false -> lstrip (c :: x) = c :: x.
Proof. intros H. cbn [lstrip]. rewrite H. reflexivity. Qed.

Lemma all_ws_rev w : all_ws w -> all_ws (rev w).
Proof. intros H. unfold all_ws in *. rewrite Forall_forall in *. intros c Hc. apply H. apply in_rev. exact Hc. Qed.

(** [x] begins and ends with a character that is not white space *)
Definition solid (x : str) : Prop := exists c1 mid c2, (x = [c1] /\ is_ws c1 = false /\ c2 = c1 /\ mid = []) \/
  (x = c1 :: mid ++ [c2] /\ is_ws c1 = false /\ is_ws c2 = false).

Lemma strip_solid (w1 w2 x : str) : all_ws w1 -> all_ws w2 ->
  (exists c1 t, x = c1 :: t /\ is_ws c1 = false) -> (exists t c2, x = t ++ [c2] /\ is_ws c2 = false) ->
  strip (w1 ++ x ++ w2) = x.
Proof.
  intros H1 H2 (c1 & t & E1 & N1) (t' & c2 & E2 & N2). unfold strip.
  rewrite (lstrip_ws w1 _ H1).
  assert (E : lstrip (x ++ w2) = x ++ w2) by (rewrite E1; cbn [app]; apply lstrip_core; exact N1). rewrite E.
  rewrite rev_app_distr, (lstrip_ws (rev w2) _ (all_ws_rev w2 H2)).
  assert (E' : lstrip (rev x) = rev x) by (rewrite E2, rev_app_distr; cbn [rev app]; apply lstrip_core; exact N2).
  rewrite E'. apply rev_involutive.
Qed.

(** * split *)
Lemma split_on_none c (s cur : str) : ~ In c s -> split_on c s cur = [rev cur ++ s].
Proof.
  revert cur; induction s as [|a s IH]; intros cur Hn; [cbn; rewrite app_nil_r; reflexivity|].
  cbn [split_on]. rewrite eqb_neq_false by (intros ->; apply Hn; left; reflexivity).
  rewrite IH by (intros H; apply Hn; right; exact H). cbn [rev]. rewrite <- app_assoc. reflexivity.
Qed.

Lemma split_on_hit c (A B cur : str) : ~ In c A -> split_on c (A ++ c :: B) cur = (rev cur ++ A) :: split_on c B [].
Proof.
  revert cur; induction A as [|a A IH]; intros cur Hn.
  - cbn [app split_on]. rewrite Ascii.eqb_refl, app_nil_r. reflexivity.
  - cbn [app split_on]. rewrite eqb_neq_false by (intros ->; apply Hn; left; reflexivity).
    rewrite IH by (intros H; apply Hn; right; exact H). cbn [rev]. rewrite <- app_assoc. reflexivity.
Qed.

Lemma split_on_not_nil c (s cur : str) : split_on c s cur <> [].
Proof. revert cur; induction s as [|a s IH]; intros cur; cbn [split_on]; [discriminate|]. destruct (Ascii.eqb a c); [discriminate|apply IH]. Qed.

(** what follows the last separator *)
Lemma last_split c (P Q cur : str) : ~ In c Q -> last (split_on c (P ++ c :: Q) cur) [] = Q.
Proof.
  revert cur; induction P as [|a P IH]; intros cur Hn.
  - cbn [app split_on]. rewrite Ascii.eqb_refl. rewrite (split_on_none c Q [] Hn). reflexivity.
  - cbn [app split_on]. destruct (Ascii.eqb a c); [|apply IH; exact Hn].
    pose proof (split_on_not_nil c (P ++ c :: Q) []) as Hne. specialize (IH [] Hn).
    destruct (split_on c (P ++ c :: Q) []) as [|x l]; [contradiction|]. exact IH.
Qed.

(** * one bucket *)
Definition sep : str := [","%char; " "%char].

Lemma join_cons2 (x y : str) l : join sep (x :: y :: l) = x ++ sep ++ join sep (y :: l).
Proof. reflexivity. Qed.

Lemma split_join (pre n1 : str) rest :
  ~ In ","%char pre -> ~ In ","%char n1 -> Forall (fun n => ~ In ","%char n) rest ->
  split_on ","%char (pre ++ join sep (n1 :: rest)) [] = (pre ++ n1) :: map (cons " "%char) rest.
Proof.
  revert pre n1; induction rest as [|n2 rest IH]; intros pre n1 Hp H1 Hr.
  - cbn [join map]. rewrite split_on_none; [reflexivity|]. intros H. apply in_app_or in H as [H|H]; contradiction.
  - assert (E : pre ++ join sep (n1 :: n2 :: rest) = (pre ++ n1) ++ ","%char :: ([" "%char] ++ join sep (n2 :: rest))).
    { rewrite join_cons2. unfold sep at 1. rewrite <- app_assoc. reflexivity. }
    rewrite E.
    rewrite split_on_hit by (intros H; apply in_app_or in H as [H|H]; contradiction). cbn [rev]. rewrite app_nil_l.
    pose proof (Forall_inv Hr) as H2. pose proof (Forall_inv_tail Hr) as Hr'. f_equal. apply (IH [" "%char] n2); [|exact H2|exact Hr'].
    intros [H|[]]. discriminate.
Qed.

(** a printed name: not empty, no comma, does not begin or end with white space *)
Definition good_name (n : str) : Prop :=
  ~ In ","%char n /\ (exists c1 t, n = c1 :: t /\ is_ws c1 = false) /\ (exists t c2, n = t ++ [c2] /\ is_ws c2 = false).

Lemma strip_good n : good_name n -> strip n = n.
Proof.
  intros (_ & H1 & H2). pose proof (strip_solid [] [] n (Forall_nil _) (Forall_nil _) H1 H2) as E.
  cbn [app] in E. rewrite app_nil_r in E. exact E.
Qed.
Lemma strip_sp_good n : good_name n -> strip (" "%char :: n) = n.
Proof.
  intros (_ & H1 & H2). assert (W : all_ws [" "%char]) by (constructor; [reflexivity|constructor]).
  pose proof (strip_solid [" "%char] [] n W (Forall_nil _) H1 H2) as E. cbn [app] in E. rewrite app_nil_r in E. exact E.
Qed.

Definition pstep (piece : str) (acc : option (list str)) : option (list str) :=
  match acc with None => None | Some l =>
    let e := strip piece in match e with [] => None | _ => Some (e :: l) end end.
Lemma parse_bucket_unfold chunk : parse_bucket chunk = fold_right pstep (Some []) (split_on ","%char chunk []).
Proof. reflexivity. Qed.

Lemma parse_pieces (pieces names : list str) :
  Forall2 (fun p n => strip p = n /\ n <> []) pieces names -> fold_right pstep (Some []) pieces = Some names.
Proof.
  induction 1 as [|p n pieces names [E Hn] _ IH]; [reflexivity|]. cbn [fold_right]. rewrite IH. unfold pstep. cbv zeta. rewrite E.
  destruct n; [contradiction|reflexivity].
Qed.

Theorem parse_bucket_join n1 rest : Forall good_name (n1 :: rest) -> parse_bucket (join sep (n1 :: rest)) = Some (n1 :: rest).
Proof.
  intros H. inversion H as [|? ? G1 Gr]; subst. rewrite parse_bucket_unfold.
  pose proof (split_join [] n1 rest ltac:(intros []) (proj1 G1)) as S. cbn [app] in S. rewrite S.
  2:{ eapply Forall_impl; [|exact Gr]. intros n Gn. exact (proj1 Gn). }
  apply parse_pieces. constructor.
  - split; [apply strip_good; exact G1|]. destruct G1 as (_ & (c1 & t & -> & _) & _). discriminate.
  - clear -Gr. induction Gr as [|n rest Gn _ IH]; [constructor|]. cbn [map]. constructor; [|exact IH].
    split; [apply strip_sp_good; exact Gn|]. destruct Gn as (_ & (c1 & t & -> & _) & _). discriminate.
Qed.

(** * the scanner loop on a well-formed text *)
Notation lb := ("["%char).
Notation rb := ("]"%char).
Definition bstr (body : str) : str := lb :: body ++ [rb].
Definition tailstr (bodies : list str) : str := List.concat (map (fun b => sep ++ bstr b) bodies).
Definition pb (body : str) : list str := match parse_bucket body with Some l => l | None => [] end.
Definition good_body (b : str) : Prop := ~ In lb b /\ ~ In rb b /\ parse_bucket b <> None.

Lemma len_bstr b : len (bstr b) = len b + 2.
Proof. unfold bstr. rewrite len_cons, len_app, len_cons, len_nil. lia. Qed.

Lemma tailstr_cons b bs : tailstr (b :: bs) = sep ++ bstr b ++ tailstr bs.
Proof. unfold tailstr. cbn [map List.concat]. rewrite <- app_assoc. reflexivity. Qed.
Ltac lsolve := unfold bstr, sep; repeat (rewrite tailstr_cons || rewrite <- app_assoc || (progress cbn [app])); unfold bstr, sep;
               repeat (rewrite <- app_assoc || (progress cbn [app])); reflexivity.

Ltac lens := unfold sep; repeat (rewrite len_app || rewrite len_bstr || rewrite len_cons || rewrite len_nil).

Lemma slice_same (s : str) a : slice s a a = [].
Proof. unfold slice. cbv zeta. rewrite Z.leb_refl. reflexivity. Qed.

Lemma loop_ok : forall bs pre b acc fuel old,
  (List.length bs < fuel)%nat -> good_body b -> Forall good_body bs ->
  let s := pre ++ bstr b ++ tailstr bs ++ [rb] in
  loop fuel s (len s - 1) (len pre) (len pre + 1 + len b) old acc = POk (rev acc ++ pb b :: map pb bs).
Proof.
  induction bs as [|b2 bs IH]; intros pre b acc fuel old Hf (Hl & Hr & Hp) Hbs s.
  - (* last bucket *)
    destruct fuel as [|f]; [cbn in Hf; lia|]. pose proof (len_nonneg pre). pose proof (len_nonneg b).
    assert (Es : s = (pre ++ [lb]) ++ b ++ (rb :: [rb])) by (unfold s, tailstr; cbn [map List.concat]; lsolve).
    assert (Ls : len s = len pre + len b + 3) by (rewrite Es; lens; lia).
    cbn [loop].
    replace ((len pre =? -1) || (len pre + 1 + len b =? -1)) with false by (symmetry; apply orb_false_iff; split; apply Z.eqb_neq; lia).
    assert (Sl : slice s (len pre + 1) (len pre + 1 + len b) = b).
    { rewrite Es. replace (len pre + 1) with (len (pre ++ [lb])) by (lens; lia). apply slice_mid. }
    rewrite Sl. unfold pb. destruct (parse_bucket b) as [l|] eqn:Eb; [|contradiction].
    replace (len pre + 1 + len b + 1) with (len s - 1) by lia.
    rewrite (find_empty_range lb s (len s - 1) (len s - 1)) by lia.
    replace (Z.max (len s - 1) (-1 + 1)) with (len s - 1) by lia.
    rewrite (find_empty_range rb s (len s - 1) (len s - 1)) by lia.
    (* exit *)
    destruct f as [|f']; cbn [loop]; cbn [Z.eqb orb negb];
      replace (len pre + 1 + len b + 1) with (len s - 1) by lia; rewrite slice_same; cbn [rev map]; reflexivity.
  - (* a bucket follows *)
    destruct fuel as [|f]; [cbn in Hf; lia|]. pose proof (len_nonneg pre). pose proof (len_nonneg b). pose proof (len_nonneg b2).
    pose proof (Forall_inv Hbs) as (Hl2 & Hr2 & Hp2). pose proof (Forall_inv_tail Hbs) as Hbs'.
    set (rest := tailstr bs ++ [rb]) in *.
    assert (Erest : exists q, rest = q ++ [rb]) by (exists (tailstr bs); reflexivity).
    assert (Es : s = (pre ++ [lb]) ++ b ++ (rb :: sep ++ bstr b2 ++ rest)) by (unfold s, rest; lsolve).
    assert (Lr : 1 <= len rest) by (destruct Erest as (q & ->); lens; pose proof (len_nonneg q); lia).
    assert (Ls : len s = len pre + len b + 2 + 2 + (len b2 + 2) + len rest).
    { rewrite Es. lens. lia. }
    cbn [loop].
    replace ((len pre =? -1) || (len pre + 1 + len b =? -1)) with false by (symmetry; apply orb_false_iff; split; apply Z.eqb_neq; lia).
    assert (Sl : slice s (len pre + 1) (len pre + 1 + len b) = b).
    { rewrite Es. replace (len pre + 1) with (len (pre ++ [lb])) by (lens; lia). apply slice_mid. }
    rewrite Sl. destruct (parse_bucket b) as [l|] eqn:Eb; [|contradiction].
    (* next opening bracket *)
    set (en := len pre + 1 + len b).
    assert (Es1 : s = (pre ++ bstr b) ++ sep ++ lb :: (b2 ++ [rb] ++ rest)) by (unfold s, rest; lsolve).
    assert (L1 : len (pre ++ bstr b) = en + 1) by (lens; unfold en; lia).
    assert (St : find lb s (en + 1) (len s - 1) = en + 3).
    { rewrite Es1 at 1. rewrite <- L1. rewrite find_hit.
      - lens. lia.
      - unfold sep. intros [HH|[HH|[]]]; discriminate.
      - rewrite <- Es1. lens. lia. }
    rewrite St. replace (Z.max (en + 1) (en + 3 + 1)) with (en + 4) by lia.
    assert (Es2 : s = (pre ++ bstr b ++ sep ++ [lb]) ++ b2 ++ rb :: rest) by (unfold s, rest; lsolve).
    assert (L2 : len (pre ++ bstr b ++ sep ++ [lb]) = en + 4).
    { lens. unfold en. lia. }
    assert (En : find rb s (en + 4) (len s - 1) = en + 4 + len b2).
    { rewrite Es2 at 1. rewrite <- L2. rewrite find_hit; [reflexivity|exact Hr2|]. rewrite <- Es2. lia. }
    rewrite En.
    (* induction hypothesis on the rest *)
    assert (Es3 : s = (pre ++ bstr b ++ sep) ++ bstr b2 ++ rest) by (unfold s, rest; lsolve).
    assert (L3 : len (pre ++ bstr b ++ sep) = en + 3).
    { lens. unfold en. lia. }
    pose proof (IH (pre ++ bstr b ++ sep) b2 (l :: acc) f en ltac:(cbn in Hf; lia) (conj Hl2 (conj Hr2 Hp2)) Hbs') as IH'.
    cbv zeta in IH'. rewrite <- Es3, L3 in IH'.
    replace (en + 3 + 1 + len b2) with (en + 4 + len b2) in IH' by lia. rewrite IH'.
    assert (Epb : pb b = l) by (unfold pb; rewrite Eb; reflexivity). rewrite Epb. cbn [rev map]. rewrite <- app_assoc. reflexivity.
Qed.

(** * the whole scanner on a well-formed text *)
Lemma ends2 : forall bs b pre, b <> [] -> ~ In lb b -> Forall (fun b => b <> [] /\ ~ In lb b) bs ->
  exists q c, pre ++ bstr b ++ tailstr bs = q ++ [c; rb] /\ c <> lb.
Proof.
  induction bs as [|b2 bs IH]; intros b pre Hb Hl Hbs.
  - destruct (exists_last Hb) as (t & c & ->). exists (pre ++ lb :: t), c. split; [lsolve|].
    intros ->. apply Hl. apply in_or_app. right. left. reflexivity.
  - destruct (Forall_inv Hbs) as [Hb2 Hl2]. destruct (IH b2 (pre ++ bstr b ++ sep) Hb2 Hl2 (Forall_inv_tail Hbs)) as (q & c & E & Hc).
    exists q, c. split; [|exact Hc]. rewrite <- E. lsolve.
Qed.

Lemma tailstr_length bs : (List.length bs <= List.length (tailstr bs))%nat.
Proof. induction bs as [|b bs IH]; [cbn; lia|]. rewrite tailstr_cons. unfold sep. rewrite !app_length. cbn [List.length]. lia. Qed.

Lemma str_eqb_eq (a b : str) : str_eqb a b = true -> a = b.
Proof. unfold str_eqb. apply list_eqb_spec. intros x y. split; [apply Ascii.eqb_eq|intros ->; apply Ascii.eqb_refl]. Qed.

Lemma find0_head c (t : str) : find0 c (c :: t) = 0.
Proof.
  unfold find0, find. pose proof (len_nonneg t). rewrite (norm_id 0) by (rewrite len_cons; lia).
  rewrite (norm_id (len (c :: t))) by (rewrite len_cons; lia). cbn [Z.to_nat skipn find_aux].
  rewrite len_cons. destruct (Z.leb_spec (1 + len t) 0); [lia|]. rewrite Ascii.eqb_refl. reflexivity.
Qed.

Theorem parse_text raw b1 bs :
  prepare raw = lb :: (bstr b1 ++ tailstr bs) ++ [rb] ->
  b1 <> [] -> good_body b1 -> Forall (fun b => b <> [] /\ good_body b) bs ->
  parse raw = POk (pb b1 :: map pb bs).
Proof.
  intros Ep Hne G1 Gbs. unfold parse. rewrite Ep. set (inner := bstr b1 ++ tailstr bs). set (s := lb :: inner ++ [rb]).
  pose proof (len_nonneg b1) as Lb1. pose proof (len_nonneg inner) as Li.
  assert (Gbs' : Forall good_body bs) by (eapply Forall_impl; [|exact Gbs]; intros b [_ H]; exact H).
  assert (Gne : Forall (fun b => b <> [] /\ ~ In lb b) bs) by (eapply Forall_impl; [|exact Gbs]; intros b [H1 [H2 _]]; split; assumption).
  destruct (ends2 bs b1 [] Hne (proj1 G1) Gne) as (q & c & Eq & Hc). cbn [app] in Eq. fold inner in Eq.
  assert (I1 : inner = lb :: b1 ++ rb :: tailstr bs) by (unfold inner; lsolve).
  assert (Ls : len s = len inner + 2) by (unfold s; lens; lia).
  (* first [ and last ] *)
  assert (F0 : find0 lb s = 0) by apply find0_head.
  assert (R0 : rfind rb s = len s - 1).
  { unfold s. change (lb :: inner ++ [rb]) with ((lb :: inner) ++ [rb]). rewrite rfind_last. lens. lia. }
  rewrite F0, R0.
  assert (Inner : slice s (0 + 1) (len s - 1) = inner).
  { change s with ([lb] ++ inner ++ [rb]). replace (len ([lb] ++ inner ++ [rb]) - 1) with (len [lb] + len inner) by (lens; lia).
    change (0 + 1) with (len [lb]). apply slice_mid. }
  rewrite Inner.
  assert (Sin : strip inner = inner).
  { pose proof (strip_solid [] [] inner (Forall_nil _) (Forall_nil _)) as E. cbn [app] in E. rewrite app_nil_r in E. apply E.
    - exists lb, (b1 ++ rb :: tailstr bs). split; [exact I1|reflexivity].
    - exists (q ++ [c]), rb. split; [rewrite Eq, <- app_assoc; reflexivity|reflexivity]. }
  rewrite Sin. rewrite I1 at 1.
  (* not the literal "[[]]" *)
  assert (Ew : ends_with (list_ascii_of_string "[[]]") s = false).
  { unfold ends_with. destruct (Nat.ltb_spec (List.length s) (List.length (list_ascii_of_string "[[]]"))); [reflexivity|].
    destruct (str_eqb (skipn (List.length s - List.length (list_ascii_of_string "[[]]")) s) (list_ascii_of_string "[[]]")) eqn:E; [|reflexivity].
    exfalso. apply str_eqb_eq in E.
    pose proof (firstn_skipn (List.length s - List.length (list_ascii_of_string "[[]]")) s) as FS. rewrite E in FS.
    set (X := firstn (List.length s - List.length (list_ascii_of_string "[[]]")) s) in FS.
    assert (Es : s = (lb :: q) ++ [c; rb; rb]) by (unfold s; rewrite Eq; cbn [app]; rewrite <- !app_assoc; reflexivity).
    rewrite Es in FS. cbn [list_ascii_of_string] in FS.
    change (X ++ [lb; lb; rb; rb]) with (X ++ [lb; lb; rb] ++ [rb]) in FS. change ((lb :: q) ++ [c; rb; rb]) with ((lb :: q) ++ [c; rb] ++ [rb]) in FS.
    rewrite !app_assoc in FS. apply app_inj_tail in FS as [FS _].
    change (X ++ [lb; lb; rb]) with (X ++ [lb; lb] ++ [rb]) in FS. change ((lb :: q) ++ [c; rb]) with ((lb :: q) ++ [c] ++ [rb]) in FS.
    rewrite !app_assoc in FS. apply app_inj_tail in FS as [FS _].
    change (X ++ [lb; lb]) with (X ++ [lb] ++ [lb]) in FS. rewrite !app_assoc in FS. apply app_inj_tail in FS as [_ FS]. congruence. }
  rewrite Ew.
  (* the loop starts on the first bucket *)
  assert (Es' : s = [lb] ++ [] ++ lb :: ((b1 ++ rb :: tailstr bs) ++ [rb])) by (unfold s; rewrite I1; reflexivity).
  assert (St : find1 lb s (0 + 1) = 1).
  { unfold find1. rewrite Es'. change (0 + 1) with (len [lb]).
    etransitivity; [apply find_hit; [intros []|rewrite <- Es'; rewrite !len_cons, !len_nil; lia]|reflexivity]. }
  assert (Es'' : s = [] ++ (lb :: lb :: b1) ++ rb :: (tailstr bs ++ [rb])) by (unfold s; rewrite I1; cbn [app]; rewrite <- app_assoc; reflexivity).
  assert (En : find0 rb s = 2 + len b1).
  { unfold find0. rewrite Es''. change 0 with (len (@nil ascii)).
    etransitivity; [apply find_hit|rewrite !len_cons, len_nil; lia].
    - intros [H|[H|H]]; [discriminate|discriminate|exact (proj1 (proj2 G1) H)].
    - rewrite <- Es''. pose proof (len_nonneg (tailstr bs)). rewrite Ls, I1. lens. lia. }
  rewrite St, En.
  replace (Z.to_nat (len s - 1 + 1)) with (List.length s) by (unfold len; lia). rewrite skipn_all.
  assert (Es3 : s = [lb] ++ bstr b1 ++ tailstr bs ++ [rb]) by (unfold s, inner; cbn [app]; rewrite <- app_assoc; reflexivity).
  pose proof (loop_ok bs [lb] b1 [] (S (List.length s)) (2 + len b1)) as LO. cbv zeta in LO. rewrite <- Es3 in LO.
  change (len [lb]) with 1 in LO. replace (1 + 1 + len b1) with (2 + len b1) in LO by lia.
  apply LO; [|exact G1|exact Gbs'].
  pose proof (tailstr_length bs). rewrite Es3. rewrite !app_length. cbn [List.length]. lia.
Qed.

