(** Property C14: model of [is_scoring_scheme_relevant_when_incomplete_rankings] and of the refusal
    guards of every [compute_consensus_rankings], over the tree of algorithm configurations. *)
From Corankco Require Import Prelude Scheme SchemeProof Rank Borda BordaProof.
Local Open Scope Z_scope.

Inductive alg :=
| ABorda (use_bucket_id : bool)
| APickAPerm
| AKwikSort
| ACopeland
| AExact (optimize : bool)
| AExactPulp
| ABioCo
| ABioConsert (starters : list alg)
| AParCons (aux : alg) (bound : nat).

Fixpoint relevant (a : alg) (s : scheme) : bool :=
  match a with
  | ABorda _ | ABioCo => borda_relevant s
  | APickAPerm => is_equivalent_to s unifying
  | AKwikSort | ACopeland | AExact _ | AExactPulp => true
  | ABioConsert l => forallb (fun x => relevant x s) l
  | AParCons aux _ => relevant aux s
  end.

(** does [compute_consensus_rankings] go through on a dataset of the given completeness?
    (ParCons only calls its auxiliary algorithm on components larger than the bound: [None] = it
    depends on the dataset) *)
Fixpoint accepts (a : alg) (s : scheme) (complete : bool) : option bool :=
  match a with
  | ABorda _ | ABioCo => Some (complete || borda_relevant s)
  | APickAPerm => Some (complete || is_equivalent_to s unifying)
  | AKwikSort | ACopeland | AExact _ | AExactPulp => Some true
  | ABioConsert l =>
      fold_right (fun x acc => match accepts x s complete, acc with
                               | Some true, r => r
                               | Some false, _ => Some false
                               | None, Some false => Some false
                               | None, _ => None
                               end) (Some true) l
  | AParCons aux _ => match accepts aux s complete with Some true => Some true | _ => None end
  end.

(** induction principle for the nested type *)
Section AlgInd.
  Variable P : alg -> Prop.
  Hypothesis HBorda : forall b, P (ABorda b).
  Hypothesis HPick : P APickAPerm.
  Hypothesis HKwik : P AKwikSort.
  Hypothesis HCop : P ACopeland.
  Hypothesis HEx : forall o, P (AExact o).
  Hypothesis HPulp : P AExactPulp.
  Hypothesis HBioCo : P ABioCo.
  Hypothesis HBio : forall l, Forall P l -> P (ABioConsert l).
  Hypothesis HPar : forall aux b, P aux -> P (AParCons aux b).
  Fixpoint alg_ind' (a : alg) : P a :=
    match a with
    | ABorda b => HBorda b | APickAPerm => HPick | AKwikSort => HKwik | ACopeland => HCop
    | AExact o => HEx o | AExactPulp => HPulp | ABioCo => HBioCo
    | ABioConsert l => HBio l ((fix go (l : list alg) : Forall P l :=
                                  match l with [] => Forall_nil P | x :: l' => Forall_cons x (alg_ind' x) (go l') end) l)
    | AParCons aux b => HPar aux b (alg_ind' aux)
    end.
End AlgInd.

(** on complete datasets every algorithm accepts every scheme *)
Theorem complete_never_refused a s : accepts a s true = Some true.
Proof.
  induction a using alg_ind'; simpl; try reflexivity.
  - induction H as [|x l Hx _ IH]; simpl; [reflexivity|]. rewrite Hx. exact IH.
  - rewrite IHa. reflexivity.
Qed.

(** if the predicate answers true the algorithm goes through on every incomplete dataset *)
Theorem relevant_true_accepts a s : relevant a s = true -> accepts a s false = Some true.
Proof.
  induction a using alg_ind'; simpl; intros R; try reflexivity; try (rewrite R; reflexivity).
  - induction H as [|x l Hx _ IH]; simpl in *; [reflexivity|].
    apply andb_true_iff in R as [R1 R2]. rewrite (Hx R1). apply IH. exact R2.
  - rewrite (IHa R). reflexivity.
Qed.

(** Borda, PickAPerm, BioCo and BioConsert started from them refuse an incomplete dataset exactly when they
    declared the scheme not relevant *)
Fixpoint simple (a : alg) : bool :=
  match a with
  | ABorda _ | APickAPerm | ABioCo => true
  | ABioConsert l => forallb simple l
  | _ => false
  end.

Theorem refuse_iff_not_relevant a s : simple a = true -> accepts a s false = Some (relevant a s).
Proof.
  induction a using alg_ind'; simpl; intros S; try discriminate; try reflexivity.
  induction H as [|x l Hx _ IH]; simpl in *; [reflexivity|].
  apply andb_true_iff in S as [S1 S2]. rewrite (Hx S1). specialize (IH S2).
  destruct (relevant x s); simpl; [exact IH|].
  destruct (fold_right _ (Some true) l) as [[|]|]; reflexivity.
Qed.
