(** Model of corankco/algorithms/pickaperm/pickaperm.py *)
From Corankco Require Import Prelude Scheme Rank KemenySpec Borda.
Local Open Scope Z_scope.

(** the scan keeping the rankings of minimal score ([dst_min] starts at +infinity = [None]) *)
Fixpoint pick_scan (one : bool) (sc : ranking -> Z) (R : list ranking) (best : option Z) (acc : list ranking)
  : option Z * list ranking :=
  match R with
  | [] => (best, acc)
  | r :: R' =>
      let d := sc r in
      match best with
      | None => pick_scan one sc R' (Some d) [r]
      | Some m =>
          if d <? m then pick_scan one sc R' (Some d) [r]
          else if (d =? m) && negb one then pick_scan one sc R' best (acc ++ [r])
          else pick_scan one sc R' best acc
      end
  end.

Definition pickaperm_on (one : bool) (sc : ranking -> Z) (R : list ranking) : option Z * list ranking :=
  pick_scan one sc R None [].

(** the scores are those of the Kemeny routine against the original dataset (C01) *)
Definition pickaperm (one : bool) (s : scheme) (D : dataset) : result algo_err (option Z * list ranking) :=
  if is_complete D then Ok (pickaperm_on one (kemeny_spec s D) D)
  else if is_equivalent_to s unifying then Ok (pickaperm_on one (kemeny_spec s D) (unified_rankings D))
  else Err IncompleteIncompatible.
