(** BioConsert in the terms of the property statements (C08 / C09 / C04 / C03): scores of departure vectors and of
    decoded rankings are generalized Kemeny scores of rankings over the elements; default BioConsert (departures =
    distinct unified inputs + all-tied) always answers, with a score that is at most the score of every input
    ranking completed with its missing elements in a last bucket and of the all-tied ranking. *)
From Corankco Require Import Prelude Scheme Rank KemenySpec CostTable CostTableProof OptTheory Markov MarkovProof Borda BordaProof
     BioConsert BioDelta Judge.JBio BioProof BioMoves BioArrays BioLoop BioAlgo ConsistentProof PartitionProof KemenyCount ILPProof.
Local Open Scope Z_scope.

(** the score of a vector over ids, for the table of the dataset, is a sum over the pairs of elements *)
Lemma score_vec_elements s D (p : nat -> Z) (v : vec) :
  valid s -> let U := universe D in
  (forall i, (i < length U)%nat -> get v i = p (nth i U 0%nat)) ->
  score_vec (cost_table s D) (length U) v = scoref (cost_spec s D) U p.
Proof.
  intros Hv U Hp. rewrite score_vec_scoref. unfold scoref.
  rewrite <- (map_nth_seq' U) at 2. rewrite ordpairs_map, map_map. apply zsum_map_ext. intros [i j] Hij. cbn [fst snd].
  apply ordpairs_seq_lt in Hij. unfold pickf, base.
  rewrite (cost_table_spec s D i j Hv) by (fold U; lia). fold U.
  rewrite (Hp i), (Hp j) by lia. destruct (cost_spec s D (nth i U 0%nat) (nth j U 0%nat)) as [[b a] t]. rewrite compare_double. reflexivity.
Qed.

Lemma vec_of_score s D r : valid s -> NoDup (elems r) -> Permutation (elems r) (universe D) ->
  score_vec (cost_table s D) (length (universe D)) (vec_of (universe D) r) = kemeny_spec s D r.
Proof.
  intros Hv Nr Pr. rewrite (score_vec_elements s D (bucket_id r)) by (try assumption; intros i Hi; apply get_vec_of; exact Hi).
  rewrite <- score_cost_spec. symmetry. apply score_on_universe; [apply cost_spec_mirror'; exact Hv|exact Pr].
Qed.

Lemma decode_vec_score s D v m : valid s -> (0 < length (universe D))%nat -> DenseTo (length (universe D)) v m ->
  kemeny_spec s D (decode_vec (universe D) v) = score_vec (cost_table s D) (length (universe D)) v.
Proof.
  intros Hv Hn HD. destruct (decode_vec_wf (universe D) v m (universe_NoDup D) Hn HD) as (P & _ & B).
  rewrite (score_vec_elements s D (bucket_id (decode_vec (universe D) v))) by (try assumption; intros i Hi; symmetry; apply B; exact Hi).
  rewrite <- score_cost_spec. apply score_on_universe; [apply cost_spec_mirror'; exact Hv|exact P].
Qed.

Lemma dedup_vecs_complete : forall l seen v, In v l -> In v seen \/ In v (dedup_vecs seen l).
Proof.
  induction l as [|a l IH]; intros seen v Hv; [destruct Hv|]. cbn [dedup_vecs].
  destruct (existsb (list_eqb Z.eqb a) seen) eqn:E.
  - destruct Hv as [->|Hv]; [|apply IH; exact Hv]. left. apply existsb_exists in E as (w & Hw & Ew).
    apply (list_eqb_spec Z.eqb) in Ew; [subst; exact Hw|]. intros x y. apply Z.eqb_eq.
  - destruct Hv as [->|Hv]; [right; left; reflexivity|]. destruct (IH (a :: seen) v Hv) as [[->|H]|H]; [right; left; reflexivity|left; exact H|right; right; exact H].
Qed.

(** the rankings default BioConsert starts from *)
Definition start_rankings (D : dataset) : list ranking :=
  (if is_complete D then D else unified_rankings D) ++ [[universe D]].

Lemma all_tied_vec U : NoDup U -> U <> [] -> vec_of U [U] = repeat 0 (length U).
Proof.
  intros _ _. unfold vec_of. apply nth_ext with (d := bucket_id [U] 0%nat) (d' := 0); [rewrite map_length, repeat_length; reflexivity|].
  intros i Hi. rewrite map_length in Hi. rewrite (map_nth (fun x => bucket_id [U] x)).
  assert (E : nth i (repeat 0 (length U)) 0 = 0) by (apply (repeat_spec (length U) 0); apply nth_In; rewrite repeat_length; exact Hi).
  rewrite E. unfold bucket_id. cbn [bid_from]. assert (M : mem (nth i U 0%nat) U = true) by (apply mem_In, nth_In; exact Hi). rewrite M. reflexivity.
Qed.

(** * default BioConsert, end to end on the model *)
Theorem bioconsert_default s D one :
  valid s -> (0 < length (universe D))%nat ->
  (forall r, In r D -> NoDup (elems r) /\ Forall (fun b => b <> []) r) ->
  let U := universe D in let n := length U in let K := cost_table s D in
  let deps := departures_plain D in
  exists sc rs, bioconsert_on (fuel_for K n deps) one s D deps = Some (sc, rs) /\ rs <> [] /\ (one = true -> length rs = 1%nat) /\
    (forall c, In c rs ->
       Permutation (elems c) U /\ Forall (fun b => b <> []) c /\ kemeny_spec s D c = sc /\
       exists v, c = decode_vec U v /\ local_opt K n v THR = true) /\
    (forall r, In r (start_rankings D) -> sc <= kemeny_spec s D r).
Proof.
  intros Hv Hn Hwf U n K deps.
  destruct (departures_plain_dense D Hwf Hn) as [HDs Hne]. fold n deps in HDs, Hne.
  destruct (bioconsert_on_terminates (fuel_for K n deps) one s D deps Hv Hn HDs) as ([sc rs] & E).
  { intros d Hd. apply fuel_for_enough. exact Hd. }
  exists sc, rs. split; [exact E|].
  destruct (bioconsert_on_spec _ one s D deps sc rs Hv Hn Hne HDs E) as (Le & Rne & One & Hrs).
  split; [exact Rne|]. split; [exact One|]. split.
  - intros c Hc. destruct (Hrs c Hc) as (v & m & -> & HD & Es & LO).
    destruct (decode_vec_wf U v m (universe_NoDup D) Hn HD) as (P & Ne & _).
    split; [exact P|]. split; [exact Ne|]. split; [rewrite (decode_vec_score s D v m Hv Hn HD); exact Es|]. exists v. split; [reflexivity|exact LO].
  - intros r Hr. unfold start_rankings in Hr. apply in_app_or in Hr as [Hr|[<-|[]]].
    + (* a unified input ranking *)
      assert (G : NoDup (elems r) /\ Permutation (elems r) U).
      { destruct (is_complete D) eqn:Ec.
        - destruct (Hwf r Hr) as [Nr _]. split; [exact Nr|]. unfold is_complete in Ec. rewrite forallb_forall in Ec.
          apply complete_perm; [exact Nr|exact Hr|apply Ec; exact Hr].
        - unfold unified_rankings in Hr. apply in_map_iff in Hr as (r0 & <- & Hr0). destruct (Hwf r0 Hr0) as [Nr _].
          destruct (unify_perm U r0 (universe_NoDup D) Nr) as [P _]; [intros x Hx; apply universe_in; exists r0; split; assumption|].
          split; [eapply Permutation_NoDup; [symmetry; exact P|apply universe_NoDup]|exact P]. }
      destruct G as [Nr Pr]. rewrite <- (vec_of_score s D r Hv Nr Pr). apply Le.
      unfold deps, departures_plain. apply in_or_app. left.
      destruct (dedup_vecs_complete (map (vec_of U) (if is_complete D then D else unified_rankings D)) [] (vec_of U r)) as [[]|H]; [|exact H].
      apply in_map. exact Hr.
    + (* the all-tied ranking *)
      assert (Une : U <> []) by (intros E0; unfold n in *; fold U in Hn; rewrite E0 in Hn; cbn in Hn; lia).
      assert (Pa : Permutation (elems [U]) U) by (unfold elems; cbn [concat]; rewrite app_nil_r; reflexivity).
      assert (Na : NoDup (elems [U])) by (eapply Permutation_NoDup; [symmetry; exact Pa|apply universe_NoDup]).
      fold U. rewrite <- (vec_of_score s D [U] Hv Na Pa). apply Le. unfold deps, departures_plain. apply in_or_app. right. left.
      symmetry. apply all_tied_vec; [apply universe_NoDup|exact Une].
Qed.

(** * BioConsert with starting algorithms: never worse than the consensus of any of them *)
Theorem bioconsert_with_starters s D one starts :
  valid s -> (0 < length (universe D))%nat -> starts <> [] ->
  (forall c, In c starts -> Permutation (elems c) (universe D) /\ Forall (fun b => b <> []) c) ->
  let U := universe D in let n := length U in let K := cost_table s D in
  let deps := departures_from D starts in
  exists sc rs, bioconsert_on (fuel_for K n deps) one s D deps = Some (sc, rs) /\ rs <> [] /\ (one = true -> length rs = 1%nat) /\
    (forall c, In c rs ->
       Permutation (elems c) U /\ Forall (fun b => b <> []) c /\ kemeny_spec s D c = sc /\
       exists v, c = decode_vec U v /\ local_opt K n v THR = true) /\
    (forall c0, In c0 starts -> sc <= kemeny_spec s D c0).
Proof.
  intros Hv Hn Hsne Hwf U n K deps.
  pose proof (departures_from_dense D starts Hwf Hn) as HDs. fold n deps in HDs.
  assert (Hne : deps <> []).
  { unfold deps, departures_from. destruct starts as [|c0 l]; [contradiction|]. cbn [map]. apply dedup_vecs_nonempty. discriminate. }
  destruct (bioconsert_on_terminates (fuel_for K n deps) one s D deps Hv Hn HDs) as ([sc rs] & E).
  { intros d Hd. apply fuel_for_enough. exact Hd. }
  exists sc, rs. split; [exact E|].
  destruct (bioconsert_on_spec _ one s D deps sc rs Hv Hn Hne HDs E) as (Le & Rne & One & Hrs).
  split; [exact Rne|]. split; [exact One|]. split.
  - intros c Hc. destruct (Hrs c Hc) as (v & m & -> & HD & Es & LO).
    destruct (decode_vec_wf U v m (universe_NoDup D) Hn HD) as (P & Ne & _).
    split; [exact P|]. split; [exact Ne|]. split; [rewrite (decode_vec_score s D v m Hv Hn HD); exact Es|]. exists v. split; [reflexivity|exact LO].
  - intros c0 Hc0. destruct (Hwf c0 Hc0) as [P _].
    assert (Nc : NoDup (elems c0)) by (eapply Permutation_NoDup; [symmetry; exact P|apply universe_NoDup]).
    rewrite <- (vec_of_score s D c0 Hv Nc P). apply Le. unfold deps, departures_from.
    destruct (dedup_vecs_complete (map (vec_of U) starts) [] (vec_of U c0)) as [[]|H]; [|exact H]. apply in_map. exact Hc0.
Qed.

(** * C08 in the terms of the statement: rankings over the elements *)
(** the ranking over elements that a position function over ids denotes *)
Definition relabel (U : list nat) (r : ranking) : ranking := map (map (fun i => nth i U 0%nat)) r.

Lemma relabel_score s D (p : posf) :
  valid s -> let U := universe D in
  kemeny_spec s D (relabel U (rank_of (seq 0 (length U)) p)) = scoref (cost_table s D) (seq 0 (length U)) p.
Proof.
  intros Hv U. set (n := length U). set (r := rank_of (seq 0 n) p).
  destruct (rank_of_spec (seq 0 n) p (seq_NoDup n 0)) as (Pr & _ & Cr). fold r in Pr, Cr.
  assert (NU : NoDup U) by apply universe_NoDup.
  assert (Pe : Permutation (elems (relabel U r)) U).
  { unfold elems, relabel. rewrite <- concat_map. etransitivity; [apply Permutation_map; exact Pr|]. rewrite map_nth_seq'. reflexivity. }
  assert (Nd : NoDup (concat (relabel U r))) by (eapply Permutation_NoDup; [symmetry; exact Pe|exact NU]).
  (* bucket ids are transported by the relabelling *)
  assert (Bid : forall i, (i < n)%nat -> bucket_id (relabel U r) (nth i U 0%nat) = bucket_id r i).
  { intros i Hi. assert (Hin : In i (concat r)) by (eapply Permutation_in; [symmetry; exact Pr|apply in_seq; lia]).
    pose proof (bid_lt r 0 i Hin) as Bl. set (j := Z.to_nat (bid_from 0 r i)).
    pose proof (in_nth_bucket r 0 i ltac:(lia) Hin) as Hb. replace (Z.to_nat (bid_from 0 r i - 0)) with j in Hb by (unfold j; lia).
    unfold bucket_id. rewrite (bid_of_bucket (relabel U r) 0 j (nth i U 0%nat) Nd); [unfold j; lia| |unfold relabel; rewrite map_length; unfold j; lia].
    unfold relabel. set (f := fun i0 : nat => nth i0 U 0%nat).
    change (In (f i) (nth j (map (map f) r) (map f []))). rewrite (map_nth (map f) r [] j). apply (in_map f). exact Hb. }
  rewrite <- score_cost_spec. rewrite (score_on_universe (cost_spec s D) U (relabel U r) (cost_spec_mirror' s D Hv) Pe).
  unfold scoref. rewrite <- (map_nth_seq' U) at 1. fold n. rewrite ordpairs_map, map_map. apply zsum_map_ext. intros [i j] Hij. cbn [fst snd].
  apply ordpairs_seq_lt in Hij. unfold pickf. rewrite (cost_table_spec s D i j Hv) by (fold U n; lia). fold U.
  rewrite !Bid by lia. rewrite (Cr i j) by (apply in_seq; lia). reflexivity.
Qed.

(** no single-element move of a returned ranking - into another existing bucket or into a new bucket at any
    position - lowers its generalized Kemeny score by more than the threshold *)
Theorem bioconsert_local_optimum s D one deps sc rs fuel :
  valid s -> let U := universe D in let n := length U in let K := cost_table s D in
  (0 < n)%nat -> deps <> [] -> Forall (fun d => exists m, DenseTo n d m) deps ->
  bioconsert_on fuel one s D deps = Some (sc, rs) ->
  forall c, In c rs -> exists v, c = decode_vec U v /\ kemeny_spec s D c = sc /\
    forall e, (e < n)%nat ->
      (forall b, 0 <= b <= vmax v -> kemeny_spec s D c - THR <= kemeny_spec s D (relabel U (moved_ranking n v e (2 * b)))) /\
      (forall p, 0 <= p <= vmax v + 1 -> kemeny_spec s D c - THR <= kemeny_spec s D (relabel U (moved_ranking n v e (2 * p - 1)))).
Proof.
  intros Hv U n K Hn Hne HDs E c Hc. subst U n K.
  destruct (bioconsert_on_spec fuel one s D deps sc rs Hv Hn Hne HDs E) as (_ & _ & _ & H).
  destruct (H c Hc) as (v & m & -> & HD & Es & LO). exists v. split; [reflexivity|].
  pose proof (decode_vec_score s D v m Hv Hn HD) as Ed.
  assert (Ek : kemeny_spec s D (decode_vec (universe D) v) = sc) by (rewrite Ed; exact Es).
  split; [exact Ek|]. intros e He.
  unfold local_opt in LO. rewrite forallb_forall in LO. specialize (LO e ltac:(apply in_seq; lia)). apply andb_true_iff in LO as [L1 L2].
  rewrite forallb_forall in L1, L2.
  assert (S0 : scoref (cost_table s D) (seq 0 (length (universe D))) (base v) = kemeny_spec s D (decode_vec (universe D) v)).
  { rewrite Ek, <- Es. symmetry. apply score_vec_scoref. }
  unfold moved_ranking. split.
  - intros b Hb. specialize (L1 (Z.to_nat b) ltac:(apply in_seq; lia)). rewrite Z2Nat.id in L1 by lia. apply Z.leb_le in L1.
    pose proof (relabel_score s D (moved v e (2 * b)) Hv) as Er. cbv zeta in Er. rewrite Er, <- S0. exact L1.
  - intros p Hp. specialize (L2 (Z.to_nat p) ltac:(apply in_seq; lia)). rewrite Z2Nat.id in L2 by lia. apply Z.leb_le in L2.
    pose proof (relabel_score s D (moved v e (2 * p - 1)) Hv) as Er. cbv zeta in Er. rewrite Er, <- S0. exact L2.
Qed.
