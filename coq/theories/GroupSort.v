(** Sorting ids by a key and grouping equal keys into buckets: the common last step of Borda,
    Copeland and the ILP decoders.  Generic in the key type and its total preorder. *)
From Corankco Require Import Prelude Rank.
From Coq Require Import Sorting.Sorted.

Section GroupSort.
  Variable K : Type.
  Variable leb : K -> K -> bool.
  Hypothesis leb_total : forall a b, leb a b = true \/ leb b a = true.
  Hypothesis leb_trans : forall a b c, leb a b = true -> leb b c = true -> leb a c = true.
  Variable key : nat -> K.

  Definition kle (x y : nat) : Prop := leb (key x) (key y) = true.
  Definition keq (x y : nat) : Prop := kle x y /\ kle y x.
  Definition klt (x y : nat) : Prop := leb (key y) (key x) = false.
  Definition keqb (x y : nat) : bool := leb (key x) (key y) && leb (key y) (key x).

  Lemma kle_refl x : kle x x.
  Proof. destruct (leb_total (key x) (key x)); assumption. Qed.
  Lemma klt_kle x y : klt x y -> kle x y.
  Proof. unfold klt, kle. intros H. destruct (leb_total (key x) (key y)); congruence. Qed.
  Lemma keqb_spec x y : keqb x y = true <-> keq x y.
  Proof. unfold keqb, keq, kle. rewrite andb_true_iff. tauto. Qed.
  Lemma klt_le_trans x y z : klt x y -> kle y z -> klt x z.
  Proof.
    unfold klt, kle. intros H1 H2. destruct (leb (key z) (key x)) eqn:E; [|reflexivity].
    rewrite (leb_trans _ _ _ H2 E) in H1. discriminate.
  Qed.
  Lemma kle_lt_trans x y z : kle x y -> klt y z -> klt x z.
  Proof.
    unfold klt, kle. intros H1 H2. destruct (leb (key z) (key x)) eqn:E; [|reflexivity].
    rewrite (leb_trans _ _ _ E H1) in H2. discriminate.
  Qed.
  Lemma not_kle_klt x y : leb (key x) (key y) = false -> klt y x.
  Proof. auto. Qed.

  (** stable insertion: after every element whose key is <= the new one *)
  Fixpoint insert (x : nat) (l : list nat) : list nat :=
    match l with
    | [] => [x]
    | y :: l' => if leb (key y) (key x) then y :: insert x l' else x :: l
    end.
  Definition sort_by (l : list nat) : list nat := fold_left (fun acc x => insert x acc) l [].

  Fixpoint group (l : list nat) : ranking :=
    match l with
    | [] => []
    | x :: l' =>
        match group l' with
        | (y :: b) :: r => if keqb x y then (x :: y :: b) :: r else [x] :: (y :: b) :: r
        | r => [x] :: r
        end
    end.

  Definition rank_by (l : list nat) : ranking := group (sort_by l).

  (** "increasing order of key, tied exactly when the keys are equal" *)
  Inductive grouped : ranking -> Prop :=
  | grouped_nil : grouped []
  | grouped_cons b r :
      b <> [] ->
      (forall x y, In x b -> In y b -> keq x y) ->
      (forall x y, In x b -> In y (concat r) -> klt x y) ->
      grouped r -> grouped (b :: r).

  Lemma insert_perm x l : Permutation (insert x l) (x :: l).
  Proof.
    induction l as [|y l IH]; simpl; [reflexivity|].
    destruct (leb (key y) (key x)); [|reflexivity].
    rewrite IH. apply perm_swap.
  Qed.

  Lemma sort_by_perm_gen l acc : Permutation (fold_left (fun acc x => insert x acc) l acc) (l ++ acc).
  Proof.
    revert acc; induction l as [|x l IH]; intros acc; simpl; [reflexivity|].
    rewrite IH. rewrite insert_perm. symmetry. apply Permutation_middle.
  Qed.
  Lemma sort_by_perm l : Permutation (sort_by l) l.
  Proof. unfold sort_by. rewrite sort_by_perm_gen, app_nil_r. reflexivity. Qed.

  Definition sorted (l : list nat) : Prop := StronglySorted kle l.

  Lemma insert_sorted x l : sorted l -> sorted (insert x l).
  Proof.
    induction 1 as [|y l Hs IH Hy]; simpl; [repeat constructor|].
    destruct (leb (key y) (key x)) eqn:E.
    - constructor; [assumption|]. rewrite Forall_forall in *. intros z Hz.
      apply (Permutation_in _ (insert_perm x l)) in Hz. destruct Hz as [<-|Hz]; [exact E|auto].
    - constructor; [constructor; assumption|].
      assert (Hxy : kle x y) by (apply klt_kle; exact E).
      constructor; [assumption|]. rewrite Forall_forall in *. intros z Hz.
      unfold kle in *. eapply leb_trans; [exact Hxy|auto].
  Qed.

  Lemma sort_by_sorted_gen l acc : sorted acc -> sorted (fold_left (fun acc x => insert x acc) l acc).
  Proof. revert acc; induction l; intros acc H; simpl; [assumption|]. apply IHl, insert_sorted, H. Qed.
  Lemma sort_by_sorted l : sorted (sort_by l).
  Proof. apply sort_by_sorted_gen. constructor. Qed.

  Lemma group_concat l : concat (group l) = l.
  Proof.
    induction l as [|x l IH]; simpl; [reflexivity|].
    destruct (group l) as [|[|y b] r] eqn:E; simpl in *.
    - congruence.
    - congruence.
    - destruct (keqb x y); simpl; congruence.
  Qed.

  Lemma group_no_empty l : Forall (fun b => b <> []) (group l).
  Proof.
    induction l as [|x l IH]; simpl; [constructor|].
    destruct (group l) as [|[|y b] r] eqn:E.
    - repeat constructor; discriminate.
    - inversion IH; subst. congruence.
    - inversion IH; subst. destruct (keqb x y); repeat constructor; try discriminate; assumption.
  Qed.

  Lemma group_grouped l : sorted l -> grouped (group l).
  Proof.
    induction 1 as [|x l Hs IH Hx]; simpl; [constructor|].
    pose proof (group_no_empty l) as Hne.
    rewrite Forall_forall in Hx.
    assert (Hin : forall z, In z (concat (group l)) -> kle x z) by (rewrite group_concat; exact Hx).
    destruct (group l) as [|[|y b] r] eqn:E.
    - constructor; [discriminate| | |constructor].
      + intros a c [<-|[]] [<-|[]]. split; apply kle_refl.
      + intros a c _ [].
    - inversion Hne; subst. congruence.
    - inversion IH as [|? ? Hb Heq Hlt Hr]; subst.
      assert (Hxy : kle x y) by (apply Hin; simpl; auto).
      destruct (keqb x y) eqn:Ek.
      + apply keqb_spec in Ek. constructor; [discriminate| | |assumption].
        * assert (Hxz : forall z, In z (y :: b) -> keq x z).
          { intros z Hz. destruct (Heq y z (or_introl eq_refl) Hz) as [H1 H2]. destruct Ek as [E1 E2].
            split; unfold kle in *; eauto. }
          intros a c [<-|Ha] [<-|Hc'].
          -- split; apply kle_refl.
          -- apply Hxz; assumption.
          -- destruct (Hxz a Ha); split; assumption.
          -- apply Heq; assumption.
        * intros a c [<-|Ha] Hc'.
          -- eapply kle_lt_trans; [exact Hxy|]. apply Hlt; [left; reflexivity|assumption].
          -- apply Hlt; assumption.
      + constructor; [discriminate| | |assumption].
        * intros a c [<-|[]] [<-|[]]. split; apply kle_refl.
        * assert (Hlt_xy : klt x y).
          { unfold keqb in Ek. unfold kle in Hxy. rewrite Hxy in Ek. simpl in Ek. exact Ek. }
          intros a c [<-|[]] Hc'. change (concat ((y :: b) :: r)) with ((y :: b) ++ concat r) in Hc'.
          apply in_app_or in Hc'. destruct Hc' as [Hc'|Hc'].
          -- eapply klt_le_trans; [exact Hlt_xy|]. apply (Heq y c); [left; reflexivity|assumption].
          -- eapply kle_lt_trans; [exact Hxy|]. apply Hlt; [left; reflexivity|assumption].
  Qed.

  Theorem rank_by_grouped l : grouped (rank_by l).
  Proof. apply group_grouped, sort_by_sorted. Qed.

  Theorem rank_by_perm l : Permutation (concat (rank_by l)) l.
  Proof. unfold rank_by. rewrite group_concat. apply sort_by_perm. Qed.

  Theorem rank_by_no_empty l : Forall (fun b => b <> []) (rank_by l).
  Proof. apply group_no_empty. Qed.

  (** reading [grouped] through bucket ids *)
  Lemma grouped_bid_from k r x y :
    (0 <= k)%Z -> NoDup (concat r) -> grouped r -> In x (concat r) -> In y (concat r) ->
    ((bid_from k r x < bid_from k r y)%Z <-> klt x y) /\
    ((bid_from k r x = bid_from k r y)%Z <-> keq x y).
  Proof.
    intros Hk Hnd Hg. revert k Hk Hnd. induction Hg as [|b r Hb Heq Hlt Hg IH]; intros k Hk Hnd Hx Hy; [destruct Hx|].
    simpl in Hx, Hy, Hnd. rewrite in_app_iff in Hx, Hy.
    destruct (NoDup_app_inv _ _ Hnd) as (_ & Hndr & Hdisj).
    simpl. destruct (mem x b) eqn:Ex; destruct (mem y b) eqn:Ey.
    - apply mem_In in Ex, Ey. split; split; intros H; try lia.
      + exfalso. destruct (Heq y x Ey Ex) as [H1 _]. unfold klt, kle in *. congruence.
      + apply Heq; assumption.
    - apply mem_In in Ex. apply mem_false in Ey. destruct Hy as [Hy|Hy]; [contradiction|].
      pose proof (Hlt x y Ex Hy) as L.
      destruct (bid_from_range (k + 1) r y ltac:(lia)) as [E|E];
        [apply bid_from_unranked in E; [contradiction|lia]|].
      split; split; intros H; try lia; try assumption.
      destruct H as [_ H]. unfold klt, kle in *. congruence.
    - apply mem_In in Ey. apply mem_false in Ex. destruct Hx as [Hx|Hx]; [contradiction|].
      pose proof (Hlt y x Ey Hx) as L.
      destruct (bid_from_range (k + 1) r x ltac:(lia)) as [E|E];
        [apply bid_from_unranked in E; [contradiction|lia]|].
      split; split; intros H; try lia.
      + exfalso. apply klt_kle in L. unfold klt, kle in *. congruence.
      + destruct H as [H _]. unfold klt, kle in *. congruence.
    - apply mem_false in Ex, Ey. destruct Hx as [Hx|Hx]; [contradiction|]. destruct Hy as [Hy|Hy]; [contradiction|].
      apply IH; try assumption; lia.
  Qed.

  Theorem grouped_bucket_id r x y :
    NoDup (concat r) -> grouped r -> In x (concat r) -> In y (concat r) ->
    ((bucket_id r x < bucket_id r y)%Z <-> klt x y) /\ ((bucket_id r x = bucket_id r y)%Z <-> keq x y).
  Proof. intros. apply grouped_bid_from; try assumption; lia. Qed.

  Lemma grouped_app c1 c2 :
    grouped c1 -> grouped c2 ->
    (forall x y, In x (concat c1) -> In y (concat c2) -> klt x y) -> grouped (c1 ++ c2).
  Proof.
    induction 1 as [|b r Hb Heq Hlt Hg IH]; intros G2 H; simpl; [assumption|].
    constructor; [assumption|assumption| |].
    - intros x y Hx Hy. rewrite concat_app in Hy. apply in_app_or in Hy as [Hy|Hy]; [auto|].
      apply H; [simpl; apply in_or_app; left; assumption|assumption].
    - apply IH; [assumption|]. intros x y Hx Hy. apply H; [simpl; apply in_or_app; right; assumption|assumption].
  Qed.

  Lemma grouped_single b :
    b <> [] -> (forall x y, In x b -> In y b -> keq x y) -> grouped [b].
  Proof. intros Hb H. constructor; [assumption|assumption|intros ? ? ? []|constructor]. Qed.

  (** the order relation of [rank_by l] only depends on the keys (not on the listing order of l) *)
  Theorem rank_by_order l x y :
    NoDup l -> In x l -> In y l ->
    ((bucket_id (rank_by l) x < bucket_id (rank_by l) y)%Z <-> klt x y) /\
    ((bucket_id (rank_by l) x = bucket_id (rank_by l) y)%Z <-> keq x y).
  Proof.
    intros Nd Hx Hy. pose proof (rank_by_perm l) as P.
    apply grouped_bucket_id.
    - eapply Permutation_NoDup; [symmetry; exact P|exact Nd].
    - apply rank_by_grouped.
    - eapply Permutation_in; [symmetry; exact P|exact Hx].
    - eapply Permutation_in; [symmetry; exact P|exact Hy].
  Qed.
End GroupSort.

Arguments rank_by {K} leb key l.
Arguments grouped {K} leb key r.
