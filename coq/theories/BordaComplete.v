(** Property C12: on a complete dataset nothing is missing, unification changes nothing and Borda ignores the scheme. *)
From Corankco Require Import Prelude Scheme Rank GroupSort Borda.
Local Open Scope Z_scope.

Lemma missing_complete U r : forallb (fun x => mem x (elems r)) U = true -> missing_of U r = [].
Proof.
  unfold missing_of. induction U as [|x U IH]; simpl; [reflexivity|].
  intros H. apply andb_true_iff in H as [H1 H2]. rewrite H1. simpl. apply IH. exact H2.
Qed.

Lemma unify_complete U r : forallb (fun x => mem x (elems r)) U = true -> unify U r = r.
Proof. intros H. unfold unify. rewrite (missing_complete U r H). reflexivity. Qed.

Theorem unified_complete D : is_complete D = true -> unified_rankings D = D.
Proof.
  unfold is_complete, unified_rankings. generalize (universe D) as U. intros U.
  induction D as [|r D IH]; simpl; [reflexivity|].
  intros H. apply andb_true_iff in H as [H1 H2]. rewrite (unify_complete U r H1), (IH H2). reflexivity.
Qed.

Theorem borda_complete_ignores_scheme ub s D : is_complete D = true -> borda ub s D = Ok (borda_on ub D).
Proof.
  intros H. unfold borda. rewrite H. simpl. destruct (borda_uses_unified s); [rewrite (unified_complete D H)|]; reflexivity.
Qed.
