(** ParCons on the partition the model computes: nothing is assumed about the partition any more. *)
From Corankco Require Import Prelude Scheme Rank KemenySpec CostTable OptTheory Partition PartitionProof ConsistentProof ParConsProof SccProof.
Local Open Scope Z_scope.

Theorem parcons_on_model_partition K n bound exact aux :
  mirror K ->
  (forall G, In G (sccs K n) -> wfU G (exact G) /\ score K (exact G) = opt K G) ->
  (forall G, In G (sccs K n) -> wfU G (aux G)) ->
  let P := sccs K n in
  let c := fst (parcons K bound exact aux P) in
  wfU (seq 0 n) c /\ before P c /\ (snd (parcons K bound exact aux P) = true -> score K c = opt K (seq 0 n) /\ is_optimal K (seq 0 n) c).
Proof.
  intros M He Ha. apply (parcons_spec K bound exact aux M (seq 0 n) (sccs K n)); try assumption.
  - apply seq_NoDup.
  - apply sccs_is_partition.
  - apply sccs_no_back_arcs.
Qed.
