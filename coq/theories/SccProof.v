(** The strongly connected components of the graph of elements as the model computes them (Partition.sccs:
    Floyd-Warshall closure, classes of mutual reachability, sorted by number of ancestors) form an ordered
    partition of the ids without back arcs - for every table.  Together with C06 / C07 this makes "the ParCons
    partition admits an optimal consensus" a theorem about the model's partition, not only a test run on the
    partition igraph returns. *)
From Corankco Require Import Prelude Scheme Rank KemenySpec CostTable OptTheory Partition PartitionProof ConsistentProof.
From Coq Require Import Sorting.Sorted.
Local Open Scope Z_scope.

(** * the closure *)
Section Closure.
  Variable n : nat.
  Variable R0 : nat -> nat -> bool.

  Definition Rm (m : nat) : nat -> nat -> bool := fold_left (reach_step n) (seq 0 m) R0.

  Lemma Rm_S m i j : Rm (S m) i j = Rm m i j || (Rm m i m && Rm m m j).
  Proof. unfold Rm. rewrite seq_S, fold_left_app. reflexivity. Qed.

  Lemma Rm_mono m i j : R0 i j = true -> Rm m i j = true.
  Proof. intros H. induction m as [|m IH]; [exact H|]. rewrite Rm_S, IH. reflexivity. Qed.

  (** closed under composition through every vertex already processed *)
  Lemma Rm_closed m : forall k i j, (k < m)%nat -> Rm m i k = true -> Rm m k j = true -> Rm m i j = true.
  Proof.
    induction m as [|m IH]; intros k i j Hk H1 H2; [lia|]. rewrite Rm_S in *.
    apply orb_true_iff in H1. apply orb_true_iff in H2. apply orb_true_iff.
    destruct (Nat.eq_dec k m) as [->|Ne].
    - assert (A : Rm m i m = true) by (destruct H1 as [H|H]; [exact H|apply andb_true_iff in H as [H _]; exact H]).
      assert (B : Rm m m j = true) by (destruct H2 as [H|H]; [exact H|apply andb_true_iff in H as [_ H]; exact H]).
      right. rewrite A, B. reflexivity.
    - assert (Hk' : (k < m)%nat) by lia.
      destruct H1 as [A|A]; destruct H2 as [B|B]; try (apply andb_true_iff in A as [A1 A2]); try (apply andb_true_iff in B as [B1 B2]).
      + left. exact (IH k i j Hk' A B).
      + right. rewrite (IH k i m Hk' A B1), B2. reflexivity.
      + right. rewrite A1, (IH k m j Hk' A2 B). reflexivity.
      + right. rewrite A1, B2. reflexivity.
  Qed.
End Closure.

(** the tabulated closure is the closure, on the ids below n *)
Lemma lookup_tabulate n R i j : (i < n)%nat -> (j < n)%nat -> lookup (tabulate n R) i j = R i j.
Proof.
  intros Hi Hj. unfold lookup, tabulate.
  rewrite (nth_indep _ [] (map (R 0%nat) (seq 0 n))) by (rewrite map_length, seq_length; exact Hi).
  rewrite (map_nth (fun i => map (R i) (seq 0 n)) (seq 0 n) 0%nat), seq_nth by exact Hi.
  rewrite (nth_indep _ false (R (0 + i)%nat 0%nat)) by (rewrite map_length, seq_length; exact Hj).
  rewrite (map_nth (R (0 + i)%nat) (seq 0 n) 0%nat), seq_nth by exact Hj. reflexivity.
Qed.

Lemma reach_tab_prefix (n : nat) : forall l, (forall k, In k l -> (k < n)%nat) ->
  forall T R, (forall i j, (i < n)%nat -> (j < n)%nat -> lookup T i j = R i j) ->
  forall i j, (i < n)%nat -> (j < n)%nat ->
  lookup (fold_left (fun T k => tabulate n (reach_step n (lookup T) k)) l T) i j = fold_left (reach_step n) l R i j.
Proof.
  induction l as [|k l IH]; intros Hl T R HT i j Hi Hj; [apply HT; assumption|]. cbn [fold_left].
  apply IH; try assumption; [intros k' Hk'; apply Hl; right; exact Hk'|].
  intros i' j' Hi' Hj'. rewrite lookup_tabulate by assumption. unfold reach_step.
  assert (Hk : (k < n)%nat) by (apply Hl; left; reflexivity). rewrite !HT by assumption. reflexivity.
Qed.

Definition R0of (K : table) : nat -> nat -> bool := fun i j => Nat.eqb i j || arc K i j.

Lemma reach_tab_spec K n i j : (i < n)%nat -> (j < n)%nat -> lookup (reach_tab K n) i j = Rm n (R0of K) n i j.
Proof.
  intros Hi Hj. unfold reach_tab, Rm. apply (reach_tab_prefix n); try assumption.
  - intros k Hk. apply in_seq in Hk. lia.
  - intros i' j' Hi' Hj'. apply lookup_tabulate; assumption.
Qed.

Section Preorder.
  Variables (K : table) (n : nat).
  Definition R (i j : nat) : bool := lookup (reach_tab K n) i j.

  Lemma R_refl i : (i < n)%nat -> R i i = true.
  Proof. intros Hi. unfold R. rewrite reach_tab_spec by assumption. apply Rm_mono. unfold R0of. rewrite Nat.eqb_refl. reflexivity. Qed.

  Lemma R_arc i j : (i < n)%nat -> (j < n)%nat -> arc K i j = true -> R i j = true.
  Proof. intros Hi Hj H. unfold R. rewrite reach_tab_spec by assumption. apply Rm_mono. unfold R0of. rewrite H, orb_true_r. reflexivity. Qed.

  Lemma R_trans i k j : (i < n)%nat -> (k < n)%nat -> (j < n)%nat -> R i k = true -> R k j = true -> R i j = true.
  Proof.
    intros Hi Hk Hj. unfold R. rewrite !reach_tab_spec by assumption. apply Rm_closed. exact Hk.
  Qed.
End Preorder.

(** * classes, representatives, order *)
Lemma bid_of_bucket' r : forall k j x, NoDup (concat r) -> In x (nth j r []) -> (j < length r)%nat ->
  bid_from k r x = k + Z.of_nat j.
Proof.
  induction r as [|b r IH]; intros k j x Nd Hx Hj; [cbn in Hj; lia|]. cbn [concat] in Nd.
  destruct (NoDup_app_inv _ _ Nd) as (_ & Nr & Dj). destruct j as [|j]; cbn [nth] in Hx.
  - rewrite (bid_head' k b r x Hx). lia.
  - cbn [bid_from]. assert (Hc : In x (concat r)) by (apply in_concat; exists (nth j r []); split; [apply nth_In; cbn in Hj; lia|exact Hx]).
    assert (Mx : mem x b = false) by (apply mem_false; intros Hb; exact (Dj x Hb Hc)). rewrite Mx.
    rewrite (IH (k + 1) j x Nr Hx ltac:(cbn in Hj; lia)). lia.
Qed.

Lemma insert_by_perm (f : list nat -> nat) g l : Permutation (insert_by f g l) (g :: l).
Proof.
  induction l as [|h l IH]; [reflexivity|]. cbn [insert_by]. destruct (f g <=? f h)%nat; [reflexivity|].
  etransitivity; [apply perm_skip; exact IH|apply perm_swap].
Qed.

Lemma insert_by_sorted (f : list nat -> nat) g l :
  StronglySorted (fun a b => (f a <= f b)%nat) l -> StronglySorted (fun a b => (f a <= f b)%nat) (insert_by f g l).
Proof.
  induction l as [|h l IH]; intros S; [repeat constructor|]. cbn [insert_by]. apply StronglySorted_inv in S as [S Hh].
  destruct (Nat.leb_spec (f g) (f h)) as [L|L].
  - constructor; [constructor; assumption|]. constructor; [exact L|]. rewrite Forall_forall in *. intros b Hb. specialize (Hh b Hb). lia.
  - constructor; [apply IH; exact S|]. rewrite Forall_forall in *. intros b Hb.
    apply (Permutation_in _ (insert_by_perm f g l)) in Hb as [<-|Hb]; [lia|apply Hh; exact Hb].
Qed.

Section Scc.
  Variables (K : table) (n : nat).
  Notation R := (R K n).
  Notation T := (reach_tab K n).
  Definition cls (i : nat) : list nat := scc_of T n i.
  Definition anc (i : nat) : nat := ancestors T n i.

  Lemma cls_in i j : In j (cls i) <-> (j < n)%nat /\ R i j = true /\ R j i = true.
  Proof. unfold cls, scc_of. rewrite filter_In, in_seq, andb_true_iff. unfold SccProof.R. intuition lia. Qed.

  Lemma cls_self i : (i < n)%nat -> In i (cls i).
  Proof. intros Hi. apply cls_in. pose proof (R_refl K n i Hi). tauto. Qed.

  Lemma cls_eq i j : (i < n)%nat -> In j (cls i) -> cls j = cls i.
  Proof.
    intros Hi Hj. apply cls_in in Hj as (Hjn & Rij & Rji). unfold cls, scc_of. apply filter_ext_in. intros x Hx. apply in_seq in Hx.
    change (lookup T j x) with (R j x). change (lookup T x j) with (R x j). change (lookup T i x) with (R i x). change (lookup T x i) with (R x i).
    destruct (R i x) eqn:A; destruct (R x i) eqn:B; cbn [andb].
    - rewrite (R_trans K n j i x) by (try lia; assumption). rewrite (R_trans K n x i j) by (try lia; assumption). reflexivity.
    - destruct (R j x) eqn:C; [|reflexivity]. destruct (R x j) eqn:D; [|reflexivity]. cbn [andb].
      rewrite (R_trans K n x j i) in B by (try lia; assumption). discriminate.
    - destruct (R j x) eqn:C; [|reflexivity]. rewrite (R_trans K n i j x) in A by (try lia; assumption). discriminate.
    - destruct (R j x) eqn:C; [|reflexivity]. rewrite (R_trans K n i j x) in A by (try lia; assumption). discriminate.
  Qed.

  Lemma cls_nodup i : NoDup (cls i).
  Proof. unfold cls, scc_of. apply NoDup_filter, seq_NoDup. Qed.

  Definition rep (x : nat) : nat := hd x (cls x).
  Definition reps : list nat := filter (fun i => Nat.eqb (hd i (cls i)) i) (seq 0 n).

  Lemma rep_in x : (x < n)%nat -> In (rep x) (cls x).
  Proof. intros Hx. unfold rep. pose proof (cls_self x Hx) as H. destruct (cls x) as [|a l]; [destruct H|left; reflexivity]. Qed.

  Lemma rep_is_rep x : (x < n)%nat -> In (rep x) reps /\ In x (cls (rep x)).
  Proof.
    intros Hx. pose proof (rep_in x Hx) as Hr. pose proof (cls_eq x (rep x) Hx Hr) as E.
    assert (Hrn : (rep x < n)%nat) by (apply cls_in in Hr; tauto). split.
    - unfold reps. apply filter_In. split; [apply in_seq; lia|]. apply Nat.eqb_eq. rewrite E. unfold rep.
      pose proof (cls_self x Hx) as H. destruct (cls x) as [|a l]; [destruct H|reflexivity].
    - rewrite E. apply cls_self. exact Hx.
  Qed.

  Lemma reps_spec r : In r reps <-> (r < n)%nat /\ hd r (cls r) = r.
  Proof. unfold reps. rewrite filter_In, in_seq, Nat.eqb_eq. intuition lia. Qed.

  Lemma reps_unique r1 r2 x : In r1 reps -> In r2 reps -> In x (cls r1) -> In x (cls r2) -> r1 = r2.
  Proof.
    intros H1 H2 X1 X2. apply reps_spec in H1 as [N1 E1]. apply reps_spec in H2 as [N2 E2].
    pose proof (cls_eq r1 x N1 X1) as A. pose proof (cls_eq r2 x N2 X2) as B.
    rewrite <- E1, <- E2. rewrite <- A, <- B. destruct (cls x); [|reflexivity].
    exfalso. rewrite <- A in X1. destruct X1.
  Qed.

  (** ancestors: equal inside a class, strictly more along a one-way link *)
  Lemma anc_le x y : (x < n)%nat -> (y < n)%nat -> R x y = true -> (anc x <= anc y)%nat.
  Proof.
    intros Hx Hy Rxy. unfold anc, ancestors. generalize (seq_NoDup n 0). intros _.
    assert (G : forall l, (forall k, In k l -> (k < n)%nat) ->
              (length (filter (fun k => lookup T k x) l) <= length (filter (fun k => lookup T k y) l))%nat).
    { induction l as [|k l IH]; intros Hl; [cbn; lia|]. cbn [filter]. specialize (IH (fun k' Hk' => Hl k' (or_intror Hk'))).
      change (lookup T k x) with (R k x). change (lookup T k y) with (R k y). destruct (R k x) eqn:A.
      - rewrite (R_trans K n k x y) by (try assumption; apply Hl; left; reflexivity). cbn [length]. lia.
      - destruct (R k y); cbn [length]; lia. }
    apply G. intros k Hk. apply in_seq in Hk. lia.
  Qed.

  Lemma anc_lt x y : (x < n)%nat -> (y < n)%nat -> R x y = true -> R y x = false -> (anc x < anc y)%nat.
  Proof.
    intros Hx Hy Rxy Ryx. unfold anc, ancestors.
    assert (G : forall l, (forall k, In k l -> (k < n)%nat) -> In y l ->
              (length (filter (fun k => lookup T k x) l) < length (filter (fun k => lookup T k y) l))%nat).
    { induction l as [|k l IH]; intros Hl Hin; [destruct Hin|]. cbn [filter].
      change (lookup T k x) with (R k x). change (lookup T k y) with (R k y).
      assert (Le : (length (filter (fun k => lookup T k x) l) <= length (filter (fun k => lookup T k y) l))%nat).
      { clear IH Hin. assert (Hl' : forall k', In k' l -> (k' < n)%nat) by (intros k' Hk'; apply Hl; right; exact Hk').
        induction l as [|k' l IH]; [cbn; lia|]. cbn [filter]. specialize (IH (fun a Ha => Hl a (match Ha with or_introl e => or_introl e | or_intror h => or_intror (or_intror h) end)) (fun a Ha => Hl' a (or_intror Ha))).
        change (lookup T k' x) with (R k' x). change (lookup T k' y) with (R k' y). destruct (R k' x) eqn:A.
        - rewrite (R_trans K n k' x y) by (try assumption; apply Hl'; left; reflexivity). cbn [length]. lia.
        - destruct (R k' y); cbn [length]; lia. }
      destruct Hin as [->|Hin].
      - rewrite Ryx, (R_refl K n y Hy). cbn [length]. lia.
      - specialize (IH (fun k' Hk' => Hl k' (or_intror Hk')) Hin). destruct (R k x) eqn:A.
        + rewrite (R_trans K n k x y) by (try assumption; apply Hl; left; reflexivity). cbn [length]. lia.
        + destruct (R k y); cbn [length]; lia. }
    apply G; [intros k Hk; apply in_seq in Hk; lia|apply in_seq; lia].
  Qed.

  Lemma anc_cls x y : (x < n)%nat -> In y (cls x) -> anc y = anc x.
  Proof.
    intros Hx Hy. apply cls_in in Hy as (Hyn & A & B). pose proof (anc_le x y Hx Hyn A). pose proof (anc_le y x Hyn Hx B). lia.
  Qed.
End Scc.

(** * the ordered partition *)
Section Sccs.
  Variables (K : table) (n : nat).
  Notation R := (R K n).
  Notation T := (reach_tab K n).
  Notation cls := (cls K n).
  Notation anc := (anc K n).
  Notation reps := (reps K n).
  Definition key (g : list nat) : nat := ancestors T n (hd 0%nat g).

  Lemma sccs_unfold : sccs K n = fold_right (fun i acc => insert_by key (cls i) acc) [] reps.
  Proof. reflexivity. Qed.

  Lemma sccs_perm : Permutation (sccs K n) (map cls reps).
  Proof.
    rewrite sccs_unfold. induction reps as [|r l IH]; [reflexivity|]. cbn [fold_right map].
    etransitivity; [apply insert_by_perm|apply perm_skip; exact IH].
  Qed.

  Lemma sccs_sorted : StronglySorted (fun a b => (key a <= key b)%nat) (sccs K n).
  Proof.
    rewrite sccs_unfold. induction reps as [|r l IH]; [constructor|]. cbn [fold_right]. apply insert_by_sorted. exact IH.
  Qed.

  Lemma reps_nodup : NoDup reps.
  Proof. unfold SccProof.reps. apply NoDup_filter, seq_NoDup. Qed.

  Lemma classes_nodup : forall l, NoDup l -> incl l reps -> NoDup (concat (map cls l)).
  Proof.
    induction l as [|a l IH]; intros Nd Hi; [constructor|]. cbn [map concat]. inversion Nd as [|? ? Ha Nl]; subst.
    apply NoDup_app_intro; [apply cls_nodup|apply IH; [exact Nl|intros x Hx; apply Hi; right; exact Hx]|].
    intros x Hx Hc. apply in_concat in Hc as (c & Hc & Hxc). apply in_map_iff in Hc as (r & <- & Hr).
    assert (a = r) by (apply (reps_unique K n a r x); [apply Hi; left; reflexivity|apply Hi; right; exact Hr|exact Hx|exact Hxc]).
    subst. contradiction.
  Qed.

  Lemma classes_cover : Permutation (concat (map cls reps)) (seq 0 n).
  Proof.
    apply NoDup_Permutation; [apply classes_nodup; [apply reps_nodup|intros x Hx; exact Hx]|apply seq_NoDup|].
    intros x. split.
    - intros Hx. apply in_concat in Hx as (c & Hc & Hxc). apply in_map_iff in Hc as (r & <- & _). apply cls_in in Hxc. apply in_seq. lia.
    - intros Hx. apply in_seq in Hx. destruct (rep_is_rep K n x ltac:(lia)) as [Hr Hxr].
      apply in_concat. exists (cls (rep K n x)). split; [apply in_map; exact Hr|exact Hxr].
  Qed.

  Lemma sccs_elems : Permutation (elems (sccs K n)) (seq 0 n).
  Proof.
    unfold elems. etransitivity; [|exact classes_cover].
    pose proof sccs_perm as P. clear -P. induction P; cbn [concat]; try reflexivity.
    - apply Permutation_app_head. assumption.
    - rewrite !app_assoc. apply Permutation_app_tail. apply Permutation_app_comm.
    - etransitivity; eassumption.
  Qed.

  Lemma sccs_groups g : In g (sccs K n) -> exists r, In r reps /\ g = cls r.
  Proof. intros Hg. apply (Permutation_in _ sccs_perm) in Hg. apply in_map_iff in Hg as (r & <- & Hr). exists r. split; [exact Hr|reflexivity]. Qed.

  (** it is an ordered partition of the ids into non-empty groups *)
  Theorem sccs_is_partition : is_partition_of (seq 0 n) (sccs K n) = true.
  Proof.
    unfold is_partition_of. pose proof sccs_elems as P. rewrite !andb_true_iff. repeat split.
    - apply Nat.eqb_eq. apply Permutation_length. exact P.
    - apply forallb_forall. intros x Hx. apply mem_In. apply (Permutation_in _ (Permutation_sym P)). exact Hx.
    - apply forallb_forall. intros x Hx. apply mem_In. apply (Permutation_in _ P). exact Hx.
    - apply forallb_forall. intros g Hg. destruct (sccs_groups g Hg) as (r & Hr & ->). apply reps_spec in Hr as [Hrn _].
      pose proof (cls_self K n r Hrn) as H. destruct (cls r); [destruct H|reflexivity].
  Qed.

  Lemma key_of_member g x : In g (sccs K n) -> In x g -> key g = anc x.
  Proof.
    intros Hg Hx. destruct (sccs_groups g Hg) as (r & Hr & ->). apply reps_spec in Hr as [Hrn Hh]. unfold key.
    assert (E : hd 0%nat (cls r) = r).
    { pose proof (cls_self K n r Hrn) as H. destruct (cls r) as [|a l] eqn:Ec; [destruct H|]. cbn [hd] in *. exact Hh. }
    rewrite E. symmetry. apply (anc_cls K n r x Hrn Hx).
  Qed.

  Lemma sorted_nth (l : list (list nat)) i j : StronglySorted (fun a b => (key a <= key b)%nat) l ->
    (i < j < length l)%nat -> (key (nth i l []) <= key (nth j l []))%nat.
  Proof.
    intros S. revert i j. induction S as [|a l S IH Ha]; intros i j Hij; [cbn in Hij; lia|].
    destruct i as [|i]; destruct j as [|j]; try lia.
    - cbn [nth]. rewrite Forall_forall in Ha. apply Ha. apply nth_In. cbn in Hij. lia.
    - cbn [nth]. apply IH. cbn in Hij. lia.
  Qed.

  (** no arc goes from a later group to an earlier one *)
  Theorem sccs_no_back_arcs : no_back_arcs K (sccs K n) = true.
  Proof.
    unfold no_back_arcs. apply forallb_forall. intros [x y] Hxy. apply in_prod_iff in Hxy as [Hx Hy]. cbn [fst snd].
    destruct (Z.ltb_spec (bucket_id (sccs K n) x) (bucket_id (sccs K n) y)) as [Lt|Ge]; [|reflexivity]. cbn [negb orb].
    destruct (arc K y x) eqn:A; [|reflexivity]. exfalso.
    set (P := sccs K n) in *. pose proof sccs_elems as Pe. fold P in Pe.
    assert (Nd : NoDup (concat P)) by (eapply Permutation_NoDup; [symmetry; exact Pe|apply seq_NoDup]).
    assert (Hxn : (x < n)%nat) by (apply (Permutation_in _ Pe) in Hx; apply in_seq in Hx; lia).
    assert (Hyn : (y < n)%nat) by (apply (Permutation_in _ Pe) in Hy; apply in_seq in Hy; lia).
    pose proof (bid_lt P 0 x Hx) as Bx. pose proof (bid_lt P 0 y Hy) as By. unfold bucket_id in *.
    set (ix := Z.to_nat (bid_from 0 P x)). set (iy := Z.to_nat (bid_from 0 P y)).
    pose proof (in_nth_bucket P 0 x ltac:(lia) Hx) as Gx. pose proof (in_nth_bucket P 0 y ltac:(lia) Hy) as Gy.
    replace (Z.to_nat (bid_from 0 P x - 0)) with ix in Gx by (unfold ix; lia).
    replace (Z.to_nat (bid_from 0 P y - 0)) with iy in Gy by (unfold iy; lia).
    assert (Hgx : In (nth ix P []) P) by (apply nth_In; unfold ix; lia).
    assert (Hgy : In (nth iy P []) P) by (apply nth_In; unfold iy; lia).
    pose proof (sorted_nth P ix iy sccs_sorted ltac:(unfold ix, iy; lia)) as Le.
    rewrite (key_of_member _ x Hgx Gx), (key_of_member _ y Hgy Gy) in Le.
    pose proof (R_arc K n y x Hyn Hxn A) as Ryx.
    destruct (R x y) eqn:Rxy.
    - (* same class, hence same group *)
      destruct (sccs_groups _ Hgx) as (r & Hr & Eg). apply reps_spec in Hr as [Hrn _].
      assert (Hyc : In y (nth ix P [])).
      { rewrite Eg in *. rewrite <- (cls_eq K n r x Hrn Gx). apply cls_in. tauto. }
      pose proof (bid_of_bucket' P 0 ix y Nd Hyc ltac:(unfold ix; lia)). unfold ix in *. lia.
    - pose proof (anc_lt K n y x Hyn Hxn Ryx Rxy). lia.
  Qed.
End Sccs.

(** the model's ParCons partition admits an optimal consensus that respects it - for every dataset and scheme *)
Theorem model_partition_admits_optimum K n : mirror K ->
  exists c, is_optimal K (seq 0 n) c /\ Forall (fun b => b <> []) c /\
            forall x y, In x (seq 0 n) -> In y (seq 0 n) -> bucket_id (sccs K n) x < bucket_id (sccs K n) y -> bucket_id c x < bucket_id c y.
Proof.
  intros M. apply parcons_check_sound; [exact M|apply seq_NoDup|apply sccs_is_partition|apply sccs_no_back_arcs].
Qed.

(** ... and the ParFront partition computed from it is respected by EVERY optimal consensus *)
Theorem model_parfront_every_optimum K n : mirror K ->
  exists P, parfront_from K (sccs K n) = Some P /\ concat P = concat (sccs K n) /\ Forall (fun g => g <> []) P /\
    forall c, is_optimal K (seq 0 n) c ->
      forall x y, In x (seq 0 n) -> In y (seq 0 n) -> bucket_id P x < bucket_id P y -> bucket_id c x < bucket_id c y.
Proof.
  intros M. apply parfront_every_optimum; [exact M|apply seq_NoDup|apply sccs_is_partition|apply sccs_no_back_arcs].
Qed.
