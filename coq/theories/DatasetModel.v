(** Model of corankco/ranking.py (constructor views) and corankco/dataset.py (analysis, the three
    mutators, unification, projections, matrices, equality), over typed names (int / str).
    Python sets are lists in the iteration order observed by the harness; every statement that must
    not depend on that order is stated up to set equality.
    The model is that of the repaired code (F9: unified rankings are rebuilt by the constructor,
    F10: both id maps are rebuilt by every analysis, F11: structural equality). *)
From Corankco Require Import Prelude Parser.
From Coq Require Import Ascii String.
Local Open Scope Z_scope.

Definition nranking := list (list name).

Definition int_like (x : name) : bool := match x with NInt _ => true | NStr s => isdigit s end.
Definition to_int_name (x : name) : name := match x with NInt z => NInt z | NStr s => NInt (int_of s) end.
Definition to_str_name (x : name) : name := match x with NInt z => NStr (render_int z) | NStr s => NStr s end.

(** [Ranking(buckets)]: each bucket becomes a set; an element in two buckets raises ValueError *)
Definition mk_ranking (bs : nranking) : option nranking :=
  let bs' := map ndedup bs in if disjoint_buckets [] bs' then Some bs' else None.

(** the [_positions] dict, in insertion order: position = 1 + number of elements in earlier buckets *)
Fixpoint positions_from (k : Z) (r : nranking) : list (name * Z) :=
  match r with
  | [] => []
  | b :: r' => map (fun x => (x, k)) b ++ positions_from (k + Z.of_nat (List.length b)) r'
  end.
Definition positions_dict (r : nranking) : list (name * Z) := positions_from 1 r.

Definition nelems (r : nranking) : list name := List.concat r.

Fixpoint nfirst (seen : list name) (l : list name) : list name :=
  match l with
  | [] => []
  | x :: l' => if nmem x seen then nfirst seen l' else x :: nfirst (x :: seen) l'
  end.

Inductive derr := EmptyDataset | DValueError | DKeyError.

Record dataset_obj := mkD {
  d_rankings : list nranking;
  d_ids : list name;          (* element of id i = nth i d_ids *)
  d_complete : bool;
  d_noties : bool }.

(** [_analyse_rankings] (both maps rebuilt) *)
Definition analyse (rs : list nranking) : result derr dataset_obj :=
  match rs with
  | [] => Err EmptyDataset
  | _ =>
      let allint := forallb (fun r => forallb (fun b => forallb int_like b) r) rs in
      let conv := if allint then to_int_name else to_str_name in
      match all_some (map (fun r => mk_ranking (map (map conv) r)) rs) with
      | None => Err DValueError
      | Some rs' =>
          let ids := nfirst [] (List.concat (map nelems rs')) in
          match ids with
          | [] => Err EmptyDataset
          | _ =>
              let complete := forallb (fun x => forallb (fun r => nmem x (nelems r)) rs') ids in
              let noties := forallb (fun r => forallb (fun b => (List.length b <=? 1)%nat) r) rs' in
              Ok (mkD rs' ids complete noties)
          end
      end
  end.

(** [Dataset(rankings)] / [from_raw_list]: rankings are built first, then analysed *)
Definition dataset_new (raw : list nranking) : result derr dataset_obj :=
  match all_some (map mk_ranking raw) with
  | None => Err DValueError
  | Some rs => analyse rs
  end.

(** ** mutators *)
Definition remove_empty_rankings (d : dataset_obj) : result derr dataset_obj :=
  analyse (filter (fun r => negb (Nat.eqb (List.length r) 0)) (d_rankings d)).

Definition project_out (S : list name) (r : nranking) : nranking :=
  filter (fun b => negb (Nat.eqb (List.length b) 0)) (map (filter (fun x => negb (nmem x S))) r).

Definition remove_elements (d : dataset_obj) (S : list name) : result derr dataset_obj :=
  if negb (forallb (fun x => nmem x (d_ids d)) (ndedup S)) then Err DKeyError
  else
    analyse (filter (fun r => negb (Nat.eqb (List.length r) 0)) (map (project_out S) (d_rankings d))).

Definition presence (d : dataset_obj) (x : name) : Z :=
  Z.of_nat (List.length (filter (fun r => nmem x (nelems r)) (d_rankings d))).

(** rate = p/q with q > 0: remove x when presence(x)/nb_rankings < p/q *)
Definition remove_rate (d : dataset_obj) (p q : Z) : result derr dataset_obj :=
  let m := Z.of_nat (List.length (d_rankings d)) in
  remove_elements d (filter (fun x => presence d x * q <? p * m) (d_ids d)).

(** ** derived objects *)
Definition nunify (U : list name) (r : nranking) : nranking :=
  match filter (fun x => negb (nmem x (nelems r))) U with [] => r | m => r ++ [m] end.
Definition unified_rankings (d : dataset_obj) : list nranking := map (nunify (d_ids d)) (d_rankings d).
Definition unified_dataset (d : dataset_obj) : result derr dataset_obj := analyse (unified_rankings d).

Definition project_on (K : list name) (r : nranking) : nranking :=
  filter (fun b => negb (Nat.eqb (List.length b) 0)) (map (filter (fun x => nmem x K)) r).
Definition sub_problem (d : dataset_obj) (K : list name) : result derr dataset_obj :=
  analyse (filter (fun r => negb (Nat.eqb (List.length r) 0)) (map (project_on K) (d_rankings d))).

(** ** matrices: entry (id, ranking) = position-1 / bucket index, -1 when unranked *)
Fixpoint npos_from (k : Z) (r : nranking) (x : name) : Z :=
  match r with [] => -1 | b :: r' => if nmem x b then k else npos_from (k + Z.of_nat (List.length b)) r' x end.
Fixpoint nbid_from (k : Z) (r : nranking) (x : name) : Z :=
  match r with [] => -1 | b :: r' => if nmem x b then k else nbid_from (k + 1) r' x end.
Definition get_positions (d : dataset_obj) : list (list Z) :=
  map (fun x => map (fun r => npos_from 0 r x) (d_rankings d)) (d_ids d).
Definition get_bucket_ids (d : dataset_obj) : list (list Z) :=
  map (fun x => map (fun r => nbid_from 0 r x) (d_rankings d)) (d_ids d).

(** ** equality: same multiset of rankings, buckets compared as sets *)
Definition nset_eqb (a b : list name) : bool :=
  forallb (fun x => nmem x b) a && forallb (fun x => nmem x a) b.
Definition nranking_eqb (a b : nranking) : bool := list_eqb nset_eqb a b.
Definition count_r (r : nranking) (l : list nranking) : nat := List.length (filter (nranking_eqb r) l).
Definition dataset_eqb (a b : list nranking) : bool :=
  forallb (fun r => Nat.eqb (count_r r a) (count_r r b)) (a ++ b).
