(** Theory shared by C05 / C06 / C07: score of a consensus seen through its position function,
    mirror-consistent tables, the exchange lemma (weak and strict), realisation of position functions
    as rankings, and a verified brute-force optimum. *)
From Corankco Require Import Prelude Scheme Rank KemenySpec GroupSort.
Local Open Scope Z_scope.

Definition posf := nat -> Z.

Definition pickf (K : table) (p : posf) (x y : nat) : Z :=
  let '(b, a, t) := K x y in
  match Z.compare (p x) (p y) with Lt => b | Gt => a | Eq => t end.

Definition scoref (K : table) (U : list nat) (p : posf) : Z :=
  zsum (map (fun xy => pickf K p (fst xy) (snd xy)) (ordpairs U)).

Lemma score_scoref K c : score K c = scoref K (elems c) (bucket_id c).
Proof. reflexivity. Qed.

Definition mirror (K : table) : Prop := forall x y, let '(b, a, t) := K x y in K y x = (a, b, t).

Lemma pickf_sym K p x y : mirror K -> pickf K p x y = pickf K p y x.
Proof.
  intros M. unfold pickf. specialize (M x y). destruct (K x y) as [[b a] t]. rewrite M.
  rewrite (Z.compare_antisym (p x) (p y)). destruct (p x ?= p y); reflexivity.
Qed.

Lemma zsum_le {A} (f g : A -> Z) (l : list A) :
  (forall a, In a l -> f a <= g a) -> zsum (map f l) <= zsum (map g l).
Proof.
  induction l as [|a l IH]; simpl; intros H; [lia|].
  specialize (H a (or_introl eq_refl)) as Ha.
  assert (zsum (map f l) <= zsum (map g l)) by (apply IH; intros; apply H; now right). lia.
Qed.

Lemma zsum_lt {A} (f g : A -> Z) (l : list A) a0 :
  (forall a, In a l -> f a <= g a) -> In a0 l -> f a0 < g a0 -> zsum (map f l) < zsum (map g l).
Proof.
  induction l as [|a l IH]; simpl; intros H Hin Hlt; [contradiction|].
  destruct Hin as [->|Hin].
  - assert (zsum (map f l) <= zsum (map g l)) by (apply zsum_le; intros; apply H; now right). lia.
  - specialize (H a (or_introl eq_refl)) as Ha.
    assert (zsum (map f l) < zsum (map g l)) by (apply IH; auto). lia.
Qed.

Lemma ordpairs_in' {A} (l : list A) x y : In (x, y) (ordpairs l) -> In x l /\ In y l.
Proof.
  induction l as [|a l IH]; simpl; [tauto|]. rewrite in_app_iff, in_map_iff.
  intros [(z & E & Hz)|H]; [inversion E; subst; auto|destruct (IH H); auto].
Qed.

Lemma scoref_ext K U p q :
  (forall x y, In x U -> In y U -> Z.compare (p x) (p y) = Z.compare (q x) (q y)) -> scoref K U p = scoref K U q.
Proof.
  intros H. unfold scoref. apply zsum_map_ext. intros [x y] Hxy. apply ordpairs_in' in Hxy as [Hx Hy].
  unfold pickf. simpl. rewrite (H x y Hx Hy). reflexivity.
Qed.

(** ** sums over unordered pairs do not depend on the listing, for symmetric summands *)
Lemma zsum_map_add' {A} (f g : A -> Z) l : zsum (map (fun x => f x + g x) l) = zsum (map f l) + zsum (map g l).
Proof. induction l as [|a l IH]; simpl; [reflexivity|]. rewrite IH. lia. Qed.

Lemma zsum_cons a l : zsum (a :: l) = a + zsum l.
Proof. reflexivity. Qed.

Lemma double_sum_ordpairs (f : nat -> nat -> Z) (l : list nat) :
  zsum (map (fun i => zsum (map (f i) l)) l) =
  zsum (map (fun i => f i i) l) + zsum (map (fun p => f (fst p) (snd p) + f (snd p) (fst p)) (ordpairs l)).
Proof.
  induction l as [|a l IH]; [reflexivity|].
  cbn [map ordpairs]. rewrite map_app, map_map. cbn [fst snd].
  rewrite !zsum_cons, zsum_app.
  rewrite (zsum_map_ext (fun i => zsum (f i a :: map (f i) l)) (fun i => f i a + zsum (map (f i) l))) by (intros; apply zsum_cons).
  rewrite !zsum_map_add', IH, !zsum_map_add'. lia.
Qed.

Lemma zsum_perm' l l' : Permutation l l' -> zsum l = zsum l'.
Proof. induction 1; simpl; lia. Qed.

Lemma double_sum_perm (f : nat -> nat -> Z) l l' :
  Permutation l l' -> zsum (map (fun i => zsum (map (f i) l)) l) = zsum (map (fun i => zsum (map (f i) l')) l').
Proof.
  intros P. rewrite (zsum_perm' _ _ (Permutation_map (fun i => zsum (map (f i) l)) P)).
  apply zsum_map_ext. intros i _. apply zsum_perm', Permutation_map, P.
Qed.

Lemma ordpairs_sum_perm (f : nat -> nat -> Z) l l' :
  (forall x y, f x y = f y x) -> Permutation l l' ->
  zsum (map (fun p => f (fst p) (snd p)) (ordpairs l)) = zsum (map (fun p => f (fst p) (snd p)) (ordpairs l')).
Proof.
  intros Hs P. pose proof (double_sum_ordpairs f l) as E1. pose proof (double_sum_ordpairs f l') as E2.
  rewrite (double_sum_perm f l l' P) in E1.
  rewrite (zsum_perm' _ _ (Permutation_map (fun i => f i i) P)) in E1.
  assert (D : forall m, zsum (map (fun p => f (fst p) (snd p) + f (snd p) (fst p)) (ordpairs m)) =
                        2 * zsum (map (fun p => f (fst p) (snd p)) (ordpairs m))).
  { intros m. induction (ordpairs m) as [|[x y] r IH]; [reflexivity|]. cbn [map fst snd].
    rewrite !zsum_cons, IH, (Hs y x). lia. }
  rewrite !D in *. lia.
Qed.

Lemma scoref_perm K U U' p : mirror K -> Permutation U U' -> scoref K U p = scoref K U' p.
Proof. intros M P. unfold scoref. apply (ordpairs_sum_perm (pickf K p)); [intros; apply pickf_sym; assumption|assumption]. Qed.

(** ** the exchange lemma: regrouping by an ordered partition with no back arcs never costs more *)
Section Exchange.
  Variable K : table.
  Variable U : list nat.
  Variable g : nat -> Z.          (* index of the group of an element *)
  Variable N : Z.
  Hypothesis HM : mirror K.

  Definition no_back : Prop := forall x y, In x U -> In y U -> g x < g y ->
      let '(b, a, t) := K x y in b <= a /\ b <= t.
  Definition robust_fwd : Prop := forall x y, In x U -> In y U -> g x < g y ->
      let '(b, a, t) := K x y in b < a /\ b < t.

  Definition regroup (p : posf) : posf := fun x => g x * N + p x.

  Lemma regroup_same p x y : g x = g y -> Z.compare (regroup p x) (regroup p y) = Z.compare (p x) (p y).
  Proof.
    unfold regroup; intros ->. destruct (Z.compare_spec (p x) (p y)) as [E|L|G].
    - rewrite E. apply Z.compare_refl.
    - apply Z.compare_lt_iff. lia.
    - apply Z.compare_gt_iff. lia.
  Qed.

  Lemma regroup_lt p x y : 0 <= p x < N -> 0 <= p y < N -> g x < g y -> Z.compare (regroup p x) (regroup p y) = Lt.
  Proof. unfold regroup; intros; apply Z.compare_lt_iff; nia. Qed.

  Lemma pick_regroup_le p x y : no_back -> (forall z, In z U -> 0 <= p z < N) ->
    In x U -> In y U -> pickf K (regroup p) x y <= pickf K p x y.
  Proof.
    intros NB Hb Hx Hy. unfold pickf.
    destruct (Z.lt_trichotomy (g x) (g y)) as [L|[E|G]].
    - rewrite regroup_lt by auto. specialize (NB x y Hx Hy L). destruct (K x y) as [[b a] t].
      destruct (Z.compare (p x) (p y)); lia.
    - rewrite regroup_same by auto. lia.
    - rewrite (Z.compare_antisym (regroup p y) (regroup p x)), (regroup_lt p y x) by auto. simpl.
      specialize (NB y x Hy Hx G). specialize (HM y x). destruct (K y x) as [[b a] t]. rewrite HM.
      destruct (Z.compare (p x) (p y)); lia.
  Qed.

  Theorem exchange p : no_back -> (forall z, In z U -> 0 <= p z < N) ->
    scoref K U (regroup p) <= scoref K U p.
  Proof.
    intros NB Hb. unfold scoref. apply zsum_le. intros [x y] Hin.
    destruct (ordpairs_in' _ _ _ Hin). simpl. now apply pick_regroup_le.
  Qed.

  Theorem regroup_respects p x y : (forall z, In z U -> 0 <= p z < N) -> In x U -> In y U ->
    g x < g y -> regroup p x < regroup p y.
  Proof. intros Hb Hx Hy L. pose proof (Hb x Hx). pose proof (Hb y Hy). unfold regroup. nia. Qed.

  (** strict version: with robust forward arcs, a consensus that does not respect the partition is
      strictly improved by regrouping, so no optimal consensus violates the partition *)
  Theorem exchange_strict p x0 y0 : robust_fwd -> NoDup U -> (forall z, In z U -> 0 <= p z < N) ->
    In x0 U -> In y0 U -> g x0 < g y0 -> p y0 <= p x0 ->
    scoref K U (regroup p) < scoref K U p.
  Proof.
    intros RB Nd Hb Hx0 Hy0 Lg Lp.
    assert (NB : no_back).
    { intros x y Hx Hy L. specialize (RB x y Hx Hy L). destruct (K x y) as [[b a] t]. lia. }
    (* the pair {x0,y0} appears in ordpairs U in one of the two orientations *)
    assert (Hpair : In (x0, y0) (ordpairs U) \/ In (y0, x0) (ordpairs U)).
    { assert (Hne : x0 <> y0) by (intros ->; lia). clear -Hx0 Hy0 Hne.
      induction U as [|a l IH]; [destruct Hx0|]. simpl. rewrite !in_app_iff, !in_map_iff.
      destruct Hx0 as [->|Hx]; destruct Hy0 as [->|Hy].
      - contradiction.
      - left; left; eauto.
      - right; left; eauto.
      - destruct (IH Hx Hy); auto. }
    unfold scoref. destruct Hpair as [Hp|Hp].
    - apply (zsum_lt _ _ _ (x0, y0)); [|exact Hp|].
      + intros [x y] Hin. destruct (ordpairs_in' _ _ _ Hin). simpl. now apply pick_regroup_le.
      + simpl. unfold pickf. rewrite regroup_lt by auto. specialize (RB x0 y0 Hx0 Hy0 Lg).
        destruct (K x0 y0) as [[b a] t]. destruct (Z.compare_spec (p x0) (p y0)); lia.
    - apply (zsum_lt _ _ _ (y0, x0)); [|exact Hp|].
      + intros [x y] Hin. destruct (ordpairs_in' _ _ _ Hin). simpl. now apply pick_regroup_le.
      + simpl. unfold pickf. rewrite (Z.compare_antisym (regroup p x0) (regroup p y0)), (regroup_lt p x0 y0) by auto. simpl.
        specialize (RB x0 y0 Hx0 Hy0 Lg). specialize (HM x0 y0). destruct (K x0 y0) as [[b a] t]. rewrite HM.
        destruct (Z.compare_spec (p y0) (p x0)); lia.
  Qed.
End Exchange.

(** ** position functions are realised by rankings *)
Lemma zleb_total' a b : (a <=? b) = true \/ (b <=? a) = true.
Proof. lia. Qed.
Lemma zleb_trans' a b c : (a <=? b) = true -> (b <=? c) = true -> (a <=? c) = true.
Proof. lia. Qed.

Definition rank_of (U : list nat) (p : posf) : ranking := rank_by Z.leb p U.

Theorem rank_of_spec U p :
  NoDup U ->
  Permutation (elems (rank_of U p)) U /\ Forall (fun b => b <> []) (rank_of U p) /\
  forall x y, In x U -> In y U -> Z.compare (bucket_id (rank_of U p) x) (bucket_id (rank_of U p) y) = Z.compare (p x) (p y).
Proof.
  intros Nd. split; [apply rank_by_perm|]. split; [apply rank_by_no_empty|].
  intros x y Hx Hy.
  destruct (rank_by_order Z Z.leb zleb_total' zleb_trans' p U x y Nd Hx Hy) as [L E].
  unfold klt, keq, kle in L, E. fold (rank_of U p) in L, E.
  destruct (Z.compare_spec (p x) (p y)) as [C|C|C].
  - apply Z.compare_eq_iff. apply E. lia.
  - apply Z.compare_lt_iff. apply L. lia.
  - apply Z.compare_gt_iff.
    destruct (Z.lt_trichotomy (bucket_id (rank_of U p) x) (bucket_id (rank_of U p) y)) as [H|[H|H]]; [|
      |lia].
    + apply L in H. lia.
    + apply E in H. lia.
Qed.

Theorem score_rank_of K U p : mirror K -> NoDup U -> score K (rank_of U p) = scoref K U p.
Proof.
  intros M Nd. destruct (rank_of_spec U p Nd) as (P & _ & C).
  rewrite score_scoref. rewrite (scoref_perm K _ U _ M P). apply scoref_ext. exact C.
Qed.

(** ** a verified brute-force optimum over all position functions U -> [0, |U|) *)
Fixpoint assigns (U : list nat) (n : nat) : list (list (nat * Z)) :=
  match U with
  | [] => [[]]
  | x :: U' => flat_map (fun a => map (fun k => (x, Z.of_nat k) :: a) (seq 0 n)) (assigns U' n)
  end.

Definition p_of (a : list (nat * Z)) : posf := fun x =>
  match find (fun e => Nat.eqb (fst e) x) a with Some e => snd e | None => -1 end.

Definition zmin_list (l : list Z) : Z :=
  match l with [] => 0 | s :: l' => fold_right Z.min s l' end.

Definition opt (K : table) (U : list nat) : Z :=
  zmin_list (map (fun a => scoref K U (p_of a)) (assigns U (length U))).

Lemma zmin_list_le l x : In x l -> zmin_list l <= x.
Proof.
  destruct l as [|s l]; [intros []|]. simpl. intros [<-|H].
  - induction l; simpl; lia.
  - induction l as [|a l IH]; [destruct H|]. simpl. destruct H as [<-|H]; [lia|specialize (IH H); lia].
Qed.
Lemma zmin_list_in l : l <> [] -> In (zmin_list l) l.
Proof.
  destruct l as [|s l]; [contradiction|]. intros _. simpl. induction l as [|a l IH]; simpl; [auto|].
  destruct (Z.min_spec a (fold_right Z.min s l)) as [[_ ->]|[_ ->]]; [auto|]. destruct IH; auto.
Qed.

Lemma assigns_complete U n (f : posf) :
  NoDup U -> (forall x, In x U -> 0 <= f x < Z.of_nat n) ->
  exists a, In a (assigns U n) /\ forall x, In x U -> p_of a x = f x.
Proof.
  induction U as [|x U IH]; intros Nd Hf; simpl.
  - exists []. split; [left; reflexivity|intros ? []].
  - inversion Nd as [|? ? Hn Nd']; subst.
    destruct (IH Nd' (fun z Hz => Hf z (or_intror Hz))) as (a & Ha & Pa).
    exists ((x, f x) :: a). split.
    + apply in_flat_map. exists a. split; [assumption|]. apply in_map_iff. exists (Z.to_nat (f x)).
      pose proof (Hf x (or_introl eq_refl)). split; [rewrite Z2Nat.id by lia; reflexivity|apply in_seq; lia].
    + intros z [<-|Hz]; unfold p_of; simpl.
      * rewrite Nat.eqb_refl. reflexivity.
      * destruct (Nat.eqb x z) eqn:E; [apply Nat.eqb_eq in E; subst; contradiction|]. apply Pa. assumption.
Qed.

Lemma assigns_nonempty U n : (0 < n)%nat \/ U = [] -> assigns U n <> [].
Proof.
  intros H. induction U as [|x U IH]; simpl; [discriminate|].
  destruct H as [H|H]; [|discriminate]. specialize (IH (or_introl H)).
  destruct (assigns U n) as [|a l]; [contradiction|]. simpl. destruct n; [lia|]. simpl. discriminate.
Qed.

Definition wfU (U : list nat) (c : ranking) : Prop := Permutation (elems c) U.

(** no ranking with ties of the universe scores less than [opt] *)
Theorem opt_lower K U c : mirror K -> NoDup U -> wfU U c -> opt K U <= score K c.
Proof.
  intros M Nd W. unfold wfU in W.
  (* compress the bucket ids of c (there may be empty buckets) to a function into [0, |U|) *)
  set (c' := rank_of U (bucket_id c)).
  destruct (rank_of_spec U (bucket_id c) Nd) as (P' & Ne' & C'). fold c' in P', Ne', C'.
  assert (Len : (length c' <= length U)%nat).
  { rewrite <- (Permutation_length P'). unfold elems. clear -Ne'. induction c' as [|b r IH]; simpl; [lia|].
    inversion Ne'; subst. rewrite app_length. destruct b; [contradiction|]. simpl. specialize (IH H2). lia. }
  assert (Rng : forall x, In x U -> 0 <= bucket_id c' x < Z.of_nat (length U)).
  { intros x Hx. assert (Hin : In x (concat c')) by (eapply Permutation_in; [symmetry; exact P'|exact Hx]).
    unfold bucket_id. clear -Hin Len.
    assert (G : forall k r, 0 <= k -> In x (concat r) -> k <= bid_from k r x < k + Z.of_nat (length r)).
    { intros k r; revert k; induction r as [|b r IH]; intros k Hk H; [destruct H|]. simpl in *.
      destruct (mem x b) eqn:E; [lia|]. apply mem_false in E. apply in_app_or in H as [H|H]; [contradiction|].
      specialize (IH (k + 1) ltac:(lia) H). lia. }
    specialize (G 0 c' ltac:(lia) Hin). lia. }
  destruct (assigns_complete U (length U) (bucket_id c') Nd Rng) as (a & Ha & Pa).
  assert (E : score K c = scoref K U (p_of a)).
  { rewrite score_scoref, (scoref_perm K _ U _ M W). apply scoref_ext. intros x y Hx Hy.
    rewrite (Pa x Hx), (Pa y Hy), (C' x y Hx Hy). reflexivity. }
  rewrite E. unfold opt. apply zmin_list_le. apply in_map_iff. exists a. auto.
Qed.

(** ... and [opt] is the score of some ranking of the universe *)
Theorem opt_attained K U : mirror K -> NoDup U -> exists c, wfU U c /\ Forall (fun b => b <> []) c /\ score K c = opt K U.
Proof.
  intros M Nd. unfold opt.
  set (l := map (fun a => scoref K U (p_of a)) (assigns U (length U))).
  assert (Hl : l <> []).
  { unfold l. intros E. apply map_eq_nil in E. revert E. apply assigns_nonempty.
    destruct U; [right; reflexivity|left; simpl; lia]. }
  pose proof (zmin_list_in l Hl) as Hin. unfold l in Hin at 2. apply in_map_iff in Hin as (a & E & _).
  exists (rank_of U (p_of a)). destruct (rank_of_spec U (p_of a) Nd) as (P & Ne & _).
  split; [exact P|]. split; [exact Ne|]. rewrite score_rank_of by assumption. exact E.
Qed.

Definition is_optimal (K : table) (U : list nat) (c : ranking) : Prop :=
  wfU U c /\ forall c', wfU U c' -> score K c <= score K c'.

Theorem optimal_iff_opt K U c : mirror K -> NoDup U -> wfU U c -> (is_optimal K U c <-> score K c = opt K U).
Proof.
  intros M Nd W. split.
  - intros [_ H]. destruct (opt_attained K U M Nd) as (c0 & W0 & _ & E0).
    pose proof (H c0 W0). pose proof (opt_lower K U c M Nd W). lia.
  - intros E. split; [assumption|]. intros c' W'. rewrite E. apply opt_lower; assumption.
Qed.
