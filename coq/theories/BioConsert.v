(** Model of corankco/algorithms/bioconsert/bioconsert.py: the jitted kernels (arrays are lists of Z,
    bucket-id vectors are lists of Z), the local search, the departure rankings (after the repair of
    F4: ids of the input dataset), the selection of the best rankings and their decoding. *)
From Corankco Require Import Prelude Scheme Rank KemenySpec CostTable Markov Borda.
Local Open Scope Z_scope.

Definition aget (a : list Z) (i : Z) : Z := nth (Z.to_nat i) a 0.
Definition aadd (a : list Z) (i : Z) (v : Z) : list Z := upd a (Z.to_nat i) (aget a i + v).

(** [_compute_delta_costs]: returns (alone, change, add) *)
Definition delta_step (K : table) (r : vec) (target : nat) (bucket_elem : Z)
           (st : list Z * list Z * bool * Z * Z * Z) (e2 : nat) : list Z * list Z * bool * Z * Z * Z :=
  let '(change, add, alone, qb, qa, qt) := st in
  let '(cb, ca, ct) := K target e2 in
  let b2 := get r e2 in
  if bucket_elem <? b2 then
    (aadd (aadd change b2 (ct - cb)) (b2 + 1) (ca - ct), aadd add (b2 + 1) (ca - cb), alone, qb, qa, qt)
  else if b2 <? bucket_elem then
    (let c1 := aadd change b2 (ct - ca) in if b2 =? 0 then c1 else aadd c1 (b2 - 1) (cb - ct),
     aadd add b2 (cb - ca), alone, qb, qa, qt)
  else if Nat.eqb target e2 then st
  else (change, add, false, qb + cb, qa + ca, qt + ct).

Definition compute_delta_costs (K : table) (r : vec) (target : nat) (bucket_elem : Z) (n : nat)
  : bool * list Z * list Z :=
  let '(change, add, alone, qb, qa, qt) :=
    fold_left (delta_step K r target bucket_elem) (seq 0 n)
              (repeat 0 (n + 2), repeat 0 (n + 3), true, 0, 0, 0) in
  let change := if bucket_elem =? 0 then change else aadd change (bucket_elem - 1) (qb - qt) in
  let change := aadd change (bucket_elem + 1) (qa - qt) in
  let add := aadd add (bucket_elem + 1) (qa - qt) in
  let add := aadd add bucket_elem (qb - qt) in
  (alone, change, add).

(** scans: right then left, accumulating prefix sums in place; [-THR] is the -0.001 of the code *)
Fixpoint scan_right (fuel : nat) (a : list Z) (i : Z) (last : Z) : Z * list Z :=
  match fuel with
  | O => (-1, a)
  | S f =>
      if i <=? last then
        let a' := aadd a i (aget a (i - 1)) in
        if aget a' i <? - THR then (i, a') else scan_right f a' (i + 1) last
      else (-1, a)
  end.
Fixpoint scan_left (fuel : nat) (a : list Z) (i : Z) : Z * list Z :=
  match fuel with
  | O => (-1, a)
  | S f =>
      if 0 <=? i then
        let a' := aadd a i (aget a (i + 1)) in
        if aget a' i <? - THR then (i, a') else scan_left f a' (i - 1)
      else (-1, a)
  end.

Definition search_to_change_bucket (bucket_elem : Z) (change : list Z) (max_id : Z) : Z * list Z :=
  let i := bucket_elem + 1 in
  if aget change (i - 1) <? - THR then (i - 1, change)
  else
    let '(res, change) := scan_right (length change) change i max_id in
    if negb (res =? -1) then (res, change)
    else
      let i := bucket_elem - 2 in
      if (-1 <=? i) && (aget change (i + 1) <? - THR) then (i + 1, change)
      else scan_left (length change) change i.

Definition search_to_add_bucket (bucket_elem : Z) (add : list Z) (max_id : Z) : Z * list Z :=
  let i := bucket_elem + 2 in
  if aget add (i - 1) <? - THR then (i - 1, add)
  else
    let '(res, add) := scan_right (length add) add i (max_id + 1) in
    if negb (res =? -1) then (res, add)
    else
      let i := bucket_elem - 1 in
      if aget add (i + 1) <? - THR then (i + 1, add)
      else scan_left (length add) add i.

(** [_change_bucket] / [_add_bucket] *)
Definition change_bucket (r : vec) (element : nat) (old_pos new_pos : Z) (alone : bool) : vec :=
  let r1 := upd r element new_pos in
  if alone then map (fun x => if old_pos <? x then x - 1 else x) r1 else r1.

Definition add_bucket (r : vec) (element : nat) (old_pos new_pos : Z) (alone : bool) : vec :=
  if old_pos <? new_pos then
    if alone then upd (map (fun x => if (old_pos <? x) && (x <? new_pos) then x - 1 else x) r) element (new_pos - 1)
    else upd (map (fun x => if new_pos <=? x then x + 1 else x) r) element new_pos
  else
    if alone then upd (map (fun x => if (new_pos <=? x) && (x <? old_pos) then x + 1 else x) r) element new_pos
    else upd (map (fun x => if new_pos <=? x then x + 1 else x) r) element new_pos.

(** one pass over the elements; returns (r, max_id, delta, changed) *)
Definition improve_elem (K : table) (n : nat) (st : vec * Z * Z * bool) (elem : nat) : vec * Z * Z * bool :=
  let '(r, max_id, delta, changed) := st in
  let bucket_elem := get r elem in
  let '(alone, change, add) := compute_delta_costs K r elem bucket_elem n in
  let '(to, change') := search_to_change_bucket bucket_elem change max_id in
  if 0 <=? to then
    (change_bucket r elem bucket_elem to alone, if alone then max_id - 1 else max_id, delta + aget change' to, true)
  else
    let '(to, add') := search_to_add_bucket bucket_elem add max_id in
    if 0 <=? to then
      (add_bucket r elem bucket_elem to alone, if alone then max_id else max_id + 1, delta + aget add' to, true)
    else st.

Fixpoint improve_loop (fuel : nat) (K : table) (n : nat) (r : vec) (max_id delta : Z) : option (vec * Z) :=
  match fuel with
  | O => None
  | S f =>
      let '(r', max_id', delta', changed) := fold_left (improve_elem K n) (seq 0 n) (r, max_id, delta, false) in
      if changed then improve_loop f K n r' max_id' delta' else Some (r', delta')
  end.

Definition improve_one_ranking (fuel : nat) (K : table) (n : nat) (r : vec) : option (vec * Z) :=
  improve_loop fuel K n r (vmax r) 0.

(** initial score of a departure ranking (after the repair of F3) *)
Definition score_vec (K : table) (n : nat) (r : vec) : Z :=
  zsum (map (fun xy =>
    let '(b, a, t) := K (fst xy) (snd xy) in
    if get r (fst xy) <? get r (snd xy) then b else if get r (snd xy) <? get r (fst xy) then a else t)
    (ordpairs (seq 0 n))).

(** [_bio_consert] on one departure *)
Definition bio_one (fuel : nat) (K : table) (n : nat) (r : vec) : option (vec * Z) :=
  match improve_one_ranking fuel K n r with
  | Some (r', d) => Some (r', score_vec K n r + d)
  | None => None
  end.

(** departure rankings as bucket-id vectors indexed by the ids of the input dataset *)
Definition vec_of (U : list nat) (r : ranking) : vec := map (fun x => bucket_id r x) U.
Fixpoint dedup_vecs (seen : list vec) (l : list vec) : list vec :=
  match l with
  | [] => []
  | v :: l' => if existsb (list_eqb Z.eqb v) seen then dedup_vecs seen l' else v :: dedup_vecs (v :: seen) l'
  end.
Definition departures_plain (D : dataset) : list vec :=
  let U := universe D in
  dedup_vecs [] (map (vec_of U) (if is_complete D then D else unified_rankings D)) ++ [repeat 0 (length U)].
Definition departures_from (D : dataset) (starts : list ranking) : list vec :=
  dedup_vecs [] (map (vec_of (universe D)) starts).

(** decoding of a bucket-id vector: bucket k = ids with value k, for k = 0 .. (number of distinct ids - 1) *)
Definition decode_vec (U : list nat) (v : vec) : ranking :=
  let ids := nodup Z.eq_dec v in
  map (fun k => map (fun i => nth i U 0%nat) (members v (Z.of_nat k))) (seq 0 (length ids)).

Fixpoint all_some_list {A} (l : list (option A)) : option (list A) :=
  match l with
  | [] => Some []
  | Some a :: l' => match all_some_list l' with Some r => Some (a :: r) | None => None end
  | None :: _ => None
  end.

(** the whole algorithm on a list of departure vectors: (minimum score, rankings) *)
Definition select_best (one : bool) (U : list nat) (results : list (vec * Z)) : Z * list ranking :=
  let scores := map snd results in
  let best := match scores with [] => 0 | s :: l => fold_right Z.min s l end in
  let bests := map fst (filter (fun rs => snd rs =? best) results) in
  let bests := if one then [last bests []] else dedup_vecs [] bests in
  (best, map (decode_vec U) bests).

Definition bioconsert_on (fuel : nat) (one : bool) (s : scheme) (D : dataset) (deps : list vec) : option (Z * list ranking) :=
  let U := universe D in
  let n := length U in
  let K := cost_table s D in
  match all_some_list (map (bio_one fuel K n) deps) with
  | Some results => Some (select_best one U results)
  | None => None
  end.
