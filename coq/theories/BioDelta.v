(** BioConsert's difference array [change] (bioconsert.py, _compute_delta_costs) seen as a function
    Z -> Z built from point masses, and the prefix-sum lemma: the value accumulated by the right
    (resp. left) scan at bucket b equals the true variation of the score when the target element joins
    bucket b, including the [bucket_e2 != 0] and [bucket_elem != 0] guards.  (Partial step towards the
    full proof of C08: the link between these function-arrays and the list-arrays of the executable
    model is established by the correspondence only.) *)
From Corankco Require Import Prelude.
Local Open Scope Z_scope.

Definition elt := nat.
Lemma zsum_map_add'' (A : Type) (f g : A -> Z) l :
  zsum (map (fun a => f a + g a) l) = zsum (map f l) + zsum (map g l).
Proof. induction l; simpl; lia. Qed.
Lemma zsum_map_ext'' (A : Type) (f g : A -> Z) l :
  (forall a, In a l -> f a = g a) -> zsum (map f l) = zsum (map g l).
Proof. induction l; simpl; intros H; [reflexivity|]. rewrite H, IHl; auto. Qed.

(* sum of f over the integer interval [lo, lo+len) *)
Fixpoint rsum (lo : Z) (len : nat) (f : Z -> Z) : Z :=
  match len with O => 0 | S k => f lo + rsum (lo + 1) k f end.

Lemma rsum_add lo len f g : rsum lo len (fun i => f i + g i) = rsum lo len f + rsum lo len g.
Proof. revert lo; induction len; simpl; intros; [lia|]. rewrite IHlen. lia. Qed.
Lemma rsum_zero lo len : rsum lo len (fun _ => 0) = 0.
Proof. revert lo; induction len; simpl; intros; [lia|]. rewrite IHlen. lia. Qed.
Lemma rsum_ext lo len f g : (forall i, f i = g i) -> rsum lo len f = rsum lo len g.
Proof. intros H. revert lo; induction len; simpl; intros; [lia|]. rewrite H, IHlen. lia. Qed.

(* point mass *)
Definition pt (k v : Z) : Z -> Z := fun i => if i =? k then v else 0.
Lemma rsum_pt lo len k v :
  rsum lo len (pt k v) = if (lo <=? k) && (k <? lo + Z.of_nat len) then v else 0.
Proof.
  revert lo; induction len as [|len IH]; intros lo.
  - simpl. destruct (Z.leb_spec lo k), (Z.ltb_spec k (lo + 0)); simpl; try reflexivity. lia.
  - cbn [rsum]. rewrite IH. unfold pt.
    destruct (Z.eqb_spec lo k), (Z.leb_spec lo k), (Z.ltb_spec k (lo + Z.of_nat (S len))),
             (Z.leb_spec (lo + 1) k), (Z.ltb_spec k (lo + 1 + Z.of_nat len)); simpl; lia.
Qed.

(* swapping a finite sum over elements with a range sum *)
Lemma rsum_zsum (A : Type) (l : list A) (F : A -> Z -> Z) lo len :
  rsum lo len (fun i => zsum (map (fun a => F a i) l)) = zsum (map (fun a => rsum lo len (F a)) l).
Proof.
  induction l as [|a l IH]; simpl.
  - apply rsum_zero.
  - rewrite rsum_add, IH. reflexivity.
Qed.

Section Delta.
  Variables bef aft tie : elt -> Z.      (* cost row of the target element: K[target][e2][0..2] *)
  Variable r : elt -> Z.                 (* bucket id of every element *)
  Variable others : list elt.            (* all elements except the target *)
  Variable b0 : Z.                       (* bucket of the target *)
  Hypothesis r_nonneg : forall e, In e others -> 0 <= r e.
  Hypothesis b0_nonneg : 0 <= b0.

  (* cost of the pair (target, e2) when the target sits in bucket b *)
  Definition pick (b : Z) (e2 : elt) : Z :=
    if b <? r e2 then bef e2 else if r e2 <? b then aft e2 else tie e2.

  (* contribution of e2 to the difference array, exactly the three branches of _compute_delta_costs
     (the "tied_to_*" accumulators are distributed over the bucket mates) *)
  Definition contrib (e2 : elt) : Z -> Z := fun i =>
    let b2 := r e2 in
    if b0 <? b2 then pt b2 (tie e2 - bef e2) i + pt (b2 + 1) (aft e2 - tie e2) i
    else if b2 <? b0 then
      pt b2 (tie e2 - aft e2) i + (if b2 =? 0 then 0 else pt (b2 - 1) (bef e2 - tie e2) i)
    else (if b0 =? 0 then 0 else pt (b0 - 1) (bef e2 - tie e2) i) + pt (b0 + 1) (aft e2 - tie e2) i.

  Definition change (i : Z) : Z := zsum (map (fun e2 => contrib e2 i) others).

  Definition delta_join (b : Z) : Z := zsum (map (fun e2 => pick b e2 - pick b0 e2) others).

  (* right scan: accumulated change over (b0, b] *)
  Lemma contrib_right e2 (k : nat) : In e2 others ->
    rsum (b0 + 1) (S k) (contrib e2) = pick (b0 + 1 + Z.of_nat k) e2 - pick b0 e2.
  Proof.
    intros Hin. pose proof (r_nonneg _ Hin) as Hr.
    unfold contrib, pick.
    destruct (b0 <? r e2) eqn:A.
    - rewrite rsum_add, !rsum_pt.
      destruct (r e2 <? b0) eqn:B; [lia|].
      repeat match goal with |- context [?x <? ?y] => destruct (Z.ltb_spec x y) end;
      repeat match goal with |- context [?x <=? ?y] => destruct (Z.leb_spec x y) end; simpl; lia.
    - destruct (r e2 <? b0) eqn:B.
      + rewrite rsum_add, rsum_pt.
        destruct (r e2 =? 0) eqn:C.
        * rewrite rsum_zero.
          repeat match goal with |- context [?x <? ?y] => destruct (Z.ltb_spec x y) end;
          repeat match goal with |- context [?x <=? ?y] => destruct (Z.leb_spec x y) end; simpl; lia.
        * rewrite rsum_pt.
          repeat match goal with |- context [?x <? ?y] => destruct (Z.ltb_spec x y) end;
          repeat match goal with |- context [?x <=? ?y] => destruct (Z.leb_spec x y) end; simpl; lia.
      + assert (r e2 = b0) as E by lia. rewrite rsum_add, rsum_pt.
        destruct (b0 =? 0) eqn:C.
        * rewrite rsum_zero.
          repeat match goal with |- context [?x <? ?y] => destruct (Z.ltb_spec x y) end;
          repeat match goal with |- context [?x <=? ?y] => destruct (Z.leb_spec x y) end; simpl; lia.
        * rewrite rsum_pt.
          repeat match goal with |- context [?x <? ?y] => destruct (Z.ltb_spec x y) end;
          repeat match goal with |- context [?x <=? ?y] => destruct (Z.leb_spec x y) end; simpl; lia.
  Qed.

  Theorem change_prefix_right (k : nat) :
    rsum (b0 + 1) (S k) change = delta_join (b0 + 1 + Z.of_nat k).
  Proof.
    unfold change, delta_join. rewrite rsum_zsum.
    apply zsum_map_ext''. intros e2 Hin. now apply contrib_right.
  Qed.

  (* left scan: accumulated change over [b, b0) for 0 <= b < b0 *)
  Lemma contrib_left e2 (k : nat) : In e2 others -> 0 <= b0 - 1 - Z.of_nat k ->
    rsum (b0 - 1 - Z.of_nat k) (S k) (contrib e2) = pick (b0 - 1 - Z.of_nat k) e2 - pick b0 e2.
  Proof.
    intros Hin Hb. pose proof (r_nonneg _ Hin) as Hr.
    unfold contrib, pick.
    destruct (b0 <? r e2) eqn:A.
    - rewrite rsum_add, !rsum_pt.
      repeat match goal with |- context [?x <? ?y] => destruct (Z.ltb_spec x y) end;
      repeat match goal with |- context [?x <=? ?y] => destruct (Z.leb_spec x y) end; simpl; lia.
    - destruct (r e2 <? b0) eqn:B.
      + rewrite rsum_add, rsum_pt.
        destruct (r e2 =? 0) eqn:C.
        * rewrite rsum_zero.
          repeat match goal with |- context [?x <? ?y] => destruct (Z.ltb_spec x y) end;
          repeat match goal with |- context [?x <=? ?y] => destruct (Z.leb_spec x y) end; simpl; lia.
        * rewrite rsum_pt.
          repeat match goal with |- context [?x <? ?y] => destruct (Z.ltb_spec x y) end;
          repeat match goal with |- context [?x <=? ?y] => destruct (Z.leb_spec x y) end; simpl; lia.
      + assert (r e2 = b0) as E by lia. rewrite rsum_add, rsum_pt.
        destruct (b0 =? 0) eqn:C.
        * lia.
        * rewrite rsum_pt.
          repeat match goal with |- context [?x <? ?y] => destruct (Z.ltb_spec x y) end;
          repeat match goal with |- context [?x <=? ?y] => destruct (Z.leb_spec x y) end; simpl; lia.
  Qed.

  Theorem change_prefix_left (k : nat) : 0 <= b0 - 1 - Z.of_nat k ->
    rsum (b0 - 1 - Z.of_nat k) (S k) change = delta_join (b0 - 1 - Z.of_nat k).
  Proof.
    intros Hb. unfold change, delta_join. rewrite rsum_zsum.
    apply zsum_map_ext''. intros e2 Hin. now apply contrib_left.
  Qed.

  (** ** the [add] array: a new bucket holding only the target, inserted before position [k] *)
  Definition pick_new (k : Z) (e2 : elt) : Z := if k <=? r e2 then bef e2 else aft e2.

  Definition contrib_add (e2 : elt) : Z -> Z := fun i =>
    let b2 := r e2 in
    if b0 <? b2 then pt (b2 + 1) (aft e2 - bef e2) i
    else if b2 <? b0 then pt b2 (bef e2 - aft e2) i
    else pt (b0 + 1) (aft e2 - tie e2) i + pt b0 (bef e2 - tie e2) i.

  Definition addf (i : Z) : Z := zsum (map (fun e2 => contrib_add e2 i) others).
  Definition delta_new (k : Z) : Z := zsum (map (fun e2 => pick_new k e2 - pick b0 e2) others).

  Lemma contrib_add_right e2 (k : nat) : In e2 others ->
    rsum (b0 + 1) (S k) (contrib_add e2) = pick_new (b0 + 1 + Z.of_nat k) e2 - pick b0 e2.
  Proof.
    intros Hin. pose proof (r_nonneg _ Hin) as Hr. unfold contrib_add, pick_new, pick.
    destruct (b0 <? r e2) eqn:A.
    - rewrite rsum_pt.
      repeat match goal with |- context [?x <? ?y] => destruct (Z.ltb_spec x y) end;
      repeat match goal with |- context [?x <=? ?y] => destruct (Z.leb_spec x y) end; simpl; lia.
    - destruct (r e2 <? b0) eqn:B.
      + rewrite rsum_pt.
        repeat match goal with |- context [?x <? ?y] => destruct (Z.ltb_spec x y) end;
        repeat match goal with |- context [?x <=? ?y] => destruct (Z.leb_spec x y) end; simpl; lia.
      + rewrite rsum_add, !rsum_pt.
        repeat match goal with |- context [?x <? ?y] => destruct (Z.ltb_spec x y) end;
        repeat match goal with |- context [?x <=? ?y] => destruct (Z.leb_spec x y) end; simpl; lia.
  Qed.

  Theorem add_prefix_right (k : nat) : rsum (b0 + 1) (S k) addf = delta_new (b0 + 1 + Z.of_nat k).
  Proof. unfold addf, delta_new. rewrite rsum_zsum. apply zsum_map_ext''. intros e2 Hin. now apply contrib_add_right. Qed.

  Lemma contrib_add_left e2 (k : nat) : In e2 others -> 0 <= b0 - Z.of_nat k ->
    rsum (b0 - Z.of_nat k) (S k) (contrib_add e2) = pick_new (b0 - Z.of_nat k) e2 - pick b0 e2.
  Proof.
    intros Hin Hb. pose proof (r_nonneg _ Hin) as Hr. unfold contrib_add, pick_new, pick.
    destruct (b0 <? r e2) eqn:A.
    - rewrite rsum_pt.
      repeat match goal with |- context [?x <? ?y] => destruct (Z.ltb_spec x y) end;
      repeat match goal with |- context [?x <=? ?y] => destruct (Z.leb_spec x y) end; simpl; lia.
    - destruct (r e2 <? b0) eqn:B.
      + rewrite rsum_pt.
        repeat match goal with |- context [?x <? ?y] => destruct (Z.ltb_spec x y) end;
        repeat match goal with |- context [?x <=? ?y] => destruct (Z.leb_spec x y) end; simpl; lia.
      + rewrite rsum_add, !rsum_pt.
        repeat match goal with |- context [?x <? ?y] => destruct (Z.ltb_spec x y) end;
        repeat match goal with |- context [?x <=? ?y] => destruct (Z.leb_spec x y) end; simpl; lia.
  Qed.

  Theorem add_prefix_left (k : nat) : 0 <= b0 - Z.of_nat k ->
    rsum (b0 - Z.of_nat k) (S k) addf = delta_new (b0 - Z.of_nat k).
  Proof. intros Hb. unfold addf, delta_new. rewrite rsum_zsum. apply zsum_map_ext''. intros e2 Hin. now apply contrib_add_left. Qed.

  (** nothing is ever written at the target's own bucket in [change] *)
  Lemma change_at_b0 : change b0 = 0.
  Proof.
    unfold change. rewrite (zsum_map_ext'' _ _ (fun _ => 0)).
    - clear. induction others as [|a l IH]; simpl; lia.
    - intros e2 Hin. pose proof (r_nonneg _ Hin). unfold contrib, pt.
      repeat match goal with |- context [?x <? ?y] => destruct (Z.ltb_spec x y) end;
      repeat match goal with |- context [?x =? ?y] => destruct (Z.eqb_spec x y) end; lia.
  Qed.
End Delta.

