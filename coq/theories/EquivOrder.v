(** Property C19, what equivalence is FOR: two schemes that [is_equivalent_to] accepts give proportional Kemeny scores to every
    candidate against every dataset, hence order all candidates alike and have the same optimal consensuses.  This is what the
    guards of PickAPerm, Borda and BioConsert on incomplete data rely on when they accept "a multiple of" a scheme. *)
From Corankco Require Import Prelude Scheme SchemeProof Rank KemenySpec CostTable CostTableProof OptTheory.
Local Open Scope Z_scope.

Theorem kemeny_spec_proportional s s' a b D c :
  (forall i, Bv s' i * a = Bv s i * b) -> (forall i, Tv s' i * a = Tv s i * b) ->
  kemeny_spec s' D c * a = kemeny_spec s D c * b.
Proof.
  intros HB HT. unfold kemeny_spec. apply zsum_map_scale. intros r _.
  unfold kemeny_one. apply zsum_map_scale. intros [x y] _. unfold placement_pen. simpl.
  destruct (_ ?= _); auto.
Qed.

Theorem equiv_spec_scores_proportional s1 s2 :
  equiv_spec 6 s1 s2 ->
  exists p q, 0 < p /\ 0 < q /\ forall D c, p * kemeny_spec s1 D c = q * kemeny_spec s2 D c.
Proof.
  intros H. apply equiv_spec6 in H as (p & q & Hp & Hq & HB & HT).
  exists p, q. split; [exact Hp|]. split; [exact Hq|]. intros D c.
  rewrite (Z.mul_comm p), (Z.mul_comm q). apply kemeny_spec_proportional; intros i.
  - rewrite (Z.mul_comm _ p), (Z.mul_comm _ q). apply HB.
  - rewrite (Z.mul_comm _ p), (Z.mul_comm _ q). apply HT.
Qed.

Theorem equivalent_schemes_same_order s1 s2 :
  nonneg s1 -> nonneg s2 -> is_equivalent_to s1 s2 = true ->
  forall D c1 c2, (kemeny_spec s1 D c1 <= kemeny_spec s1 D c2 <-> kemeny_spec s2 D c1 <= kemeny_spec s2 D c2) /\
                  (kemeny_spec s1 D c1 = kemeny_spec s1 D c2 <-> kemeny_spec s2 D c1 = kemeny_spec s2 D c2).
Proof.
  intros N1 N2 E. apply (is_equivalent_iff 6 s1 s2 N1 N2) in E.
  destruct (equiv_spec_scores_proportional s1 s2 E) as (p & q & Hp & Hq & H).
  intros D c1 c2. pose proof (H D c1) as H1. pose proof (H D c2) as H2.
  split; split; intros L; nia.
Qed.

(** the optimal consensuses of a dataset are the same under two schemes the library calls equivalent *)
Theorem equivalent_schemes_same_optima s1 s2 :
  nonneg s1 -> nonneg s2 -> is_equivalent_to s1 s2 = true ->
  forall D U c, is_optimal (cost_spec s1 D) U c <-> is_optimal (cost_spec s2 D) U c.
Proof.
  intros N1 N2 E D U c. unfold is_optimal. rewrite !score_cost_spec.
  split; intros [W H]; (split; [exact W|]); intros c' W'; specialize (H c' W'); rewrite !score_cost_spec in *;
    apply (equivalent_schemes_same_order s1 s2 N1 N2 E D c c'); exact H.
Qed.

(** [is_equivalent_to] is an equivalence relation on valid schemes *)
Theorem is_equivalent_refl s : nonneg s -> is_equivalent_to s s = true.
Proof.
  intros N. apply (is_equivalent_iff 6 s s N N). apply equiv_spec6.
  exists 1, 1. repeat split; try lia.
Qed.

Theorem is_equivalent_sym s1 s2 : nonneg s1 -> nonneg s2 -> is_equivalent_to s1 s2 = true -> is_equivalent_to s2 s1 = true.
Proof.
  intros N1 N2 H. apply (is_equivalent_iff 6 s1 s2 N1 N2) in H. apply (is_equivalent_iff 6 s2 s1 N2 N1).
  apply equiv_spec6 in H as (p & q & Hp & Hq & HB & HT). apply equiv_spec6.
  exists q, p. split; [exact Hq|]. split; [exact Hp|]. split; intros i; [rewrite HB|rewrite HT]; reflexivity.
Qed.

Theorem is_equivalent_trans s1 s2 s3 : nonneg s1 -> nonneg s2 -> nonneg s3 ->
  is_equivalent_to s1 s2 = true -> is_equivalent_to s2 s3 = true -> is_equivalent_to s1 s3 = true.
Proof.
  intros N1 N2 N3 H12 H23.
  apply (is_equivalent_iff 6 s1 s2 N1 N2) in H12. apply (is_equivalent_iff 6 s2 s3 N2 N3) in H23.
  apply (is_equivalent_iff 6 s1 s3 N1 N3).
  apply equiv_spec6 in H12 as (p & q & Hp & Hq & HB & HT). apply equiv_spec6 in H23 as (p' & q' & Hp' & Hq' & HB' & HT').
  apply equiv_spec6. exists (p * p'), (q * q'). split; [nia|]. split; [nia|].
  split; intros i.
  - pose proof (HB i) as A. pose proof (HB' i) as B.
    replace (p * p' * Bv s1 i) with (p' * (p * Bv s1 i)) by ring. rewrite A.
    replace (p' * (q * Bv s2 i)) with (q * (p' * Bv s2 i)) by ring. rewrite B. ring.
  - pose proof (HT i) as A. pose proof (HT' i) as B.
    replace (p * p' * Tv s1 i) with (p' * (p * Tv s1 i)) by ring. rewrite A.
    replace (p' * (q * Tv s2 i)) with (q * (p' * Tv s2 i)) by ring. rewrite B. ring.
Qed.
