(** Property C18 (totality part): the parser never hangs.  (Index errors cannot occur in the model
    because every index expression of the code is a slice or a [find]; that these are the only index
    expressions is what the exhaustive correspondence establishes.) *)
From Corankco Require Import Prelude Parser.
From Coq Require Import Ascii String.
Local Open Scope Z_scope.

Lemma norm_range i n : 0 <= n -> 0 <= norm i n <= n.
Proof. intros H. unfold norm. destruct (i <? 0) eqn:E; lia. Qed.

Lemma find_aux_range c l i stop :
  find_aux c l i stop = -1 \/ (i <= find_aux c l i stop < stop /\ find_aux c l i stop < i + len l).
Proof.
  revert i; induction l as [|a l IH]; intros i; simpl; [auto|].
  destruct (stop <=? i) eqn:E1; [auto|].
  unfold len in *. simpl List.length. rewrite Nat2Z.inj_succ.
  destruct (Ascii.eqb a c); [right; lia|].
  destruct (IH (i + 1)) as [H|H]; [auto|right; lia].
Qed.

Lemma find_range c s a b :
  find c s a b = -1 \/ (norm a (len s) <= find c s a b < len s).
Proof.
  unfold find. set (n := len s). assert (Hn : 0 <= n) by (unfold n, len; lia).
  pose proof (norm_range a n Hn) as Ha.
  destruct (find_aux_range c (skipn (Z.to_nat (norm a n)) s) (norm a n) (norm b n)) as [H|[H1 H2]]; [auto|].
  right. split; [lia|]. unfold len in H2. rewrite skipn_length in H2. unfold n, len in *. lia.
Qed.

Lemma loop_exit s rend st en old acc fuel :
  (st =? -1) || (en =? -1) = true -> loop fuel s rend st en old acc <> PHang.
Proof.
  intros H. destruct fuel; simpl; rewrite H; destruct (negb (st =? en)); try discriminate;
    destruct (slice s (old + 1) rend); discriminate.
Qed.

Lemma loop_no_hang s rend : forall fuel st en old acc,
  (en = -1 \/ (0 <= en < len s /\ len s - en <= Z.of_nat fuel)) ->
  loop fuel s rend st en old acc <> PHang.
Proof.
  induction fuel as [|f IH]; intros st en old acc H.
  - destruct ((st =? -1) || (en =? -1)) eqn:E; [apply loop_exit; assumption|].
    destruct H as [H|H]; [lia|lia].
  - destruct ((st =? -1) || (en =? -1)) eqn:E; [apply loop_exit; assumption|].
    simpl. rewrite E. destruct (parse_bucket (slice s (st + 1) en)); [|discriminate].
    apply IH.
    destruct (find_range "]"%char s (Z.max (en + 1) (find "["%char s (en + 1) rend + 1)) rend) as [F|F]; [auto|].
    right. destruct H as [H|[H1 H2]]; [lia|].
    assert (Hm : en + 1 <= norm (Z.max (en + 1) (find "["%char s (en + 1) rend + 1)) (len s)).
    { unfold norm. destruct (Z.max (en + 1) (find "["%char s (en + 1) rend + 1) <? 0) eqn:X; lia. }
    lia.
Qed.

Theorem parse_never_hangs raw : parse raw <> PHang.
Proof.
  unfold parse. set (s := prepare raw).
  destruct (strip (slice s (find0 "["%char s + 1) (rfind "]"%char s))); [discriminate|].
  destruct (ends_with (list_ascii_of_string "[[]]") s); [discriminate|].
  destruct (skipn (Z.to_nat (rfind "]"%char s + 1)) s); [|discriminate].
  apply loop_no_hang. unfold find0.
  destruct (find_range "]"%char s 0 (len s)) as [F|F]; [auto|].
  right. unfold len in *. unfold norm in F. simpl in F. lia.
Qed.

Theorem from_string_total raw :
  (exists r, from_string raw = POk r) \/ from_string raw = PValueError.
Proof.
  unfold from_string. pose proof (parse_never_hangs raw) as H.
  destruct (parse raw); [|auto|contradiction].
  match goal with |- context [if ?c then _ else _] => destruct c end; eauto.
Qed.

Lemma parse_lines_no_hang ls : parse_lines ls <> PHang.
Proof.
  induction ls as [|l ls IH]; simpl; [discriminate|].
  pose proof (parse_never_hangs l) as H. destruct (parse l); [|discriminate|contradiction].
  destruct (parse_lines ls); [discriminate|discriminate|contradiction].
Qed.

Theorem read_text_total text :
  (exists d, read_text text = POk d) \/ read_text text = PValueError.
Proof.
  unfold read_text. pose proof (parse_lines_no_hang (file_lines text)) as H.
  destruct (parse_lines (file_lines text)); [|auto|contradiction].
  match goal with |- context [if ?c then _ else _] => destruct c end; eauto.
Qed.
