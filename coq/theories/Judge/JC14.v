From Corankco Require Import Prelude Scheme Rank Borda Applicability Judge.JC19.
Local Open Scope Z_scope.

(** observed: predicate 0/1 (2 = it raised), outcome of compute on a complete and on an incomplete dataset:
    0 = well-formed consensus, 1 = documented refusal, 2 = any other exception *)
Definition judge_applic (c : alg * scheme * Z * Z * Z) : nat :=
  let '(a, s, pred, oc, oi) := c in
  let rel := relevant a s in
  let m := ((if rel then 1 else 0) =? pred)
           && match accepts a s true with Some b => (if b then 0 else 1) =? oc | None => true end
           && match accepts a s false with Some b => (if b then 0 else 1) =? oi | None => true end in
  let spec := ((pred =? 0) || (pred =? 1)) && (oc =? 0) && (negb (pred =? 1) || (oi =? 0))
              && (negb (simple a) || Bool.eqb (oi =? 1) (pred =? 0)) && negb (oi =? 2) in
  code m spec.
