From Corankco Require Import Prelude Scheme Rank Borda Partition Applicability Judge.JC19.
Local Open Scope Z_scope.

(** observed: predicate 0/1 (2 = it raised), outcome of compute on a complete and on an incomplete dataset:
    0 = well-formed consensus, 1 = documented refusal, 2 = any other exception *)
Definition judge_applic (c : alg * scheme * Z * Z * Z) : nat :=
  let '(a, s, pred, oc, oi) := c in
  let rel := relevant a s in
  let m := ((if rel then 1 else 0) =? pred)
           && match accepts a s true with Some b => (if b then 0 else 1) =? oc | None => true end
           && match accepts a s false with Some b => (if b then 0 else 1) =? oi | None => true end in
  let spec := ((pred =? 0) || (pred =? 1)) && (oc =? 0) && (negb (pred =? 1) || (oi =? 0))
              && (negb (simple a) || Bool.eqb (oi =? 1) (pred =? 0)) && negb (oi =? 2) in
  code m spec.

(** the outcome of a computation as observed: a documented refusal, any other exception, or the consensus rankings that came back together
    with the universe of the dataset as it was handed over.  Whether what came back is a well-formed consensus (exactly one ranking, a
    partition of the universe into non-empty buckets) is decided here, not by the harness. *)
Fixpoint distinct (l : list nat) : bool := match l with [] => true | x :: l' => negb (mem x l') && distinct l' end.
Inductive outcome := ORefused | ORaised | OReturned (U : list nat) (cons : list ranking).
Definition code_of (o : outcome) : Z :=
  match o with
  | ORefused => 1
  | ORaised => 2
  | OReturned U cs => if Nat.eqb (length cs) 1 && distinct U && forallb (fun c => is_partition_of U c && distinct (elems c)) cs then 0 else 2
  end.
Definition judge_applic_obs (c : alg * scheme * Z * outcome * outcome) : nat :=
  let '(a, s, pred, oc, oi) := c in judge_applic (a, s, pred, code_of oc, code_of oi).
