From Corankco Require Import Prelude Parser DatasetModel Judge.JC19 Judge.JC16.
Local Open Scope Z_scope.

(** one run: algorithm configuration id, whether at most one ranking was requested, what came back *)
Record wf_run := mkWF { wf_alg : nat; wf_one : bool; wf_cons : list rsnap }.

(** a consensus ranking: non-empty, pairwise disjoint buckets whose union is exactly the universe,
    element identities and types preserved (names are typed), views consistent *)
Definition wf_consensus (U : list name) (r : rsnap) : bool :=
  inv_ranking r && forallb (fun b => negb (Nat.eqb (List.length b) 0)) (rs_buckets r)
  && nseteq (nelems (rs_buckets r)) U.

Definition judge_wf (c : list name * list wf_run) : nat :=
  let '(U, runs) := c in
  let spec := forallb (fun r =>
      negb (Nat.eqb (List.length (wf_cons r)) 0)
      && (negb (wf_one r) || Nat.eqb (List.length (wf_cons r)) 1)
      && forallb (wf_consensus U) (wf_cons r)) runs in
  code true spec.
