From Corankco Require Import Prelude Scheme Rank KemenySpec Borda PickAPerm Judge.JC19 Judge.JC12.
Local Open Scope Z_scope.

Definition opt_z_eqb (a b : option Z) : bool :=
  match a, b with Some x, Some y => x =? y | None, None => true | _, _ => false end.

Definition pres_eqb (a b : result algo_err (option Z * list ranking)) : bool :=
  match a, b with
  | Ok (m1, l1), Ok (m2, l2) => opt_z_eqb m1 m2 && list_eqb ranking_eqb l1 l2
  | Err IncompleteIncompatible, Err IncompleteIncompatible => true
  | Err SchemeNotHandled, Err SchemeNotHandled => true
  | _, _ => false
  end.

Definition judge_pick (c : bool * scheme * dataset * result algo_err (option Z * list ranking)) : nat :=
  let '(one, s, D, out) := c in
  let m := pres_eqb (pickaperm one s D) out in
  let spec :=
    if negb (is_complete D) && negb (proportional_b (entries 6 s unifying)) then
      (match out with Err IncompleteIncompatible => true | _ => false end)
    else match out with
         | Ok (Some v, l) =>
             let inputs := if is_complete D then D else unified_rankings D in
             let scores := map (kemeny_spec s D) inputs in
             negb (Nat.eqb (length l) 0) && (negb one || Nat.eqb (length l) 1)
             && forallb (fun r => existsb (ranking_eqb r) inputs && (kemeny_spec s D r =? v)) l
             && forallb (fun d => v <=? d) scores
             && (one || forallb (fun r => negb (kemeny_spec s D r =? v) || existsb (ranking_eqb r) l) inputs)
         | _ => false
         end in
  code m spec.
Definition show_pick (c : bool * scheme * dataset * result algo_err (option Z * list ranking)) :=
  let '(one, s, D, _) := c in pickaperm one s D.
