From Coq Require Import Sorting.Mergesort Orders.
From Corankco Require Import Prelude Rank Markov Judge.JC19.
Local Open Scope Z_scope.

Definition vec_eqb (a b : vec) : bool := list_eqb Z.eqb a b.

Definition denseb (v : vec) : bool :=
  forallb (fun x => (-1 <=? x) && (negb (0 <? x) || existsb (Z.eqb (x - 1)) v)) v.

(** one move: 1 add_left, 2 add_right, 3 change_left, 4 change_right, 5 remove, 6 put_first *)
Definition apply_move (mv : Z) (v : vec) (e : nat) : vec :=
  if mv =? 1 then add_left v e else if mv =? 2 then add_right v e else if mv =? 3 then change_left v e
  else if mv =? 4 then change_right v e else if mv =? 5 then remove_element v e else put_element_first v e.

Definition judge_move (c : Z * vec * nat * vec) : nat :=
  let '(mv, v, e, out) := c in
  code (vec_eqb (apply_move mv v e) out) (denseb out && Nat.eqb (length out) (length v)).
Definition show_move (c : Z * vec * nat * vec) := let '(mv, v, e, _) := c in apply_move mv v e.

Definition opt_ranking_eqb (a b : option ranking) : bool :=
  match a, b with
  | Some x, Some y => ranking_eqb x y
  | None, None => true
  | _, _ => false
  end.

Definition nodupb (l : list nat) : bool :=
  (fix go l := match l with [] => true | x :: l' => negb (mem x l') && go l' end) l.

(** spec of one generated ranking: non-empty disjoint buckets over 0..n-1; all n elements if complete *)
Definition wf_generated (n : nat) (complete : bool) (r : ranking) : bool :=
  forallb (fun b => negb (Nat.eqb (length b) 0)) r && nodupb (concat r)
  && forallb (fun x => Nat.ltb x n) (concat r)
  && (negb complete || Nat.eqb (length (concat r)) n).

Definition judge_walk (c : nat * bool * list (nat * Z) * option ranking) : nat :=
  let '(n, complete, script, out) := c in
  code (opt_ranking_eqb (generate_one n complete script) out)
       (match out with Some r => wf_generated n complete r | None => negb complete || Nat.eqb n 0 end).
Definition show_walk (c : nat * bool * list (nat * Z) * option ranking) :=
  let '(n, complete, script, _) := c in generate_one n complete script.

(** Dataset-level wrappers: shape, flags and the only failure mode *)
Definition same_set (a b : list nat) : bool := forallb (fun x => mem x b) a && forallb (fun x => mem x a) b.
Definition judge_wrapper (c : nat * nat * Z * option dataset * bool * bool * bool * nat) : nat :=
  let '(n, m, mode, out, empty_err, cflag, tflag, nbel) := c in
  let spec :=
    match out with
    | None => (mode =? 1) && empty_err
    | Some D =>
        let U := universe D in
        let really_complete := forallb (fun r => same_set (elems r) U) D in
        let really_no_ties := forallb (fun r => forallb (fun b => Nat.eqb (length b) 1) r) D in
        Bool.eqb cflag really_complete && Bool.eqb tflag really_no_ties && Nat.eqb nbel (length U) &&
        if mode =? 0 then Nat.eqb (length D) m && forallb (wf_generated n true) D && cflag && Nat.eqb nbel n
        else if mode =? 1 then Nat.leb 1 (length D) && Nat.leb (length D) m && forallb (wf_generated n false) D
        else Nat.eqb (length D) m && cflag && tflag &&
             forallb (fun r => same_set (elems r) (seq 1 n) && nodupb (elems r) && Nat.eqb (length (elems r)) n) D
    end in
  code true spec.

(** Large universes (tens of thousands of elements: element ids no longer fit the narrow integer types a generator might use).  The
    elements are written as binary integers; each delivered ranking must consist of non-empty buckets whose elements, sorted, are
    exactly lo, lo+1, ..., lo+n-1 (a partition of the requested universe, complete), and there must be [m] of them. *)
Module ZOrder <: TotalLeBool.
  Definition t := Z.
  Definition leb := Z.leb.
  Theorem leb_total : forall a b, leb a b = true \/ leb b a = true.
  Proof. intros a b. unfold leb. destruct (Z.leb_spec a b); [left; reflexivity|right; apply Z.leb_le; lia]. Qed.
End ZOrder.
Module ZSort := Sort ZOrder.

(** a delivered ranking is written compactly: [Run v k] stands for the k consecutive singleton buckets {v}, {v+1}, ..., {v+k-1};
    [Bucket b] is the bucket b; [Singles l] stands for one singleton bucket per element of l (a constructor without implicit arguments:
    a literal of tens of thousands of [inr [x]] costs the type checker quadratic time) *)
Inductive bitem := Run (v k : Z) | Bucket (b : list Z) | Singles (l : list Z).
Fixpoint ziota (k : nat) (v : Z) : list Z := match k with O => [] | S k' => v :: ziota k' (v + 1) end.   (* v, v+1, ..., v+k-1 *)
Definition expand_item (it : bitem) : list (list Z) :=
  match it with
  | Run v k => map (fun x => [x]) (ziota (Z.to_nat k) v)
  | Bucket b => [b]
  | Singles l => map (fun x => [x]) l
  end.

Definition judge_big (c : Z * Z * nat * list (list bitem)) : nat :=
  let '(lo, n, m, rks) := c in
  let expected := ziota (Z.to_nat n) lo in
  let spec := Nat.eqb (length rks) m &&
    forallb (fun items => let r := flat_map expand_item items in
                          forallb (fun b => match b with [] => false | _ => true end) r
                          && list_eqb Z.eqb (ZSort.sort (concat r)) expected) rks in
  code true spec.
