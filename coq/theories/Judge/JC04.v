From Corankco Require Import Prelude Scheme Rank KemenySpec KemenyImpl Judge.JC19 Judge.JC13 Judge.JOpt.
Local Open Scope Z_scope.

(** one run: algorithm id, returned rankings, reported score (None = absent / not a number on the grid) *)
Record sc_run := mkSC { sc_alg : nat; sc_cons : list ranking; sc_score : option Z; sc_lazy : bool }.

Definition judge_scores (c : scheme * dataset * list sc_run) : nat :=
  let '(s, D, runs) := c in
  let U := universe D in
  (* lazily computed scores are the Kemeny routine's answer on the FIRST ranking (model of Consensus) *)
  let m := forallb (fun r =>
             negb (sc_lazy r) ||
             match sc_cons r, sc_score r with
             | c0 :: _, Some v => match get_kemeny_score s D c0 with Ok w => w =? v | Err _ => false end
             | _, _ => false
             end) runs in
  let spec := forallb (fun r =>
             negb (Nat.eqb (length (sc_cons r)) 0) &&
             match sc_score r with
             | Some v => (0 <=? v) && forallb (fun cr => is_perm (elems cr) U && (kemeny_spec s D cr =? v)) (sc_cons r)
             | None => false
             end) runs in
  code m spec.

(** C09 read off the statement, on penalties of any grid (the scheme arrives already scaled to integers): every returned ranking is a
    ranking of the universe, all returned rankings have ONE score, and that score is at most the score of every departure (the
    input rankings completed with their missing elements in a last bucket, and the all-tied ranking; or the starters' answers) *)
Definition judge_share (c : scheme * dataset * list ranking * list ranking) : nat :=
  let '(s, D, deps, cs) := c in
  let U := universe D in
  let scores := map (kemeny_spec s D) cs in
  let spec :=
    negb (Nat.eqb (length cs) 0)
    && forallb (fun cr => is_perm (elems cr) U) cs
    && match scores with
       | [] => false
       | v :: rest => forallb (Z.eqb v) rest && forallb (fun d => v <=? kemeny_spec s D d) deps
       end in
  code true spec.
