From Corankco Require Import Prelude Scheme Parser DatasetModel Judge.JC19 Judge.JC16.
Local Open Scope Z_scope.

(** order-sensitive equality of snapshots: bucket listing order, dict orders, flags, matrices *)
Definition names_eqb (a b : list name) : bool := list_eqb name_eqb a b.
Definition rsnap_eqb (a b : rsnap) : bool :=
  list_eqb names_eqb (rs_buckets a) (rs_buckets b)
  && list_eqb (fun p q => name_eqb (fst p) (fst q) && (snd p =? snd q)) (rs_positions a) (rs_positions b)
  && names_eqb (rs_domain a) (rs_domain b) && (rs_nb a =? rs_nb b) && (rs_len a =? rs_len b).
Definition dsnap_eqb (a b : dsnap) : bool :=
  list_eqb rsnap_eqb (ds_rankings a) (ds_rankings b)
  && list_eqb (fun p q => name_eqb (fst p) (fst q) && (snd p =? snd q)) (ds_e2i a) (ds_e2i b)
  && list_eqb (fun p q => (fst p =? fst q) && name_eqb (snd p) (snd q)) (ds_i2e a) (ds_i2e b)
  && (ds_nb_elements a =? ds_nb_elements b) && (ds_nb_rankings a =? ds_nb_rankings b)
  && Bool.eqb (ds_complete a) (ds_complete b) && Bool.eqb (ds_noties a) (ds_noties b)
  && names_eqb (ds_universe a) (ds_universe b) && zmat_eqb (ds_P a) (ds_P b) && zmat_eqb (ds_B a) (ds_B b).

(** one step of a history on shared objects: the snapshot of dataset and scheme after the call, whether the
    dataset's name is unchanged, whether the output equals the output of the same call on fresh deep copies,
    and (for calls declared deterministic) whether calling it again gives the same output *)
Record hstep := mkH { h_ds : dsnap; h_scheme : scheme; h_name_same : bool; h_same_as_fresh : bool; h_same_twice : bool }.

Definition judge_history (c : dsnap * scheme * list hstep) : nat :=
  let '(d0, s0, steps) := c in
  let spec := inv_dataset d0 &&
    forallb (fun h => dsnap_eqb d0 (h_ds h) && scheme_eqb s0 (h_scheme h) && h_name_same h
                      && h_same_as_fresh h && h_same_twice h) steps in
  code true spec.

(** two phases of one history on the same shared dataset and the same shared ALGORITHM objects, under two schemes that agree on
    their first three penalties: state kept by an algorithm object between calls would show in the second phase *)
Definition judge_history2 (c : (dsnap * scheme * list hstep) * (dsnap * scheme * list hstep)) : nat :=
  Nat.lor (judge_history (fst c)) (judge_history (snd c)).
