(** Judge for the ILP of ExactAlgorithmPulp (C05): the program handed to the solver is the model's program, the
    solver's answer is feasible for it and decodes (by the model's decoder) to the returned consensus. *)
From Corankco Require Import Prelude Scheme Rank KemenySpec CostTable OptTheory Partition ILP Judge.JC19 Judge.JC13 Judge.JC20 Judge.JOpt.
Local Open Scope Z_scope.

Definition term_eqb (a b : Z * var) : bool := (fst a =? fst b) && var_eqb (snd a) (snd b).
Definition count_by {A} (eqb : A -> A -> bool) (a : A) (l : list A) : nat := length (filter (eqb a) l).
Definition perm_by {A} (eqb : A -> A -> bool) (l1 l2 : list A) : bool :=
  Nat.eqb (length l1) (length l2) && forallb (fun a => Nat.eqb (count_by eqb a l1) (count_by eqb a l2)) l1.
Definition row_eqb (a b : row) : bool :=
  Bool.eqb (r_eq a) (r_eq b) && (r_rhs a =? r_rhs b) && perm_by term_eqb (r_terms a) (r_terms b).
Definition rows_same (l1 l2 : list row) : bool := list_eqb row_eqb l1 l2 || perm_by row_eqb l1 l2.
Definition nz (l : list (Z * var)) : list (Z * var) := filter (fun ct => negb (fst ct =? 0)) l.

Record c05ilp := mkILP {
  i_s : scheme; i_D : dataset; i_U : list nat;
  i_P : list (list nat);         (* components of the graph of elements, ids, in igraph's order *)
  i_rows : list row;             (* constraints of the pulp problem, in order *)
  i_obj : list (Z * var);        (* objective of the pulp problem (model units) *)
  i_vals : list (var * Z);       (* value of every variable after the solve: 1 iff |value - 1| < 0.01 (the test of the source) *)
  i_integral : bool;             (* every value is exactly 0.0 or 1.0 *)
  i_cons : ranking;              (* the returned consensus (elements) *)
  i_score : option Z }.          (* the objective value reported as KEMENY_SCORE *)

Definition judge_ilp (c : c05ilp) : nat :=
  let U := i_U c in
  let n := length U in
  let K := table_of (cost_matrix (i_s c) (positions U (i_D c))) in
  let v := v_of (i_vals c) in
  let cons := to_ids U (i_cons c) in
  let m := list_eqb Nat.eqb (universe (i_D c)) U
           && rows_same (ilp_rows n (i_P c)) (i_rows c)
           && perm_by term_eqb (nz (objective K n)) (nz (i_obj c))
           && perm_by var_eqb (all_vars n) (map fst (i_vals c))
           && list_eqb set_eq (decode n v) cons in
  let spec :=
    i_integral c && feasible n (i_P c) v
    && is_partition_of (seq 0 n) (i_P c) && no_back_arcs K (i_P c)
    && wf_cons n cons
    && (score K cons =? obj_value K n v)
    (* the remaining assumption of C05_ilp_optimal, tested where the brute force is cheap: the answer is optimal *)
    && ((5 <? n)%nat || (obj_value K n v =? opt K (seq 0 n)))
    && match i_score c with Some sc => sc =? obj_value K n v | None => Nat.leb n 1 || (obj_value K n v =? 0) end in
  code m spec.
Definition show_ilp (c : c05ilp) :=
  let U := i_U c in let n := length U in
  let K := table_of (cost_matrix (i_s c) (positions U (i_D c))) in
  (decode n (v_of (i_vals c)), obj_value K n (v_of (i_vals c)), length (ilp_rows n (i_P c)), length (i_rows c)).

(** * the CPLEX models, run on a stand-in for the CPLEX API (C05) *)
(** threshold of the "no tie" test in model units; 0 after the repair of F15 (it was 0.001 = 8 units) *)
Definition NOTIE_THR : Z := 0.

Record cp_prog := mkCP {
  cp_notie : bool;                     (* the variant asks for the no-tie optimisation *)
  cp_rows : list row; cp_obj : list (Z * var);
  cp_pool : list (list (var * Z));     (* one assignment per solution returned by the solver *)
  cp_integral : bool;
  cp_cons : list ranking }.            (* the consensus rankings built from them (elements) *)

Record c05cplex := mkC05C {
  x_s : scheme; x_D : dataset; x_U : list nat;
  x_runs : list ex_run;                (* every configuration: consensus, flag, score *)
  x_progs : list cp_prog;              (* the configurations that solve ONE program over the whole dataset *)
  x_all : option (list ranking) }.     (* what "all optimal consensuses" returned (non-optimised model), when asked *)

Definition all_optimal_rankings (K : table) (n : nat) : list ranking :=
  let U := seq 0 n in
  let best := opt K U in
  map (fun a => rank_of U (p_of a)) (filter (fun a => scoref K U (p_of a) =? best) (assigns U n)).

Definition same_rankings (L1 L2 : list ranking) : bool :=
  forallb (fun r => existsb (list_eqb set_eq r) L2) L1 && forallb (fun r => existsb (list_eqb set_eq r) L1) L2.

Definition judge_cplex (c : c05cplex) : nat :=
  let U := x_U c in
  let n := length U in
  let K := table_of (cost_matrix (x_s c) (positions U (x_D c))) in
  let best := opt K (seq 0 n) in
  let m := list_eqb Nat.eqb (universe (x_D c)) U
    && forallb (fun p =>
         rows_same (cplex_rows K n (cp_notie p) NOTIE_THR) (cp_rows p)
         && perm_by term_eqb (nz (objective K n)) (nz (cp_obj p))
         && forallb (fun vals => perm_by var_eqb (all_vars n) (map fst vals)) (cp_pool p)
         && list_eqb (list_eqb set_eq) (map (fun vals => decode n (v_of vals)) (cp_pool p)) (map (to_ids U) (cp_cons p)))
       (x_progs c) in
  let spec :=
    forallb (fun r =>
      negb (Nat.eqb (length (ex_cons r)) 0) && ex_flag r
      && forallb (fun cr => let cons := to_ids U cr in wf_cons n cons && (score K cons =? best)) (ex_cons r)
      && match ex_score r with Some v => v =? best | None => false end) (x_runs c)
    && forallb (fun p =>
         cp_integral p && negb (Nat.eqb (length (cp_pool p)) 0)
         && forallb (fun vals => feasible_rows n (cplex_rows K n (cp_notie p) NOTIE_THR) (v_of vals)
                                 && (obj_value K n (v_of vals) =? best)) (cp_pool p)) (x_progs c)
    && match x_all c with
       | Some rs => same_rankings (map (to_ids U) rs) (all_optimal_rankings K n)
       | None => true
       end in
  code m spec.
Definition show_cplex (c : c05cplex) :=
  let U := x_U c in let n := length U in
  let K := table_of (cost_matrix (x_s c) (positions U (x_D c))) in
  (opt K (seq 0 n), all_optimal_rankings K n, map (fun p => (length (cplex_rows K n (cp_notie p) NOTIE_THR), length (cp_rows p))) (x_progs c)).
