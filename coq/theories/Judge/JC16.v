From Corankco Require Import Prelude Parser DatasetModel Judge.JC19.
From Coq Require Import Ascii String.
Local Open Scope Z_scope.

Definition T (l : list nat) : str := map ascii_of_nat l.
Definition NS (l : list nat) : name := NStr (T l).

Record rsnap := mkRS { rs_buckets : nranking; rs_positions : list (name * Z); rs_domain : list name; rs_nb : Z; rs_len : Z }.
Record dsnap := mkDS {
  ds_rankings : list rsnap; ds_e2i : list (name * Z); ds_i2e : list (Z * name);
  ds_nb_elements : Z; ds_nb_rankings : Z; ds_complete : bool; ds_noties : bool;
  ds_universe : list name; ds_P : list (list Z); ds_B : list (list Z) }.

Definition pair_mem (p : name * Z) (l : list (name * Z)) : bool :=
  existsb (fun q => name_eqb (fst p) (fst q) && (snd p =? snd q)) l.
Definition assoc_eqb (a b : list (name * Z)) : bool :=
  Nat.eqb (List.length a) (List.length b) && forallb (fun p => pair_mem p b) a && forallb (fun p => pair_mem p a) b.
Fixpoint nnodup (l : list name) : bool := match l with [] => true | x :: l' => negb (nmem x l') && nnodup l' end.
Definition nseteq (a b : list name) : bool := Nat.eqb (List.length a) (List.length b) && nset_eqb a b.

(** a ranking's views agree with its buckets *)
Definition inv_ranking (r : rsnap) : bool :=
  nnodup (nelems (rs_buckets r)) && assoc_eqb (rs_positions r) (positions_dict (rs_buckets r))
  && nseteq (rs_domain r) (nelems (rs_buckets r)) && (rs_nb r =? Z.of_nat (List.length (nelems (rs_buckets r))))
  && (rs_len r =? Z.of_nat (List.length (rs_buckets r))).

Definition lookup_i2e (l : list (Z * name)) (i : Z) : option name :=
  match List.find (fun p => fst p =? i) l with Some p => Some (snd p) | None => None end.

Definition zmat_eqb (A B : list (list Z)) : bool := list_eqb (list_eqb Z.eqb) A B.

(** the dataset's views agree with its rankings *)
Definition inv_dataset (s : dsnap) : bool :=
  let rs := map rs_buckets (ds_rankings s) in
  let U := nfirst [] (List.concat (map nelems rs)) in
  let n := List.length U in
  let ids := map (fun i => lookup_i2e (ds_i2e s) (Z.of_nat i)) (seq 0 n) in
  forallb inv_ranking (ds_rankings s)
  && nseteq (map fst (ds_e2i s)) U && nseteq (ds_universe s) U
  && Nat.eqb (List.length (ds_i2e s)) n
  && forallb (fun p => (0 <=? snd p) && (snd p <? Z.of_nat n)
                       && match lookup_i2e (ds_i2e s) (snd p) with Some x => name_eqb x (fst p) | None => false end) (ds_e2i s)
  && (ds_nb_elements s =? Z.of_nat n) && (ds_nb_rankings s =? Z.of_nat (List.length rs))
  && (forallb (fun x => match x with NInt _ => true | _ => false end) U
      || (forallb (fun x => match x with NStr _ => true | _ => false end) U && negb (forallb int_like U)))
  && Bool.eqb (ds_complete s) (forallb (fun x => forallb (fun r => nmem x (nelems r)) rs) U)
  && Bool.eqb (ds_noties s) (forallb (fun r => forallb (fun b => (List.length b <=? 1)%nat) r) rs)
  && match all_some ids with
     | None => false
     | Some idl =>
         zmat_eqb (ds_P s) (map (fun x => map (fun r => npos_from 0 r x) rs) idl)
         && zmat_eqb (ds_B s) (map (fun x => map (fun r => nbid_from 0 r x) rs) idl)
     end.

Inductive op :=
| OpNew (raw : list nranking)
| OpRemoveEmpty
| OpRemoveElements (Sx : list name)
| OpRemoveRate (p q : Z)
| OpUnifiedDataset
| OpSubProblem (K : list name)
| OpRefused.   (* the state observed after a mutator raised: a refused operation must leave the dataset as it was *)

Definition apply_op (before : list nranking) (o : op) : result derr dataset_obj :=
  match o with
  | OpNew raw => dataset_new raw
  | _ =>
      match analyse before with
      | Err e => Err e
      | Ok d =>
          match o with
          | OpNew raw => dataset_new raw
          | OpRemoveEmpty => remove_empty_rankings d
          | OpRemoveElements Sx => remove_elements d Sx
          | OpRemoveRate p q => remove_rate d p q
          | OpUnifiedDataset => unified_dataset d
          | OpSubProblem K => sub_problem d K
          | OpRefused => Ok d
          end
      end
  end.

Definition derr_eqb (a b : derr) : bool :=
  match a, b with EmptyDataset, EmptyDataset | DValueError, DValueError | DKeyError, DKeyError => true | _, _ => false end.

(** op-specific specification, independent of the model's op functions:
    which elements / rankings the result must contain *)
(** the documented retyping: all names integer-like -> integers, else strings *)
Definition retype (rs : list nranking) : list nranking :=
  let allint := forallb (fun r => forallb (fun b => forallb int_like b) r) rs in
  map (map (map (if allint then to_int_name else to_str_name))) rs.

Definition spec_op (before : list nranking) (o : op) (after : list nranking) : bool :=
  match o with
  | OpRemoveElements Sx =>
      (* exactly the projections on the complement, emptied rankings dropped, order kept *)
      list_eqb nranking_eqb after
        (retype (filter (fun r => negb (Nat.eqb (List.length r) 0)) (map (project_out Sx) before)))
  | OpRefused => list_eqb nranking_eqb after before
  | OpNew raw => list_eqb nranking_eqb after (retype raw)   (* the constructor keeps the rankings; all names integer-like -> int, else str *)
  | OpRemoveEmpty => list_eqb nranking_eqb after (retype (filter (fun r => negb (Nat.eqb (List.length r) 0)) before))
  | OpSubProblem K =>
      list_eqb nranking_eqb after (retype (filter (fun r => negb (Nat.eqb (List.length r) 0)) (map (project_on K) before)))
  | OpUnifiedDataset =>
      let U := nfirst [] (List.concat (map nelems before)) in
      Nat.eqb (List.length after) (List.length before) &&
      forallb (fun ra => let '(r, a) := ra in
        let missing := filter (fun x => negb (nmem x (nelems r))) U in
        match missing with
        | [] => nranking_eqb a r
        | _ => nranking_eqb a (r ++ [missing])
        end) (combine before after)
  | _ => true
  end.

Definition judge_op (c : list nranking * op * result derr dsnap) : nat :=
  let '(before, o, out) := c in
  let m := match apply_op before o, out with
           | Ok d, Ok s =>
               list_eqb nranking_eqb (d_rankings d) (map rs_buckets (ds_rankings s))
               && nseteq (d_ids d) (map fst (ds_e2i s))
               && Bool.eqb (d_complete d) (ds_complete s) && Bool.eqb (d_noties d) (ds_noties s)
           | Err e, Err e' => derr_eqb e e'
           | _, _ => false
           end in
  let spec := match out with
              | Ok s => inv_dataset s && spec_op before o (map rs_buckets (ds_rankings s))
              | Err _ => true   (* refusals are compared with the model only *)
              end in
  code m spec.
Definition show_op (c : list nranking * op * result derr dsnap) := let '(b, o, _) := c in apply_op b o.

(** lists of rankings returned by the API (unified_rankings, consensus rankings, parsed, generated) *)
Definition judge_rankings (c : list nranking * list rsnap) : nat :=
  let '(expected, got) := c in
  code (list_eqb nranking_eqb expected (map rs_buckets got)) (forallb inv_ranking got).

(** dataset equality (C17): the library's == against the multiset definition *)
Definition judge_eq (c : list nranking * list nranking * bool * bool) : nat :=
  let '(a, b, eq_ab, eq_ba) := c in
  let v := dataset_eqb a b in
  code (Bool.eqb v eq_ab && Bool.eqb v eq_ba) (Bool.eqb v eq_ab && Bool.eqb v eq_ba).

(** [unified_rankings]: exactly the missing elements as one last bucket, views consistent *)
Definition judge_unified (c : list nranking * list rsnap) : nat :=
  let '(before, got) := c in
  let U := nfirst [] (List.concat (map nelems before)) in
  let m := match analyse before with
           | Ok d => list_eqb nranking_eqb (unified_rankings d) (map rs_buckets got)
           | Err _ => false
           end in
  let spec := forallb inv_ranking got && Nat.eqb (List.length got) (List.length before) &&
    forallb (fun ra => let '(r, a) := ra in
        let missing := filter (fun x => negb (nmem x (nelems r))) U in
        match missing with
        | [] => nranking_eqb (rs_buckets a) r
        | _ => nranking_eqb (rs_buckets a) (r ++ [missing])
        end) (combine before got) in
  code m spec.

(** C17, "consistent with ranking equality": two rankings are equal exactly when they have the same buckets (as sets) in the same
    order - empty buckets included *)
Definition judge_req (c : nranking * nranking * bool * bool) : nat :=
  let '(a, b, ab, ba) := c in
  let expected := list_eqb nset_eqb a b in
  code (Bool.eqb ab expected && Bool.eqb ba expected) (Bool.eqb ab expected && Bool.eqb ba expected).
