(** Judges for BioConsert: C08 (local optimum), C09 (never worse than its starting points), C04 (score). *)
From Corankco Require Import Prelude Scheme Rank KemenySpec CostTable OptTheory Markov Borda BioConsert
     Judge.JC19 Judge.JC13 Judge.JC20 Judge.JC02 Judge.JOpt.
Local Open Scope Z_scope.

(** single-element moves of a ranking given by its bucket-id vector; positions are doubled so that a new
    bucket inserted before position p sits at 2p-1 *)
Definition moved (r : vec) (e : nat) (newpos : Z) : posf :=
  fun x => if Nat.eqb x e then newpos else 2 * get r x.
Definition base (r : vec) : posf := fun x => 2 * get r x.

(** no single-element move (into another existing bucket, or into a new bucket at any position)
    improves the score by more than [thr] *)
Definition local_opt (K : table) (n : nat) (r : vec) (thr : Z) : bool :=
  let U := seq 0 n in
  let s0 := scoref K U (base r) in
  let m := vmax r in
  forallb (fun e =>
    forallb (fun b => s0 - thr <=? scoref K U (moved r e (2 * Z.of_nat b))) (seq 0 (Z.to_nat (m + 1)))
    && forallb (fun p => s0 - thr <=? scoref K U (moved r e (2 * Z.of_nat p - 1))) (seq 0 (Z.to_nat (m + 2)))) U.

(** fuel given to the model of the local search: the score of the worst departure divided by the threshold, plus
    two - proved sufficient for the loop to terminate ([BioAlgo.bioconsert_on_terminates]) *)
Definition fuel_for (K : table) (n : nat) (deps : list vec) : nat :=
  Z.to_nat (fold_right Z.max 0 (map (score_vec K n) deps) / THR) + 2.

Definition denseb' (v : vec) : bool := denseb v && forallb (fun x => 0 <=? x) v.

(** unit level: [_improve_one_ranking] *)
Definition judge_improve (c : list (list (Z * Z * Z)) * vec * vec * Z) : nat :=
  let '(M, r0, r1, delta) := c in
  let n := length r0 in
  let K := table_of M in
  let m := match improve_one_ranking (fuel_for K n [r0]) K n r0 with
           | Some (r', d) => vec_eqb r' r1 && (d =? delta)
           | None => false
           end in
  let spec := denseb' r1 && Nat.eqb (length r1) n && local_opt K n r1 THR
              && (score_vec K n r1 =? score_vec K n r0 + delta) in
  code m spec.
Definition show_improve (c : list (list (Z * Z * Z)) * vec * vec * Z) :=
  let '(M, r0, _, _) := c in improve_one_ranking (fuel_for (table_of M) (length r0) [r0]) (table_of M) (length r0) r0.

(** API level *)
Record cbio := mkBio {
  b_s : scheme; b_D : dataset; b_U : list nat;
  b_starts : option (list ranking);      (* consensus of each starting algorithm, when there are some *)
  b_one : bool;
  b_score : Z; b_cons : list ranking }.

Definition judge_bio (c : cbio) : nat :=
  let U := b_U c in
  let n := length U in
  let D := b_D c in
  let K := table_of (cost_matrix (b_s c) (positions U D)) in
  let deps := match b_starts c with Some st => departures_from D st | None => departures_plain D end in
  let m := list_eqb Nat.eqb (universe D) U &&
           match bioconsert_on (fuel_for K n deps) (b_one c) (b_s c) D deps with
           | Some (sc, rs) => (sc =? b_score c) && list_eqb ranking_eqb rs (b_cons c)
           | None => false
           end in
  let spec :=
    negb (Nat.eqb (length (b_cons c)) 0) && (negb (b_one c) || Nat.eqb (length (b_cons c)) 1)
    && forallb (fun cr =>
         let ci := to_ids U cr in
         let v := vec_of (seq 0 n) ci in
         wf_cons n ci
         && local_opt K n v THR                                   (* C08 *)
         && (score K ci =? b_score c)                             (* C04: reported score, shared by all *)
         && (kemeny_spec (b_s c) D cr =? b_score c)
         && forallb (fun d => score K ci <=? score_vec K n d) deps  (* C09 *)
       ) (b_cons c) in
  code m spec.
Definition show_bio (c : cbio) :=
  let U := b_U c in
  let deps := match b_starts c with Some st => departures_from (b_D c) st | None => departures_plain (b_D c) end in
  (deps, bioconsert_on (fuel_for (table_of (cost_matrix (b_s c) (positions U (b_D c)))) (length U) deps) (b_one c) (b_s c) (b_D c) deps).
