From Corankco Require Import Prelude Scheme Rank KemenySpec KemenyMerge KemenyImpl Judge.JC19.
Local Open Scope Z_scope.

Definition kres_eqb (a b : result kemeny_err Z) : bool :=
  match a, b with
  | Ok x, Ok y => x =? y
  | Err InvalidRankings, Err InvalidRankings => true
  | Err OutOfFuel, Err OutOfFuel => true
  | _, _ => false
  end.

Definition judge_kemeny (c : scheme * dataset * ranking * result kemeny_err Z) : nat :=
  let '(s, D, cand, out) := c in
  let m := kres_eqb (get_kemeny_score s D cand) out in
  let spec := if complete_towards cand D then kres_eqb (Ok (kemeny_spec s D cand)) out
              else kres_eqb (Err InvalidRankings) out in
  code m spec.
Definition show_kemeny (c : scheme * dataset * ranking * result kemeny_err Z) :=
  let '(s, D, cand, _) := c in (get_kemeny_score s D cand, kemeny_spec s D cand).

(** unit level (informative): the counters of one input ranking *)
Definition cnt_eqb (k : counters) (l : list Z) : bool :=
  list_eqb Z.eqb [n11 k; n12 k; n13 k; n14 k; n15 k; n20 k; n23 k; n25 k] l.
Definition judge_counters (c : ranking * ranking * list Z) : nat :=
  let '(cand, r, l) := c in
  match cost_by_ranking cand r with
  | Some k => code (cnt_eqb k l) true
  | None => code false true
  end.

(** large inputs (C01/big): the dataset is ONE strict ranking 0 < 1 < ... < n-1 and the candidate ties the n elements; the score the
    library returned (in units) is compared with the closed form of [C01_all_tied_against_strict] - nothing of size n is built here *)
Definition judge_big_tied (c : scheme * Z * option Z) : nat :=
  let '(s, n, out) := c in
  let spec := match out with Some v => (v * 2 =? t0 s * (n * (n - 1))) | None => false end in
  code true spec.
(** same dataset, candidate = the elements in the reverse order, each alone in its bucket ([C01_reversed_against_strict]); [kind] 0 = all
    tied, 1 = reversed *)
Definition judge_big (c : scheme * Z * Z * option Z) : nat :=
  let '(s, n, kind, out) := c in
  let unit_cost := if kind =? 0 then t0 s else b1 s in
  let spec := match out with Some v => (v * 2 =? unit_cost * (n * (n - 1))) | None => false end in
  code true spec.

