From Corankco Require Import Prelude Parser Judge.JC19.
From Coq Require Import Ascii String.
Local Open Scope Z_scope.

Definition nset_eqb (a b : list name) : bool :=
  forallb (fun x => nmem x b) a && forallb (fun x => nmem x a) b.
Definition nranking_eqb (a b : list (list name)) : bool := list_eqb nset_eqb a b.

(** outcome classes of the library: 0 = parsed, 1 = ValueError, 2 = any other exception, 3 = hang *)
Definition out_eqb (m : outcome (list (list name))) (cls : Z) (v : list (list name)) : bool :=
  match m with
  | POk r => (cls =? 0) && nranking_eqb r v
  | PValueError => cls =? 1
  | PHang => cls =? 3
  end.

(** text travels as lists of character codes *)
Definition T (l : list nat) : str := map ascii_of_nat l.
Definition NS (l : list nat) : name := NStr (T l).

(** arbitrary text: parsed or ValueError, nothing else *)
Definition judge_text (c : list nat * Z * list (list name)) : nat :=
  let '(s, cls, v) := c in
  code (out_eqb (from_string (T s)) cls v) ((cls =? 0) || (cls =? 1)).
Definition show_text (c : list nat * Z * list (list name)) := from_string (T (fst (fst c))).

(** round trip: [r] is the listing of the ranking, [txt] the text handed to the parser (prefix, white
    space, notation chosen by the harness), [rendered] what str(Ranking) printed, [(cls, v)] the outcome *)
Definition judge_roundtrip (c : list (list name) * list nat * list nat * Z * list (list name)) : nat :=
  let '(r, txt, rendered, cls, v) := c in
  let m := str_eqb (render "{"%char "}"%char r) (T rendered)
           && out_eqb (from_string (T txt)) cls v in
  code m ((cls =? 0) && nranking_eqb v r).
Definition show_roundtrip (c : list (list name) * list nat * list nat * Z * list (list name)) :=
  let '(r, txt, _, _, _) := c in (render "{"%char "}"%char r, from_string (T txt)).

(** file round trip: dataset listing, the text found in the file, the outcome of reading it back *)
Definition dres_eqb (m : outcome (list (list (list name)))) (cls : Z) (v : list (list (list name))) : bool :=
  match m with
  | POk d => (cls =? 0) && list_eqb nranking_eqb d v
  | PValueError => cls =? 1
  | PHang => cls =? 3
  end.
Definition judge_file (c : list (list (list name)) * list nat * Z * list (list (list name))) : nat :=
  let '(d, text, cls, v) := c in
  let m := str_eqb (write_text d) (T text) && dres_eqb (read_text (T text)) cls v in
  code m ((cls =? 0) && list_eqb nranking_eqb v d).
Definition show_file (c : list (list (list name)) * list nat * Z * list (list (list name))) :=
  let '(d, text, _, _) := c in (write_text d, read_text (T text)).

(** reading arbitrary file text (informative robustness of the reader model) *)
Definition judge_read (c : list nat * Z * list (list (list name))) : nat :=
  let '(text, cls, v) := c in
  code (dres_eqb (read_text (T text)) cls v) true.
