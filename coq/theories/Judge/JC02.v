(** Judges for property C02 (pairwise cost table). *)
From Corankco Require Import Prelude Scheme Rank KemenySpec CostTable CostTableProof Judge.JC19.
Local Open Scope Z_scope.

Definition triple_eqb (a b : Z * Z * Z) : bool :=
  let '(a1, a2, a3) := a in let '(b1, b2, b3) := b in (a1 =? b1) && (a2 =? b2) && (a3 =? b3).
Definition matrix_eqb (A B : list (list (Z * Z * Z))) : bool := list_eqb (list_eqb triple_eqb) A B.
Definition zmat_eqb (A B : list (list Z)) : bool := list_eqb (list_eqb Z.eqb) A B.

Record c02 := mkC02 {
  c_s : scheme; c_D : dataset;
  c_U : list nat;                       (* id order reported by the library *)
  c_P : list (list Z); c_B : list (list Z);   (* get_positions / get_bucket_ids *)
  c_MP : list (list (Z * Z * Z));       (* cost matrix from positions *)
  c_MB : list (list (Z * Z * Z));       (* cost matrix from bucket ids *)
  c_cands : list (ranking * Z) }.       (* candidates with the library's Kemeny score *)

Definition spec_entries (s : scheme) (D : dataset) (U : list nat) (M : list (list (Z * Z * Z))) : bool :=
  let n := length U in
  Nat.eqb (length M) n &&
  forallb (fun i =>
    Nat.eqb (length (nth i M [])) n &&
    forallb (fun j =>
      if Nat.eqb i j then triple_eqb (table_of M i j) (0, 0, 0)
      else triple_eqb (table_of M i j) (cost_spec s D (nth i U 0%nat) (nth j U 0%nat))
           && (let '(b, a, t) := table_of M i j in triple_eqb (table_of M j i) (a, b, t)))
      (seq 0 n)) (seq 0 n).

Definition judge_table (c : c02) : nat :=
  let U := universe (c_D c) in
  let P := positions U (c_D c) in
  let B := bucket_ids U (c_D c) in
  let m := list_eqb Nat.eqb U (c_U c) && zmat_eqb P (c_P c) && zmat_eqb B (c_B c)
           && matrix_eqb (cost_matrix (c_s c) P) (c_MP c) && matrix_eqb (cost_matrix (c_s c) B) (c_MB c) in
  let spec := spec_entries (c_s c) (c_D c) (c_U c) (c_MP c) && matrix_eqb (c_MP c) (c_MB c)
              && forallb (fun ck => (score (table_on (c_U c) (table_of (c_MP c))) (fst ck) =? snd ck)
                                    && (kemeny_spec (c_s c) (c_D c) (fst ck) =? snd ck)) (c_cands c) in
  code m spec.

Definition show_table (c : c02) :=
  let U := universe (c_D c) in (U, positions U (c_D c), cost_matrix (c_s c) (positions U (c_D c))).
