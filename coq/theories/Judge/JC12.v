From Corankco Require Import Prelude Scheme Rank GroupSort Borda Judge.JC19 Judge.JC13.
Local Open Scope Z_scope.

Definition bres_eqb (a b : result algo_err ranking) : bool :=
  match a, b with
  | Ok x, Ok y => ranking_eqb x y
  | Err SchemeNotHandled, Err SchemeNotHandled => true
  | Err IncompleteIncompatible, Err IncompleteIncompatible => true
  | Err IncompatibleArguments, Err IncompatibleArguments => true
  | _, _ => false
  end.

(** spec, evaluated on the library's answer: refusal exactly for (incomplete, not one of the four
    families up to a positive factor); otherwise a partition of the universe into non-empty buckets
    such that x is before y iff mean(x) < mean(y) and tied iff the means are equal, the mean being
    taken over the rankings that count for the element *)
Definition family (s : scheme) : bool :=
  proportional_b (entries 6 s induced) || proportional_b (entries 6 s unifying)
  || proportional_b (entries 6 s (induced_p 4000)) || proportional_b (entries 6 s (unifying_p 4000)).
Definition unif_family (s : scheme) : bool :=
  proportional_b (entries 6 s unifying) || proportional_b (entries 6 s (unifying_p 4000)).

(** points by the documented definition, without building the unified rankings *)
Definition doc_sum (use_bid unified : bool) (D : dataset) (x : nat) : Z :=
  zsum (map (fun r => if mem x (elems r) then pts use_bid r x
                      else if unified then (if use_bid then Z.of_nat (length r) else Z.of_nat (length (elems r))) else 0) D).
Definition doc_count (unified : bool) (D : dataset) (x : nat) : Z :=
  if unified then Z.of_nat (length D) else Z.of_nat (length (filter (fun r => mem x (elems r)) D)).

Definition judge_borda (c : bool * scheme * dataset * result algo_err ranking) : nat :=
  let '(use_bid, s, D, out) := c in
  let m := bres_eqb (borda use_bid s D) out in
  let U := universe D in
  let spec :=
    if negb (is_complete D) && negb (family s) then (match out with Err SchemeNotHandled => true | _ => false end)
    else match out with
         | Err _ => false
         | Ok r =>
             let un := unif_family s in
             is_perm (elems r) U && forallb (fun b => negb (Nat.eqb (length b) 0)) r &&
             forallb (fun x => forallb (fun y =>
               let lhs := doc_sum use_bid un D x * doc_count un D y in
               let rhs := doc_sum use_bid un D y * doc_count un D x in
               Bool.eqb (bucket_id r x <? bucket_id r y) (lhs <? rhs) &&
               Bool.eqb (bucket_id r x =? bucket_id r y) (lhs =? rhs)) U) U
         end in
  code m spec.
Definition show_borda (c : bool * scheme * dataset * result algo_err ranking) :=
  let '(use_bid, s, D, _) := c in borda use_bid s D.
