From Corankco Require Import Prelude Scheme Rank KemenySpec CostTable GroupSort Copeland Judge.JC19.
Local Open Scope Z_scope.

Record c13 := mkC13 {
  k_s : scheme; k_D : dataset; k_U : list nat;
  k_cons : ranking;                  (* consensus, elements *)
  k_scores : list Z;                 (* by id, in units (1.0 = ONE) *)
  k_vic : list (Z * Z * Z) }.        (* by id, plain counts *)

Definition triple_eqb (a b : Z * Z * Z) : bool :=
  let '(a1, a2, a3) := a in let '(b1, b2, b3) := b in (a1 =? b1) && (a2 =? b2) && (a3 =? b3).

(** counts by the definition of the costs, independent of the cost matrix model *)
Definition def_counts (s : scheme) (D : dataset) (U : list nat) (x : nat) : Z * Z * Z :=
  fold_right (fun y acc =>
    let '(v, e, d) := acc in
    if Nat.eqb x y then acc
    else let '(b, a, _) := cost_spec s D x y in
         match Z.compare b a with Lt => (v + 1, e, d) | Eq => (v, e + 1, d) | Gt => (v, e, d + 1) end)
    (0, 0, 0) U.

Definition is_perm (a b : list nat) : bool :=
  Nat.eqb (length a) (length b) && forallb (fun x => mem x b) a && forallb (fun x => mem x a) b.

Definition judge_copeland (c : c13) : nat :=
  let U := universe (k_D c) in
  let n := length U in
  let K := cost_table (k_s c) (k_D c) in
  let m := list_eqb Nat.eqb U (k_U c)
           && ranking_eqb (copeland (k_s c) (k_D c)) (k_cons c)
           && list_eqb Z.eqb (map (fun i => score2 K n i * (ONE / 2)) (seq 0 n)) (k_scores c)
           && list_eqb triple_eqb (map (counts K n) (seq 0 n)) (k_vic c) in
  let Ui := k_U c in
  let sc x := match index_of x Ui with Some i => nth i (k_scores c) 0 | None => -1 end in
  let spec :=
    is_perm (elems (k_cons c)) Ui && forallb (fun b => negb (Nat.eqb (length b) 0)) (k_cons c)
    && list_eqb triple_eqb (map (def_counts (k_s c) (k_D c) Ui) Ui) (k_vic c)
    && list_eqb Z.eqb (map (fun t => let '(v, e, _) := t in (2 * v + e) * (ONE / 2)) (k_vic c)) (k_scores c)
    && forallb (fun t => let '(v, e, d) := t in v + e + d =? Z.of_nat (length Ui) - 1) (k_vic c)
    && (zsum (k_scores c) * 2 =? Z.of_nat (length Ui) * (Z.of_nat (length Ui) - 1) * ONE)
    && forallb (fun x => forallb (fun y =>
         Bool.eqb (bucket_id (k_cons c) x <? bucket_id (k_cons c) y) (sc y <? sc x)
         && Bool.eqb (bucket_id (k_cons c) x =? bucket_id (k_cons c) y) (sc x =? sc y)) Ui) Ui in
  code m spec.

Definition show_copeland (c : c13) :=
  let U := universe (k_D c) in
  (copeland (k_s c) (k_D c), map (counts (cost_table (k_s c) (k_D c)) (length U)) (seq 0 (length U))).
