From Corankco Require Import Prelude Scheme Rank KemenySpec KwikSort Judge.JC19 Judge.JC13 Judge.JC20.
Local Open Scope Z_scope.

(** the cheapest placement of [o] w.r.t. [p] by the definition of the costs: tie preferred, then before *)
Definition pref (s : scheme) (D : dataset) (p o : nat) : Z :=
  let '(b, a, t) := cost_spec s D o p in
  if t <=? b then (if t <=? a then 0 else 1) else if b <=? a then -1 else 1.

(** spec on the library's answer: a partition of the universe into non-empty buckets (every script);
    if the preferences form a ranking-with-ties [R] (antisymmetric, transitive through [coherent_with]),
    the answer is exactly R *)
Definition cmp_eqb (a b : comparison) : bool :=
  match a, b with Lt, Lt | Eq, Eq | Gt, Gt => true | _, _ => false end.
Definition coherent_with (s : scheme) (D : dataset) (U : list nat) (R : ranking) : bool :=
  forallb (fun p => forallb (fun o => Nat.eqb p o ||
     cmp_eqb (Z.compare (bucket_id R o) (bucket_id R p))
             (if pref s D p o =? -1 then Lt else if pref s D p o =? 0 then Eq else Gt)) U) U.

(** last sentence of the property, on the library's answer: at every recursion step (the pivot it drew, the elements it had to
    place - both observed at the call of the random choice), each element ends before / with / after the pivot according to the
    cheapest pairwise placement *)
Definition steps_respected (s : scheme) (D : dataset) (out : ranking) (steps : list (nat * list nat)) : bool :=
  forallb (fun st => let '(p, els) := st in
    forallb (fun o => Nat.eqb p o ||
      cmp_eqb (Z.compare (bucket_id out o) (bucket_id out p))
              (if pref s D p o =? -1 then Lt else if pref s D p o =? 0 then Eq else Gt)) els) steps.

Definition judge_kwik (c : scheme * dataset * list nat * list nat * ranking * option ranking * list (nat * list nat)) : nat :=
  let '(s, D, U0, script, out, target, steps) := c in
  let m := match kwiksort s D U0 script with Some r => ranking_eqb r out | None => false end in
  let spec :=
    is_perm (elems out) U0 && forallb (fun b => negb (Nat.eqb (length b) 0)) out
    && steps_respected s D out steps
    && match target with
       | Some R => negb (coherent_with s D U0 R) || ranking_eqb out R
       | None => true
       end in
  code m spec.
Definition show_kwik (c : scheme * dataset * list nat * list nat * ranking * option ranking * list (nat * list nat)) :=
  let '(s, D, U0, script, _, _, _) := c in kwiksort s D U0 script.

(** unit level: [_where_should_it_be] against the definition of the costs *)
Definition judge_where (c : scheme * dataset * nat * nat * Z) : nat :=
  let '(s, D, p, o, out) := c in
  code (kwik_w s D p o =? out) (pref s D p o =? out).
