(** Judges evaluated by the generated case files of property C19.
    code 0 = agreement, 1 = model disagrees only, 2 = spec violated only, 3 = both. *)
From Corankco Require Import Prelude Scheme.
Local Open Scope Z_scope.

Definition code (model_ok spec_ok : bool) : nat :=
  match model_ok, spec_ok with
  | true, true => 0 | false, true => 1 | true, false => 2 | false, false => 3
  end%nat.

Definition scheme_eqb (a b : scheme) : bool :=
  list_eqb Z.eqb (Bl a ++ Tl a) (Bl b ++ Tl b).

Definition err_eqb (a b : scheme_err) : bool :=
  match a, b with
  | InvalidScheme, InvalidScheme | NonRealPositive, NonRealPositive
  | ForbiddenAssociation, ForbiddenAssociation | MulValueError, MulValueError => true
  | _, _ => false
  end.

Definition res_eqb (a b : result scheme_err scheme) : bool :=
  match a, b with
  | Ok x, Ok y => scheme_eqb x y
  | Err x, Err y => err_eqb x y
  | _, _ => false
  end.

(** constructor: the property fixes the outcome completely, so spec = model here *)
Definition judge_construct (c : pyval * result scheme_err scheme) : nat :=
  let '(v, out) := c in
  let ok := res_eqb (construct v) out in code ok ok.
Definition show_construct (c : pyval * result scheme_err scheme) := construct (fst c).

(** multiplication: [k] positive and exact => every penalty scaled and the result valid *)
Definition exactb (k : Z) (s : scheme) : bool := forallb (fun z => (z * k) mod ONE =? 0) (Bl s ++ Tl s).
Definition judge_mul (c : scheme * pyval * result scheme_err scheme) : nat :=
  let '(s, k, out) := c in
  let m := res_eqb (mul s k) out in
  let spec :=
    match num_of k with
    | None => match out with Err MulValueError => true | _ => false end
    | Some kz =>
        if negb (exactb kz s) then true (* off the grid: not judged *)
        else if 0 <? kz then
          match out with
          | Ok s' => validb s' && list_eqb Z.eqb (map (fun z => z * ONE) (Bl s' ++ Tl s'))
                                                 (map (fun z => z * kz) (Bl s ++ Tl s))
          | Err _ => false
          end
        else match out with Ok _ => false | Err _ => true end
    end in
  code m spec.
Definition show_mul (c : scheme * pyval * result scheme_err scheme) := let '(s, k, _) := c in mul s k.

(** equivalence predicates and nickname; the spec side uses the cross-multiplication test
    [proportional_b] (proved equivalent to [proportional]) *)
Definition nick_eqb (a b : nick) : bool :=
  match a, b with
  | UKSP, UKSP | GPDP, GPDP | IGKS, IGKS | EKS, EKS | NoNick, NoNick => true
  | _, _ => false
  end.
Definition nick_spec (s : scheme) : nick :=
  if proportional_b (entries 6 s unifying) then UKSP
  else if proportional_b (entries 6 s pseudodistance) then GPDP
  else if proportional_b (entries 6 s induced) then IGKS
  else if proportional_b (entries 6 s extended) then EKS else NoNick.
Definition judge_equiv (c : scheme * scheme * (bool * bool * nick)) : nat :=
  let '(s1, s2, (e6, e3, nk)) := c in
  let m := Bool.eqb (is_equivalent_to s1 s2) e6 && Bool.eqb (is_equivalent_to_on_complete s1 s2) e3
           && nick_eqb (nickname s1) nk in
  let spec := Bool.eqb (proportional_b (entries 6 s1 s2)) e6 && Bool.eqb (proportional_b (entries 3 s1 s2)) e3
              && nick_eqb (nick_spec s1) nk in
  code m spec.
Definition show_equiv (c : scheme * scheme * (bool * bool * nick)) :=
  let '(s1, s2, _) := c in (is_equivalent_to s1 s2, is_equivalent_to_on_complete s1 s2, nickname s1).

(** presets of the library against the presets of the model *)
Definition judge_presets (c : list scheme) : nat :=
  let ok := list_eqb scheme_eqb c
     [pseudodistance; unifying; induced; extended; pseudodistance_p 4000; unifying_p 4000; induced_p 4000;
      pseudodistance_p 20000; unifying_p 20000; induced_p 20000] in code ok ok.
