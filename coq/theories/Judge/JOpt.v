(** Judges for C05 (exact optimum), C06 (ParCons), C07 (ParFront, consistent_with). *)
From Corankco Require Import Prelude Scheme Rank KemenySpec CostTable OptTheory Partition ParConsProof Judge.JC19 Judge.JC13 Judge.JC20.
Local Open Scope Z_scope.

Definition to_ids (U : list nat) (c : ranking) : ranking :=
  map (map (fun x => match index_of x U with Some i => i | None => length U end)) c.

Definition set_eq (a b : list nat) : bool := forallb (fun x => mem x b) a && forallb (fun x => mem x a) b.
Definition groups_eq (P Q : ranking) : bool :=
  Nat.eqb (length P) (length Q) && forallb (fun g => existsb (set_eq g) Q) P && forallb (fun g => existsb (set_eq g) P) Q.
Definition wf_cons (n : nat) (c : ranking) : bool :=
  is_perm (elems c) (seq 0 n) && forallb (fun b => negb (Nat.eqb (length b) 0)) c.

(** one call to a sub-solver, as recorded by the harness: which solver (auxiliary or exact), the sub-problem
    dataset it received, the ranking it returned (elements) *)
Record pc_call := mkCall { call_aux : bool; call_D : dataset; call_res : ranking }.
(** one ParCons run: bound, consensus, flag, reported weak partition, recorded sub-solver calls (elements) *)
Record pc_run := mkPC { pc_bound : nat; pc_cons : ranking; pc_flag : bool; pc_weak : ranking; pc_calls : list pc_call }.
Record c06 := mkC06 {
  o_s : scheme; o_D : dataset; o_U : list nat;
  o_P : ranking;               (* OrderedPartition.parcons_partition, elements *)
  o_runs : list pc_run;        (* elements *)
  o_check_opt : bool }.        (* whether the optimum is computed (size limit of the tier) *)

Fixpoint forallb2 {A B} (f : A -> B -> bool) (l1 : list A) (l2 : list B) : bool :=
  match l1, l2 with
  | [], [] => true
  | a :: l1', b :: l2' => f a b && forallb2 f l1' l2'
  | _, _ => false
  end.

Definition judge_parcons (c : c06) : nat :=
  let U := o_U c in
  let n := length U in
  let M := cost_matrix (o_s c) (positions U (o_D c)) in
  let K := table_of M in
  let P := to_ids U (o_P c) in
  let Dids := map (to_ids U) (o_D c) in
  let hard := filter (fun g => negb (can_be_all_tied K g)) P in
  (* the model of the assembly (ParConsProof.parcons), its sub-solvers answering what the library's did *)
  let oracle (r : pc_run) (G : list nat) : ranking :=
    match find (fun cl => set_eq (elems (to_ids U (call_res cl))) G) (pc_calls r) with
    | Some cl => to_ids U (call_res cl) | None => [] end in
  let m := list_eqb Nat.eqb (universe (o_D c)) U && groups_eq (sccs K n) P
    && forallb (fun r =>
         let model := parcons K (pc_bound r) (oracle r) (oracle r) P in
         list_eqb set_eq (fst model) (to_ids U (pc_cons r)) && Bool.eqb (snd model) (pc_flag r)
         (* one call per component that cannot be all tied, in order, to the solver the bound selects, on the
            sub-problem of the model: projection on the component + re-added empty rankings *)
         && forallb2 (fun g cl => Bool.eqb (call_aux cl) (pc_bound r <? length g)%nat
                                  && list_eqb (list_eqb set_eq) (map (to_ids U) (call_D cl)) (sub_dataset g Dids)
                                  && set_eq (elems (to_ids U (call_res cl))) g)
                     hard (pc_calls r)) (o_runs c) in
  let need_opt := o_check_opt c && existsb pc_flag (o_runs c) in
  let best := if need_opt then opt K (seq 0 n) else 0 in
  let spec :=
    is_partition_of (seq 0 n) P && no_back_arcs K P &&
    forallb (fun r =>
      let cons := to_ids U (pc_cons r) in
      wf_cons n cons
      && list_eqb set_eq (to_ids U (pc_weak r)) P
      && respects P cons
      && Bool.eqb (pc_flag r) (forallb (fun g => can_be_all_tied K g || (length g <=? pc_bound r)%nat) P)
      && forallb (fun g => negb (can_be_all_tied K g)
                           || forallb (fun x => bucket_id cons x =? bucket_id cons (hd 0%nat g)) g) P
      && (negb (pc_flag r && o_check_opt c) || (score K cons =? best))) (o_runs c) in
  code m spec.
Definition show_parcons (c : c06) :=
  let U := o_U c in let K := table_of (cost_matrix (o_s c) (positions U (o_D c))) in
  (sccs K (length U), opt K (seq 0 (length U))).

(** exact algorithms: every returned consensus is well-formed and has the minimum score *)
Record ex_run := mkEX { ex_name : nat; ex_cons : list ranking; ex_flag : bool; ex_score : option Z }.
Record c05 := mkC05 { e_s : scheme; e_D : dataset; e_U : list nat; e_runs : list ex_run }.

Definition judge_exact (c : c05) : nat :=
  let U := e_U c in
  let n := length U in
  let K := table_of (cost_matrix (e_s c) (positions U (e_D c))) in
  let best := opt K (seq 0 n) in
  let spec :=
    forallb (fun r =>
      negb (Nat.eqb (length (ex_cons r)) 0) && ex_flag r
      && forallb (fun cr => let cons := to_ids U cr in wf_cons n cons && (score K cons =? best)) (ex_cons r)
      && match ex_score r with Some v => v =? best | None => false end) (e_runs c) in
  code (list_eqb Nat.eqb (universe (e_D c)) U) spec.
Definition show_exact (c : c05) :=
  let U := e_U c in opt (table_of (cost_matrix (e_s c) (positions U (e_D c)))) (seq 0 (length U)).

(** a sequence of calls on ONE algorithm object (no state may leak from a call to the next): each call judged on its own *)
Definition judge_exact_seq (l : list c05) : nat := fold_left Nat.lor (map judge_exact l) 0%nat.
Definition show_exact_seq (l : list c05) := map show_exact l.

(** ParFront: the library's partition against the merge loop run on the library's own SCC order, and
    against every optimal consensus (enumerated through [assigns]) *)
Record c07 := mkC07 {
  f_s : scheme; f_D : dataset; f_U : list nat;
  f_P0 : ranking;   (* parcons partition (elements), the order igraph gave *)
  f_P : ranking;    (* parfront partition (elements) *)
  f_enum : bool }.

Definition all_optima_respect (K : table) (n : nat) (P : ranking) : bool :=
  let U := seq 0 n in
  let cands := assigns U n in
  let best := opt K U in
  forallb (fun a => negb (scoref K U (p_of a) =? best)
                    || forallb (fun xy => negb (bucket_id P (fst xy) <? bucket_id P (snd xy))
                                          || (p_of a (fst xy) <? p_of a (snd xy))) (list_prod U U)) cands.

Definition coarsens (P0 P : ranking) : bool :=
  (* P is obtained by concatenating consecutive groups of P0, in order *)
  list_eqb Nat.eqb (elems P0) (elems P)
  && forallb (fun xy => negb (bucket_id P0 (fst xy) =? bucket_id P0 (snd xy)) || (bucket_id P (fst xy) =? bucket_id P (snd xy)))
             (list_prod (elems P0) (elems P0))
  && forallb (fun xy => negb (bucket_id P0 (fst xy) <? bucket_id P0 (snd xy)) || (bucket_id P (fst xy) <=? bucket_id P (snd xy)))
             (list_prod (elems P0) (elems P0)).

Definition judge_parfront (c : c07) : nat :=
  let U := f_U c in
  let n := length U in
  let K := table_of (cost_matrix (f_s c) (positions U (f_D c))) in
  let P0 := to_ids U (f_P0 c) in
  let P := to_ids U (f_P c) in
  let m := match parfront_from K P0 with Some Q => list_eqb set_eq Q P | None => false end in
  let spec :=
    is_partition_of (seq 0 n) P && no_back_arcs K P && all_consecutive_robust K P
    && groups_eq (map (fun g => g) P) P
    && forallb (fun xy => negb (bucket_id P0 (fst xy) =? bucket_id P0 (snd xy)) || (bucket_id P (fst xy) =? bucket_id P (snd xy)))
               (list_prod (seq 0 n) (seq 0 n))
    && forallb (fun xy => negb (bucket_id P0 (fst xy) <? bucket_id P0 (snd xy)) || (bucket_id P (fst xy) <=? bucket_id P (snd xy)))
               (list_prod (seq 0 n) (seq 0 n))
    && (negb (f_enum c) || all_optima_respect K n P) in
  code m spec.
Definition show_parfront (c : c07) :=
  let U := f_U c in let K := table_of (cost_matrix (f_s c) (positions U (f_D c))) in parfront_from K (to_ids U (f_P0 c)).

(** consistent_with: outcome 0 = False, 1 = True, 2 = hang / exception *)
Definition judge_consistent (c : ranking * ranking * Z * Z * Z) : nat :=
  let '(P, cs, nb_cons, nb_part, out) := c in
  let m := match consistent_with P cs nb_cons nb_part with
           | CW b => (if b then 1 else 0) =? out
           | CWHang => out =? 2
           end in
  (* the relation: same elements, and earlier groups strictly before later groups in the first ranking *)
  let wfp := forallb (fun g => negb (Nat.eqb (length g) 0)) P && nodupb (elems P) in
  let rel := is_perm (elems cs) (elems P) && (nb_cons =? nb_part) && respects P cs in
  code m (negb wfp || negb (nodupb (elems cs)) || negb (nb_cons =? Z.of_nat (length (elems cs)))
          || negb (nb_part =? Z.of_nat (length (elems P))) || ((if rel then 1 else 0) =? out)).
