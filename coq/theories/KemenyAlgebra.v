(** Property C01, structure of the definition: the generalized Kemeny score is a sum over the rankings of the dataset - additive
    over concatenated datasets, independent of the order of the rankings, zero against no ranking. *)
From Corankco Require Import Prelude Scheme Rank KemenySpec OptTheory.
Local Open Scope Z_scope.

Theorem kemeny_spec_app s D1 D2 c : kemeny_spec s (D1 ++ D2) c = kemeny_spec s D1 c + kemeny_spec s D2 c.
Proof. unfold kemeny_spec. rewrite map_app. apply zsum_app. Qed.

Theorem kemeny_spec_nil s c : kemeny_spec s [] c = 0.
Proof. reflexivity. Qed.

Theorem kemeny_spec_perm s D D' c : Permutation D D' -> kemeny_spec s D c = kemeny_spec s D' c.
Proof. intros P. unfold kemeny_spec. apply zsum_perm'. apply Permutation_map. exact P. Qed.

Theorem kemeny_spec_single s r c : kemeny_spec s [r] c = kemeny_one s c r.
Proof. unfold kemeny_spec. simpl. lia. Qed.
