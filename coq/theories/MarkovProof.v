(** Property C20: the dense-numbering invariant is preserved by every Markov move, hence by every walk. *)
From Corankco Require Import Prelude Rank Markov.
Local Open Scope Z_scope.

(** * vectors *)
Lemma upd_length v e x : length (upd v e x) = length v.
Proof. revert e; induction v as [|a v IH]; intros [|e]; simpl; auto. Qed.

Lemma get_upd_same v e x : (e < length v)%nat -> get (upd v e x) e = x.
Proof. unfold get. revert e; induction v as [|a v IH]; intros [|e] H; simpl in *; try lia; auto. apply IH; lia. Qed.

Lemma get_upd_other v e i x : i <> e -> get (upd v e x) i = get v i.
Proof.
  unfold get. revert e i; induction v as [|a v IH]; intros [|e] [|i] H; simpl; try reflexivity; try lia.
  apply IH; lia.
Qed.

Lemma get_map (f : Z -> Z) (v : vec) i : (i < length v)%nat -> get (map f v) i = f (get v i).
Proof.
  unfold get. intros H. rewrite (nth_indep _ (-1) (f (-1))) by (rewrite map_length; assumption). apply map_nth.
Qed.

Lemma In_get v y : In y v <-> exists i, (i < length v)%nat /\ get v i = y.
Proof.
  unfold get. split.
  - intros H. destruct (In_nth v y (-1) H) as (i & Hi & E). eauto.
  - intros (i & Hi & <-). apply nth_In; assumption.
Qed.

(** counting occurrences *)
Lemma cnt_eq_cons v a b : cnt_eq (a :: v) b = (if b =? a then 1 else 0) + cnt_eq v b.
Proof. unfold cnt_eq. simpl. destruct (b =? a); simpl length; lia. Qed.
Lemma cnt_eq_nonneg v b : 0 <= cnt_eq v b.
Proof. unfold cnt_eq; lia. Qed.
Lemma cnt_eq_pos v b i : (i < length v)%nat -> get v i = b -> 1 <= cnt_eq v b.
Proof.
  unfold get. revert i; induction v as [|a v IH]; intros [|i] H E; simpl in *; try lia; rewrite cnt_eq_cons.
  - subst b. rewrite Z.eqb_refl. pose proof (cnt_eq_nonneg v a). lia.
  - pose proof (IH i ltac:(lia) E). destruct (b =? a); lia.
Qed.
Lemma cnt_eq_two v b i j :
  i <> j -> (i < length v)%nat -> (j < length v)%nat -> get v i = b -> get v j = b -> 2 <= cnt_eq v b.
Proof.
  unfold get. revert i j; induction v as [|a v IH]; intros [|i] [|j] Hij Hi Hj Ei Ej; simpl in *; try lia; rewrite cnt_eq_cons.
  - subst a. rewrite Z.eqb_refl. pose proof (cnt_eq_pos v b j ltac:(lia) Ej). lia.
  - subst a. rewrite Z.eqb_refl. pose proof (cnt_eq_pos v b i ltac:(lia) Ei). lia.
  - pose proof (IH i j ltac:(lia) ltac:(lia) ltac:(lia) Ei Ej). destruct (b =? a); lia.
Qed.
Lemma cnt_eq_pos_inv v b : 1 <= cnt_eq v b -> exists j, (j < length v)%nat /\ get v j = b.
Proof.
  unfold get. induction v as [|a v IH]; [unfold cnt_eq; simpl; lia|]. rewrite cnt_eq_cons. intros H.
  destruct (b =? a) eqn:E.
  - exists 0%nat. simpl. split; lia.
  - destruct IH as (j & Hj & Ej); [lia|]. exists (S j). simpl. split; [lia|assumption].
Qed.

(** an element that is not alone in its bucket has a companion at another index *)
Lemma cnt_eq_companion v e :
  (e < length v)%nat -> 1 < cnt_eq v (get v e) -> exists i, i <> e /\ (i < length v)%nat /\ get v i = get v e.
Proof.
  unfold get. revert e; induction v as [|a v IH]; intros [|e] He H; simpl in *; try lia.
  - rewrite cnt_eq_cons, Z.eqb_refl in H.
    destruct (cnt_eq_pos_inv v a ltac:(lia)) as (j & Hj & Ej). exists (S j). split; [lia|]. split; [lia|exact Ej].
  - rewrite cnt_eq_cons in H. destruct (nth e v (-1) =? a) eqn:E.
    + exists 0%nat. split; [lia|]. split; [lia|]. lia.
    + destruct (IH e ltac:(lia) ltac:(lia)) as (j & Hne & Hj & Ej). exists (S j). split; [lia|]. split; [lia|exact Ej].
Qed.

Lemma cnt_eq_alone v e i :
  (e < length v)%nat -> (i < length v)%nat -> i <> e -> cnt_eq v (get v e) = 1 -> get v i <> get v e.
Proof.
  intros He Hi Hne H E. pose proof (cnt_eq_two v (get v e) i e Hne Hi He E eq_refl). lia.
Qed.

(** * membership in an updated mapped vector *)
Lemma get_upd_map (f : Z -> Z) (v : vec) e x i :
  (i < length v)%nat -> get (upd (map f v) e x) i = if Nat.eqb i e then x else f (get v i).
Proof.
  intros Hi. destruct (Nat.eqb i e) eqn:E.
  - apply Nat.eqb_eq in E. subst. apply get_upd_same. rewrite map_length; assumption.
  - apply Nat.eqb_neq in E. rewrite get_upd_other by assumption. apply get_map; assumption.
Qed.

Lemma In_upd_map (f : Z -> Z) (v : vec) e x y :
  (e < length v)%nat ->
  (In y (upd (map f v) e x) <-> y = x \/ exists i, (i < length v)%nat /\ i <> e /\ y = f (get v i)).
Proof.
  intros He. rewrite In_get, upd_length, map_length. split.
  - intros (i & Hi & E). rewrite get_upd_map in E by assumption.
    destruct (Nat.eqb i e) eqn:Ei; [left; congruence|]. apply Nat.eqb_neq in Ei. right. exists i. auto.
  - intros [->|(i & Hi & Ne & ->)].
    + exists e. split; [assumption|]. rewrite get_upd_map, Nat.eqb_refl by assumption. reflexivity.
    + exists i. split; [assumption|]. rewrite get_upd_map by assumption.
      destruct (Nat.eqb i e) eqn:Ei; [apply Nat.eqb_eq in Ei; contradiction|reflexivity].
Qed.

Lemma In_upd_id v e x y :
  (e < length v)%nat ->
  (In y (upd v e x) <-> y = x \/ exists i, (i < length v)%nat /\ i <> e /\ y = get v i).
Proof.
  intros He. rewrite <- (map_id v) at 1. rewrite In_upd_map by assumption. reflexivity.
Qed.

Lemma In_map_get (f : Z -> Z) (v : vec) (y : Z) : In y (map f v) <-> exists i, (i < length v)%nat /\ y = f (get v i).
Proof.
  rewrite In_get, map_length. split; intros (i & Hi & E); exists i; split; try assumption.
  - rewrite get_map in E by assumption. congruence.
  - rewrite get_map by assumption. congruence.
Qed.

(** * reading the invariant *)
Lemma Dense_get v i : Dense v -> (i < length v)%nat ->
  -1 <= get v i /\ (0 < get v i -> exists j, (j < length v)%nat /\ get v j = get v i - 1).
Proof.
  intros D Hi. unfold Dense in D. rewrite Forall_forall in D.
  destruct (D (get v i)) as [H1 H2]; [apply In_get; eauto|]. split; [assumption|].
  intros Hp. apply In_get. auto.
Qed.

Lemma Dense_intro v :
  (forall y, In y v -> -1 <= y /\ (0 < y -> In (y - 1) v)) -> Dense v.
Proof. intros H. unfold Dense. apply Forall_forall. exact H. Qed.

Ltac dense_at D i Hi :=
  let L := fresh "L" in let P := fresh "P" in
  destruct (Dense_get _ i D Hi) as [L P].

(** * the six moves *)
Theorem add_left_dense v e :
  Dense v -> (e < length v)%nat -> 0 <= get v e -> Dense (add_left v e) /\ length (add_left v e) = length v.
Proof.
  intros D He Hb. unfold add_left. set (b := get v e) in *.
  destruct (1 <? cnt_eq v b) eqn:C; [|auto]. split; [|rewrite upd_length, map_length; reflexivity].
  apply Z.ltb_lt in C. destruct (cnt_eq_companion v e He C) as (k & Kne & Kl & Kb). fold b in Kb.
  set (f := fun x => if b <=? x then x + 1 else x).
  apply Dense_intro. intros y Hy. apply (In_upd_map f) in Hy; [|assumption].
  destruct Hy as [->|(i & Hi & Ne & ->)].
  - split; [lia|]. intros Hp. dense_at D e He. fold b in L, P. destruct (P Hp) as (j & Hj & Ej).
    apply (In_upd_map f); [assumption|]. right. exists j. repeat split; try assumption.
    + intros ->. fold b in Ej. lia.
    + unfold f. rewrite Ej. destruct (b <=? b - 1) eqn:X; lia.
  - dense_at D i Hi. unfold f. destruct (b <=? get v i) eqn:X.
    + split; [lia|]. intros _. apply (In_upd_map f); [assumption|].
      destruct (Z.eq_dec (get v i) b) as [E|E]; [left; lia|]. right.
      destruct (P ltac:(lia)) as (j & Hj & Ej).
      destruct (Nat.eq_dec j e) as [->|Nj].
      * fold b in Ej. exists k. repeat split; try assumption. unfold f. rewrite Kb.
        destruct (b <=? b) eqn:Y; lia.
      * exists j. repeat split; try assumption. unfold f. rewrite Ej.
        destruct (b <=? get v i - 1) eqn:Y; lia.
    + split; [lia|]. intros Hp. destruct (P Hp) as (j & Hj & Ej).
      apply (In_upd_map f); [assumption|]. right. exists j. repeat split; try assumption.
      * intros ->. fold b in Ej. lia.
      * unfold f. rewrite Ej. destruct (b <=? get v i - 1) eqn:Y; lia.
Qed.

Theorem add_right_dense v e :
  Dense v -> (e < length v)%nat -> 0 <= get v e -> Dense (add_right v e) /\ length (add_right v e) = length v.
Proof.
  intros D He Hb. unfold add_right. set (b := get v e) in *.
  destruct (2 <? cnt_eq v b) eqn:C; [|auto]. split; [|rewrite upd_length, map_length; reflexivity].
  apply Z.ltb_lt in C. destruct (cnt_eq_companion v e He ltac:(fold b; lia)) as (k & Kne & Kl & Kb). fold b in Kb.
  set (f := fun x => if b <? x then x + 1 else x).
  apply Dense_intro. intros y Hy. apply (In_upd_map f) in Hy; [|assumption].
  destruct Hy as [->|(i & Hi & Ne & ->)].
  - split; [lia|]. intros _. apply (In_upd_map f); [assumption|]. right. exists k. repeat split; try assumption.
    unfold f. rewrite Kb. destruct (b <? b) eqn:Y; lia.
  - dense_at D i Hi. unfold f. destruct (b <? get v i) eqn:X.
    + split; [lia|]. intros _. apply (In_upd_map f); [assumption|].
      destruct (Z.eq_dec (get v i) (b + 1)) as [E|E]; [left; lia|]. right.
      destruct (P ltac:(lia)) as (j & Hj & Ej). exists j. repeat split; try assumption.
      * intros ->. fold b in Ej. lia.
      * unfold f. rewrite Ej. destruct (b <? get v i - 1) eqn:Y; lia.
    + split; [lia|]. intros Hp. destruct (P Hp) as (j & Hj & Ej).
      apply (In_upd_map f); [assumption|]. right. exists j. repeat split; try assumption.
      * intros ->. fold b in Ej. lia.
      * unfold f. rewrite Ej. destruct (b <? get v i - 1) eqn:Y; lia.
Qed.

Theorem change_left_dense v e :
  Dense v -> (e < length v)%nat -> 0 <= get v e -> Dense (change_left v e) /\ length (change_left v e) = length v.
Proof.
  intros D He Hb. unfold change_left. set (b := get v e) in *.
  destruct (b =? 0) eqn:B0; [auto|]. assert (Hb1 : 1 <= b) by lia.
  set (g := fun x => if b <? x then x - 1 else x).
  dense_at D e He. fold b in L, P. destruct (P ltac:(lia)) as (jb & Hjb & Ejb).
  assert (Njb : jb <> e) by (intros ->; fold b in Ejb; lia).
  destruct (cnt_eq v b =? 1) eqn:C.
  - (* alone *)
    apply Z.eqb_eq in C.
    assert (G : get (map g v) e = b).
    { rewrite get_map by assumption. fold b. unfold g. destruct (b <? b) eqn:Y; lia. }
    rewrite G. split; [|rewrite upd_length, map_length; reflexivity].
    apply Dense_intro. intros y Hy. apply (In_upd_map g) in Hy; [|assumption].
    destruct Hy as [->|(i & Hi & Ne & ->)].
    + split; [lia|]. intros Hp. dense_at D jb Hjb. rewrite Ejb in *.
      destruct (P0 ltac:(lia)) as (j2 & Hj2 & Ej2).
      apply (In_upd_map g); [assumption|]. right. exists j2. repeat split; try assumption.
      * intros ->. fold b in Ej2. lia.
      * unfold g. rewrite Ej2. destruct (b <? b - 1 - 1) eqn:Y; lia.
    + pose proof (cnt_eq_alone v e i He Hi Ne C) as Alone. fold b in Alone.
      dense_at D i Hi. unfold g. destruct (b <? get v i) eqn:X.
      * split; [lia|]. intros Hp. apply (In_upd_map g); [assumption|].
        destruct (Z.eq_dec (get v i - 1) b) as [E|E]; [left; lia|]. right.
        destruct (P0 ltac:(lia)) as (j & Hj & Ej). exists j. repeat split; try assumption.
        -- intros ->. fold b in Ej. lia.
        -- unfold g. rewrite Ej. destruct (b <? get v i - 1) eqn:Y; lia.
      * split; [lia|]. intros Hp. destruct (P0 Hp) as (j & Hj & Ej).
        apply (In_upd_map g); [assumption|]. right. exists j. repeat split; try assumption.
        -- intros ->. fold b in Ej. lia.
        -- unfold g. rewrite Ej. destruct (b <? get v i - 1) eqn:Y; lia.
  - (* not alone *)
    assert (C' : 1 < cnt_eq v b).
    { pose proof (cnt_eq_pos v b e He eq_refl). lia. }
    destruct (cnt_eq_companion v e He C') as (k & Kne & Kl & Kb). fold b in Kb.
    fold b. split; [|rewrite upd_length; reflexivity].
    apply Dense_intro. intros y Hy. apply In_upd_id in Hy; [|assumption].
    destruct Hy as [->|(i & Hi & Ne & ->)].
    + split; [lia|]. intros Hp. dense_at D jb Hjb. rewrite Ejb in *.
      destruct (P0 ltac:(lia)) as (j2 & Hj2 & Ej2).
      apply In_upd_id; [assumption|]. right. exists j2. repeat split; try assumption; try lia.
      intros ->. fold b in Ej2. lia.
    + dense_at D i Hi. split; [lia|]. intros Hp. destruct (P0 Hp) as (j & Hj & Ej).
      apply In_upd_id; [assumption|]. right.
      destruct (Nat.eq_dec j e) as [->|Nj].
      * fold b in Ej. exists k. repeat split; try assumption. lia.
      * exists j. repeat split; try assumption. lia.
Qed.

Lemma Dense_close_gap v b : -1 <= b -> Dense v -> Dense (map (fun x => if b <? x then x - 1 else x) v).
Proof.
  intros Hb D. set (g := fun x => if b <? x then x - 1 else x).
  apply Dense_intro. intros y Hy. apply In_map_get in Hy as (i & Hi & ->).
  dense_at D i Hi. unfold g. destruct (b <? get v i) eqn:X.
  - split; [lia|]. intros Hp. destruct (P ltac:(lia)) as (j & Hj & Ej).
    destruct (Z.eq_dec (get v i - 1) b) as [E|E].
    + dense_at D j Hj. rewrite Ej in *. destruct (P0 ltac:(lia)) as (j2 & Hj2 & Ej2).
      apply In_map_get. exists j2. split; [assumption|]. rewrite Ej2.
      destruct (b <? get v i - 1 - 1) eqn:Y; lia.
    + apply In_map_get. exists j. split; [assumption|]. rewrite Ej.
      destruct (b <? get v i - 1) eqn:Y; lia.
  - split; [lia|]. intros Hp. destruct (P Hp) as (j & Hj & Ej).
    apply In_map_get. exists j. split; [assumption|]. rewrite Ej.
    destruct (b <? get v i - 1) eqn:Y; lia.
Qed.

Lemma upd_same v e : (e < length v)%nat -> upd v e (get v e) = v.
Proof. unfold get. revert e; induction v as [|a v IH]; intros [|e] H; simpl in *; try lia; [reflexivity|]. rewrite IH by lia. reflexivity. Qed.

Lemma map_upd (f : Z -> Z) v e x : map f (upd v e x) = upd (map f v) e (f x).
Proof. revert e; induction v as [|a v IH]; intros [|e]; simpl; try reflexivity. rewrite IH. reflexivity. Qed.

Theorem change_right_dense v e :
  Dense v -> (e < length v)%nat -> 0 <= get v e -> Dense (change_right v e) /\ length (change_right v e) = length v.
Proof.
  intros D He Hb. unfold change_right. set (b := get v e) in *.
  destruct (negb (b =? vmax v) && ((1 <? cnt_eq v b) || (1 <? cnt_eq v (b + 1)))) eqn:C; [|auto].
  destruct (cnt_eq v b =? 1) eqn:C1.
  - (* alone: the element joins the next bucket and the gap is closed; the result is [map g v] *)
    set (g := fun x => if b <? x then x - 1 else x).
    rewrite map_upd. assert (G : g (b + 1) = b) by (unfold g; destruct (b <? b + 1) eqn:Y; lia).
    fold g. rewrite G.
    assert (E : upd (map g v) e b = map g v).
    { rewrite <- (upd_same (map g v) e) at 2 by (rewrite map_length; assumption).
      rewrite get_map by assumption. fold b. f_equal. unfold g. destruct (b <? b) eqn:Y; lia. }
    rewrite E. split; [apply Dense_close_gap; [lia|assumption]|apply map_length].
  - assert (C' : 1 < cnt_eq v b).
    { pose proof (cnt_eq_pos v b e He eq_refl). lia. }
    destruct (cnt_eq_companion v e He C') as (k & Kne & Kl & Kb). fold b in Kb.
    split; [|apply upd_length].
    apply Dense_intro. intros y Hy. apply In_upd_id in Hy; [|assumption].
    destruct Hy as [->|(i & Hi & Ne & ->)].
    + split; [lia|]. intros _. apply In_upd_id; [assumption|]. right. exists k. repeat split; try assumption. lia.
    + dense_at D i Hi. split; [lia|]. intros Hp. destruct (P Hp) as (j & Hj & Ej).
      apply In_upd_id; [assumption|]. right.
      destruct (Nat.eq_dec j e) as [->|Nj].
      * fold b in Ej. exists k. repeat split; try assumption. lia.
      * exists j. repeat split; try assumption. lia.
Qed.

Theorem remove_element_dense v e :
  Dense v -> (e < length v)%nat -> 0 <= get v e ->
  Dense (remove_element v e) /\ length (remove_element v e) = length v /\ get (remove_element v e) e = -1.
Proof.
  intros D He Hb. unfold remove_element. set (b := get v e) in *.
  set (g := fun x => if b <? x then x - 1 else x).
  destruct (cnt_eq v b =? 1) eqn:C.
  - apply Z.eqb_eq in C. split; [|split; [rewrite upd_length, map_length; reflexivity|apply get_upd_same; rewrite map_length; assumption]].
    apply Dense_intro. intros y Hy. apply (In_upd_map g) in Hy; [|assumption].
    destruct Hy as [->|(i & Hi & Ne & ->)]; [split; lia|].
    pose proof (cnt_eq_alone v e i He Hi Ne C) as Alone. fold b in Alone.
    dense_at D i Hi. unfold g. destruct (b <? get v i) eqn:X.
    + split; [lia|]. intros Hp. destruct (P ltac:(lia)) as (j & Hj & Ej).
      apply (In_upd_map g); [assumption|]. right.
      destruct (Z.eq_dec (get v i - 1) b) as [E|E].
      * dense_at D e He. fold b in L0, P0. destruct (P0 ltac:(lia)) as (j2 & Hj2 & Ej2).
        exists j2. repeat split; try assumption.
        -- intros ->. fold b in Ej2. lia.
        -- unfold g. rewrite Ej2. destruct (b <? b - 1) eqn:Y; lia.
      * exists j. repeat split; try assumption.
        -- intros ->. fold b in Ej. lia.
        -- unfold g. rewrite Ej. destruct (b <? get v i - 1) eqn:Y; lia.
    + split; [lia|]. intros Hp. destruct (P Hp) as (j & Hj & Ej).
      apply (In_upd_map g); [assumption|]. right. exists j. repeat split; try assumption.
      * intros ->. fold b in Ej. lia.
      * unfold g. rewrite Ej. destruct (b <? get v i - 1) eqn:Y; lia.
  - assert (C' : 1 < cnt_eq v b).
    { pose proof (cnt_eq_pos v b e He eq_refl). lia. }
    destruct (cnt_eq_companion v e He C') as (k & Kne & Kl & Kb). fold b in Kb.
    split; [|split; [apply upd_length|apply get_upd_same; assumption]].
    apply Dense_intro. intros y Hy. apply In_upd_id in Hy; [|assumption].
    destruct Hy as [->|(i & Hi & Ne & ->)]; [split; lia|].
    dense_at D i Hi. split; [lia|]. intros Hp. destruct (P Hp) as (j & Hj & Ej).
    apply In_upd_id; [assumption|]. right.
    destruct (Nat.eq_dec j e) as [->|Nj].
    + fold b in Ej. exists k. repeat split; try assumption. lia.
    + exists j. repeat split; try assumption. lia.
Qed.

Theorem put_element_first_dense v e :
  Dense v -> (e < length v)%nat -> get v e = -1 ->
  Dense (put_element_first v e) /\ length (put_element_first v e) = length v /\ get (put_element_first v e) e = 0.
Proof.
  intros D He Hb. unfold put_element_first. set (h := fun x => if 0 <=? x then x + 1 else x).
  split; [|split; [rewrite upd_length, map_length; reflexivity|apply get_upd_same; rewrite map_length; assumption]].
  apply Dense_intro. intros y Hy. apply (In_upd_map h) in Hy; [|assumption].
  destruct Hy as [->|(i & Hi & Ne & ->)]; [split; lia|].
  dense_at D i Hi. unfold h. destruct (0 <=? get v i) eqn:X.
  - split; [lia|]. intros _. apply (In_upd_map h); [assumption|].
    destruct (Z.eq_dec (get v i) 0) as [E|E]; [left; lia|]. right.
    destruct (P ltac:(lia)) as (j & Hj & Ej). exists j. repeat split; try assumption.
    + intros ->. lia.
    + unfold h. rewrite Ej. destruct (0 <=? get v i - 1) eqn:Y; lia.
  - split; [lia|]. lia.
Qed.

(** the other entries: which elements are absent is changed only at [e] *)
Lemma absent_map_shift (f : Z -> Z) v i :
  (forall x, (f x = -1 <-> x = -1)) -> (i < length v)%nat -> (get (map f v) i = -1 <-> get v i = -1).
Proof. intros H Hi. rewrite get_map by assumption. apply H. Qed.

Definition absent_same (v v' : vec) (e : nat) : Prop :=
  forall i, (i < length v)%nat -> i <> e -> (get v' i = -1 <-> get v i = -1).

Lemma Dense_nonneg_shift v i : Dense v -> (i < length v)%nat -> -1 <= get v i.
Proof. intros D Hi. dense_at D i Hi. assumption. Qed.

Lemma absent_upd_map (f : Z -> Z) v e x :
  Dense v -> (forall y, -1 <= y -> (f y = -1 <-> y = -1)) -> absent_same v (upd (map f v) e x) e.
Proof.
  intros D H i Hi Ne. rewrite get_upd_other by assumption. rewrite get_map by assumption.
  apply H. apply Dense_nonneg_shift; assumption.
Qed.

Lemma absent_same_refl v e : absent_same v v e.
Proof. intros i _ _. tauto. Qed.

Lemma add_left_absent v e : Dense v -> (e < length v)%nat -> 0 <= get v e ->
  absent_same v (add_left v e) e /\ 0 <= get (add_left v e) e.
Proof.
  intros D He Hb. unfold add_left. destruct (1 <? cnt_eq v (get v e)); [|split; [apply absent_same_refl|assumption]].
  split; [|rewrite get_upd_same by (rewrite map_length; assumption); assumption].
  apply absent_upd_map; [assumption|]. intros y Hy. destruct (get v e <=? y) eqn:X; lia.
Qed.

Lemma add_right_absent v e : Dense v -> (e < length v)%nat -> 0 <= get v e ->
  absent_same v (add_right v e) e /\ 0 <= get (add_right v e) e.
Proof.
  intros D He Hb. unfold add_right. destruct (2 <? cnt_eq v (get v e)); [|split; [apply absent_same_refl|assumption]].
  split; [|rewrite get_upd_same by (rewrite map_length; assumption); lia].
  apply absent_upd_map; [assumption|]. intros y Hy. destruct (get v e <? y) eqn:X; lia.
Qed.

Lemma change_left_absent v e : Dense v -> (e < length v)%nat -> 0 <= get v e ->
  absent_same v (change_left v e) e /\ 0 <= get (change_left v e) e.
Proof.
  intros D He Hb. unfold change_left. destruct (get v e =? 0) eqn:B0; [split; [apply absent_same_refl|assumption]|].
  destruct (cnt_eq v (get v e) =? 1).
  - assert (G : get (map (fun x => if get v e <? x then x - 1 else x) v) e = get v e).
    { rewrite get_map by assumption. destruct (get v e <? get v e) eqn:Y; lia. }
    rewrite G. split; [|rewrite get_upd_same by (rewrite map_length; assumption); lia].
    apply absent_upd_map; [assumption|]. intros y Hy. destruct (get v e <? y) eqn:X; lia.
  - split; [|rewrite get_upd_same by assumption; lia].
    intros i Hi Ne. rewrite get_upd_other by assumption. tauto.
Qed.

Lemma change_right_absent v e : Dense v -> (e < length v)%nat -> 0 <= get v e ->
  absent_same v (change_right v e) e /\ 0 <= get (change_right v e) e.
Proof.
  intros D He Hb. unfold change_right.
  destruct (negb (get v e =? vmax v) && ((1 <? cnt_eq v (get v e)) || (1 <? cnt_eq v (get v e + 1))));
    [|split; [apply absent_same_refl|assumption]].
  destruct (cnt_eq v (get v e) =? 1).
  - rewrite map_upd. split.
    + apply absent_upd_map; [assumption|]. intros y Hy. destruct (get v e <? y) eqn:X; lia.
    + rewrite get_upd_same by (rewrite map_length; assumption). destruct (get v e <? get v e + 1) eqn:Y; lia.
  - split; [|rewrite get_upd_same by assumption; lia].
    intros i Hi Ne. rewrite get_upd_other by assumption. tauto.
Qed.

Lemma remove_element_absent v e : Dense v -> (e < length v)%nat -> 0 <= get v e ->
  absent_same v (remove_element v e) e.
Proof.
  intros D He Hb. unfold remove_element. destruct (cnt_eq v (get v e) =? 1).
  - apply absent_upd_map; [assumption|]. intros y Hy. destruct (get v e <? y) eqn:X; lia.
  - intros i Hi Ne. rewrite get_upd_other by assumption. tauto.
Qed.

Lemma put_element_first_absent v e : Dense v -> (e < length v)%nat -> absent_same v (put_element_first v e) e.
Proof.
  intros D He. unfold put_element_first. apply absent_upd_map; [assumption|].
  intros y Hy. destruct (0 <=? y) eqn:X; lia.
Qed.

(** * walks *)
Definition Inv_c (n : nat) (v : vec) : Prop :=
  Dense v /\ length v = n /\ forall i, (i < n)%nat -> 0 <= get v i.

Definition Inv_i (n : nat) (st : vec * list nat) : Prop :=
  Dense (fst st) /\ length (fst st) = n /\ forall i, (i < n)%nat -> (In i (snd st) <-> get (fst st) i = -1).

Lemma init_get n i : (i < n)%nat -> get (init n) i = Z.of_nat i.
Proof.
  intros H. unfold get, init. rewrite (nth_indep _ (-1) (Z.of_nat 0)) by (rewrite map_length, seq_length; assumption).
  rewrite map_nth, seq_nth by assumption. reflexivity.
Qed.

Lemma init_dense n : Dense (init n).
Proof.
  apply Dense_intro. intros y Hy. apply In_get in Hy as (i & Hi & <-).
  unfold init in Hi. rewrite map_length, seq_length in Hi. rewrite init_get by assumption.
  split; [lia|]. intros Hp. apply In_get. exists (i - 1)%nat. unfold init. rewrite map_length, seq_length.
  split; [lia|]. fold (init n). rewrite init_get by lia. lia.
Qed.

Lemma init_inv_c n : Inv_c n (init n).
Proof.
  split; [apply init_dense|]. split; [unfold init; rewrite map_length, seq_length; reflexivity|].
  intros i Hi. rewrite init_get by assumption. lia.
Qed.

Lemma step_complete_inv n v e a : Inv_c n v -> (e < n)%nat -> Inv_c n (step_complete v e a).
Proof.
  intros (D & L & N) He. assert (He' : (e < length v)%nat) by lia. pose proof (N e He) as Hb.
  assert (G : forall v', (Dense v' /\ length v' = length v) -> (absent_same v v' e /\ 0 <= get v' e) -> Inv_c n v').
  { intros v' [D' L'] [A' B']. split; [assumption|]. split; [lia|]. intros i Hi.
    destruct (Nat.eq_dec i e) as [->|Ne]; [assumption|].
    pose proof (Dense_nonneg_shift v' i D' ltac:(lia)) as Lb.
    destruct (Z.eq_dec (get v' i) (-1)) as [E|E]; [|lia].
    apply A' in E; [|lia|assumption]. specialize (N i Hi). lia. }
  unfold step_complete.
  destruct (a =? 1); [apply G; [apply add_left_dense|apply add_left_absent]; assumption|].
  destruct (a =? 2); [apply G; [apply add_right_dense|apply add_right_absent]; assumption|].
  destruct (a =? 3); [apply G; [apply change_left_dense|apply change_left_absent]; assumption|].
  destruct (a =? 4); [apply G; [apply change_right_dense|apply change_right_absent]; assumption|].
  split; auto.
Qed.

(** every complete walk keeps the invariant *)
Theorem walk_complete_inv n script v :
  Inv_c n v -> Forall (fun ea => (fst ea < n)%nat) script -> Inv_c n (walk_complete script v).
Proof.
  unfold walk_complete. revert v; induction script as [|[e a] script IH]; intros v Hv Hs; simpl; [assumption|].
  inversion Hs; subst. apply IH; [|assumption]. apply step_complete_inv; assumption.
Qed.

Lemma filter_neq_in (l : list nat) e i : In i (filter (fun x => negb (Nat.eqb x e)) l) <-> In i l /\ i <> e.
Proof.
  rewrite filter_In. split; intros [H1 H2]; split; try assumption.
  - intros ->. rewrite Nat.eqb_refl in H2. discriminate.
  - destruct (Nat.eqb i e) eqn:E; [apply Nat.eqb_eq in E; contradiction|reflexivity].
Qed.

Lemma step_incomplete_inv n st e a : Inv_i n st -> (e < n)%nat -> Inv_i n (step_incomplete st e a).
Proof.
  destruct st as [v missing]. intros (D & L & M) He. simpl in D, L, M.
  assert (He' : (e < length v)%nat) by lia.
  unfold step_incomplete. destruct (mem e missing) eqn:Em.
  - apply mem_In in Em. pose proof (proj1 (M e He) Em) as Hb.
    destruct (a =? 5); [|split; [|split]; assumption].
    destruct (put_element_first_dense v e D He' Hb) as (D' & L' & G').
    pose proof (put_element_first_absent v e D He') as A'.
    split; [exact D'|]. split; [simpl; lia|]. simpl. intros i Hi. rewrite filter_neq_in.
    destruct (Nat.eq_dec i e) as [->|Ne].
    + rewrite G'. split; [intros [_ X]; contradiction|lia].
    + rewrite (A' i ltac:(lia) Ne). rewrite <- (M i Hi). tauto.
  - apply mem_false in Em.
    assert (Hb : 0 <= get v e).
    { pose proof (Dense_nonneg_shift v e D He'). destruct (Z.eq_dec (get v e) (-1)) as [E|E]; [|lia].
      apply M in E; [contradiction|assumption]. }
    assert (G : forall v', (Dense v' /\ length v' = length v) -> (absent_same v v' e /\ 0 <= get v' e) -> Inv_i n (v', missing)).
    { intros v' [D' L'] [A' B']. split; [assumption|]. split; [simpl; lia|]. simpl. intros i Hi.
      destruct (Nat.eq_dec i e) as [->|Ne].
      - split; [intros X; contradiction|lia].
      - rewrite (A' i ltac:(lia) Ne). apply M; assumption. }
    destruct (a =? 1); [apply G; [apply add_left_dense|apply add_left_absent]; assumption|].
    destruct (a =? 2); [apply G; [apply add_right_dense|apply add_right_absent]; assumption|].
    destruct (a =? 3); [apply G; [apply change_left_dense|apply change_left_absent]; assumption|].
    destruct (a =? 4); [apply G; [apply change_right_dense|apply change_right_absent]; assumption|].
    destruct (a =? 5); [|split; [|split]; assumption].
    destruct (remove_element_dense v e D He' Hb) as (D' & L' & G').
    pose proof (remove_element_absent v e D He' Hb) as A'.
    split; [exact D'|]. split; [simpl; lia|]. simpl. intros i Hi.
    destruct (Nat.eq_dec i e) as [->|Ne].
    + rewrite G'. tauto.
    + rewrite (A' i ltac:(lia) Ne). rewrite <- (M i Hi). split; [intros [X|X]; [congruence|assumption]|auto].
Qed.

(** every incomplete walk keeps the invariant, and the set of missing elements tracks the [-1] entries *)
Theorem walk_incomplete_inv n script st :
  Inv_i n st -> Forall (fun ea => (fst ea < n)%nat) script -> Inv_i n (walk_incomplete script st).
Proof.
  unfold walk_incomplete. revert st; induction script as [|[e a] script IH]; intros st Hv Hs; simpl; [assumption|].
  inversion Hs; subst. apply IH; [|assumption]. apply step_incomplete_inv; assumption.
Qed.

Lemma init_inv_i n : Inv_i n (init n, []).
Proof.
  destruct (init_inv_c n) as (D & L & N). split; [exact D|]. split; [exact L|]. simpl.
  intros i Hi. specialize (N i Hi). split; [intros []|lia].
Qed.

(** * decoding into buckets *)
Lemma vmax_spec v : (forall x, In x v -> x <= vmax v) /\ -1 <= vmax v /\ (vmax v = -1 \/ In (vmax v) v).
Proof.
  unfold vmax. induction v as [|a v (IH1 & IH2 & IH3)]; simpl; [split; [intros ? []|split; [lia|auto]]|].
  split; [intros x [<-|Hx]; [lia|specialize (IH1 x Hx); lia]|]. split; [lia|].
  destruct (Z.max_spec a (fold_right Z.max (-1) v)) as [[_ E]|[_ E]]; rewrite E.
  - destruct IH3 as [H|H]; [left; assumption|right; right; assumption].
  - right; left; reflexivity.
Qed.

Lemma Dense_down v x k : Dense v -> In x v -> 0 <= k <= x -> In k v.
Proof.
  intros D Hx Hk. remember (Z.to_nat (x - k)) as d eqn:Ed. revert x Hx Hk Ed.
  induction d as [|d IH]; intros x Hx Hk Ed.
  - assert (x = k) by lia. subst; assumption.
  - unfold Dense in D. rewrite Forall_forall in D. destruct (D x Hx) as [_ P].
    apply (IH (x - 1)); [apply P; lia|lia|lia].
Qed.

Lemma members_in v k e : In e (members v k) <-> (e < length v)%nat /\ get v e = k.
Proof. unfold members. rewrite filter_In, in_seq. split; intros [H1 H2]; split; try lia. Qed.

Lemma NoDup_filter {A} (f : A -> bool) l : NoDup l -> NoDup (filter f l).
Proof.
  induction 1 as [|a l Hn Hd IH]; simpl; [constructor|]. destruct (f a); [|assumption].
  constructor; [|assumption]. rewrite filter_In. tauto.
Qed.

Theorem to_buckets_wf v :
  Dense v ->
  let r := to_buckets v in
  Forall (fun b => b <> []) r /\ NoDup (concat r) /\
  (forall e, In e (concat r) <-> (e < length v)%nat /\ 0 <= get v e).
Proof.
  intros D r. destruct (vmax_spec v) as (M1 & M2 & M3).
  assert (InR : forall e, In e (concat r) <-> (e < length v)%nat /\ 0 <= get v e).
  { intros e. unfold r, to_buckets. rewrite in_concat. split.
    - intros (b & Hb & He). apply in_map_iff in Hb as (k & <- & Hk). apply members_in in He as [H1 H2]. split; [assumption|lia].
    - intros [H1 H2]. exists (members v (get v e)). split; [|apply members_in; auto].
      apply in_map_iff. exists (Z.to_nat (get v e)). split; [rewrite Z2Nat.id by lia; reflexivity|].
      apply in_seq. assert (get v e <= vmax v) by (apply M1, In_get; eauto). lia. }
  split; [|split; [|exact InR]].
  - unfold r, to_buckets. rewrite Forall_map, Forall_forall. intros k Hk. apply in_seq in Hk.
    assert (Hin : In (Z.of_nat k) v).
    { destruct M3 as [E|E]; [lia|]. apply (Dense_down v (vmax v)); [assumption|assumption|lia]. }
    apply In_get in Hin as (e & He & Ee). intros Hn.
    assert (X : In e (members v (Z.of_nat k))) by (apply members_in; auto). rewrite Hn in X. destruct X.
  - unfold r, to_buckets. generalize (Z.to_nat (vmax v + 1)) as m. intros m.
    assert (G : forall a m, NoDup (concat (map (fun k => members v (Z.of_nat k)) (seq a m))) /\
              forall e, In e (concat (map (fun k => members v (Z.of_nat k)) (seq a m))) -> Z.of_nat a <= get v e).
    { intros a m'; revert a; induction m' as [|m' IH]; intros a; simpl; [split; [constructor|intros ? []]|].
      destruct (IH (S a)) as [N1 N2]. split.
      - apply NoDup_app_intro; [apply NoDup_filter, seq_NoDup|assumption|].
        intros e He He'. apply members_in in He as [_ He]. specialize (N2 e He'). lia.
      - intros e He. apply in_app_or in He as [He|He]; [apply members_in in He; lia|specialize (N2 e He); lia]. }
    apply G.
Qed.

(** * the generator *)
Theorem generate_complete n script :
  (0 < n)%nat -> Forall (fun ea => (fst ea < n)%nat) script ->
  exists r, generate_one n true script = Some r /\
            Forall (fun b => b <> []) r /\ NoDup (concat r) /\ (forall e, In e (concat r) <-> (e < n)%nat).
Proof.
  intros Hn Hs. unfold generate_one.
  destruct (walk_complete_inv n script (init n) (init_inv_c n) Hs) as (D & L & N).
  set (v := walk_complete script (init n)) in *.
  destruct (to_buckets_wf v D) as (W1 & W2 & W3).
  assert (W4 : forall e, In e (concat (to_buckets v)) <-> (e < n)%nat).
  { intros e. rewrite W3, L. split; [tauto|]. intros H; split; [assumption|apply N; assumption]. }
  destruct (to_buckets v) as [|b r] eqn:E.
  - exfalso. specialize (W4 0%nat). simpl in W4. apply W4. assumption.
  - exists (b :: r). auto.
Qed.

Theorem generate_incomplete n script :
  Forall (fun ea => (fst ea < n)%nat) script ->
  match generate_one n false script with
  | Some r => r <> [] /\ Forall (fun b => b <> []) r /\ NoDup (concat r) /\ (forall e, In e (concat r) -> (e < n)%nat)
  | None => forall e, (e < n)%nat -> get (fst (walk_incomplete script (init n, []))) e = -1
  end.
Proof.
  intros Hs. unfold generate_one.
  destruct (walk_incomplete_inv n script (init n, []) (init_inv_i n) Hs) as (D & L & M).
  set (v := fst (walk_incomplete script (init n, []))) in *.
  destruct (to_buckets_wf v D) as (W1 & W2 & W3).
  destruct (to_buckets v) as [|b r] eqn:E.
  - intros e He. pose proof (Dense_nonneg_shift v e D ltac:(lia)) as Lb.
    destruct (Z.eq_dec (get v e) (-1)) as [X|X]; [assumption|].
    exfalso. assert (Y : In e (concat (@nil (list nat)))) by (apply W3; split; lia). destruct Y.
  - split; [discriminate|]. split; [assumption|]. split; [assumption|].
    intros e He. apply W3 in He. lia.
Qed.

(** * uniform permutations: [shuffle] is an input of the model (any permutation of 1..n) *)
Definition uniform_ranking (p : list nat) : ranking := map (fun x => [x]) p.

Theorem uniform_ranking_wf n p :
  Permutation p (seq 1 n) ->
  let r := uniform_ranking p in
  Forall (fun b => length b = 1%nat) r /\ NoDup (concat r) /\ Permutation (concat r) (seq 1 n).
Proof.
  intros Hp r. assert (E : concat r = p).
  { unfold r, uniform_ranking. clear. induction p; simpl; congruence. }
  rewrite E. split; [unfold r, uniform_ranking; rewrite Forall_map, Forall_forall; reflexivity|].
  split; [eapply Permutation_NoDup; [symmetry; exact Hp|apply seq_NoDup]|assumption].
Qed.
