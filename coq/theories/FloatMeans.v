(** C12, the float side: BordaCount compares the quotients [total / count] as IEEE-754 binary64 numbers; the model compares the
    exact means by cross-multiplication.  With round-to-nearest-even on binary64 ([rnd], Flocq's generic rounding on the format
    FLT(-1074, 53)), the correctly rounded quotient of two integers a / b and c / d with 0 <= a, c <= 2^20 and 1 <= b, d <= 2^10
    compare EXACTLY like the rationals: distinct quotients differ by at least 1 / (b d) >= 2^-20, more than the 2^-32 that two reals
    below 2^20 rounded to the same double can differ by.  (a <= n m and b <= m: up to 1024 rankings and a million position points.)
    Uses the real numbers of the standard library: the axioms listed by Print Assumptions below are theirs. *)
From Coq Require Import Reals ZArith Lia Lra.
From Flocq Require Import Core.
Open Scope R_scope.

Definition fexp := FLT_exp (-1074) 53.
Definition rnd := round radix2 fexp ZnearestE.
#[local] Instance fexp_valid : Valid_exp fexp.
Proof. apply FLT_exp_valid. unfold Prec_gt_0. lia. Qed.

Lemma rnd_separates x y : 0 <= x -> x < y -> y <= bpow radix2 20 -> bpow radix2 (-20) <= y - x -> rnd x < rnd y.
Proof.
  intros Hx Hxy Hy Hgap.
  destruct (Rlt_or_le (rnd x) (rnd y)) as [L|L]; [exact L|exfalso].
  assert (Le : rnd x <= rnd y) by (apply round_le; [apply fexp_valid|apply valid_rnd_N|lra]).
  assert (E : rnd x = rnd y) by lra.
  pose proof (error_le_half_ulp radix2 fexp (fun z => negb (Z.even z)) x) as Ex.
  pose proof (error_le_half_ulp radix2 fexp (fun z => negb (Z.even z)) y) as Ey.
  fold rnd in Ex, Ey. change (round radix2 fexp ZnearestE) with rnd in *.
  assert (Ux : ulp radix2 fexp x <= ulp radix2 fexp y) by (apply ulp_le_pos; [apply fexp_valid|exact (fun e => FLT_exp_monotone _ _ e)|lra|lra]).
  assert (Uy : ulp radix2 fexp y <= bpow radix2 (-32)).
  { assert (Hy0 : bpow radix2 (-20) <= y) by lra.
    eapply Rle_trans; [apply ulp_FLT_le|].
    - rewrite Rabs_pos_eq by lra. eapply Rle_trans; [|exact Hy0]. apply bpow_le. lia.
    - rewrite Rabs_pos_eq by lra. replace (-32)%Z with (20 + (1 - 53))%Z by lia. rewrite bpow_plus.
      apply Rmult_le_compat_r; [apply bpow_ge_0|exact Hy]. }
  assert (B : bpow radix2 (-32) < bpow radix2 (-20)) by (apply bpow_lt; lia).
  rewrite E in Ex. 
  apply Rabs_le_inv in Ex. apply Rabs_le_inv in Ey. lra.
Qed.

Lemma quot_gap (a b c d : Z) : (0 <= a)%Z -> (0 <= c <= 2 ^ 20)%Z -> (1 <= b <= 2 ^ 10)%Z -> (1 <= d <= 2 ^ 10)%Z -> (a * d < c * b)%Z ->
  0 <= IZR a / IZR b /\ IZR a / IZR b < IZR c / IZR d /\ IZR c / IZR d <= bpow radix2 20 /\ bpow radix2 (-20) <= IZR c / IZR d - IZR a / IZR b.
Proof.
  intros Ha Hc Hb Hd Hlt.
  assert (Bp : 0 < IZR b) by (apply IZR_lt; lia). assert (Dp : 0 < IZR d) by (apply IZR_lt; lia).
  assert (Ap : 0 <= IZR a) by (apply IZR_le; lia). assert (Cp : 0 <= IZR c) by (apply IZR_le; lia).
  assert (B10 : IZR b <= 1024) by (apply (IZR_le b 1024); lia). assert (D10 : IZR d <= 1024) by (apply (IZR_le d 1024); lia).
  assert (C20 : IZR c <= 1048576) by (apply (IZR_le c 1048576); lia).
  assert (G : 1 <= IZR c * IZR b - IZR a * IZR d).
  { rewrite <- !mult_IZR, <- minus_IZR. apply (IZR_le 1). lia. }
  assert (P20 : bpow radix2 20 = 1048576) by (cbn; lra).
  assert (M20 : bpow radix2 (-20) = / 1048576) by (cbn; lra).
  assert (Eq : IZR c / IZR d - IZR a / IZR b = (IZR c * IZR b - IZR a * IZR d) / (IZR b * IZR d)) by (field; lra).
  assert (BD : 0 < IZR b * IZR d) by (apply Rmult_lt_0_compat; assumption).
  assert (BDle : IZR b * IZR d <= 1048576) by nra.
  split; [apply Rmult_le_pos; [exact Ap|apply Rlt_le, Rinv_0_lt_compat; exact Bp]|].
  assert (Gap : / 1048576 <= IZR c / IZR d - IZR a / IZR b).
  { rewrite Eq. unfold Rdiv. apply Rle_trans with (1 * / (IZR b * IZR d)).
    - rewrite Rmult_1_l. apply Rinv_le_contravar; [exact BD|exact BDle].
    - apply Rmult_le_compat_r; [apply Rlt_le, Rinv_0_lt_compat; exact BD|exact G]. }
  split; [lra|]. split.
  - rewrite P20. apply Rle_trans with (IZR c); [|exact C20]. unfold Rdiv.
    rewrite <- (Rmult_1_r (IZR c)) at 2. apply Rmult_le_compat_l; [exact Cp|].
    rewrite <- Rinv_1. apply Rinv_le_contravar; [lra|]. apply (IZR_le 1). lia.
  - rewrite M20. exact Gap.
Qed.

Theorem float_quotient_compare (a b c d : Z) :
  (0 <= a <= 2 ^ 20)%Z -> (0 <= c <= 2 ^ 20)%Z -> (1 <= b <= 2 ^ 10)%Z -> (1 <= d <= 2 ^ 10)%Z ->
  Rcompare (rnd (IZR a / IZR b)) (rnd (IZR c / IZR d)) = Z.compare (a * d) (c * b).
Proof.
  intros Ha Hc Hb Hd. destruct (Z.compare_spec (a * d) (c * b)) as [E|L|G].
  - assert (Q : IZR a / IZR b = IZR c / IZR d).
    { assert (Bp : IZR b <> 0) by (apply not_0_IZR; lia). assert (Dp : IZR d <> 0) by (apply not_0_IZR; lia).
      apply (f_equal IZR) in E. rewrite !mult_IZR in E. field_simplify_eq; [|split; assumption]. lra. }
    rewrite Q. apply Rcompare_Eq. reflexivity.
  - destruct (quot_gap a b c d ltac:(lia) Hc Hb Hd L) as (H1 & H2 & H3 & H4). apply Rcompare_Lt. apply rnd_separates; assumption.
  - destruct (quot_gap c d a b ltac:(lia) Ha Hd Hb ltac:(lia)) as (H1 & H2 & H3 & H4). apply Rcompare_Gt. apply rnd_separates; assumption.
Qed.
