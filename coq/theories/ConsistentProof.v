(** Property C07, second half: [OrderedPartition.consistent_with] decides exactly the relation
    "for every x in an earlier group than y, x is strictly before y in the consensus". *)
From Corankco Require Import Prelude Scheme Rank Partition.
Local Open Scope Z_scope.

(** * bucket ids and concatenation *)
Lemma bid_shift r : forall k x, In x (concat r) -> bid_from k r x = k + bid_from 0 r x.
Proof.
  induction r as [|b r IH]; intros k x Hx; [destruct Hx|]. cbn [bid_from].
  destruct (mem x b) eqn:E; [lia|].
  cbn [concat] in Hx. apply in_app_or in Hx as [Hx|Hx]; [apply mem_In in Hx; congruence|].
  rewrite (IH (k + 1) x Hx), (IH (0 + 1) x Hx). lia.
Qed.

Lemma bid_app_l bs : forall k c x, In x (concat bs) -> bid_from k (bs ++ c) x = bid_from k bs x.
Proof.
  induction bs as [|b bs IH]; intros k c x Hx; [destruct Hx|]. cbn [app bid_from].
  destruct (mem x b) eqn:E; [reflexivity|].
  cbn [concat] in Hx. apply in_app_or in Hx as [Hx|Hx]; [apply mem_In in Hx; congruence|].
  apply IH; exact Hx.
Qed.

Lemma bid_app_r bs : forall k c x, ~ In x (concat bs) -> bid_from k (bs ++ c) x = bid_from (k + Z.of_nat (length bs)) c x.
Proof.
  induction bs as [|b bs IH]; intros k c x Hx; [cbn [app length]; f_equal; lia|]. cbn [app bid_from].
  cbn [concat] in Hx. destruct (mem x b) eqn:E; [exfalso; apply Hx, in_or_app; left; apply mem_In; exact E|].
  rewrite IH by (intros H; apply Hx, in_or_app; right; exact H). f_equal. cbn [length]. lia.
Qed.

Lemma bid_lt bs : forall k x, In x (concat bs) -> k <= bid_from k bs x < k + Z.of_nat (length bs).
Proof.
  induction bs as [|b bs IH]; intros k x Hx; [destruct Hx|]. cbn [bid_from length].
  destruct (mem x b) eqn:E; [lia|].
  cbn [concat] in Hx. apply in_app_or in Hx as [Hx|Hx]; [apply mem_In in Hx; congruence|].
  specialize (IH (k + 1) x Hx). lia.
Qed.

Lemma bid_head' k b c x : In x b -> bid_from k (b :: c) x = k.
Proof. intros H. cbn [bid_from]. apply mem_In in H. rewrite H. reflexivity. Qed.

Lemma forallb_false_ex {A} (f : A -> bool) l : forallb f l = false -> exists x, In x l /\ f x = false.
Proof.
  induction l as [|a l IH]; [discriminate|]. cbn [forallb]. destruct (f a) eqn:E.
  - intros H. destruct (IH H) as (x & Hx & Fx). exists x. split; [right; exact Hx|exact Fx].
  - intros _. exists a. split; [left; reflexivity|exact E].
Qed.

(** * the inner loop *)
Definition cnt (g : list nat) (bs : ranking) : Z :=
  Z.of_nat (length (filter (fun e => mem e g) (concat bs))).

Lemma cnt_cons g b bs : cnt g (b :: bs) = Z.of_nat (length (filter (fun e => mem e g) b)) + cnt g bs.
Proof. unfold cnt. cbn [concat]. rewrite filter_app, app_length. lia. Qed.

Lemma filter_all {A} (f : A -> bool) l : (forall x, In x l -> f x = true) -> filter f l = l.
Proof.
  induction l as [|a l IH]; intros H; [reflexivity|]. cbn [filter]. rewrite (H a (or_introl eq_refl)).
  f_equal. apply IH. intros x Hx. apply H. right; exact Hx.
Qed.

Lemma cnt_incl g bs : Forall (fun b => incl b g) bs -> cnt g bs = Z.of_nat (length (concat bs)).
Proof.
  intros H. unfold cnt. rewrite filter_all; [reflexivity|].
  intros x Hx. apply in_concat in Hx as (b & Hb & Hxb). apply mem_In. rewrite Forall_forall in H. exact (H b Hb x Hxb).
Qed.

Lemma cw_inner_false f g cons ts : cw_inner (S f) g cons ts false = Some (cons, ts, false).
Proof. reflexivity. Qed.

Lemma cw_inner_spec g : forall fuel cons ts, (length cons < fuel)%nat ->
  exists bs cons' fl, cw_inner fuel g cons ts true = Some (cons', ts - cnt g bs, fl) /\ cons = bs ++ cons' /\
    ((fl = true /\ Forall (fun b => incl b g) bs /\ (ts - cnt g bs <= 0 \/ cons' = []))
     \/ (fl = false /\ exists bs0 b, bs = bs0 ++ [b] /\ Forall (fun b => incl b g) bs0 /\ ~ incl b g /\ 0 < ts - cnt g bs0)).
Proof.
  induction fuel as [|f IH]; intros cons ts Hf; [lia|]. cbn [cw_inner andb].
  destruct (0 <? ts) eqn:Ets.
  2:{ exists [], cons, true. change (cnt g []) with 0. rewrite Z.sub_0_r. split; [reflexivity|]. split; [reflexivity|].
      left. split; [reflexivity|]. split; [constructor|]. left. lia. }
  destruct cons as [|b cons1].
  { exists [], [], true. change (cnt g []) with 0. rewrite Z.sub_0_r. split; [reflexivity|]. split; [reflexivity|].
    left. split; [reflexivity|]. split; [constructor|]. right; reflexivity. }
  cbn [length] in Hf. destruct (forallb (fun e => mem e g) b) eqn:Eb.
  - destruct (IH cons1 (ts - Z.of_nat (length (filter (fun e => mem e g) b))) ltac:(lia)) as (bs1 & cons' & fl & E & Ec & Hcase).
    exists (b :: bs1), cons', fl. rewrite cnt_cons. split; [rewrite E; f_equal; f_equal; f_equal; lia|].
    split; [cbn [app]; rewrite Ec; reflexivity|].
    assert (Hb : incl b g) by (intros x Hx; apply mem_In; rewrite forallb_forall in Eb; exact (Eb x Hx)).
    destruct Hcase as [(Efl & Hall & Hend)|(Efl & bs0 & b' & Ebs & Hall & Hn & Hpos)].
    + left. split; [exact Efl|]. split; [constructor; assumption|]. destruct Hend as [Hend|Hend]; [left; lia|right; exact Hend].
    + right. split; [exact Efl|]. exists (b :: bs0), b'. split; [rewrite Ebs; reflexivity|]. split; [constructor; assumption|].
      split; [exact Hn|]. rewrite cnt_cons. lia.
  - destruct f as [|f']; [lia|]. rewrite cw_inner_false.
    exists [b], cons1, false. rewrite cnt_cons. change (cnt g []) with 0. split; [f_equal; f_equal; f_equal; lia|].
    split; [reflexivity|]. right. split; [reflexivity|]. exists [], b. split; [reflexivity|]. split; [constructor|].
    split; [|change (cnt g []) with 0; lia].
    intros Hin. apply forallb_false_ex in Eb as (x & Hx & Fx). apply mem_false in Fx. exact (Fx (Hin x Hx)).
Qed.

Lemma cw_outer_false P cons : cw_outer P cons false = CW false.
Proof. destruct P; reflexivity. Qed.

(** the walk never runs out of fuel *)
Theorem consistent_with_terminates P cons a b : consistent_with P cons a b <> CWHang.
Proof.
  unfold consistent_with. generalize (a =? b) as fl. revert cons. induction P as [|g P IH]; intros cons fl; [discriminate|].
  cbn [cw_outer]. destruct fl; [|discriminate].
  destruct (cw_inner_spec g (S (length cons)) cons (Z.of_nat (length g)) ltac:(lia)) as (bs & cons' & fl & E & _ & _).
  rewrite E. apply IH.
Qed.

(** * the relation *)
Definition before (P c : ranking) : Prop :=
  forall x y, In x (concat P) -> In y (concat P) -> bid_from 0 P x < bid_from 0 P y -> bid_from 0 c x < bid_from 0 c y.

Lemma pigeon (g l : list nat) : NoDup g -> (length l < length g)%nat -> exists x, In x g /\ ~ In x l.
Proof.
  intros Ng Hl. destruct (forallb (fun x => mem x l) g) eqn:E.
  - exfalso. assert (I : incl g l) by (intros x Hx; apply mem_In; rewrite forallb_forall in E; exact (E x Hx)).
    pose proof (NoDup_incl_length Ng I). lia.
  - apply forallb_false_ex in E as (x & Hx & Fx). exists x. split; [exact Hx|]. apply mem_false. exact Fx.
Qed.

Lemma incl_concat (g : list nat) bs : Forall (fun b => incl b g) bs -> incl (concat bs) g.
Proof.
  intros H x Hx. apply in_concat in Hx as (b & Hb & Hxb). rewrite Forall_forall in H. exact (H b Hb x Hxb).
Qed.

Lemma perm_cancel (g g' A B : list nat) : Permutation g' g -> Permutation (g ++ A) (g' ++ B) -> Permutation A B.
Proof.
  intros Pg Pab. apply (Permutation_app_inv_l g). etransitivity; [exact Pab|]. apply Permutation_app_tail. exact Pg.
Qed.

Lemma cw_outer_iff P : forall cons,
  NoDup (concat P) -> NoDup (concat cons) -> Permutation (concat P) (concat cons) ->
  (cw_outer P cons true = CW true <-> before P cons).
Proof.
  induction P as [|g P IH]; intros cons NP Nc Perm.
  { split; [intros _ x y []|reflexivity]. }
  cbn [cw_outer].
  destruct (cw_inner_spec g (S (length cons)) cons (Z.of_nat (length g)) ltac:(lia)) as (bs & cons' & fl & E & Ec & Hcase).
  rewrite E. cbn [concat] in NP, Perm. destruct (NoDup_app_inv _ _ NP) as (Ng & NP' & Hdisj).
  subst cons. rewrite concat_app in Nc, Perm. destruct (NoDup_app_inv _ _ Nc) as (Nbs & Nc' & Hdisjc).
  destruct Hcase as [(Efl & Hall & Hend)|(Efl & bs0 & b & Ebs & Hall & Hn & Hpos)].
  - (* the scan of the group succeeded *)
    subst fl. rewrite (cnt_incl g bs Hall) in *. pose proof (incl_concat g bs Hall) as Ibs.
    pose proof (NoDup_incl_length Nbs Ibs) as Hle.
    assert (Hts : Z.of_nat (length g) - Z.of_nat (length (concat bs)) <= 0).
    { destruct Hend as [Hend|Hend]; [exact Hend|]. subst cons'. cbn [concat] in Perm. rewrite app_nil_r in Perm.
      assert (I : incl g (concat bs)).
      { intros x Hx. eapply Permutation_in; [exact Perm|]. apply in_or_app; left; exact Hx. }
      pose proof (NoDup_incl_length Ng I). lia. }
    assert (Pg : Permutation (concat bs) g).
    { apply NoDup_Permutation_bis; [exact Nbs|lia|exact Ibs]. }
    assert (Perm' : Permutation (concat P) (concat cons')) by (eapply perm_cancel; [exact Pg|exact Perm]).
    cbn [andb]. replace (Z.of_nat (length g) - Z.of_nat (length (concat bs)) <=? 0) with true by (symmetry; apply Z.leb_le; exact Hts).
    rewrite (IH cons' NP' Nc' Perm'). unfold before. split.
    + intros Hb x y Hx Hy Hlt. cbn [concat] in Hx, Hy.
      assert (Gx : In x g -> In x (concat bs)) by (intros H; eapply Permutation_in; [symmetry; exact Pg|exact H]).
      assert (Hy' : forall z, In z (concat P) -> In z (concat cons') /\ ~ In z (concat bs)).
      { intros z Hz. split; [eapply Permutation_in; [exact Perm'|exact Hz]|].
        intros Hzb. apply Ibs in Hzb. exact (Hdisj z Hzb Hz). }
      cbn [bid_from] in Hlt.
      destruct (mem x g) eqn:Ex; destruct (mem y g) eqn:Ey.
      * lia.
      * apply mem_In in Ex. apply mem_false in Ey. apply in_app_or in Hy as [Hy|Hy]; [contradiction|].
        destruct (Hy' y Hy) as (Hyc & Hyb).
        rewrite (bid_app_l bs 0 cons' x (Gx Ex)), (bid_app_r bs 0 cons' y Hyb).
        pose proof (bid_lt bs 0 x (Gx Ex)).
        destruct (bid_from_range (0 + Z.of_nat (length bs)) cons' y ltac:(lia)) as [Eu|Hge]; [|lia].
        apply bid_from_unranked in Eu; [contradiction|lia].
      * apply mem_false in Ex. apply in_app_or in Hx as [Hx|Hx]; [contradiction|].
        pose proof (bid_lt P (0 + 1) x Hx). lia.
      * apply mem_false in Ex. apply mem_false in Ey.
        apply in_app_or in Hx as [Hx|Hx]; [contradiction|]. apply in_app_or in Hy as [Hy|Hy]; [contradiction|].
        destruct (Hy' x Hx) as (Hxc & Hxb). destruct (Hy' y Hy) as (Hyc & Hyb).
        rewrite (bid_app_r bs 0 cons' x Hxb), (bid_app_r bs 0 cons' y Hyb).
        rewrite (bid_shift cons' _ x Hxc), (bid_shift cons' _ y Hyc).
        rewrite (bid_shift P _ x Hx), (bid_shift P _ y Hy) in Hlt.
        specialize (Hb x y Hx Hy ltac:(lia)). lia.
    + intros Hb x y Hx Hy Hlt.
      assert (Hn : forall z, In z (concat P) -> ~ In z g /\ In z (concat cons') /\ ~ In z (concat bs)).
      { intros z Hz. split; [intros Hg; exact (Hdisj z Hg Hz)|]. split; [eapply Permutation_in; [exact Perm'|exact Hz]|].
        intros Hzb. apply Ibs in Hzb. exact (Hdisj z Hzb Hz). }
      destruct (Hn x Hx) as (Hxg & Hxc & Hxb). destruct (Hn y Hy) as (Hyg & Hyc & Hyb).
      specialize (Hb x y ltac:(cbn [concat]; apply in_or_app; right; exact Hx) ltac:(cbn [concat]; apply in_or_app; right; exact Hy)).
      cbn [bid_from] in Hb. apply mem_false in Hxg, Hyg. rewrite Hxg, Hyg in Hb.
      rewrite (bid_app_r bs 0 cons' x Hxb), (bid_app_r bs 0 cons' y Hyb) in Hb.
      rewrite (bid_shift cons' _ x Hxc), (bid_shift cons' _ y Hyc) in Hb.
      rewrite (bid_shift P _ x Hx), (bid_shift P _ y Hy) in Hb. lia.
  - (* a bucket of the consensus holds a foreign element before the group is complete *)
    subst fl. cbn [andb]. rewrite cw_outer_false. split; [discriminate|]. intros Hb. exfalso.
    subst bs. rewrite concat_app in Nbs, Hdisjc, Perm. cbn [concat] in Nbs, Hdisjc, Perm. rewrite app_nil_r in Nbs, Hdisjc, Perm.
    destruct (NoDup_app_inv _ _ Nbs) as (Nbs0 & Nb & Hdisj0).
    rewrite (cnt_incl g bs0 Hall) in Hpos. pose proof (incl_concat g bs0 Hall) as Ibs0.
    destruct (pigeon g (concat bs0) Ng ltac:(lia)) as (x & Hxg & Hxn).
    assert (exists z, In z b /\ ~ In z g) as (z & Hzb & Hzg).
    { destruct (forallb (fun e => mem e g) b) eqn:Eb.
      - exfalso. apply Hn. intros e He. apply mem_In. rewrite forallb_forall in Eb. exact (Eb e He).
      - apply forallb_false_ex in Eb as (e & He & Fe). exists e. split; [exact He|apply mem_false; exact Fe]. }
    assert (Hzc : In z (concat bs0 ++ b)) by (apply in_or_app; right; exact Hzb).
    assert (HzP : In z (concat P)).
    { assert (In z (g ++ concat P)) as H.
      { eapply Permutation_in; [symmetry; exact Perm|]. apply in_or_app; left; exact Hzc. }
      apply in_app_or in H as [H|H]; [contradiction|exact H]. }
    assert (Hzn0 : ~ In z (concat bs0)) by (intros H; exact (Hdisj0 z H Hzb)).
    specialize (Hb x z ltac:(cbn [concat]; apply in_or_app; left; exact Hxg) ltac:(cbn [concat]; apply in_or_app; right; exact HzP)).
    cbn [bid_from] in Hb. apply mem_In in Hxg as Mx. apply mem_false in Hzg as Mz. rewrite Mx, Mz in Hb.
    pose proof (bid_lt P (0 + 1) z HzP) as Hz1. specialize (Hb ltac:(lia)).
    rewrite <- !app_assoc in Hb.
    rewrite (bid_app_r bs0 0 _ z Hzn0), (bid_app_r bs0 0 _ x Hxn) in Hb.
    cbn [app] in Hb. rewrite (bid_head' _ b cons' z Hzb) in Hb.
    assert (Hxc : In x (concat ((b :: nil) ++ cons'))).
    { assert (In x ((concat bs0 ++ b) ++ concat cons')) as H.
      { eapply Permutation_in; [exact Perm|]. apply in_or_app; left; exact Hxg. }
      cbn [app concat]. apply in_app_or in H as [H|H]; [apply in_app_or in H as [H|H]; [contradiction|apply in_or_app; left; exact H]|apply in_or_app; right; exact H]. }
    cbn [app] in Hxc.
    destruct (bid_from_range (0 + Z.of_nat (length bs0)) (b :: cons') x ltac:(lia)) as [Eu|Hge]; [|lia].
    apply bid_from_unranked in Eu; [contradiction|lia].
Qed.

(** [consistent_with] answers True exactly when both objects have the same number of elements and every
    element of an earlier group is strictly before every element of a later group in the consensus *)
Theorem consistent_with_iff P c nc np :
  NoDup (elems P) -> NoDup (elems c) -> Permutation (elems P) (elems c) ->
  (consistent_with P c nc np = CW true <-> nc = np /\ before P c).
Proof.
  intros NP Nc Perm. unfold consistent_with. destruct (nc =? np) eqn:E.
  - apply Z.eqb_eq in E. rewrite (cw_outer_iff P c NP Nc Perm). tauto.
  - apply Z.eqb_neq in E. rewrite cw_outer_false. split; [discriminate|tauto].
Qed.

(** ... and False otherwise: the function is total and boolean *)
Theorem consistent_with_false_iff P c nc np :
  NoDup (elems P) -> NoDup (elems c) -> Permutation (elems P) (elems c) ->
  (consistent_with P c nc np = CW false <-> ~ (nc = np /\ before P c)).
Proof.
  intros NP Nc Perm. rewrite <- (consistent_with_iff P c nc np NP Nc Perm).
  pose proof (consistent_with_terminates P c nc np) as T.
  destruct (consistent_with P c nc np) as [[|]|]; split; congruence.
Qed.

(** the boolean relation evaluated by the judge is that relation *)
Lemma respects_before P c : respects P c = true <-> before P c.
Proof.
  unfold respects, before, bucket_id, elems. rewrite forallb_forall. split.
  - intros H x y Hx Hy Hlt. specialize (H (x, y) ltac:(apply in_prod; assumption)). cbn [fst snd] in H.
    apply orb_true_iff in H as [H|H]; [apply negb_true_iff, Z.ltb_ge in H; lia|apply Z.ltb_lt; exact H].
  - intros H [x y] Hxy. apply in_prod_iff in Hxy as [Hx Hy]. cbn [fst snd].
    destruct (bid_from 0 P x <? bid_from 0 P y) eqn:E; [|reflexivity]. cbn [negb orb].
    apply Z.ltb_lt. apply H; [assumption|assumption|apply Z.ltb_lt; exact E].
Qed.

Theorem consistent_with_respects P c :
  NoDup (elems P) -> NoDup (elems c) -> Permutation (elems P) (elems c) ->
  consistent_with P c (Z.of_nat (length (elems c))) (Z.of_nat (length (elems P))) = CW (respects P c).
Proof.
  intros NP Nc Perm.
  assert (El : Z.of_nat (length (elems c)) = Z.of_nat (length (elems P))) by (rewrite (Permutation_length Perm); reflexivity).
  destruct (respects P c) eqn:E.
  - apply consistent_with_iff; try assumption. split; [exact El|apply respects_before; exact E].
  - apply consistent_with_false_iff; try assumption. intros [_ Hb]. apply respects_before in Hb. congruence.
Qed.
