(** Property C10 *)
From Corankco Require Import Prelude Scheme SchemeProof Rank KemenySpec Borda PickAPerm.
Local Open Scope Z_scope.

Section Scan.
  Variable one : bool.
  Variable sc : ranking -> Z.

  (** invariant of the scan over a prefix [P] already seen *)
  Definition scan_inv (P : list ranking) (best : option Z) (acc : list ranking) : Prop :=
    match best with
    | None => P = [] /\ acc = []
    | Some m =>
        acc <> [] /\
        (forall r, In r acc -> In r P /\ sc r = m) /\
        (forall r, In r P -> m <= sc r) /\
        (one = false -> forall r, In r P -> sc r = m -> In r acc) /\
        (one = true -> length acc = 1%nat)
    end.

  Lemma pick_scan_inv R : forall P best acc,
    scan_inv P best acc -> scan_inv (P ++ R) (fst (pick_scan one sc R best acc)) (snd (pick_scan one sc R best acc)).
  Proof.
    induction R as [|r R IH]; intros P best acc H; simpl; [rewrite app_nil_r; assumption|].
    replace (P ++ r :: R) with ((P ++ [r]) ++ R) by (rewrite <- app_assoc; reflexivity).
    destruct best as [m|].
    - destruct H as (H0 & H1 & H2 & H3 & H4).
      destruct (sc r <? m) eqn:E1.
      + apply IH. split; [discriminate|]. split; [|split; [|split]].
        * intros x [<-|[]]. split; [apply in_or_app; right; left; reflexivity|reflexivity].
        * intros x Hx. apply in_app_or in Hx as [Hx|[<-|[]]]; [specialize (H2 x Hx); lia|lia].
        * intros _ x Hx Ex. apply in_app_or in Hx as [Hx|[<-|[]]]; [specialize (H2 x Hx); lia|left; reflexivity].
        * reflexivity.
      + destruct ((sc r =? m) && negb one) eqn:E2.
        * apply andb_true_iff in E2 as [E2 E3]. apply negb_true_iff in E3.
          apply IH. split; [destruct acc; discriminate|]. split; [|split; [|split]].
          -- intros x Hx. apply in_app_or in Hx as [Hx|[<-|[]]].
             ++ destruct (H1 x Hx). split; [apply in_or_app; left; assumption|assumption].
             ++ split; [apply in_or_app; right; left; reflexivity|lia].
          -- intros x Hx. apply in_app_or in Hx as [Hx|[<-|[]]]; [auto|lia].
          -- intros _ x Hx Ex. apply in_app_or in Hx as [Hx|[<-|[]]]; apply in_or_app; [left; auto|right; left; reflexivity].
          -- congruence.
        * apply IH. split; [assumption|]. split; [|split; [|split]].
          -- intros x Hx. destruct (H1 x Hx). split; [apply in_or_app; left; assumption|assumption].
          -- intros x Hx. apply in_app_or in Hx as [Hx|[<-|[]]]; [auto|lia].
          -- intros Ho x Hx Ex. apply in_app_or in Hx as [Hx|[<-|[]]]; [auto|].
             rewrite Ho in E2. simpl in E2. rewrite andb_true_r in E2. lia.
          -- assumption.
    - destruct H as [-> ->]. apply IH. split; [discriminate|]. split; [|split; [|split]].
      + intros x [<-|[]]. split; [left; reflexivity|reflexivity].
      + intros x [<-|[]]. lia.
      + intros _ x [<-|[]] _. left; reflexivity.
      + reflexivity.
  Qed.

  Theorem pickaperm_on_spec R :
    R <> [] ->
    exists m out, pickaperm_on one sc R = (Some m, out) /\ out <> [] /\
      (forall r, In r out -> In r R /\ sc r = m) /\
      (forall r, In r R -> m <= sc r) /\
      (one = false -> forall r, In r R -> sc r = m -> In r out) /\
      (one = true -> length out = 1%nat).
  Proof.
    intros HR. pose proof (pick_scan_inv R [] None [] (conj eq_refl eq_refl)) as H. simpl in H.
    unfold pickaperm_on. destruct (pick_scan one sc R None []) as [best out]. simpl in H.
    destruct best as [m|]; [exists m, out; split; [reflexivity|exact H]|].
    destruct H as [H _]. contradiction.
  Qed.
End Scan.

(** at the level of the algorithm *)
Theorem pickaperm_refuses_iff one s D :
  nonneg s ->
  (pickaperm one s D = Err IncompleteIncompatible <-> is_complete D = false /\ ~ equiv_spec 6 s unifying).
Proof.
  intros Hn. unfold pickaperm.
  assert (N : nonneg unifying) by (apply (proj1 (validb_spec _)); reflexivity).
  pose proof (is_equivalent_iff 6 s unifying Hn N) as I. unfold is_equivalent_to.
  destruct (is_complete D); [split; [discriminate|intros [? _]; discriminate]|].
  destruct (is_equivalent_generic 6 s unifying) eqn:E.
  - split; [discriminate|]. intros [_ H]. exfalso. apply H, I. reflexivity.
  - split; [|reflexivity]. intros _. split; [reflexivity|]. intros H. apply I in H. discriminate.
Qed.

Definition pick_inputs (D : dataset) : list ranking := if is_complete D then D else unified_rankings D.

Theorem pickaperm_spec one s D :
  D <> [] -> (is_complete D = true \/ is_equivalent_to s unifying = true) ->
  exists m out, pickaperm one s D = Ok (Some m, out) /\ out <> [] /\
    (forall r, In r out -> In r (pick_inputs D) /\ kemeny_spec s D r = m) /\
    (forall r, In r (pick_inputs D) -> m <= kemeny_spec s D r) /\
    (one = false -> forall r, In r (pick_inputs D) -> kemeny_spec s D r = m -> In r out) /\
    (one = true -> length out = 1%nat).
Proof.
  intros HD H. unfold pickaperm, pick_inputs.
  destruct (is_complete D) eqn:C.
  - destruct (pickaperm_on_spec one (kemeny_spec s D) D HD) as (m & out & E & R). rewrite E. eauto.
  - destruct H as [H|H]; [discriminate|]. rewrite H.
    assert (HU : unified_rankings D <> []) by (unfold unified_rankings; destruct D; [contradiction|discriminate]).
    destruct (pickaperm_on_spec one (kemeny_spec s D) _ HU) as (m & out & E & R). rewrite E. eauto.
Qed.
