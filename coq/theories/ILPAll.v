(** C05, "all optimal consensuses": the optimal feasible points of the non-optimised program (no component row, no no-tie row)
    decode to EXACTLY the optimal rankings with ties - every optimal point decodes to an optimum (ILPProof.ilp_optimal) and every
    optimal ranking is the decoding, up to the listing of the members of a bucket, of an optimal feasible point. *)
From Corankco Require Import Prelude Scheme Rank KemenySpec CostTable OptTheory Partition PartitionProof ILP ILPProof.
Local Open Scope Z_scope.

(** two rankings over 0..n-1 that order and tie the elements alike *)
Definition same_order (n : nat) (r c : ranking) : Prop :=
  forall i j, (i < n)%nat -> (j < n)%nat -> Z.compare (bucket_id r i) (bucket_id r j) = Z.compare (bucket_id c i) (bucket_id c j).

Lemma earlier_nil i j : ~ earlier [] i j.
Proof. intros (P1 & G & P2 & E & _). destruct P1; discriminate. Qed.

(** decoding the encoding of a position function gives back its order *)
Theorem decode_encode n (p : posf) i j : (i < n)%nat -> (j < n)%nat ->
  Z.compare (bucket_id (decode n (v_p p)) i) (bucket_id (decode n (v_p p)) j) = Z.compare (p i) (p j).
Proof.
  intros Hi Hj. destruct (decode_spec n (v_p p)) as [_ Cmp]. rewrite (Cmp i j Hi Hj).
  assert (F : Feas n [] (v_p p)) by (apply encode_Feas; intros a b H; destruct (earlier_nil a b H)).
  destruct (Nat.eq_dec i j) as [->|Ne]; [rewrite !Z.compare_refl; reflexivity|].
  destruct (Z.compare_spec (p i) (p j)) as [E|L|G].
  - apply Z.compare_eq_iff. apply (tied_eq n [] (v_p p) F i j Hi Hj Ne). rewrite v_p_tvar. rewrite E, Z.eqb_refl. reflexivity.
  - apply Z.compare_lt_iff. apply (before_lt n [] (v_p p) F i j Hi Hj Ne). cbn [v_p]. destruct (Z.ltb_spec (p i) (p j)); [reflexivity|lia].
  - apply Z.compare_gt_iff. apply (before_lt n [] (v_p p) F j i Hj Hi ltac:(auto)). cbn [v_p]. destruct (Z.ltb_spec (p j) (p i)); [reflexivity|lia].
Qed.

(** every ranking with ties of 0..n-1 is, up to [same_order], the decoding of a feasible point whose objective is its score *)
Theorem every_ranking_is_decoded K n c : mirror K -> wfU (seq 0 n) c ->
  exists v, feasible n [] v = true /\ obj_value K n v = score K c /\ same_order n (decode n v) c.
Proof.
  intros M W. exists (v_p (bucket_id c)).
  assert (HP : forall i j, earlier [] i j -> bucket_id c i < bucket_id c j) by (intros a b H; destruct (earlier_nil a b H)).
  split; [apply feasible_Feas, encode_Feas; exact HP|]. split.
  - rewrite (encode_obj K n [] (bucket_id c) M HP). symmetry. apply score_on_universe; assumption.
  - intros i j Hi Hj. apply decode_encode; assumption.
Qed.

(** the set of decoded optimal points = the set of optimal rankings *)
Theorem all_optimal_exactly K n : mirror K ->
  (forall v, feasible n [] v = true -> (forall v', feasible n [] v' = true -> obj_value K n v <= obj_value K n v') ->
     wfU (seq 0 n) (decode n v) /\ score K (decode n v) = opt K (seq 0 n)) /\
  (forall c, wfU (seq 0 n) c -> score K c = opt K (seq 0 n) ->
     exists v, feasible n [] v = true /\ (forall v', feasible n [] v' = true -> obj_value K n v <= obj_value K n v') /\
               same_order n (decode n v) c).
Proof.
  intros M. split.
  - intros v Hf Hmin. pose proof Hf as F. apply feasible_Feas in F. destruct (decode_score K n [] v M F) as [W E]. split; [exact W|].
    apply Z.le_antisymm; [|apply opt_lower; try assumption; apply seq_NoDup].
    destruct (opt_attained K (seq 0 n) M (seq_NoDup n 0)) as (c & Wc & _ & Sc).
    destruct (every_ranking_is_decoded K n c M Wc) as (vc & Hfc & Hoc & _).
    rewrite E, <- Sc, <- Hoc. apply Hmin. exact Hfc.
  - intros c W S. destruct (every_ranking_is_decoded K n c M W) as (v & Hf & Ho & So). exists v. split; [exact Hf|]. split; [|exact So].
    intros v' Hf'. rewrite Ho, S. apply feasible_Feas in Hf'. destruct (decode_score K n [] v' M Hf') as [W' E']. rewrite <- E'.
    apply opt_lower; try assumption. apply seq_NoDup.
Qed.
