(** Property C13: Copeland does not depend on which positive multiple of the scheme it is given (the outcome of every duel compares
    two entries of the cost table, both multiplied by the same positive number); [rank_by] only reads the keys of the ids it ranks. *)
From Corankco Require Import Prelude Scheme Rank KemenySpec CostTable GroupSort Copeland Scaling.
Local Open Scope Z_scope.

Section Ext.
  Variables (K : Type) (leb : K -> K -> bool) (k1 k2 : nat -> K).

  Lemma insert_ext x l : (forall y, In y (x :: l) -> k1 y = k2 y) -> insert K leb k1 x l = insert K leb k2 x l.
  Proof.
    induction l as [|y l IH]; intros H; simpl; [reflexivity|].
    rewrite (H x (or_introl eq_refl)), (H y (or_intror (or_introl eq_refl))).
    destruct (leb (k2 y) (k2 x)); [|reflexivity]. f_equal. apply IH.
    intros z [<-|Hz]; apply H; [left; reflexivity|right; right; exact Hz].
  Qed.

  Lemma insert_In x l y : In y (insert K leb k2 x l) -> y = x \/ In y l.
  Proof.
    induction l as [|z l IH]; simpl; [intros [<-|[]]; left; reflexivity|].
    destruct (leb (k2 z) (k2 x)); simpl.
    - intros [<-|H]; [right; left; reflexivity|]. destruct (IH H); [left; assumption|right; right; assumption].
    - intros [<-|H]; [left; reflexivity|right; exact H].
  Qed.

  Lemma sort_fold_ext l : forall acc, (forall y, In y (l ++ acc) -> k1 y = k2 y) ->
    fold_left (fun acc x => insert K leb k1 x acc) l acc = fold_left (fun acc x => insert K leb k2 x acc) l acc.
  Proof.
    induction l as [|x l IH]; intros acc H; simpl; [reflexivity|].
    rewrite (insert_ext x acc).
    - apply IH. intros y Hy. apply H. apply in_app_or in Hy as [Hy|Hy].
      + simpl. right. apply in_or_app. left. exact Hy.
      + apply insert_In in Hy as [->|Hy]; [left; reflexivity|simpl; right; apply in_or_app; right; exact Hy].
    - intros y [<-|Hy]; apply H; [left; reflexivity|simpl; right; apply in_or_app; right; exact Hy].
  Qed.

  Lemma group_head kk y l : exists b r, group K leb kk (y :: l) = (y :: b) :: r.
  Proof.
    simpl. destruct (group K leb kk l) as [|[|z b] r]; [eauto|eauto|].
    destruct (keqb K leb kk y z); eauto.
  Qed.

  Lemma group_ext l : (forall y, In y l -> k1 y = k2 y) -> group K leb k1 l = group K leb k2 l.
  Proof.
    induction l as [|x l IH]; intros H; [reflexivity|].
    assert (IH' : group K leb k1 l = group K leb k2 l) by (apply IH; intros y Hy; apply H; right; exact Hy).
    destruct l as [|y l]; [reflexivity|].
    change (group K leb k1 (x :: y :: l)) with
      (match group K leb k1 (y :: l) with
       | (y' :: b) :: r => if keqb K leb k1 x y' then (x :: y' :: b) :: r else [x] :: (y' :: b) :: r
       | r => [x] :: r end).
    change (group K leb k2 (x :: y :: l)) with
      (match group K leb k2 (y :: l) with
       | (y' :: b) :: r => if keqb K leb k2 x y' then (x :: y' :: b) :: r else [x] :: (y' :: b) :: r
       | r => [x] :: r end).
    rewrite IH'. destruct (group_head k2 y l) as (b & r & E). rewrite E.
    unfold keqb. rewrite (H x (or_introl eq_refl)), (H y (or_intror (or_introl eq_refl))). reflexivity.
  Qed.

  Lemma sort_by_In l : forall acc y, In y (fold_left (fun acc x => insert K leb k2 x acc) l acc) -> In y l \/ In y acc.
  Proof.
    induction l as [|x l IH]; intros acc y H; simpl in *; [right; exact H|].
    destruct (IH _ _ H) as [H'|H']; [left; right; exact H'|].
    apply insert_In in H' as [->|H']; [left; left; reflexivity|right; exact H'].
  Qed.

  Theorem rank_by_ext l : (forall y, In y l -> k1 y = k2 y) -> rank_by leb k1 l = rank_by leb k2 l.
  Proof.
    intros H. unfold rank_by, sort_by. rewrite (sort_fold_ext l []) by (rewrite app_nil_r; exact H).
    apply group_ext. intros y Hy. apply sort_by_In in Hy as [Hy|[]]. apply H. exact Hy.
  Qed.
End Ext.

(** Copeland under a positive multiple of the scheme *)
Lemma outcome_scale k K i j : 0 < k -> outcome (scale_table k K) i j = outcome K i j.
Proof.
  intros Hk. unfold outcome, scale_table, scale3.
  destruct (Nat.ltb i j).
  - destruct (K i j) as [[b a] t]. symmetry. apply Zmult_compare_compat_l. lia.
  - destruct (K j i) as [[b a] t]. symmetry. apply Zmult_compare_compat_l. lia.
Qed.

Lemma outcome_ext K1 K2 i j : K1 i j = K2 i j -> K1 j i = K2 j i -> outcome K1 i j = outcome K2 i j.
Proof. intros H1 H2. unfold outcome. rewrite H1, H2. reflexivity. Qed.

Lemma counts_in_ext K1 K2 i l :
  (forall j, In j l -> outcome K1 i j = outcome K2 i j) -> counts_in K1 i l = counts_in K2 i l.
Proof.
  induction l as [|j l IH]; intros H; simpl; [reflexivity|].
  rewrite IH by (intros j' Hj'; apply H; right; exact Hj'). rewrite (H j (or_introl eq_refl)). reflexivity.
Qed.

Theorem copeland_scale k s D : 0 < k -> copeland (scale_scheme k s) D = copeland s D.
Proof.
  intros Hk. unfold copeland. f_equal. unfold copeland_ids. apply rank_by_ext.
  intros i Hi. apply in_seq in Hi. unfold score2, counts.
  rewrite (counts_in_ext (cost_table (scale_scheme k s) D) (cost_table s D) i); [reflexivity|].
  intros j Hj. apply in_seq in Hj.
  rewrite <- (outcome_scale k (cost_table s D) i j Hk).
  apply outcome_ext; apply cost_table_scale; lia.
Qed.
