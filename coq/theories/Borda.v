(** Model of corankco/algorithms/borda/borda.py and of Dataset.unified_rankings. *)
From Corankco Require Import Prelude Scheme Rank GroupSort.
Local Open Scope Z_scope.

(** [Dataset.unified_rankings]: the missing elements appended as one last bucket, when any *)
Definition missing_of (U : list nat) (r : ranking) : list nat := filter (fun x => negb (mem x (elems r))) U.
Definition unify (U : list nat) (r : ranking) : ranking :=
  match missing_of U r with [] => r | m => r ++ [m] end.
Definition unified_rankings (D : dataset) : list ranking := map (unify (universe D)) D.

Definition is_complete (D : dataset) : bool :=
  let U := universe D in forallb (fun r => forallb (fun x => mem x (elems r)) U) D.

Inductive algo_err := SchemeNotHandled | IncompleteIncompatible | IncompatibleArguments.

Definition borda_relevant (s : scheme) : bool :=
  is_equivalent_to s induced || is_equivalent_to s unifying
  || is_equivalent_to s (induced_p 4000) || is_equivalent_to s (unifying_p 4000).

Definition borda_uses_unified (s : scheme) : bool :=
  is_equivalent_to s unifying || is_equivalent_to s (unifying_p 4000).

(** points of x in r: number of elements strictly before, or bucket index *)
Definition pts (use_bid : bool) (r : ranking) (x : nat) : Z :=
  if use_bid then bucket_id r x else position r x.

(** (sum of points, number of rankings that rank x) *)
Definition borda_sum (use_bid : bool) (R : list ranking) (x : nat) : Z :=
  zsum (map (fun r => if mem x (elems r) then pts use_bid r x else 0) R).
Definition borda_count (R : list ranking) (x : nat) : nat :=
  length (filter (fun r => mem x (elems r)) R).

(** means compared exactly: a/p <= c/q *)
Definition qle (a c : Z * positive) : bool := fst a * Zpos (snd c) <=? fst c * Zpos (snd a).
Definition borda_key (use_bid : bool) (R : list ranking) (x : nat) : Z * positive :=
  (borda_sum use_bid R x, Pos.of_nat (borda_count R x)).

Definition borda_on (use_bid : bool) (R : list ranking) : ranking :=
  rank_by qle (borda_key use_bid R) (universe R).

Definition borda (use_bid : bool) (s : scheme) (D : dataset) : result algo_err ranking :=
  if negb (is_complete D) && negb (borda_relevant s) then Err SchemeNotHandled
  else Ok (borda_on use_bid (if borda_uses_unified s then unified_rankings D else D)).
