(** Proofs about the scoring-scheme model (property C19). *)
From Corankco Require Import Prelude Scheme.
Local Open Scope Z_scope.

(** * Constructor *)

Definition shape (v : pyval) : Prop :=
  exists bs ts, v = PList [PList bs; PList ts] /\ length bs = 6%nat /\ length ts = 6%nat.

Definition all_numbers (l : list pyval) : Prop :=
  Forall (fun p => exists z, num_of p = Some z /\ 0 <= z) l.

Lemma nums_some l zs :
  nums l = Some zs <-> Forall2 (fun p z => num_of p = Some z /\ 0 <= z) l zs.
Proof.
  revert zs; induction l as [|p l IH]; intros zs; simpl.
  - split; intros H; [inversion H; constructor | inversion H; reflexivity].
  - destruct (num_of p) as [z|] eqn:Ep.
    + destruct (z <? 0) eqn:Ez.
      * split; [discriminate|]. intros H; inversion H; subst.
        destruct H2 as [H2 H2']. rewrite Ep in H2. inversion H2; subst. lia.
      * destruct (nums l) as [r|] eqn:Er.
        -- split; intros H.
           ++ inversion H; subst. constructor; [split; [assumption|lia]|]. apply IH; reflexivity.
           ++ inversion H; subst. destruct H2 as [H2 _]. rewrite Ep in H2; inversion H2; subst.
              apply IH in H4. inversion H4; subst; reflexivity.
        -- split; [discriminate|]. intros H; inversion H; subst. apply IH in H4. discriminate.
    + split; [discriminate|]. intros H; inversion H; subst. destruct H2 as [H2 _]. rewrite Ep in H2. discriminate.
Qed.

Lemma nums_some_all l r : nums l = Some r -> all_numbers l.
Proof.
  intros H. apply nums_some in H. induction H as [|p z l zs [Hp Hz] _ IH]; constructor; eauto.
Qed.

Lemma all_nums_some l : all_numbers l -> exists r, nums l = Some r.
Proof.
  induction 1 as [|p l (z & Hp & Hz) _ (r & IH)]; simpl; [eauto|].
  rewrite Hp. destruct (z <? 0) eqn:E; [lia|]. rewrite IH. eauto.
Qed.

Lemma nums_none l : nums l = None <-> ~ all_numbers l.
Proof.
  split.
  - intros H Ha. destruct (all_nums_some l Ha) as [r Hr]. congruence.
  - intros H. destruct (nums l) as [r|] eqn:E; [|reflexivity].
    exfalso; apply H. eapply nums_some_all; eassumption.
Qed.

Lemma length6 {A} (l : list A) : length l = 6%nat ->
  exists x0 x1 x2 x3 x4 x5, l = [x0; x1; x2; x3; x4; x5].
Proof.
  intros H. do 6 (destruct l as [|? l]; [discriminate|]). destruct l; [|discriminate].
  repeat eexists.
Qed.

Lemma of_lists_some zb zt s : of_lists zb zt = Some s <-> zb = Bl s /\ zt = Tl s.
Proof.
  split.
  - intros H. unfold of_lists in H.
    do 6 (destruct zb as [|? zb]; [discriminate|]). destruct zb; [|discriminate].
    do 6 (destruct zt as [|? zt]; [discriminate|]). destruct zt; [|discriminate].
    inversion H; subst; split; reflexivity.
  - intros [-> ->]. destruct s; reflexivity.
Qed.


(** [relations_b] agrees with [relations] on non-negative vectors (the constructor only
    evaluates it after the sign checks). *)
Lemma relations_b_spec s : nonneg s -> (relations_b s = true <-> relations s).
Proof.
  intros Hn. unfold nonneg, Bl, Tl in Hn. simpl in Hn.
  repeat match goal with H : Forall _ (_ :: _) |- _ => inversion H; clear H; subst end.
  unfold relations_b, relations.
  destruct (negb (t0 s =? t1 s) || negb (t3 s =? t4 s) || (b4 s <? b3 s)) eqn:E1;
  [split; [discriminate|intros; lia]|].
  destruct ((0 <? b0 s) || (0 <? t2 s)) eqn:E2; [split; [discriminate|intros; lia]|].
  destruct (b4 s <? b3 s) eqn:E3; [split; [discriminate|intros; lia]|].
  destruct (b1 s =? 0) eqn:E4; [split; [discriminate|intros; lia]|].
  split; [|reflexivity]. intros _. repeat split; lia.
Qed.

Lemma construct_unfold bs ts :
  construct (PList [PList bs; PList ts]) =
  if negb (Nat.eqb (length bs) 6) || negb (Nat.eqb (length ts) 6) then Err InvalidScheme
  else match nums bs with
       | None => Err NonRealPositive
       | Some zb =>
           match nums ts with
           | None => Err NonRealPositive
           | Some zt =>
               match of_lists zb zt with
               | None => Err InvalidScheme
               | Some s => if relations_b s then Ok s else Err ForbiddenAssociation
               end
           end
       end.
Proof. reflexivity. Qed.

Lemma shape_dec v : shape v \/ ~ shape v.
Proof.
  destruct v as [z|b| |l|l]; try (right; intros (bs & ts & H & _); discriminate).
  destruct l as [|a l]; [right; intros (bs & ts & H & _); discriminate|].
  destruct a as [z|b| |bs|bs]; try (right; intros (bs' & ts' & H & _); discriminate).
  destruct l as [|c l]; [right; intros (bs' & ts' & H & _); discriminate|].
  destruct c as [z|b| |ts|ts]; try (right; intros (bs' & ts' & H & _); discriminate).
  destruct l as [|d l]; [|right; intros (bs' & ts' & H & _); discriminate].
  destruct (Nat.eq_dec (length bs) 6) as [E1|E1]; [|right; intros (bs' & ts' & H & L1 & L2); inversion H; subst; contradiction].
  destruct (Nat.eq_dec (length ts) 6) as [E2|E2]; [|right; intros (bs' & ts' & H & L1 & L2); inversion H; subst; contradiction].
  left; exists bs, ts; auto.
Qed.

Lemma construct_not_shape v : ~ shape v -> construct v = Err InvalidScheme.
Proof.
  intros H. destruct v as [z|b| |l|l]; try reflexivity.
  destruct l as [|a l]; [reflexivity|]. destruct a as [z|b| |bs|bs]; try reflexivity.
  destruct l as [|c l]; [reflexivity|]. destruct c as [z|b| |ts|ts]; try reflexivity.
  destruct l as [|d l]; [|reflexivity].
  rewrite construct_unfold.
  destruct (Nat.eqb (length bs) 6) eqn:E1; [|reflexivity].
  destruct (Nat.eqb (length ts) 6) eqn:E2; [|reflexivity].
  exfalso; apply H. exists bs, ts. apply Nat.eqb_eq in E1, E2. auto.
Qed.

Lemma Forall2_length_eq {A B} (R : A -> B -> Prop) l1 l2 : Forall2 R l1 l2 -> length l1 = length l2.
Proof. induction 1; simpl; congruence. Qed.

Lemma Forall2_impl' {A B} (R1 R2 : A -> B -> Prop) l1 l2 :
  (forall a b, R1 a b -> R2 a b) -> Forall2 R1 l1 l2 -> Forall2 R2 l1 l2.
Proof. intros H; induction 1; constructor; auto. Qed.

Lemma nonneg_of_Forall2 l zs :
  Forall2 (fun p z => num_of p = Some z /\ 0 <= z) l zs -> Forall (fun z => 0 <= z) zs.
Proof. induction 1 as [|p z l zs [_ Hz] _ IH]; constructor; assumption. Qed.

(** The constructor, on a well-shaped argument, after the shape test. *)
Lemma construct_shape bs ts :
  length bs = 6%nat -> length ts = 6%nat ->
  construct (PList [PList bs; PList ts]) =
  match nums bs, nums ts with
  | Some zb, Some zt =>
      match of_lists zb zt with
      | Some s => if relations_b s then Ok s else Err ForbiddenAssociation
      | None => Err InvalidScheme
      end
  | _, _ => Err NonRealPositive
  end.
Proof.
  intros H1 H2. rewrite construct_unfold, H1, H2. simpl.
  destruct (nums bs); [|reflexivity]. destruct (nums ts); reflexivity.
Qed.

Lemma nums_lists_scheme bs ts zb zt :
  length bs = 6%nat -> length ts = 6%nat -> nums bs = Some zb -> nums ts = Some zt ->
  exists s, of_lists zb zt = Some s /\ nonneg s.
Proof.
  intros H1 H2 Eb Et. apply nums_some in Eb, Et.
  pose proof (Forall2_length_eq _ _ _ Eb) as Lb. pose proof (Forall2_length_eq _ _ _ Et) as Lt.
  rewrite H1 in Lb. rewrite H2 in Lt.
  destruct (length6 zb (eq_sym Lb)) as (x0&x1&x2&x3&x4&x5&->).
  destruct (length6 zt (eq_sym Lt)) as (y0&y1&y2&y3&y4&y5&->).
  eexists; split; [reflexivity|].
  unfold nonneg. apply Forall_app; split; simpl; eapply nonneg_of_Forall2; eassumption.
Qed.

Definition numeric (bs : list pyval) (zs : list Z) : Prop :=
  Forall2 (fun p z => num_of p = Some z) bs zs.

Theorem construct_ok_iff v s :
  construct v = Ok s <->
  exists bs ts, v = PList [PList bs; PList ts] /\ numeric bs (Bl s) /\ numeric ts (Tl s) /\ valid s.
Proof.
  split.
  - intros H.
    assert (Hs : shape v).
    { destruct (shape_dec v) as [Hs|Hs]; [assumption|].
      rewrite construct_not_shape in H by assumption. discriminate. }
    destruct Hs as (bs & ts & -> & L1 & L2).
    rewrite construct_shape in H by assumption.
    destruct (nums bs) as [zb|] eqn:Eb; [|discriminate].
    destruct (nums ts) as [zt|] eqn:Et; [|discriminate].
    destruct (nums_lists_scheme _ _ _ _ L1 L2 Eb Et) as (s' & Es & Hn).
    rewrite Es in H. destruct (relations_b s') eqn:Er; [|discriminate].
    inversion H; subst s'. apply of_lists_some in Es as [-> ->].
    apply nums_some in Eb, Et.
    exists bs, ts. split; [reflexivity|].
    split; [|split].
    + eapply Forall2_impl'; [|exact Eb]. intros ? ? [? _]; assumption.
    + eapply Forall2_impl'; [|exact Et]. intros ? ? [? _]; assumption.
    + split; [assumption|]. apply relations_b_spec; assumption.
  - intros (bs & ts & -> & Hb & Ht & [Hn Hr]).
    pose proof (Forall2_length_eq _ _ _ Hb) as L1. pose proof (Forall2_length_eq _ _ _ Ht) as L2.
    simpl in L1, L2. rewrite construct_shape by assumption.
    unfold nonneg in Hn. apply Forall_app in Hn as [HnB HnT].
    assert (Eb : nums bs = Some (Bl s)).
    { apply nums_some. clear -Hb HnB. induction Hb; [constructor|].
      inversion HnB; subst. constructor; auto. }
    assert (Et : nums ts = Some (Tl s)).
    { apply nums_some. clear -Ht HnT. induction Ht; [constructor|].
      inversion HnT; subst. constructor; auto. }
    rewrite Eb, Et. assert (Es : of_lists (Bl s) (Tl s) = Some s) by (apply of_lists_some; auto).
    rewrite Es. assert (Er : relations_b s = true).
    { apply relations_b_spec; [unfold nonneg; apply Forall_app; split; assumption|assumption]. }
    rewrite Er. reflexivity.
Qed.

(** which exception: by the first failing rule *)
Theorem construct_invalid_iff v : construct v = Err InvalidScheme <-> ~ shape v.
Proof.
  split; [|apply construct_not_shape].
  intros H (bs & ts & -> & L1 & L2). rewrite construct_shape in H by assumption.
  destruct (nums bs) as [zb|] eqn:Eb; [|discriminate].
  destruct (nums ts) as [zt|] eqn:Et; [|discriminate].
  destruct (nums_lists_scheme _ _ _ _ L1 L2 Eb Et) as (s' & Es & _). rewrite Es in H.
  destruct (relations_b s'); discriminate.
Qed.

Theorem construct_nonreal_iff v :
  construct v = Err NonRealPositive <->
  exists bs ts, v = PList [PList bs; PList ts] /\ length bs = 6%nat /\ length ts = 6%nat /\
                ~ (all_numbers bs /\ all_numbers ts).
Proof.
  split.
  - intros H. destruct (shape_dec v) as [(bs & ts & -> & L1 & L2)|Hs];
      [|rewrite construct_not_shape in H by assumption; discriminate].
    exists bs, ts. repeat split; try assumption.
    rewrite construct_shape in H by assumption. intros [Hb Ht].
    destruct (all_nums_some _ Hb) as [zb Eb]. destruct (all_nums_some _ Ht) as [zt Et].
    rewrite Eb, Et in H.
    destruct (nums_lists_scheme _ _ _ _ L1 L2 Eb Et) as (s' & Es & _). rewrite Es in H.
    destruct (relations_b s'); discriminate.
  - intros (bs & ts & -> & L1 & L2 & Hn). rewrite construct_shape by assumption.
    destruct (nums bs) as [zb|] eqn:Eb; [|reflexivity].
    destruct (nums ts) as [zt|] eqn:Et; [|reflexivity].
    exfalso; apply Hn; split; eapply nums_some_all; eassumption.
Qed.

Theorem construct_forbidden_iff v :
  construct v = Err ForbiddenAssociation <->
  exists bs ts s, v = PList [PList bs; PList ts] /\ numeric bs (Bl s) /\ numeric ts (Tl s) /\
                  nonneg s /\ ~ relations s.
Proof.
  split.
  - intros H. destruct (shape_dec v) as [(bs & ts & -> & L1 & L2)|Hs];
      [|rewrite construct_not_shape in H by assumption; discriminate].
    rewrite construct_shape in H by assumption.
    destruct (nums bs) as [zb|] eqn:Eb; [|discriminate].
    destruct (nums ts) as [zt|] eqn:Et; [|discriminate].
    destruct (nums_lists_scheme _ _ _ _ L1 L2 Eb Et) as (s' & Es & Hn). rewrite Es in H.
    destruct (relations_b s') eqn:Er; [discriminate|].
    apply of_lists_some in Es as [-> ->]. apply nums_some in Eb, Et.
    exists bs, ts, s'. split; [reflexivity|]. repeat split; try assumption.
    + eapply Forall2_impl'; [|exact Eb]. intros ? ? [? _]; assumption.
    + eapply Forall2_impl'; [|exact Et]. intros ? ? [? _]; assumption.
    + intros Hr. apply relations_b_spec in Hr; [congruence|assumption].
  - intros (bs & ts & s & -> & Hb & Ht & Hn & Hr).
    pose proof (Forall2_length_eq _ _ _ Hb) as L1. pose proof (Forall2_length_eq _ _ _ Ht) as L2.
    simpl in L1, L2. rewrite construct_shape by assumption.
    pose proof Hn as Hn'. unfold nonneg in Hn. apply Forall_app in Hn as [HnB HnT].
    assert (Eb : nums bs = Some (Bl s)).
    { apply nums_some. clear -Hb HnB. induction Hb; [constructor|].
      inversion HnB; subst. constructor; auto. }
    assert (Et : nums ts = Some (Tl s)).
    { apply nums_some. clear -Ht HnT. induction Ht; [constructor|].
      inversion HnT; subst. constructor; auto. }
    rewrite Eb, Et. assert (Es : of_lists (Bl s) (Tl s) = Some s) by (apply of_lists_some; auto).
    rewrite Es. destruct (relations_b s) eqn:Er; [|reflexivity].
    exfalso; apply Hr. apply relations_b_spec; assumption.
Qed.

(** the constructor is total over these four outcomes (never another exception) *)
Theorem construct_total v :
  (exists s, construct v = Ok s) \/ construct v = Err InvalidScheme \/
  construct v = Err NonRealPositive \/ construct v = Err ForbiddenAssociation.
Proof.
  destruct (shape_dec v) as [(bs & ts & -> & L1 & L2)|Hs];
    [|right; left; apply construct_not_shape; assumption].
  rewrite construct_shape by assumption.
  destruct (nums bs); [|auto]. destruct (nums ts); [|auto].
  destruct (of_lists l l0); [|auto]. destruct (relations_b s); eauto.
Qed.

Lemma validb_spec s : validb s = true <-> valid s.
Proof.
  unfold validb, valid. rewrite !andb_true_iff, forallb_forall. unfold nonneg. rewrite Forall_forall.
  split.
  - intros [[[[[[H0 H1] H2] H3] H4] H5] H6]. split.
    + intros x Hx. specialize (H0 x Hx). lia.
    + unfold relations. lia.
  - intros [H0 (H1 & H2 & H3 & H4 & H5 & H6)]. repeat split; try lia.
    intros x Hx. specialize (H0 x Hx). lia.
Qed.

(** * Multiplication *)
Lemma numeric_map_PNum l : numeric (map PNum l) l.
Proof. induction l; constructor; auto. Qed.

Lemma construct_to_py s : valid s -> construct (to_py s) = Ok s.
Proof.
  intros H. apply construct_ok_iff. exists (map PNum (Bl s)), (map PNum (Tl s)).
  repeat split; try apply numeric_map_PNum; apply H.
Qed.

Definition scaled (k : Z) (s : scheme) : scheme :=
  mkS (scale k (b0 s)) (scale k (b1 s)) (scale k (b2 s)) (scale k (b3 s)) (scale k (b4 s)) (scale k (b5 s))
      (scale k (t0 s)) (scale k (t1 s)) (scale k (t2 s)) (scale k (t3 s)) (scale k (t4 s)) (scale k (t5 s)).

(** the multiplier keeps the result on the integer grid *)
Definition exact (k : Z) (s : scheme) : Prop := Forall (fun z => (ONE | z * k)) (Bl s ++ Tl s).

Lemma scale_exact k z : (ONE | z * k) -> scale k z * ONE = z * k.
Proof.
  intros [q Hq]. unfold scale. rewrite Hq. rewrite Z.div_mul by (unfold ONE; lia). reflexivity.
Qed.

Theorem mul_valid s k kz :
  valid s -> num_of k = Some kz -> 0 < kz -> exact kz s ->
  mul s k = Ok (scaled kz s) /\ valid (scaled kz s) /\
  (forall i, Bv (scaled kz s) i * ONE = Bv s i * kz) /\
  (forall i, Tv (scaled kz s) i * ONE = Tv s i * kz).
Proof.
  intros [Hn Hr] Hk Hpos Hex.
  unfold exact, Bl, Tl in Hex. simpl in Hex.
  repeat match goal with H : Forall _ (_ :: _) |- _ => inversion H; clear H; subst end.
  unfold nonneg, Bl, Tl in Hn. simpl in Hn.
  repeat match goal with H : Forall _ (_ :: _) |- _ => inversion H; clear H; subst end.
  repeat match goal with H : (ONE | _) |- _ => apply scale_exact in H end.
  destruct Hr as (R0 & R1 & R2 & R3 & R4 & R5).
  assert (HONE : ONE = 8000) by reflexivity.
  assert (V : valid (scaled kz s)).
  { split.
    - unfold nonneg, scaled, Bl, Tl; simpl. repeat constructor; nia.
    - unfold relations, scaled; simpl. repeat split; nia. }
  split; [|split; [exact V|split]].
  - unfold mul. rewrite Hk. apply construct_ok_iff.
    eexists _, _. split; [reflexivity|]. split; [|split; [|exact V]].
    + unfold scaled, Bl; simpl. repeat constructor.
    + unfold scaled, Tl; simpl. repeat constructor.
  - intros i. unfold Bv, Bl, scaled; simpl.
    do 6 (destruct i as [|i]; [simpl; lia|]). destruct i; simpl; lia.
  - intros i. unfold Tv, Tl, scaled; simpl.
    do 6 (destruct i as [|i]; [simpl; lia|]). destruct i; simpl; lia.
Qed.

(** multiplying by zero or a negative number is refused by the constructor,
    a non-number by [ValueError] *)
Theorem mul_nonpositive s k kz :
  valid s -> num_of k = Some kz -> exact kz s ->
  (kz = 0 -> mul s k = Err ForbiddenAssociation) /\
  (kz < 0 -> mul s k = Err NonRealPositive).
Proof.
  intros [Hn Hr] Hk Hex.
  unfold exact, Bl, Tl in Hex. simpl in Hex.
  repeat match goal with H : Forall _ (_ :: _) |- _ => inversion H; clear H; subst end.
  unfold nonneg, Bl, Tl in Hn. simpl in Hn.
  repeat match goal with H : Forall _ (_ :: _) |- _ => inversion H; clear H; subst end.
  repeat match goal with H : (ONE | _) |- _ => apply scale_exact in H end.
  destruct Hr as (R0 & R1 & R2 & R3 & R4 & R5).
  assert (HONE : ONE = 8000) by reflexivity.
  split; intros Hz.
  - unfold mul. rewrite Hk. apply construct_forbidden_iff.
    exists (map (fun z => PNum (scale kz z)) (Bl s)), (map (fun z => PNum (scale kz z)) (Tl s)), (scaled kz s).
    split; [reflexivity|]. split; [|split; [|split]].
    + unfold scaled, Bl; simpl. repeat constructor.
    + unfold scaled, Tl; simpl. repeat constructor.
    + unfold nonneg, scaled, Bl, Tl; simpl. repeat constructor; nia.
    + unfold relations, scaled; simpl. nia.
  - unfold mul. rewrite Hk. rewrite construct_shape by reflexivity.
    assert (E : nums (map (fun z => PNum (scale kz z)) (Bl s)) = None).
    { unfold Bl; simpl. rewrite R0. unfold scale at 1. simpl.
      destruct (scale kz (b1 s) <? 0) eqn:E; [reflexivity|]. nia. }
    rewrite E. reflexivity.
Qed.

Theorem mul_non_number s k : num_of k = None -> mul s k = Err MulValueError.
Proof. intros H; unfold mul; rewrite H; reflexivity. Qed.

(** * Equivalence *)
Definition pairs_nonneg (l : list (Z * Z)) : Prop := forall a b, In (a, b) l -> 0 <= a /\ 0 <= b.

Lemma equiv_scan_some l n d :
  0 < n -> 0 < d -> pairs_nonneg l ->
  (equiv_scan l (Some (n, d)) = true <-> forall a b, In (a, b) l -> a * d = n * b).
Proof.
  intros Hn Hd. induction l as [|[a b] l IH]; intros Hl; simpl.
  - split; [intros _ ? ? []|reflexivity].
  - assert (Hl' : pairs_nonneg l) by (intros x y Hxy; apply Hl; right; assumption).
    destruct (Hl a b (or_introl eq_refl)) as [Ha Hb].
    specialize (IH Hl').
    destruct (a =? 0) eqn:Ea.
    + destruct (b =? 0) eqn:Eb.
      * rewrite IH. split.
        -- intros H x y [E|Hxy]; [inversion E; subst; lia|auto].
        -- intros H x y Hxy; apply H; right; assumption.
      * split; [discriminate|]. intros H. specialize (H a b (or_introl eq_refl)). nia.
    + destruct (b =? 0) eqn:Eb.
      * split; [discriminate|]. intros H. specialize (H a b (or_introl eq_refl)). nia.
      * destruct (a * d =? n * b) eqn:Ec.
        -- rewrite IH. split.
           ++ intros H x y [E|Hxy]; [inversion E; subst; lia|auto].
           ++ intros H x y Hxy; apply H; right; assumption.
        -- split; [discriminate|]. intros H. specialize (H a b (or_introl eq_refl)). lia.
Qed.

Lemma proportional_cons00 l : proportional ((0, 0) :: l) <-> proportional l.
Proof.
  split; intros (p & q & Hp & Hq & H); exists p, q; repeat split; try assumption.
  - intros a b Hab; apply H; right; assumption.
  - intros a b [E|Hab]; [inversion E; lia|auto].
Qed.

Theorem equiv_scan_none l : pairs_nonneg l -> (equiv_scan l None = true <-> proportional l).
Proof.
  induction l as [|[a b] l IH]; intros Hl; simpl.
  - split; [|reflexivity]. intros _. exists 1, 1. repeat split; try lia. intros ? ? [].
  - assert (Hl' : pairs_nonneg l) by (intros x y Hxy; apply Hl; right; assumption).
    destruct (Hl a b (or_introl eq_refl)) as [Ha Hb].
    destruct (a =? 0) eqn:Ea.
    + destruct (b =? 0) eqn:Eb.
      * assert (a = 0) by lia. assert (b = 0) by lia. subst. rewrite proportional_cons00. auto.
      * split; [discriminate|]. intros (p & q & Hp & Hq & H).
        specialize (H a b (or_introl eq_refl)). nia.
    + destruct (b =? 0) eqn:Eb.
      * split; [discriminate|]. intros (p & q & Hp & Hq & H).
        specialize (H a b (or_introl eq_refl)). nia.
      * rewrite equiv_scan_some by (try assumption; lia). split.
        -- intros H. exists b, a. repeat split; try lia.
           intros x y [E|Hxy]; [inversion E; subst; lia|]. specialize (H x y Hxy). lia.
        -- intros (p & q & Hp & Hq & H) x y Hxy.
           pose proof (H a b (or_introl eq_refl)) as H1.
           pose proof (H x y (or_intror Hxy)) as H2.
           apply Z.mul_reg_r with q; [lia|].
           replace (x * b * q) with (x * (q * b)) by lia. rewrite <- H1.
           replace (a * y * q) with (a * (q * y)) by lia. rewrite <- H2. lia.
Qed.

Lemma In_combine_nonneg (l1 l2 : list Z) :
  Forall (fun z => 0 <= z) l1 -> Forall (fun z => 0 <= z) l2 -> pairs_nonneg (combine l1 l2).
Proof.
  intros H1 H2 a b Hab. rewrite Forall_forall in H1, H2.
  split; [apply H1; eapply in_combine_l; eassumption | apply H2; eapply in_combine_r; eassumption].
Qed.

Lemma Forall_firstn {A} (P : A -> Prop) n l : Forall P l -> Forall P (firstn n l).
Proof. revert n; induction l; intros [|n] H; simpl; try constructor; inversion H; subst; auto. Qed.

Lemma entries_nonneg stop s1 s2 : nonneg s1 -> nonneg s2 -> pairs_nonneg (entries stop s1 s2).
Proof.
  unfold nonneg, entries. intros H1 H2. apply Forall_app in H1 as [B1 T1]. apply Forall_app in H2 as [B2 T2].
  intros a b Hab. apply in_app_or in Hab as [Hab|Hab];
    [apply (In_combine_nonneg (firstn stop (Bl s1)) (firstn stop (Bl s2)))
    |apply (In_combine_nonneg (firstn stop (Tl s1)) (firstn stop (Tl s2)))];
    try apply Forall_firstn; assumption.
Qed.

(** Two schemes are reported equivalent exactly when one is a positive multiple of the other
    on both vectors (first [stop] entries). *)
Theorem is_equivalent_iff stop s1 s2 :
  nonneg s1 -> nonneg s2 ->
  (is_equivalent_generic stop s1 s2 = true <-> equiv_spec stop s1 s2).
Proof. intros H1 H2. apply equiv_scan_none. apply entries_nonneg; assumption. Qed.

(** entry-wise form of the specification for the full variant *)
Lemma equiv_spec6 s1 s2 :
  equiv_spec 6 s1 s2 <->
  exists p q, 0 < p /\ 0 < q /\ (forall i, p * Bv s1 i = q * Bv s2 i) /\ (forall i, p * Tv s1 i = q * Tv s2 i).
Proof.
  unfold equiv_spec, proportional, entries, Bl, Tl. simpl. split.
  - intros (p & q & Hp & Hq & H). exists p, q. repeat split; try assumption.
    + intros i. unfold Bv, Bl. do 6 (destruct i as [|i]; [simpl; apply H; simpl; tauto|]).
      destruct i; simpl; lia.
    + intros i. unfold Tv, Tl. do 6 (destruct i as [|i]; [simpl; apply H; simpl; tauto|]).
      destruct i; simpl; lia.
  - intros (p & q & Hp & Hq & HB & HT). exists p, q. repeat split; try assumption.
    intros a b Hab.
    repeat (destruct Hab as [E|Hab];
            [inversion E; subst;
             first [apply (HB 0%nat)|apply (HB 1%nat)|apply (HB 2%nat)|apply (HB 3%nat)|apply (HB 4%nat)|apply (HB 5%nat)
                   |apply (HT 0%nat)|apply (HT 1%nat)|apply (HT 2%nat)|apply (HT 3%nat)|apply (HT 4%nat)|apply (HT 5%nat)]|]).
    destruct Hab.
Qed.

Lemma equiv_spec3 s1 s2 :
  equiv_spec 3 s1 s2 <->
  exists p q, 0 < p /\ 0 < q /\ (forall i, (i < 3)%nat -> p * Bv s1 i = q * Bv s2 i) /\
              (forall i, (i < 3)%nat -> p * Tv s1 i = q * Tv s2 i).
Proof.
  unfold equiv_spec, proportional, entries, Bl, Tl. simpl. split.
  - intros (p & q & Hp & Hq & H). exists p, q. repeat split; try assumption.
    + intros i Hi. unfold Bv, Bl. do 3 (destruct i as [|i]; [simpl; apply H; simpl; tauto|]). lia.
    + intros i Hi. unfold Tv, Tl. do 3 (destruct i as [|i]; [simpl; apply H; simpl; tauto|]). lia.
  - intros (p & q & Hp & Hq & HB & HT). exists p, q. repeat split; try assumption.
    intros a b Hab.
    repeat (destruct Hab as [E|Hab];
            [inversion E; subst;
             first [apply (HB 0%nat); lia|apply (HB 1%nat); lia|apply (HB 2%nat); lia
                   |apply (HT 0%nat); lia|apply (HT 1%nat); lia|apply (HT 2%nat); lia]|]).
    destruct Hab.
Qed.

(** the decidable form used in case files is equivalent to the specification *)
Lemma proportional_b_spec l : pairs_nonneg l -> (proportional_b l = true <-> proportional l).
Proof.
  intros Hl. rewrite <- equiv_scan_none by assumption.
  unfold proportional_b, first_nonzero.
  induction l as [|[a b] l IH]; simpl; [tauto|].
  assert (Hl' : pairs_nonneg l) by (intros x y Hxy; apply Hl; right; assumption).
  destruct (Hl a b (or_introl eq_refl)) as [Ha Hb]. specialize (IH Hl').
  destruct (a =? 0) eqn:Ea; destruct (b =? 0) eqn:Eb; simpl.
  - rewrite <- IH. destruct (find _ l) as [[n d]|]; [|tauto].
    simpl. assert (a = 0) by lia. assert (b = 0) by lia. subst.
    rewrite Z.mul_0_l, Z.mul_0_r. simpl. tauto.
  - split; [|discriminate]. rewrite !andb_true_iff. lia.
  - split; [|discriminate]. rewrite !andb_true_iff. lia.
  - assert (Pa : 0 < a) by lia. assert (Pb : 0 < b) by lia.
    rewrite equiv_scan_some by assumption.
    rewrite !andb_true_iff, forallb_forall. split.
    + intros [_ [_ HH]] x y Hxy. specialize (HH (x, y) Hxy). simpl in HH. lia.
    + intros HH. repeat split; try lia. intros [x y] Hxy. simpl. specialize (HH x y Hxy). lia.
Qed.

(** * Nickname *)
Lemma equiv_zero_pattern s a :
  equiv_spec 6 s a -> forall i, (Bv s i = 0 <-> Bv a i = 0) /\ (Tv s i = 0 <-> Tv a i = 0).
Proof.
  intros H i. apply equiv_spec6 in H as (p & q & Hp & Hq & HB & HT).
  specialize (HB i). specialize (HT i). split; split; intros E; nia.
Qed.

Definition differs (a b : scheme) (i : nat) : bool :=
  xorb (Bv a i =? 0) (Bv b i =? 0) || xorb (Tv a i =? 0) (Tv b i =? 0).

Lemma presets_exclusive s a b i :
  differs a b i = true -> equiv_spec 6 s a -> equiv_spec 6 s b -> False.
Proof.
  intros D Ha Hb. destruct (equiv_zero_pattern s a Ha i) as [A1 A2].
  destruct (equiv_zero_pattern s b Hb i) as [B1 B2]. unfold differs in D.
  destruct (Bv a i =? 0) eqn:E1; destruct (Bv b i =? 0) eqn:E2;
  destruct (Tv a i =? 0) eqn:E3; destruct (Tv b i =? 0) eqn:E4; simpl in D; try discriminate; lia.
Qed.

Theorem nickname_spec s :
  nonneg s ->
  (nickname s = UKSP <-> equiv_spec 6 s unifying) /\
  (nickname s = GPDP <-> equiv_spec 6 s pseudodistance) /\
  (nickname s = IGKS <-> equiv_spec 6 s induced) /\
  (nickname s = EKS <-> equiv_spec 6 s extended) /\
  (nickname s = NoNick <-> ~ equiv_spec 6 s unifying /\ ~ equiv_spec 6 s pseudodistance /\
                           ~ equiv_spec 6 s induced /\ ~ equiv_spec 6 s extended).
Proof.
  intros Hn.
  assert (N1 : nonneg unifying) by (apply (proj1 (validb_spec unifying)); reflexivity).
  assert (N2 : nonneg pseudodistance) by (apply (proj1 (validb_spec pseudodistance)); reflexivity).
  assert (N3 : nonneg induced) by (apply (proj1 (validb_spec induced)); reflexivity).
  assert (N4 : nonneg extended) by (apply (proj1 (validb_spec extended)); reflexivity).
  pose proof (is_equivalent_iff 6 s unifying Hn N1) as I1.
  pose proof (is_equivalent_iff 6 s pseudodistance Hn N2) as I2.
  pose proof (is_equivalent_iff 6 s induced Hn N3) as I3.
  pose proof (is_equivalent_iff 6 s extended Hn N4) as I4.
  pose proof (presets_exclusive s unifying pseudodistance 5 eq_refl) as X12.
  pose proof (presets_exclusive s unifying induced 5 eq_refl) as X13.
  pose proof (presets_exclusive s unifying extended 2 eq_refl) as X14.
  pose proof (presets_exclusive s pseudodistance induced 4 eq_refl) as X23.
  pose proof (presets_exclusive s pseudodistance extended 2 eq_refl) as X24.
  pose proof (presets_exclusive s induced extended 2 eq_refl) as X34.
  unfold nickname, is_equivalent_to.
  set (P1 := equiv_spec 6 s unifying) in *. set (P2 := equiv_spec 6 s pseudodistance) in *.
  set (P3 := equiv_spec 6 s induced) in *. set (P4 := equiv_spec 6 s extended) in *.
  clearbody P1 P2 P3 P4.
  destruct (is_equivalent_generic 6 s unifying) eqn:E1.
  { assert (A : P1) by (apply I1; reflexivity).
    split; [split; auto|]. split; [split; [discriminate|intros; exfalso; auto]|].
    split; [split; [discriminate|intros; exfalso; auto]|].
    split; [split; [discriminate|intros; exfalso; auto]|].
    split; [discriminate|]. intros [B _]; contradiction. }
  assert (A1 : ~ P1) by (intros A; apply I1 in A; discriminate).
  destruct (is_equivalent_generic 6 s pseudodistance) eqn:E2.
  { assert (A : P2) by (apply I2; reflexivity).
    split; [split; [discriminate|intros; exfalso; auto]|].
    split; [split; auto|].
    split; [split; [discriminate|intros; exfalso; auto]|].
    split; [split; [discriminate|intros; exfalso; auto]|].
    split; [discriminate|]. intros [_ [B _]]; contradiction. }
  assert (A2 : ~ P2) by (intros A; apply I2 in A; discriminate).
  destruct (is_equivalent_generic 6 s induced) eqn:E3.
  { assert (A : P3) by (apply I3; reflexivity).
    split; [split; [discriminate|intros; exfalso; auto]|].
    split; [split; [discriminate|intros; exfalso; auto]|].
    split; [split; auto|].
    split; [split; [discriminate|intros; exfalso; auto]|].
    split; [discriminate|]. intros [_ [_ [B _]]]; contradiction. }
  assert (A3 : ~ P3) by (intros A; apply I3 in A; discriminate).
  destruct (is_equivalent_generic 6 s extended) eqn:E4.
  { assert (A : P4) by (apply I4; reflexivity).
    split; [split; [discriminate|intros; exfalso; auto]|].
    split; [split; [discriminate|intros; exfalso; auto]|].
    split; [split; [discriminate|intros; exfalso; auto]|].
    split; [split; auto|].
    split; [discriminate|]. intros [_ [_ [_ B]]]; contradiction. }
  assert (A4 : ~ P4) by (intros A; apply I4 in A; discriminate).
  split; [split; [discriminate|intros; exfalso; auto]|].
  split; [split; [discriminate|intros; exfalso; auto]|].
  split; [split; [discriminate|intros; exfalso; auto]|].
  split; [split; [discriminate|intros; exfalso; auto]|].
  split; auto.
Qed.

(** * The unchanged code (finding F12): reading vector B only is not the documented relation *)
Theorem legacy_equivalence_refuted :
  exists s1 s2, valid s1 /\ valid s2 /\ is_equivalent_generic_legacy 6 s1 s2 = true /\ ~ equiv_spec 6 s1 s2.
Proof.
  exists unifying, (mkS 0 ONE ONE 0 ONE ONE (2*ONE) (2*ONE) 0 (3*ONE) (3*ONE) 0).
  split; [apply validb_spec; reflexivity|]. split; [apply validb_spec; reflexivity|].
  split; [reflexivity|].
  intros H. apply equiv_spec6 in H as (p & q & Hp & Hq & HB & HT).
  pose proof (HB 1%nat) as B1. pose proof (HT 0%nat) as T0.
  unfold Bv, Tv, Bl, Tl, unifying, unifying_p in *; simpl in *. unfold ONE in *. lia.
Qed.

(** non-vacuity: concrete schemes meeting the hypotheses of the theorems above *)
Definition odd_scheme := mkS 0 4000 1000 2000 6000 16000 1000 1000 0 12000 12000 3000.
Example valid_examples :
  valid unifying /\ valid induced /\ valid extended /\ valid pseudodistance /\ valid odd_scheme.
Proof. repeat split; try (apply validb_spec; reflexivity). Qed.
Example equiv_examples :
  is_equivalent_to (unifying_p 4000) (mkS 0 16000 8000 0 16000 8000 8000 8000 0 8000 8000 0) = true /\
  is_equivalent_to unifying (unifying_p 4000) = false /\
  is_equivalent_to_on_complete unifying pseudodistance = true /\
  nickname (mkS 0 24000 24000 0 0 0 24000 24000 0 0 0 0) = IGKS /\ nickname odd_scheme = NoNick.
Proof. repeat split. Qed.
Example mul_example :
  exact 12000 odd_scheme /\ mul odd_scheme (PNum 12000) = Ok (scaled 12000 odd_scheme) /\
  scaled 12000 odd_scheme = mkS 0 6000 1500 3000 9000 24000 1500 1500 0 18000 18000 4500.
Proof.
  split; [|split; reflexivity].
  unfold exact, odd_scheme, Bl, Tl; simpl.
  repeat constructor; match goal with |- (ONE | ?x) => exists (x / ONE); reflexivity end.
Qed.
Example construct_examples :
  construct (PList [PList [PNum 0; PBool true; PNum 0; PNum 0; PNum 0; PNum 0];
                    PList [PNum 8000; PNum 8000; PBool false; PNum 8000; PNum 8000; PNum 8000]]) = Ok extended /\
  construct (PTuple []) = Err InvalidScheme /\
  construct (PList [PList [PNum 0; POther; PNum 0; PNum 0; PNum 0; PNum 0]; PList (map PNum (Tl extended))]) = Err NonRealPositive /\
  construct (to_py (mkS 0 0 0 0 0 0 0 0 0 0 0 0)) = Err ForbiddenAssociation.
Proof. repeat split. Qed.
