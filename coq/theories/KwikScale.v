(** Property C11: KwikSort's placement of an element relative to the pivot compares three costs that are linear in the scheme:
    under a positive multiple of the scheme every placement, hence (for the same pivot choices) the whole consensus, is unchanged. *)
From Corankco Require Import Prelude Scheme Rank KemenySpec KwikSort Scaling.
Local Open Scope Z_scope.

Lemma leb_scale k a b : 0 < k -> (k * a <=? k * b) = (a <=? b).
Proof.
  intros Hk. destruct (a <=? b) eqn:E.
  - apply Z.leb_le. apply Z.leb_le in E. nia.
  - apply Z.leb_gt. apply Z.leb_gt in E. nia.
Qed.

Theorem where_should_scale k s pp po : 0 < k -> where_should (scale_scheme k s) pp po = where_should s pp po.
Proof.
  intros Hk. unfold where_should, scale_scheme. cbn [b0 b1 b2 b3 b4 b5 t0 t1 t2 t3 t4 t5].
  set (c5 := count2 (fun p o => p + o =? -2) pp po).
  set (sm := count2 (fun p o => p =? o) pp po).
  set (pm := count2 (fun p _ => p =? -1) pp po).
  set (om := count2 (fun _ o => o =? -1) pp po).
  set (ob := count2 (fun p o => o <? p) pp po).
  set (m := Z.of_nat (length pp)).
  set (c0 := ob - om + c5). set (c1 := m - ob - sm - pm + c5). set (c2 := sm - c5). set (c3 := pm - c5). set (c4 := om - c5).
  replace (k * b0 s * c0 + k * b1 s * c1 + k * b2 s * c2 + k * b3 s * c3 + k * b4 s * c4 + k * b5 s * c5)
    with (k * (b0 s * c0 + b1 s * c1 + b2 s * c2 + b3 s * c3 + b4 s * c4 + b5 s * c5)) by ring.
  replace (k * t0 s * c0 + k * t1 s * c1 + k * t2 s * c2 + k * t3 s * c3 + k * t4 s * c4 + k * t5 s * c5)
    with (k * (t0 s * c0 + t1 s * c1 + t2 s * c2 + t3 s * c3 + t4 s * c4 + t5 s * c5)) by ring.
  replace (k * b0 s * c1 + k * b1 s * c0 + k * b2 s * c2 + k * b3 s * c4 + k * b4 s * c3 + k * b5 s * c5)
    with (k * (b0 s * c1 + b1 s * c0 + b2 s * c2 + b3 s * c4 + b4 s * c3 + b5 s * c5)) by ring.
  rewrite !(leb_scale k) by exact Hk. reflexivity.
Qed.

Section Ext.
  Variables w1 w2 : nat -> nat -> Z.
  Hypothesis E : forall p o, w1 p o = w2 p o.

  Lemma part_ext pivot rem k : part w1 pivot rem k = part w2 pivot rem k.
  Proof. unfold part. apply filter_ext. intros e. rewrite E. reflexivity. Qed.

  Lemma kwik_ext fuel : forall script rem, kwik w1 fuel script rem = kwik w2 fuel script rem.
  Proof.
    induction fuel as [|f IH]; intros script rem; [reflexivity|].
    assert (S : forall sc l, sub (kwik w1 f) sc l = sub (kwik w2 f) sc l)
      by (intros sc [|x [|y l]]; simpl; [reflexivity|reflexivity|apply IH]).
    cbn [kwik]. destruct rem as [|r0 rem]; [reflexivity|].
    rewrite !part_ext, S. destruct (sub (kwik w2 f) _ _) as [[cb sc2]|]; [|reflexivity].
    rewrite S. reflexivity.
  Qed.
End Ext.

Theorem kwiksort_scale k s D U0 script : 0 < k -> kwiksort (scale_scheme k s) D U0 script = kwiksort s D U0 script.
Proof.
  intros Hk. unfold kwiksort.
  rewrite (kwik_ext (kwik_w (scale_scheme k s) D) (kwik_w s D)); [reflexivity|].
  intros p o. unfold kwik_w. apply where_should_scale. exact Hk.
Qed.
