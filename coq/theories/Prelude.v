(** Common imports and small list utilities shared by every model file.
    Stdlib only, so that [Print Assumptions] stays closed. *)
From Coq Require Export ZArith List Bool Arith Lia Permutation.
From Coq Require Export ZifyBool.
Export ListNotations.

(** One penalty unit of the Python library (the float [1.0]) is [ONE] model units:
    the correspondence harness only feeds penalties that are integer multiples of 1/8000,
    so that the hard-coded [0.001] thresholds are [8] units and every float sum is exact. *)
Definition ONE : Z := 8000.
Definition THR : Z := 8.

Inductive result (E A : Type) : Type :=
| Ok (a : A)
| Err (e : E).
Arguments Ok {E A} a.
Arguments Err {E A} e.

Definition zsum (l : list Z) : Z := fold_right Z.add 0%Z l.

Lemma zsum_app l1 l2 : zsum (l1 ++ l2) = (zsum l1 + zsum l2)%Z.
Proof. induction l1 as [|a l1 IH]; simpl; lia. Qed.

Lemma zsum_map_scale {A} (f g : A -> Z) (a b : Z) (l : list A) :
  (forall x, In x l -> (f x * a = g x * b)%Z) ->
  (zsum (map f l) * a = zsum (map g l) * b)%Z.
Proof.
  induction l as [|x l IH]; simpl; intros H; [lia|].
  rewrite Z.mul_add_distr_r, (H x), IH by auto. lia.
Qed.

Lemma zsum_nonneg l : (forall x, In x l -> 0 <= x)%Z -> (0 <= zsum l)%Z.
Proof.
  induction l as [|a l IH]; simpl; intros H; [lia|].
  specialize (H a (or_introl eq_refl)) as Ha.
  assert (0 <= zsum l)%Z by (apply IH; intros; apply H; auto). lia.
Qed.

(** positions at which a boolean list is [true] (case-file reporting) *)
Fixpoint true_idx_from (i : nat) (l : list bool) : list nat :=
  match l with
  | [] => []
  | b :: l' => if b then i :: true_idx_from (S i) l' else true_idx_from (S i) l'
  end.
Definition false_idx (l : list bool) : list nat := true_idx_from 0 (map negb l).

Definition list_eqb {A} (eqb : A -> A -> bool) : list A -> list A -> bool :=
  fix go l1 l2 :=
    match l1, l2 with
    | [], [] => true
    | a :: l1', b :: l2' => eqb a b && go l1' l2'
    | _, _ => false
    end.

Lemma list_eqb_spec {A} (eqb : A -> A -> bool) :
  (forall a b, eqb a b = true <-> a = b) ->
  forall l1 l2, list_eqb eqb l1 l2 = true <-> l1 = l2.
Proof.
  intros H; induction l1 as [|a l1 IH]; destruct l2 as [|b l2]; simpl; split; intros E;
    try reflexivity; try discriminate.
  - apply andb_true_iff in E as [E1 E2]. apply H in E1. apply IH in E2. congruence.
  - inversion E; subst. apply andb_true_iff; split; [apply H | apply IH]; reflexivity.
Qed.

Lemma NoDup_app_inv {A} (l1 l2 : list A) :
  NoDup (l1 ++ l2) -> NoDup l1 /\ NoDup l2 /\ (forall x, In x l1 -> ~ In x l2).
Proof.
  induction l1 as [|a l1 IH]; simpl; intros H.
  - repeat split; [constructor|assumption|intros ? []].
  - inversion H as [|? ? Hn Hd]; subst. destruct (IH Hd) as (H1 & H2 & H3).
    repeat split; [constructor; [intros Hin; apply Hn; apply in_or_app; auto|assumption]|assumption|].
    intros x [<-|Hx] Hx2; [apply Hn; apply in_or_app; auto|exact (H3 x Hx Hx2)].
Qed.

Lemma NoDup_app_intro {A} (l1 l2 : list A) :
  NoDup l1 -> NoDup l2 -> (forall x, In x l1 -> ~ In x l2) -> NoDup (l1 ++ l2).
Proof.
  induction l1 as [|a l1 IH]; simpl; intros H1 H2 H3; [assumption|].
  inversion H1; subst. constructor.
  - intros Hin. apply in_app_or in Hin as [Hin|Hin]; [contradiction|]. exact (H3 a (or_introl eq_refl) Hin).
  - apply IH; auto.
Qed.
