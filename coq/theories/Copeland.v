(** Model of corankco/algorithms/copeland/copeland.py *)
From Corankco Require Import Prelude Scheme Rank KemenySpec CostTable GroupSort.
Local Open Scope Z_scope.

(** [_fill_dicts_copeland] looks at the upper triangle only: for el1 < el2,
    before < after gives a victory to el1, after < before to el2, equality half a point each. *)
Definition outcome (K : table) (i j : nat) : comparison :=
  if Nat.ltb i j then let '(b, a, _) := K i j in Z.compare b a
  else let '(b, a, _) := K j i in Z.compare a b.

(** (victories, equalities, defeats) of id [i] against the ids of [l] other than itself *)
Fixpoint counts_in (K : table) (i : nat) (l : list nat) : Z * Z * Z :=
  match l with
  | [] => (0, 0, 0)
  | j :: l' =>
      let '(v, e, d) := counts_in K i l' in
      if Nat.eqb i j then (v, e, d)
      else match outcome K i j with
           | Lt => (v + 1, e, d)
           | Eq => (v, e + 1, d)
           | Gt => (v, e, d + 1)
           end
  end.
Definition counts (K : table) (n i : nat) : Z * Z * Z := counts_in K i (seq 0 n).

(** Copeland score in half points *)
Definition score2 (K : table) (n i : nat) : Z := let '(v, e, _) := counts K n i in 2 * v + e.

Definition geb (a b : Z) : bool := b <=? a.

(** ids by decreasing score, equal scores tied *)
Definition copeland_ids (K : table) (n : nat) : ranking := rank_by geb (score2 K n) (seq 0 n).

Definition decode (U : list nat) (r : ranking) : ranking := map (map (fun i => nth i U 0%nat)) r.

Definition copeland (s : scheme) (D : dataset) : ranking :=
  let U := universe D in decode U (copeland_ids (cost_table s D) (length U)).
