(** Property C04 — the Kemeny score a consensus reports is the true score of each returned ranking.
    Status (PARTIAL): proved — the true score is never negative (so the [-1.] sentinel is never a score),
    PickAPerm's reported minimum is the score of every ranking it returns, the definitional cost table sums
    to the score (what the solver objective and BioConsert's bookkeeping are built on).  Judged per run in
    Coq for every algorithm and both values of return_at_most_one_ranking: reported score present, equal to
    [kemeny_spec] of EVERY returned ranking. *)
From Corankco Require Import Prelude Scheme SchemeProof Rank KemenySpec CostTable CostTableProof Borda PickAPerm PickAPermProof.
Local Open Scope Z_scope.

Theorem C04_score_nonneg : forall s D c, nonneg s -> 0 <= kemeny_spec s D c.
Proof. exact kemeny_spec_nonneg. Qed.
Print Assumptions C04_score_nonneg.

Theorem C04_pickaperm_reported_score : forall one s D,
  D <> [] -> (is_complete D = true \/ is_equivalent_to s unifying = true) ->
  exists m out, pickaperm one s D = Ok (Some m, out) /\ out <> [] /\
    (forall r, In r out -> In r (pick_inputs D) /\ kemeny_spec s D r = m) /\
    (forall r, In r (pick_inputs D) -> m <= kemeny_spec s D r) /\
    (one = false -> forall r, In r (pick_inputs D) -> kemeny_spec s D r = m -> In r out) /\
    (one = true -> length out = 1%nat).
Proof. exact pickaperm_spec. Qed.
Print Assumptions C04_pickaperm_reported_score.

Theorem C04_table_sums_to_score : forall s D c,
  valid s -> wf_ranking c -> incl (elems c) (universe D) ->
  score (table_on (universe D) (cost_table s D)) c = kemeny_spec s D c.
Proof. exact cost_table_sums_to_kemeny. Qed.
Print Assumptions C04_table_sums_to_score.
