(** Property C04 — the Kemeny score a consensus reports is the true score of each returned ranking.
    Status: proved for each way a score is produced — the score computed on demand by the
    Consensus object is the definition (C01's main theorem), the solver objective of the exact algorithm is
    the score of the decoded ranking (C05's formulation theorem), PickAPerm's reported minimum is the score
    of every ranking it returns, the true score is never negative (so the [-1.] sentinel is never a score),
    the definitional cost table sums to the score, BioConsert's bookkeeping (initial score + accumulated
    deltas) is the true score of the vector it returns ([C04_bioconsert_bookkeeping]).  Judged per run in Coq for every algorithm and both values of
    return_at_most_one_ranking: reported score present, equal to [kemeny_spec] of EVERY returned ranking. *)
From Corankco Require Import Prelude Scheme SchemeProof Rank KemenySpec CostTable CostTableProof Borda PickAPerm PickAPermProof KemenyImpl KemenyCount OptTheory PartitionProof ILP ILPProof Markov BioConsert Judge.JBio BioMoves BioLoop BioAlgo.
Local Open Scope Z_scope.

Theorem C04_score_nonneg : forall s D c, nonneg s -> 0 <= kemeny_spec s D c.
Proof. exact kemeny_spec_nonneg. Qed.
Print Assumptions C04_score_nonneg.

Theorem C04_pickaperm_reported_score : forall one s D,
  D <> [] -> (is_complete D = true \/ is_equivalent_to s unifying = true) ->
  exists m out, pickaperm one s D = Ok (Some m, out) /\ out <> [] /\
    (forall r, In r out -> In r (pick_inputs D) /\ kemeny_spec s D r = m) /\
    (forall r, In r (pick_inputs D) -> m <= kemeny_spec s D r) /\
    (one = false -> forall r, In r (pick_inputs D) -> kemeny_spec s D r = m -> In r out) /\
    (one = true -> length out = 1%nat).
Proof. exact pickaperm_spec. Qed.
Print Assumptions C04_pickaperm_reported_score.

Theorem C04_table_sums_to_score : forall s D c,
  valid s -> wf_ranking c -> incl (elems c) (universe D) ->
  score (table_on (universe D) (cost_table s D)) c = kemeny_spec s D c.
Proof. exact cost_table_sums_to_kemeny. Qed.
Print Assumptions C04_table_sums_to_score.

(** the score computed on demand (Consensus.kemeny_score -> KemenyComputingFactory) is the definition *)
Theorem C04_on_demand_score : forall s D c,
  relations s -> NoDup (elems c) ->
  (forall r, In r D -> NoDup (elems r)) ->
  (forall r x, In r D -> ranked r x -> ranked c x) ->
  get_kemeny_score s D c = Ok (kemeny_spec s D c).
Proof. exact get_kemeny_score_correct. Qed.
Print Assumptions C04_on_demand_score.

(** the objective value that the exact algorithm reports is the score of the ranking it decodes *)
Theorem C04_solver_objective : forall s D n P v,
  valid s -> Feas n P v ->
  kemeny_spec s D (decode n v) = obj_value (cost_spec s D) n v.
Proof.
  intros s D n P v Hv F. rewrite <- score_cost_spec.
  exact (proj2 (decode_score (cost_spec s D) n P v (cost_spec_mirror' s D Hv) F)).
Qed.
Print Assumptions C04_solver_objective.

(** BioConsert: the score recorded for a departure (initial score + accumulated deltas) is the score of the vector
    the local search returns, and the reported score is the score of every returned vector *)
Theorem C04_bioconsert_bookkeeping : forall fuel one s D deps sc rs,
  valid s ->
  let U := universe D in let n := length U in let K := cost_table s D in
  (0 < n)%nat -> deps <> [] -> Forall (fun d => exists m, DenseTo n d m) deps ->
  bioconsert_on fuel one s D deps = Some (sc, rs) ->
  forall c, In c rs -> exists v m, c = decode_vec U v /\ DenseTo n v m /\ score_vec K n v = sc.
Proof.
  intros fuel one s D deps sc rs Hv U n K Hn Hne HDs E c Hc.
  destruct (bioconsert_on_spec fuel one s D deps sc rs Hv Hn Hne HDs E) as (_ & _ & _ & H).
  destruct (H c Hc) as (v & m & E1 & E2 & E3 & _). exists v, m. split; [exact E1|]. split; [exact E2|exact E3].
Qed.
Print Assumptions C04_bioconsert_bookkeeping.
