(** Property C18 — text / file round trips; parser totality.
    Status: totality is proved for every string.  The round-trip statement
      [from_string (ws ++ prefix ++ render r ++ ws') = POk r]  (reserved name C18_roundtrip_string)
    and [read_text (write_text d) = POk d] (reserved name C18_roundtrip_file) are, in this version,
    decided by the correspondence check only (the model's own parser and printer are evaluated on every
    generated ranking / dataset next to the library's). *)
From Corankco Require Import Prelude Parser ParserProof.
From Coq Require Import Ascii String.
Local Open Scope Z_scope.

(** any text is either parsed or refused with ValueError: the scanner loop never runs out of fuel *)
Theorem C18_parse_never_hangs : forall raw, parse raw <> PHang.
Proof. exact parse_never_hangs. Qed.
Print Assumptions C18_parse_never_hangs.

Theorem C18_from_string_total : forall raw,
  (exists r, from_string raw = POk r) \/ from_string raw = PValueError.
Proof. exact from_string_total. Qed.
Print Assumptions C18_from_string_total.

Theorem C18_read_text_total : forall text,
  (exists d, read_text text = POk d) \/ read_text text = PValueError.
Proof. exact read_text_total. Qed.
Print Assumptions C18_read_text_total.

(** tests (not theorems about all inputs): concrete round trips evaluated in the model *)
Example C18_roundtrip_examples :
  let r1 := [[NInt 3; NInt 12]; [NInt 0]] in
  let r2 := [[NStr (list_ascii_of_string "a b")]; [NStr (list_ascii_of_string "c1"); NStr (list_ascii_of_string "-")]] in
  from_string (list_ascii_of_string " name : " ++ render "{"%char "}"%char r1 ++ list_ascii_of_string "  ") = POk r1 /\
  from_string (render "["%char "]"%char r2) = POk r2 /\
  read_text (write_text [r1; []; r1]) = POk [r1; []; r1] /\
  from_string (list_ascii_of_string "[{1}, {1}]") = PValueError /\
  from_string (list_ascii_of_string "[{1}, ]x") = PValueError.
Proof. vm_compute. repeat split. Qed.
