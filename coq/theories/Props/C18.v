(** Property C18 — text / file round trips; parser totality.
    Status: proved on the model.  Totality: every string is parsed or refused with ValueError, the scanner loop
    never runs out of fuel.  Round trips: for every printable ranking (non-empty disjoint buckets of non-negative
    integers, or of strings without the delimiters [ ] { } , : and without white space at either end that are not
    all digits), [from_string] applied to its textual form - in brace or bracket notation, between any white
    space, after any prefix ending with a colon - gives the ranking back ([C18_roundtrip_string],
    [C18_roundtrip_string_prefixed]); for every dataset of such rankings (all integers, or all strings that
    Python's int() refuses, no newline inside a name) reading the text written for it gives the dataset back
    ([C18_roundtrip_file]).  The model's parser and printer follow utils.py / ranking.py index for index
    (find / rfind / slices with Python's clamping) and are compared with the library on every string of
    length <= 4 (5) over the format alphabet and on generated rankings / datasets. *)
From Corankco Require Import Prelude Parser ParserProof RoundTrip.
From Coq Require Import Ascii String Lia.
Local Open Scope Z_scope.

(** any text is either parsed or refused with ValueError: the scanner loop never runs out of fuel *)
Theorem C18_parse_never_hangs : forall raw, parse raw <> PHang.
Proof. exact parse_never_hangs. Qed.
Print Assumptions C18_parse_never_hangs.

Theorem C18_from_string_total : forall raw,
  (exists r, from_string raw = POk r) \/ from_string raw = PValueError.
Proof. exact from_string_total. Qed.
Print Assumptions C18_from_string_total.

Theorem C18_read_text_total : forall text,
  (exists d, read_text text = POk d) \/ read_text text = PValueError.
Proof. exact read_text_total. Qed.
Print Assumptions C18_read_text_total.

(** the round trip through a string *)
Theorem C18_roundtrip_string : forall opn cls r w1 w2,
  delims opn cls -> printable r -> all_ws w1 -> all_ws w2 ->
  from_string (w1 ++ render opn cls r ++ w2) = POk r.
Proof. exact roundtrip_string. Qed.
Print Assumptions C18_roundtrip_string.

Theorem C18_roundtrip_string_prefixed : forall opn cls r A w3 w2,
  delims opn cls -> printable r -> all_ws w3 -> all_ws w2 ->
  from_string (A ++ ":"%char :: w3 ++ render opn cls r ++ w2) = POk r.
Proof. exact roundtrip_string_prefixed. Qed.
Print Assumptions C18_roundtrip_string_prefixed.

(** the round trip through a file *)
Theorem C18_roundtrip_file : forall d, file_dataset d -> read_text (write_text d) = POk d.
Proof. exact roundtrip_file. Qed.
Print Assumptions C18_roundtrip_file.

(** non-vacuity: the hypotheses are met by rankings of integers, by rankings of strings (with an inner blank,
    with digits inside), by the empty ranking, and by datasets containing an empty ranking *)
Lemma gstr_intro s : s <> [] -> forallb (fun c => negb (forbidden c)) s = true ->
  is_ws (hd " "%char s) = false -> is_ws (last s " "%char) = false -> gstr s.
Proof.
  intros Hne H1 H2 H3. split; [exact H1|]. split.
  - destruct s as [|c t]; [contradiction|]. exists c, t. split; [reflexivity|exact H2].
  - destruct (exists_last Hne) as (t & c & E). exists t, c. split; [exact E|]. rewrite E, last_last in H3. exact H3.
Qed.
Ltac okn := first [ (apply ok_int; lia) | (apply ok_str; [apply gstr_intro; [discriminate|reflexivity|reflexivity|reflexivity]|reflexivity]) ].
Ltac okr := unfold okranking; repeat (first [apply Forall_cons | apply Forall_nil | split | discriminate | okn ]).
Ltac nd := repeat (first [apply NoDup_nil | (apply NoDup_cons; [cbn; intuition discriminate|])]).
Ltac allk := intros b x Hb Hx; cbn in Hb; repeat (destruct Hb as [<-|Hb]; [cbn in Hx; repeat (destruct Hx as [<-|Hx]; [eexists; reflexivity|]); destruct Hx|]); destruct Hb.
Ltac fd_rank := split; [okr|]; split; [cbn; nd|]; repeat (first [apply Forall_cons | apply Forall_nil | exact I | (cbn; intros [H|[]]; discriminate) | (cbn; intuition discriminate)]).
Ltac allk3 := intros r b x Hr Hb Hx; cbn in Hr; repeat (destruct Hr as [<-|Hr]; [cbn in Hb; repeat (destruct Hb as [<-|Hb]; [cbn in Hx; repeat (destruct Hx as [<-|Hx]; [eexists; try split; reflexivity|]); destruct Hx|]); destruct Hb|]); destruct Hr.

Example C18_printable_ints : printable [[NInt 3; NInt 12]; [NInt 0]].
Proof. split; [okr|]. split; [left; allk|cbn; nd]. Qed.
Example C18_printable_strs :
  printable [[NStr (list_ascii_of_string "a b")]; [NStr (list_ascii_of_string "c1"); NStr (list_ascii_of_string "-")]].
Proof. split; [okr|]. split; [right; allk|cbn; nd]. Qed.
Example C18_printable_empty : printable [].
Proof. split; [okr|]. split; [left; intros b x []|cbn; nd]. Qed.
Example C18_file_dataset_ints : file_dataset [[[NInt 3; NInt 12]; [NInt 0]]; []; [[NInt 7]]].
Proof. split; [repeat (first [apply Forall_nil | (apply Forall_cons; [fd_rank|])])|left; allk3]. Qed.
Example C18_file_dataset_strs :
  file_dataset [[[NStr (list_ascii_of_string "a b")]]; [[NStr (list_ascii_of_string "x")]; [NStr (list_ascii_of_string "a b")]]].
Proof. split; [repeat (first [apply Forall_nil | (apply Forall_cons; [fd_rank|])])|right; allk3]. Qed.


(** tests (not theorems about all inputs): concrete round trips evaluated in the model *)
Example C18_roundtrip_examples :
  let r1 := [[NInt 3; NInt 12]; [NInt 0]] in
  let r2 := [[NStr (list_ascii_of_string "a b")]; [NStr (list_ascii_of_string "c1"); NStr (list_ascii_of_string "-")]] in
  from_string (list_ascii_of_string " name : " ++ render "{"%char "}"%char r1 ++ list_ascii_of_string "  ") = POk r1 /\
  from_string (render "["%char "]"%char r2) = POk r2 /\
  read_text (write_text [r1; []; r1]) = POk [r1; []; r1] /\
  from_string (list_ascii_of_string "[{1}, {1}]") = PValueError /\
  from_string (list_ascii_of_string "[{1}, ]x") = PValueError.
Proof. vm_compute. repeat split. Qed.
