(** Property C03 — every algorithm returns a well-formed consensus over exactly the universe.
    Status: proved for the algorithms whose last step is modelled end to end — Borda (both
    variants), Copeland, KwikSort (every pivot script), PickAPerm end to end ([C03_pickaperm_wf]) and its candidates (unified rankings), the
    Markov-style decoding of dense bucket-id vectors, the defeat-count decoder of the exact algorithm (on every
    feasible point of its program), the ParCons concatenation (given well-formed sub-answers), BioConsert's decoder on the
    (dense) vectors its local search produces.  Every consensus returned by the 15
    configurations is judged in Coq: at least one ranking, exactly one when one is asked, non-empty pairwise
    disjoint buckets whose union is exactly the universe with element types preserved, views consistent. *)
From Corankco Require Import Prelude Scheme Rank KemenySpec CostTable GroupSort Borda BordaProof Copeland CopelandProof
     KwikSort KwikSortProof PickAPerm PickAPermProof PickAPermWf Markov MarkovProof OptTheory Partition PartitionProof ConsistentProof ParConsProof ILP ILPProof BioConsert Judge.JBio BioMoves BioLoop BioAlgo.
Local Open Scope Z_scope.

Theorem C03_borda_wf : forall ub R,
  let r := borda_on ub R in
  Permutation (elems r) (universe R) /\ Forall (fun b => b <> []) r /\ grouped qle (borda_key ub R) r.
Proof. exact borda_on_wf. Qed.
Print Assumptions C03_borda_wf.

Theorem C03_copeland_wf : forall s D,
  Permutation (elems (copeland s D)) (universe D) /\ Forall (fun b => b <> []) (copeland s D).
Proof. exact copeland_wf. Qed.
Print Assumptions C03_copeland_wf.

Theorem C03_kwiksort_wf : forall w fuel script rem,
  (length rem < fuel)%nat -> rem <> [] -> NoDup rem ->
  exists c script', kwik w fuel script rem = Some (c, script') /\
                    Permutation (concat c) rem /\ Forall (fun b => b <> []) c.
Proof. exact kwik_wf. Qed.
Print Assumptions C03_kwiksort_wf.

(** PickAPerm, end to end: on a dataset of well-formed rankings (the constructor guarantees it, C16) whatever it returns is a
    non-empty list - of length one when one is asked - of rankings with ties of exactly the universe, no empty bucket *)
Theorem C03_pickaperm_wf : forall one s D m out,
  D <> [] -> (forall r, In r D -> NoDup (elems r) /\ Forall (fun b => b <> []) r) -> pickaperm one s D = Ok (m, out) ->
  out <> [] /\ (one = true -> length out = 1%nat) /\
  forall r, In r out -> Permutation (elems r) (universe D) /\ Forall (fun b => b <> []) r.
Proof. exact pickaperm_wf. Qed.
Print Assumptions C03_pickaperm_wf.

Theorem C03_unified_inputs_wf : forall U r,
  NoDup U -> NoDup (elems r) -> incl (elems r) U ->
  Permutation (elems (unify U r)) U /\ (Forall (fun b => b <> []) r -> Forall (fun b => b <> []) (unify U r)).
Proof. exact unify_perm. Qed.
Print Assumptions C03_unified_inputs_wf.

Theorem C03_dense_vector_decoding : forall v,
  Dense v ->
  let r := to_buckets v in
  Forall (fun b => b <> []) r /\ NoDup (concat r) /\
  (forall e, In e (concat r) <-> (e < length v)%nat /\ 0 <= get v e).
Proof. exact to_buckets_wf. Qed.
Print Assumptions C03_dense_vector_decoding.

(** the exact algorithm: whatever feasible point the solver returns, the decoder of the source yields non-empty
    disjoint buckets over all the ids *)
Theorem C03_exact_decoder_wf : forall n P v, (0 < n)%nat -> Feas n P v ->
  Permutation (concat (decode n v)) (seq 0 n) /\ Forall (fun b => b <> []) (decode n v).
Proof. intros n P v Hn F. split; [exact (proj1 (decode_spec n v))|exact (decode_nonempty n P v Hn F)]. Qed.
Print Assumptions C03_exact_decoder_wf.

(** ParCons: the concatenation of the answers of the sub-solvers is a ranking of exactly the universe *)
Theorem C03_parcons_wf : forall K bound exact aux U P,
  mirror K -> NoDup U -> is_partition_of U P = true -> no_back_arcs K P = true ->
  (forall G, In G P -> wfU G (exact G) /\ score K (exact G) = opt K G) ->
  (forall G, In G P -> wfU G (aux G)) ->
  Permutation (elems (fst (parcons K bound exact aux P))) U.
Proof. intros K bound exact aux U P M Nd HP HB He Ha. exact (proj1 (parcons_spec K bound exact aux M U P Nd HP HB He Ha)). Qed.
Print Assumptions C03_parcons_wf.

(** BioConsert: the local search keeps the vectors dense and the decoder turns a dense vector into non-empty
    disjoint buckets over exactly the universe, in the order and with the ties of the vector *)
Theorem C03_bioconsert_decoder_wf : forall U v m, NoDup U -> (0 < length U)%nat -> DenseTo (length U) v m ->
  Permutation (elems (decode_vec U v)) U /\ Forall (fun b => b <> []) (decode_vec U v) /\
  forall i, (i < length U)%nat -> bucket_id (decode_vec U v) (nth i U 0%nat) = get v i.
Proof. exact decode_vec_wf. Qed.
Print Assumptions C03_bioconsert_decoder_wf.

Theorem C03_bioconsert_wf : forall fuel one s D deps sc rs,
  valid s ->
  let U := universe D in let n := length U in
  (0 < n)%nat -> deps <> [] -> Forall (fun d => exists m, DenseTo n d m) deps ->
  bioconsert_on fuel one s D deps = Some (sc, rs) ->
  rs <> [] /\ (one = true -> length rs = 1%nat) /\
  forall c, In c rs -> Permutation (elems c) U /\ Forall (fun b => b <> []) c.
Proof.
  intros fuel one s D deps sc rs Hv U n Hn Hne HDs E.
  destruct (bioconsert_on_spec fuel one s D deps sc rs Hv Hn Hne HDs E) as (_ & A & B & H).
  split; [exact A|]. split; [exact B|]. intros c Hc. destruct (H c Hc) as (v & m & -> & HD & _).
  destruct (decode_vec_wf U v m (universe_NoDup D) Hn HD) as (P & Q & _). split; assumption.
Qed.
Print Assumptions C03_bioconsert_wf.
