(** Property C03 — every algorithm returns a well-formed consensus over exactly the universe.
    Status (PARTIAL): proved for the algorithms whose last step is modelled end to end — Borda (both
    variants), Copeland, KwikSort (every pivot script), PickAPerm's candidates (unified rankings), the
    Markov-style decoding of dense bucket-id vectors.  For the exact algorithms, ParCons and BioConsert the
    defeat-count / dictionary decoders are not theorems in this version.  Every consensus returned by the 15
    configurations is judged in Coq: at least one ranking, exactly one when one is asked, non-empty pairwise
    disjoint buckets whose union is exactly the universe with element types preserved, views consistent. *)
From Corankco Require Import Prelude Scheme Rank KemenySpec CostTable GroupSort Borda BordaProof Copeland CopelandProof
     KwikSort KwikSortProof Markov MarkovProof.
Local Open Scope Z_scope.

Theorem C03_borda_wf : forall ub R,
  let r := borda_on ub R in
  Permutation (elems r) (universe R) /\ Forall (fun b => b <> []) r /\ grouped qle (borda_key ub R) r.
Proof. exact borda_on_wf. Qed.
Print Assumptions C03_borda_wf.

Theorem C03_copeland_wf : forall s D,
  Permutation (elems (copeland s D)) (universe D) /\ Forall (fun b => b <> []) (copeland s D).
Proof. exact copeland_wf. Qed.
Print Assumptions C03_copeland_wf.

Theorem C03_kwiksort_wf : forall w fuel script rem,
  (length rem < fuel)%nat -> rem <> [] -> NoDup rem ->
  exists c script', kwik w fuel script rem = Some (c, script') /\
                    Permutation (concat c) rem /\ Forall (fun b => b <> []) c.
Proof. exact kwik_wf. Qed.
Print Assumptions C03_kwiksort_wf.

Theorem C03_unified_inputs_wf : forall U r,
  NoDup U -> NoDup (elems r) -> incl (elems r) U ->
  Permutation (elems (unify U r)) U /\ (Forall (fun b => b <> []) r -> Forall (fun b => b <> []) (unify U r)).
Proof. exact unify_perm. Qed.
Print Assumptions C03_unified_inputs_wf.

Theorem C03_dense_vector_decoding : forall v,
  Dense v ->
  let r := to_buckets v in
  Forall (fun b => b <> []) r /\ NoDup (concat r) /\
  (forall e, In e (concat r) <-> (e < length v)%nat /\ 0 <= get v e).
Proof. exact to_buckets_wf. Qed.
Print Assumptions C03_dense_vector_decoding.
