(** Property C03 — every algorithm returns a well-formed consensus over exactly the universe.
    Status (PARTIAL): proved for the algorithms whose last step is modelled end to end — Borda (both
    variants), Copeland, KwikSort (every pivot script), PickAPerm's candidates (unified rankings), the
    Markov-style decoding of dense bucket-id vectors, the defeat-count decoder of the exact algorithm (on every
    feasible point of its program), the ParCons concatenation (given well-formed sub-answers).  Not a theorem in
    this version: BioConsert's dictionary decoder applied to the vectors its local search produces.  Every consensus returned by the 15
    configurations is judged in Coq: at least one ranking, exactly one when one is asked, non-empty pairwise
    disjoint buckets whose union is exactly the universe with element types preserved, views consistent. *)
From Corankco Require Import Prelude Scheme Rank KemenySpec CostTable GroupSort Borda BordaProof Copeland CopelandProof
     KwikSort KwikSortProof Markov MarkovProof OptTheory Partition PartitionProof ConsistentProof ParConsProof ILP ILPProof.
Local Open Scope Z_scope.

Theorem C03_borda_wf : forall ub R,
  let r := borda_on ub R in
  Permutation (elems r) (universe R) /\ Forall (fun b => b <> []) r /\ grouped qle (borda_key ub R) r.
Proof. exact borda_on_wf. Qed.
Print Assumptions C03_borda_wf.

Theorem C03_copeland_wf : forall s D,
  Permutation (elems (copeland s D)) (universe D) /\ Forall (fun b => b <> []) (copeland s D).
Proof. exact copeland_wf. Qed.
Print Assumptions C03_copeland_wf.

Theorem C03_kwiksort_wf : forall w fuel script rem,
  (length rem < fuel)%nat -> rem <> [] -> NoDup rem ->
  exists c script', kwik w fuel script rem = Some (c, script') /\
                    Permutation (concat c) rem /\ Forall (fun b => b <> []) c.
Proof. exact kwik_wf. Qed.
Print Assumptions C03_kwiksort_wf.

Theorem C03_unified_inputs_wf : forall U r,
  NoDup U -> NoDup (elems r) -> incl (elems r) U ->
  Permutation (elems (unify U r)) U /\ (Forall (fun b => b <> []) r -> Forall (fun b => b <> []) (unify U r)).
Proof. exact unify_perm. Qed.
Print Assumptions C03_unified_inputs_wf.

Theorem C03_dense_vector_decoding : forall v,
  Dense v ->
  let r := to_buckets v in
  Forall (fun b => b <> []) r /\ NoDup (concat r) /\
  (forall e, In e (concat r) <-> (e < length v)%nat /\ 0 <= get v e).
Proof. exact to_buckets_wf. Qed.
Print Assumptions C03_dense_vector_decoding.

(** the exact algorithm: whatever feasible point the solver returns, the decoder of the source yields non-empty
    disjoint buckets over all the ids *)
Theorem C03_exact_decoder_wf : forall n P v, (0 < n)%nat -> Feas n P v ->
  Permutation (concat (decode n v)) (seq 0 n) /\ Forall (fun b => b <> []) (decode n v).
Proof. intros n P v Hn F. split; [exact (proj1 (decode_spec n v))|exact (decode_nonempty n P v Hn F)]. Qed.
Print Assumptions C03_exact_decoder_wf.

(** ParCons: the concatenation of the answers of the sub-solvers is a ranking of exactly the universe *)
Theorem C03_parcons_wf : forall K bound exact aux U P,
  mirror K -> NoDup U -> is_partition_of U P = true -> no_back_arcs K P = true ->
  (forall G, In G P -> wfU G (exact G) /\ score K (exact G) = opt K G) ->
  (forall G, In G P -> wfU G (aux G)) ->
  Permutation (elems (fst (parcons K bound exact aux P))) U.
Proof. intros K bound exact aux U P M Nd HP HB He Ha. exact (proj1 (parcons_spec K bound exact aux M U P Nd HP HB He Ha)). Qed.
Print Assumptions C03_parcons_wf.
