(** Property C08 — BioConsert returns a local optimum of the Kemeny score.
    Status: proved on the model.  The jitted kernels are modelled faithfully (difference arrays, the two scans
    with in-place prefix sums, the two renumbering kernels, the sweep loop; model = library on every starting
    vector explored) and the model is proved correct: the arrays filled by [_compute_delta_costs] are the
    difference arrays of the true score variations, each search returns the first improving bucket / position
    (right then left) or -1 exactly when nothing improves by more than the threshold, each move realises the
    intended single-element move and keeps the numbering dense, every accepted move lowers the true score by
    the recorded delta, the loop terminates, and its result passes the test [local_opt], which is sound: no
    single-element move (into an existing bucket or a new bucket at any position) improves the score of the
    returned ranking by more than the threshold ([C08_bio_one], [C08_bioconsert_local_optimum]). *)
From Corankco Require Import Prelude Scheme Rank KemenySpec CostTable OptTheory Markov Borda BioConsert BioDelta
     Judge.JBio BioProof BioMoves BioArrays BioLoop BioAlgo BioUser.
Local Open Scope Z_scope.

Theorem C08_local_opt_sound : forall K n r thr,
  mirror K -> local_opt K n r thr = true ->
  forall e, (e < n)%nat ->
    (forall b, 0 <= b <= vmax r -> score K (base_ranking n r) - thr <= score K (moved_ranking n r e (2 * b))) /\
    (forall p, 0 <= p <= vmax r + 1 -> score K (base_ranking n r) - thr <= score K (moved_ranking n r e (2 * p - 1))).
Proof. exact local_opt_sound. Qed.
Print Assumptions C08_local_opt_sound.

Theorem C08_base_ranking_order : forall n r x y,
  (x < n)%nat -> (y < n)%nat ->
  Z.compare (bucket_id (base_ranking n r) x) (bucket_id (base_ranking n r) y) = Z.compare (get r x) (get r y).
Proof. exact base_ranking_order. Qed.
Print Assumptions C08_base_ranking_order.

(** the difference array: accumulated change over (b0, b] resp. [b, b0) = variation of the score *)
Theorem C08_change_prefix_right : forall bef aft tie r others b0,
  (forall e, In e others -> 0 <= r e) -> 0 <= b0 -> forall k : nat,
  rsum (b0 + 1) (S k) (change bef aft tie r others b0) = delta_join bef aft tie r others b0 (b0 + 1 + Z.of_nat k).
Proof. exact change_prefix_right. Qed.
Print Assumptions C08_change_prefix_right.

Theorem C08_change_prefix_left : forall bef aft tie r others b0,
  (forall e, In e others -> 0 <= r e) -> 0 <= b0 -> forall k : nat, 0 <= b0 - 1 - Z.of_nat k ->
  rsum (b0 - 1 - Z.of_nat k) (S k) (change bef aft tie r others b0) = delta_join bef aft tie r others b0 (b0 - 1 - Z.of_nat k).
Proof. exact change_prefix_left. Qed.
Print Assumptions C08_change_prefix_left.

(** the local search from one dense departure vector *)
Theorem C08_bio_one : forall K n fuel r m r' s, mirror K -> (0 < n)%nat -> DenseTo n r m ->
  bio_one fuel K n r = Some (r', s) ->
  s = score_vec K n r' /\ s <= score_vec K n r /\ (exists m', DenseTo n r' m') /\ local_opt K n r' THR = true.
Proof. exact bio_one_spec. Qed.
Print Assumptions C08_bio_one.

Theorem C08_bio_one_terminates : forall K n fuel r m, mirror K -> nonnegK K -> (0 < n)%nat -> DenseTo n r m ->
  score_vec K n r < Z.of_nat fuel * THR -> exists res, bio_one fuel K n r = Some res.
Proof. exact bio_one_terminates. Qed.
Print Assumptions C08_bio_one_terminates.

(** the whole algorithm: every returned ranking decodes a dense vector that passes the (sound) local-optimality
    test, for the table of the dataset *)
Theorem C08_bioconsert_local_optimum : forall fuel one s D deps sc rs,
  valid s ->
  let U := universe D in let n := length U in let K := cost_table s D in
  (0 < n)%nat -> deps <> [] -> Forall (fun d => exists m, DenseTo n d m) deps ->
  bioconsert_on fuel one s D deps = Some (sc, rs) ->
  forall c, In c rs -> exists v m, c = decode_vec U v /\ DenseTo n v m /\ local_opt K n v THR = true.
Proof.
  intros fuel one s D deps sc rs Hv U n K Hn Hne HDs E c Hc.
  destruct (bioconsert_on_spec fuel one s D deps sc rs Hv Hn Hne HDs E) as (_ & _ & _ & H).
  destruct (H c Hc) as (v & m & E1 & E2 & _ & E4). exists v, m. split; [exact E1|]. split; [exact E2|exact E4].
Qed.
Print Assumptions C08_bioconsert_local_optimum.

(** the departure vectors of the model are dense, and the judges' fuel always suffices *)
Theorem C08_departures_dense : forall D,
  (forall r, In r D -> NoDup (elems r) /\ Forall (fun b => b <> []) r) -> (0 < length (universe D))%nat ->
  Forall (fun d => exists m, DenseTo (length (universe D)) d m) (departures_plain D) /\ departures_plain D <> [].
Proof. exact departures_plain_dense. Qed.
Print Assumptions C08_departures_dense.

Theorem C08_bioconsert_terminates : forall one s D deps,
  valid s ->
  let U := universe D in let n := length U in let K := cost_table s D in
  (0 < n)%nat -> Forall (fun d => exists m, DenseTo n d m) deps ->
  exists res, bioconsert_on (fuel_for K n deps) one s D deps = Some res.
Proof.
  intros one s D deps Hv U n K Hn HDs. apply bioconsert_on_terminates; try assumption.
  intros d Hd. apply fuel_for_enough. exact Hd.
Qed.
Print Assumptions C08_bioconsert_terminates.

(** in the terms of the statement: for every ranking c returned (a ranking over the elements, with the reported
    generalized Kemeny score), moving a single element into any existing bucket (doubled position 2b) or into a new
    bucket before any position (2p-1) never lowers the score by more than the threshold *)
Theorem C08_local_optimum_over_elements : forall s D one deps sc rs fuel,
  valid s -> let U := universe D in let n := length U in let K := cost_table s D in
  (0 < n)%nat -> deps <> [] -> Forall (fun d => exists m, DenseTo n d m) deps ->
  bioconsert_on fuel one s D deps = Some (sc, rs) ->
  forall c, In c rs -> exists v, c = decode_vec U v /\ kemeny_spec s D c = sc /\
    forall e, (e < n)%nat ->
      (forall b, 0 <= b <= vmax v -> kemeny_spec s D c - THR <= kemeny_spec s D (relabel U (moved_ranking n v e (2 * b)))) /\
      (forall p, 0 <= p <= vmax v + 1 -> kemeny_spec s D c - THR <= kemeny_spec s D (relabel U (moved_ranking n v e (2 * p - 1)))).
Proof. exact bioconsert_local_optimum. Qed.
Print Assumptions C08_local_optimum_over_elements.
