(** Property C08 — BioConsert returns a local optimum of the Kemeny score.
    Status (PARTIAL): the jitted kernels are modelled faithfully (difference arrays, the two scans with
    in-place prefix sums, the two renumbering kernels, the sweep loop) and agree with the library on every
    starting vector explored; the link "model returns r' => r' is a local optimum" is not a theorem in this
    version.  What is proved: the test [local_opt] run on EVERY ranking BioConsert returns is sound (it
    bounds the score of every single-element move, into every existing bucket and into a new bucket at every
    position), the ranking it speaks about is the returned one (same order, same ties), and the prefix-sum
    lemma of the [change] array (the accumulated value at bucket b is the true score variation). *)
From Corankco Require Import Prelude Scheme Rank KemenySpec CostTable OptTheory Markov Borda BioConsert BioDelta
     Judge.JBio BioProof.
Local Open Scope Z_scope.

Theorem C08_local_opt_sound : forall K n r thr,
  mirror K -> local_opt K n r thr = true ->
  forall e, (e < n)%nat ->
    (forall b, 0 <= b <= vmax r -> score K (base_ranking n r) - thr <= score K (moved_ranking n r e (2 * b))) /\
    (forall p, 0 <= p <= vmax r + 1 -> score K (base_ranking n r) - thr <= score K (moved_ranking n r e (2 * p - 1))).
Proof. exact local_opt_sound. Qed.
Print Assumptions C08_local_opt_sound.

Theorem C08_base_ranking_order : forall n r x y,
  (x < n)%nat -> (y < n)%nat ->
  Z.compare (bucket_id (base_ranking n r) x) (bucket_id (base_ranking n r) y) = Z.compare (get r x) (get r y).
Proof. exact base_ranking_order. Qed.
Print Assumptions C08_base_ranking_order.

(** the difference array: accumulated change over (b0, b] resp. [b, b0) = variation of the score *)
Theorem C08_change_prefix_right_partial : forall bef aft tie r others b0,
  (forall e, In e others -> 0 <= r e) -> 0 <= b0 -> forall k : nat,
  rsum (b0 + 1) (S k) (change bef aft tie r others b0) = delta_join bef aft tie r others b0 (b0 + 1 + Z.of_nat k).
Proof. exact change_prefix_right. Qed.
Print Assumptions C08_change_prefix_right_partial.

Theorem C08_change_prefix_left_partial : forall bef aft tie r others b0,
  (forall e, In e others -> 0 <= r e) -> 0 <= b0 -> forall k : nat, 0 <= b0 - 1 - Z.of_nat k ->
  rsum (b0 - 1 - Z.of_nat k) (S k) (change bef aft tie r others b0) = delta_join bef aft tie r others b0 (b0 - 1 - Z.of_nat k).
Proof. exact change_prefix_left. Qed.
Print Assumptions C08_change_prefix_left_partial.
