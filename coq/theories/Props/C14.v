(** Property C14 — declared scheme applicability is truthful; complete data is never refused.
    The predicate and the refusal guards are modelled over the whole tree of configurations (BioConsert
    with any list of starters, ParCons with any auxiliary algorithm, nested to any depth). *)
From Corankco Require Import Prelude Scheme SchemeProof Rank Borda BordaProof Applicability.
Local Open Scope Z_scope.

(** the predicate is a total boolean function of (configuration, scheme) — it answers without failing *)
Theorem C14_relevant_total : forall a s, relevant a s = true \/ relevant a s = false.
Proof. intros a s. destruct (relevant a s); auto. Qed.
Print Assumptions C14_relevant_total.

Theorem C14_complete_never_refused : forall a s, accepts a s true = Some true.
Proof. exact complete_never_refused. Qed.
Print Assumptions C14_complete_never_refused.

Theorem C14_relevant_true_accepts : forall a s, relevant a s = true -> accepts a s false = Some true.
Proof. exact relevant_true_accepts. Qed.
Print Assumptions C14_relevant_true_accepts.

Theorem C14_refuse_iff_not_relevant : forall a s, simple a = true -> accepts a s false = Some (relevant a s).
Proof. exact refuse_iff_not_relevant. Qed.
Print Assumptions C14_refuse_iff_not_relevant.

(** what "relevant" means for Borda: a positive multiple of one of the four families *)
Theorem C14_borda_relevant_iff : forall s, nonneg s -> (borda_relevant s = true <-> in_borda_family s).
Proof. exact borda_relevant_iff. Qed.
Print Assumptions C14_borda_relevant_iff.

(** the test the judge applies to what a computation returned ([code_of], Judge/JC14.v) is sound: code 0 means exactly one ranking came
    back and it is a ranking with ties of the whole universe, without repetition and without an empty bucket *)
From Corankco Require Import OptTheory Partition PartitionProof Judge.JC14.
Lemma distinct_NoDup : forall l, distinct l = true -> NoDup l.
Proof.
  induction l as [|x l IH]; cbn [distinct]; intros H; [constructor|].
  apply andb_true_iff in H as [H1 H2]. constructor; [|apply IH; exact H2].
  intros I. apply mem_In in I. rewrite I in H1. discriminate.
Qed.
Theorem C14_returned_test_sound : forall U cs, code_of (OReturned U cs) = 0 ->
  exists c, cs = [c] /\ wfU U c /\ NoDup (elems c) /\ Forall (fun b => b <> []) c.
Proof.
  intros U cs H. cbn [code_of] in H.
  destruct (Nat.eqb (length cs) 1 && distinct U && forallb (fun c => is_partition_of U c && distinct (elems c)) cs) eqn:E; [|discriminate].
  apply andb_true_iff in E as [E F]. apply andb_true_iff in E as [L DU]. apply Nat.eqb_eq in L.
  destruct cs as [|c [|c' cs]]; try discriminate. exists c. split; [reflexivity|].
  cbn [forallb] in F. rewrite andb_true_r in F. apply andb_true_iff in F as [P Dc].
  destruct (is_partition_of_spec U c (distinct_NoDup U DU) P) as [W N].
  split; [exact W|]. split; [apply distinct_NoDup; exact Dc|exact N].
Qed.
Print Assumptions C14_returned_test_sound.
