(** Property C14 — declared scheme applicability is truthful; complete data is never refused.
    The predicate and the refusal guards are modelled over the whole tree of configurations (BioConsert
    with any list of starters, ParCons with any auxiliary algorithm, nested to any depth). *)
From Corankco Require Import Prelude Scheme SchemeProof Rank Borda BordaProof Applicability.
Local Open Scope Z_scope.

(** the predicate is a total boolean function of (configuration, scheme) — it answers without failing *)
Theorem C14_relevant_total : forall a s, relevant a s = true \/ relevant a s = false.
Proof. intros a s. destruct (relevant a s); auto. Qed.
Print Assumptions C14_relevant_total.

Theorem C14_complete_never_refused : forall a s, accepts a s true = Some true.
Proof. exact complete_never_refused. Qed.
Print Assumptions C14_complete_never_refused.

Theorem C14_relevant_true_accepts : forall a s, relevant a s = true -> accepts a s false = Some true.
Proof. exact relevant_true_accepts. Qed.
Print Assumptions C14_relevant_true_accepts.

Theorem C14_refuse_iff_not_relevant : forall a s, simple a = true -> accepts a s false = Some (relevant a s).
Proof. exact refuse_iff_not_relevant. Qed.
Print Assumptions C14_refuse_iff_not_relevant.

(** what "relevant" means for Borda: a positive multiple of one of the four families *)
Theorem C14_borda_relevant_iff : forall s, nonneg s -> (borda_relevant s = true <-> in_borda_family s).
Proof. exact borda_relevant_iff. Qed.
Print Assumptions C14_borda_relevant_iff.
