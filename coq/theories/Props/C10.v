(** Property C10 — PickAPerm returns exactly the best input rankings.
    Scores are [kemeny_spec] (what the Kemeny routine computes, property C01). *)
From Corankco Require Import Prelude Scheme SchemeProof Rank KemenySpec Borda BordaProof PickAPerm PickAPermProof PickAPermExact.
Local Open Scope Z_scope.

(** every returned ranking is one of the inputs (unified when incomplete) and has the minimum score
    among them; when all are requested every minimal input is returned; one ranking when one is asked *)
Theorem C10_spec : forall one s D,
  D <> [] -> (is_complete D = true \/ is_equivalent_to s unifying = true) ->
  exists m out, pickaperm one s D = Ok (Some m, out) /\ out <> [] /\
    (forall r, In r out -> In r (pick_inputs D) /\ kemeny_spec s D r = m) /\
    (forall r, In r (pick_inputs D) -> m <= kemeny_spec s D r) /\
    (one = false -> forall r, In r (pick_inputs D) -> kemeny_spec s D r = m -> In r out) /\
    (one = true -> length out = 1%nat).
Proof. exact pickaperm_spec. Qed.
Print Assumptions C10_spec.

(** incomplete datasets with any scheme not equivalent to the unifying one are refused *)
Theorem C10_refuses_iff : forall one s D,
  nonneg s ->
  (pickaperm one s D = Err IncompleteIncompatible <-> is_complete D = false /\ ~ equiv_spec 6 s unifying).
Proof. exact pickaperm_refuses_iff. Qed.
Print Assumptions C10_refuses_iff.

(** the completed inputs: exactly the missing elements as one last bucket *)
Theorem C10_unify_spec : forall U r,
  (missing_of U r = [] -> unify U r = r) /\
  (missing_of U r <> [] -> unify U r = r ++ [missing_of U r]) /\
  (forall x, ranked (unify U r) x <-> ranked r x \/ (In x U /\ ~ ranked r x)).
Proof. exact unify_spec. Qed.
Print Assumptions C10_unify_spec.

(** the exact answer, as a list.  All requested: the inputs whose score is the minimum [m] ([C10_spec] says [m] is the minimum),
    in input order, each as many times as it occurs among the inputs - nothing else, nothing dropped, nothing reordered. *)
Theorem C10_all_exact : forall s D,
  D <> [] -> (is_complete D = true \/ is_equivalent_to s unifying = true) ->
  exists m, pickaperm false s D = Ok (Some m, filter (fun r => kemeny_spec s D r =? m) (pick_inputs D)).
Proof. exact pickaperm_all_exact. Qed.
Print Assumptions C10_all_exact.

(** one requested: the FIRST input of minimal score, alone, with its own score reported: every input before it scores strictly
    more, every input after it at least as much *)
Theorem C10_one_exact : forall s D,
  D <> [] -> (is_complete D = true \/ is_equivalent_to s unifying = true) ->
  exists a P Q, pickaperm true s D = Ok (Some (kemeny_spec s D a), [a]) /\ pick_inputs D = P ++ a :: Q /\
    (forall x, In x P -> kemeny_spec s D a < kemeny_spec s D x) /\
    (forall x, In x Q -> kemeny_spec s D a <= kemeny_spec s D x).
Proof.
  intros s D HD H. destruct (pickaperm_one_exact s D HD H) as (a & E & (P & Q & EQ & HP & HQ)).
  exists a, P, Q. repeat split; assumption.
Qed.
Print Assumptions C10_one_exact.

(** the answer does not depend on which multiple of a scheme is given: two schemes the library calls equivalent make PickAPerm
    return the same list of rankings, the reported scores being those of one and the same ranking under each scheme *)
Theorem C10_equivalent_schemes_same_answer : forall one s1 s2 D,
  nonneg s1 -> nonneg s2 -> is_equivalent_to s1 s2 = true -> D <> [] ->
  (is_complete D = true \/ (is_equivalent_to s1 unifying = true /\ is_equivalent_to s2 unifying = true)) ->
  exists a out, pickaperm one s1 D = Ok (Some (kemeny_spec s1 D a), out) /\
                pickaperm one s2 D = Ok (Some (kemeny_spec s2 D a), out).
Proof. exact pickaperm_equivalent_schemes. Qed.
Print Assumptions C10_equivalent_schemes_same_answer.
