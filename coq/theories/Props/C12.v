(** Property C12 — Borda orders elements by mean positional score, per the documented variants. *)
From Corankco Require Import Prelude Scheme SchemeProof Rank GroupSort Borda BordaProof BordaComplete.
Local Open Scope Z_scope.

(** a partition of the universe into non-empty buckets, in increasing order of mean score, tied
    exactly when the means are equal; the mean of x is sum/count over the rankings that rank x *)
Theorem C12_wf : forall ub R,
  let r := borda_on ub R in
  Permutation (elems r) (universe R) /\ Forall (fun b => b <> []) r /\ grouped qle (borda_key ub R) r.
Proof. exact borda_on_wf. Qed.
Print Assumptions C12_wf.

Theorem C12_order : forall ub R x y,
  In x (universe R) -> In y (universe R) ->
  let r := borda_on ub R in
  let sx := borda_sum ub R x in let sy := borda_sum ub R y in
  let cx := Z.of_nat (borda_count R x) in let cy := Z.of_nat (borda_count R y) in
  (bucket_id r x < bucket_id r y <-> sx * cy < sy * cx) /\
  (bucket_id r x = bucket_id r y <-> sx * cy = sy * cx).
Proof. exact borda_on_order. Qed.
Print Assumptions C12_order.

(** unifying families run on unified rankings: exactly the missing elements as one last bucket, which
    makes an unranked element score the size of the ranked part / the next bucket index *)
Theorem C12_unify_spec : forall U r,
  (missing_of U r = [] -> unify U r = r) /\
  (missing_of U r <> [] -> unify U r = r ++ [missing_of U r]) /\
  (forall x, ranked (unify U r) x <-> ranked r x \/ (In x U /\ ~ ranked r x)).
Proof. exact unify_spec. Qed.
Print Assumptions C12_unify_spec.

Theorem C12_pts_unify : forall ub U r x,
  In x U ->
  pts ub (unify U r) x =
  if mem x (elems r) then pts ub r x else if ub then Z.of_nat (length r) else Z.of_nat (length (elems r)).
Proof. exact pts_unify. Qed.
Print Assumptions C12_pts_unify.

(** independent of the order of the rankings (element names enter only through equality tests) *)
Theorem C12_order_of_rankings_irrelevant : forall ub R R' x y,
  Permutation R R' -> In x (universe R) -> In y (universe R) ->
  (bucket_id (borda_on ub R) x < bucket_id (borda_on ub R) y <-> bucket_id (borda_on ub R') x < bucket_id (borda_on ub R') y) /\
  (bucket_id (borda_on ub R) x = bucket_id (borda_on ub R) y <-> bucket_id (borda_on ub R') x = bucket_id (borda_on ub R') y).
Proof. exact borda_on_perm. Qed.
Print Assumptions C12_order_of_rankings_irrelevant.

(** refusal exactly for incomplete data and a scheme outside the four families and their multiples *)
Theorem C12_refuses_iff : forall ub s D,
  nonneg s -> (borda ub s D = Err SchemeNotHandled <-> is_complete D = false /\ ~ in_borda_family s).
Proof. exact borda_refuses_iff. Qed.
Print Assumptions C12_refuses_iff.

Theorem C12_accepts_multiples : forall s f k,
  nonneg s -> In f [induced; unifying; induced_p 4000; unifying_p 4000] -> 0 < k ->
  (forall i, Bv s i * ONE = Bv f i * k) -> (forall i, Tv s i * ONE = Tv f i * k) ->
  borda_relevant s = true.
Proof. exact borda_accepts_multiples. Qed.
Print Assumptions C12_accepts_multiples.

Theorem C12_complete_never_refused : forall ub s D, is_complete D = true -> exists r, borda ub s D = Ok r.
Proof. exact borda_complete_never_refused. Qed.
Print Assumptions C12_complete_never_refused.

(** on a complete dataset nothing is missing: unification changes nothing and the consensus is the same whatever the scheme *)
Theorem C12_complete_unification_is_identity : forall D, is_complete D = true -> unified_rankings D = D.
Proof. exact unified_complete. Qed.
Print Assumptions C12_complete_unification_is_identity.
Theorem C12_complete_ignores_scheme : forall ub s D, is_complete D = true -> borda ub s D = Ok (borda_on ub D).
Proof. exact borda_complete_ignores_scheme. Qed.
Print Assumptions C12_complete_ignores_scheme.

(** the float side (FloatMeans.v): the library compares the binary64 quotients total / count; for totals up to 2^20 and counts up to 2^10
    they compare exactly like the means compared by cross-multiplication in the model.  This theorem, and only this one, rests on the
    real-number axioms of the standard library (listed below by Print Assumptions). *)
From Coq Require Import Reals.
From Flocq Require Import Core.
From Corankco Require Import FloatMeans.
Theorem C12_float_means_compare_exactly : forall a b c d : Z,
  (0 <= a <= 2 ^ 20)%Z -> (0 <= c <= 2 ^ 20)%Z -> (1 <= b <= 2 ^ 10)%Z -> (1 <= d <= 2 ^ 10)%Z ->
  Rcompare (rnd (IZR a / IZR b)) (rnd (IZR c / IZR d)) = Z.compare (a * d) (c * b).
Proof. exact float_quotient_compare. Qed.
Print Assumptions C12_float_means_compare_exactly.
