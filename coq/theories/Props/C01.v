(** Property C01 — the Kemeny score equals the generalized pairwise-penalty definition.
    Status: the theorems below are proved; the full equality
      [get_kemeny_score s D c = Ok (kemeny_spec s D c)] (theorem name reserved: C01_kemeny_impl_correct)
    is decided, in this version, by the correspondence check only (model = implementation = spec on
    every explored case); its proof needs the counting lemmas for s_1[2..5], s_2[3], s_2[5] and the
    range recursion on top of [merge_correct]. *)
From Corankco Require Import Prelude Scheme Rank KemenySpec KemenyMerge KemenyImpl KemenyProof.
From Coq Require Import Sorting.Sorted.
Local Open Scope Z_scope.

(** a candidate that lacks a dataset element is refused and never scored; and only then *)
Theorem C01_refuses : forall s D c,
  (exists r x, In r D /\ ranked r x /\ ~ ranked c x) -> get_kemeny_score s D c = Err InvalidRankings.
Proof. exact kemeny_refuses. Qed.
Print Assumptions C01_refuses.

Theorem C01_refuses_only_then : forall s D c,
  get_kemeny_score s D c = Err InvalidRankings -> exists r x, In r D /\ ranked r x /\ ~ ranked c x.
Proof. exact kemeny_refuses_only_then. Qed.
Print Assumptions C01_refuses_only_then.

(** the merge step returns the sorted merge and adds exactly the cross inversions (pairs reversed
    w.r.t. the consensus) and the cross equal pairs (tied in the consensus, ordered in the input) *)
Theorem C01_merge_partial : forall fuel l r,
  Sorted Nat.le l -> Sorted Nat.le r -> (length l + length r < fuel)%nat ->
  exists m, merge fuel l r = Some (m, cross_gt l r, cross_eq l r) /\ Sorted Nat.le m /\ Permutation m (l ++ r).
Proof. exact merge_correct. Qed.
Print Assumptions C01_merge_partial.

(** the specification is never negative (so the [-1.] sentinel of Consensus is not a score) *)
Theorem C01_spec_nonneg : forall s D c, nonneg s -> 0 <= kemeny_spec s D c.
Proof. exact kemeny_spec_nonneg. Qed.
Print Assumptions C01_spec_nonneg.
