(** Property C01 — the Kemeny score equals the generalized pairwise-penalty definition.
    Status: proved in full for the model of [get_kemeny_score] ([C01_kemeny_impl_correct]): for every
    scheme satisfying the documented relations, every duplicate-free candidate and dataset, the counting
    implementation (bucket ids, sort, merge-sort inversion count, 8 counters, dot product with the
    penalty vectors) returns exactly the sum over rankings and unordered pairs of the penalty of the
    definition, or refuses exactly when the candidate lacks a dataset element.  The model is tied to
    the Python code by the correspondence check of harness/check_C01.py. *)
From Corankco Require Import Prelude Scheme Rank KemenySpec KemenyMerge KemenyImpl KemenyProof KemenyCount KemenyAlgebra.
From Coq Require Import Sorting.Sorted.
Local Open Scope Z_scope.

(** a candidate that lacks a dataset element is refused and never scored; and only then *)
Theorem C01_refuses : forall s D c,
  (exists r x, In r D /\ ranked r x /\ ~ ranked c x) -> get_kemeny_score s D c = Err InvalidRankings.
Proof. exact kemeny_refuses. Qed.
Print Assumptions C01_refuses.

Theorem C01_refuses_only_then : forall s D c,
  get_kemeny_score s D c = Err InvalidRankings -> exists r x, In r D /\ ranked r x /\ ~ ranked c x.
Proof. exact kemeny_refuses_only_then. Qed.
Print Assumptions C01_refuses_only_then.

(** the merge step returns the sorted merge and adds exactly the cross inversions (pairs reversed
    w.r.t. the consensus) and the cross equal pairs (tied in the consensus, ordered in the input) *)
Theorem C01_merge_partial : forall fuel l r,
  Sorted Nat.le l -> Sorted Nat.le r -> (length l + length r < fuel)%nat ->
  exists m, merge fuel l r = Some (m, cross_gt l r, cross_eq l r) /\ Sorted Nat.le m /\ Permutation m (l ++ r).
Proof. exact merge_correct. Qed.
Print Assumptions C01_merge_partial.

(** the specification is never negative (so the [-1.] sentinel of Consensus is not a score) *)
Theorem C01_spec_nonneg : forall s D c, nonneg s -> 0 <= kemeny_spec s D c.
Proof. exact kemeny_spec_nonneg. Qed.
Print Assumptions C01_spec_nonneg.

(** structure of the definition the implementation is proved equal to: a sum over the rankings of the dataset - additive over
    concatenated datasets, independent of the order of the rankings, the distance to the ranking itself for a single ranking *)
Theorem C01_spec_additive : forall s D1 D2 c, kemeny_spec s (D1 ++ D2) c = kemeny_spec s D1 c + kemeny_spec s D2 c.
Proof. exact kemeny_spec_app. Qed.
Print Assumptions C01_spec_additive.
Theorem C01_spec_order_of_rankings : forall s D D' c, Permutation D D' -> kemeny_spec s D c = kemeny_spec s D' c.
Proof. exact kemeny_spec_perm. Qed.
Print Assumptions C01_spec_order_of_rankings.

(** the main statement *)
Theorem C01_kemeny_impl_correct : forall s D c,
  relations s -> NoDup (elems c) ->
  (forall r, In r D -> NoDup (elems r)) ->
  (forall r x, In r D -> ranked r x -> ranked c x) ->
  get_kemeny_score s D c = Ok (kemeny_spec s D c).
Proof. exact get_kemeny_score_correct. Qed.
Print Assumptions C01_kemeny_impl_correct.

(** ... and with the refusal: the function is characterised on every well-formed input *)
Theorem C01_kemeny_impl_total : forall s D c,
  relations s -> NoDup (elems c) -> (forall r, In r D -> NoDup (elems r)) ->
  (get_kemeny_score s D c = Ok (kemeny_spec s D c) /\ forall r x, In r D -> ranked r x -> ranked c x) \/
  (get_kemeny_score s D c = Err InvalidRankings /\ exists r x, In r D /\ ranked r x /\ ~ ranked c x).
Proof. exact get_kemeny_score_total. Qed.
Print Assumptions C01_kemeny_impl_total.

(** non-vacuity: a scheme with the relations, a tied candidate, a dataset with ties and a missing element *)
Example C01_nonvacuous :
  let s := mkS 0 8000 8000 0 8000 0 8000 8000 0 0 0 0 in
  let c := [[1; 2]; [3]; [4]]%nat in let D := [[[3]; [1; 4]]; [[2]; [1]]]%nat in
  relations s /\ NoDup (elems c) /\ (forall r, In r D -> NoDup (elems r)) /\
  (forall r x, In r D -> ranked r x -> ranked c x) /\ get_kemeny_score s D c = Ok 40000.
Proof.
  cbv zeta. split; [unfold relations; cbn; lia|]. split; [repeat constructor; cbn; intuition lia|].
  split; [intros r [<-|[<-|[]]]; repeat constructor; cbn; intuition lia|].
  split; [intros r x [<-|[<-|[]]]; unfold ranked; cbn; intuition lia|]. vm_compute. reflexivity.
Qed.

(** a closed form for one shape of input that the library can be run on at sizes no evaluation of the model can follow (BigScore.v): one
    strict input ranking, the candidate that ties all its elements - T[0] for each of the n(n-1)/2 pairs.  The suite C01/big judges the
    library's answer for tens of thousands of elements against this closed form. *)
From Corankco Require Import BigScore.
Theorem C01_all_tied_against_strict : forall s l, NoDup l -> t0 s = t1 s ->
  kemeny_spec s [strict_of l] [l] * 2 = t0 s * (Z.of_nat (length l) * (Z.of_nat (length l) - 1)).
Proof. exact all_tied_against_strict. Qed.
Print Assumptions C01_all_tied_against_strict.

(** ... and for the candidate that lists the elements in the REVERSE order of the strict input ranking: B[1] for each pair *)
Theorem C01_reversed_against_strict : forall s l, NoDup l ->
  kemeny_spec s [strict_of l] (strict_of (rev l)) * 2 = b1 s * (Z.of_nat (length l) * (Z.of_nat (length l) - 1)).
Proof. exact reversed_against_strict. Qed.
Print Assumptions C01_reversed_against_strict.

