(** Property C05 — the exact algorithm returns a global optimum, with or without CPLEX.
    Status: the integer program built by ExactAlgorithmPulp is modelled row for row (ILP.v; compared with the
    program captured at [LpProblem.solve] on every run) and proved to be a correct formulation:
    [C05_ilp_optimal] - decoding, by the decoder of the source, ANY feasible point that minimises the objective
    over the feasible points gives a ranking with ties of the universe with the minimum generalized Kemeny score,
    and the objective value is that minimum; [C05_ilp_min_reached] - the program is feasible and its minimum is
    [opt].  The component-fixing rows are covered (they lose no optimum: exchange lemma).  What stays outside the
    model is the branch-and-bound of the solver (CBC through PuLP): that its answer is optimal for the program it
    was given is the remaining assumption; that the answer is integral and feasible for the MODEL's rows, decodes
    to the returned consensus and has objective = reported score = the verified brute-force optimum [opt] is
    checked on every run.  CPLEX is not installed: the CPLEX models (optimize on / off, one / all optimal
    consensuses, the "optim1" variant, the CPLEX branch of the selector) are run on a stand-in for the CPLEX
    Python API (same calls, CBC underneath); their program is the same one plus the "no tie" rows, which lose no
    optimum when no pair is cheaper tied than in the average of its two orders ([C05_cplex_notie_optimal]; the
    source used a threshold of 0.001 there - finding F15, repaired). *)
From Corankco Require Import Prelude Scheme Rank KemenySpec CostTable CostTableProof OptTheory EquivOrder Partition PartitionProof ILP ILPProof ILPAll.
Local Open Scope Z_scope.

Theorem C05_opt_lower : forall K U c, mirror K -> NoDup U -> wfU U c -> opt K U <= score K c.
Proof. exact opt_lower. Qed.
Print Assumptions C05_opt_lower.

Theorem C05_opt_attained : forall K U, mirror K -> NoDup U ->
  exists c, wfU U c /\ Forall (fun b => b <> []) c /\ score K c = opt K U.
Proof. exact opt_attained. Qed.
Print Assumptions C05_opt_attained.

Theorem C05_optimal_iff_opt : forall K U c,
  mirror K -> NoDup U -> wfU U c -> (is_optimal K U c <-> score K c = opt K U).
Proof. exact optimal_iff_opt. Qed.
Print Assumptions C05_optimal_iff_opt.

(** the score the oracle minimises is the generalized Kemeny score of the dataset *)
Theorem C05_score_is_kemeny : forall s D c, score (cost_spec s D) c = kemeny_spec s D c.
Proof. exact score_cost_spec. Qed.
Print Assumptions C05_score_is_kemeny.

(** the optimal consensuses are the same under two schemes the library calls equivalent (multiples of one another) *)
Theorem C05_equivalent_schemes_same_optima : forall s1 s2,
  nonneg s1 -> nonneg s2 -> is_equivalent_to s1 s2 = true ->
  forall D U c, is_optimal (cost_spec s1 D) U c <-> is_optimal (cost_spec s2 D) U c.
Proof. exact equivalent_schemes_same_optima. Qed.
Print Assumptions C05_equivalent_schemes_same_optima.

(** decomposition along a partition without back arcs loses no optimum; trivial components *)
Theorem C05_decomposition_sound : forall K U P,
  mirror K -> NoDup U -> is_partition_of U P = true -> no_back_arcs K P = true ->
  exists c, is_optimal K U c /\ Forall (fun b => b <> []) c /\
            forall x y, In x U -> In y U -> bucket_id P x < bucket_id P y -> bucket_id c x < bucket_id c y.
Proof. exact parcons_check_sound. Qed.
Print Assumptions C05_decomposition_sound.

Theorem C05_all_tied_sound : forall K G c,
  mirror K -> NoDup G -> can_be_all_tied K G = true -> wfU G c -> score K [G] <= score K c.
Proof. exact all_tied_optimal. Qed.
Print Assumptions C05_all_tied_sound.

(** * the integer program *)
(** the boolean feasibility test run on the solver's answer is the logical system of constraints *)
Theorem C05_feasible_iff : forall n P v, feasible n P v = true <-> Feas n P v.
Proof. exact feasible_Feas. Qed.
Print Assumptions C05_feasible_iff.

(** every feasible point decodes to a ranking with ties of all the elements whose score is the objective *)
Theorem C05_decode_score : forall K n P v, mirror K -> Feas n P v ->
  wfU (seq 0 n) (decode n v) /\ score K (decode n v) = obj_value K n v.
Proof. exact decode_score. Qed.
Print Assumptions C05_decode_score.

(** every position function (hence every ranking with ties) that respects the component order is a feasible
    point with objective = its score *)
Theorem C05_encode : forall K n P p, mirror K -> (forall i j, earlier P i j -> p i < p j) ->
  Feas n P (v_p p) /\ obj_value K n (v_p p) = scoref K (seq 0 n) p.
Proof. intros K n P p M H. split; [exact (encode_Feas n P p H)|exact (encode_obj K n P p M H)]. Qed.
Print Assumptions C05_encode.

Theorem C05_ilp_optimal : forall K n P v,
  mirror K -> is_partition_of (seq 0 n) P = true -> no_back_arcs K P = true ->
  feasible n P v = true ->
  (forall v', feasible n P v' = true -> obj_value K n v <= obj_value K n v') ->
  wfU (seq 0 n) (decode n v) /\ score K (decode n v) = opt K (seq 0 n) /\
  obj_value K n v = opt K (seq 0 n) /\ is_optimal K (seq 0 n) (decode n v).
Proof. exact ilp_optimal. Qed.
Print Assumptions C05_ilp_optimal.

Theorem C05_ilp_min_reached : forall K n P,
  mirror K -> is_partition_of (seq 0 n) P = true -> no_back_arcs K P = true ->
  exists v, feasible n P v = true /\ obj_value K n v = opt K (seq 0 n) /\
            forall v', feasible n P v' = true -> obj_value K n v <= obj_value K n v'.
Proof. exact ilp_min_reached. Qed.
Print Assumptions C05_ilp_min_reached.

(** * the CPLEX model: binary and transitivity rows plus, when the test allows it, one row [t_i_j = 0] per pair *)
Theorem C05_cplex_notie_optimal : forall K n, mirror K ->
  (forall i j, (i < j < n)%nat -> let '(b, a, t) := K i j in b + a <= 2 * t) ->
  forall v, feasible n [] v = true -> forallb (sat v) (notie_rows n) = true ->
  (forall v', feasible n [] v' = true -> forallb (sat v') (notie_rows n) = true -> obj_value K n v <= obj_value K n v') ->
  wfU (seq 0 n) (decode n v) /\ score K (decode n v) = opt K (seq 0 n) /\ obj_value K n v = opt K (seq 0 n).
Proof. exact ilp_notie_optimal. Qed.
Print Assumptions C05_cplex_notie_optimal.

(** the test of the source (after the repair of F15: threshold 0 in model units) gives that hypothesis *)
Theorem C05_can_no_ties_spec : forall K n, can_no_ties K n 0 = true ->
  forall i j, (i < j < n)%nat -> let '(b, a, t) := K i j in b + a <= 2 * t.
Proof.
  intros K n H i j Hij. unfold can_no_ties in H. rewrite forallb_forall in H.
  assert (Hin : In (i, j) (ordpairs (seq 0 n))).
  { clear H. revert i j Hij. induction n as [|n IH]; intros i j Hij; [lia|].
    rewrite seq_S, Nat.add_0_l.
    assert (G : forall (l : list nat) x, In (i, j) (ordpairs l) \/ (In i l /\ j = x) -> In (i, j) (ordpairs (l ++ [x]))).
    { induction l as [|a l IHl]; intros x [Hl|[Hi Hj]]; try (destruct Hl); try (destruct Hi).
      - cbn [app ordpairs] in *. apply in_app_or in Hl as [Hl|Hl]; apply in_or_app.
        + left. apply in_map_iff in Hl as (y & E & Hy). inversion E; subst. apply in_map. apply in_or_app. left. exact Hy.
        + right. apply IHl. left. exact Hl.
      - subst. cbn [app ordpairs]. apply in_or_app. left. apply in_map. apply in_or_app. right. left. reflexivity.
      - subst. cbn [app ordpairs]. apply in_or_app. right. apply IHl. right. split; [assumption|reflexivity]. }
    apply G. destruct (Nat.eq_dec j n) as [->|Nj]; [right; split; [apply in_seq; lia|reflexivity]|left; apply IH; lia]. }
  specialize (H (i, j) Hin). cbn [fst snd] in H. destruct (K i j) as [[b a] t]. lia.
Qed.
Print Assumptions C05_can_no_ties_spec.

(** * "all optimal consensuses" (non-optimised model, no component row and no no-tie row): the decodings of the optimal feasible
      points are EXACTLY the optimal rankings with ties, up to the listing of the members of a bucket *)
Theorem C05_all_optimal_exactly : forall K n, mirror K ->
  (forall v, feasible n [] v = true -> (forall v', feasible n [] v' = true -> obj_value K n v <= obj_value K n v') ->
     wfU (seq 0 n) (decode n v) /\ score K (decode n v) = opt K (seq 0 n)) /\
  (forall c, wfU (seq 0 n) c -> score K c = opt K (seq 0 n) ->
     exists v, feasible n [] v = true /\ (forall v', feasible n [] v' = true -> obj_value K n v <= obj_value K n v') /\
               same_order n (decode n v) c).
Proof. exact all_optimal_exactly. Qed.
Print Assumptions C05_all_optimal_exactly.

(** the decoder inverts the encoding: a position function and the decoding of its 0/1 point order and tie the elements alike *)
Theorem C05_decode_encode : forall n (p : posf) i j, (i < n)%nat -> (j < n)%nat ->
  Z.compare (bucket_id (decode n (v_p p)) i) (bucket_id (decode n (v_p p)) j) = Z.compare (p i) (p j).
Proof. exact decode_encode. Qed.
Print Assumptions C05_decode_encode.
