(** Property C05 — the exact algorithm returns a global optimum, with or without CPLEX.
    Status: the branch-and-bound of the solver (CBC through PuLP; CPLEX is not installed) is outside the
    model.  What is proved is the oracle every answer is judged against: [opt] is the minimum generalized
    Kemeny score over ALL rankings with ties of the universe (lower bound + attained), optimality is
    equivalent to reaching it, the table of a dataset is mirror-consistent and sums to the Kemeny score
    (C02), the exchange lemma justifying the SCC decomposition and the all-tied shortcut (C06).  Every
    consensus returned by the selector (CPLEX absent: free-solver fallback) and by the free-solver model
    is judged in Coq: well-formed over the universe, score = opt, reported score = opt, flagged optimal.
    Reserved names for the ILP formulation theorems (not in this version): C05_ilp_feasible_iff,
    C05_ilp_objective, C05_decode_encode. *)
From Corankco Require Import Prelude Scheme Rank KemenySpec CostTable CostTableProof OptTheory Partition PartitionProof.
Local Open Scope Z_scope.

Theorem C05_opt_lower : forall K U c, mirror K -> NoDup U -> wfU U c -> opt K U <= score K c.
Proof. exact opt_lower. Qed.
Print Assumptions C05_opt_lower.

Theorem C05_opt_attained : forall K U, mirror K -> NoDup U ->
  exists c, wfU U c /\ Forall (fun b => b <> []) c /\ score K c = opt K U.
Proof. exact opt_attained. Qed.
Print Assumptions C05_opt_attained.

Theorem C05_optimal_iff_opt : forall K U c,
  mirror K -> NoDup U -> wfU U c -> (is_optimal K U c <-> score K c = opt K U).
Proof. exact optimal_iff_opt. Qed.
Print Assumptions C05_optimal_iff_opt.

(** the score the oracle minimises is the generalized Kemeny score of the dataset *)
Theorem C05_score_is_kemeny : forall s D c, score (cost_spec s D) c = kemeny_spec s D c.
Proof. exact score_cost_spec. Qed.
Print Assumptions C05_score_is_kemeny.

(** decomposition along a partition without back arcs loses no optimum; trivial components *)
Theorem C05_decomposition_sound : forall K U P,
  mirror K -> NoDup U -> is_partition_of U P = true -> no_back_arcs K P = true ->
  exists c, is_optimal K U c /\ Forall (fun b => b <> []) c /\
            forall x y, In x U -> In y U -> bucket_id P x < bucket_id P y -> bucket_id c x < bucket_id c y.
Proof. exact parcons_check_sound. Qed.
Print Assumptions C05_decomposition_sound.

Theorem C05_all_tied_sound : forall K G c,
  mirror K -> NoDup G -> can_be_all_tied K G = true -> wfU G c -> score K [G] <= score K c.
Proof. exact all_tied_optimal. Qed.
Print Assumptions C05_all_tied_sound.
