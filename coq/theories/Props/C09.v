(** Property C09 — BioConsert is never worse than any of its starting points.
    Status (PARTIAL): proved — the selection step reports the minimum of the scores reached from the
    departure rankings and returns only rankings with that score; PickAPerm's answer is a minimum over the
    (unified) inputs, which are departure rankings of default BioConsert.  Judged per run in Coq (not a
    theorem, it needs the monotonicity of the local search): the score of every returned ranking is at most
    the score of every departure ranking, the departures being recomputed by the model from the dataset /
    from the starters' own consensus in the id space of the input dataset (F4). *)
From Corankco Require Import Prelude Scheme SchemeProof Rank KemenySpec CostTable OptTheory Markov Borda BioConsert
     PickAPerm PickAPermProof Judge.JBio BioProof.
Local Open Scope Z_scope.

Theorem C09_select_best_min : forall one U results,
  results <> [] ->
  let '(best, _) := select_best one U results in
  forall rs, In rs results -> best <= snd rs.
Proof. exact select_best_min. Qed.
Print Assumptions C09_select_best_min.

Theorem C09_pickaperm_is_min_over_inputs : forall one s D,
  D <> [] -> (is_complete D = true \/ is_equivalent_to s unifying = true) ->
  exists m out, pickaperm one s D = Ok (Some m, out) /\ out <> [] /\
    (forall r, In r out -> In r (pick_inputs D) /\ kemeny_spec s D r = m) /\
    (forall r, In r (pick_inputs D) -> m <= kemeny_spec s D r) /\
    (one = false -> forall r, In r (pick_inputs D) -> kemeny_spec s D r = m -> In r out) /\
    (one = true -> length out = 1%nat).
Proof. exact pickaperm_spec. Qed.
Print Assumptions C09_pickaperm_is_min_over_inputs.
