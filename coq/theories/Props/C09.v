(** Property C09 — BioConsert is never worse than any of its starting points.
    Status: proved on the model.  Every accepted move of the local search lowers the true score (C08), so the
    score reached from a departure is at most the departure's; the selection step reports the minimum of these
    and returns only rankings with that score: the reported score, shared by all the returned rankings, is at
    most the score of EVERY departure vector ([C09_never_worse]).  The departures of the model (distinct unified
    inputs + all-tied, or the starters' consensuses, in the id space of the input dataset - F4) are compared
    with the library's per run; PickAPerm's answer is a minimum over the (unified) inputs, which are departure
    rankings of default BioConsert. *)
From Corankco Require Import Prelude Scheme SchemeProof Rank KemenySpec CostTable OptTheory Markov Borda BioConsert
     PickAPerm PickAPermProof Judge.JBio BioProof BioMoves BioLoop BioAlgo BioUser.
Local Open Scope Z_scope.

Theorem C09_select_best_min : forall one U results,
  results <> [] ->
  let '(best, _) := select_best one U results in
  forall rs, In rs results -> best <= snd rs.
Proof. exact select_best_min. Qed.
Print Assumptions C09_select_best_min.

Theorem C09_pickaperm_is_min_over_inputs : forall one s D,
  D <> [] -> (is_complete D = true \/ is_equivalent_to s unifying = true) ->
  exists m out, pickaperm one s D = Ok (Some m, out) /\ out <> [] /\
    (forall r, In r out -> In r (pick_inputs D) /\ kemeny_spec s D r = m) /\
    (forall r, In r (pick_inputs D) -> m <= kemeny_spec s D r) /\
    (one = false -> forall r, In r (pick_inputs D) -> kemeny_spec s D r = m -> In r out) /\
    (one = true -> length out = 1%nat).
Proof. exact pickaperm_spec. Qed.
Print Assumptions C09_pickaperm_is_min_over_inputs.

Theorem C09_never_worse : forall fuel one s D deps sc rs,
  valid s ->
  let U := universe D in let n := length U in let K := cost_table s D in
  (0 < n)%nat -> deps <> [] -> Forall (fun d => exists m, DenseTo n d m) deps ->
  bioconsert_on fuel one s D deps = Some (sc, rs) ->
  (forall d, In d deps -> sc <= score_vec K n d) /\ rs <> [] /\ (one = true -> length rs = 1%nat) /\
  forall c, In c rs -> exists v m, c = decode_vec U v /\ DenseTo n v m /\ score_vec K n v = sc /\ local_opt K n v THR = true.
Proof. exact bioconsert_on_spec. Qed.
Print Assumptions C09_never_worse.

Theorem C09_local_search_monotone : forall K n fuel r m r' s, mirror K -> (0 < n)%nat -> DenseTo n r m ->
  bio_one fuel K n r = Some (r', s) -> s = score_vec K n r' /\ s <= score_vec K n r.
Proof. intros K n fuel r m r' s M Hn HD E. destruct (bio_one_spec K n fuel r m r' s M Hn HD E) as (A & B & _). split; assumption. Qed.
Print Assumptions C09_local_search_monotone.

(** in the terms of the statement: default BioConsert always answers; every returned ranking is a ranking of the
    universe with the reported generalized Kemeny score, which is at most the score of every input ranking completed
    with its missing elements in a last bucket and of the all-tied ranking *)
Theorem C09_default_bioconsert : forall s D one,
  valid s -> (0 < length (universe D))%nat ->
  (forall r, In r D -> NoDup (elems r) /\ Forall (fun b => b <> []) r) ->
  let U := universe D in let n := length U in let K := cost_table s D in
  let deps := departures_plain D in
  exists sc rs, bioconsert_on (fuel_for K n deps) one s D deps = Some (sc, rs) /\ rs <> [] /\ (one = true -> length rs = 1%nat) /\
    (forall c, In c rs ->
       Permutation (elems c) U /\ Forall (fun b => b <> []) c /\ kemeny_spec s D c = sc /\
       exists v, c = decode_vec U v /\ local_opt K n v THR = true) /\
    (forall r, In r (start_rankings D) -> sc <= kemeny_spec s D r).
Proof. exact bioconsert_default. Qed.
Print Assumptions C09_default_bioconsert.

(** with starting algorithms: at most the score of the consensus of each of them *)
Theorem C09_with_starters : forall s D one starts,
  valid s -> (0 < length (universe D))%nat -> starts <> [] ->
  (forall c, In c starts -> Permutation (elems c) (universe D) /\ Forall (fun b => b <> []) c) ->
  let U := universe D in let n := length U in let K := cost_table s D in
  let deps := departures_from D starts in
  exists sc rs, bioconsert_on (fuel_for K n deps) one s D deps = Some (sc, rs) /\ rs <> [] /\ (one = true -> length rs = 1%nat) /\
    (forall c, In c rs ->
       Permutation (elems c) U /\ Forall (fun b => b <> []) c /\ kemeny_spec s D c = sc /\
       exists v, c = decode_vec U v /\ local_opt K n v THR = true) /\
    (forall c0, In c0 starts -> sc <= kemeny_spec s D c0).
Proof. exact bioconsert_with_starters. Qed.
Print Assumptions C09_with_starters.
