(** Property C07 — the ParFront partition is respected by every optimal consensus.
    Status: proved for every ordered partition with no back arcs whose consecutive groups are linked by
    robust arcs only (strict exchange + transitivity through non-empty groups), and as a verified checker
    for the partition the library returns. That the merge loop always ends in such a partition is, in this
    version, established by the correspondence (the loop's model run on the library's own SCC order) and
    by the boolean test on every returned partition, not by a theorem. *)
From Corankco Require Import Prelude Scheme Rank KemenySpec CostTable OptTheory Partition PartitionProof.
Local Open Scope Z_scope.

Theorem C07_every_optimum_respects : forall K U P c,
  mirror K -> NoDup U -> wfU U P -> Forall (fun g => g <> []) P ->
  no_back K U (bucket_id P) -> consecutive_robust K U (bucket_id P) ->
  is_optimal K U c ->
  forall x y, In x U -> In y U -> bucket_id P x < bucket_id P y -> bucket_id c x < bucket_id c y.
Proof. exact every_optimum_respects. Qed.
Print Assumptions C07_every_optimum_respects.

Theorem C07_parfront_check_sound : forall K U P c,
  mirror K -> NoDup U -> is_partition_of U P = true -> no_back_arcs K P = true ->
  all_consecutive_robust K P = true -> is_optimal K U c ->
  forall x y, In x U -> In y U -> bucket_id P x < bucket_id P y -> bucket_id c x < bucket_id c y.
Proof. exact parfront_check_sound. Qed.
Print Assumptions C07_parfront_check_sound.

Theorem C07_optimal_iff_opt : forall K U c,
  mirror K -> NoDup U -> wfU U c -> (is_optimal K U c <-> score K c = opt K U).
Proof. exact optimal_iff_opt. Qed.
Print Assumptions C07_optimal_iff_opt.
