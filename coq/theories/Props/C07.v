(** Property C07 — the ParFront partition is respected by every optimal consensus.
    Status: proved end to end on the model - starting from ANY partition of the universe without back arcs
    (which is what the SCC routine is required to return; igraph itself is outside the model and its answer
    is run through the boolean tests on every check), the merge loop terminates, concatenates consecutive
    groups without reordering, ends with all consecutive groups robustly linked, and every optimal consensus
    ranks each group strictly before the later ones (strict exchange + transitivity through non-empty
    groups).  [OrderedPartition.consistent_with] (model, after the repair of F8) is proved total and equal to
    that relation ([C07_consistent_with_iff]); model = code on ALL pairs over 3-4 elements per run. *)
From Corankco Require Import Prelude Scheme Rank KemenySpec CostTable OptTheory Partition PartitionProof ConsistentProof SccProof.
Local Open Scope Z_scope.

Theorem C07_every_optimum_respects : forall K U P c,
  mirror K -> NoDup U -> wfU U P -> Forall (fun g => g <> []) P ->
  no_back K U (bucket_id P) -> consecutive_robust K U (bucket_id P) ->
  is_optimal K U c ->
  forall x y, In x U -> In y U -> bucket_id P x < bucket_id P y -> bucket_id c x < bucket_id c y.
Proof. exact every_optimum_respects. Qed.
Print Assumptions C07_every_optimum_respects.

Theorem C07_parfront_check_sound : forall K U P c,
  mirror K -> NoDup U -> is_partition_of U P = true -> no_back_arcs K P = true ->
  all_consecutive_robust K P = true -> is_optimal K U c ->
  forall x y, In x U -> In y U -> bucket_id P x < bucket_id P y -> bucket_id c x < bucket_id c y.
Proof. exact parfront_check_sound. Qed.
Print Assumptions C07_parfront_check_sound.

Theorem C07_optimal_iff_opt : forall K U c,
  mirror K -> NoDup U -> wfU U c -> (is_optimal K U c <-> score K c = opt K U).
Proof. exact optimal_iff_opt. Qed.
Print Assumptions C07_optimal_iff_opt.

(** the merge loop: always produced, same elements in the same order, consecutive groups robustly linked *)
Theorem C07_parfront_from_spec : forall K P0,
  exists P, parfront_from K P0 = Some P /\ all_consecutive_robust K P = true /\ concat P = concat P0.
Proof. exact parfront_from_spec. Qed.
Print Assumptions C07_parfront_from_spec.

(** end to end *)
Theorem C07_parfront_every_optimum : forall K U P0,
  mirror K -> NoDup U -> is_partition_of U P0 = true -> no_back_arcs K P0 = true ->
  exists P, parfront_from K P0 = Some P /\ concat P = concat P0 /\ Forall (fun g => g <> []) P /\
    forall c, is_optimal K U c ->
      forall x y, In x U -> In y U -> bucket_id P x < bucket_id P y -> bucket_id c x < bucket_id c y.
Proof. exact parfront_every_optimum. Qed.
Print Assumptions C07_parfront_every_optimum.

(** consistent_with: never hangs, and says True exactly when the element counts agree and every element of an
    earlier group is strictly before every element of a later group in the consensus *)
Theorem C07_consistent_with_total : forall P c a b, consistent_with P c a b <> CWHang.
Proof. exact consistent_with_terminates. Qed.
Print Assumptions C07_consistent_with_total.

Theorem C07_consistent_with_iff : forall P c nc np,
  NoDup (elems P) -> NoDup (elems c) -> Permutation (elems P) (elems c) ->
  (consistent_with P c nc np = CW true <->
   nc = np /\ forall x y, In x (elems P) -> In y (elems P) -> bucket_id P x < bucket_id P y -> bucket_id c x < bucket_id c y).
Proof. exact consistent_with_iff. Qed.
Print Assumptions C07_consistent_with_iff.

Theorem C07_consistent_with_false_iff : forall P c nc np,
  NoDup (elems P) -> NoDup (elems c) -> Permutation (elems P) (elems c) ->
  (consistent_with P c nc np = CW false <->
   ~ (nc = np /\ forall x y, In x (elems P) -> In y (elems P) -> bucket_id P x < bucket_id P y -> bucket_id c x < bucket_id c y)).
Proof. exact consistent_with_false_iff. Qed.
Print Assumptions C07_consistent_with_false_iff.

(** with the partition the model computes as starting point, nothing is assumed any more *)
Theorem C07_model_parfront : forall K n, mirror K ->
  exists P, parfront_from K (sccs K n) = Some P /\ concat P = concat (sccs K n) /\ Forall (fun g => g <> []) P /\
    forall c, is_optimal K (seq 0 n) c ->
      forall x y, In x (seq 0 n) -> In y (seq 0 n) -> bucket_id P x < bucket_id P y -> bucket_id c x < bucket_id c y.
Proof. exact model_parfront_every_optimum. Qed.
Print Assumptions C07_model_parfront.

(** the ParFront merge only asks whether arcs are robust: a positive common factor of the table does not change it *)
From Corankco Require Import Scaling.
Theorem C07_parfront_scale_invariant : forall k K P0, 0 < k -> parfront_from (scale_table k K) P0 = parfront_from K P0.
Proof. intros k K P0 H. apply parfront_scale. exact H. Qed.
Print Assumptions C07_parfront_scale_invariant.
