(** Property C16 — Ranking / Dataset views stay consistent through every construction and mutation.
    The model is a pure function of the listing of rankings, as the repaired code is (F9, F10). *)
From Corankco Require Import Prelude Parser DatasetModel DatasetProof.
From Coq Require Import Ascii String.
Local Open Scope Z_scope.

(** every ranking built by the constructor: duplicate-free, disjoint buckets with the given members *)
Theorem C16_ranking_constructor : forall bs r,
  mk_ranking bs = Some r ->
  r = map ndedup bs /\ NoDup (nelems r) /\ (forall x, In x (nelems r) <-> In x (List.concat bs)).
Proof. exact mk_ranking_spec. Qed.
Print Assumptions C16_ranking_constructor.

(** positions, domain (keys), size agree with the buckets *)
Theorem C16_positions_agree : forall r,
  NoDup (nelems r) ->
  map fst (positions_dict r) = nelems r /\
  forall x p, In (x, p) (positions_dict r) -> p = 1 + npos_from 0 r x.
Proof. exact positions_dict_spec. Qed.
Print Assumptions C16_positions_agree.

(** every analysed dataset: ids form a duplicate-free list (a bijection with 0..n-1) covering exactly the
    union of the domains, homogeneous element types (all int iff every name integer-like), correct flags *)
Theorem C16_analyse_inv : forall rs d, analyse rs = Ok d -> Inv d.
Proof. exact analyse_inv. Qed.
Print Assumptions C16_analyse_inv.

Theorem C16_dataset_new_inv : forall raw d, dataset_new raw = Ok d -> Inv d.
Proof. exact dataset_new_inv. Qed.
Print Assumptions C16_dataset_new_inv.

(** any sequence of element removals, presence-rate filtering and empty-ranking removal *)
Theorem C16_history_inv : forall h d d', Inv d -> run_history d h = Ok d' -> Inv d'.
Proof. exact history_inv. Qed.
Print Assumptions C16_history_inv.

Theorem C16_unified_dataset_inv : forall d d', unified_dataset d = Ok d' -> Inv d'.
Proof. exact unified_dataset_inv. Qed.
Print Assumptions C16_unified_dataset_inv.
Theorem C16_sub_problem_inv : forall d K d', sub_problem d K = Ok d' -> Inv d'.
Proof. exact sub_problem_inv. Qed.
Print Assumptions C16_sub_problem_inv.

(** position / bucket-id matrices agree with the rankings *)
Theorem C16_positions_matrix : forall d i j,
  (i < List.length (d_ids d))%nat -> (j < List.length (d_rankings d))%nat ->
  nth j (nth i (get_positions d) []) (-2) = npos_from 0 (nth j (d_rankings d) []) (nth i (d_ids d) (NInt 0)).
Proof. exact get_positions_entry. Qed.
Print Assumptions C16_positions_matrix.
Theorem C16_bucket_ids_matrix : forall d i j,
  (i < List.length (d_ids d))%nat -> (j < List.length (d_rankings d))%nat ->
  nth j (nth i (get_bucket_ids d) []) (-2) = nbid_from 0 (nth j (d_rankings d) []) (nth i (d_ids d) (NInt 0)).
Proof. exact get_bucket_ids_entry. Qed.
Print Assumptions C16_bucket_ids_matrix.

(** unification appends exactly the missing elements as one last bucket *)
Theorem C16_unify : forall U r,
  let missing := filter (fun x => negb (nmem x (nelems r))) U in
  (missing = [] -> nunify U r = r) /\ (missing <> [] -> nunify U r = r ++ [missing]) /\
  (forall x, In x missing <-> In x U /\ ~ In x (nelems r)).
Proof. exact nunify_spec. Qed.
Print Assumptions C16_unify.

(** projection keeps exactly the kept elements (buckets in their order, [project_on] being a filter of
    a map), has no empty bucket, and is non-empty exactly for the rankings meeting the kept set *)
Theorem C16_projection : forall K r,
  (forall x, In x (nelems (project_on K r)) <-> In x (nelems r) /\ In x K) /\
  Forall (fun b => b <> []) (project_on K r) /\
  (project_on K r <> [] <-> exists x, In x (nelems r) /\ In x K).
Proof. exact project_on_spec. Qed.
Print Assumptions C16_projection.

Example C16_example :
  exists d, dataset_new [[[NStr (list_ascii_of_string "1")]; [NStr (list_ascii_of_string "a")]];
                         [[NStr (list_ascii_of_string "02"); NStr (list_ascii_of_string "1")]]] = Ok d /\
  exists d', remove_elements d [NStr (list_ascii_of_string "a")] = Ok d' /\
             d_ids d' = [NInt 1; NInt 2] /\ d_complete d' = false.
Proof. vm_compute. eexists; split; [reflexivity|]. eexists; repeat split. Qed.
