(** Property C11 — KwikSort's result is pivot-independent when pairwise preferences cohere.
    The pivot choices are an input ([script]); every theorem holds for every script. *)
From Corankco Require Import Prelude Scheme Rank KemenySpec CostTableProof GroupSort KwikSort KwikSortProof Scaling KwikScale.
Local Open Scope Z_scope.

(** the placement computed from the five vectorised counts is the cheapest placement by the
    definitional costs: tie preferred on equal cost, then before *)
Theorem C11_where_eq_pref : forall s D p o, kwik_w s D p o = pref s D p o.
Proof. exact where_eq_pref. Qed.
Print Assumptions C11_where_eq_pref.

(** for every dataset and pivot sequence: a partition of the elements into non-empty buckets *)
Theorem C11_wf : forall w fuel script rem,
  (length rem < fuel)%nat -> rem <> [] -> NoDup rem ->
  exists c script', kwik w fuel script rem = Some (c, script') /\
                    Permutation (concat c) rem /\ Forall (fun b => b <> []) c.
Proof. exact kwik_wf. Qed.
Print Assumptions C11_wf.

(** coherent preferences: exactly that ranking, for every pivot sequence *)
Theorem C11_coherent : forall s D R U0 script,
  U0 <> [] -> NoDup U0 ->
  (forall p o, In p U0 -> In o U0 -> p <> o ->
     (pref s D p o = -1 <-> bucket_id R o < bucket_id R p) /\
     (pref s D p o = 0 <-> bucket_id R o = bucket_id R p)) ->
  exists c, kwiksort s D U0 script = Some c /\
    Permutation (elems c) U0 /\ Forall (fun b => b <> []) c /\
    forall x y, In x U0 -> In y U0 ->
      (bucket_id c x < bucket_id c y <-> bucket_id R x < bucket_id R y) /\
      (bucket_id c x = bucket_id c y <-> bucket_id R x = bucket_id R y).
Proof. exact kwiksort_coherent. Qed.
Print Assumptions C11_coherent.

(** identical rankings are returned unchanged whenever breaking a tie costs something *)
Theorem C11_identical : forall s R m U0 script,
  valid s -> 0 < t0 s -> (0 < m)%nat -> wf_ranking R ->
  U0 <> [] -> NoDup U0 -> (forall x, In x U0 -> ranked R x) ->
  exists c, kwiksort s (repeat R m) U0 script = Some c /\
    Permutation (elems c) U0 /\ Forall (fun b => b <> []) c /\
    forall x y, In x U0 -> In y U0 ->
      (bucket_id c x < bucket_id c y <-> bucket_id R x < bucket_id R y) /\
      (bucket_id c x = bucket_id c y <-> bucket_id R x = bucket_id R y).
Proof. exact kwiksort_identical. Qed.
Print Assumptions C11_identical.

(** every recursion step places each element relative to its pivot according to that placement *)
Theorem C11_step_respects_pivot : forall w f script rem c s',
  kwik w (S f) script rem = Some (c, s') -> NoDup rem -> rem <> [] ->
  let pivot := nth (Nat.modulo (hd 0%nat script) (length rem)) rem 0%nat in
  forall e, In e rem -> e <> pivot ->
    (Z.sgn (w pivot e) = -1 -> bucket_id c e < bucket_id c pivot) /\
    (Z.sgn (w pivot e) = 0 -> bucket_id c e = bucket_id c pivot) /\
    (Z.sgn (w pivot e) = 1 -> bucket_id c pivot < bucket_id c e).
Proof. exact kwik_step_respects_pivot. Qed.
Print Assumptions C11_step_respects_pivot.

(** for the same pivot choices the consensus does not depend on which positive multiple of the scheme is given: every placement
    relative to the pivot compares three costs that are linear in the scheme *)
Theorem C11_placement_scale_invariant : forall k s pp po, 0 < k -> where_should (scale_scheme k s) pp po = where_should s pp po.
Proof. exact where_should_scale. Qed.
Print Assumptions C11_placement_scale_invariant.
Theorem C11_scale_invariant : forall k s D U0 script, 0 < k -> kwiksort (scale_scheme k s) D U0 script = kwiksort s D U0 script.
Proof. exact kwiksort_scale. Qed.
Print Assumptions C11_scale_invariant.
