(** Property C13 — Copeland ranks by pairwise victories and reports consistent features. *)
From Corankco Require Import Prelude Scheme Rank KemenySpec CostTable CostTableProof GroupSort Copeland CopelandProof Scaling CopelandScale.
Local Open Scope Z_scope.

(** an element earns a victory over an opponent exactly when it is cheaper (by the definition of the
    costs) to place it before than after; equal costs give an equality *)
Theorem C13_outcome_def : forall s D i j,
  valid s -> let U := universe D in
  (i < length U)%nat -> (j < length U)%nat -> i <> j ->
  outcome (cost_table s D) i j =
  let '(b, a, _) := cost_spec s D (nth i U 0%nat) (nth j U 0%nat) in Z.compare b a.
Proof. exact copeland_outcome_def. Qed.
Print Assumptions C13_outcome_def.

(** victories of x over y are defeats of y by x *)
Theorem C13_outcome_antisym : forall K i j, i <> j -> outcome K j i = CompOpp (outcome K i j).
Proof. exact outcome_antisym. Qed.
Print Assumptions C13_outcome_antisym.

(** counts sum to n-1 per element *)
Theorem C13_counts_sum : forall K n i,
  (i < n)%nat -> let '(v, e, d) := counts K n i in
  0 <= v /\ 0 <= e /\ 0 <= d /\ v + e + d = Z.of_nat n - 1.
Proof. exact counts_sum. Qed.
Print Assumptions C13_counts_sum.

(** scores (in half points) sum to n(n-1) *)
Theorem C13_scores_sum : forall K n, zsum (map (score2 K n) (seq 0 n)) = Z.of_nat n * (Z.of_nat n - 1).
Proof. exact scores_sum. Qed.
Print Assumptions C13_scores_sum.

(** decreasing score, tied exactly on equal scores *)
Theorem C13_order : forall K n x y,
  let r := copeland_ids K n in
  (x < n)%nat -> (y < n)%nat ->
  (bucket_id r x < bucket_id r y <-> score2 K n y < score2 K n x) /\
  (bucket_id r x = bucket_id r y <-> score2 K n x = score2 K n y).
Proof. exact copeland_ids_order. Qed.
Print Assumptions C13_order.

Theorem C13_wf : forall s D,
  Permutation (elems (copeland s D)) (universe D) /\ Forall (fun b => b <> []) (copeland s D).
Proof. exact copeland_wf. Qed.
Print Assumptions C13_wf.

(** the consensus does not depend on which positive multiple of the scheme is given (the theorem behind the scaled schemes of the
    correspondence runs: the library gets the scheme times 2^k, the model keeps the scheme of the case) *)
Theorem C13_scale_invariant : forall k s D, 0 < k -> copeland (scale_scheme k s) D = copeland s D.
Proof. exact copeland_scale. Qed.
Print Assumptions C13_scale_invariant.
