(** Property C06 — ParCons: the partition admits an optimal consensus; the optimality flag is truthful.
    Status: proved on the model.  (1) EVERY ordered partition without back arcs admits an optimal consensus
    that respects it (exchange lemma).  (2) Decomposition: the concatenation, in the order of the partition, of
    optimal consensuses of the groups is a global optimum ([C06_assembled_optimal]); the sub-problem handed to
    the sub-solvers (projection + re-added empty rankings) has the cost table of the whole problem on the
    group ([C06_sub_problem_table]).  (3) Model of the ParCons assembly with the sub-solvers as parameters:
    its consensus is a ranking of the universe that respects the partition, the mark is set exactly when no
    component is delegated to the auxiliary algorithm, and a marked consensus is a global minimiser provided
    the exact algorithm returns optima of the sub-problems (that is property C05; per run the judge also
    compares against the verified brute-force optimum).  (4) The partition the MODEL computes (Floyd-Warshall closure, classes of mutual reachability
    sorted by number of ancestors) is proved to be an ordered partition without back arcs for every table
    ([C06_model_partition], [C06_parcons_on_model_partition]); igraph's own answer is compared with it as a set of
    groups and run through [is_partition_of] / [no_back_arcs] on every check (igraph's ORDER is the one thing taken
    from the library).  Outside the model: the ILP solver. *)
From Corankco Require Import Prelude Scheme Rank KemenySpec CostTable CostTableProof OptTheory Partition PartitionProof ConsistentProof ParConsProof SccProof ParConsUser.
Local Open Scope Z_scope.

Theorem C06_partition_admits_optimum : forall K U P,
  mirror K -> NoDup U -> wfU U P -> no_back K U (bucket_id P) ->
  exists c, is_optimal K U c /\ Forall (fun b => b <> []) c /\
            forall x y, In x U -> In y U -> bucket_id P x < bucket_id P y -> bucket_id c x < bucket_id c y.
Proof. exact partition_admits_optimum. Qed.
Print Assumptions C06_partition_admits_optimum.

Theorem C06_parcons_check_sound : forall K U P,
  mirror K -> NoDup U -> is_partition_of U P = true -> no_back_arcs K P = true ->
  exists c, is_optimal K U c /\ Forall (fun b => b <> []) c /\
            forall x y, In x U -> In y U -> bucket_id P x < bucket_id P y -> bucket_id c x < bucket_id c y.
Proof. exact parcons_check_sound. Qed.
Print Assumptions C06_parcons_check_sound.

(** the trivial sub-problems: a component whose pairs can all be tied at minimal cost *)
Theorem C06_all_tied_optimal : forall K G c,
  mirror K -> NoDup G -> can_be_all_tied K G = true -> wfU G c -> score K [G] <= score K c.
Proof. exact all_tied_optimal. Qed.
Print Assumptions C06_all_tied_optimal.

(** the exchange lemma itself *)
Theorem C06_exchange : forall K U g N, mirror K -> forall p,
  no_back K U g -> (forall z, In z U -> 0 <= p z < N) -> scoref K U (regroup g N p) <= scoref K U p.
Proof. intros K U g N M p. exact (exchange K U g N M p). Qed.
Print Assumptions C06_exchange.

(** the oracle used to judge the optimality flag is itself verified: [opt] is a lower bound of every
    ranking with ties of the universe and is attained *)
Theorem C06_opt_lower : forall K U c, mirror K -> NoDup U -> wfU U c -> opt K U <= score K c.
Proof. exact opt_lower. Qed.
Print Assumptions C06_opt_lower.
Theorem C06_opt_attained : forall K U, mirror K -> NoDup U ->
  exists c, wfU U c /\ Forall (fun b => b <> []) c /\ score K c = opt K U.
Proof. exact opt_attained. Qed.
Print Assumptions C06_opt_attained.
Theorem C06_cost_table_mirror : forall s D, valid s -> mirror (cost_spec s D).
Proof. exact cost_spec_mirror'. Qed.
Print Assumptions C06_cost_table_mirror.

(** decomposition along the partition *)
Theorem C06_assembled_optimal : forall K, mirror K -> forall U P cs,
  NoDup U -> wfU U P -> no_back K U (bucket_id P) ->
  Forall2 (fun G cG => wfU G cG /\ score K cG = opt K G) P cs ->
  wfU U (concat cs) /\ before P (concat cs) /\ score K (concat cs) = opt K U.
Proof. exact assembled_optimal. Qed.
Print Assumptions C06_assembled_optimal.

Theorem C06_sub_problem_table : forall s D G x y,
  In x G -> In y G -> cost_spec s (sub_dataset G D) x y = cost_spec s D x y.
Proof. exact sub_dataset_table. Qed.
Print Assumptions C06_sub_problem_table.

(** the mark is set exactly when no component is delegated to the auxiliary algorithm *)
Theorem C06_flag_iff : forall K bound exact aux P,
  snd (parcons K bound exact aux P) = true <->
  forall G, In G P -> can_be_all_tied K G = true \/ (length G <= bound)%nat.
Proof. exact parcons_flag_iff. Qed.
Print Assumptions C06_flag_iff.

(** the ParCons consensus respects the partition; a marked consensus is a global minimiser *)
Theorem C06_parcons : forall s D U P bound exact aux,
  valid s -> NoDup U ->
  let K := cost_spec s D in
  is_partition_of U P = true -> no_back_arcs K P = true ->
  (forall G, In G P -> wfU G (exact G) /\
     score (cost_spec s (sub_dataset G D)) (exact G) = opt (cost_spec s (sub_dataset G D)) G) ->
  (forall G, In G P -> wfU G (aux G)) ->
  let c := fst (parcons K bound exact aux P) in
  wfU U c /\ before P c /\
  (snd (parcons K bound exact aux P) = true -> kemeny_spec s D c = opt K U /\ is_optimal K U c).
Proof. exact parcons_dataset_spec. Qed.
Print Assumptions C06_parcons.

(** the partition computed by the model: an ordered partition of the ids without back arcs, for every table *)
Theorem C06_model_partition : forall K n,
  is_partition_of (seq 0 n) (sccs K n) = true /\ no_back_arcs K (sccs K n) = true.
Proof. intros K n. split; [apply sccs_is_partition|apply sccs_no_back_arcs]. Qed.
Print Assumptions C06_model_partition.

Theorem C06_model_partition_admits_optimum : forall K n, mirror K ->
  exists c, is_optimal K (seq 0 n) c /\ Forall (fun b => b <> []) c /\
            forall x y, In x (seq 0 n) -> In y (seq 0 n) -> bucket_id (sccs K n) x < bucket_id (sccs K n) y -> bucket_id c x < bucket_id c y.
Proof. exact model_partition_admits_optimum. Qed.
Print Assumptions C06_model_partition_admits_optimum.

Theorem C06_parcons_on_model_partition : forall K n bound exact aux,
  mirror K ->
  (forall G, In G (sccs K n) -> wfU G (exact G) /\ score K (exact G) = opt K G) ->
  (forall G, In G (sccs K n) -> wfU G (aux G)) ->
  let P := sccs K n in
  let c := fst (parcons K bound exact aux P) in
  wfU (seq 0 n) c /\ before P c /\ (snd (parcons K bound exact aux P) = true -> score K c = opt K (seq 0 n) /\ is_optimal K (seq 0 n) c).
Proof. exact parcons_on_model_partition. Qed.
Print Assumptions C06_parcons_on_model_partition.

(** the partition, the test that a component can be tied and the no-back-arc test only compare costs: a positive common factor of the
    table changes none of them *)
From Corankco Require Import Scaling.
Theorem C06_partition_scale_invariant : forall k K n, 0 < k -> sccs (scale_table k K) n = sccs K n.
Proof. intros k K n H. apply sccs_scale. exact H. Qed.
Print Assumptions C06_partition_scale_invariant.
Theorem C06_tests_scale_invariant : forall k K, 0 < k ->
  (forall P, no_back_arcs (scale_table k K) P = no_back_arcs K P) /\ (forall G, can_be_all_tied (scale_table k K) G = can_be_all_tied K G).
Proof. intros k K H. split; intros; [apply no_back_arcs_scale|apply can_be_all_tied_scale]; exact H. Qed.
Print Assumptions C06_tests_scale_invariant.
