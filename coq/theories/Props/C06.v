(** Property C06 — ParCons: the partition admits an optimal consensus.
    Status: the guarantee is proved for EVERY ordered partition without back arcs (exchange lemma), and
    as a verified checker for the partition the library returns (igraph's SCC routine is outside the
    model: its answer is run through [is_partition_of] and [no_back_arcs] on every check). The truth of
    the optimality flag and "the consensus respects the partition" are judged per run against the
    verified brute-force optimum [opt] (theorems C06_opt_lower, C06_opt_attained), not proved for all inputs. *)
From Corankco Require Import Prelude Scheme Rank KemenySpec CostTable CostTableProof OptTheory Partition PartitionProof.
Local Open Scope Z_scope.

Theorem C06_partition_admits_optimum : forall K U P,
  mirror K -> NoDup U -> wfU U P -> no_back K U (bucket_id P) ->
  exists c, is_optimal K U c /\ Forall (fun b => b <> []) c /\
            forall x y, In x U -> In y U -> bucket_id P x < bucket_id P y -> bucket_id c x < bucket_id c y.
Proof. exact partition_admits_optimum. Qed.
Print Assumptions C06_partition_admits_optimum.

Theorem C06_parcons_check_sound : forall K U P,
  mirror K -> NoDup U -> is_partition_of U P = true -> no_back_arcs K P = true ->
  exists c, is_optimal K U c /\ Forall (fun b => b <> []) c /\
            forall x y, In x U -> In y U -> bucket_id P x < bucket_id P y -> bucket_id c x < bucket_id c y.
Proof. exact parcons_check_sound. Qed.
Print Assumptions C06_parcons_check_sound.

(** the trivial sub-problems: a component whose pairs can all be tied at minimal cost *)
Theorem C06_all_tied_optimal : forall K G c,
  mirror K -> NoDup G -> can_be_all_tied K G = true -> wfU G c -> score K [G] <= score K c.
Proof. exact all_tied_optimal. Qed.
Print Assumptions C06_all_tied_optimal.

(** the exchange lemma itself *)
Theorem C06_exchange : forall K U g N, mirror K -> forall p,
  no_back K U g -> (forall z, In z U -> 0 <= p z < N) -> scoref K U (regroup g N p) <= scoref K U p.
Proof. intros K U g N M p. exact (exchange K U g N M p). Qed.
Print Assumptions C06_exchange.

(** the oracle used to judge the optimality flag is itself verified: [opt] is a lower bound of every
    ranking with ties of the universe and is attained *)
Theorem C06_opt_lower : forall K U c, mirror K -> NoDup U -> wfU U c -> opt K U <= score K c.
Proof. exact opt_lower. Qed.
Print Assumptions C06_opt_lower.
Theorem C06_opt_attained : forall K U, mirror K -> NoDup U ->
  exists c, wfU U c /\ Forall (fun b => b <> []) c /\ score K c = opt K U.
Proof. exact opt_attained. Qed.
Print Assumptions C06_opt_attained.
Theorem C06_cost_table_mirror : forall s D, valid s -> mirror (cost_spec s D).
Proof. exact cost_spec_mirror'. Qed.
Print Assumptions C06_cost_table_mirror.
