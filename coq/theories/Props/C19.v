(** Property C19 — scoring schemes: validation, scaling and equivalence.
    Only statements; every proof is [exact <lemma>]. *)
From Corankco Require Import Prelude Scheme SchemeProof Rank KemenySpec CostTableProof EquivOrder.
Local Open Scope Z_scope.

(** accepted exactly when two lists of six non-negative numbers with the six relations *)
Theorem C19_construct_ok_iff : forall v s,
  construct v = Ok s <->
  exists bs ts, v = PList [PList bs; PList ts] /\ numeric bs (Bl s) /\ numeric ts (Tl s) /\ valid s.
Proof. exact construct_ok_iff. Qed.
Print Assumptions C19_construct_ok_iff.

(** rejected with the specific documented exception otherwise *)
Theorem C19_construct_invalid_iff : forall v, construct v = Err InvalidScheme <-> ~ shape v.
Proof. exact construct_invalid_iff. Qed.
Print Assumptions C19_construct_invalid_iff.

Theorem C19_construct_nonreal_iff : forall v,
  construct v = Err NonRealPositive <->
  exists bs ts, v = PList [PList bs; PList ts] /\ length bs = 6%nat /\ length ts = 6%nat /\
                ~ (all_numbers bs /\ all_numbers ts).
Proof. exact construct_nonreal_iff. Qed.
Print Assumptions C19_construct_nonreal_iff.

Theorem C19_construct_forbidden_iff : forall v,
  construct v = Err ForbiddenAssociation <->
  exists bs ts s, v = PList [PList bs; PList ts] /\ numeric bs (Bl s) /\ numeric ts (Tl s) /\
                  nonneg s /\ ~ relations s.
Proof. exact construct_forbidden_iff. Qed.
Print Assumptions C19_construct_forbidden_iff.

Theorem C19_construct_total : forall v,
  (exists s, construct v = Ok s) \/ construct v = Err InvalidScheme \/
  construct v = Err NonRealPositive \/ construct v = Err ForbiddenAssociation.
Proof. exact construct_total. Qed.
Print Assumptions C19_construct_total.

(** multiplying by a positive number: new valid scheme, every penalty scaled
    (the original is an immutable value of the model; aliasing is decided by C15) *)
Theorem C19_mul_valid : forall s k kz,
  valid s -> num_of k = Some kz -> 0 < kz -> exact kz s ->
  mul s k = Ok (scaled kz s) /\ valid (scaled kz s) /\
  (forall i, Bv (scaled kz s) i * ONE = Bv s i * kz) /\
  (forall i, Tv (scaled kz s) i * ONE = Tv s i * kz).
Proof. exact mul_valid. Qed.
Print Assumptions C19_mul_valid.

Theorem C19_mul_nonpositive : forall s k kz,
  valid s -> num_of k = Some kz -> exact kz s ->
  (kz = 0 -> mul s k = Err ForbiddenAssociation) /\ (kz < 0 -> mul s k = Err NonRealPositive).
Proof. exact mul_nonpositive. Qed.
Print Assumptions C19_mul_nonpositive.

(** ... and scales every Kemeny score by the same factor *)
Theorem C19_kemeny_homogeneous : forall s s' k D c,
  (forall i, Bv s' i * ONE = Bv s i * k) -> (forall i, Tv s' i * ONE = Tv s i * k) ->
  kemeny_spec s' D c * ONE = kemeny_spec s D c * k.
Proof. exact kemeny_spec_homogeneous. Qed.
Print Assumptions C19_kemeny_homogeneous.

(** equivalent exactly when one is a positive multiple of the other on both vectors *)
Theorem C19_is_equivalent_iff : forall stop s1 s2,
  nonneg s1 -> nonneg s2 -> (is_equivalent_generic stop s1 s2 = true <-> equiv_spec stop s1 s2).
Proof. exact is_equivalent_iff. Qed.
Print Assumptions C19_is_equivalent_iff.

(** what equivalence is for: two schemes the library calls equivalent order all candidates alike against every dataset (same
    comparisons, same ties), hence have the same optimal consensuses - the guards of PickAPerm / Borda / BioConsert rely on it *)
Theorem C19_equivalent_schemes_same_order : forall s1 s2,
  nonneg s1 -> nonneg s2 -> is_equivalent_to s1 s2 = true ->
  forall D c1 c2, (kemeny_spec s1 D c1 <= kemeny_spec s1 D c2 <-> kemeny_spec s2 D c1 <= kemeny_spec s2 D c2) /\
                  (kemeny_spec s1 D c1 = kemeny_spec s1 D c2 <-> kemeny_spec s2 D c1 = kemeny_spec s2 D c2).
Proof. exact equivalent_schemes_same_order. Qed.
Print Assumptions C19_equivalent_schemes_same_order.

(** an equivalence relation on schemes with non-negative penalties: nothing is lost by chaining comparisons with the presets *)
Theorem C19_equivalence_relation :
  (forall s, nonneg s -> is_equivalent_to s s = true) /\
  (forall s1 s2, nonneg s1 -> nonneg s2 -> is_equivalent_to s1 s2 = true -> is_equivalent_to s2 s1 = true) /\
  (forall s1 s2 s3, nonneg s1 -> nonneg s2 -> nonneg s3 ->
     is_equivalent_to s1 s2 = true -> is_equivalent_to s2 s3 = true -> is_equivalent_to s1 s3 = true).
Proof. exact (conj is_equivalent_refl (conj is_equivalent_sym is_equivalent_trans)). Qed.
Print Assumptions C19_equivalence_relation.

Theorem C19_equiv_spec_full : forall s1 s2,
  equiv_spec 6 s1 s2 <->
  exists p q, 0 < p /\ 0 < q /\ (forall i, p * Bv s1 i = q * Bv s2 i) /\ (forall i, p * Tv s1 i = q * Tv s2 i).
Proof. exact equiv_spec6. Qed.
Print Assumptions C19_equiv_spec_full.

Theorem C19_equiv_spec_complete_only : forall s1 s2,
  equiv_spec 3 s1 s2 <->
  exists p q, 0 < p /\ 0 < q /\ (forall i, (i < 3)%nat -> p * Bv s1 i = q * Bv s2 i) /\
              (forall i, (i < 3)%nat -> p * Tv s1 i = q * Tv s2 i).
Proof. exact equiv_spec3. Qed.
Print Assumptions C19_equiv_spec_complete_only.

Theorem C19_nickname_spec : forall s,
  nonneg s ->
  (nickname s = UKSP <-> equiv_spec 6 s unifying) /\
  (nickname s = GPDP <-> equiv_spec 6 s pseudodistance) /\
  (nickname s = IGKS <-> equiv_spec 6 s induced) /\
  (nickname s = EKS <-> equiv_spec 6 s extended) /\
  (nickname s = NoNick <-> ~ equiv_spec 6 s unifying /\ ~ equiv_spec 6 s pseudodistance /\
                           ~ equiv_spec 6 s induced /\ ~ equiv_spec 6 s extended).
Proof. exact nickname_spec. Qed.
Print Assumptions C19_nickname_spec.

(** the B-only test of the pinned commit is not that relation (finding F12, repaired) *)
Theorem C19_legacy_equivalence_refuted :
  exists s1 s2, valid s1 /\ valid s2 /\ is_equivalent_generic_legacy 6 s1 s2 = true /\ ~ equiv_spec 6 s1 s2.
Proof. exact legacy_equivalence_refuted. Qed.
Print Assumptions C19_legacy_equivalence_refuted.
