(** Property C17 — dataset equality means same multiset of rankings, nothing else. *)
From Corankco Require Import Prelude Parser DatasetModel DatasetProof.
Local Open Scope Z_scope.

(** equal exactly when every ranking (buckets as sets, in the same order) has the same multiplicity *)
Theorem C17_eq_spec : forall a b, dataset_eqb a b = true <-> forall r, count_r r a = count_r r b.
Proof. exact dataset_eqb_spec. Qed.
Print Assumptions C17_eq_spec.

Theorem C17_ranking_equality : forall r1 r2,
  req r1 r2 <-> Forall2 (fun a b => forall x, In x a <-> In x b) r1 r2.
Proof. exact req_spec. Qed.
Print Assumptions C17_ranking_equality.

Theorem C17_reflexive : forall a, dataset_eqb a a = true.
Proof. exact dataset_eqb_refl. Qed.
Print Assumptions C17_reflexive.
Theorem C17_symmetric : forall a b, dataset_eqb a b = dataset_eqb b a.
Proof. exact dataset_eqb_sym. Qed.
Print Assumptions C17_symmetric.
(** with reflexivity and symmetry: an equivalence relation (a == b and b == c leave no room for a != c) *)
Theorem C17_transitive : forall a b c, dataset_eqb a b = true -> dataset_eqb b c = true -> dataset_eqb a c = true.
Proof.
  intros a b c H1 H2. apply dataset_eqb_spec. intros r.
  rewrite (proj1 (dataset_eqb_spec a b) H1 r). exact (proj1 (dataset_eqb_spec b c) H2 r).
Qed.
Print Assumptions C17_transitive.

(** irrespective of the order of the rankings *)
Theorem C17_order_of_rankings : forall a a' b, Permutation a a' -> dataset_eqb a b = dataset_eqb a' b.
Proof. exact dataset_eqb_perm. Qed.
Print Assumptions C17_order_of_rankings.

(** irrespective of the order in which bucket members are inserted or iterated *)
Theorem C17_listing_of_buckets : forall a a' b, Forall2 req a a' -> dataset_eqb a b = dataset_eqb a' b.
Proof. exact dataset_eqb_listing. Qed.
Print Assumptions C17_listing_of_buckets.

(** consistent with ranking equality *)
Theorem C17_consistent_with_ranking_eq : forall r1 r2, dataset_eqb [r1] [r2] = nranking_eqb r1 r2.
Proof. exact dataset_eqb_single. Qed.
Print Assumptions C17_consistent_with_ranking_eq.
