(** Property C15 — computing a consensus never modifies its inputs; results are repeatable.
    The theorems are about the abstract machine (see History.v); refinement of that machine by the Python
    objects is decided by the history correspondence (snapshots compared in Coq after every call). *)
From Corankco Require Import Prelude History.

Theorem C15_step_pure : forall (state op out : Type) (run : state -> op -> out) st o,
  fst (step state op out run st o) = st.
Proof. exact step_pure. Qed.
Print Assumptions C15_step_pure.

Theorem C15_history_leaves_inputs_unchanged : forall (state op out : Type) (run : state -> op -> out) st os,
  fst (exec state op out run st os) = st.
Proof. exact exec_state. Qed.
Print Assumptions C15_history_leaves_inputs_unchanged.

Theorem C15_history_equals_fresh_copies : forall (state op out : Type) (run : state -> op -> out) st os,
  snd (exec state op out run st os) = map (run st) os.
Proof. exact exec_outputs. Qed.
Print Assumptions C15_history_equals_fresh_copies.

Theorem C15_repeatable : forall (state op out : Type) (run : state -> op -> out) st o os1 os2,
  nth (length os1) (snd (exec state op out run st (os1 ++ o :: os2))) (run st o) =
  nth (length os1 + 1 + length os2) (snd (exec state op out run st (os1 ++ o :: os2 ++ [o]))) (run st o).
Proof. exact repeatable. Qed.
Print Assumptions C15_repeatable.
