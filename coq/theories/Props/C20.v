(** Property C20 — the random generators deliver valid rankings of the requested shape.
    [randint] and [shuffle] are inputs of the model: the theorems hold for every script. *)
From Corankco Require Import Prelude Rank Markov MarkovProof.
Local Open Scope Z_scope.

(** every single Markov move preserves the dense-bucket-numbering invariant *)
Theorem C20_add_left : forall v e,
  Dense v -> (e < length v)%nat -> 0 <= get v e -> Dense (add_left v e) /\ length (add_left v e) = length v.
Proof. exact add_left_dense. Qed.
Print Assumptions C20_add_left.
Theorem C20_add_right : forall v e,
  Dense v -> (e < length v)%nat -> 0 <= get v e -> Dense (add_right v e) /\ length (add_right v e) = length v.
Proof. exact add_right_dense. Qed.
Print Assumptions C20_add_right.
Theorem C20_change_left : forall v e,
  Dense v -> (e < length v)%nat -> 0 <= get v e -> Dense (change_left v e) /\ length (change_left v e) = length v.
Proof. exact change_left_dense. Qed.
Print Assumptions C20_change_left.
Theorem C20_change_right : forall v e,
  Dense v -> (e < length v)%nat -> 0 <= get v e -> Dense (change_right v e) /\ length (change_right v e) = length v.
Proof. exact change_right_dense. Qed.
Print Assumptions C20_change_right.
Theorem C20_remove_element : forall v e,
  Dense v -> (e < length v)%nat -> 0 <= get v e ->
  Dense (remove_element v e) /\ length (remove_element v e) = length v /\ get (remove_element v e) e = -1.
Proof. exact remove_element_dense. Qed.
Print Assumptions C20_remove_element.
Theorem C20_put_element_first : forall v e,
  Dense v -> (e < length v)%nat -> get v e = -1 ->
  Dense (put_element_first v e) /\ length (put_element_first v e) = length v /\ get (put_element_first v e) e = 0.
Proof. exact put_element_first_dense. Qed.
Print Assumptions C20_put_element_first.

(** every walk: dense numbering, length n, no absent element (complete) / missing set = the -1 entries *)
Theorem C20_walk_complete : forall n script v,
  Inv_c n v -> Forall (fun ea => (fst ea < n)%nat) script -> Inv_c n (walk_complete script v).
Proof. exact walk_complete_inv. Qed.
Print Assumptions C20_walk_complete.
Theorem C20_walk_incomplete : forall n script st,
  Inv_i n st -> Forall (fun ea => (fst ea < n)%nat) script -> Inv_i n (walk_incomplete script st).
Proof. exact walk_incomplete_inv. Qed.
Print Assumptions C20_walk_incomplete.

(** decoding a dense vector: non-empty, pairwise disjoint buckets whose union is the present elements *)
Theorem C20_to_buckets : forall v,
  Dense v ->
  let r := to_buckets v in
  Forall (fun b => b <> []) r /\ NoDup (concat r) /\
  (forall e, In e (concat r) <-> (e < length v)%nat /\ 0 <= get v e).
Proof. exact to_buckets_wf. Qed.
Print Assumptions C20_to_buckets.

(** complete option: a ranking is always produced and contains exactly the n elements 0..n-1 *)
Theorem C20_generate_complete : forall n script,
  (0 < n)%nat -> Forall (fun ea => (fst ea < n)%nat) script ->
  exists r, generate_one n true script = Some r /\
            Forall (fun b => b <> []) r /\ NoDup (concat r) /\ (forall e, In e (concat r) <-> (e < n)%nat).
Proof. exact generate_complete. Qed.
Print Assumptions C20_generate_complete.

(** incomplete option: valid partial ranking, or nothing exactly when every element was removed *)
Theorem C20_generate_incomplete : forall n script,
  Forall (fun ea => (fst ea < n)%nat) script ->
  match generate_one n false script with
  | Some r => r <> [] /\ Forall (fun b => b <> []) r /\ NoDup (concat r) /\ (forall e, In e (concat r) -> (e < n)%nat)
  | None => forall e, (e < n)%nat -> get (fst (walk_incomplete script (init n, []))) e = -1
  end.
Proof. exact generate_incomplete. Qed.
Print Assumptions C20_generate_incomplete.

Theorem C20_uniform : forall n p,
  Permutation p (seq 1 n) ->
  let r := uniform_ranking p in
  Forall (fun b => length b = 1%nat) r /\ NoDup (concat r) /\ Permutation (concat r) (seq 1 n).
Proof. exact uniform_ranking_wf. Qed.
Print Assumptions C20_uniform.

(** non-vacuity: a concrete walk from the initial vector satisfies the hypotheses *)
Example C20_example :
  Inv_c 4 (init 4) /\ walk_complete [(1%nat, 3); (2%nat, 1); (0%nat, 4); (3%nat, 3); (1%nat, 2)] (init 4) = [1; 0; 1; 1]
  /\ generate_one 3 false [(0%nat, 5); (1%nat, 5); (2%nat, 5)] = None
  /\ generate_one 3 false [(0%nat, 5); (1%nat, 3); (0%nat, 5)] = Some [[0%nat]; [1%nat]; [2%nat]].
Proof. split; [apply init_inv_c|]. vm_compute. auto. Qed.
