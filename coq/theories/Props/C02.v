(** Property C02 — the pairwise cost table matches the definition and sums to the Kemeny score. *)
From Corankco Require Import Prelude Scheme Rank KemenySpec CostTable CostTableProof.
Local Open Scope Z_scope.

(** for each ordered pair of distinct ids the three entries are the total penalties, summed over the
    input rankings, of placing x before y, x after y, x tied with y *)
Theorem C02_cost_table_spec : forall s D i j,
  valid s -> let U := universe D in
  (i < length U)%nat -> (j < length U)%nat -> i <> j ->
  cost_table s D i j = cost_spec s D (nth i U 0%nat) (nth j U 0%nat).
Proof. exact cost_table_spec. Qed.
Print Assumptions C02_cost_table_spec.

Theorem C02_cost_table_diag : forall s D i, cost_table s D i i = (0, 0, 0).
Proof. exact cost_table_diag. Qed.
Print Assumptions C02_cost_table_diag.

(** mirror consistency: before(x,y) = after(y,x), tied(x,y) = tied(y,x) *)
Theorem C02_entry_mirror : forall s P i j,
  let '(b, a, t) := entry s P i j in entry s P j i = (a, b, t).
Proof. exact entry_mirror. Qed.
Print Assumptions C02_entry_mirror.

Theorem C02_cost_spec_mirror : forall s D x y,
  t0 s = t1 s -> t3 s = t4 s ->
  let '(b, a, t) := cost_spec s D x y in cost_spec s D y x = (a, b, t).
Proof. exact cost_spec_mirror. Qed.
Print Assumptions C02_cost_spec_mirror.

(** the same whether built from positions or from bucket ids *)
Theorem C02_positions_vs_bucket_ids : forall s U D i j,
  (i < length U)%nat -> (j < length U)%nat ->
  entry s (positions U D) i j = entry s (bucket_ids U D) i j.
Proof. exact entry_positions_bucket_ids. Qed.
Print Assumptions C02_positions_vs_bucket_ids.

(** for every complete candidate the selected entries add up to the candidate's Kemeny score *)
Theorem C02_sums_to_kemeny : forall s D c,
  valid s -> wf_ranking c -> incl (elems c) (universe D) ->
  score (table_on (universe D) (cost_table s D)) c = kemeny_spec s D c.
Proof. exact cost_table_sums_to_kemeny. Qed.
Print Assumptions C02_sums_to_kemeny.

Theorem C02_score_of_definition_table : forall s D c, score (cost_spec s D) c = kemeny_spec s D c.
Proof. exact score_cost_spec. Qed.
Print Assumptions C02_score_of_definition_table.

(** multiplying the scheme by a number multiplies every entry of the table by that number (the entry of the scaled scheme is computed
    by the same model; used by the correspondence runs that hand the library the scheme times a power of two) *)
From Corankco Require Import Scaling.
Theorem C02_table_homogeneous : forall k s D i j, (i < length (universe D))%nat -> (j < length (universe D))%nat ->
  cost_table (scale_scheme k s) D i j = scale_table k (cost_table s D) i j.
Proof. exact cost_table_scale. Qed.
Print Assumptions C02_table_homogeneous.
