(** C08 / C09: what the boolean tests evaluated on BioConsert's answers mean, and the selection step. *)
From Corankco Require Import Prelude Scheme Rank KemenySpec CostTable OptTheory Markov Borda BioConsert
     Judge.JC19 Judge.JC13 Judge.JC20 Judge.JC02 Judge.JOpt Judge.JBio.
Local Open Scope Z_scope.

(** the ranking obtained from [r] by moving element [e] to doubled position [np] *)
Definition moved_ranking (n : nat) (r : vec) (e : nat) (np : Z) : ranking := rank_of (seq 0 n) (moved r e np).
Definition base_ranking (n : nat) (r : vec) : ranking := rank_of (seq 0 n) (base r).

(** soundness of the local-optimality test: if it answers true then moving any single element into any
    existing bucket (doubled position 2b) or into a new bucket inserted before any position p (2p-1)
    never lowers the score of the ranking by more than the threshold *)
Theorem local_opt_sound K n r thr :
  mirror K -> local_opt K n r thr = true ->
  forall e, (e < n)%nat ->
    (forall b, 0 <= b <= vmax r -> score K (base_ranking n r) - thr <= score K (moved_ranking n r e (2 * b))) /\
    (forall p, 0 <= p <= vmax r + 1 -> score K (base_ranking n r) - thr <= score K (moved_ranking n r e (2 * p - 1))).
Proof.
  intros M H e He. unfold local_opt in H. rewrite forallb_forall in H.
  specialize (H e ltac:(apply in_seq; lia)). apply andb_true_iff in H as [H1 H2].
  rewrite forallb_forall in H1, H2. unfold base_ranking, moved_ranking.
  rewrite !score_rank_of by (try assumption; apply seq_NoDup). split.
  - intros b Hb. specialize (H1 (Z.to_nat b) ltac:(apply in_seq; lia)).
    rewrite Z2Nat.id in H1 by lia. rewrite score_rank_of by (try assumption; apply seq_NoDup). lia.
  - intros p Hp. specialize (H2 (Z.to_nat p) ltac:(apply in_seq; lia)).
    rewrite Z2Nat.id in H2 by lia. rewrite score_rank_of by (try assumption; apply seq_NoDup). lia.
Qed.

(** the ranking read from the bucket-id vector is the one the vector denotes: same order, same ties *)
Theorem base_ranking_order n r x y :
  (x < n)%nat -> (y < n)%nat ->
  Z.compare (bucket_id (base_ranking n r) x) (bucket_id (base_ranking n r) y) = Z.compare (get r x) (get r y).
Proof.
  intros Hx Hy. unfold base_ranking.
  destruct (rank_of_spec (seq 0 n) (base r) (seq_NoDup n 0)) as (_ & _ & C).
  rewrite (C x y ltac:(apply in_seq; lia) ltac:(apply in_seq; lia)). unfold base.
  destruct (Z.compare_spec (get r x) (get r y)) as [E|E|E].
  - rewrite E. apply Z.compare_refl.
  - apply Z.compare_lt_iff. lia.
  - apply Z.compare_gt_iff. lia.
Qed.

(** selection: the reported score is the minimum over the departures' results, and every returned
    vector is a result with that score *)
Lemma fold_min_le s l x : In x (s :: l) -> fold_right Z.min s l <= x.
Proof.
  intros [<-|H].
  - induction l; simpl; lia.
  - induction l as [|a l IH]; [destruct H|]. simpl. destruct H as [<-|H]; [lia|specialize (IH H); lia].
Qed.

Theorem select_best_min one U results :
  results <> [] ->
  let '(best, _) := select_best one U results in
  forall rs, In rs results -> best <= snd rs.
Proof.
  intros Hne. unfold select_best. destruct results as [|[v0 s0] results]; [contradiction|]. simpl map.
  intros rs Hin. apply fold_min_le. destruct Hin as [<-|Hin]; [left; reflexivity|right; apply in_map; assumption].
Qed.
