(** The merge step of [KemenyComputingFactory.__merge] with its equal-run branch, and the
    lemma that it counts cross inversions ([s_1[1]]) and cross equal pairs ([s_2[0]]). *)
From Corankco Require Import Prelude.
From Coq Require Import Sorting.Sorted.
Local Open Scope Z_scope.

(* specification counters *)
Definition cnt (P : nat -> bool) (l : list nat) : Z := Z.of_nat (length (filter P l)).
Definition cross_gt (l r : list nat) : Z := zsum (map (fun a => cnt (fun b => b <? a)%nat r) l).
Definition cross_eq (l r : list nat) : Z := zsum (map (fun a => cnt (fun b => b =? a)%nat r) l).

(* span of the run of values equal to v at the head of l *)
Fixpoint span_eq (v : nat) (l : list nat) : nat * list nat :=
  match l with
  | a :: t => if (a =? v)%nat then let '(c, rest) := span_eq v t in (S c, rest) else (O, l)
  | [] => (O, [])
  end.

(* model of __merge: returns merged list, added inversions (s_1[1]), added equal pairs (s_2[0]) *)
Fixpoint merge (fuel : nat) (l r : list nat) : option (list nat * Z * Z) :=
  match fuel with
  | O => None
  | S f =>
    match l, r with
    | [], _ => Some (r, 0, 0)
    | _, [] => Some (l, 0, 0)
    | a :: l', b :: r' =>
      if (a <? b)%nat then
        match merge f l' r with Some (m, i, e) => Some (a :: m, i, e) | None => None end
      else if (b <? a)%nat then
        match merge f l r' with
        | Some (m, i, e) => Some (b :: m, i + Z.of_nat (length l), e) | None => None end
      else
        let '(c1, l1) := span_eq a l in
        let '(c2, r1) := span_eq a r in
        match merge f l1 r1 with
        | Some (m, i, e) =>
            Some (repeat a (c1 + c2) ++ m,
                  i + Z.of_nat c2 * Z.of_nat (length l1),
                  e + Z.of_nat c1 * Z.of_nat c2)
        | None => None end
    end
  end.

(* ---------- lemmas ---------- *)
Definition lb (v : nat) (l : list nat) := Forall (fun x => (v <= x)%nat) l.
Definition slb (v : nat) (l : list nat) := Forall (fun x => (v < x)%nat) l.
Definition sorted := Sorted Nat.le.

Lemma sorted_lb a l : sorted (a :: l) -> lb a l.
Proof.
  intros H. apply Sorted_StronglySorted in H; [|intros x y z; apply Nat.le_trans].
  inversion H; subst. assumption.
Qed.
Lemma sorted_tl a l : sorted (a :: l) -> sorted l.
Proof. intros H; inversion H; assumption. Qed.

Lemma cnt_nil P : cnt P [] = 0. Proof. reflexivity. Qed.
Lemma cnt_cons P a l : cnt P (a :: l) = (if P a then 1 else 0) + cnt P l.
Proof. unfold cnt; simpl; destruct (P a); simpl length; lia. Qed.
Lemma cnt_nonneg P l : 0 <= cnt P l. Proof. unfold cnt; lia. Qed.
Lemma cnt_app P l1 l2 : cnt P (l1 ++ l2) = cnt P l1 + cnt P l2.
Proof. unfold cnt. rewrite filter_app, app_length. lia. Qed.

Lemma cnt_all P l : Forall (fun x => P x = true) l -> cnt P l = Z.of_nat (length l).
Proof. induction 1; [reflexivity|]. rewrite cnt_cons, H, IHForall. simpl length. lia. Qed.
Lemma cnt_none P l : Forall (fun x => P x = false) l -> cnt P l = 0.
Proof. induction 1; [reflexivity|]. rewrite cnt_cons, H, IHForall. lia. Qed.

Lemma cross_gt_cons_l a l r : cross_gt (a :: l) r = cnt (fun b => b <? a)%nat r + cross_gt l r.
Proof. reflexivity. Qed.
Lemma cross_eq_cons_l a l r : cross_eq (a :: l) r = cnt (fun b => b =? a)%nat r + cross_eq l r.
Proof. reflexivity. Qed.
Lemma cross_gt_nil_r l : cross_gt l [] = 0.
Proof. induction l; [reflexivity|]. rewrite cross_gt_cons_l, IHl. reflexivity. Qed.
Lemma cross_eq_nil_r l : cross_eq l [] = 0.
Proof. induction l; [reflexivity|]. rewrite cross_eq_cons_l, IHl. reflexivity. Qed.
Lemma cross_gt_cons_r l b r : cross_gt l (b :: r) = cnt (fun a => b <? a)%nat l + cross_gt l r.
Proof.
  induction l as [|a l IH]; [reflexivity|].
  rewrite !cross_gt_cons_l, IH, !cnt_cons. lia.
Qed.
Lemma cross_eq_cons_r l b r : cross_eq l (b :: r) = cnt (fun a => b =? a)%nat l + cross_eq l r.
Proof.
  induction l as [|a l IH]; [reflexivity|].
  rewrite !cross_eq_cons_l, IH, !cnt_cons. lia.
Qed.
Lemma cross_gt_app_l l1 l2 r : cross_gt (l1 ++ l2) r = cross_gt l1 r + cross_gt l2 r.
Proof. induction l1; simpl; [lia|]. rewrite !cross_gt_cons_l, IHl1. lia. Qed.
Lemma cross_eq_app_l l1 l2 r : cross_eq (l1 ++ l2) r = cross_eq l1 r + cross_eq l2 r.
Proof. induction l1; simpl; [lia|]. rewrite !cross_eq_cons_l, IHl1. lia. Qed.
Lemma cross_gt_app_r l r1 r2 : cross_gt l (r1 ++ r2) = cross_gt l r1 + cross_gt l r2.
Proof. induction l; simpl; [reflexivity|]. rewrite !cross_gt_cons_l, IHl, cnt_app. lia. Qed.
Lemma cross_eq_app_r l r1 r2 : cross_eq l (r1 ++ r2) = cross_eq l r1 + cross_eq l r2.
Proof. induction l; simpl; [reflexivity|]. rewrite !cross_eq_cons_l, IHl, cnt_app. lia. Qed.

(* span_eq on a list bounded below by v *)
Lemma span_eq_spec v l : sorted l -> lb v l ->
  let '(c, rest) := span_eq v l in
  l = repeat v c ++ rest /\ slb v rest /\ sorted rest.
Proof.
  induction l as [|a t IH]; intros Hs Hl; simpl.
  - repeat split; constructor.
  - inversion Hl as [|? ? Ha Ht]; subst.
    destruct (Nat.eqb_spec a v) as [->|Hne].
    + specialize (IH (sorted_tl _ _ Hs) Ht). destruct (span_eq v t) as [c rest].
      destruct IH as (E & S1 & S2). simpl. rewrite <- E. auto.
    + repeat split; auto.
      assert (v < a)%nat by lia.
      constructor; [assumption|].
      pose proof (sorted_lb _ _ Hs) as Hb.
      eapply Forall_impl; [|exact Hb]. simpl; intros; lia.
Qed.

Lemma cnt_lt_repeat a c l : cnt (fun b => b <? a)%nat (repeat a c ++ l) = cnt (fun b => b <? a)%nat l.
Proof. induction c; simpl; [reflexivity|]. rewrite cnt_cons, Nat.ltb_irrefl. lia. Qed.

Lemma slb_cnt_lt v l : slb v l -> cnt (fun x => v <? x)%nat l = Z.of_nat (length l).
Proof. intros H. apply cnt_all. eapply Forall_impl; [|exact H]. intros x Hx; apply Nat.ltb_lt; exact Hx. Qed.
Lemma slb_cnt_eq v l : slb v l -> cnt (fun x => v =? x)%nat l = 0.
Proof. intros H. apply cnt_none. eapply Forall_impl; [|exact H]. simpl; intros x Hx; apply Nat.eqb_neq; lia. Qed.
Lemma slb_cnt_eq' v l : slb v l -> cnt (fun x => x =? v)%nat l = 0.
Proof. intros H. apply cnt_none. eapply Forall_impl; [|exact H]. simpl; intros x Hx; apply Nat.eqb_neq; lia. Qed.
Lemma lb_cnt_lt v l : lb v l -> cnt (fun x => x <? v)%nat l = 0.
Proof. intros H. apply cnt_none. eapply Forall_impl; [|exact H]. simpl; intros x Hx; apply Nat.ltb_ge; lia. Qed.

Lemma cross_gt_repeat_l a c r : lb a r -> cross_gt (repeat a c) r = 0.
Proof. intros H. induction c; simpl; [reflexivity|]. rewrite cross_gt_cons_l, IHc, lb_cnt_lt by assumption. lia. Qed.
Lemma cross_gt_repeat_r l a c : slb a l -> cross_gt l (repeat a c) = Z.of_nat c * Z.of_nat (length l).
Proof.
  intros H. induction c; simpl repeat.
  - rewrite cross_gt_nil_r. lia.
  - rewrite cross_gt_cons_r, IHc, slb_cnt_lt by assumption. lia.
Qed.
Lemma cross_eq_repeat_r l a c : slb a l -> cross_eq l (repeat a c) = 0.
Proof.
  intros H. induction c; simpl repeat.
  - apply cross_eq_nil_r.
  - rewrite cross_eq_cons_r, IHc, slb_cnt_eq by assumption. lia.
Qed.
Lemma cross_eq_repeat_l a c r : slb a r -> cross_eq (repeat a c) r = 0.
Proof.
  intros H. induction c; simpl repeat; [reflexivity|].
  rewrite cross_eq_cons_l, IHc, slb_cnt_eq' by assumption. lia.
Qed.
Lemma cross_eq_repeat_both a c1 c2 : cross_eq (repeat a c1) (repeat a c2) = Z.of_nat c1 * Z.of_nat c2.
Proof.
  induction c1; simpl repeat; [reflexivity|].
  rewrite cross_eq_cons_l, IHc1.
  assert (cnt (fun b => b =? a)%nat (repeat a c2) = Z.of_nat c2).
  { rewrite cnt_all; [now rewrite repeat_length|].
    clear. induction c2 as [|c2 IH2]; simpl repeat; constructor; [apply Nat.eqb_refl|exact IH2]. }
  lia.
Qed.

Lemma slb_lb v l : slb v l -> lb v l.
Proof. intros H; eapply Forall_impl; [|exact H]; simpl; intros; lia. Qed.

Lemma lb_app v l1 l2 : lb v l1 -> lb v l2 -> lb v (l1 ++ l2).
Proof. intros; apply Forall_app; auto. Qed.

Lemma lb_perm v l1 l2 : Permutation l1 l2 -> lb v l1 -> lb v l2.
Proof. intros P H. eapply Permutation_Forall; eauto. Qed.

Lemma sorted_cons_lb a m : lb a m -> sorted m -> sorted (a :: m).
Proof. intros Hl Hs. constructor; [assumption|]. destruct m; constructor. inversion Hl; assumption. Qed.

Lemma sorted_repeat_app a c m : lb a m -> sorted m -> sorted (repeat a c ++ m).
Proof.
  intros Hl Hs. induction c; simpl; [assumption|].
  apply sorted_cons_lb; [|assumption].
  apply lb_app; [|assumption]. clear. induction c; simpl; constructor; auto.
Qed.

Theorem merge_correct fuel : forall l r, sorted l -> sorted r -> (length l + length r < fuel)%nat ->
  exists m, merge fuel l r = Some (m, cross_gt l r, cross_eq l r) /\ sorted m /\ Permutation m (l ++ r).
Proof.
  induction fuel as [|f IH]; intros l r Sl Sr Hf; [lia|].
  destruct l as [|a l']; [|destruct r as [|b r']].
  - simpl. exists r. repeat split; auto.
  - simpl. exists (a :: l'). rewrite cross_gt_nil_r, cross_eq_nil_r, app_nil_r. repeat split; auto.
  - pose proof (sorted_lb _ _ Sl) as La. pose proof (sorted_lb _ _ Sr) as Lb.
    cbn [merge].
    destruct (Nat.ltb_spec a b) as [Hab|Hab].
    + (* a < b *)
      destruct (IH l' (b :: r') (sorted_tl _ _ Sl) Sr) as (m & E & Sm & Pm); [simpl in *; lia|].
      rewrite E. exists (a :: m). split; [|split].
      * rewrite cross_gt_cons_l, cross_eq_cons_l.
        assert (lb a (b :: r')) as Hl by (constructor; [lia|]; eapply Forall_impl; [|exact Lb]; simpl; intros; lia).
        rewrite (lb_cnt_lt a) by assumption.
        rewrite (cnt_none (fun b0 => b0 =? a)%nat).
        2:{ constructor; [apply Nat.eqb_neq; lia|]. eapply Forall_impl; [|exact Lb]. simpl; intros; apply Nat.eqb_neq; lia. }
        f_equal.
      * apply sorted_cons_lb; [|assumption].
        eapply lb_perm; [apply Permutation_sym; exact Pm|].
        apply lb_app; [assumption|]. constructor; [lia|]. eapply Forall_impl; [|exact Lb]; simpl; intros; lia.
      * simpl. constructor. assumption.
    + destruct (Nat.ltb_spec b a) as [Hba|Hba].
      * (* b < a *)
        destruct (IH (a :: l') r' Sl (sorted_tl _ _ Sr)) as (m & E & Sm & Pm); [simpl in *; lia|].
        rewrite E. exists (b :: m). split; [|split].
        -- rewrite cross_gt_cons_r, cross_eq_cons_r.
           assert (slb b (a :: l')) as Hs by (constructor; [lia|]; eapply Forall_impl; [|exact La]; simpl; intros; lia).
           rewrite slb_cnt_lt, slb_cnt_eq by assumption.
           repeat (f_equal; try lia).
        -- apply sorted_cons_lb; [|assumption].
           eapply lb_perm; [apply Permutation_sym; exact Pm|].
           apply lb_app; [|assumption]. constructor; [lia|]. eapply Forall_impl; [|exact La]; simpl; intros; lia.
        -- eapply Permutation_trans; [apply perm_skip; exact Pm|].
           apply Permutation_middle.
      * (* a = b *)
        assert (a = b) by lia. subst b.
        pose proof (span_eq_spec a (a :: l') Sl (Forall_cons _ (Nat.le_refl a) La)) as H1.
        pose proof (span_eq_spec a (a :: r') Sr (Forall_cons _ (Nat.le_refl a) Lb)) as H2.
        destruct (span_eq a (a :: l')) as [c1 l1]. destruct (span_eq a (a :: r')) as [c2 r1].
        destruct H1 as (E1 & S1 & So1). destruct H2 as (E2 & S2 & So2).
        assert (length (a :: l') = c1 + length l1)%nat as Len1 by (rewrite E1, app_length, repeat_length; reflexivity).
        assert (length (a :: r') = c2 + length r1)%nat as Len2 by (rewrite E2, app_length, repeat_length; reflexivity).
        assert (c1 >= 1)%nat as C1.
        { destruct c1; [|lia]. simpl in E1. subst l1. inversion S1; lia. }
        destruct (IH l1 r1 So1 So2) as (m & E & Sm & Pm); [simpl in *; lia|].
        rewrite E. exists (repeat a (c1 + c2) ++ m). split; [|split].
        -- rewrite E1, E2.
           rewrite cross_gt_app_l, !cross_gt_app_r, cross_eq_app_l, !cross_eq_app_r.
           rewrite (cross_gt_repeat_l a c1 (repeat a c2)).
           2:{ clear. induction c2; simpl; constructor; auto. }
           rewrite (cross_gt_repeat_l a c1 r1) by (apply slb_lb; assumption).
           rewrite (cross_gt_repeat_r l1 a c2) by assumption.
           rewrite cross_eq_repeat_both, (cross_eq_repeat_l a c1 r1), (cross_eq_repeat_r l1 a c2) by assumption.
           repeat (f_equal; try lia).
        -- apply sorted_repeat_app; [|assumption].
           eapply lb_perm; [apply Permutation_sym; exact Pm|].
           apply lb_app; apply slb_lb; assumption.
        -- rewrite E1, E2, repeat_app, <- !app_assoc.
           apply Permutation_app_head.
           eapply Permutation_trans; [apply Permutation_app_head; exact Pm|].
           apply Permutation_app_swap_app.
Qed.

