(** Multiplying a scoring scheme by a positive number multiplies every entry of the pairwise cost table by that number, and nothing that
    is decided by COMPARING costs changes: arcs, robust arcs, the strongly connected components and their order, the ParFront merge,
    the "can be all tied" test, the no-back-arc test.  This is what allows the correspondence runs to hand the library the scheme of a
    case times a power of two while the model keeps the scheme of the case ([Suite.scaled_rate] in the harness). *)
From Corankco Require Import Prelude Scheme Rank KemenySpec CostTable OptTheory Partition.
Local Open Scope Z_scope.

Definition scale_scheme (k : Z) (s : scheme) : scheme :=
  mkS (k * b0 s) (k * b1 s) (k * b2 s) (k * b3 s) (k * b4 s) (k * b5 s)
      (k * t0 s) (k * t1 s) (k * t2 s) (k * t3 s) (k * t4 s) (k * t5 s).
Definition scale3 (k : Z) (x : Z * Z * Z) : Z * Z * Z := let '(a, b, c) := x in (k * a, k * b, k * c).
Definition scale_table (k : Z) (K : table) : table := fun i j => scale3 k (K i j).

Lemma step6_scale k s acc p1 p2 : step6 (scale_scheme k s) (scale3 k acc) p1 p2 = scale3 k (step6 s acc p1 p2).
Proof.
  destruct acc as [[a b] c]. unfold step6, scale3, scale_scheme. cbn [b0 b1 b2 b3 b4 b5 t0 t1 t2 t3 t4 t5].
  destruct (negb (p1 =? -1) && negb (p2 =? -1)); [destruct (p1 <? p2); [|destruct (p2 <? p1)]|
    destruct (negb (p1 =? -1)); [|destruct (negb (p2 =? -1))]]; rewrite <- !Z.mul_add_distr_l; reflexivity.
Qed.

Lemma acc_pair_scale k s l1 : forall l2 acc,
  acc_pair (scale_scheme k s) l1 l2 (scale3 k acc) = scale3 k (acc_pair s l1 l2 acc).
Proof.
  induction l1 as [|p1 l1 IH]; intros [|p2 l2] acc; cbn [acc_pair]; try reflexivity.
  rewrite step6_scale. apply IH.
Qed.

Lemma scale3_zero k : scale3 k (0, 0, 0) = (0, 0, 0).
Proof. unfold scale3. rewrite Z.mul_0_r. reflexivity. Qed.

Lemma acc_pair_scale0 k s l1 l2 : acc_pair (scale_scheme k s) l1 l2 (0, 0, 0) = scale3 k (acc_pair s l1 l2 (0, 0, 0)).
Proof. rewrite <- acc_pair_scale, scale3_zero. reflexivity. Qed.

Lemma entry_scale k s P i j : entry (scale_scheme k s) P i j = scale3 k (entry s P i j).
Proof.
  unfold entry.
  destruct (Nat.ltb i j); [apply acc_pair_scale0|].
  destruct (Nat.ltb j i).
  - rewrite acc_pair_scale0. destruct (acc_pair s (nth j P []) (nth i P []) (0, 0, 0)) as [[a b] c]. reflexivity.
  - symmetry. apply scale3_zero.
Qed.

(** the cost table of the scaled scheme is the scaled cost table, entry by entry *)
Theorem cost_table_scale k s D i j : (i < length (universe D))%nat -> (j < length (universe D))%nat ->
  cost_table (scale_scheme k s) D i j = scale_table k (cost_table s D) i j.
Proof.
  intros Hi Hj. unfold cost_table, scale_table, table_of, cost_matrix.
  set (P := positions (universe D) D).
  assert (L : length P = length (universe D)) by (unfold P, positions; apply map_length).
  rewrite L.
  (* direct computation of the (i, j) entry on both sides *)
  assert (E : forall (f : nat -> nat -> Z * Z * Z) n, (i < n)%nat -> (j < n)%nat ->
            nth j (nth i (map (fun i => map (fun j => f i j) (seq 0 n)) (seq 0 n)) []) (0, 0, 0) = f i j).
  { intros f n Hi' Hj'.
    rewrite (nth_indep _ [] (map (fun j => f 0%nat j) (seq 0 n))) by (rewrite map_length, seq_length; assumption).
    rewrite (map_nth (fun i => map (fun j => f i j) (seq 0 n)) (seq 0 n) 0%nat i).
    rewrite seq_nth by assumption. rewrite Nat.add_0_l.
    rewrite (nth_indep _ (0, 0, 0) (f i 0%nat)) by (rewrite map_length, seq_length; assumption).
    rewrite (map_nth (fun j => f i j) (seq 0 n) 0%nat j). rewrite seq_nth by assumption. reflexivity. }
  rewrite !E by assumption. apply entry_scale.
Qed.

Lemma forallb_ext {A} (f g : A -> bool) (l : list A) : (forall x, f x = g x) -> forallb f l = forallb g l.
Proof. intros H. induction l as [|x l IH]; cbn [forallb]; [reflexivity|]. rewrite H, IH. reflexivity. Qed.

(** * what depends on comparisons only *)
Section Ext.
  Variables (k : Z) (K : table).
  Hypothesis kpos : 0 < k.

  Lemma arc_scale i j : arc (scale_table k K) i j = arc K i j.
  Proof.
    unfold arc, scale_table, scale3. destruct (K i j) as [[b a] t].
    assert (H1 : (k * b <? k * a) = (b <? a)) by (destruct (Z.ltb_spec b a), (Z.ltb_spec (k * b) (k * a)); try reflexivity; nia).
    assert (H2 : (k * t <? k * a) = (t <? a)) by (destruct (Z.ltb_spec t a), (Z.ltb_spec (k * t) (k * a)); try reflexivity; nia).
    rewrite H1, H2. reflexivity.
  Qed.

  Lemma robust_arc_scale i j : robust_arc (scale_table k K) i j = robust_arc K i j.
  Proof.
    unfold robust_arc, scale_table, scale3. destruct (K i j) as [[b a] t].
    assert (H1 : (k * b <? k * a) = (b <? a)) by (destruct (Z.ltb_spec b a), (Z.ltb_spec (k * b) (k * a)); try reflexivity; nia).
    assert (H2 : (k * b <? k * t) = (b <? t)) by (destruct (Z.ltb_spec b t), (Z.ltb_spec (k * b) (k * t)); try reflexivity; nia).
    rewrite H1, H2. reflexivity.
  Qed.

  Lemma reach_tab_scale n : reach_tab (scale_table k K) n = reach_tab K n.
  Proof.
    unfold reach_tab. f_equal. unfold tabulate. apply map_ext. intros i. apply map_ext. intros j. rewrite arc_scale. reflexivity.
  Qed.

  Theorem sccs_scale n : sccs (scale_table k K) n = sccs K n.
  Proof. unfold sccs. rewrite reach_tab_scale. reflexivity. Qed.

  Lemma fully_robust_scale G1 G2 : fully_robust (scale_table k K) G1 G2 = fully_robust K G1 G2.
  Proof.
    unfold fully_robust. apply forallb_ext. intros x. apply forallb_ext. intros y. apply robust_arc_scale.
  Qed.

  Lemma merge_loop_scale fuel : forall P index, merge_loop fuel (scale_table k K) P index = merge_loop fuel K P index.
  Proof.
    induction fuel as [|f IH]; intros P index; cbn [merge_loop]; [reflexivity|].
    rewrite fully_robust_scale, !IH. reflexivity.
  Qed.

  Theorem parfront_scale P0 : parfront_from (scale_table k K) P0 = parfront_from K P0.
  Proof. apply merge_loop_scale. Qed.

  Theorem no_back_arcs_scale P : no_back_arcs (scale_table k K) P = no_back_arcs K P.
  Proof.
    unfold no_back_arcs. apply forallb_ext. intros [x y]. cbn [fst snd]. rewrite arc_scale. reflexivity.
  Qed.

  Theorem can_be_all_tied_scale G : can_be_all_tied (scale_table k K) G = can_be_all_tied K G.
  Proof.
    unfold can_be_all_tied. apply forallb_ext. intros [x y]. cbn [fst snd]. unfold scale_table, scale3.
    destruct (K x y) as [[b a] t].
    destruct (Z.leb_spec t (Z.min b a)), (Z.leb_spec (k * t) (Z.min (k * b) (k * a))); try reflexivity; nia.
  Qed.
End Ext.
