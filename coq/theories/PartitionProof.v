(** Properties C06 / C07: what the ParCons and ParFront partitions guarantee. *)
From Corankco Require Import Prelude Scheme Rank KemenySpec CostTable CostTableProof OptTheory Partition.
Local Open Scope Z_scope.

Lemma bid_from_bound' k r x : 0 <= k -> In x (concat r) -> k <= bid_from k r x < k + Z.of_nat (length r).
Proof.
  revert k; induction r as [|b r IH]; intros k Hk Hx; [destruct Hx|]. simpl in *.
  destruct (mem x b) eqn:E; [lia|]. apply mem_false in E. apply in_app_or in Hx as [Hx|Hx]; [contradiction|].
  specialize (IH (k + 1) ltac:(lia) Hx). lia.
Qed.

Lemma no_back_arcs_spec K P :
  mirror K -> no_back_arcs K P = true -> no_back K (elems P) (bucket_id P).
Proof.
  intros M H x y Hx Hy L. unfold no_back_arcs in H. rewrite forallb_forall in H.
  specialize (H (x, y) ltac:(apply in_prod; assumption)). simpl in H.
  replace (bucket_id P x <? bucket_id P y) with true in H by lia. simpl in H.
  unfold arc in H. specialize (M x y). destruct (K x y) as [[b a] t]. rewrite M in H. lia.
Qed.

Lemma no_back_perm K U U' g : (forall x, In x U' -> In x U) -> no_back K U g -> no_back K U' g.
Proof. intros H NB x y Hx Hy. apply NB; auto. Qed.

Lemma score_on_universe K U c : mirror K -> wfU U c -> score K c = scoref K U (bucket_id c).
Proof. intros M W. rewrite score_scoref. apply scoref_perm; assumption. Qed.

(** C06: an ordered partition without back arcs admits an optimal consensus that ranks every element
    of an earlier group strictly before every element of a later group *)
Theorem partition_admits_optimum K U P :
  mirror K -> NoDup U -> wfU U P -> no_back K U (bucket_id P) ->
  exists c, is_optimal K U c /\ Forall (fun b => b <> []) c /\
            forall x y, In x U -> In y U -> bucket_id P x < bucket_id P y -> bucket_id c x < bucket_id c y.
Proof.
  intros M Nd WP NB.
  destruct (opt_attained K U M Nd) as (c0 & W0 & _ & E0).
  set (N := Z.of_nat (length c0) + 1).
  assert (Rng : forall z, In z U -> 0 <= bucket_id c0 z < N).
  { intros z Hz. assert (Hin : In z (concat c0)) by (eapply Permutation_in; [symmetry; exact W0|exact Hz]).
    pose proof (bid_from_bound' 0 c0 z ltac:(lia) Hin). unfold bucket_id, N. lia. }
  set (p1 := regroup (bucket_id P) N (bucket_id c0)).
  set (c1 := rank_of U p1).
  destruct (rank_of_spec U p1 Nd) as (P1 & Ne1 & C1). fold c1 in P1, Ne1, C1.
  assert (S1 : score K c1 <= score K c0).
  { unfold c1. rewrite score_rank_of by assumption. rewrite (score_on_universe K U c0 M W0).
    apply exchange; assumption. }
  exists c1. split; [|split; [exact Ne1|]].
  - apply optimal_iff_opt; try assumption. pose proof (opt_lower K U c1 M Nd P1). lia.
  - intros x y Hx Hy L. pose proof (regroup_respects U (bucket_id P) N (bucket_id c0) x y Rng Hx Hy L) as R.
    fold p1 in R. specialize (C1 x y Hx Hy). apply Z.compare_lt_iff in R. rewrite <- C1 in R.
    apply Z.compare_lt_iff. exact R.
Qed.

(** a component whose pairs can all be tied at minimal cost is solved by the single bucket *)
Theorem all_tied_optimal K G c :
  mirror K -> NoDup G -> can_be_all_tied K G = true -> wfU G c -> score K [G] <= score K c.
Proof.
  intros M Nd H W. rewrite (score_on_universe K G c M W).
  assert (W1 : wfU G [G]) by (unfold wfU, elems; simpl; rewrite app_nil_r; reflexivity).
  rewrite (score_on_universe K G [G] M W1). unfold scoref. apply zsum_le. intros [x y] Hxy. simpl.
  unfold can_be_all_tied in H. rewrite forallb_forall in H. specialize (H (x, y) Hxy). simpl in H.
  apply ordpairs_in' in Hxy as [Hx Hy]. unfold pickf. destruct (K x y) as [[b a] t].
  assert (Bx : bucket_id [G] x = 0) by (unfold bucket_id; simpl; assert (mem x G = true) by (apply mem_In; assumption); rewrite H0; reflexivity).
  assert (By : bucket_id [G] y = 0) by (unfold bucket_id; simpl; assert (mem y G = true) by (apply mem_In; assumption); rewrite H0; reflexivity).
  rewrite Bx, By. simpl. destruct (bucket_id c x ?= bucket_id c y); lia.
Qed.

(** C07: if moreover consecutive groups are linked by robust arcs only, EVERY optimal consensus ranks
    every element of an earlier group strictly before every element of a later group *)
Definition consecutive_robust (K : table) (U : list nat) (g : nat -> Z) : Prop :=
  forall x y, In x U -> In y U -> g y = g x + 1 -> let '(b, a, t) := K x y in b < a /\ b < t.

Lemma exchange_strict_one K U g N p x0 y0 :
  mirror K -> no_back K U g -> (forall z, In z U -> 0 <= p z < N) ->
  In x0 U -> In y0 U -> g x0 < g y0 -> p y0 <= p x0 ->
  (let '(b, a, t) := K x0 y0 in b < a /\ b < t) ->
  scoref K U (regroup g N p) < scoref K U p.
Proof.
  intros M NB Hb Hx0 Hy0 Lg Lp RB.
  assert (Hpair : In (x0, y0) (ordpairs U) \/ In (y0, x0) (ordpairs U)).
  { assert (Hne : x0 <> y0) by (intros ->; lia). clear -Hx0 Hy0 Hne.
    induction U as [|a l IH]; [destruct Hx0|]. simpl. rewrite !in_app_iff, !in_map_iff.
    destruct Hx0 as [->|Hx]; destruct Hy0 as [->|Hy].
    - contradiction.
    - left; left; eauto.
    - right; left; eauto.
    - destruct (IH Hx Hy); auto. }
  unfold scoref. destruct Hpair as [Hp|Hp].
  - apply (zsum_lt _ _ _ (x0, y0)); [|exact Hp|].
    + intros [x y] Hin. destruct (ordpairs_in' _ _ _ Hin). simpl. apply (pick_regroup_le K U g N M p x y NB Hb); assumption.
    + simpl. unfold pickf. rewrite regroup_lt by auto.
      destruct (K x0 y0) as [[b a] t]. destruct (Z.compare_spec (p x0) (p y0)); lia.
  - apply (zsum_lt _ _ _ (y0, x0)); [|exact Hp|].
    + intros [x y] Hin. destruct (ordpairs_in' _ _ _ Hin). simpl. apply (pick_regroup_le K U g N M p x y NB Hb); assumption.
    + simpl. unfold pickf. rewrite (Z.compare_antisym (regroup g N p x0) (regroup g N p y0)), (regroup_lt g N p x0 y0) by auto. simpl.
      specialize (M x0 y0). destruct (K x0 y0) as [[b a] t]. rewrite M.
      destruct (Z.compare_spec (p y0) (p x0)); lia.
Qed.

Lemma bid_of_nth P m gr : forall k0 n,
  NoDup (concat P) -> (n < length P)%nat -> nth n P [] = m :: gr -> bid_from k0 P m = k0 + Z.of_nat n.
Proof.
  induction P as [|b P IH]; intros k0 n Nd Hn E; [simpl in Hn; lia|].
  simpl in Nd. apply NoDup_app_inv in Nd as (_ & Nd' & Dj). destruct n as [|n].
  - simpl in E. subst b. simpl. rewrite Nat.eqb_refl. simpl. lia.
  - simpl in E, Hn. cbn [bid_from]. destruct (mem m b) eqn:Em.
    + exfalso. apply mem_In in Em. apply (Dj m Em). apply in_concat. exists (m :: gr).
      split; [rewrite <- E; apply nth_In; lia|left; reflexivity].
    + rewrite (IH (k0 + 1) n Nd' ltac:(lia) E). lia.
Qed.

Theorem every_optimum_respects K U P c :
  mirror K -> NoDup U -> wfU U P -> Forall (fun g => g <> []) P ->
  no_back K U (bucket_id P) -> consecutive_robust K U (bucket_id P) ->
  is_optimal K U c ->
  forall x y, In x U -> In y U -> bucket_id P x < bucket_id P y -> bucket_id c x < bucket_id c y.
Proof.
  intros M Nd WP NeP NB CR [Wc Oc].
  set (g := bucket_id P). set (p := bucket_id c).
  set (N := Z.of_nat (length c) + 1).
  assert (Rng : forall z, In z U -> 0 <= p z < N).
  { intros z Hz. assert (Hin : In z (concat c)) by (eapply Permutation_in; [symmetry; exact Wc|exact Hz]).
    pose proof (bid_from_bound' 0 c z ltac:(lia) Hin). unfold p, bucket_id, N. lia. }
  (* claim A: consecutive groups *)
  assert (A : forall x y, In x U -> In y U -> g y = g x + 1 -> p x < p y).
  { intros x y Hx Hy E. destruct (Z.lt_ge_cases (p x) (p y)) as [L|L]; [assumption|exfalso].
    (* two-block partition cutting after the group of x *)
    set (g2 := fun z => if g z <=? g x then 0 else 1).
    assert (NB2 : no_back K U g2).
    { intros a b Ha Hb L2. unfold g2 in L2. apply NB; try assumption. revert L2.
      destruct (g a <=? g x) eqn:E1; destruct (g b <=? g x) eqn:E2; intros L2; fold g; lia. }
    assert (S : scoref K U (regroup g2 N p) < scoref K U p).
    { apply (exchange_strict_one K U g2 N p x y); try assumption; try lia.
      - unfold g2. replace (g x <=? g x) with true by lia. replace (g y <=? g x) with false by lia. lia.
      - apply CR; assumption. }
    set (c2 := rank_of U (regroup g2 N p)).
    assert (W2 : wfU U c2) by (destruct (rank_of_spec U (regroup g2 N p) Nd) as (H & _ & _); exact H).
    specialize (Oc c2 W2). unfold c2 in Oc. rewrite score_rank_of in Oc by assumption.
    rewrite (score_on_universe K U c M Wc) in Oc. fold p in Oc. lia. }
  (* every group index between two used indices is used: groups are non-empty *)
  assert (Mid : forall k, 0 <= k < Z.of_nat (length P) -> exists m, In m U /\ g m = k).
  { intros k Hk. assert (Hn : (Z.to_nat k < length P)%nat) by lia.
    pose proof (nth_In P [] Hn) as Hg. rewrite Forall_forall in NeP. specialize (NeP _ Hg).
    destruct (nth (Z.to_nat k) P []) as [|m gr] eqn:Eg; [contradiction|].
    exists m. assert (Hm : In m (elems P)).
    { unfold elems. apply in_concat. exists (m :: gr). split; [exact Hg|left; reflexivity]. }
    split; [eapply Permutation_in; [exact WP|exact Hm]|].
    (* bucket_id of an element of the k-th group of a duplicate-free partition is k *)
    assert (NdP : NoDup (concat P)) by (eapply Permutation_NoDup; [symmetry; exact WP|exact Nd]).
    unfold g, bucket_id. rewrite (bid_of_nth P m gr 0 (Z.to_nat k) NdP Hn Eg). lia. }
  assert (Gr : forall z, In z U -> 0 <= g z < Z.of_nat (length P)).
  { intros z Hz. assert (Hin : In z (concat P)) by (eapply Permutation_in; [symmetry; exact WP|exact Hz]).
    pose proof (bid_from_bound' 0 P z ltac:(lia) Hin). unfold g, bucket_id. lia. }
  (* claim B: by induction on the gap *)
  assert (B : forall d x y, In x U -> In y U -> g y = g x + 1 + Z.of_nat d -> p x < p y).
  { induction d as [|d IH]; intros x y Hx Hy E.
    - apply A; try assumption. lia.
    - destruct (Mid (g x + 1)) as (m & Hm & Em); [pose proof (Gr x Hx); pose proof (Gr y Hy); lia|].
      assert (p x < p m) by (apply A; try assumption; lia).
      assert (p m < p y) by (apply (IH m y); try assumption; lia). lia. }
  intros x y Hx Hy L. apply (B (Z.to_nat (g y - g x - 1)) x y Hx Hy). fold g in L. lia.
Qed.

(** the boolean tests evaluated by the checks imply the hypotheses above *)
Lemma in_nth_bucket Q : forall k z, 0 <= k -> In z (concat Q) -> In z (nth (Z.to_nat (bid_from k Q z - k)) Q []).
Proof.
  induction Q as [|b Q IH]; intros k z Hk Hz; [destruct Hz|]. simpl in Hz. cbn [bid_from].
  destruct (mem z b) eqn:Em.
  - replace (k - k) with 0 by lia. simpl. apply mem_In. assumption.
  - apply mem_false in Em. apply in_app_or in Hz as [Hz|Hz]; [contradiction|].
    pose proof (bid_from_bound' (k + 1) Q z ltac:(lia) Hz) as Bz.
    specialize (IH (k + 1) z ltac:(lia) Hz).
    replace (Z.to_nat (bid_from (k + 1) Q z - k)) with (S (Z.to_nat (bid_from (k + 1) Q z - (k + 1)))) by lia.
    simpl. exact IH.
Qed.

Lemma all_consecutive_robust_spec K P :
  all_consecutive_robust K P = true -> consecutive_robust K (elems P) (bucket_id P).
Proof.
  intros H x y Hx Hy E. unfold all_consecutive_robust in H. rewrite forallb_forall in H.
  assert (Bx := bid_from_bound' 0 P x ltac:(lia) Hx). assert (By := bid_from_bound' 0 P y ltac:(lia) Hy).
  fold (bucket_id P x) in Bx. fold (bucket_id P y) in By.
  set (i := Z.to_nat (bucket_id P x)).
  assert (Hi : In i (seq 0 (length P - 1))) by (apply in_seq; lia).
  specialize (H i Hi). unfold fully_robust in H. rewrite forallb_forall in H.
  pose proof (in_nth_bucket P 0 x ltac:(lia) Hx) as Ix. pose proof (in_nth_bucket P 0 y ltac:(lia) Hy) as Iy.
  fold (bucket_id P x) in Ix. fold (bucket_id P y) in Iy. rewrite Z.sub_0_r in Ix, Iy. fold i in Ix.
  replace (Z.to_nat (bucket_id P y)) with (S i) in Iy by lia.
  specialize (H x Ix). rewrite forallb_forall in H. specialize (H y Iy).
  unfold robust_arc in H. destruct (K x y) as [[b a] t]. lia.
Qed.

(** * verified checkers: the boolean tests run on the library's partitions imply the guarantees *)
Lemma is_partition_of_spec U P :
  NoDup U -> is_partition_of U P = true -> wfU U P /\ Forall (fun g => g <> []) P.
Proof.
  intros Nd H. unfold is_partition_of in H. rewrite !andb_true_iff, !forallb_forall in H.
  destruct H as [[[H1 H2] H3] H4]. apply Nat.eqb_eq in H1. split.
  - unfold wfU. symmetry. apply NoDup_Permutation_bis; [assumption|lia|].
    intros x Hx. apply mem_In. auto.
  - rewrite Forall_forall. intros g Hg E. specialize (H4 g Hg). rewrite E in H4. discriminate.
Qed.

Theorem parcons_check_sound K U P :
  mirror K -> NoDup U -> is_partition_of U P = true -> no_back_arcs K P = true ->
  exists c, is_optimal K U c /\ Forall (fun b => b <> []) c /\
            forall x y, In x U -> In y U -> bucket_id P x < bucket_id P y -> bucket_id c x < bucket_id c y.
Proof.
  intros M Nd HP HB. destruct (is_partition_of_spec U P Nd HP) as [W _].
  apply partition_admits_optimum; try assumption.
  eapply no_back_perm; [|apply no_back_arcs_spec; eassumption].
  intros x Hx. eapply Permutation_in; [symmetry; exact W|exact Hx].
Qed.

Theorem parfront_check_sound K U P c :
  mirror K -> NoDup U -> is_partition_of U P = true -> no_back_arcs K P = true ->
  all_consecutive_robust K P = true -> is_optimal K U c ->
  forall x y, In x U -> In y U -> bucket_id P x < bucket_id P y -> bucket_id c x < bucket_id c y.
Proof.
  intros M Nd HP HB HR Hc. destruct (is_partition_of_spec U P Nd HP) as [W Ne].
  assert (Inc : forall x, In x U -> In x (elems P)) by (intros x Hx; eapply Permutation_in; [symmetry; exact W|exact Hx]).
  apply (every_optimum_respects K U P c); try assumption.
  - eapply no_back_perm; [exact Inc|apply no_back_arcs_spec; assumption].
  - intros x y Hx Hy E. apply (all_consecutive_robust_spec K P HR x y (Inc x Hx) (Inc y Hy) E).
Qed.

(** the cost table of a dataset is mirror-consistent (valid schemes), so all of the above applies to it *)
Lemma cost_spec_mirror' s D : valid s -> mirror (cost_spec s D).
Proof.
  intros [_ (_ & _ & _ & H01 & _ & H34)] x y.
  pose proof (CostTableProof.cost_spec_mirror s D x y H01 H34) as H. exact H.
Qed.

(** * the ParFront merge loop always ends in a partition whose consecutive groups are robustly linked *)
Lemma nth_merge_at_lt P index i : (i < index)%nat -> nth i (merge_at P index) [] = nth i P [].
Proof.
  revert index i; induction P as [|g P IH]; intros index i H; [destruct index; reflexivity|].
  destruct index as [|index]; [lia|]. cbn [merge_at]. destruct i as [|i]; [reflexivity|].
  simpl. apply IH. lia.
Qed.

Lemma length_merge_at P index : (index + 1 < length P)%nat -> length (merge_at P index) = (length P - 1)%nat.
Proof.
  revert index; induction P as [|g P IH]; intros index H; [simpl in H; lia|].
  destruct index as [|index].
  - destruct P as [|g2 P]; [simpl in H; lia|]. simpl. lia.
  - cbn [merge_at]. simpl length. rewrite IH by (simpl in H; lia). simpl in H. lia.
Qed.

Lemma concat_merge_at P index : concat (merge_at P index) = concat P.
Proof.
  revert index; induction P as [|g P IH]; intros index; [destruct index; reflexivity|].
  destruct index as [|index].
  - destruct P as [|g2 P]; [reflexivity|]. simpl. rewrite app_assoc. reflexivity.
  - cbn [merge_at]. simpl. rewrite IH. reflexivity.
Qed.

Definition robust_left_of (K : table) (P : ranking) (index : nat) : Prop :=
  forall i, (i < index)%nat -> (i + 1 < length P)%nat -> fully_robust K (nth i P []) (nth (S i) P []) = true.

Theorem merge_loop_spec K : forall fuel P index,
  (2 * length P - index < fuel)%nat -> (index <= length P)%nat -> robust_left_of K P index ->
  exists Q, merge_loop fuel K P index = Some Q /\ all_consecutive_robust K Q = true /\ concat Q = concat P.
Proof.
  induction fuel as [|f IH]; intros P index Hf Hi Inv; [lia|]. cbn [merge_loop].
  destruct (Nat.ltb index (length P - 1)) eqn:E.
  - apply Nat.ltb_lt in E. destruct (fully_robust K (nth index P []) (nth (S index) P [])) eqn:R.
    + apply IH; [lia|lia|]. intros i Hi' Hl. destruct (Nat.eq_dec i index) as [->|Ne]; [exact R|].
      apply Inv; lia.
    + destruct (IH (merge_at P index) (Nat.max (index - 1) 0)) as (Q & E1 & E2 & E3).
      * rewrite length_merge_at by lia. lia.
      * rewrite length_merge_at by lia. lia.
      * intros i Hi' Hl. rewrite length_merge_at in Hl by lia.
        rewrite !nth_merge_at_lt by lia. apply Inv; lia.
      * exists Q. split; [exact E1|]. split; [exact E2|]. rewrite E3. apply concat_merge_at.
  - apply Nat.ltb_ge in E. exists P. split; [reflexivity|]. split; [|reflexivity].
    unfold all_consecutive_robust. rewrite forallb_forall. intros i Hin. apply in_seq in Hin.
    apply Inv; lia.
Qed.

(** the ParFront partition: always produced, same elements in the same order (consecutive groups of the
    input partition are concatenated), all consecutive groups robustly linked *)
Theorem parfront_from_spec K P0 :
  exists P, parfront_from K P0 = Some P /\ all_consecutive_robust K P = true /\ concat P = concat P0.
Proof.
  unfold parfront_from. apply merge_loop_spec; [lia|lia|]. intros i Hi. lia.
Qed.

(** merging consecutive groups is monotone on group indices, hence keeps "no back arcs" *)
Lemma bid_from_shift Q k x : 0 <= k ->
  bid_from (k + 1) Q x = if bid_from k Q x =? -1 then -1 else bid_from k Q x + 1.
Proof.
  revert k; induction Q as [|b Q IH]; intros k Hk; [reflexivity|]. cbn [bid_from].
  destruct (mem x b); [replace (k =? -1) with false by lia; reflexivity|].
  rewrite (IH (k + 1)) by lia. reflexivity.
Qed.

Lemma bid_merge_at P : forall i k x, 0 <= k -> (i + 1 < length P)%nat ->
  bid_from k (merge_at P i) x =
  if bid_from k P x <=? k + Z.of_nat i then bid_from k P x else bid_from k P x - 1.
Proof.
  induction P as [|g P IH]; intros i k x Hk Hl; [simpl in Hl; lia|].
  destruct i as [|i].
  - destruct P as [|g2 P]; [simpl in Hl; lia|]. cbn [merge_at bid_from].
    unfold mem at 1. rewrite existsb_app. fold (mem x g). fold (mem x g2).
    destruct (mem x g); cbn [orb].
    + destruct (k <=? k + Z.of_nat 0) eqn:E; lia.
    + destruct (mem x g2).
      * destruct (k + 1 <=? k + Z.of_nat 0) eqn:E; lia.
      * rewrite (bid_from_shift P (k + 1) x) by lia.
        pose proof (bid_from_range (k + 1) P x ltac:(lia)) as R.
        set (b := bid_from (k + 1) P x) in *.
        destruct (b =? -1) eqn:E1.
        -- destruct (-1 <=? k + Z.of_nat 0) eqn:E2; lia.
        -- destruct (b + 1 <=? k + Z.of_nat 0) eqn:E2; lia.
  - cbn [merge_at bid_from]. destruct (mem x g).
    + destruct (k <=? k + Z.of_nat (S i)) eqn:E; lia.
    + rewrite IH by (simpl in Hl; lia).
      replace (k + 1 + Z.of_nat i) with (k + Z.of_nat (S i)) by lia. reflexivity.
Qed.

Definition coarser (P Q : ranking) : Prop :=
  forall x y, bucket_id Q x < bucket_id Q y -> bucket_id P x < bucket_id P y.

Lemma coarser_merge_at P i : (i + 1 < length P)%nat -> coarser P (merge_at P i).
Proof.
  intros Hl x y. unfold bucket_id. rewrite !bid_merge_at by (try lia; assumption).
  destruct (bid_from 0 P x <=? 0 + Z.of_nat i) eqn:E1; destruct (bid_from 0 P y <=? 0 + Z.of_nat i) eqn:E2; lia.
Qed.

Lemma Forall_nonempty_merge_at P i : Forall (fun g : list nat => g <> []) P -> Forall (fun g => g <> []) (merge_at P i).
Proof.
  revert i; induction P as [|g P IH]; intros i H; [destruct i; assumption|].
  destruct i as [|i].
  - destruct P as [|g2 P]; [assumption|]. cbn [merge_at]. inversion H as [|? ? Hg H']; subst. inversion H'; subst.
    constructor; [|assumption]. destruct g; [contradiction|discriminate].
  - cbn [merge_at]. inversion H; subst. constructor; [assumption|apply IH; assumption].
Qed.

Theorem merge_loop_coarser K : forall fuel P index Q,
  merge_loop fuel K P index = Some Q -> coarser P Q /\ (Forall (fun g => g <> []) P -> Forall (fun g => g <> []) Q).
Proof.
  induction fuel as [|f IH]; intros P index Q H; [discriminate|]. cbn [merge_loop] in H.
  destruct (Nat.ltb index (length P - 1)) eqn:E.
  - apply Nat.ltb_lt in E. destruct (fully_robust K (nth index P []) (nth (S index) P [])).
    + apply (IH _ _ _ H).
    + destruct (IH _ _ _ H) as [C N]. split.
      * intros x y L. apply (coarser_merge_at P index ltac:(lia)). apply C. exact L.
      * intros HP. apply N. apply Forall_nonempty_merge_at. exact HP.
  - inversion H; subst. split; [intros x y L; exact L|auto].
Qed.

(** C07, end to end on the model: starting from ANY partition of the universe without back arcs (what the
    SCC routine is required to return), the ParFront partition is produced, has the same elements in the
    same order, and every optimal consensus ranks each of its groups strictly before the later ones *)
Theorem parfront_every_optimum K U P0 :
  mirror K -> NoDup U -> is_partition_of U P0 = true -> no_back_arcs K P0 = true ->
  exists P, parfront_from K P0 = Some P /\ concat P = concat P0 /\ Forall (fun g => g <> []) P /\
    forall c, is_optimal K U c ->
      forall x y, In x U -> In y U -> bucket_id P x < bucket_id P y -> bucket_id c x < bucket_id c y.
Proof.
  intros M Nd HP HB. destruct (is_partition_of_spec U P0 Nd HP) as [W0 Ne0].
  destruct (parfront_from_spec K P0) as (P & E & R & C).
  destruct (merge_loop_coarser K _ _ _ _ E) as [Co Ne].
  exists P. split; [exact E|]. split; [exact C|]. split; [apply Ne; exact Ne0|].
  assert (WP : wfU U P) by (unfold wfU, elems; rewrite C; exact W0).
  assert (Inc : forall x, In x U -> In x (elems P)) by (intros x Hx; eapply Permutation_in; [symmetry; exact WP|exact Hx]).
  intros c Hc. apply (every_optimum_respects K U P c); try assumption.
  - apply Ne; exact Ne0.
  - intros x y Hx Hy L. apply Co in L.
    assert (NB0 : no_back K (elems P0) (bucket_id P0)) by (apply no_back_arcs_spec; assumption).
    apply NB0; try assumption; eapply Permutation_in; try (symmetry; exact W0); assumption.
  - intros x y Hx Hy Eq. apply (all_consecutive_robust_spec K P R x y (Inc x Hx) (Inc y Hy) Eq).
Qed.
