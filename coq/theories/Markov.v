(** Model of the Markov-chain generators of corankco/ranking.py (bucket-id vectors, [-1] = absent). *)
From Corankco Require Import Prelude Rank.
Local Open Scope Z_scope.

Definition vec := list Z.

Definition cnt_eq (v : vec) (b : Z) : Z := Z.of_nat (length (filter (Z.eqb b) v)).
Definition vmax (v : vec) : Z := fold_right Z.max (-1) v.

Fixpoint upd (v : vec) (e : nat) (x : Z) : vec :=
  match v, e with
  | [], _ => []
  | _ :: v', O => x :: v'
  | a :: v', S e' => a :: upd v' e' x
  end.

Definition get (v : vec) (e : nat) : Z := nth e v (-1).

(** [__add_left] *)
Definition add_left (v : vec) (e : nat) : vec :=
  let b := get v e in
  if 1 <? cnt_eq v b then upd (map (fun x => if b <=? x then x + 1 else x) v) e b else v.

(** [__add_right] *)
Definition add_right (v : vec) (e : nat) : vec :=
  let b := get v e in
  if 2 <? cnt_eq v b then upd (map (fun x => if b <? x then x + 1 else x) v) e (b + 1) else v.

(** [__change_left] *)
Definition change_left (v : vec) (e : nat) : vec :=
  let b := get v e in
  if b =? 0 then v
  else
    let v1 := if cnt_eq v b =? 1 then map (fun x => if b <? x then x - 1 else x) v else v in
    upd v1 e (get v1 e - 1).

(** [__change_right] *)
Definition change_right (v : vec) (e : nat) : vec :=
  let b := get v e in
  let size := cnt_eq v b in
  let following := cnt_eq v (b + 1) in
  if negb (b =? vmax v) && ((1 <? size) || (1 <? following)) then
    let v1 := upd v e (b + 1) in
    if size =? 1 then map (fun x => if b <? x then x - 1 else x) v1 else v1
  else v.

(** [__remove_element] *)
Definition remove_element (v : vec) (e : nat) : vec :=
  let b := get v e in
  let v1 := if cnt_eq v b =? 1 then map (fun x => if b <? x then x - 1 else x) v else v in
  upd v1 e (-1).

(** [__put_element_first] *)
Definition put_element_first (v : vec) (e : nat) : vec :=
  upd (map (fun x => if 0 <=? x then x + 1 else x) v) e 0.

(** one Markov step, complete mode: [alea] in 1..4 *)
Definition step_complete (v : vec) (e : nat) (alea : Z) : vec :=
  if alea =? 1 then add_left v e
  else if alea =? 2 then add_right v e
  else if alea =? 3 then change_left v e
  else if alea =? 4 then change_right v e
  else v.

(** incomplete mode: [alea] in 1..5, with the set of missing elements *)
Definition step_incomplete (st : vec * list nat) (e : nat) (alea : Z) : vec * list nat :=
  let '(v, missing) := st in
  if mem e missing then
    if alea =? 5 then (put_element_first v e, filter (fun x => negb (Nat.eqb x e)) missing) else st
  else if alea =? 1 then (add_left v e, missing)
  else if alea =? 2 then (add_right v e, missing)
  else if alea =? 3 then (change_left v e, missing)
  else if alea =? 4 then (change_right v e, missing)
  else if alea =? 5 then (remove_element v e, e :: missing)
  else st.

Definition walk_complete (script : list (nat * Z)) (v : vec) : vec :=
  fold_left (fun v ea => step_complete v (fst ea) (snd ea)) script v.
Definition walk_incomplete (script : list (nat * Z)) (st : vec * list nat) : vec * list nat :=
  fold_left (fun st ea => step_incomplete st (fst ea) (snd ea)) script st.

Definition init (n : nat) : vec := map Z.of_nat (seq 0 n).

(** decoding a vector into buckets: bucket k = elements with id k, k = 0..max *)
Definition members (v : vec) (k : Z) : list nat :=
  filter (fun e => get v e =? k) (seq 0 (length v)).
Definition to_buckets (v : vec) : ranking :=
  map (fun k => members v (Z.of_nat k)) (seq 0 (Z.to_nat (vmax v + 1))).

(** the ranking is kept only when it has at least one bucket *)
Definition generate_one (n : nat) (complete : bool) (script : list (nat * Z)) : option ranking :=
  let v := if complete then walk_complete script (init n) else fst (walk_incomplete script (init n, [])) in
  match to_buckets v with [] => None | r => Some r end.

(** the dense-numbering invariant: ids >= -1 and every positive id has its predecessor in use *)
Definition Dense (v : vec) : Prop :=
  Forall (fun x => -1 <= x /\ (0 < x -> In (x - 1) v)) v.
