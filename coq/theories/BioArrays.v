(** BioConsert: the list arrays filled by [_compute_delta_costs] are the difference arrays of BioDelta.v, and
    the two search routines return the first bucket (resp. new-bucket position), scanning right then left from
    the target's bucket, whose accumulated value - the true variation of the score - is below the threshold;
    they return -1 exactly when no move improves the score by more than the threshold. *)
From Corankco Require Import Prelude Scheme Rank KemenySpec CostTable OptTheory Markov MarkovProof Borda BioConsert BioDelta Judge.JBio BioMoves.
Local Open Scope Z_scope.

(** * arrays *)
Lemma nth_upd (v : list Z) e i x d :
  nth i (upd v e x) d = if Nat.eqb i e && (e <? length v)%nat then x else nth i v d.
Proof.
  revert e i; induction v as [|a v IH]; intros [|e] [|i]; simpl; try reflexivity.
  - destruct (Nat.eqb i e); reflexivity.
  - rewrite IH. reflexivity.
Qed.

Lemma aadd_length a i v : length (aadd a i v) = length a.
Proof. unfold aadd. apply upd_length. Qed.

Lemma aget_aadd a i j v : 0 <= i -> 0 <= j -> j < Z.of_nat (length a) ->
  aget (aadd a j v) i = aget a i + (if i =? j then v else 0).
Proof.
  intros Hi Hj Hl. unfold aget, aadd. rewrite nth_upd.
  destruct (Nat.ltb_spec (Z.to_nat j) (length a)) as [_|L]; [|lia].
  destruct (Nat.eqb_spec (Z.to_nat i) (Z.to_nat j)) as [E|E]; cbn [andb].
  - assert (i = j) by lia. subst. rewrite Z.eqb_refl. unfold aget. lia.
  - destruct (Z.eqb_spec i j); [subst; contradiction|]. lia.
Qed.

Lemma aget_repeat m i : aget (repeat 0 m) i = 0.
Proof. unfold aget. generalize (Z.to_nat i) as k. induction m as [|m IH]; intros [|k]; cbn; auto. Qed.

Lemma rsum_ext_range lo len f g : (forall u, lo <= u < lo + Z.of_nat len -> f u = g u) -> rsum lo len f = rsum lo len g.
Proof.
  revert lo; induction len as [|len IH]; intros lo H; [reflexivity|]. cbn [rsum].
  rewrite (H lo) by lia. rewrite (IH (lo + 1)) by (intros u Hu; apply H; lia). reflexivity.
Qed.

Lemma rsum_snoc lo len f : rsum lo (S len) f = rsum lo len f + f (lo + Z.of_nat len).
Proof.
  revert lo; induction len as [|len IH]; intros lo; [cbn [rsum]; replace (lo + Z.of_nat 0) with lo by lia; lia|].
  cbn [rsum] in *. rewrite (IH (lo + 1)). replace (lo + 1 + Z.of_nat len) with (lo + Z.of_nat (S len)) by lia. lia.
Qed.

(** * the scans *)
Lemma scan_right_spec : forall fuel a i last,
  1 <= i -> last < Z.of_nat (length a) -> last - i < Z.of_nat fuel ->
  let '(res, a') := scan_right fuel a i last in
  length a' = length a /\
  (forall j, 0 <= j -> j < i \/ last < j -> aget a' j = aget a j) /\
  ((res = -1 /\ forall j, i <= j <= last -> - THR <= aget a (i - 1) + rsum i (Z.to_nat (j - i + 1)) (aget a)) \/
   (i <= res <= last /\ aget a' res = aget a (i - 1) + rsum i (Z.to_nat (res - i + 1)) (aget a) /\ aget a' res < - THR)).
Proof.
  induction fuel as [|f IH]; intros a i last Hi Hl Hf.
  - cbn [scan_right]. split; [reflexivity|]. split; [reflexivity|]. left. split; [reflexivity|]. intros j Hj. lia.
  - cbn [scan_right]. destruct (Z.leb_spec i last) as [Le|Gt].
    2:{ split; [reflexivity|]. split; [reflexivity|]. left. split; [reflexivity|]. intros j Hj. lia. }
    set (a1 := aadd a i (aget a (i - 1))).
    assert (G1 : forall j, 0 <= j -> aget a1 j = aget a j + (if j =? i then aget a (i - 1) else 0)).
    { intros j Hj. unfold a1. apply aget_aadd; lia. }
    assert (L1 : length a1 = length a) by apply aadd_length.
    destruct (Z.ltb_spec (aget a1 i) (- THR)) as [Lt|Ge].
    + split; [exact L1|]. split.
      * intros j Hj Ho. rewrite G1 by exact Hj. destruct (Z.eqb_spec j i); lia.
      * right. split; [lia|]. replace (i - i + 1) with 1 by lia.
        change (Z.to_nat 1) with 1%nat. cbn [rsum]. pose proof (G1 i ltac:(lia)) as Gi. rewrite Z.eqb_refl in Gi. split; lia.
    + specialize (IH a1 (i + 1) last ltac:(lia) ltac:(lia) ltac:(lia)).
      destruct (scan_right f a1 (i + 1) last) as [res a'].
      destruct IH as (L' & Out & Res). split; [lia|].
      assert (Ra : forall len, rsum (i + 1) len (aget a1) = rsum (i + 1) len (aget a)).
      { intros len. apply rsum_ext_range. intros u Hu. rewrite G1 by lia. destruct (Z.eqb_spec u i); lia. }
      assert (Pre : forall j, i <= j -> aget a1 (i + 1 - 1) + rsum (i + 1) (Z.to_nat (j - (i + 1) + 1)) (aget a1)
                              = aget a (i - 1) + rsum i (Z.to_nat (j - i + 1)) (aget a)).
      { intros j Hj. replace (i + 1 - 1) with i by lia. rewrite Ra, (G1 i) by lia. rewrite Z.eqb_refl.
        replace (Z.to_nat (j - i + 1)) with (S (Z.to_nat (j - (i + 1) + 1))) by lia. cbn [rsum]. lia. }
      split.
      * intros j Hj Ho. rewrite Out by lia. rewrite G1 by exact Hj. destruct (Z.eqb_spec j i); lia.
      * destruct Res as [[-> All]|(Rg & Ev & Lt)].
        -- left. split; [reflexivity|]. intros j Hj. destruct (Z.eq_dec j i) as [->|Ne].
           ++ replace (i - i + 1) with 1 by lia. change (Z.to_nat 1) with 1%nat. cbn [rsum].
              pose proof (G1 i ltac:(lia)) as Gi. rewrite Z.eqb_refl in Gi. lia.
           ++ rewrite <- Pre by lia. apply All. lia.
        -- right. split; [lia|]. rewrite <- Pre by lia. split; assumption.
Qed.

Lemma scan_left_spec : forall fuel a i,
  i + 1 < Z.of_nat (length a) -> i < Z.of_nat fuel ->
  let '(res, a') := scan_left fuel a i in
  length a' = length a /\
  (forall j, 0 <= j -> i < j -> aget a' j = aget a j) /\
  ((res = -1 /\ forall j, 0 <= j <= i -> - THR <= rsum j (Z.to_nat (i - j + 1)) (aget a) + aget a (i + 1)) \/
   (0 <= res <= i /\ aget a' res = rsum res (Z.to_nat (i - res + 1)) (aget a) + aget a (i + 1) /\ aget a' res < - THR)).
Proof.
  induction fuel as [|f IH]; intros a i Hl Hf.
  - cbn [scan_left]. split; [reflexivity|]. split; [reflexivity|]. left. split; [reflexivity|]. intros j Hj. lia.
  - cbn [scan_left]. destruct (Z.leb_spec 0 i) as [Le|Gt].
    2:{ split; [reflexivity|]. split; [reflexivity|]. left. split; [reflexivity|]. intros j Hj. lia. }
    set (a1 := aadd a i (aget a (i + 1))).
    assert (G1 : forall j, 0 <= j -> aget a1 j = aget a j + (if j =? i then aget a (i + 1) else 0)).
    { intros j Hj. unfold a1. apply aget_aadd; lia. }
    assert (L1 : length a1 = length a) by apply aadd_length.
    destruct (Z.ltb_spec (aget a1 i) (- THR)) as [Lt|Ge].
    + split; [exact L1|]. split.
      * intros j Hj Ho. rewrite G1 by exact Hj. destruct (Z.eqb_spec j i); lia.
      * right. split; [lia|]. replace (i - i + 1) with 1 by lia. change (Z.to_nat 1) with 1%nat. cbn [rsum].
        pose proof (G1 i ltac:(lia)) as Gi. rewrite Z.eqb_refl in Gi. split; lia.
    + specialize (IH a1 (i - 1) ltac:(lia) ltac:(lia)).
      destruct (scan_left f a1 (i - 1)) as [res a'].
      destruct IH as (L' & Out & Res). split; [lia|].
      assert (Pre : forall j, 0 <= j <= i - 1 -> rsum j (Z.to_nat (i - 1 - j + 1)) (aget a1) + aget a1 (i - 1 + 1)
                              = rsum j (Z.to_nat (i - j + 1)) (aget a) + aget a (i + 1)).
      { intros j Hj. replace (i - 1 + 1) with i by lia. rewrite (G1 i) by lia. rewrite Z.eqb_refl.
        replace (Z.to_nat (i - j + 1)) with (S (Z.to_nat (i - 1 - j + 1))) by lia. rewrite rsum_snoc.
        replace (j + Z.of_nat (Z.to_nat (i - 1 - j + 1))) with i by lia.
        rewrite (rsum_ext_range j _ (aget a1) (aget a)); [lia|]. intros u Hu. rewrite G1 by lia. destruct (Z.eqb_spec u i); lia. }
      split.
      * intros j Hj Ho. rewrite Out by lia. rewrite G1 by exact Hj. destruct (Z.eqb_spec j i); lia.
      * destruct Res as [[-> All]|(Rg & Ev & Lt)].
        -- left. split; [reflexivity|]. intros j Hj. destruct (Z.eq_dec j i) as [->|Ne].
           ++ replace (i - i + 1) with 1 by lia. change (Z.to_nat 1) with 1%nat. cbn [rsum].
              pose proof (G1 i ltac:(lia)) as Gi. rewrite Z.eqb_refl in Gi. lia.
           ++ rewrite <- Pre by lia. apply All. lia.
        -- right. split; [lia|]. rewrite <- Pre by lia. split; assumption.
Qed.

(** * [_compute_delta_costs] *)
Lemma zsum_filter_zero {A} (f : A -> bool) (g : A -> Z) l :
  (forall e, f e = false -> g e = 0) -> zsum (map g (filter f l)) = zsum (map g l).
Proof.
  intros H. induction l as [|a l IH]; [reflexivity|]. cbn [filter map]. destruct (f a) eqn:E.
  - cbn [map]. rewrite !zsum_cons, IH. reflexivity.
  - rewrite zsum_cons, IH, (H a E). lia.
Qed.

Lemma zsum_map_add3 {A} (f g : A -> Z) l : zsum (map (fun a => f a + g a) l) = zsum (map f l) + zsum (map g l).
Proof. induction l as [|a l IH]; [reflexivity|]. cbn [map]. rewrite !zsum_cons, IH. lia. Qed.

Lemma zsum_map_sub {A} (f g : A -> Z) l : zsum (map (fun a => f a - g a) l) = zsum (map f l) - zsum (map g l).
Proof. induction l as [|a l IH]; [reflexivity|]. cbn [map]. rewrite !zsum_cons, IH. lia. Qed.

Lemma pt_sum {A} (k i : Z) (v : A -> Z) l : zsum (map (fun e => pt k (v e) i) l) = pt k (zsum (map v l)) i.
Proof. unfold pt. destruct (i =? k); [reflexivity|]. induction l as [|a l IH]; [reflexivity|]. cbn [map]. rewrite zsum_cons, IH. reflexivity. Qed.

Ltac eqbs := repeat match goal with |- context [?x =? ?y] => destruct (Z.eqb_spec x y) end; try lia.

Section Arrays.
  Variables (K : table) (r : vec) (t n : nat) (m : Z).
  Hypothesis HD : DenseTo n r m.
  Hypothesis Ht : (t < n)%nat.
  Hypothesis Hm : m < Z.of_nat n.

  Definition bef (e : nat) : Z := fst (fst (K t e)).
  Definition aft (e : nat) : Z := snd (fst (K t e)).
  Definition tie (e : nat) : Z := snd (K t e).
  Definition others : list nat := filter (fun e => negb (Nat.eqb e t)) (seq 0 n).
  Definition b0 : Z := get r t.
  Definition CF : Z -> Z := change bef aft tie (get r) others b0.
  Definition AF : Z -> Z := addf bef aft tie (get r) others b0.

  Definition tied (e : nat) : bool := (get r e =? b0) && negb (Nat.eqb e t).
  Definition cN (e : nat) (i : Z) : Z :=
    let b2 := get r e in
    if b0 <? b2 then pt b2 (tie e - bef e) i + pt (b2 + 1) (aft e - tie e) i
    else if b2 <? b0 then pt b2 (tie e - aft e) i + (if b2 =? 0 then 0 else pt (b2 - 1) (bef e - tie e) i)
    else 0.
  Definition aN (e : nat) (i : Z) : Z :=
    let b2 := get r e in
    if b0 <? b2 then pt (b2 + 1) (aft e - bef e) i
    else if b2 <? b0 then pt b2 (bef e - aft e) i
    else 0.

  Definition InvF (l : list nat) (st : list Z * list Z * bool * Z * Z * Z) : Prop :=
    let '(C, A, al, qb, qa, qt) := st in
    length C = (n + 2)%nat /\ length A = (n + 3)%nat /\
    (forall i, 0 <= i -> aget C i = zsum (map (fun e => cN e i) l)) /\
    (forall i, 0 <= i -> aget A i = zsum (map (fun e => aN e i) l)) /\
    qb = zsum (map (fun e => if tied e then bef e else 0) l) /\
    qa = zsum (map (fun e => if tied e then aft e else 0) l) /\
    qt = zsum (map (fun e => if tied e then tie e else 0) l) /\
    al = forallb (fun e => negb (tied e)) l.

  Lemma zsum_snoc {A} (g : A -> Z) l a : zsum (map g (l ++ [a])) = zsum (map g l) + g a.
  Proof. rewrite map_app, zsum_app. cbn [map]. rewrite zsum_cons. cbn. lia. Qed.

  Lemma step_inv l st e : InvF l st -> (e < n)%nat -> InvF (l ++ [e]) (delta_step K r t b0 st e).
  Proof.
    destruct st as [[[[[C A] al] qb] qa] qt]. intros (LC & LA & HC & HA & Hqb & Hqa & Hqt & Hal) He.
    destruct HD as (L & Rg & _). pose proof (Rg e He) as Re. pose proof (Rg t Ht) as Rt. fold b0 in Rt.
    unfold delta_step. assert (EK : K t e = (bef e, aft e, tie e)) by (unfold bef, aft, tie; destruct (K t e) as [[? ?] ?]; reflexivity).
    rewrite EK. unfold InvF. rewrite forallb_app. cbn [forallb]. rewrite !zsum_snoc.
    destruct (Z.ltb_spec b0 (get r e)) as [L1|L1]; [|destruct (Z.ltb_spec (get r e) b0) as [L2|L2]].
    - assert (Tf : tied e = false) by (unfold tied; destruct (Z.eqb_spec (get r e) b0); [lia|reflexivity]). rewrite Tf.
      assert (cNe : forall i, cN e i = pt (get r e) (tie e - bef e) i + pt (get r e + 1) (aft e - tie e) i).
      { intros i. unfold cN. destruct (Z.ltb_spec b0 (get r e)); [reflexivity|lia]. }
      assert (aNe : forall i, aN e i = pt (get r e + 1) (aft e - bef e) i).
      { intros i. unfold aN. destruct (Z.ltb_spec b0 (get r e)); [reflexivity|lia]. }
      repeat split; try (rewrite ?aadd_length; assumption); try lia; try (rewrite Hal; cbn; rewrite ?andb_true_r, ?andb_false_r; reflexivity).
      + intros i Hi. rewrite zsum_snoc, !aget_aadd by (rewrite ?aadd_length; lia). rewrite (HC i Hi), cNe. unfold pt. lia.
      + intros i Hi. rewrite zsum_snoc, !aget_aadd by (rewrite ?aadd_length; lia). rewrite (HA i Hi), aNe. unfold pt. lia.
    - assert (Tf : tied e = false) by (unfold tied; destruct (Z.eqb_spec (get r e) b0); [lia|reflexivity]). rewrite Tf.
      assert (cNe : forall i, cN e i = pt (get r e) (tie e - aft e) i + (if get r e =? 0 then 0 else pt (get r e - 1) (bef e - tie e) i)).
      { intros i. unfold cN. destruct (Z.ltb_spec b0 (get r e)); [lia|]. destruct (Z.ltb_spec (get r e) b0); [reflexivity|lia]. }
      assert (aNe : forall i, aN e i = pt (get r e) (bef e - aft e) i).
      { intros i. unfold aN. destruct (Z.ltb_spec b0 (get r e)); [lia|]. destruct (Z.ltb_spec (get r e) b0); [reflexivity|lia]. }
      repeat split; try (destruct (get r e =? 0); rewrite ?aadd_length; assumption); try (rewrite ?aadd_length; assumption); try lia; try (rewrite Hal; cbn; rewrite ?andb_true_r, ?andb_false_r; reflexivity).
      + intros i Hi. rewrite zsum_snoc, cNe.
        destruct (Z.eqb_spec (get r e) 0) as [E0|E0]; rewrite !aget_aadd by (rewrite ?aadd_length; lia); rewrite (HC i Hi); unfold pt; lia.
      + intros i Hi. rewrite zsum_snoc, !aget_aadd by (rewrite ?aadd_length; lia). rewrite (HA i Hi), aNe. unfold pt. lia.
    - assert (Eb : get r e = b0) by lia.
      assert (cN0 : forall i, cN e i = 0) by (intros i; unfold cN; destruct (Z.ltb_spec b0 (get r e)); [lia|]; destruct (Z.ltb_spec (get r e) b0); [lia|reflexivity]).
      assert (aN0 : forall i, aN e i = 0) by (intros i; unfold aN; destruct (Z.ltb_spec b0 (get r e)); [lia|]; destruct (Z.ltb_spec (get r e) b0); [lia|reflexivity]).
      destruct (Nat.eqb_spec t e) as [<-|Ne].
      + assert (Tf : tied t = false) by (unfold tied; rewrite Nat.eqb_refl, andb_false_r; reflexivity). rewrite Tf.
        repeat split; try assumption; try lia; try (rewrite Hal; cbn; rewrite ?andb_true_r, ?andb_false_r; reflexivity).
        * intros i Hi. rewrite zsum_snoc, (HC i Hi), cN0. lia.
        * intros i Hi. rewrite zsum_snoc, (HA i Hi), aN0. lia.
      + assert (Tt : tied e = true).
        { unfold tied. rewrite Eb, Z.eqb_refl. destruct (Nat.eqb_spec e t); [subst; contradiction|reflexivity]. }
        rewrite Tt. repeat split; try assumption; try lia; try (cbn; rewrite ?andb_true_r, ?andb_false_r; reflexivity).
        * intros i Hi. rewrite zsum_snoc, (HC i Hi), cN0. lia.
        * intros i Hi. rewrite zsum_snoc, (HA i Hi), aN0. lia.
  Qed.

  Lemma fold_inv : forall l l0 st, InvF l0 st -> (forall e, In e l -> (e < n)%nat) ->
    InvF (l0 ++ l) (fold_left (delta_step K r t b0) l st).
  Proof.
    induction l as [|e l IH]; intros l0 st H Hl; [rewrite app_nil_r; exact H|]. cbn [fold_left].
    replace (l0 ++ e :: l) with ((l0 ++ [e]) ++ l) by (rewrite <- app_assoc; reflexivity).
    apply IH; [apply step_inv; [exact H|apply Hl; left; reflexivity]|intros e' He'; apply Hl; right; exact He'].
  Qed.

  Lemma tied_t : tied t = false.
  Proof. unfold tied. rewrite Nat.eqb_refl, andb_false_r. reflexivity. Qed.

  Lemma alone_iff : forallb (fun e => negb (tied e)) (seq 0 n) = true <-> alone_in n r t.
  Proof.
    rewrite forallb_forall. unfold alone_in. split.
    - intros H e He Ne. specialize (H e ltac:(apply in_seq; lia)). unfold tied in H. fold b0.
      destruct (Z.eqb_spec (get r e) b0); [|assumption]. destruct (Nat.eqb_spec e t); [contradiction|discriminate].
    - intros H e He. apply in_seq in He. unfold tied. destruct (Nat.eqb_spec e t) as [->|Ne]; [rewrite andb_false_r; reflexivity|].
      specialize (H e ltac:(lia) Ne). fold b0 in H. destruct (Z.eqb_spec (get r e) b0); [contradiction|reflexivity].
  Qed.

  Theorem compute_delta_costs_spec :
    let '(alone, C, A) := compute_delta_costs K r t b0 n in
    (alone = true <-> alone_in n r t) /\ length C = (n + 2)%nat /\ length A = (n + 3)%nat /\
    (forall i, 0 <= i -> aget C i = CF i) /\ (forall i, 0 <= i -> aget A i = AF i).
  Proof.
    unfold compute_delta_costs.
    assert (I0 : InvF [] (repeat 0 (n + 2), repeat 0 (n + 3), true, 0, 0, 0)).
    { unfold InvF. rewrite !repeat_length. repeat split; try reflexivity; intros i _; apply aget_repeat. }
    pose proof (fold_inv (seq 0 n) [] _ I0 ltac:(intros e He; apply in_seq in He; lia)) as I. cbn [app] in I.
    destruct (fold_left (delta_step K r t b0) (seq 0 n) (repeat 0 (n + 2), repeat 0 (n + 3), true, 0, 0, 0)) as [[[[[C A] al] qb] qa] qt].
    destruct I as (LC & LA & HC & HA & Hqb & Hqa & Hqt & Hal).
    destruct HD as (L & Rg & _). pose proof (Rg t Ht) as Rt. fold b0 in Rt.
    split; [rewrite Hal; apply alone_iff|].
    split; [destruct (b0 =? 0); rewrite ?aadd_length; exact LC|]. split; [rewrite !aadd_length; exact LA|].
    (* sums over all the elements = sums over the others *)
    assert (SO : forall g : nat -> Z, g t = 0 -> zsum (map g others) = zsum (map g (seq 0 n))).
    { intros g Hg. unfold others. apply zsum_filter_zero. intros e He. destruct (Nat.eqb_spec e t); [subst; exact Hg|discriminate]. }
    assert (cNt : forall i, cN t i = 0) by (intros i; unfold cN; fold b0; rewrite !Z.ltb_irrefl; reflexivity).
    assert (aNt : forall i, aN t i = 0) by (intros i; unfold aN; fold b0; rewrite !Z.ltb_irrefl; reflexivity).
    split.
    - intros i Hi. unfold CF, change.
      rewrite (zsum_map_ext _ (fun e => cN e i + ((if b0 =? 0 then 0 else pt (b0 - 1) (if tied e then bef e - tie e else 0) i)
                                                    + pt (b0 + 1) (if tied e then aft e - tie e else 0) i))).
      2:{ intros e He. unfold others in He. apply filter_In in He as [He Ne]. apply in_seq in He.
          destruct (Nat.eqb_spec e t) as [->|Ne']; [discriminate|]. pose proof (Rg e ltac:(lia)) as Re.
          unfold contrib, cN, tied. destruct (Nat.eqb_spec e t); [contradiction|]. rewrite andb_true_r.
          destruct (Z.ltb_spec b0 (get r e)); [destruct (Z.eqb_spec (get r e) b0); [lia|]; unfold pt; destruct (b0 =? 0); destruct (i =? b0 - 1); destruct (i =? b0 + 1); lia|].
          destruct (Z.ltb_spec (get r e) b0); [destruct (Z.eqb_spec (get r e) b0); [lia|]; unfold pt; destruct (b0 =? 0); destruct (i =? b0 - 1); destruct (i =? b0 + 1); lia|].
          destruct (Z.eqb_spec (get r e) b0); [|lia]. lia. }
      rewrite zsum_map_add3, (SO (fun e => cN e i) (cNt i)).
      assert (Tail : zsum (map (fun e => (if b0 =? 0 then 0 else pt (b0 - 1) (if tied e then bef e - tie e else 0) i)
                                         + pt (b0 + 1) (if tied e then aft e - tie e else 0) i) others)
                     = (if b0 =? 0 then 0 else pt (b0 - 1) (qb - qt) i) + pt (b0 + 1) (qa - qt) i).
      { rewrite zsum_map_add3, pt_sum.
        assert (Ea : zsum (map (fun e => if tied e then aft e - tie e else 0) others) = qa - qt).
        { rewrite SO by (rewrite tied_t; reflexivity). rewrite Hqa, Hqt, <- zsum_map_sub. apply zsum_map_ext. intros e _. destruct (tied e); lia. }
        rewrite Ea. destruct (b0 =? 0).
        - assert (Z0 : forall l : list nat, zsum (map (fun _ => 0) l) = 0) by (induction l as [|a l IH]; [reflexivity|]; cbn [map]; rewrite zsum_cons, IH; reflexivity). rewrite Z0. reflexivity.
        - rewrite pt_sum. f_equal. f_equal. rewrite SO by (rewrite tied_t; reflexivity). rewrite Hqb, Hqt, <- zsum_map_sub. apply zsum_map_ext. intros e _. destruct (tied e); lia. }
      rewrite Tail. destruct (Z.eqb_spec b0 0) as [E0|E0].
      + rewrite aget_aadd by lia. rewrite (HC i Hi). unfold pt. eqbs.
      + rewrite !aget_aadd by (rewrite ?aadd_length; lia). rewrite (HC i Hi). unfold pt. eqbs.
    - intros i Hi. unfold AF, addf.
      rewrite (zsum_map_ext _ (fun e => aN e i + (pt (b0 + 1) (if tied e then aft e - tie e else 0) i + pt b0 (if tied e then bef e - tie e else 0) i))).
      2:{ intros e He. unfold others in He. apply filter_In in He as [He Ne]. apply in_seq in He.
          destruct (Nat.eqb_spec e t) as [->|Ne']; [discriminate|]. pose proof (Rg e ltac:(lia)) as Re.
          unfold contrib_add, aN, tied. destruct (Nat.eqb_spec e t); [contradiction|]. rewrite andb_true_r.
          destruct (Z.ltb_spec b0 (get r e)); [destruct (Z.eqb_spec (get r e) b0); [lia|]; unfold pt; destruct (i =? b0); destruct (i =? b0 + 1); lia|].
          destruct (Z.ltb_spec (get r e) b0); [destruct (Z.eqb_spec (get r e) b0); [lia|]; unfold pt; destruct (i =? b0); destruct (i =? b0 + 1); lia|].
          destruct (Z.eqb_spec (get r e) b0); [|lia]. lia. }
      rewrite zsum_map_add3, (SO (fun e => aN e i) (aNt i)), zsum_map_add3, !pt_sum.
      assert (Ea : zsum (map (fun e => if tied e then aft e - tie e else 0) others) = qa - qt).
      { rewrite SO by (rewrite tied_t; reflexivity). rewrite Hqa, Hqt, <- zsum_map_sub. apply zsum_map_ext. intros e _. destruct (tied e); lia. }
      assert (Eb : zsum (map (fun e => if tied e then bef e - tie e else 0) others) = qb - qt).
      { rewrite SO by (rewrite tied_t; reflexivity). rewrite Hqb, Hqt, <- zsum_map_sub. apply zsum_map_ext. intros e _. destruct (tied e); lia. }
      rewrite Ea, Eb. rewrite !aget_aadd by (rewrite ?aadd_length; lia). rewrite (HA i Hi). unfold pt. eqbs.
  Qed.
End Arrays.

(** * the two searches *)
Section Search.
  Variables (K : table) (r : vec) (t n : nat) (m : Z).
  Hypothesis HD : DenseTo n r m.
  Hypothesis Ht : (t < n)%nat.
  Hypothesis Hm : m < Z.of_nat n.

  Notation b0 := (b0 r t).
  Notation CF := (CF K r t n).
  Notation AF := (AF K r t n).
  (** variation of the score when the target joins bucket [k] / sits alone in a new bucket before position [k] *)
  Definition DJ (k : Z) : Z := delta_join (bef K t) (aft K t) (tie K t) (get r) (others t n) b0 k.
  Definition DN (k : Z) : Z := delta_new (bef K t) (aft K t) (tie K t) (get r) (others t n) b0 k.

  Lemma others_nonneg : forall e, In e (others t n) -> 0 <= get r e.
  Proof.
    intros e He. unfold others in He. apply filter_In in He as [He _]. apply in_seq in He.
    destruct HD as (_ & Rg & _). specialize (Rg e ltac:(lia)). lia.
  Qed.
  Lemma b0_range : 0 <= b0 <= m.
  Proof. destruct HD as (_ & Rg & _). exact (Rg t Ht). Qed.

  Lemma CF_right (j : Z) : b0 < j -> rsum (b0 + 1) (Z.to_nat (j - b0)) CF = DJ j.
  Proof.
    intros Hj. replace (Z.to_nat (j - b0)) with (S (Z.to_nat (j - b0 - 1))) by lia.
    unfold CF, DJ. rewrite (change_prefix_right _ _ _ _ _ _ others_nonneg (proj1 b0_range)). f_equal. lia.
  Qed.
  Lemma CF_left (j : Z) : 0 <= j < b0 -> rsum j (Z.to_nat (b0 - j)) CF = DJ j.
  Proof.
    intros Hj. replace (Z.to_nat (b0 - j)) with (S (Z.to_nat (b0 - 1 - j))) by lia.
    replace j with (b0 - 1 - Z.of_nat (Z.to_nat (b0 - 1 - j))) at 1 3 by lia.
    unfold CF, DJ. apply (change_prefix_left _ _ _ _ _ _ others_nonneg (proj1 b0_range)). lia.
  Qed.
  Lemma AF_right (j : Z) : b0 < j -> rsum (b0 + 1) (Z.to_nat (j - b0)) AF = DN j.
  Proof.
    intros Hj. replace (Z.to_nat (j - b0)) with (S (Z.to_nat (j - b0 - 1))) by lia.
    unfold AF, DN. rewrite (add_prefix_right _ _ _ _ _ _ others_nonneg). f_equal. lia.
  Qed.
  Lemma AF_left (j : Z) : 0 <= j <= b0 -> rsum j (Z.to_nat (b0 - j + 1)) AF = DN j.
  Proof.
    intros Hj. replace (Z.to_nat (b0 - j + 1)) with (S (Z.to_nat (b0 - j))) by lia.
    replace j with (b0 - Z.of_nat (Z.to_nat (b0 - j))) at 1 3 by lia.
    unfold AF, DN. apply (add_prefix_left _ _ _ _ _ _ others_nonneg). lia.
  Qed.

  Lemma THR_pos : 0 < THR.
  Proof. reflexivity. Qed.

  Theorem search_to_change_spec C :
    length C = (n + 2)%nat -> (forall i, 0 <= i -> aget C i = CF i) ->
    let '(to, C') := search_to_change_bucket b0 C m in
    (to = -1 /\ forall k, 0 <= k <= m -> k <> b0 -> - THR <= DJ k) \/
    (0 <= to <= m /\ to <> b0 /\ aget C' to = DJ to /\ DJ to < - THR).
  Proof.
    intros LC HC. pose proof b0_range as Rb. pose proof THR_pos as Tp. unfold search_to_change_bucket.
    replace (b0 + 1 - 1) with b0 by lia. rewrite (HC b0) by lia.
    assert (Z0 : CF b0 = 0) by (unfold CF; apply (change_at_b0 _ _ _ _ _ _ others_nonneg)).
    rewrite Z0. destruct (Z.ltb_spec 0 (- THR)) as [Bad|_]; [lia|].
    pose proof (scan_right_spec (length C) C (b0 + 1) m ltac:(lia) ltac:(lia) ltac:(lia)) as SR.
    destruct (scan_right (length C) C (b0 + 1) m) as [res C1]. destruct SR as (L1 & Out1 & Res1).
    assert (PreR : forall j, b0 + 1 <= j -> aget C (b0 + 1 - 1) + rsum (b0 + 1) (Z.to_nat (j - (b0 + 1) + 1)) (aget C) = DJ j).
    { intros j Hj. replace (b0 + 1 - 1) with b0 by lia. rewrite (HC b0), Z0 by lia.
      replace (j - (b0 + 1) + 1) with (j - b0) by lia. rewrite <- CF_right by lia. rewrite Z.add_0_l.
      apply rsum_ext_range. intros u Hu. apply HC. lia. }
    destruct Res1 as [[-> AllR]|(Rg & Ev & Lt)].
    2:{ destruct (Z.eqb_spec res (-1)) as [E|_]; [lia|]. cbn [negb]. right. rewrite PreR in Ev by lia. rewrite Ev. repeat split; lia. }
    rewrite Z.eqb_refl. cbn [negb].
    assert (HC1 : forall j, 0 <= j <= b0 -> aget C1 j = CF j) by (intros j Hj; rewrite Out1 by lia; apply HC; lia).
    replace (b0 - 2 + 1) with (b0 - 1) by lia.
    assert (RightOk : forall k, b0 < k <= m -> - THR <= DJ k) by (intros k Hk; rewrite <- PreR by lia; apply AllR; lia).
    destruct (Z.leb_spec (-1) (b0 - 2)) as [Ge1|Lt1]; cbn [andb].
    - (* b0 >= 1 *)
      rewrite (HC1 (b0 - 1)) by lia.
      assert (E1 : CF (b0 - 1) = DJ (b0 - 1)).
      { rewrite <- (CF_left (b0 - 1)) by lia. replace (b0 - (b0 - 1)) with 1 by lia. change (Z.to_nat 1) with 1%nat. cbn [rsum]. lia. }
      destruct (Z.ltb_spec (CF (b0 - 1)) (- THR)) as [Lt|Ge].
      + right. rewrite (HC1 (b0 - 1)) by lia. rewrite <- E1. repeat split; lia.
      + pose proof (scan_left_spec (length C1) C1 (b0 - 2) ltac:(lia) ltac:(lia)) as SL.
        destruct (scan_left (length C1) C1 (b0 - 2)) as [res2 C2]. destruct SL as (L2 & Out2 & Res2).
        assert (PreL : forall j, 0 <= j <= b0 - 2 -> rsum j (Z.to_nat (b0 - 2 - j + 1)) (aget C1) + aget C1 (b0 - 2 + 1) = DJ j).
        { intros j Hj. replace (b0 - 2 + 1) with (b0 - 1) by lia. rewrite (HC1 (b0 - 1)) by lia.
          rewrite <- (CF_left j) by lia. replace (Z.to_nat (b0 - j)) with (S (Z.to_nat (b0 - 2 - j + 1))) by lia.
          rewrite rsum_snoc. replace (j + Z.of_nat (Z.to_nat (b0 - 2 - j + 1))) with (b0 - 1) by lia. f_equal.
          apply rsum_ext_range. intros u Hu. apply HC1. lia. }
        destruct Res2 as [[-> AllL]|(Rg2 & Ev2 & Lt2)].
        * left. split; [reflexivity|]. intros k Hk Nk. destruct (Z.lt_trichotomy k b0) as [Lk|[Ek|Gk]]; [|lia|apply RightOk; lia].
          destruct (Z.eq_dec k (b0 - 1)) as [->|Nk1]; [lia|]. rewrite <- PreL by lia. apply AllL. lia.
        * right. rewrite PreL in Ev2 by lia. rewrite Ev2. repeat split; lia.
    - (* b0 = 0 *)
      assert (b0 = 0) by lia.
      pose proof (scan_left_spec (length C1) C1 (b0 - 2) ltac:(lia) ltac:(lia)) as SL.
      destruct (scan_left (length C1) C1 (b0 - 2)) as [res2 C2]. destruct SL as (_ & _ & Res2).
      destruct Res2 as [[-> _]|(Rg2 & _)]; [|lia].
      left. split; [reflexivity|]. intros k Hk Nk. apply RightOk. lia.
  Qed.
  Theorem search_to_add_spec A :
    length A = (n + 3)%nat -> (forall i, 0 <= i -> aget A i = AF i) ->
    let '(to, A') := search_to_add_bucket b0 A m in
    (to = -1 /\ forall k, 0 <= k <= m + 1 -> - THR <= DN k) \/
    (0 <= to <= m + 1 /\ aget A' to = DN to /\ DN to < - THR).
  Proof.
    intros LA HA. pose proof b0_range as Rb. pose proof THR_pos as Tp. unfold search_to_add_bucket.
    replace (b0 + 2 - 1) with (b0 + 1) by lia. rewrite (HA (b0 + 1)) by lia.
    assert (E1 : AF (b0 + 1) = DN (b0 + 1)).
    { rewrite <- (AF_right (b0 + 1)) by lia. replace (b0 + 1 - b0) with 1 by lia. change (Z.to_nat 1) with 1%nat. cbn [rsum]. lia. }
    destruct (Z.ltb_spec (AF (b0 + 1)) (- THR)) as [Lt|Ge].
    { right. rewrite (HA (b0 + 1)) by lia. rewrite <- E1. repeat split; lia. }
    pose proof (scan_right_spec (length A) A (b0 + 2) (m + 1) ltac:(lia) ltac:(lia) ltac:(lia)) as SR.
    destruct (scan_right (length A) A (b0 + 2) (m + 1)) as [res A1]. destruct SR as (L1 & Out1 & Res1).
    assert (PreR : forall j, b0 + 2 <= j -> aget A (b0 + 2 - 1) + rsum (b0 + 2) (Z.to_nat (j - (b0 + 2) + 1)) (aget A) = DN j).
    { intros j Hj. replace (b0 + 2 - 1) with (b0 + 1) by lia. rewrite (HA (b0 + 1)) by lia.
      rewrite <- (AF_right j) by lia. replace (Z.to_nat (j - b0)) with (S (Z.to_nat (j - (b0 + 2) + 1))) by lia. cbn [rsum].
      replace (b0 + 1 + 1) with (b0 + 2) by lia. f_equal. apply rsum_ext_range. intros u Hu. apply HA. lia. }
    destruct Res1 as [[-> AllR]|(Rg & Ev & Lt)].
    2:{ destruct (Z.eqb_spec res (-1)) as [E|_]; [lia|]. cbn [negb]. right. rewrite PreR in Ev by lia. rewrite Ev. repeat split; lia. }
    rewrite Z.eqb_refl. cbn [negb].
    assert (HA1 : forall j, 0 <= j <= b0 + 1 -> aget A1 j = AF j) by (intros j Hj; rewrite Out1 by lia; apply HA; lia).
    assert (RightOk : forall k, b0 < k <= m + 1 -> - THR <= DN k).
    { intros k Hk. destruct (Z.eq_dec k (b0 + 1)) as [->|Nk]; [lia|]. rewrite <- PreR by lia. apply AllR. lia. }
    replace (b0 - 1 + 1) with b0 by lia. rewrite (HA1 b0) by lia.
    assert (E0 : AF b0 = DN b0).
    { rewrite <- (AF_left b0) by lia. replace (b0 - b0 + 1) with 1 by lia. change (Z.to_nat 1) with 1%nat. cbn [rsum]. lia. }
    destruct (Z.ltb_spec (AF b0) (- THR)) as [Lt|Ge0].
    { right. rewrite (HA1 b0) by lia. rewrite <- E0. repeat split; lia. }
    pose proof (scan_left_spec (length A1) A1 (b0 - 1) ltac:(lia) ltac:(lia)) as SL.
    destruct (scan_left (length A1) A1 (b0 - 1)) as [res2 A2]. destruct SL as (L2 & Out2 & Res2).
    assert (PreL : forall j, 0 <= j <= b0 - 1 -> rsum j (Z.to_nat (b0 - 1 - j + 1)) (aget A1) + aget A1 (b0 - 1 + 1) = DN j).
    { intros j Hj. replace (b0 - 1 + 1) with b0 by lia. rewrite (HA1 b0) by lia.
      rewrite <- (AF_left j) by lia. replace (Z.to_nat (b0 - j + 1)) with (S (Z.to_nat (b0 - 1 - j + 1))) by lia.
      rewrite rsum_snoc. replace (j + Z.of_nat (Z.to_nat (b0 - 1 - j + 1))) with b0 by lia. f_equal.
      apply rsum_ext_range. intros u Hu. apply HA1. lia. }
    destruct Res2 as [[-> AllL]|(Rg2 & Ev2 & Lt2)].
    - left. split; [reflexivity|]. intros k Hk. destruct (Z.lt_trichotomy k b0) as [Lk|[->|Gk]]; [|lia|apply RightOk; lia].
      rewrite <- PreL by lia. apply AllL. lia.
    - right. rewrite PreL in Ev2 by lia. rewrite Ev2. repeat split; lia.
  Qed.
End Search.
