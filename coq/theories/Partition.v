(** Models of the graph of elements, ParCons / ParFront partitions (corankco/partitioning/
    ordered_partition.py, pairwisebasedalgorithm.py) and of [OrderedPartition.consistent_with].
    An ordered partition is a [ranking] (list of groups); the group index of x is [bucket_id P x]. *)
From Corankco Require Import Prelude Scheme Rank KemenySpec CostTable OptTheory.
Local Open Scope Z_scope.

(** arc i -> j iff "i after j" is not a cheapest placement *)
Definition arc (K : table) (i j : nat) : bool := let '(b, a, t) := K i j in (b <? a) || (t <? a).
(** robust arc: "i before j" is strictly the cheapest placement *)
Definition robust_arc (K : table) (i j : nat) : bool := let '(b, a, t) := K i j in (b <? a) && (b <? t).

(** reachability by the Floyd-Warshall closure over the ids [0..n) *)
Definition reach_step (n : nat) (R : nat -> nat -> bool) (k : nat) : nat -> nat -> bool :=
  fun i j => R i j || (R i k && R k j).
Definition reach (K : table) (n : nat) : nat -> nat -> bool :=
  fold_left (reach_step n) (seq 0 n) (fun i j => Nat.eqb i j || arc K i j).
(** tabulated, so that the closure is computed once *)
Definition tabulate (n : nat) (R : nat -> nat -> bool) : list (list bool) :=
  map (fun i => map (R i) (seq 0 n)) (seq 0 n).
Definition lookup (T : list (list bool)) (i j : nat) : bool := nth j (nth i T []) false.
Definition reach_tab (K : table) (n : nat) : list (list bool) :=
  fold_left (fun T k => tabulate n (reach_step n (lookup T) k)) (seq 0 n)
            (tabulate n (fun i j => Nat.eqb i j || arc K i j)).

(** strongly connected components as lists of ids, ordered by number of ancestors (sources first) *)
Definition scc_of (T : list (list bool)) (n i : nat) : list nat :=
  filter (fun j => lookup T i j && lookup T j i) (seq 0 n).
Definition ancestors (T : list (list bool)) (n i : nat) : nat :=
  length (filter (fun k => lookup T k i) (seq 0 n)).
Fixpoint insert_by (f : list nat -> nat) (g : list nat) (l : list (list nat)) : list (list nat) :=
  match l with
  | [] => [g]
  | h :: l' => if (f g <=? f h)%nat then g :: l else h :: insert_by f g l'
  end.
Definition sccs (K : table) (n : nat) : ranking :=
  let T := reach_tab K n in
  let reps := filter (fun i => Nat.eqb (hd i (scc_of T n i)) i) (seq 0 n) in
  fold_right (fun i acc => insert_by (fun g => ancestors T n (hd 0%nat g)) (scc_of T n i) acc) [] reps.

(** [can_be_all_tied] *)
Definition can_be_all_tied (K : table) (G : list nat) : bool :=
  forallb (fun xy => let '(b, a, t) := K (fst xy) (snd xy) in t <=? Z.min b a) (ordpairs G).

(** no arc from a later group to an earlier one *)
Definition no_back_arcs (K : table) (P : ranking) : bool :=
  forallb (fun xy => negb (bucket_id P (fst xy) <? bucket_id P (snd xy)) || negb (arc K (snd xy) (fst xy)))
          (list_prod (elems P) (elems P)).

Definition is_partition_of (U : list nat) (P : ranking) : bool :=
  Nat.eqb (length (elems P)) (length U) && forallb (fun x => mem x (elems P)) U
  && forallb (fun x => mem x U) (elems P) && forallb (fun g => negb (Nat.eqb (length g) 0)) P.

(** ** ParFront: merging consecutive groups that are not linked by robust arcs only *)
Definition fully_robust (K : table) (G1 G2 : list nat) : bool :=
  forallb (fun x => forallb (fun y => robust_arc K x y) G2) G1.

Fixpoint merge_at (P : ranking) (i : nat) : ranking :=
  match i, P with
  | O, g1 :: g2 :: P' => (g1 ++ g2) :: P'
  | S i', g :: P' => g :: merge_at P' i'
  | _, _ => P
  end.

(** the while loop, with the repaired back-tracking [index = max(index - 1, 0)] *)
Fixpoint merge_loop (fuel : nat) (K : table) (P : ranking) (index : nat) : option ranking :=
  match fuel with
  | O => None
  | S f =>
      if (index <? length P - 1)%nat then
        if fully_robust K (nth index P []) (nth (S index) P []) then merge_loop f K P (S index)
        else merge_loop f K (merge_at P index) (Nat.max (index - 1) 0)
      else Some P
  end.
Definition parfront_from (K : table) (P0 : ranking) : option ranking := merge_loop (2 * length P0 + 2) K P0 0.

Definition all_consecutive_robust (K : table) (P : ranking) : bool :=
  forallb (fun i => fully_robust K (nth i P []) (nth (S i) P [])) (seq 0 (length P - 1)).

(** ** consistent_with (after the repair of F8: the walk always terminates) *)
Inductive cw_outcome := CW (b : bool) | CWHang.

(** inner loop over the buckets of the consensus for one group *)
Fixpoint cw_inner (fuel : nat) (group : list nat) (cons : ranking) (to_see : Z) (flag : bool)
  : option (ranking * Z * bool) :=
  match fuel with
  | O => None
  | S f =>
      if flag && (0 <? to_see) then
        match cons with
        | [] => Some (cons, to_see, flag)
        | b :: cons' =>
            let flag' := flag && forallb (fun e => mem e group) b in
            let seen := Z.of_nat (length (filter (fun e => mem e group) b)) in
            cw_inner f group cons' (to_see - seen) flag'
        end
      else Some (cons, to_see, flag)
  end.

Fixpoint cw_outer (P : ranking) (cons : ranking) (flag : bool) : cw_outcome :=
  match P with
  | [] => CW flag
  | g :: P' =>
      if flag then
        match cw_inner (S (length cons)) g cons (Z.of_nat (length g)) flag with
        | None => CWHang
        | Some (cons', to_see, flag') => cw_outer P' cons' (flag' && (to_see <=? 0))
        end
      else CW false
  end.

(** [nb_cons] = number of elements of the Consensus object, [nb_part] = of the partition *)
Definition consistent_with (P : ranking) (cons : ranking) (nb_cons nb_part : Z) : cw_outcome :=
  cw_outer P cons (nb_cons =? nb_part).

(** the relation it is meant to decide *)
Definition respects (P c : ranking) : bool :=
  forallb (fun xy => negb (bucket_id P (fst xy) <? bucket_id P (snd xy)) || (bucket_id c (fst xy) <? bucket_id c (snd xy)))
          (list_prod (elems P) (elems P)).
