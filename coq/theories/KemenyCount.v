(** Property C01, main theorem: the counters computed by the Kemeny routine add up to the generalized
    pairwise-penalty definition.  Plan: split the unordered pairs of candidate elements into
    ranked/ranked, ranked/missing, missing/missing (re-enumerating the pairs is allowed because the
    penalty of a pair is symmetric for valid schemes); the last two classes are counted along the buckets of
    the candidate, the first along the buckets of the input ranking (run-length walk + merge sort). *)
From Corankco Require Import Prelude Scheme Rank KemenySpec CostTableProof OptTheory KemenyMerge KemenyImpl KemenyProof.
From Coq Require Import Sorting.Sorted.
Local Open Scope Z_scope.

(** * sums over pairs *)
Definition psum {A} (F : A -> A -> Z) (l : list (A * A)) : Z := zsum (map (fun p => F (fst p) (snd p)) l).
Definition xsum {A} (F : A -> A -> Z) (l1 l2 : list A) : Z := zsum (map (fun x => zsum (map (F x) l2)) l1).

Lemma psum_app {A} (F : A -> A -> Z) l1 l2 : psum F (l1 ++ l2) = psum F l1 + psum F l2.
Proof. unfold psum. rewrite map_app, zsum_app. reflexivity. Qed.

Lemma psum_map_pair {A} (F : A -> A -> Z) a l : psum F (map (pair a) l) = zsum (map (F a) l).
Proof. unfold psum. rewrite map_map. reflexivity. Qed.

Lemma ordpairs_app_sum {A} (F : A -> A -> Z) (l1 l2 : list A) :
  psum F (ordpairs (l1 ++ l2)) = psum F (ordpairs l1) + xsum F l1 l2 + psum F (ordpairs l2).
Proof.
  induction l1 as [|a l1 IH].
  - cbn [app ordpairs]. change (psum F []) with 0. change (xsum F [] l2) with 0. lia.
  - cbn [app ordpairs]. rewrite !psum_app, IH, !psum_map_pair. unfold xsum. cbn [map]. rewrite zsum_cons.
    rewrite map_app, zsum_app. lia.
Qed.

Lemma xsum_nil_r {A} (F : A -> A -> Z) l : xsum F l [] = 0.
Proof.
  unfold xsum. rewrite (zsum_map_ext _ (fun _ => 0)) by reflexivity.
  induction l as [|a l IH]; [reflexivity|]. cbn [map]. rewrite zsum_cons, IH. reflexivity.
Qed.
Lemma xsum_cons_l {A} (F : A -> A -> Z) a l1 l2 : xsum F (a :: l1) l2 = zsum (map (F a) l2) + xsum F l1 l2.
Proof. reflexivity. Qed.
Lemma xsum_app_l {A} (F : A -> A -> Z) l1 l1' l2 : xsum F (l1 ++ l1') l2 = xsum F l1 l2 + xsum F l1' l2.
Proof. unfold xsum. rewrite map_app, zsum_app. reflexivity. Qed.
Lemma xsum_app_r {A} (F : A -> A -> Z) l1 l2 l2' : xsum F l1 (l2 ++ l2') = xsum F l1 l2 + xsum F l1 l2'.
Proof.
  unfold xsum. induction l1 as [|a l1 IH]; [reflexivity|]. cbn [map]. rewrite !zsum_cons, map_app, zsum_app, IH. lia.
Qed.
Lemma xsum_ext {A} (F G : A -> A -> Z) l1 l2 :
  (forall x y, In x l1 -> In y l2 -> F x y = G x y) -> xsum F l1 l2 = xsum G l1 l2.
Proof.
  intros H. unfold xsum. apply zsum_map_ext. intros x Hx. apply zsum_map_ext. intros y Hy. auto.
Qed.
Lemma xsum_const {A} (c : Z) (l1 l2 : list A) : xsum (fun _ _ => c) l1 l2 = c * Z.of_nat (length l1) * Z.of_nat (length l2).
Proof.
  unfold xsum. induction l1 as [|a l1 IH]; [simpl; lia|]. cbn [map length]. rewrite zsum_cons, IH.
  assert (E : zsum (map (fun _ : A => c) l2) = c * Z.of_nat (length l2)).
  { clear. induction l2 as [|b l2 IH]; [simpl; lia|]. cbn [map length]. rewrite zsum_cons, IH. lia. }
  rewrite E. lia.
Qed.
Lemma psum_ext {A} (F G : A -> A -> Z) (l : list A) :
  (forall x y, In x l -> In y l -> F x y = G x y) -> psum F (ordpairs l) = psum G (ordpairs l).
Proof.
  intros H. unfold psum. apply zsum_map_ext. intros [x y] Hxy. apply ordpairs_in' in Hxy as [Hx Hy]. simpl. auto.
Qed.
Lemma psum_const {A} (c : Z) (l : list A) : psum (fun _ _ => c) (ordpairs l) * 2 = c * Z.of_nat (length l) * (Z.of_nat (length l) - 1).
Proof.
  induction l as [|a l IH]; [cbn [ordpairs length]; change (psum (fun _ _ : A => c) []) with 0; lia|]. cbn [ordpairs]. rewrite psum_app.
  assert (E : psum (fun _ _ : A => c) (map (pair a) l) = c * Z.of_nat (length l)).
  { unfold psum. rewrite map_map. simpl. clear. induction l as [|b l IH]; [simpl; lia|]. cbn [map length]. rewrite zsum_cons, IH. lia. }
  rewrite E. cbn [length]. lia.
Qed.

(** * bucket ids along the buckets of the candidate *)
Lemma bid_head k b c x : In x b -> bid_from k (b :: c) x = k.
Proof. intros H. simpl. apply mem_In in H. rewrite H. reflexivity. Qed.
Lemma bid_tail k b c x : ~ In x b -> bid_from k (b :: c) x = bid_from (k + 1) c x.
Proof. intros H. simpl. apply mem_false in H. rewrite H. reflexivity. Qed.
Lemma bid_tail_ge k c x : 0 <= k -> In x (concat c) -> k <= bid_from k c x.
Proof. intros Hk Hx. destruct (bid_from_range k c x Hk) as [E|E]; [|assumption]. apply bid_from_unranked in E; [contradiction|assumption]. Qed.

(** triangular numbers without division *)
Fixpoint tri (n : nat) : Z := match n with O => 0 | S n' => Z.of_nat n' + tri n' end.
Lemma tri_double n : 2 * tri n = Z.of_nat n * (Z.of_nat n - 1).
Proof. induction n as [|n IH]; [reflexivity|]. cbn [tri]. rewrite Nat2Z.inj_succ. lia. Qed.
Lemma tri_div n : tri n = Z.of_nat n * (Z.of_nat n - 1) / 2.
Proof. rewrite <- tri_double. rewrite Z.mul_comm, Z.div_mul by lia. reflexivity. Qed.

Lemma psum_const_tri {A} (c : Z) (l : list A) : psum (fun _ _ => c) (ordpairs l) = c * tri (length l).
Proof.
  induction l as [|a l IH]; [cbn [ordpairs length tri]; change (psum (fun _ _ : A => c) []) with 0; lia|].
  cbn [ordpairs length tri]. rewrite psum_app, IH, psum_map_pair.
  assert (E : zsum (map (fun _ : A => c) l) = c * Z.of_nat (length l)).
  { clear. induction l as [|b l IH]; [simpl; lia|]. cbn [map length]. rewrite zsum_cons, IH. lia. }
  rewrite E. lia.
Qed.

Lemma filter_concat {A} (f : A -> bool) (c : list (list A)) : filter f (concat c) = concat (map (filter f) c).
Proof. induction c as [|b c IH]; [reflexivity|]. simpl. rewrite filter_app, IH. reflexivity. Qed.

Lemma filter_split_perm {A} (f : A -> bool) (l : list A) : Permutation l (filter f l ++ filter (fun x => negb (f x)) l).
Proof.
  induction l as [|a l IH]; [reflexivity|]. simpl. destruct (f a); simpl.
  - constructor. exact IH.
  - etransitivity; [constructor; exact IH|]. apply Permutation_middle.
Qed.

Section OneRanking.
  Variable s : scheme.
  Variable r : ranking.
  Hypothesis Hb0 : b0 s = 0.
  Hypothesis Ht2 : t2 s = 0.
  Hypothesis Ht01 : t0 s = t1 s.
  Hypothesis Ht34 : t3 s = t4 s.

  Definition rk (x : nat) : bool := mem x (elems r).
  Definition ms (x : nat) : bool := negb (rk x).

  Definition penk (k : Z) (c : ranking) (x y : nat) : Z :=
    match Z.compare (bid_from k c x) (bid_from k c y) with
    | Lt => Bv s (status r x y)
    | Gt => Bv s (status r y x)
    | Eq => Tv s (status r x y)
    end.

  Lemma penk0 c x y : penk 0 c x y = placement_pen s c r x y.
  Proof. reflexivity. Qed.

  Lemma rk_bid x : rk x = true <-> bucket_id r x <> -1.
  Proof.
    unfold rk. rewrite mem_In. split.
    - intros H E. apply bucket_id_unranked in E. contradiction.
    - intros H. destruct (in_dec Nat.eq_dec x (elems r)) as [I|I]; [assumption|].
      exfalso. apply H. apply bucket_id_unranked. exact I.
  Qed.
  Lemma ms_bid x : ms x = true <-> bucket_id r x = -1.
  Proof.
    unfold ms. rewrite negb_true_iff. split.
    - intros H. destruct (Z.eq_dec (bucket_id r x) (-1)) as [E|E]; [assumption|]. apply rk_bid in E. congruence.
    - intros H. destruct (rk x) eqn:E; [|reflexivity]. apply rk_bid in E. contradiction.
  Qed.

  Lemma status_mm x y : ms x = true -> ms y = true -> status r x y = 5%nat.
  Proof. intros Hx Hy. apply ms_bid in Hx, Hy. unfold status, stat. rewrite Hx, Hy. reflexivity. Qed.
  Lemma status_rm x y : rk x = true -> ms y = true -> status r x y = 3%nat /\ status r y x = 4%nat.
  Proof.
    intros Hx Hy. apply rk_bid in Hx. apply ms_bid in Hy. unfold status, stat. rewrite Hy.
    replace (bucket_id r x =? -1) with false by lia. split; reflexivity.
  Qed.

  (** penalties are symmetric *)
  Lemma penk_sym k c x y : penk k c x y = penk k c y x.
  Proof.
    unfold penk. rewrite (Z.compare_antisym (bid_from k c x) (bid_from k c y)).
    destruct (bid_from k c x ?= bid_from k c y); simpl; try reflexivity.
    unfold status. apply Tv_stat_swap; assumption.
  Qed.

  (** moving to the tail of the candidate *)
  Lemma penk_tail k b c x y : ~ In x b -> ~ In y b -> penk k (b :: c) x y = penk (k + 1) c x y.
  Proof. intros Hx Hy. unfold penk. rewrite !bid_tail by assumption. reflexivity. Qed.

  Definition mcnt (b : list nat) : Z := Z.of_nat (length (filter ms b)).
  Definition rcnt (b : list nat) : Z := Z.of_nat (length (filter rk b)).
  Definition Mtot (c : ranking) : Z := zsum (map mcnt c).
  Definition Rtot (c : ranking) : Z := zsum (map rcnt c).

  Lemma length_concat_filter (f : nat -> bool) (c : ranking) :
    Z.of_nat (length (concat (map (filter f) c))) = zsum (map (fun b => Z.of_nat (length (filter f b))) c).
  Proof. induction c as [|b c IH]; [reflexivity|]. cbn [map concat]. rewrite app_length, zsum_cons. lia. Qed.

  Fixpoint MMval (c : ranking) : Z :=
    match c with
    | [] => 0
    | b :: c' => t5 s * tri (length (filter ms b)) + b5 s * (mcnt b * Mtot c') + MMval c'
    end.

  Fixpoint RMval (c : ranking) : Z :=
    match c with
    | [] => 0
    | b :: c' => t3 s * (rcnt b * mcnt b) + b3 s * (rcnt b * Mtot c') + b4 s * (Rtot c' * mcnt b) + RMval c'
    end.

  Lemma Bv5 : Bv s 5 = b5 s. Proof. reflexivity. Qed.
  Lemma Tv5 : Tv s 5 = t5 s. Proof. reflexivity. Qed.

  (** missing / missing pairs, along the buckets of the candidate *)
  Lemma MM_struct c : forall k, 0 <= k -> NoDup (concat c) ->
    psum (penk k c) (ordpairs (concat (map (filter ms) c))) = MMval c.
  Proof.
    induction c as [|b c IH]; intros k Hk Nd; [reflexivity|].
    cbn [map concat MMval]. simpl in Nd. apply NoDup_app_inv in Nd as (Nb & Nc & Dj).
    rewrite ordpairs_app_sum.
    assert (E1 : psum (penk k (b :: c)) (ordpairs (filter ms b)) = t5 s * tri (length (filter ms b))).
    { rewrite <- psum_const_tri. apply psum_ext. intros x y Hx Hy. apply filter_In in Hx as [Hx Mx]. apply filter_In in Hy as [Hy My].
      unfold penk. rewrite !bid_head by assumption. rewrite Z.compare_refl. rewrite (status_mm x y Mx My). reflexivity. }
    assert (E2 : xsum (penk k (b :: c)) (filter ms b) (concat (map (filter ms) c)) = b5 s * (mcnt b * Mtot c)).
    { rewrite (xsum_ext _ (fun _ _ => b5 s)).
      - rewrite xsum_const. unfold Mtot, mcnt. rewrite length_concat_filter. ring.
      - intros x y Hx Hy. apply filter_In in Hx as [Hx Mx]. rewrite <- filter_concat in Hy. apply filter_In in Hy as [Hy My].
        unfold penk. rewrite (bid_head k b c x Hx). rewrite (bid_tail k b c y) by (intros H; exact (Dj y H Hy)).
        pose proof (bid_tail_ge (k + 1) c y ltac:(lia) Hy) as G.
        replace (k ?= bid_from (k + 1) c y) with Lt by (symmetry; apply Z.compare_lt_iff; lia).
        rewrite (status_mm x y Mx My). reflexivity. }
    assert (E3 : psum (penk k (b :: c)) (ordpairs (concat (map (filter ms) c))) = MMval c).
    { rewrite <- (IH (k + 1) ltac:(lia) Nc). apply psum_ext. intros x y Hx Hy.
      rewrite <- filter_concat in Hx, Hy. apply filter_In in Hx as [Hx _]. apply filter_In in Hy as [Hy _].
      apply penk_tail; intros H; [exact (Dj x H Hx)|exact (Dj y H Hy)]. }
    rewrite E1, E2, E3. lia.
  Qed.

  (** ranked / missing pairs, along the buckets of the candidate *)
  Lemma RM_struct c : forall k, 0 <= k -> NoDup (concat c) ->
    xsum (penk k c) (concat (map (filter rk) c)) (concat (map (filter ms) c)) = RMval c.
  Proof.
    induction c as [|b c IH]; intros k Hk Nd; [reflexivity|].
    cbn [map concat RMval]. simpl in Nd. apply NoDup_app_inv in Nd as (Nb & Nc & Dj).
    rewrite xsum_app_l, !xsum_app_r.
    assert (E1 : xsum (penk k (b :: c)) (filter rk b) (filter ms b) = t3 s * (rcnt b * mcnt b)).
    { rewrite (xsum_ext _ (fun _ _ => t3 s)); [rewrite xsum_const; unfold rcnt, mcnt; ring|].
      intros x y Hx Hy. apply filter_In in Hx as [Hx Rx]. apply filter_In in Hy as [Hy My].
      unfold penk. rewrite !bid_head by assumption. rewrite Z.compare_refl.
      destruct (status_rm x y Rx My) as [S1 _]. rewrite S1. reflexivity. }
    assert (E2 : xsum (penk k (b :: c)) (filter rk b) (concat (map (filter ms) c)) = b3 s * (rcnt b * Mtot c)).
    { rewrite (xsum_ext _ (fun _ _ => b3 s)); [rewrite xsum_const; unfold Mtot, rcnt, mcnt; rewrite length_concat_filter; ring|].
      intros x y Hx Hy. apply filter_In in Hx as [Hx Rx]. rewrite <- filter_concat in Hy. apply filter_In in Hy as [Hy My].
      unfold penk. rewrite (bid_head k b c x Hx). rewrite (bid_tail k b c y) by (intros H; exact (Dj y H Hy)).
      pose proof (bid_tail_ge (k + 1) c y ltac:(lia) Hy) as G.
      replace (k ?= bid_from (k + 1) c y) with Lt by (symmetry; apply Z.compare_lt_iff; lia).
      destruct (status_rm x y Rx My) as [S1 _]. rewrite S1. reflexivity. }
    assert (E3 : xsum (penk k (b :: c)) (concat (map (filter rk) c)) (filter ms b) = b4 s * (Rtot c * mcnt b)).
    { rewrite (xsum_ext _ (fun _ _ => b4 s)); [rewrite xsum_const; unfold Rtot, rcnt, mcnt; rewrite length_concat_filter; ring|].
      intros x y Hx Hy. rewrite <- filter_concat in Hx. apply filter_In in Hx as [Hx Rx]. apply filter_In in Hy as [Hy My].
      unfold penk. rewrite (bid_head k b c y Hy). rewrite (bid_tail k b c x) by (intros H; exact (Dj x H Hx)).
      pose proof (bid_tail_ge (k + 1) c x ltac:(lia) Hx) as G.
      replace (bid_from (k + 1) c x ?= k) with Gt by (symmetry; apply Z.compare_gt_iff; lia).
      destruct (status_rm x y Rx My) as [_ S2]. rewrite S2. reflexivity. }
    assert (E4 : xsum (penk k (b :: c)) (concat (map (filter rk) c)) (concat (map (filter ms) c)) = RMval c).
    { rewrite <- (IH (k + 1) ltac:(lia) Nc). apply xsum_ext. intros x y Hx Hy.
      rewrite <- filter_concat in Hx, Hy. apply filter_In in Hx as [Hx _]. apply filter_In in Hy as [Hy _].
      apply penk_tail; intros H; [exact (Dj x H Hx)|exact (Dj y H Hy)]. }
    rewrite E1, E2, E3, E4. lia.
  Qed.
End OneRanking.

(** * ranked / ranked pairs, along the buckets of the input ranking *)
Section Ranked.
  Variable s : scheme.
  Variable r0 : ranking.      (* the whole input ranking: fixes [status] *)
  Variable c : ranking.       (* the candidate *)
  Hypothesis Hb0 : b0 s = 0.
  Hypothesis Ht2 : t2 s = 0.
  Hypothesis Ht01 : t0 s = t1 s.

  Definition fc (x : nat) : nat := cid c x.

  Definition within (a b : nat) : Z := if Nat.eqb a b then 0 else b2 s.
  Definition cross (a b : nat) : Z := if Nat.ltb a b then 0 else if Nat.ltb b a then b1 s else t0 s.

  Fixpoint RRval (r : ranking) : Z :=
    match r with
    | [] => 0
    | b :: r' => psum (fun x y => within (fc x) (fc y)) (ordpairs b)
                 + xsum (fun x y => cross (fc x) (fc y)) b (concat r') + RRval r'
    end.

  Lemma cid_compare x y : In x (concat c) -> In y (concat c) ->
    Z.compare (bucket_id c x) (bucket_id c y) = Nat.compare (fc x) (fc y).
  Proof.
    intros Hx Hy. unfold fc, cid.
    pose proof (bid_tail_ge 0 c x ltac:(lia) Hx). pose proof (bid_tail_ge 0 c y ltac:(lia) Hy).
    fold (bucket_id c x) in H. fold (bucket_id c y) in H0.
    rewrite <- (Z2Nat.id (bucket_id c x)) at 1 by lia. rewrite <- (Z2Nat.id (bucket_id c y)) at 1 by lia.
    apply Nat2Z.inj_compare.
  Qed.

  (** the statement is about sub-rankings [r] of [r0] processed with the offset [k] of their first bucket *)
  Lemma RR_struct r : forall k, 0 <= k -> NoDup (concat r) -> incl (concat r) (concat c) ->
    (forall x, In x (concat r) -> bucket_id r0 x = bid_from k r x) ->
    psum (placement_pen s c r0) (ordpairs (concat r)) = RRval r.
  Proof.
    induction r as [|b r IH]; intros k Hk Nd Hin Hb; [reflexivity|].
    cbn [concat RRval]. simpl in Nd. apply NoDup_app_inv in Nd as (Nb & Nr & Dj).
    rewrite ordpairs_app_sum.
    assert (Hinb : forall x, In x b -> In x (concat c)) by (intros x Hx; apply Hin; simpl; apply in_or_app; auto).
    assert (Hinr : forall x, In x (concat r) -> In x (concat c)) by (intros x Hx; apply Hin; simpl; apply in_or_app; auto).
    assert (Bb : forall x, In x b -> bucket_id r0 x = k).
    { intros x Hx. rewrite Hb by (simpl; apply in_or_app; auto). apply bid_head. assumption. }
    assert (Br : forall x, In x (concat r) -> bucket_id r0 x = bid_from (k + 1) r x /\ k + 1 <= bucket_id r0 x).
    { intros x Hx. rewrite Hb by (simpl; apply in_or_app; auto).
      rewrite bid_tail by (intros H; exact (Dj x H Hx)). split; [reflexivity|]. apply bid_tail_ge; [lia|assumption]. }
    assert (E1 : psum (placement_pen s c r0) (ordpairs b) = psum (fun x y => within (fc x) (fc y)) (ordpairs b)).
    { apply psum_ext. intros x y Hx Hy. unfold placement_pen, status, stat. rewrite (Bb x Hx), (Bb y Hy).
      replace (k =? -1) with false by lia. simpl. rewrite Z.ltb_irrefl.
      rewrite (cid_compare x y (Hinb x Hx) (Hinb y Hy)). unfold within.
      destruct (Nat.compare_spec (fc x) (fc y)) as [E|E|E].
      - rewrite E, Nat.eqb_refl. unfold Tv, Tl; simpl. assumption.
      - replace (Nat.eqb (fc x) (fc y)) with false by (symmetry; apply Nat.eqb_neq; lia). reflexivity.
      - replace (Nat.eqb (fc x) (fc y)) with false by (symmetry; apply Nat.eqb_neq; lia). reflexivity. }
    assert (E2 : xsum (placement_pen s c r0) b (concat r) = xsum (fun x y => cross (fc x) (fc y)) b (concat r)).
    { apply xsum_ext. intros x y Hx Hy. unfold placement_pen, status, stat. rewrite (Bb x Hx).
      destruct (Br y Hy) as [_ Gy].
      replace (k =? -1) with false by lia. replace (bucket_id r0 y =? -1) with false by lia. simpl.
      replace (k <? bucket_id r0 y) with true by lia. replace (bucket_id r0 y <? k) with false by lia.
      rewrite (cid_compare x y (Hinb x Hx) (Hinr y Hy)). unfold cross.
      destruct (Nat.compare_spec (fc x) (fc y)) as [E|E|E].
      - rewrite E, Nat.ltb_irrefl. unfold Tv, Tl; reflexivity.
      - replace (Nat.ltb (fc x) (fc y)) with true by (symmetry; apply Nat.ltb_lt; lia). unfold Bv, Bl; simpl. assumption.
      - replace (Nat.ltb (fc x) (fc y)) with false by (symmetry; apply Nat.ltb_ge; lia).
        replace (Nat.ltb (fc y) (fc x)) with true by (symmetry; apply Nat.ltb_lt; lia). reflexivity. }
    assert (E3 : psum (placement_pen s c r0) (ordpairs (concat r)) = RRval r).
    { apply (IH (k + 1)); [lia|assumption|intros x Hx; apply Hinr; assumption|intros x Hx; apply Br; assumption]. }
    rewrite E1, E2, E3. reflexivity.
  Qed.
End Ranked.

(** * counting on lists of consensus bucket ids *)
Definition neq01 (a b : nat) : Z := if Nat.eqb a b then 0 else 1.
Definition dpairs (l : list nat) : Z := psum neq01 (ordpairs l).

Lemma ordpairs_map {A B} (f : A -> B) (l : list A) :
  ordpairs (map f l) = map (fun p => (f (fst p), f (snd p))) (ordpairs l).
Proof.
  induction l as [|a l IH]; [reflexivity|]. cbn [map ordpairs]. rewrite map_app, IH, !map_map. reflexivity.
Qed.

Lemma psum_map {A B} (F : B -> B -> Z) (f : A -> B) (l : list (A * A)) :
  psum F (map (fun p => (f (fst p), f (snd p))) l) = psum (fun x y => F (f x) (f y)) l.
Proof. unfold psum. rewrite map_map. reflexivity. Qed.

Lemma psum_scale {A} (F : A -> A -> Z) (k : Z) (l : list (A * A)) : psum (fun x y => k * F x y) l = k * psum F l.
Proof.
  unfold psum. induction l as [|p l IH]; [simpl; lia|]. cbn [map]. rewrite !zsum_cons, IH. lia.
Qed.

Lemma within_dpairs s (f : nat -> nat) (b : list nat) :
  psum (fun x y => within s (f x) (f y)) (ordpairs b) = b2 s * dpairs (map f b).
Proof.
  unfold dpairs. rewrite ordpairs_map, psum_map, <- psum_scale. apply psum_ext.
  intros x y _ _. unfold within, neq01. destruct (Nat.eqb (f x) (f y)); lia.
Qed.

Lemma cnt_as_sum (P : nat -> bool) (l : list nat) : cnt P l = zsum (map (fun b => if P b then 1 else 0) l).
Proof. induction l as [|a l IH]; [reflexivity|]. rewrite cnt_cons. cbn [map]. rewrite zsum_cons, IH. reflexivity. Qed.

Lemma cross_sum s (f : nat -> nat) (b l : list nat) :
  xsum (fun x y => cross s (f x) (f y)) b l = b1 s * cross_gt (map f b) (map f l) + t0 s * cross_eq (map f b) (map f l).
Proof.
  induction b as [|a b IH]; [unfold xsum, cross_gt, cross_eq; simpl; lia|].
  rewrite xsum_cons_l, IH. cbn [map]. rewrite cross_gt_cons_l, cross_eq_cons_l.
  assert (E : zsum (map (cross s (f a)) (map f l)) =
              b1 s * cnt (fun b0 => Nat.ltb b0 (f a)) (map f l) + t0 s * cnt (fun b0 => Nat.eqb b0 (f a)) (map f l)).
  { generalize (map f l) as m. intros m. induction m as [|v m IHm]; [rewrite !cnt_nil; simpl; lia|].
    cbn [map]. rewrite zsum_cons, !cnt_cons, IHm. unfold cross.
    destruct (Nat.ltb_spec (f a) v); destruct (Nat.ltb_spec v (f a)); destruct (Nat.eqb_spec v (f a)); lia. }
  rewrite map_map in E. rewrite E. lia.
Qed.

(** permutation invariance *)
Lemma cnt_perm P l l' : Permutation l l' -> cnt P l = cnt P l'.
Proof.
  intros H. unfold cnt. f_equal. apply Permutation_length. induction H; simpl.
  - constructor.
  - destruct (P x); [constructor|]; assumption.
  - destruct (P x); destruct (P y); try constructor; reflexivity.
  - etransitivity; eassumption.
Qed.
Lemma cross_gt_perm l l' r r' : Permutation l l' -> Permutation r r' -> cross_gt l r = cross_gt l' r'.
Proof.
  intros Hl Hr. unfold cross_gt.
  rewrite (zsum_perm' _ _ (Permutation_map (fun a => cnt (fun b => Nat.ltb b a) r) Hl)).
  apply zsum_map_ext. intros a _. apply cnt_perm. exact Hr.
Qed.
Lemma cross_eq_perm l l' r r' : Permutation l l' -> Permutation r r' -> cross_eq l r = cross_eq l' r'.
Proof.
  intros Hl Hr. unfold cross_eq.
  rewrite (zsum_perm' _ _ (Permutation_map (fun a => cnt (fun b => Nat.eqb b a) r) Hl)).
  apply zsum_map_ext. intros a _. apply cnt_perm. exact Hr.
Qed.
Lemma dpairs_perm l l' : Permutation l l' -> dpairs l = dpairs l'.
Proof.
  intros H. unfold dpairs, psum. apply (ordpairs_sum_perm neq01); [|exact H].
  intros x y. unfold neq01. rewrite (Nat.eqb_sym x y). reflexivity.
Qed.

(** insertion sort *)
Lemma ins_perm x l : Permutation (ins x l) (x :: l).
Proof.
  induction l as [|y l IH]; [reflexivity|]. simpl. destruct (x <=? y)%nat; [reflexivity|].
  rewrite IH. apply perm_swap.
Qed.
Lemma isort_perm l : Permutation (isort l) l.
Proof. induction l as [|a l IH]; [reflexivity|]. simpl. rewrite ins_perm. constructor. exact IH. Qed.
Lemma ins_sorted x l : Sorted Nat.le l -> Sorted Nat.le (ins x l).
Proof.
  induction 1 as [|y l Hs IH Hy]; simpl; [repeat constructor|].
  destruct (Nat.leb_spec x y).
  - constructor; [constructor; assumption|constructor; assumption].
  - constructor; [assumption|]. destruct l as [|z l]; simpl.
    + constructor. lia.
    + inversion Hy; subst. destruct (x <=? z)%nat; constructor; lia.
Qed.
Lemma isort_sorted l : Sorted Nat.le (isort l).
Proof. induction l as [|a l IH]; [constructor|]. simpl. apply ins_sorted. exact IH. Qed.

(** the run-length walk counts the pairs of distinct values of a sorted list *)
Lemma dpairs_repeat a n : dpairs (repeat a n) = 0.
Proof.
  unfold dpairs. rewrite (psum_ext _ (fun _ _ => 0)); [rewrite psum_const_tri; lia|].
  intros x y Hx Hy. apply repeat_spec in Hx, Hy. subst. unfold neq01. rewrite Nat.eqb_refl. reflexivity.
Qed.

Lemma run_pairs_correct : forall fuel l, (length l < fuel)%nat -> Sorted Nat.le l -> run_pairs fuel l = Some (dpairs l).
Proof.
  induction fuel as [|f IH]; intros l Hf Hs; [lia|]. cbn [run_pairs].
  destruct l as [|a l]; [reflexivity|]. destruct l as [|a2 l]; [reflexivity|].
  set (L := a :: a2 :: l) in *.
  pose proof (span_eq_spec a L Hs) as Sp.
  assert (Hlb : lb a L).
  { unfold L. constructor; [lia|]. apply (sorted_lb a (a2 :: l)). exact Hs. }
  specialize (Sp Hlb). destruct (span_eq a L) as [cn rest] eqn:Es. destruct Sp as (E & Sl & Ss).
  assert (Hc : (1 <= cn)%nat).
  { destruct cn; [|lia]. simpl in E. subst rest. unfold L in Sl. inversion Sl; subst. lia. }
  assert (Hlen : length L = (cn + length rest)%nat) by (rewrite E, app_length, repeat_length; reflexivity).
  rewrite (IH rest) by (try assumption; lia).
  f_equal. replace (dpairs L) with (dpairs (repeat a cn ++ rest)) by (rewrite <- E; reflexivity).
  unfold dpairs. rewrite ordpairs_app_sum. fold (dpairs (repeat a cn)). fold (dpairs rest).
  rewrite dpairs_repeat.
  rewrite (xsum_ext _ (fun _ _ => 1)).
  - rewrite xsum_const, repeat_length. lia.
  - intros x y Hx Hy. apply repeat_spec in Hx. subst x. unfold slb in Sl. rewrite Forall_forall in Sl. specialize (Sl y Hy).
    unfold neq01. replace (Nat.eqb a y) with false by (symmetry; apply Nat.eqb_neq; lia). reflexivity.
Qed.

(** * the merge sort over the buckets of r' counts all cross-bucket inversions and equal pairs *)
Fixpoint total_gt (l : list (list nat)) : Z := match l with [] => 0 | b :: l' => cross_gt b (concat l') + total_gt l' end.
Fixpoint total_eq (l : list (list nat)) : Z := match l with [] => 0 | b :: l' => cross_eq b (concat l') + total_eq l' end.

Lemma total_gt_app l1 l2 : total_gt (l1 ++ l2) = total_gt l1 + cross_gt (concat l1) (concat l2) + total_gt l2.
Proof.
  induction l1 as [|b l1 IH]; [simpl; unfold cross_gt; simpl; lia|].
  cbn [app total_gt concat]. rewrite IH, concat_app, cross_gt_app_r, cross_gt_app_l. lia.
Qed.
Lemma total_eq_app l1 l2 : total_eq (l1 ++ l2) = total_eq l1 + cross_eq (concat l1) (concat l2) + total_eq l2.
Proof.
  induction l1 as [|b l1 IH]; [simpl; unfold cross_eq; simpl; lia|].
  cbn [app total_eq concat]. rewrite IH, concat_app, cross_eq_app_r, cross_eq_app_l. lia.
Qed.

Definition sub (rp : list (list nat)) (left right : nat) : list (list nat) := firstn (right - left + 1) (skipn left rp).

Lemma sub_single rp i : (i < length rp)%nat -> sub rp i i = [nth i rp []].
Proof.
  intros H. unfold sub. replace (i - i + 1)%nat with 1%nat by lia.
  revert i H; induction rp as [|b rp IH]; intros i H; [simpl in H; lia|].
  destruct i as [|i]; [reflexivity|]. simpl. apply IH. simpl in H. lia.
Qed.

Lemma firstn_add {A} (a b : nat) (l : list A) : firstn (a + b) l = firstn a l ++ firstn b (skipn a l).
Proof. revert l; induction a as [|a IH]; intros l; [reflexivity|]. destruct l as [|x l]; [simpl; destruct b; reflexivity|]. simpl. rewrite IH. reflexivity. Qed.
Lemma skipn_add {A} (a b : nat) (l : list A) : skipn (a + b) l = skipn b (skipn a l).
Proof. revert l; induction a as [|a IH]; intros l; [reflexivity|]. destruct l as [|x l]; [simpl; destruct b; reflexivity|]. simpl. apply IH. Qed.

Lemma sub_split rp left mid right :
  (left <= mid)%nat -> (mid < right)%nat -> (right < length rp)%nat ->
  sub rp left right = sub rp left mid ++ sub rp (mid + 1) right.
Proof.
  intros H1 H2 H3. unfold sub.
  replace (right - left + 1)%nat with ((mid - left + 1) + (right - (mid + 1) + 1))%nat by lia.
  rewrite firstn_add, <- skipn_add.
  replace (left + (mid - left + 1))%nat with (mid + 1)%nat by lia. reflexivity.
Qed.

Lemma sub_all rp : rp <> [] -> sub rp 0 (length rp - 1) = rp.
Proof.
  intros H. unfold sub. simpl skipn. replace (length rp - 1 - 0 + 1)%nat with (length rp) by (destruct rp; [contradiction|simpl; lia]).
  apply firstn_all.
Qed.

Lemma msl_unfold f rp left right : rp <> [] ->
  msl (S f) rp left right =
  if (right <=? left)%nat then Some (nth right rp [], 0, 0)
  else
    let middle := ((right - left) / 2)%nat in
    let begin := (middle + left + 1)%nat in
    match msl f rp left (middle + left), msl f rp begin right with
    | Some (l1, i1, e1), Some (l2, i2, e2) =>
        match merge (S (length l1 + length l2)) l1 l2 with
        | Some (m, i, e) => Some (m, i1 + i2 + i, e1 + e2 + e)
        | None => None
        end
    | _, _ => None
    end.
Proof. intros H. destruct rp; [contradiction|reflexivity]. Qed.

Theorem msl_correct : forall fuel rp left right,
  rp <> [] -> Forall (Sorted Nat.le) rp -> (left <= right)%nat -> (right < length rp)%nat -> (right - left < fuel)%nat ->
  exists m, msl fuel rp left right = Some (m, total_gt (sub rp left right), total_eq (sub rp left right)) /\
            Sorted Nat.le m /\ Permutation m (concat (sub rp left right)).
Proof.
  induction fuel as [|f IH]; intros rp left right Hne Hs Hlr Hr Hf; [lia|].
  rewrite msl_unfold by assumption.
  destruct (Nat.leb_spec right left) as [L|L].
  - assert (right = left) by lia. subst right. rewrite sub_single by assumption.
    exists (nth left rp []). cbn [total_gt total_eq concat]. rewrite app_nil_r.
    rewrite cross_gt_nil_r, cross_eq_nil_r. split; [reflexivity|]. split; [|reflexivity].
    rewrite Forall_forall in Hs. apply Hs. apply nth_In. assumption.
  - cbv zeta. set (mid := ((right - left) / 2 + left)%nat).
    assert (Hm1 : (left <= mid)%nat) by (unfold mid; lia).
    assert (Hm2 : (mid < right)%nat).
    { unfold mid. assert ((right - left) / 2 < right - left)%nat by (apply Nat.div_lt; lia). lia. }
    destruct (IH rp left mid Hne Hs Hm1 ltac:(lia) ltac:(lia)) as (m1 & E1 & S1 & P1).
    destruct (IH rp (mid + 1)%nat right Hne Hs ltac:(lia) Hr ltac:(lia)) as (m2 & E2 & S2 & P2).
    rewrite E1, E2.
    destruct (merge_correct (S (length m1 + length m2)) m1 m2 S1 S2 ltac:(lia)) as (m & Em & Sm & Pm).
    rewrite Em. exists m. rewrite (sub_split rp left mid right) by assumption.
    rewrite total_gt_app, total_eq_app, concat_app.
    rewrite (cross_gt_perm _ _ _ _ P1 P2), (cross_eq_perm _ _ _ _ P1 P2).
    split; [f_equal; f_equal; [f_equal|]; lia|]. split; [assumption|].
    rewrite Pm. apply Permutation_app; assumption.
Qed.

(** * the counters that walk the buckets of the candidate *)
Section Assembly.
  Variable s : scheme.
  Variable r : ranking.
  Hypothesis Hb0 : b0 s = 0.
  Hypothesis Ht2 : t2 s = 0.
  Hypothesis Ht01 : t0 s = t1 s.
  Hypothesis Ht34 : t3 s = t4 s.

  Notation rk := (rk r).
  Notation ms := (ms r).
  Notation mcnt := (mcnt r).
  Notation rcnt := (rcnt r).
  Notation Mtot := (Mtot r).
  Notation Rtot := (Rtot r).

  Lemma tmiss_eq c : tmiss c r = map mcnt c.
  Proof. reflexivity. Qed.

  Lemma len_split b : Z.of_nat (length b) = rcnt b + mcnt b.
  Proof.
    unfold KemenyCount.rcnt, KemenyCount.mcnt, KemenyCount.ms.
    rewrite <- Nat2Z.inj_add, <- app_length. f_equal. apply Permutation_length. apply filter_split_perm.
  Qed.

  (** sums produced by the loop over the buckets of the candidate *)
  Fixpoint N15 (c : ranking) : Z := match c with [] => 0 | b :: c' => mcnt b * Mtot c' + N15 c' end.
  Fixpoint N23 (c : ranking) : Z := match c with [] => 0 | b :: c' => rcnt b * mcnt b + N23 c' end.
  Fixpoint N25 (c : ranking) : Z := match c with [] => 0 | b :: c' => tri (length (filter ms b)) + N25 c' end.

  Lemma bucket_loop_spec c : forall a15 a23 a25,
    bucket_loop (map (fun b => Z.of_nat (length b)) c) (map mcnt c) (Mtot c) (a15, a23, a25)
    = (a15 + N15 c, a23 + N23 c, a25 + N25 c).
  Proof.
    induction c as [|b c IH]; intros a15 a23 a25; [simpl; f_equal; [f_equal|]; lia|].
    cbn [map bucket_loop N15 N23 N25].
    assert (Mc : Mtot (b :: c) = mcnt b + Mtot c) by reflexivity. rewrite !Mc.
    assert (Hm : 0 <= mcnt b) by (unfold KemenyCount.mcnt; lia).
    destruct (0 <? mcnt b) eqn:E0.
    - replace (mcnt b + Mtot c - mcnt b) with (Mtot c) by lia. rewrite IH.
      assert (E25 : (if 1 <? mcnt b then a25 + mcnt b * (mcnt b - 1) / 2 else a25) = a25 + tri (length (filter ms b))).
      { unfold KemenyCount.mcnt in *. rewrite tri_div. destruct (1 <? Z.of_nat (length (filter ms b))) eqn:E1; [reflexivity|].
        assert (length (filter ms b) = 1%nat) by lia. rewrite H. change (Z.of_nat 1 * (Z.of_nat 1 - 1) / 2) with 0. lia. }
      rewrite E25. rewrite (len_split b).
      assert (A3 : forall a b0 c0 a' b' c' : Z, a = a' -> b0 = b' -> c0 = c' -> (a, b0, c0) = (a', b', c')) by (intros; subst; reflexivity).
      apply A3; ring.
    - assert (mcnt b = 0) by lia. rewrite H. replace (0 + Mtot c) with (Mtot c) by lia. rewrite IH.
      assert (length (filter ms b) = 0%nat) by (unfold KemenyCount.mcnt in H; lia). rewrite H0. simpl tri.
      assert (A3 : forall a b0 c0 a' b' c' : Z, a = a' -> b0 = b' -> c0 = c' -> (a, b0, c0) = (a', b', c')) by (intros; subst; reflexivity).
      apply A3; ring.
  Qed.

  Lemma MMval_N c : MMval s r c = t5 s * N25 c + b5 s * N15 c.
  Proof. induction c as [|b c IH]; [simpl; lia|]. cbn [MMval N25 N15]. rewrite IH. lia. Qed.

  (** sums over the ranked elements of a function of their consensus bucket id *)
  Fixpoint R13 (c : ranking) : Z := match c with [] => 0 | b :: c' => rcnt b * Mtot c' + R13 c' end.
  Fixpoint R14 (pre c : ranking) : Z := match c with [] => 0 | b :: c' => rcnt b * Mtot pre + R14 (pre ++ [b]) c' end.
  Fixpoint Q14 (c : ranking) : Z := match c with [] => 0 | b :: c' => Rtot c' * mcnt b + Q14 c' end.

  Lemma Mtot_app c1 c2 : Mtot (c1 ++ c2) = Mtot c1 + Mtot c2.
  Proof. unfold KemenyCount.Mtot. rewrite map_app, zsum_app. reflexivity. Qed.

  Lemma R14_Q pre c : R14 pre c = Mtot pre * Rtot c + Q14 c.
  Proof.
    revert pre; induction c as [|b c IH]; intros pre.
    - cbn [R14 Q14]. change (Rtot []) with 0. lia.
    - cbn [R14 Q14]. rewrite IH, Mtot_app.
      assert (E1 : Rtot (b :: c) = rcnt b + Rtot c) by reflexivity.
      assert (E2 : Mtot [b] = mcnt b) by (unfold KemenyCount.Mtot; cbn [map]; rewrite zsum_cons; change (zsum []) with 0; lia).
      rewrite E1, E2. ring.
  Qed.

  Lemma RMval_N c : RMval s r c = t3 s * N23 c + b3 s * R13 c + b4 s * Q14 c.
  Proof. induction c as [|b c IH]; [simpl; lia|]. cbn [RMval N23 R13 Q14]. rewrite IH. lia. Qed.

  Lemma tafter_at (pre : ranking) b c : tafter (map mcnt (pre ++ b :: c)) (length pre) = Mtot c.
  Proof.
    unfold tafter. rewrite map_app. cbn [map].
    replace (S (length pre)) with (length (map mcnt pre ++ [mcnt b])) by (rewrite app_length, map_length; simpl; lia).
    replace (map mcnt pre ++ mcnt b :: map mcnt c) with ((map mcnt pre ++ [mcnt b]) ++ map mcnt c) by (rewrite <- app_assoc; reflexivity).
    rewrite firstn_app, Nat.sub_diag, firstn_all. simpl firstn. rewrite app_nil_r, !zsum_app. unfold KemenyCount.Mtot. lia.
  Qed.

  Lemma tbefore_at (pre : ranking) c : tbefore (map mcnt (pre ++ c)) (length pre) = Mtot pre.
  Proof.
    unfold tbefore. rewrite map_app.
    replace (length pre) with (length (map mcnt pre)) by apply map_length.
    rewrite firstn_app, Nat.sub_diag, firstn_all. simpl firstn. rewrite app_nil_r. reflexivity.
  Qed.

  Lemma sum_after c : forall pre, NoDup (concat c) ->
    zsum (map (fun x => tafter (map mcnt (pre ++ c)) (Z.to_nat (bid_from (Z.of_nat (length pre)) c x)))
              (concat (map (filter rk) c))) = R13 c.
  Proof.
    induction c as [|b c IH]; intros pre Nd; [reflexivity|].
    cbn [map concat R13]. simpl in Nd. apply NoDup_app_inv in Nd as (Nb & Nc & Dj).
    rewrite map_app, zsum_app. f_equal.
    - rewrite (zsum_map_ext _ (fun _ => Mtot c)).
      + unfold KemenyCount.rcnt. generalize (filter rk b). intros l. induction l as [|a l IHl]; [simpl; lia|].
        cbn [map length]. rewrite zsum_cons, IHl. lia.
      + intros x Hx. apply filter_In in Hx as [Hx _]. rewrite (bid_head _ b c x Hx). rewrite Nat2Z.id. apply tafter_at.
    - rewrite <- (IH (pre ++ [b]) Nc). apply zsum_map_ext. intros x Hx.
      rewrite <- filter_concat in Hx. apply filter_In in Hx as [Hx _].
      rewrite (bid_tail _ b c x) by (intros H; exact (Dj x H Hx)).
      rewrite app_length. simpl length. rewrite Nat2Z.inj_add. simpl Z.of_nat. rewrite <- app_assoc. reflexivity.
  Qed.

  Lemma sum_before c : forall pre, NoDup (concat c) ->
    zsum (map (fun x => tbefore (map mcnt (pre ++ c)) (Z.to_nat (bid_from (Z.of_nat (length pre)) c x)))
              (concat (map (filter rk) c))) = R14 pre c.
  Proof.
    induction c as [|b c IH]; intros pre Nd; [reflexivity|].
    cbn [map concat R14]. simpl in Nd. apply NoDup_app_inv in Nd as (Nb & Nc & Dj).
    rewrite map_app, zsum_app. f_equal.
    - rewrite (zsum_map_ext _ (fun _ => Mtot pre)).
      + unfold KemenyCount.rcnt. generalize (filter rk b). intros l. induction l as [|a l IHl]; [simpl; lia|].
        cbn [map length]. rewrite zsum_cons, IHl. lia.
      + intros x Hx. apply filter_In in Hx as [Hx _]. rewrite (bid_head _ b c x Hx). rewrite Nat2Z.id. apply tbefore_at.
    - rewrite <- (IH (pre ++ [b]) Nc). apply zsum_map_ext. intros x Hx.
      rewrite <- filter_concat in Hx. apply filter_In in Hx as [Hx _].
      rewrite (bid_tail _ b c x) by (intros H; exact (Dj x H Hx)).
      rewrite app_length. simpl length. rewrite Nat2Z.inj_add. simpl Z.of_nat. rewrite <- app_assoc. reflexivity.
  Qed.
End Assembly.

(** * one input ranking *)
Lemma concat_map_perm (f : list nat -> list nat) (ll : list (list nat)) :
  (forall l, Permutation (f l) l) -> Permutation (concat (map f ll)) (concat ll).
Proof.
  intros H. induction ll as [|l ll IH]; [reflexivity|]. simpl. apply Permutation_app; [apply H|exact IH].
Qed.

Lemma total_gt_isort ll : total_gt (map isort ll) = total_gt ll.
Proof.
  induction ll as [|l ll IH]; [reflexivity|]. cbn [map total_gt]. rewrite IH.
  rewrite (cross_gt_perm (isort l) l (concat (map isort ll)) (concat ll)); [reflexivity|apply isort_perm|apply concat_map_perm, isort_perm].
Qed.
Lemma total_eq_isort ll : total_eq (map isort ll) = total_eq ll.
Proof.
  induction ll as [|l ll IH]; [reflexivity|]. cbn [map total_eq]. rewrite IH.
  rewrite (cross_eq_perm (isort l) l (concat (map isort ll)) (concat ll)); [reflexivity|apply isort_perm|apply concat_map_perm, isort_perm].
Qed.

Definition dsum (ll : list (list nat)) : Z := zsum (map dpairs ll).

Lemma RRval_counts s c r :
  RRval s c r = b2 s * dsum (map (map (fc c)) r) + b1 s * total_gt (map (map (fc c)) r) + t0 s * total_eq (map (map (fc c)) r).
Proof.
  induction r as [|b r IH]; [unfold dsum; simpl; lia|].
  cbn [RRval map total_gt total_eq]. unfold dsum in *. cbn [map]. rewrite zsum_cons.
  rewrite within_dpairs, cross_sum, IH. rewrite concat_map. ring.
Qed.

Lemma sum_opt_run (ll : list (list nat)) :
  sum_opt (map (fun b => run_pairs (S (length b)) b) (map isort ll)) = Some (dsum ll).
Proof.
  induction ll as [|l ll IH]; [reflexivity|]. cbn [map sum_opt].
  rewrite run_pairs_correct by (try apply isort_sorted; lia). rewrite IH.
  unfold dsum. cbn [map]. rewrite zsum_cons. rewrite (dpairs_perm _ _ (isort_perm l)). reflexivity.
Qed.

Lemma rprime_eq c r : rprime c r = map isort (map (map (fc c)) r).
Proof. unfold rprime, fc. rewrite map_map. reflexivity. Qed.

Theorem cost_by_ranking_correct s c r :
  b0 s = 0 -> t2 s = 0 -> t0 s = t1 s -> t3 s = t4 s ->
  NoDup (elems c) -> NoDup (elems r) -> incl (elems r) (elems c) ->
  exists k, cost_by_ranking c r = Some k /\ dot s k = kemeny_one s c r.
Proof.
  intros Hb0 Ht2 Ht01 Ht34 Nc Nr Hin.
  set (L := elems c). set (Ac := concat (map (filter (rk r)) c)). set (Mc := concat (map (filter (ms r)) c)).
  assert (PL : Permutation L (Ac ++ Mc)).
  { unfold Ac, Mc. rewrite <- !filter_concat. apply filter_split_perm. }
  assert (PA : Permutation Ac (elems r)).
  { apply NoDup_Permutation; [unfold Ac; rewrite <- filter_concat; apply NoDup_filter; exact Nc|exact Nr|].
    intros x. unfold Ac. rewrite <- filter_concat, filter_In. unfold rk. rewrite mem_In. split; [tauto|].
    intros H. split; [apply Hin; exact H|exact H]. }
  (* the specification, split into three classes of pairs *)
  assert (Spec : kemeny_one s c r = RRval s c r + RMval s r c + MMval s r c).
  { change (kemeny_one s c r) with (psum (placement_pen s c r) (ordpairs L)).
    assert (Sym : forall x y, placement_pen s c r x y = placement_pen s c r y x).
    { intros x y. rewrite <- !penk0. apply penk_sym; assumption. }
    unfold psum. rewrite (ordpairs_sum_perm (placement_pen s c r) L (Ac ++ Mc) Sym PL).
    fold (psum (placement_pen s c r) (ordpairs (Ac ++ Mc))). rewrite ordpairs_app_sum.
    assert (E1 : psum (placement_pen s c r) (ordpairs Ac) = RRval s c r).
    { unfold psum. rewrite (ordpairs_sum_perm (placement_pen s c r) Ac (elems r) Sym PA).
      apply (RR_struct s r c Hb0 Ht2 r 0); [lia|exact Nr|exact Hin|reflexivity]. }
    assert (E2 : xsum (placement_pen s c r) Ac Mc = RMval s r c).
    { rewrite <- (RM_struct s r c 0 ltac:(lia) Nc). apply xsum_ext. intros; apply penk0. }
    assert (E3 : psum (placement_pen s c r) (ordpairs Mc) = MMval s r c).
    { rewrite <- (MM_struct s r c 0 ltac:(lia) Nc). apply psum_ext. intros; apply penk0. }
    rewrite E1, E2, E3. reflexivity. }
  (* the implementation *)
  unfold cost_by_ranking. rewrite rprime_eq. set (ll := map (map (fc c)) r).
  rewrite sum_opt_run.
  rewrite tmiss_eq. change (zsum (map (mcnt r) c)) with (Mtot r c). rewrite bucket_loop_spec.
  assert (Flat : Permutation (concat (map isort ll)) (map (fc c) Ac)).
  { rewrite (concat_map_perm isort ll isort_perm). unfold ll. rewrite <- concat_map.
    apply Permutation_map. symmetry. exact PA. }
  assert (S13 : zsum (map (tafter (map (mcnt r) c)) (concat (map isort ll))) = R13 r c).
  { rewrite (zsum_perm' _ _ (Permutation_map _ Flat)), map_map. apply (sum_after r c [] Nc). }
  assert (S14 : zsum (map (tbefore (map (mcnt r) c)) (concat (map isort ll))) = Q14 r c).
  { rewrite (zsum_perm' _ _ (Permutation_map _ Flat)), map_map.
    transitivity (R14 r [] c); [apply (sum_before r c [] Nc)|]. rewrite R14_Q. change (Mtot r []) with 0. lia. }
  rewrite S13, S14.
  assert (Msl : exists m, msl (S (length (map isort ll))) (map isort ll) 0 (length (map isort ll) - 1)
                          = Some (m, total_gt ll, total_eq ll)).
  { destruct ll as [|l0 ll0] eqn:El; [exists []; reflexivity|]. rewrite <- El.
    assert (Hne : map isort ll <> []) by (rewrite El; discriminate).
    destruct (msl_correct (S (length (map isort ll))) (map isort ll) 0 (length (map isort ll) - 1) Hne) as (m & E & _ & _).
    - rewrite Forall_map, Forall_forall. intros l _. apply isort_sorted.
    - lia.
    - destruct (map isort ll); [contradiction|simpl; lia].
    - lia.
    - exists m. rewrite E, sub_all by assumption. rewrite total_gt_isort, total_eq_isort. reflexivity. }
  destruct Msl as (m & Em). rewrite Em.
  eexists. split; [reflexivity|]. unfold dot. cbn [n11 n12 n13 n14 n15 n20 n23 n25].
  rewrite Spec, RRval_counts, (RMval_N s r), (MMval_N s r). fold ll. ring.
Qed.

(** * the whole dataset *)
Lemma sum_costs_correct s c D :
  b0 s = 0 -> t2 s = 0 -> t0 s = t1 s -> t3 s = t4 s -> NoDup (elems c) ->
  (forall r, In r D -> NoDup (elems r) /\ incl (elems r) (elems c)) ->
  sum_costs s c D = Some (kemeny_spec s D c).
Proof.
  intros Hb0 Ht2 Ht01 Ht34 Nc. induction D as [|r D IH]; intros H; [reflexivity|].
  cbn [sum_costs]. destruct (H r (or_introl eq_refl)) as [Nr Hin].
  destruct (cost_by_ranking_correct s c r Hb0 Ht2 Ht01 Ht34 Nc Nr Hin) as (k & Ek & Ed).
  rewrite Ek, IH by (intros r' Hr'; apply H; right; exact Hr').
  unfold kemeny_spec. cbn [map]. rewrite zsum_cons, Ed. reflexivity.
Qed.

(** The model of [KemenyComputingPairwise.get_kemeny_score] returns exactly the generalized Kemeny
    score of the definition: for every scheme that satisfies the documented relations, every candidate
    without repeated element, every dataset of rankings without repeated element whose elements all
    appear in the candidate. *)
Theorem get_kemeny_score_correct s D c :
  relations s -> NoDup (elems c) ->
  (forall r, In r D -> NoDup (elems r)) ->
  (forall r x, In r D -> ranked r x -> ranked c x) ->
  get_kemeny_score s D c = Ok (kemeny_spec s D c).
Proof.
  intros (Hb0 & _ & _ & Ht01 & Ht2 & Ht34) Nc Nd Hc. unfold get_kemeny_score.
  destruct (complete_towards c D) eqn:E.
  - rewrite (sum_costs_correct s c D Hb0 Ht2 Ht01 Ht34 Nc); [reflexivity|].
    intros r Hr. split; [apply Nd; exact Hr|]. intros x Hx. apply (Hc r x Hr Hx).
  - apply complete_towards_spec in Hc. congruence.
Qed.

(** total characterisation: score of the definition, or the documented refusal *)
Theorem get_kemeny_score_total s D c :
  relations s -> NoDup (elems c) -> (forall r, In r D -> NoDup (elems r)) ->
  (get_kemeny_score s D c = Ok (kemeny_spec s D c) /\ forall r x, In r D -> ranked r x -> ranked c x) \/
  (get_kemeny_score s D c = Err InvalidRankings /\ exists r x, In r D /\ ranked r x /\ ~ ranked c x).
Proof.
  intros Hs Nc Nd. destruct (complete_towards c D) eqn:E.
  - left. pose proof (proj1 (complete_towards_spec c D) E) as Hc. split; [|exact Hc].
    apply get_kemeny_score_correct; assumption.
  - right. assert (G : get_kemeny_score s D c = Err InvalidRankings) by (unfold get_kemeny_score; rewrite E; reflexivity).
    split; [exact G|]. apply kemeny_refuses_only_then in G. exact G.
Qed.
