(** Property C01, main theorem: the counters computed by the Kemeny routine add up to the generalized
    pairwise-penalty definition.  Plan: split the unordered pairs of candidate elements into
    ranked/ranked, ranked/missing, missing/missing (re-enumerating the pairs is allowed because the
    penalty of a pair is symmetric for valid schemes); the last two classes are counted along the buckets of
    the candidate, the first along the buckets of the input ranking (run-length walk + merge sort). *)
From Corankco Require Import Prelude Scheme Rank KemenySpec CostTableProof OptTheory KemenyMerge KemenyImpl.
From Coq Require Import Sorting.Sorted.
Local Open Scope Z_scope.

(** * sums over pairs *)
Definition psum {A} (F : A -> A -> Z) (l : list (A * A)) : Z := zsum (map (fun p => F (fst p) (snd p)) l).
Definition xsum {A} (F : A -> A -> Z) (l1 l2 : list A) : Z := zsum (map (fun x => zsum (map (F x) l2)) l1).

Lemma psum_app {A} (F : A -> A -> Z) l1 l2 : psum F (l1 ++ l2) = psum F l1 + psum F l2.
Proof. unfold psum. rewrite map_app, zsum_app. reflexivity. Qed.

Lemma ordpairs_app_sum {A} (F : A -> A -> Z) (l1 l2 : list A) :
  psum F (ordpairs (l1 ++ l2)) = psum F (ordpairs l1) + xsum F l1 l2 + psum F (ordpairs l2).
Proof.
  induction l1 as [|a l1 IH]; [unfold psum, xsum; simpl; lia|].
  cbn [app ordpairs]. rewrite !psum_app, IH. unfold xsum. cbn [map]. rewrite zsum_cons.
  assert (E : forall l, psum F (map (pair a) l) = zsum (map (F a) l)).
  { intros l. unfold psum. rewrite map_map. reflexivity. }
  rewrite !E, map_app, zsum_app. lia.
Qed.

Lemma xsum_nil_r {A} (F : A -> A -> Z) l : xsum F l [] = 0.
Proof. unfold xsum. induction l; simpl; lia. Qed.
Lemma xsum_cons_l {A} (F : A -> A -> Z) a l1 l2 : xsum F (a :: l1) l2 = zsum (map (F a) l2) + xsum F l1 l2.
Proof. reflexivity. Qed.
Lemma xsum_app_l {A} (F : A -> A -> Z) l1 l1' l2 : xsum F (l1 ++ l1') l2 = xsum F l1 l2 + xsum F l1' l2.
Proof. unfold xsum. rewrite map_app, zsum_app. reflexivity. Qed.
Lemma xsum_app_r {A} (F : A -> A -> Z) l1 l2 l2' : xsum F l1 (l2 ++ l2') = xsum F l1 l2 + xsum F l1 l2'.
Proof.
  unfold xsum. induction l1 as [|a l1 IH]; simpl; [lia|]. rewrite map_app, zsum_app, IH. lia.
Qed.
Lemma xsum_ext {A} (F G : A -> A -> Z) l1 l2 :
  (forall x y, In x l1 -> In y l2 -> F x y = G x y) -> xsum F l1 l2 = xsum G l1 l2.
Proof.
  intros H. unfold xsum. apply zsum_map_ext. intros x Hx. apply zsum_map_ext. intros y Hy. auto.
Qed.
Lemma xsum_const {A} (c : Z) (l1 l2 : list A) : xsum (fun _ _ => c) l1 l2 = c * Z.of_nat (length l1) * Z.of_nat (length l2).
Proof.
  unfold xsum. induction l1 as [|a l1 IH]; [simpl; lia|]. cbn [map length]. rewrite zsum_cons, IH.
  assert (E : zsum (map (fun _ : A => c) l2) = c * Z.of_nat (length l2)).
  { clear. induction l2 as [|b l2 IH]; [simpl; lia|]. cbn [map length]. rewrite zsum_cons, IH. lia. }
  rewrite E. lia.
Qed.
Lemma psum_ext {A} (F G : A -> A -> Z) (l : list A) :
  (forall x y, In x l -> In y l -> F x y = G x y) -> psum F (ordpairs l) = psum G (ordpairs l).
Proof.
  intros H. unfold psum. apply zsum_map_ext. intros [x y] Hxy. apply ordpairs_in' in Hxy as [Hx Hy]. simpl. auto.
Qed.
Lemma psum_const {A} (c : Z) (l : list A) : psum (fun _ _ => c) (ordpairs l) * 2 = c * Z.of_nat (length l) * (Z.of_nat (length l) - 1).
Proof.
  induction l as [|a l IH]; [reflexivity|]. cbn [ordpairs]. rewrite psum_app.
  assert (E : psum (fun _ _ : A => c) (map (pair a) l) = c * Z.of_nat (length l)).
  { unfold psum. rewrite map_map. simpl. clear. induction l as [|b l IH]; [simpl; lia|]. cbn [map length]. rewrite zsum_cons, IH. lia. }
  rewrite E. cbn [length]. lia.
Qed.

(** * bucket ids along the buckets of the candidate *)
Lemma bid_head k b c x : In x b -> bid_from k (b :: c) x = k.
Proof. intros H. simpl. apply mem_In in H. rewrite H. reflexivity. Qed.
Lemma bid_tail k b c x : ~ In x b -> bid_from k (b :: c) x = bid_from (k + 1) c x.
Proof. intros H. simpl. apply mem_false in H. rewrite H. reflexivity. Qed.
Lemma bid_tail_ge k c x : 0 <= k -> In x (concat c) -> k <= bid_from k c x.
Proof. intros Hk Hx. destruct (bid_from_range k c x Hk) as [E|E]; [|assumption]. apply bid_from_unranked in E; [contradiction|assumption]. Qed.
