(** Model of corankco/scoringscheme.py : ScoringScheme constructor, [__mul__],
    [is_equivalent_to], [is_equivalent_to_on_complete_rankings_only], [get_nickname],
    and the preset schemes.  Penalties are integers (unit 1/ONE). *)
From Corankco Require Import Prelude.
Local Open Scope Z_scope.

Record scheme := mkS {
  b0 : Z; b1 : Z; b2 : Z; b3 : Z; b4 : Z; b5 : Z;
  t0 : Z; t1 : Z; t2 : Z; t3 : Z; t4 : Z; t5 : Z }.

Definition Bl (s : scheme) : list Z := [b0 s; b1 s; b2 s; b3 s; b4 s; b5 s].
Definition Tl (s : scheme) : list Z := [t0 s; t1 s; t2 s; t3 s; t4 s; t5 s].
Definition Bv (s : scheme) (i : nat) : Z := nth i (Bl s) 0.
Definition Tv (s : scheme) (i : nat) : Z := nth i (Tl s) 0.

Definition nonneg (s : scheme) : Prop := Forall (fun z => 0 <= z) (Bl s ++ Tl s).

(** the six relations of the documentation *)
Definition relations (s : scheme) : Prop :=
  b0 s = 0 /\ 0 < b1 s /\ b3 s <= b4 s /\ t0 s = t1 s /\ t2 s = 0 /\ t3 s = t4 s.

Definition valid (s : scheme) : Prop := nonneg s /\ relations s.

Definition validb (s : scheme) : bool :=
  forallb (fun z => 0 <=? z) (Bl s ++ Tl s)
  && (b0 s =? 0) && (0 <? b1 s) && (b3 s <=? b4 s) && (t0 s =? t1 s) && (t2 s =? 0) && (t3 s =? t4 s).

(** ** Python values handed to the constructor *)
Inductive pyval :=
| PNum (z : Z)            (* an int or a float, in model units *)
| PBool (b : bool)        (* bool is a subclass of int: accepted, True = 1.0 *)
| POther                  (* str, None, dict, ... *)
| PList (l : list pyval)
| PTuple (l : list pyval) (* a sequence that is not a [list] *).

Inductive scheme_err := InvalidScheme | NonRealPositive | ForbiddenAssociation | MulValueError.

Definition num_of (v : pyval) : option Z :=
  match v with
  | PNum z => Some z
  | PBool true => Some ONE
  | PBool false => Some 0
  | _ => None
  end.

(** [for pen in vector: if not number or pen < 0: raise] *)
Fixpoint nums (l : list pyval) : option (list Z) :=
  match l with
  | [] => Some []
  | v :: l' =>
      match num_of v with
      | Some z => if z <? 0 then None
                  else match nums l' with Some r => Some (z :: r) | None => None end
      | None => None
      end
  end.

Definition of_lists (b t : list Z) : option scheme :=
  match b, t with
  | [x0; x1; x2; x3; x4; x5], [y0; y1; y2; y3; y4; y5] =>
      Some (mkS x0 x1 x2 x3 x4 x5 y0 y1 y2 y3 y4 y5)
  | _, _ => None
  end.

(** the three [if ... raise ForbiddenAssociation] blocks, in source order *)
Definition relations_b (s : scheme) : bool :=
  if negb (t0 s =? t1 s) || negb (t3 s =? t4 s) || (b4 s <? b3 s) then false
  else if (0 <? b0 s) || (0 <? t2 s) then false
  else if (b4 s <? b3 s) then false
  else if (b1 s =? 0) then false
  else true.

Definition construct (v : pyval) : result scheme_err scheme :=
  match v with
  | PList [PList bs; PList ts] =>
      if negb (Nat.eqb (length bs) 6) || negb (Nat.eqb (length ts) 6) then Err InvalidScheme
      else match nums bs with
           | None => Err NonRealPositive
           | Some zb =>
               match nums ts with
               | None => Err NonRealPositive
               | Some zt =>
                   match of_lists zb zt with
                   | None => Err InvalidScheme (* unreachable: lengths are 6 *)
                   | Some s => if relations_b s then Ok s else Err ForbiddenAssociation
                   end
               end
           end
  | _ => Err InvalidScheme
  end.

Definition to_py (s : scheme) : pyval :=
  PList [PList (map PNum (Bl s)); PList (map PNum (Tl s))].

(** ** [__mul__] : the multiplier is a Python value; a number [k] stands for the real [k/ONE] *)
Definition scale (k : Z) (z : Z) : Z := z * k / ONE.

Definition mul (s : scheme) (k : pyval) : result scheme_err scheme :=
  match num_of k with
  | None => Err MulValueError
  | Some k =>
      construct (PList [PList (map (fun z => PNum (scale k z)) (Bl s));
                        PList (map (fun z => PNum (scale k z)) (Tl s))])
  end.

(** ** equivalence (after the repair of F12: both vectors, one shared coefficient) *)
Fixpoint equiv_scan (l : list (Z * Z)) (coef : option (Z * Z)) : bool :=
  match l with
  | [] => true
  | (a, b) :: l' =>
      if a =? 0 then (if b =? 0 then equiv_scan l' coef else false)
      else if b =? 0 then false
      else match coef with
           | None => equiv_scan l' (Some (a, b))
           | Some (n, d) => if a * d =? n * b then equiv_scan l' coef else false
           end
  end.

Definition entries (stop : nat) (s1 s2 : scheme) : list (Z * Z) :=
  combine (firstn stop (Bl s1)) (firstn stop (Bl s2)) ++
  combine (firstn stop (Tl s1)) (firstn stop (Tl s2)).

Definition is_equivalent_generic (stop : nat) (s1 s2 : scheme) : bool :=
  equiv_scan (entries stop s1 s2) None.
Definition is_equivalent_to := is_equivalent_generic 6.
Definition is_equivalent_to_on_complete := is_equivalent_generic 3.

(** the unchanged code of the pinned commit read vector B only (finding F12) *)
Definition is_equivalent_generic_legacy (stop : nat) (s1 s2 : scheme) : bool :=
  equiv_scan (combine (firstn stop (Bl s1)) (firstn stop (Bl s2))) None.

(** ** presets, with tie cost [p] *)
Definition pseudodistance_p (p : Z) := mkS 0 ONE p 0 ONE 0 p p 0 p p 0.
Definition unifying_p (p : Z) := mkS 0 ONE p 0 ONE p p p 0 p p 0.
Definition induced_p (p : Z) := mkS 0 ONE p 0 0 0 p p 0 0 0 0.
Definition extended := mkS 0 ONE 0 0 0 0 ONE ONE 0 ONE ONE ONE.
Definition pseudodistance := pseudodistance_p ONE.
Definition unifying := unifying_p ONE.
Definition induced := induced_p ONE.

Inductive nick := UKSP | GPDP | IGKS | EKS | NoNick.

Definition nickname (s : scheme) : nick :=
  if is_equivalent_to s unifying then UKSP
  else if is_equivalent_to s pseudodistance then GPDP
  else if is_equivalent_to s induced then IGKS
  else if is_equivalent_to s extended then EKS
  else NoNick.

(** ** specification side *)
Definition proportional (l : list (Z * Z)) : Prop :=
  exists p q, 0 < p /\ 0 < q /\ forall a b, In (a, b) l -> p * a = q * b.

Definition equiv_spec (stop : nat) (s1 s2 : scheme) : Prop := proportional (entries stop s1 s2).

(** decidable form used by the case files: cross-multiplication against the first non-zero pair *)
Definition first_nonzero (l : list (Z * Z)) : option (Z * Z) :=
  find (fun ab => negb (fst ab =? 0) || negb (snd ab =? 0)) l.
Definition proportional_b (l : list (Z * Z)) : bool :=
  match first_nonzero l with
  | None => true
  | Some (n, d) => (0 <? n) && (0 <? d) && forallb (fun ab => fst ab * d =? n * snd ab) l
  end.
