(** Model of the integer linear program built by [ExactAlgorithmPulp] (exactalgorithmpulp.py):
    variables, rows (binary order, transitivity, strongly-connected-component fixing), objective,
    and the decoding of a solver answer into a ranking.  The solver itself is outside the model. *)
From Corankco Require Import Prelude Scheme Rank KemenySpec GroupSort OptTheory.
Local Open Scope Z_scope.

(** [x_i_j] : i strictly before j (all i <> j);  [t_i_j] : i tied with j (only i < j) *)
Inductive var := X (i j : nat) | T (i j : nat).

Definition var_eqb (a b : var) : bool :=
  match a, b with
  | X i j, X i' j' => Nat.eqb i i' && Nat.eqb j j'
  | T i j, T i' j' => Nat.eqb i i' && Nat.eqb j j'
  | _, _ => false
  end.

(** the tie variable of an unordered pair: [t_{min}_{max}] *)
Definition tvar (i j : nat) : var := if (i <? j)%nat then T i j else T j i.

(** a row  sum coef * var  (= | <=)  rhs *)
Record row := mkRow { r_terms : list (Z * var); r_eq : bool; r_rhs : Z }.

Definition lhs (v : var -> Z) (r : row) : Z := zsum (map (fun ct => fst ct * v (snd ct)) (r_terms r)).
Definition sat (v : var -> Z) (r : row) : bool :=
  if r_eq r then lhs v r =? r_rhs r else lhs v r <=? r_rhs r.

(** [_add_binary_constraints] *)
Definition binary_rows (n : nat) : list row :=
  flat_map (fun i => map (fun j => mkRow [(1, X i j); (1, X j i); (1, T i j)] true 1) (seq (S i) (n - S i)))
           (seq 0 (n - 1)).

(** [_add_transitivity_constraints] *)
Definition trans_rows_ijk (i j k : nat) : list row :=
  [ mkRow [(1, X i j); (1, X j k); (1, tvar j k); (-1, X i k)] false 1;
    mkRow [(1, X i j); (1, tvar i j); (1, X j k); (-1, X i k)] false 1;
    mkRow [(2, tvar i j); (2, tvar j k); (-1, tvar i k)] false 3 ].

Definition trans_rows (n : nat) : list row :=
  flat_map (fun i => flat_map (fun j => if Nat.eqb j i then [] else
     flat_map (fun k => if Nat.eqb k i || Nat.eqb k j then [] else trans_rows_ijk i j k) (seq 0 n)) (seq 0 n)) (seq 0 n).

(** [_add_personal_optimization_constraints]: the components of the graph of elements in the order igraph
    returns them; every element of a component is fixed before every element of the later components.
    (The "no tie inside a component" rows of the source are never produced: the iterator [pairs] is already
    exhausted when the second loop starts.  The last row repeats [x_j_i = 0] when j < i.) *)
Definition scc_rows_pair (i j : nat) : list row :=
  [ mkRow [(1, X i j)] true 1; mkRow [(1, X j i)] true 0;
    if (i <? j)%nat then mkRow [(1, T i j)] true 0 else mkRow [(1, X j i)] true 0 ].

Fixpoint scc_rows (P : list (list nat)) : list row :=
  match P with
  | [] => []
  | G :: P' => flat_map (fun G' => flat_map (fun i => flat_map (fun j => scc_rows_pair i j) G') G) P' ++ scc_rows P'
  end.

Definition ilp_rows (n : nat) (P : list (list nat)) : list row := binary_rows n ++ trans_rows n ++ scc_rows P.

(** objective: cost of "before" on every [x], cost of "tied" on every [t], in the order of [_add_pulp_variables] *)
Definition objective (K : table) (n : nat) : list (Z * var) :=
  flat_map (fun i => flat_map (fun j =>
     if Nat.eqb i j then [] else
       let '(b, _, t) := K i j in
       (b, X i j) :: (if (i <? j)%nat then [(t, T i j)] else [])) (seq 0 n)) (seq 0 n).

Definition obj_value (K : table) (n : nat) (v : var -> Z) : Z :=
  zsum (map (fun ct => fst ct * v (snd ct)) (objective K n)).

(** the variables of the program *)
Definition all_vars (n : nat) : list var :=
  flat_map (fun i => flat_map (fun j =>
     if Nat.eqb i j then [] else X i j :: (if (i <? j)%nat then [T i j] else [])) (seq 0 n)) (seq 0 n).

Definition binary (n : nat) (v : var -> Z) : bool := forallb (fun a => (v a =? 0) || (v a =? 1)) (all_vars n).

Definition feasible (n : nat) (P : list (list nat)) (v : var -> Z) : bool :=
  binary n v && forallb (sat v) (ilp_rows n P).

(** ** decoding: number of elements placed before each element, elements grouped by that number *)
Definition defeats (n : nat) (v : var -> Z) (j : nat) : Z :=
  zsum (map (fun i => if Nat.eqb i j then 0 else if v (X i j) =? 1 then 1 else 0) (seq 0 n)).

(** the loop of the source on the (stably) sorted items: a bucket is closed whenever the count changes; the
    first bucket is opened empty with count 0 *)
Fixpoint close_buckets (items : list (nat * Z)) (current : Z) (bucket : list nat) : ranking :=
  match items with
  | [] => [bucket]
  | (e, d) :: items' =>
      if d =? current then close_buckets items' current (bucket ++ [e])
      else bucket :: close_buckets items' d [e]
  end.

Fixpoint insert_item (it : nat * Z) (l : list (nat * Z)) : list (nat * Z) :=
  match l with
  | [] => [it]
  | a :: l' => if snd it <=? snd a then it :: l else a :: insert_item it l'
  end.
(** stable insertion sort by the count (what [sorted(..., key=itemgetter(1))] returns) *)
Definition sort_items (l : list (nat * Z)) : list (nat * Z) := fold_right insert_item [] l.

Definition decode (n : nat) (v : var -> Z) : ranking :=
  close_buckets (sort_items (map (fun j => (j, defeats n v j)) (seq 0 n))) 0 [].

(** an assignment given as a finite table (what the harness reads back from the solver) *)
Definition v_of (vals : list (var * Z)) : var -> Z := fun a =>
  match find (fun e => var_eqb (fst e) a) vals with Some e => snd e | None => 0 end.

(** ** the CPLEX model (exactalgorithmcplex.py): same variables and the same binary / transitivity rows, no
    component rows (the components are handled by recursion on sub-problems), and the "no tie" rows: when no
    pair is cheaper tied than in the average of its two orders, every tie variable is fixed to 0 *)
Definition can_no_ties (K : table) (n : nat) (thr : Z) : bool :=
  forallb (fun ij => let '(b, a, t) := K (fst ij) (snd ij) in b + a - 2 * t <=? thr) (ordpairs (seq 0 n)).

Definition notie_rows (n : nat) : list row :=
  map (fun ij => mkRow [(1, T (fst ij) (snd ij))] true 0) (ordpairs (seq 0 n)).

(** [notie] = the optimisation is requested (optimize = True, or the "optim1" variant) *)
Definition cplex_rows (K : table) (n : nat) (notie : bool) (thr : Z) : list row :=
  binary_rows n ++ trans_rows n ++ (if notie && can_no_ties K n thr then notie_rows n else []).

Definition feasible_rows (n : nat) (rows : list row) (v : var -> Z) : bool :=
  binary n v && forallb (sat v) rows.
