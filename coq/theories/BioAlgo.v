(** BioConsert as a whole (model [bioconsert_on]): the table it works on is mirror-consistent and non-negative,
    departure vectors are dense, every result of the local search is a dense local optimum whose recorded score
    is its true score and is at most the score of its departure; the reported score is the minimum of these, so
    it is at most the score of every departure; the returned rankings decode dense vectors. *)
From Corankco Require Import Prelude Scheme Rank KemenySpec CostTable CostTableProof OptTheory Markov MarkovProof Borda BordaProof
     BioConsert BioDelta Judge.JBio BioMoves BioArrays BioLoop ConsistentProof.
Local Open Scope Z_scope.

(** * the table *)
Lemma table_of_default_row (M : list (list (Z * Z * Z))) i j : (length M <= i)%nat -> table_of M i j = (0, 0, 0).
Proof. intros H. unfold table_of. rewrite (nth_overflow M [] H). destruct j; reflexivity. Qed.

Lemma cost_matrix_row_length s P i : (i < length P)%nat -> length (nth i (cost_matrix s P) []) = length P.
Proof.
  intros Hi. unfold cost_matrix.
  rewrite (nth_indep _ [] (map (fun j => entry s P 0 j) (seq 0 (length P)))) by (rewrite map_length, seq_length; assumption).
  rewrite (map_nth (fun i => map (fun j => entry s P i j) (seq 0 (length P))) (seq 0 (length P)) 0%nat).
  rewrite map_length, seq_length. reflexivity.
Qed.

Lemma table_of_default_col s P i j : (length P <= j)%nat -> table_of (cost_matrix s P) i j = (0, 0, 0).
Proof.
  intros Hj. destruct (Nat.lt_ge_cases i (length P)) as [Hi|Hi].
  - unfold table_of. apply nth_overflow. rewrite cost_matrix_row_length by assumption. exact Hj.
  - apply table_of_default_row. unfold cost_matrix. rewrite map_length, seq_length. exact Hi.
Qed.

Theorem cost_matrix_mirror s P : mirror (table_of (cost_matrix s P)).
Proof.
  intros i j. destruct (Nat.lt_ge_cases i (length P)) as [Hi|Hi]; destruct (Nat.lt_ge_cases j (length P)) as [Hj|Hj].
  - rewrite !table_of_cost_matrix by assumption. apply entry_mirror.
  - rewrite (table_of_default_col s P i j Hj). apply table_of_default_row. unfold cost_matrix. rewrite map_length, seq_length. exact Hj.
  - rewrite (table_of_default_row _ i j) by (unfold cost_matrix; rewrite map_length, seq_length; exact Hi).
    apply table_of_default_col. exact Hi.
  - rewrite (table_of_default_col s P i j Hj). apply table_of_default_col. exact Hi.
Qed.

Lemma acc_pair_nonneg s : nonneg s -> forall l1 l2 a b c, 0 <= a -> 0 <= b -> 0 <= c ->
  let '(a', b', c') := acc_pair s l1 l2 (a, b, c) in 0 <= a' /\ 0 <= b' /\ 0 <= c'.
Proof.
  intros Hn. unfold nonneg, Bl, Tl in Hn. cbn [app] in Hn.
  repeat match goal with H : Forall _ (_ :: _) |- _ => inversion H; clear H; subst end. cbv beta in *.
  induction l1 as [|p1 l1 IH]; intros [|p2 l2] a b c Ha Hb Hc; cbn [acc_pair]; try (repeat split; assumption).
  unfold step6. destruct (negb (p1 =? -1) && negb (p2 =? -1)); [destruct (p1 <? p2); [|destruct (p2 <? p1)]|destruct (negb (p1 =? -1)); [|destruct (negb (p2 =? -1))]];
    apply IH; lia.
Qed.

Theorem cost_matrix_nonneg s P : nonneg s -> nonnegK (table_of (cost_matrix s P)).
Proof.
  intros Hn i j. destruct (Nat.lt_ge_cases i (length P)) as [Hi|Hi]; [destruct (Nat.lt_ge_cases j (length P)) as [Hj|Hj]|].
  - rewrite table_of_cost_matrix by assumption. unfold entry.
    destruct (Nat.ltb i j).
    + pose proof (acc_pair_nonneg s Hn (nth i P []) (nth j P []) 0 0 0 ltac:(lia) ltac:(lia) ltac:(lia)) as H.
      destruct (acc_pair s (nth i P []) (nth j P []) (0, 0, 0)) as [[a b] c]. exact H.
    + destruct (Nat.ltb j i); [|lia].
      pose proof (acc_pair_nonneg s Hn (nth j P []) (nth i P []) 0 0 0 ltac:(lia) ltac:(lia) ltac:(lia)) as H.
      destruct (acc_pair s (nth j P []) (nth i P []) (0, 0, 0)) as [[a b] c]. lia.
  - rewrite table_of_default_col by assumption. lia.
  - rewrite table_of_default_row by (unfold cost_matrix; rewrite map_length, seq_length; exact Hi). lia.
Qed.

(** * departure vectors are dense *)
Lemma bid_of_bucket r : forall k j x, NoDup (concat r) -> In x (nth j r []) -> (j < length r)%nat ->
  bid_from k r x = k + Z.of_nat j.
Proof.
  induction r as [|b r IH]; intros k j x Nd Hx Hj; [cbn in Hj; lia|]. cbn [concat] in Nd.
  destruct (NoDup_app_inv _ _ Nd) as (_ & Nr & Dj). destruct j as [|j]; cbn [nth] in Hx.
  - rewrite (bid_head' k b r x Hx). lia.
  - cbn [bid_from]. assert (Hc : In x (concat r)) by (apply in_concat; exists (nth j r []); split; [apply nth_In; cbn in Hj; lia|exact Hx]).
    assert (Mx : mem x b = false) by (apply mem_false; intros Hb; exact (Dj x Hb Hc)). rewrite Mx.
    rewrite (IH (k + 1) j x Nr Hx ltac:(cbn in Hj; lia)). lia.
Qed.

Lemma get_vec_of U r e : (e < length U)%nat -> get (vec_of U r) e = bucket_id r (nth e U 0%nat).
Proof.
  intros He. unfold get, vec_of. rewrite (nth_indep _ (-1) (bucket_id r 0%nat)) by (rewrite map_length; exact He).
  apply (map_nth (fun x => bucket_id r x)).
Qed.

Theorem vec_of_dense U r :
  NoDup U -> Permutation (elems r) U -> Forall (fun b => b <> []) r -> r <> [] ->
  DenseTo (length U) (vec_of U r) (Z.of_nat (length r) - 1).
Proof.
  intros NU Pm Ne Hr. assert (Nr : NoDup (concat r)) by (eapply Permutation_NoDup; [symmetry; exact Pm|exact NU]).
  split; [unfold vec_of; apply map_length|]. split.
  - intros e He. rewrite get_vec_of by exact He.
    assert (Hin : In (nth e U 0%nat) (concat r)) by (eapply Permutation_in; [symmetry; exact Pm|apply nth_In; exact He]).
    pose proof (bid_lt r 0 _ Hin). unfold bucket_id. lia.
  - intros k Hk. set (j := Z.to_nat k). assert (Hj : (j < length r)%nat) by lia.
    assert (Hb : nth j r [] <> []) by (rewrite Forall_forall in Ne; apply Ne, nth_In; exact Hj).
    destruct (nth j r []) as [|x b'] eqn:Eb; [contradiction|].
    assert (Hx : In x (nth j r [])) by (rewrite Eb; left; reflexivity).
    assert (HxU : In x U) by (eapply Permutation_in; [exact Pm|apply in_concat; exists (nth j r []); split; [apply nth_In; exact Hj|exact Hx]]).
    destruct (In_nth U x 0%nat HxU) as (e & He & Ee). exists e. split; [exact He|].
    rewrite get_vec_of by exact He. rewrite Ee. unfold bucket_id. rewrite (bid_of_bucket r 0 j x Nr Hx Hj). lia.
Qed.

Lemma all_tied_dense n : (0 < n)%nat -> DenseTo n (repeat 0 n) 0.
Proof.
  intros Hn. split; [apply repeat_length|].
  assert (G : forall e, (e < n)%nat -> get (repeat 0 n) e = 0).
  { intros e He. unfold get. apply (repeat_spec n 0). apply nth_In. rewrite repeat_length. exact He. }
  split; [intros e He; rewrite G by exact He; lia|]. intros k Hk. exists 0%nat. split; [exact Hn|]. rewrite G by exact Hn. lia.
Qed.

(** * decoding a dense vector *)
Lemma denseTo_Dense n r m : DenseTo n r m -> Dense r /\ Forall (fun x => 0 <= x) r.
Proof.
  intros (L & Rg & Sj).
  assert (A : forall x, In x r -> 0 <= x <= m) by (intros x Hx; apply In_get in Hx as (e & He & <-); apply Rg; lia).
  split; [|rewrite Forall_forall; intros x Hx; apply A; exact Hx].
  unfold Dense. rewrite Forall_forall. intros x Hx. pose proof (A x Hx). split; [lia|]. intros Hp.
  destruct (Sj (x - 1) ltac:(lia)) as (e & He & Ee). apply In_get. exists e. split; [lia|exact Ee].
Qed.

Lemma map_nth_seq' (U : list nat) : map (fun i => nth i U 0%nat) (seq 0 (length U)) = U.
Proof.
  apply nth_ext with (d := 0%nat) (d' := 0%nat); [rewrite map_length, seq_length; reflexivity|].
  intros k Hk. rewrite map_length, seq_length in Hk.
  rewrite (nth_indep _ 0%nat (nth 0%nat U 0%nat)) by (rewrite map_length, seq_length; assumption).
  rewrite (map_nth (fun i => nth i U 0%nat) (seq 0 (length U)) 0%nat). rewrite seq_nth by assumption. reflexivity.
Qed.

Lemma nodup_length_dense n r m : (0 < n)%nat -> DenseTo n r m -> length (nodup Z.eq_dec r) = Z.to_nat (m + 1).
Proof.
  intros Hn HD. pose proof HD as (L & Rg & Sj). assert (0 <= m) by (specialize (Rg 0%nat Hn); lia).
  assert (P : Permutation (nodup Z.eq_dec r) (map Z.of_nat (seq 0 (Z.to_nat (m + 1))))).
  { apply NoDup_Permutation; [apply NoDup_nodup| |].
    - apply FinFun.Injective_map_NoDup; [intros a b E; lia|apply seq_NoDup].
    - intros x. rewrite nodup_In, in_map_iff. split.
      + intros Hx. apply In_get in Hx as (e & He & <-). specialize (Rg e ltac:(lia)).
        exists (Z.to_nat (get r e)). split; [lia|apply in_seq; lia].
      + intros (k & <- & Hk). apply in_seq in Hk. destruct (Sj (Z.of_nat k) ltac:(lia)) as (e & He & Ee).
        apply In_get. exists e. split; [lia|exact Ee]. }
  rewrite (Permutation_length P), map_length, seq_length. reflexivity.
Qed.

Lemma decode_vec_to_buckets U v m : (0 < length U)%nat -> DenseTo (length U) v m ->
  decode_vec U v = map (map (fun i => nth i U 0%nat)) (to_buckets v).
Proof.
  intros Hn HD. unfold decode_vec, to_buckets. rewrite (nodup_length_dense _ v m Hn HD), (dense_vmax _ v m Hn HD), map_map. reflexivity.
Qed.

Theorem decode_vec_wf U v m : NoDup U -> (0 < length U)%nat -> DenseTo (length U) v m ->
  Permutation (elems (decode_vec U v)) U /\ Forall (fun b => b <> []) (decode_vec U v) /\
  forall i, (i < length U)%nat -> bucket_id (decode_vec U v) (nth i U 0%nat) = get v i.
Proof.
  intros NU Hn HD. rewrite (decode_vec_to_buckets U v m Hn HD). pose proof HD as (L & Rg & Sj).
  destruct (denseTo_Dense _ v m HD) as [Dv NNv]. destruct (to_buckets_wf v Dv) as (Ne & Nd & InC).
  assert (PC : Permutation (concat (to_buckets v)) (seq 0 (length U))).
  { apply NoDup_Permutation; [exact Nd|apply seq_NoDup|]. intros e. rewrite InC, in_seq, L. split; [lia|].
    intros He. split; [lia|]. specialize (Rg e ltac:(lia)). lia. }
  assert (Pm : Permutation (elems (map (map (fun i => nth i U 0%nat)) (to_buckets v))) U).
  { unfold elems. rewrite <- concat_map. etransitivity; [apply Permutation_map; exact PC|]. rewrite map_nth_seq'. reflexivity. }
  split; [exact Pm|]. split.
  - rewrite Forall_map. eapply Forall_impl; [|exact Ne]. intros b Hb E. apply map_eq_nil in E. contradiction.
  - intros i Hi. pose proof (Rg i Hi) as Ri. unfold bucket_id.
    assert (NdD : NoDup (concat (map (map (fun i => nth i U 0%nat)) (to_buckets v)))) by (eapply Permutation_NoDup; [symmetry; exact Pm|exact NU]).
    set (j := Z.to_nat (get v i)).
    assert (Hj : (j < length (to_buckets v))%nat).
    { unfold to_buckets. rewrite map_length, seq_length, (dense_vmax _ v m Hn HD). lia. }
    rewrite (bid_of_bucket _ 0 j (nth i U 0%nat) NdD); [lia| |rewrite map_length; exact Hj].
    set (f := fun i0 : nat => nth i0 U 0%nat).
    change (In (f i) (nth j (map (map f) (to_buckets v)) (map f []))).
    rewrite (map_nth (map f) (to_buckets v) [] j). apply (in_map f).
    unfold to_buckets. rewrite (nth_indep _ [] (members v (Z.of_nat 0))) by (rewrite map_length, seq_length, (dense_vmax _ v m Hn HD); lia).
    rewrite (map_nth (fun k => members v (Z.of_nat k))). rewrite seq_nth by (rewrite (dense_vmax _ v m Hn HD); lia).
    apply members_in. split; [lia|lia].
Qed.

(** * the whole algorithm *)
Lemma all_some_list_spec {A} (l : list (option A)) r : all_some_list l = Some r -> l = map Some r.
Proof.
  revert r; induction l as [|[a|] l IH]; intros r E; cbn [all_some_list] in E; try discriminate.
  - inversion E. reflexivity.
  - destruct (all_some_list l) as [r'|]; [|discriminate]. inversion E; subst. cbn [map]. rewrite (IH r' eq_refl). reflexivity.
Qed.

Lemma dedup_vecs_in seen l v : In v (dedup_vecs seen l) -> In v l.
Proof.
  revert seen; induction l as [|a l IH]; intros seen H; [destruct H|]. cbn [dedup_vecs] in H.
  destruct (existsb (list_eqb Z.eqb a) seen); [right; apply (IH _ H)|]. destruct H as [<-|H]; [left; reflexivity|right; apply (IH _ H)].
Qed.

Lemma dedup_vecs_nonempty l : l <> [] -> dedup_vecs [] l <> [].
Proof. destruct l as [|a l]; [contradiction|]. intros _. cbn [dedup_vecs existsb]. discriminate. Qed.

Lemma last_in {A} (l : list A) d : l <> [] -> In (last l d) l.
Proof.
  induction l as [|a l IH]; [contradiction|]. intros _. destruct l as [|b l]; [left; reflexivity|].
  right. apply IH. discriminate.
Qed.

Theorem bioconsert_on_spec fuel one s D deps sc rs :
  valid s ->
  let U := universe D in let n := length U in let K := cost_table s D in
  (0 < n)%nat -> deps <> [] -> Forall (fun d => exists m, DenseTo n d m) deps ->
  bioconsert_on fuel one s D deps = Some (sc, rs) ->
  (forall d, In d deps -> sc <= score_vec K n d) /\ rs <> [] /\ (one = true -> length rs = 1%nat) /\
  forall c, In c rs -> exists v m, c = decode_vec U v /\ DenseTo n v m /\ score_vec K n v = sc /\ local_opt K n v THR = true.
Proof.
  intros Hv U n K Hn Hne HDs E. unfold bioconsert_on in E. fold U n K in E.
  assert (M : mirror K) by apply cost_matrix_mirror.
  destruct (all_some_list (map (bio_one fuel K n) deps)) as [results|] eqn:EA; [|discriminate].
  apply all_some_list_spec in EA. injection E as Esc Ers.
  (* every result comes from a departure and satisfies the local-search theorem *)
  assert (HR : forall vs, In vs results -> exists d, In d deps /\ bio_one fuel K n d = Some vs).
  { intros vs Hvs. assert (In (Some vs) (map (bio_one fuel K n) deps)) as Hin by (rewrite EA; apply in_map; exact Hvs).
    apply in_map_iff in Hin as (d & Ed & Hd). exists d. split; assumption. }
  assert (HRspec : forall v sv, In (v, sv) results ->
            sv = score_vec K n v /\ (exists m, DenseTo n v m) /\ local_opt K n v THR = true /\ exists d, In d deps /\ sv <= score_vec K n d).
  { intros v sv Hvs. destruct (HR _ Hvs) as (d & Hd & Eb). rewrite Forall_forall in HDs. destruct (HDs d Hd) as (m & HDd).
    destruct (bio_one_spec K n fuel d m v sv M Hn HDd Eb) as (E1 & E2 & E3 & E4). split; [exact E1|]. split; [exact E3|]. split; [exact E4|]. exists d. split; assumption. }
  assert (Hlen : length results = length deps) by (rewrite <- (map_length Some results), <- EA, map_length; reflexivity).
  assert (Rne : results <> []) by (intros ->; destruct deps; [contradiction|discriminate]).
  set (scores := map snd results) in *.
  set (best := match scores with [] => 0 | s0 :: l => fold_right Z.min s0 l end) in *.
  assert (Ebest : best = zmin_list scores) by reflexivity.
  assert (Sne : scores <> []) by (unfold scores; intros HH; apply map_eq_nil in HH; contradiction).
  set (bests := map fst (filter (fun rs0 => snd rs0 =? best) results)) in *.
  assert (Bne : bests <> []).
  { pose proof (zmin_list_in scores Sne) as Hin. rewrite <- Ebest in Hin. unfold scores in Hin. apply in_map_iff in Hin as ([v sv] & Es & Hvs).
    cbn [snd] in Es. intros Hb. assert (In v bests) as Hi; [|rewrite Hb in Hi; destruct Hi].
    unfold bests. apply in_map_iff. exists (v, sv). split; [reflexivity|]. apply filter_In. split; [exact Hvs|]. cbn [snd]. apply Z.eqb_eq. exact Es. }
  assert (Bspec : forall v, In v bests -> In (v, best) results).
  { intros v Hvb. unfold bests in Hvb. apply in_map_iff in Hvb as ([v' sv] & <- & Hf). apply filter_In in Hf as [Hr Heq].
    cbn [snd fst] in *. apply Z.eqb_eq in Heq. subst sv. exact Hr. }
  rewrite <- Esc, <- Ers. split; [|split; [|split]].
  - intros d Hd.
    (* the result computed from d has a score >= best *)
    assert (exists vs, In vs results /\ bio_one fuel K n d = Some vs) as (vs & Hvs & Eb).
    { assert (In (bio_one fuel K n d) (map Some results)) as Hin by (rewrite <- EA; apply in_map; exact Hd).
      apply in_map_iff in Hin as (vs & Evs & Hvs). exists vs. split; [exact Hvs|symmetry; exact Evs]. }
    destruct vs as [v sv]. rewrite Forall_forall in HDs. destruct (HDs d Hd) as (m & HDd).
    destruct (bio_one_spec K n fuel d m v sv M Hn HDd Eb) as (_ & E2 & _).
    assert (best <= sv) by (rewrite Ebest; apply zmin_list_le; unfold scores; apply in_map_iff; exists (v, sv); split; [reflexivity|exact Hvs]). lia.
  - destruct one; [discriminate|]. intros HH. apply map_eq_nil in HH. exact (dedup_vecs_nonempty bests Bne HH).
  - intros ->. reflexivity.
  - intros c Hc. apply in_map_iff in Hc as (v & <- & Hv').
    assert (Hvb : In v bests).
    { destruct one; [destruct Hv' as [<-|[]]; apply last_in; exact Bne|apply (dedup_vecs_in [] bests v Hv')]. }
    destruct (HRspec v best (Bspec v Hvb)) as (E1 & (m & HDv) & LO & _). exists v, m. split; [reflexivity|]. split; [exact HDv|]. split; [symmetry; exact E1|exact LO].
Qed.

Lemma all_some_list_some {A} (l : list (option A)) : (forall o, In o l -> exists a, o = Some a) -> exists r, all_some_list l = Some r.
Proof.
  induction l as [|o l IH]; intros H; [exists []; reflexivity|].
  destruct (H o (or_introl eq_refl)) as (a & ->). destruct IH as (r & E); [intros o' Ho'; apply H; right; exact Ho'|].
  exists (a :: r). cbn [all_some_list]. rewrite E. reflexivity.
Qed.

(** enough fuel for every departure: the algorithm answers *)
Theorem bioconsert_on_terminates fuel one s D deps :
  valid s ->
  let U := universe D in let n := length U in let K := cost_table s D in
  (0 < n)%nat -> Forall (fun d => exists m, DenseTo n d m) deps ->
  (forall d, In d deps -> score_vec K n d < Z.of_nat fuel * THR) ->
  exists res, bioconsert_on fuel one s D deps = Some res.
Proof.
  intros [Hnn _] U n K Hn HDs Hf. unfold bioconsert_on. fold U n K.
  assert (M : mirror K) by apply cost_matrix_mirror.
  assert (NN : nonnegK K) by (apply cost_matrix_nonneg; exact Hnn).
  destruct (all_some_list_some (map (bio_one fuel K n) deps)) as (r & E).
  - intros o Ho. apply in_map_iff in Ho as (d & <- & Hd). rewrite Forall_forall in HDs. destruct (HDs d Hd) as (m & HDd).
    exact (bio_one_terminates K n fuel d m M NN Hn HDd (Hf d Hd)).
  - rewrite E. eexists; reflexivity.
Qed.

(** the fuel used by the judges ([JBio.fuel_for]) is enough for the worst departure *)
Lemma fuel_for_enough K n deps d : In d deps -> score_vec K n d < Z.of_nat (fuel_for K n deps) * THR.
Proof.
  intros Hd. unfold fuel_for. set (mx := fold_right Z.max 0 (map (score_vec K n) deps)).
  assert (Hle : score_vec K n d <= mx /\ 0 <= mx).
  { unfold mx. clear mx. induction deps as [|a l IH]; [destruct Hd|]. cbn [map fold_right].
    destruct Hd as [<-|Hd]; [split; [lia|]; clear; induction l as [|b l IH]; cbn [map fold_right]; lia|]. destruct (IH Hd). lia. }
  assert (T : THR = 8) by reflexivity. rewrite T in *.
  pose proof (Z.div_mod mx 8 ltac:(lia)). pose proof (Z.mod_pos_bound mx 8 ltac:(lia)).
  assert (0 <= mx / 8) by (apply Z.div_pos; lia). lia.
Qed.

(** * the departure vectors of the model are dense *)
Lemma complete_perm D r : NoDup (elems r) -> In r D -> forallb (fun x => mem x (elems r)) (universe D) = true ->
  Permutation (elems r) (universe D).
Proof.
  intros Nr Hr Hc. apply NoDup_Permutation; [exact Nr|apply universe_NoDup|]. intros x. split.
  - intros Hx. apply universe_in. exists r. split; [exact Hr|exact Hx].
  - intros Hx. rewrite forallb_forall in Hc. apply mem_In. apply Hc. exact Hx.
Qed.

Theorem departures_plain_dense D :
  (forall r, In r D -> NoDup (elems r) /\ Forall (fun b => b <> []) r) -> (0 < length (universe D))%nat ->
  Forall (fun d => exists m, DenseTo (length (universe D)) d m) (departures_plain D) /\ departures_plain D <> [].
Proof.
  intros Hwf Hn. set (U := universe D). assert (NU : NoDup U) by apply universe_NoDup.
  assert (Hne : forall r, Permutation (elems r) U -> r <> []).
  { intros r P ->. apply Permutation_length in P. cbn in P. fold U in Hn. lia. }
  split; [|unfold departures_plain; intros H; apply app_eq_nil in H as [_ H]; discriminate].
  unfold departures_plain. fold U. apply Forall_app. split; [|constructor; [exists 0; apply all_tied_dense; exact Hn|constructor]].
  rewrite Forall_forall. intros d Hd. apply dedup_vecs_in in Hd. apply in_map_iff in Hd as (r & <- & Hr).
  assert (G : Permutation (elems r) U /\ Forall (fun b => b <> []) r).
  { destruct (is_complete D) eqn:Ec.
    - destruct (Hwf r Hr) as [Nr Ner]. split; [|exact Ner]. unfold is_complete in Ec. rewrite forallb_forall in Ec.
      apply complete_perm; [exact Nr|exact Hr|apply Ec; exact Hr].
    - unfold unified_rankings in Hr. apply in_map_iff in Hr as (r0 & <- & Hr0). destruct (Hwf r0 Hr0) as [Nr Ner]. fold U.
      destruct (unify_perm U r0 NU Nr) as [P Q]; [intros x Hx; apply universe_in; exists r0; split; assumption|].
      split; [exact P|apply Q; exact Ner]. }
  destruct G as [P Ne]. exists (Z.of_nat (length r) - 1). apply vec_of_dense; [exact NU|exact P|exact Ne|apply Hne; exact P].
Qed.

Theorem departures_from_dense D starts :
  (forall c, In c starts -> Permutation (elems c) (universe D) /\ Forall (fun b => b <> []) c) -> (0 < length (universe D))%nat ->
  Forall (fun d => exists m, DenseTo (length (universe D)) d m) (departures_from D starts).
Proof.
  intros Hwf Hn. unfold departures_from. rewrite Forall_forall. intros d Hd. apply dedup_vecs_in in Hd.
  apply in_map_iff in Hd as (c & <- & Hc). destruct (Hwf c Hc) as [P Ne]. exists (Z.of_nat (length c) - 1).
  apply vec_of_dense; [apply universe_NoDup|exact P|exact Ne|]. intros ->. apply Permutation_length in P. cbn in P. lia.
Qed.
